(* RecordsFacts.v — proofs about the records translation of Records.v (stdlib + Graph/GraphFacts). *)
From Coq Require Import List Bool Arith PArith Lia.
From DA Require Import Graph GraphFacts Records.
Import ListNotations.

(* ------------------------------------------------------------------------- *)
(** * Keys, membership, sorting *)

Lemma rkey_eqb_eq : forall a b, rkey_eqb a b = true <-> a = b.
Proof.
  intros [k|p n] [l|q m]; cbn; try (split; discriminate).
  - rewrite Pos.eqb_eq. split; [intros; subst; reflexivity | intro E; inversion E; reflexivity].
  - rewrite andb_true_iff, Pos.eqb_eq, Nat.eqb_eq.
    split; [intros [? ?]; subst; reflexivity | intro E; inversion E; auto].
Qed.

Lemma rkey_eqb_refl : forall a, rkey_eqb a a = true.
Proof. intro a. apply rkey_eqb_eq. reflexivity. Qed.

Lemma rkey_eqb_neq : forall a b, rkey_eqb a b = false <-> a <> b.
Proof.
  intros a b. split.
  - intros E H. apply rkey_eqb_eq in H. congruence.
  - intro H. destruct (rkey_eqb a b) eqn:E; [|reflexivity]. apply rkey_eqb_eq in E. contradiction.
Qed.

Lemma rmem_In : forall k l, rmem k l = true <-> In k l.
Proof.
  intros k l; induction l as [|x t IH]; cbn; [split; [discriminate|tauto]|].
  rewrite orb_true_iff, rkey_eqb_eq, IH. split; intros [H|H]; auto.
Qed.

Section SortFacts.
  Variable kle : rkey -> rkey -> bool.

  Lemma insert_key_In : forall x y l, In x (insert_key kle y l) <-> x = y \/ In x l.
  Proof.
    intros x y l; induction l as [|z t IH]; cbn; [intuition|].
    destruct (kle y z); cbn; [intuition|]. rewrite IH. intuition.
  Qed.

  Lemma sort_keys_In : forall x l, In x (sort_keys kle l) <-> In x l.
  Proof.
    intros x l; induction l as [|z t IH]; [cbn; tauto|].
    change (In x (insert_key kle z (sort_keys kle t)) <-> In x (z :: t)).
    rewrite insert_key_In, IH. cbn. intuition.
  Qed.

  Lemma insert_key_NoDup : forall y l, ~ In y l -> NoDup l -> NoDup (insert_key kle y l).
  Proof.
    intros y l; induction l as [|z t IH]; cbn; intros Hn Hnd.
    - constructor; [intros []|constructor].
    - destruct (kle y z).
      + constructor; assumption.
      + inversion Hnd as [|? ? Hz Ht]; subst. constructor.
        * rewrite insert_key_In. intros [E|H]; [apply Hn; left; exact E | contradiction].
        * apply IH; [intro H; apply Hn; right; exact H | exact Ht].
  Qed.

  Lemma sort_keys_NoDup : forall l, NoDup l -> NoDup (sort_keys kle l).
  Proof.
    induction l as [|z t IH]; intro H; [constructor|].
    change (NoDup (insert_key kle z (sort_keys kle t))).
    inversion H; subst. apply insert_key_NoDup; [rewrite sort_keys_In; assumption | auto].
  Qed.

  Lemma sorted_deps_In : forall x ds, In x (sorted_deps kle ds) <-> In x ds.
  Proof. intros. unfold sorted_deps. rewrite sort_keys_In. apply nodup_In. Qed.

  Lemma sorted_deps_NoDup : forall ds, NoDup (sorted_deps kle ds).
  Proof. intro ds. unfold sorted_deps. apply sort_keys_NoDup. apply NoDup_nodup. Qed.
End SortFacts.

(* ------------------------------------------------------------------------- *)
(** * Induction principles for the nested types *)

Section ArgInd.
  Variable P : arg -> Prop.
  Hypothesis HRef : forall k, P (ARef k).
  Hypothesis HAlias : forall k, P (AAlias k).
  Hypothesis HData : forall v, P (AData v).
  Hypothesis HSeq : forall s items, Forall P items -> P (ASeq s items).
  Hypothesis HTask : forall f args kwargs,
    Forall P args -> Forall (fun kv => P (snd kv)) kwargs -> P (ATask f args kwargs).
  Hypothesis HOther : P AOther.
  Hypothesis HDict : forall items, Forall (fun kv => P (snd kv)) items -> P (ADict items).
  Hypothesis HLit : forall t, P (ALit t).

  Fixpoint arg_ind2 (a : arg) : P a :=
    match a with
    | ARef k => HRef k
    | AAlias k => HAlias k
    | AData v => HData v
    | ASeq s items =>
      HSeq s items ((fix go (l : list arg) : Forall P l :=
                       match l with
                       | [] => Forall_nil _
                       | x :: r => Forall_cons x (arg_ind2 x) (go r)
                       end) items)
    | ATask f args kwargs =>
      HTask f args kwargs
            ((fix go (l : list arg) : Forall P l :=
                match l with
                | [] => Forall_nil _
                | x :: r => Forall_cons x (arg_ind2 x) (go r)
                end) args)
            ((fix go (l : list (tag * arg)) : Forall (fun kv => P (snd kv)) l :=
                match l with
                | [] => Forall_nil _
                | (k, x) :: r => Forall_cons (k, x) (arg_ind2 x) (go r)
                end) kwargs)
    | AOther => HOther
    | ADict items =>
      HDict items ((fix go (l : list (tag * arg)) : Forall (fun kv => P (snd kv)) l :=
                      match l with
                      | [] => Forall_nil _
                      | (k, x) :: r => Forall_cons (k, x) (arg_ind2 x) (go r)
                      end) items)
    | ALit t => HLit t
    end.
End ArgInd.

Section TargInd.
  Variable P : targ -> Prop.
  Hypothesis HRef : forall k, P (TRef k).
  Hypothesis HLit : forall t, P (TLit t).
  Hypothesis HList : forall l, Forall P l -> P (TList l).
  Hypothesis HTuple : forall l, Forall P l -> P (TTuple l).
  Hypothesis HDict : forall l, Forall (fun kv => P (snd kv)) l -> P (TDict l).

  Fixpoint targ_ind2 (t : targ) : P t :=
    match t with
    | TRef k => HRef k
    | TLit t => HLit t
    | TList l =>
      HList l ((fix go (l : list targ) : Forall P l :=
                  match l with [] => Forall_nil _ | x :: r => Forall_cons x (targ_ind2 x) (go r) end) l)
    | TTuple l =>
      HTuple l ((fix go (l : list targ) : Forall P l :=
                   match l with [] => Forall_nil _ | x :: r => Forall_cons x (targ_ind2 x) (go r) end) l)
    | TDict l =>
      HDict l ((fix go (l : list (tag * targ)) : Forall (fun kv => P (snd kv)) l :=
                  match l with
                  | [] => Forall_nil _
                  | (k, x) :: r => Forall_cons (k, x) (targ_ind2 x) (go r)
                  end) l)
    end.
End TargInd.

(* ------------------------------------------------------------------------- *)
(** * Unfolding equations (the local fixpoints are the list versions) *)

Lemma trefs_TList : forall l, trefs (TList l) = trefs_list l.
Proof. intro l. cbn. induction l as [|x r IH]; [reflexivity|]. cbn. rewrite IH. reflexivity. Qed.
Lemma trefs_TTuple : forall l, trefs (TTuple l) = trefs_list l.
Proof. intro l. cbn. induction l as [|x r IH]; [reflexivity|]. cbn. rewrite IH. reflexivity. Qed.
Lemma trefs_TDict : forall l, trefs (TDict l) = trefs_kw l.
Proof. intro l. cbn. induction l as [|[k x] r IH]; [reflexivity|]. cbn. rewrite IH. reflexivity. Qed.

Lemma arefs_ASeq : forall s l, arefs (ASeq s l) = arefs_list l.
Proof. intros s l. cbn. induction l as [|x r IH]; [reflexivity|]. cbn. rewrite IH. reflexivity. Qed.
Lemma arefs_ADict : forall l, arefs (ADict l) = arefs_kw l.
Proof. intro l. cbn. induction l as [|[k x] r IH]; [reflexivity|]. cbn. rewrite IH. reflexivity. Qed.
Lemma arefs_ATask : forall f a k, arefs (ATask f a k) = arefs_list a ++ arefs_kw k.
Proof.
  intros f a k. rewrite <- (arefs_ASeq RawList a), <- (arefs_ADict k). reflexivity.
Qed.

Lemma ntasks_ASeq : forall s l, ntasks (ASeq s l) = ntasks_list l.
Proof. intros s l. cbn. induction l as [|x r IH]; [reflexivity|]. cbn. rewrite IH. reflexivity. Qed.
Lemma ntasks_ADict : forall l, ntasks (ADict l) = ntasks_kw l.
Proof. intro l. cbn. induction l as [|[k x] r IH]; [reflexivity|]. cbn. rewrite IH. reflexivity. Qed.
Lemma ntasks_ATask : forall f a k, ntasks (ATask f a k) = S (ntasks_list a + ntasks_kw k).
Proof.
  intros f a k. rewrite <- (ntasks_ASeq RawList a), <- (ntasks_ADict k). reflexivity.
Qed.

Lemma supported_ASeq : forall s l, supported_arg (ASeq s l) = supported_list l.
Proof. intros s l. cbn. induction l as [|x r IH]; [reflexivity|]. cbn. rewrite IH. reflexivity. Qed.
Lemma supported_ADict : forall l, supported_arg (ADict l) = supported_kw l.
Proof. intro l. cbn. induction l as [|[k x] r IH]; [reflexivity|]. cbn. rewrite IH. reflexivity. Qed.
Lemma supported_ATask : forall f a k, supported_arg (ATask f a k) = supported_list a && supported_kw k.
Proof.
  intros f a k. rewrite <- (supported_ASeq RawList a), <- (supported_ADict k). reflexivity.
Qed.

Lemma data_ok_ASeq : forall s l, data_ok_arg (ASeq s l) = data_ok_list l.
Proof. intros s l. cbn. induction l as [|x r IH]; [reflexivity|]. cbn. rewrite IH. reflexivity. Qed.
Lemma data_ok_ADict : forall l, data_ok_arg (ADict l) = data_ok_kw l.
Proof. intro l. cbn. induction l as [|[k x] r IH]; [reflexivity|]. cbn. rewrite IH. reflexivity. Qed.
Lemma data_ok_ATask : forall f a k, data_ok_arg (ATask f a k) = data_ok_list a && data_ok_kw k.
Proof.
  intros f a k. rewrite <- (data_ok_ASeq RawList a), <- (data_ok_ADict k). reflexivity.
Qed.

Section ResolveEqs.
  Variable kle : rkey -> rkey -> bool.

  Lemma resolve_ASeq : forall p s items n,
    resolve kle p (ASeq s items) n =
    let '(ts, ds, n1, e1) := resolve_list kle p items n in
    ((if seq_is_list s then TList ts else TTuple ts), ds, n1, e1).
  Proof. reflexivity. Qed.

  Lemma resolve_ADict : forall p items n,
    resolve kle p (ADict items) n =
    let '(tk, ds, n1, e1) := resolve_kw kle p items n in (TDict tk, ds, n1, e1).
  Proof. reflexivity. Qed.

  Lemma resolve_ATask : forall p f args kwargs n,
    resolve kle p (ATask f args kwargs) n =
    let '(ta, d1, n1, e1) := resolve_list kle p args (S n) in
    let '(tk, d2, n2, e2) := resolve_kw kle p kwargs n1 in
    (TRef (KSub p (S n)), [KSub p (S n)], n2,
     e1 ++ e2 ++ [mkrec (KSub p (S n)) f ta tk (sorted_deps kle (d1 ++ d2))]).
  Proof. reflexivity. Qed.
End ResolveEqs.

(* ------------------------------------------------------------------------- *)
(** * The invariant of `resolve` *)

Lemma NoDup_app_intro : forall A (a b : list A),
  NoDup a -> NoDup b -> (forall z, In z a -> ~ In z b) -> NoDup (a ++ b).
Proof.
  induction a as [|u a IH]; cbn; intros b Ha Hb Hd; [exact Hb|].
  inversion Ha; subst. constructor.
  - intro Hin. apply in_app_or in Hin. destruct Hin as [Hin|Hin]; [contradiction|].
    apply (Hd u); [left; reflexivity | exact Hin].
  - apply IH; [assumption|assumption|]. intros z Hz Hzb. apply (Hd z); [right; exact Hz | exact Hzb].
Qed.

(* every record depends only on graph keys and on records EARLIER in the list (or in av) *)
Fixpoint ordered (av : list rkey) (ex : list rec) : Prop :=
  match ex with
  | [] => True
  | r :: t => (forall x, In x (r_deps r) -> (exists d, x = KG d) \/ In x av) /\ ordered (r_key r :: av) t
  end.

Lemma ordered_mono : forall ex av av', (forall x, In x av -> In x av') -> ordered av ex -> ordered av' ex.
Proof.
  induction ex as [|r t IH]; cbn; intros av av' Hi H; [exact I|].
  destruct H as [H1 H2]. split.
  - intros x Hx. destruct (H1 x Hx) as [H|H]; [left; exact H | right; apply Hi; exact H].
  - apply (IH (r_key r :: av)); [|exact H2]. intros x [E|Hx]; [left; exact E | right; apply Hi; exact Hx].
Qed.

Lemma ordered_app : forall e1 e2 av,
  ordered av e1 -> ordered (rev (map r_key e1) ++ av) e2 -> ordered av (e1 ++ e2).
Proof.
  induction e1 as [|r t IH]; cbn; intros e2 av H1 H2; [exact H2|].
  destruct H1 as [Ha Hb]. split; [exact Ha|].
  apply IH; [exact Hb|]. rewrite <- app_assoc in H2. exact H2.
Qed.

Definition in_range (p : key) (n n' : nat) (x : rkey) : Prop := exists i, x = KSub p i /\ n < i <= n'.

Section Invariant.
  Variable kle : rkey -> rkey -> bool.

  (* refs: the source keys referenced; nt: the number of inline tasks; n / n': self._n before /
     after; trs: the TaskRefs of the resolved result; ds: the keys added to `deps`; ex: the
     records appended to self.extra *)
  Record res_ok (ok : bool) (p : key) (refs : list key) (nt n : nat) (trs ds : list rkey) (n' : nat) (ex : list rec) : Prop := {
    ro_deps : ok = true -> ds = trs;
    ro_n : n' = n + nt;
    ro_keys : forall r, In r ex -> in_range p n n' (r_key r);
    ro_nodup : NoDup (map r_key ex);
    ro_all : forall i, n < i <= n' -> In (KSub p i) (map r_key ex);
    ro_exact : ok = true -> forall r, In r ex -> r_deps r = sorted_deps kle (rec_refs r);
    ro_bound : forall x, (In x ds \/ exists r, In r ex /\ In x (r_deps r)) ->
                         (exists d, x = KG d /\ In d refs) \/ in_range p n n' x;
    ro_cover : forall d, In d refs -> In (KG d) ds \/ exists r, In r ex /\ In (KG d) (r_deps r);
    ro_ordered : ordered [] ex }.

  Lemma res_ok_leaf : forall ok p n trs, (ok = true -> trs = []) -> res_ok ok p [] 0 n trs [] n [].
  Proof.
    intros ok p n trs Ht. constructor.
    - intro H. symmetry. exact (Ht H).
    - lia.
    - intros r [].
    - constructor.
    - intros i Hi. lia.
    - intros _ r [].
    - intros x [[]|[r [[] _]]].
    - intros d [].
    - exact I.
  Qed.

  Lemma res_ok_ref : forall ok p n k, res_ok ok p [k] 0 n [KG k] [KG k] n [].
  Proof.
    intros ok p n k. constructor.
    - reflexivity.
    - lia.
    - intros r [].
    - constructor.
    - intros i Hi. lia.
    - intros _ r [].
    - intros x [[E|[]]|[r [[] _]]]. left. exists k. split; [symmetry; exact E | left; reflexivity].
    - intros d [E|[]]. subst. left. left. reflexivity.
    - exact I.
  Qed.

  Lemma res_ok_app : forall b1 b2 p r1 r2 t1 t2 n n1 n2 trs1 trs2 ds1 ds2 e1 e2,
    res_ok b1 p r1 t1 n trs1 ds1 n1 e1 -> res_ok b2 p r2 t2 n1 trs2 ds2 n2 e2 ->
    res_ok (b1 && b2) p (r1 ++ r2) (t1 + t2) n (trs1 ++ trs2) (ds1 ++ ds2) n2 (e1 ++ e2).
  Proof.
    intros b1 b2 p r1 r2 t1 t2 n n1 n2 trs1 trs2 ds1 ds2 e1 e2 A B.
    pose proof (ro_n _ _ _ _ _ _ _ _ _ A) as Hn1. pose proof (ro_n _ _ _ _ _ _ _ _ _ B) as Hn2.
    constructor.
    - intro Hb. apply andb_true_iff in Hb. destruct Hb as [Hb1 Hb2].
      rewrite (ro_deps _ _ _ _ _ _ _ _ _ A Hb1), (ro_deps _ _ _ _ _ _ _ _ _ B Hb2). reflexivity.
    - lia.
    - intros r Hr. apply in_app_or in Hr. destruct Hr as [Hr|Hr].
      + destruct (ro_keys _ _ _ _ _ _ _ _ _ A r Hr) as [i [E Hi]]. exists i. split; [exact E | lia].
      + destruct (ro_keys _ _ _ _ _ _ _ _ _ B r Hr) as [i [E Hi]]. exists i. split; [exact E | lia].
    - rewrite map_app. apply NoDup_app_intro;
        [exact (ro_nodup _ _ _ _ _ _ _ _ _ A) | exact (ro_nodup _ _ _ _ _ _ _ _ _ B) |].
      intros z Hz1 Hz2. apply in_map_iff in Hz1. destruct Hz1 as [ra [Ea Ha]].
      apply in_map_iff in Hz2. destruct Hz2 as [rb [Eb Hb]].
      destruct (ro_keys _ _ _ _ _ _ _ _ _ A ra Ha) as [i [Ei Hi]].
      destruct (ro_keys _ _ _ _ _ _ _ _ _ B rb Hb) as [j [Ej Hj]].
      rewrite Ea in Ei. rewrite Eb in Ej. rewrite Ei in Ej. inversion Ej. lia.
    - intros i Hi. rewrite map_app. apply in_or_app.
      destruct (le_lt_dec i n1) as [Hle|Hgt].
      + left. apply (ro_all _ _ _ _ _ _ _ _ _ A). lia.
      + right. apply (ro_all _ _ _ _ _ _ _ _ _ B). lia.
    - intros Hb r Hr. apply andb_true_iff in Hb. destruct Hb as [Hb1 Hb2].
      apply in_app_or in Hr. destruct Hr as [Hr|Hr];
        [exact (ro_exact _ _ _ _ _ _ _ _ _ A Hb1 r Hr) | exact (ro_exact _ _ _ _ _ _ _ _ _ B Hb2 r Hr)].
    - intros x Hx.
      assert (HA : (In x ds1 \/ exists r, In r e1 /\ In x (r_deps r)) \/
                   (In x ds2 \/ exists r, In r e2 /\ In x (r_deps r))).
      { destruct Hx as [Hx|[r [Hr Hd]]].
        - apply in_app_or in Hx. destruct Hx; [left; left; assumption | right; left; assumption].
        - apply in_app_or in Hr. destruct Hr; [left; right; eauto | right; right; eauto]. }
      destruct HA as [HA|HA].
      + destruct (ro_bound _ _ _ _ _ _ _ _ _ A x HA) as [[d [E Hd]]|[i [E Hi]]].
        * left. exists d. split; [exact E | apply in_or_app; left; exact Hd].
        * right. exists i. split; [exact E | lia].
      + destruct (ro_bound _ _ _ _ _ _ _ _ _ B x HA) as [[d [E Hd]]|[i [E Hi]]].
        * left. exists d. split; [exact E | apply in_or_app; right; exact Hd].
        * right. exists i. split; [exact E | lia].
    - intros d Hd. apply in_app_or in Hd. destruct Hd as [Hd|Hd].
      + destruct (ro_cover _ _ _ _ _ _ _ _ _ A d Hd) as [H|[r [Hr Hx]]].
        * left. apply in_or_app. left; exact H.
        * right. exists r. split; [apply in_or_app; left; exact Hr | exact Hx].
      + destruct (ro_cover _ _ _ _ _ _ _ _ _ B d Hd) as [H|[r [Hr Hx]]].
        * left. apply in_or_app. right; exact H.
        * right. exists r. split; [apply in_or_app; right; exact Hr | exact Hx].
    - apply ordered_app; [exact (ro_ordered _ _ _ _ _ _ _ _ _ A)|].
      apply (ordered_mono e2 []); [intros x [] | exact (ro_ordered _ _ _ _ _ _ _ _ _ B)].
  Qed.

  (* lifting an inline Task whose arguments were resolved with result (trs, ds, n2, ex) *)
  Lemma res_ok_task : forall ok p refs nt n trs ds n2 ex f ta tk,
    res_ok ok p refs nt (S n) trs ds n2 ex ->
    trefs_list ta ++ trefs_kw tk = trs ->
    res_ok ok p refs (S nt) n [KSub p (S n)] [KSub p (S n)] n2
           (ex ++ [mkrec (KSub p (S n)) f ta tk (sorted_deps kle ds)]).
  Proof.
    intros ok p refs nt n trs ds n2 ex f ta tk A Etrs.
    pose proof (ro_n _ _ _ _ _ _ _ _ _ A) as Hn.
    set (r0 := mkrec (KSub p (S n)) f ta tk (sorted_deps kle ds)).
    constructor.
    - reflexivity.
    - lia.
    - intros r Hr. apply in_app_or in Hr. destruct Hr as [Hr|[E|[]]].
      + destruct (ro_keys _ _ _ _ _ _ _ _ _ A r Hr) as [i [E Hi]]. exists i. split; [exact E | lia].
      + subst r. exists (S n). split; [reflexivity | lia].
    - rewrite map_app. apply NoDup_app_intro; [exact (ro_nodup _ _ _ _ _ _ _ _ _ A) | |].
      + cbn. constructor; [intros [] | constructor].
      + intros z Hz [E|[]]. apply in_map_iff in Hz. destruct Hz as [ra [Ea Ha]].
        destruct (ro_keys _ _ _ _ _ _ _ _ _ A ra Ha) as [i [Ei Hi]].
        rewrite Ea in Ei. rewrite <- E in Ei. cbn in Ei. inversion Ei. lia.
    - intros i Hi. rewrite map_app. apply in_or_app.
      destruct (Nat.eq_dec i (S n)) as [E|Hne].
      + right. subst i. left. reflexivity.
      + left. apply (ro_all _ _ _ _ _ _ _ _ _ A). lia.
    - intros Hb r Hr. apply in_app_or in Hr. destruct Hr as [Hr|[E|[]]].
      + exact (ro_exact _ _ _ _ _ _ _ _ _ A Hb r Hr).
      + subst r. unfold r0, rec_refs. cbn. rewrite Etrs. rewrite (ro_deps _ _ _ _ _ _ _ _ _ A Hb). reflexivity.
    - intros x Hx.
      assert (HA : x = KSub p (S n) \/ (In x ds \/ exists r, In r ex /\ In x (r_deps r))).
      { destruct Hx as [[E|[]]|[r [Hr Hd]]]; [left; symmetry; exact E|].
        apply in_app_or in Hr. destruct Hr as [Hr|[E|[]]]; [right; right; eauto|].
        subst r. unfold r0 in Hd. cbn in Hd. apply sorted_deps_In in Hd. right; left; exact Hd. }
      destruct HA as [E|HA].
      + right. exists (S n). split; [exact E | lia].
      + destruct (ro_bound _ _ _ _ _ _ _ _ _ A x HA) as [H|[i [E Hi]]]; [left; exact H|].
        right. exists i. split; [exact E | lia].
    - intros d Hd. right. destruct (ro_cover _ _ _ _ _ _ _ _ _ A d Hd) as [H|[r [Hr Hx]]].
      + exists r0. split; [apply in_or_app; right; left; reflexivity|].
        unfold r0. cbn. apply sorted_deps_In. exact H.
      + exists r. split; [apply in_or_app; left; exact Hr | exact Hx].
    - apply ordered_app; [exact (ro_ordered _ _ _ _ _ _ _ _ _ A)|].
      cbn. split; [|exact I]. intros x Hx. apply sorted_deps_In in Hx.
      destruct (ro_bound _ _ _ _ _ _ _ _ _ A x (or_introl Hx)) as [[d [E _]]|[i [E Hi]]].
      + left. exists d. exact E.
      + right. rewrite app_nil_r. rewrite <- in_rev. subst x. apply (ro_all _ _ _ _ _ _ _ _ _ A). exact Hi.
  Qed.

  Lemma resolve_list_cons : forall p x t n,
    resolve_list kle p (x :: t) n =
    let '(tx, dx, n1, e1) := resolve kle p x n in
    let '(tr, dt, n2, e2) := resolve_list kle p t n1 in
    (tx :: tr, dx ++ dt, n2, e1 ++ e2).
  Proof. reflexivity. Qed.

  Lemma resolve_kw_cons : forall p k x t n,
    resolve_kw kle p ((k, x) :: t) n =
    let '(tx, dx, n1, e1) := resolve kle p x n in
    let '(tr, dt, n2, e2) := resolve_kw kle p t n1 in
    ((k, tx) :: tr, dx ++ dt, n2, e1 ++ e2).
  Proof. reflexivity. Qed.

  Definition resolve_inv (a : arg) : Prop :=
    forall p n t ds n' ex, resolve kle p a n = (t, ds, n', ex) ->
    res_ok (data_ok_arg a) p (arefs a) (ntasks a) n (trefs t) ds n' ex.

  Lemma resolve_list_inv : forall l, Forall resolve_inv l ->
    forall p n ts ds n' ex, resolve_list kle p l n = (ts, ds, n', ex) ->
    res_ok (data_ok_list l) p (arefs_list l) (ntasks_list l) n (trefs_list ts) ds n' ex.
  Proof.
    intros l Hl; induction Hl as [|x t Hx Ht IH]; intros p n ts ds n' ex E.
    - cbn in E. inversion E; subst. apply res_ok_leaf. reflexivity.
    - rewrite resolve_list_cons in E.
      destruct (resolve kle p x n) as [[[tx dx] n1] e1] eqn:E1.
      destruct (resolve_list kle p t n1) as [[[tr dt] n2] e2] eqn:E2.
      inversion E; subst.
      cbn [arefs_list ntasks_list trefs_list data_ok_list].
      apply (res_ok_app _ _ p _ _ _ _ n n1 n'); [apply Hx; assumption | apply IH; assumption].
  Qed.

  Lemma resolve_kw_inv : forall l, Forall (fun kv => resolve_inv (snd kv)) l ->
    forall p n ts ds n' ex, resolve_kw kle p l n = (ts, ds, n', ex) ->
    res_ok (data_ok_kw l) p (arefs_kw l) (ntasks_kw l) n (trefs_kw ts) ds n' ex.
  Proof.
    intros l Hl; induction Hl as [|[k x] t Hx Ht IH]; intros p n ts ds n' ex E.
    - cbn in E. inversion E; subst. apply res_ok_leaf. reflexivity.
    - rewrite resolve_kw_cons in E.
      destruct (resolve kle p x n) as [[[tx dx] n1] e1] eqn:E1.
      destruct (resolve_kw kle p t n1) as [[[tr dt] n2] e2] eqn:E2.
      inversion E; subst.
      cbn [arefs_kw ntasks_kw trefs_kw data_ok_kw].
      apply (res_ok_app _ _ p _ _ _ _ n n1 n'); [apply Hx; assumption | apply IH; assumption].
  Qed.

  Theorem resolve_ok : forall a, resolve_inv a.
  Proof.
    induction a as [k|k|v|s items IH|f args kwargs IHa IHk| |items IH|t] using arg_ind2;
      intros p n t0 ds n' ex E.
    - cbn in E. inversion E; subst. apply res_ok_ref.
    - cbn in E. inversion E; subst. apply res_ok_ref.
    - cbn in E. inversion E; subst. apply res_ok_leaf. cbn. unfold tref_free.
      destruct (trefs t0); [reflexivity | discriminate].
    - rewrite resolve_ASeq in E. destruct (resolve_list kle p items n) as [[[ts d1] n1] e1] eqn:E1.
      inversion E; subst. rewrite arefs_ASeq, ntasks_ASeq, data_ok_ASeq.
      assert (Ht : trefs (if seq_is_list s then TList ts else TTuple ts) = trefs_list ts).
      { destruct (seq_is_list s); [apply trefs_TList | apply trefs_TTuple]. }
      rewrite Ht. apply (resolve_list_inv items IH); assumption.
    - rewrite resolve_ATask in E.
      destruct (resolve_list kle p args (S n)) as [[[ta d1] n1] e1] eqn:E1.
      destruct (resolve_kw kle p kwargs n1) as [[[tk d2] n2] e2] eqn:E2.
      inversion E; subst. rewrite arefs_ATask, ntasks_ATask, data_ok_ATask.
      pose proof (resolve_list_inv args IHa p (S n) ta d1 n1 e1 E1) as A.
      pose proof (resolve_kw_inv kwargs IHk p n1 tk d2 n' e2 E2) as B.
      pose proof (res_ok_app _ _ _ _ _ _ _ _ _ _ _ _ _ _ _ _ A B) as C.
      rewrite app_assoc. cbn [trefs].
      apply (res_ok_task _ p _ _ n _ _ n' _ f ta tk C). reflexivity.
    - cbn in E. inversion E; subst. apply res_ok_leaf. reflexivity.
    - rewrite resolve_ADict in E. destruct (resolve_kw kle p items n) as [[[tk d1] n1] e1] eqn:E1.
      inversion E; subst. rewrite arefs_ADict, ntasks_ADict, trefs_TDict, data_ok_ADict.
      apply (resolve_kw_inv items IH); assumption.
    - cbn in E. inversion E; subst. apply res_ok_leaf. reflexivity.
  Qed.

  Lemma resolve_list_ok : forall l p n ts ds n' ex,
    resolve_list kle p l n = (ts, ds, n', ex) ->
    res_ok (data_ok_list l) p (arefs_list l) (ntasks_list l) n (trefs_list ts) ds n' ex.
  Proof.
    intros l. apply resolve_list_inv. apply Forall_forall. intros x _. apply resolve_ok.
  Qed.

  Lemma resolve_kw_ok : forall l p n ts ds n' ex,
    resolve_kw kle p l n = (ts, ds, n', ex) ->
    res_ok (data_ok_kw l) p (arefs_kw l) (ntasks_kw l) n (trefs_kw ts) ds n' ex.
  Proof.
    intros l. apply resolve_kw_inv. apply Forall_forall. intros x _. apply resolve_ok.
  Qed.
End Invariant.

(* ------------------------------------------------------------------------- *)
(** * `_records`: what one graph node is translated to *)

Lemma NoDup_flat_map_in : forall A B (f : A -> list B) l,
  NoDup l -> (forall x, In x l -> NoDup (f x)) ->
  (forall x y z, In x l -> In y l -> In z (f x) -> In z (f y) -> x = y) ->
  NoDup (flat_map f l).
Proof.
  intros A B f l Hl; induction Hl as [|x t Hx Ht IH]; cbn; intros Hf Hdis; [constructor|].
  apply NoDup_app_intro.
  - apply Hf. left; reflexivity.
  - apply IH; [intros y Hy; apply Hf; right; exact Hy|].
    intros a b z Ha Hb. apply Hdis; right; assumption.
  - intros z Hz Hin. apply in_flat_map in Hin. destruct Hin as [y [Hy Hzy]].
    assert (x = y) by (apply (Hdis x y z); [left; reflexivity | right; exact Hy | exact Hz | exact Hzy]).
    subst. contradiction.
Qed.

Lemma map_flat_map : forall A B C (f : A -> list B) (h : B -> C) l,
  map h (flat_map f l) = flat_map (fun x => map h (f x)) l.
Proof.
  intros A B C f h l; induction l as [|x t IH]; cbn; [reflexivity|]. rewrite map_app, IH. reflexivity.
Qed.

Section NodeFacts.
  Variable kle : rkey -> rkey -> bool.

  (* the main record m of key k and the lifted records ex *)
  Definition node_ok (k : key) (nd : node) (m : rec) (ex : list rec) : Prop :=
    r_key m = KG k /\
    exists ds nt n', r_deps m = sorted_deps kle ds /\
                     res_ok kle (data_ok_node nd) k (nrefs nd) nt 0 (rec_refs m) ds n' ex.

  Lemma records_spec : forall k nd,
    match records kle k nd with
    | [] => nd = NAlias k \/ nd = NOther
    | m :: ex => node_ok k nd m ex
    end.
  Proof.
    intros k [t|v|b items|f args kwargs|]; cbn [records].
    - destruct (Pos.eqb t k) eqn:E.
      + apply Pos.eqb_eq in E. subst. left; reflexivity.
      + split; [reflexivity|]. exists [KG t], 0, 0. split; [reflexivity|]. cbn. apply res_ok_ref.
    - split; [reflexivity|]. exists [], 0, 0. split; [reflexivity|]. apply res_ok_leaf.
      unfold rec_refs. cbn. unfold tref_free. rewrite !app_nil_r.
      destruct (trefs v); [reflexivity | discriminate].
    - destruct (resolve kle k (ASeq (if b then ContList else ContTuple) items) 0) as [[[t ds] n'] ex] eqn:E.
      split; [reflexivity|]. exists ds, (ntasks (ASeq (if b then ContList else ContTuple) items)), n'.
      split; [reflexivity|].
      pose proof (resolve_ok kle _ _ _ _ _ _ _ E) as A.
      rewrite arefs_ASeq, data_ok_ASeq in A. unfold rec_refs. cbn. rewrite !app_nil_r. exact A.
    - destruct (resolve_list kle k args 0) as [[[ta d1] n1] e1] eqn:E1.
      destruct (resolve_kw kle k kwargs n1) as [[[tk d2] n2] e2] eqn:E2.
      split; [reflexivity|]. exists (d1 ++ d2), (ntasks_list args + ntasks_kw kwargs), n2.
      split; [reflexivity|].
      exact (res_ok_app kle _ _ _ _ _ _ _ _ _ _ _ _ _ _ _ _
               (resolve_list_ok kle _ _ _ _ _ _ _ E1) (resolve_kw_ok kle _ _ _ _ _ _ _ E2)).
    - right; reflexivity.
  Qed.

  Lemma records_cons : forall k nd, nd <> NAlias k -> nd <> NOther ->
    exists m ex, records kle k nd = m :: ex /\ node_ok k nd m ex.
  Proof.
    intros k nd H1 H2. pose proof (records_spec k nd) as S.
    destruct (records kle k nd) as [|m ex]; [destruct S; contradiction|]. eauto.
  Qed.

  Lemma in_flatten : forall g r, In r (flatten kle g) <-> exists k nd, In (k, nd) g /\ In r (records kle k nd).
  Proof.
    intros g r. unfold flatten. rewrite in_flat_map. split.
    - intros [[k nd] [H1 H2]]. eauto.
    - intros [k [nd [H1 H2]]]. exists (k, nd). split; assumption.
  Qed.

  (* every key of the records of node k is `KG k` or a lifted `KSub k i`, i >= 1 *)
  Lemma records_keys : forall k nd r, In r (records kle k nd) ->
    r_key r = KG k \/ exists i, r_key r = KSub k i /\ 1 <= i.
  Proof.
    intros k nd r Hr. pose proof (records_spec k nd) as S.
    destruct (records kle k nd) as [|m ex]; [destruct Hr|].
    destruct S as [Ek [ds [nt [n' [_ A]]]]]. destruct Hr as [E|Hr].
    - subst. left; exact Ek.
    - right. destruct (ro_keys _ _ _ _ _ _ _ _ _ _ A r Hr) as [i [E Hi]]. exists i. split; [exact E | lia].
  Qed.

  Lemma records_keys_NoDup : forall k nd, NoDup (map r_key (records kle k nd)).
  Proof.
    intros k nd. pose proof (records_spec k nd) as S.
    destruct (records kle k nd) as [|m ex]; [constructor|].
    destruct S as [Ek [ds [nt [n' [_ A]]]]]. cbn. constructor; [|exact (ro_nodup _ _ _ _ _ _ _ _ _ _ A)].
    intro Hin. apply in_map_iff in Hin. destruct Hin as [r [Er Hr]].
    destruct (ro_keys _ _ _ _ _ _ _ _ _ _ A r Hr) as [i [E _]]. rewrite Er, Ek in E. discriminate.
  Qed.

  (* the declared deps of every emitted record are sorted(set(the TaskRefs embedded in it)) *)
  Lemma records_deps_exact : forall k nd r, data_ok_node nd = true -> In r (records kle k nd) ->
    r_deps r = sorted_deps kle (rec_refs r).
  Proof.
    intros k nd r Hok Hr. pose proof (records_spec k nd) as S.
    destruct (records kle k nd) as [|m ex]; [destruct Hr|].
    destruct S as [Ek [ds [nt [n' [Ed A]]]]]. destruct Hr as [E|Hr].
    - subst. rewrite Ed. rewrite (ro_deps _ _ _ _ _ _ _ _ _ _ A Hok). reflexivity.
    - exact (ro_exact _ _ _ _ _ _ _ _ _ _ A Hok r Hr).
  Qed.

  (* a dependency of a record of node k is a key the node references, or another record of node k *)
  Lemma records_deps_bound : forall k nd r x, In r (records kle k nd) -> In x (r_deps r) ->
    (exists d, x = KG d /\ In d (nrefs nd)) \/
    (exists i, x = KSub k i) /\ In x (map r_key (records kle k nd)).
  Proof.
    intros k nd r x Hr Hx. pose proof (records_spec k nd) as S.
    destruct (records kle k nd) as [|m ex]; [destruct Hr|].
    destruct S as [Ek [ds [nt [n' [Ed A]]]]].
    assert (HA : In x ds \/ exists r, In r ex /\ In x (r_deps r)).
    { destruct Hr as [E|Hr]; [|right; eauto]. subst. rewrite Ed in Hx. apply sorted_deps_In in Hx. left; exact Hx. }
    destruct (ro_bound _ _ _ _ _ _ _ _ _ _ A x HA) as [H|[i [E Hi]]]; [left; exact H|].
    right. split; [exists i; exact E|]. cbn. right. subst x. apply (ro_all _ _ _ _ _ _ _ _ _ _ A). exact Hi.
  Qed.

  (* every key the node references is a declared dependency of one of its records *)
  Lemma records_deps_cover : forall k nd d, records kle k nd <> [] -> In d (nrefs nd) ->
    exists r, In r (records kle k nd) /\ In (KG d) (r_deps r).
  Proof.
    intros k nd d Hne Hd. pose proof (records_spec k nd) as S.
    destruct (records kle k nd) as [|m ex]; [contradiction|].
    destruct S as [Ek [ds [nt [n' [Ed A]]]]].
    destruct (ro_cover _ _ _ _ _ _ _ _ _ _ A d Hd) as [H|[r [Hr Hx]]].
    - exists m. split; [left; reflexivity|]. rewrite Ed. apply sorted_deps_In. exact H.
    - exists r. split; [right; exact Hr | exact Hx].
  Qed.

  Lemma supported_in : forall g k nd, supported g = true -> In (k, nd) g -> supported_node nd = true.
  Proof.
    intros g k nd H Hin. unfold supported in H. rewrite forallb_forall in H. exact (H (k, nd) Hin).
  Qed.

  Lemma data_ok_in : forall g k nd, data_ok g = true -> In (k, nd) g -> data_ok_node nd = true.
  Proof.
    intros g k nd H Hin. unfold data_ok in H. rewrite forallb_forall in H. exact (H (k, nd) Hin).
  Qed.

  (* ----------------------------------------------------------------------- *)
  (** ** C21_flatten_deps_exact *)
  Theorem flatten_deps_exact : forall g r, data_ok g = true -> In r (flatten kle g) ->
    r_deps r = sorted_deps kle (rec_refs r) /\
    NoDup (r_deps r) /\ (forall x, In x (r_deps r) <-> In x (rec_refs r)).
  Proof.
    intros g r Hok Hr. apply in_flatten in Hr. destruct Hr as [k [nd [Hin Hr]]].
    pose proof (records_deps_exact k nd r (data_ok_in g k nd Hok Hin) Hr) as E.
    split; [exact E|]. rewrite E. split; [apply sorted_deps_NoDup | intro x; apply sorted_deps_In].
  Qed.

  (* ----------------------------------------------------------------------- *)
  (** ** C21_fresh_keys_unique *)
  Lemma NoDup_fst_inj : forall (g : sgraph) k nd nd', NoDup (map fst g) -> In (k, nd) g -> In (k, nd') g -> nd = nd'.
  Proof.
    induction g as [|[k0 n0] t IH]; cbn; intros k nd nd' Hnd H1 H2; [contradiction|].
    inversion Hnd as [|? ? Hk Ht]; subst.
    destruct H1 as [E1|H1]; destruct H2 as [E2|H2].
    - inversion E1; inversion E2; subst; reflexivity.
    - inversion E1; subst. exfalso. apply Hk. apply (in_map fst) in H2. exact H2.
    - inversion E2; subst. exfalso. apply Hk. apply (in_map fst) in H1. exact H1.
    - exact (IH k nd nd' Ht H1 H2).
  Qed.

  Lemma NoDup_map_NoDup : forall A B (f : A -> B) l, NoDup (map f l) -> NoDup l.
  Proof.
    intros A B f l; induction l as [|x t IH]; cbn; intro H; [constructor|].
    inversion H; subst. constructor; [intro Hin; apply (in_map f) in Hin; contradiction | auto].
  Qed.

  Theorem flatten_keys_unique : forall g, NoDup (map fst g) ->
    NoDup (map r_key (flatten kle g)) /\
    (forall r, In r (flatten kle g) ->
       (exists k, r_key r = KG k /\ In k (map fst g)) \/
       (exists p i, r_key r = KSub p i /\ In p (map fst g) /\ 1 <= i)).
  Proof.
    intros g Hnd. split.
    - unfold flatten. rewrite map_flat_map. apply NoDup_flat_map_in.
      + exact (NoDup_map_NoDup _ _ _ _ Hnd).
      + intros [k nd] _. apply records_keys_NoDup.
      + intros [k1 n1] [k2 n2] z H1 H2 Hz1 Hz2. cbn in Hz1, Hz2.
        apply in_map_iff in Hz1. destruct Hz1 as [r1 [E1 Hr1]].
        apply in_map_iff in Hz2. destruct Hz2 as [r2 [E2 Hr2]].
        assert (k1 = k2).
        { destruct (records_keys _ _ _ Hr1) as [A|[i [A _]]]; destruct (records_keys _ _ _ Hr2) as [B|[j [B _]]];
            rewrite E1 in A; rewrite E2 in B; rewrite A in B; inversion B; reflexivity. }
        subst k2. f_equal. exact (NoDup_fst_inj g k1 n1 n2 Hnd H1 H2).
    - intros r Hr. apply in_flatten in Hr. destruct Hr as [k [nd [Hin Hr]]].
      assert (Hk : In k (map fst g)) by (apply (in_map fst) in Hin; exact Hin).
      destruct (records_keys _ _ _ Hr) as [A|[i [A Hi]]]; [left; eauto | right; exists k, i; auto].
  Qed.

  (* ----------------------------------------------------------------------- *)
  (** ** C21_complete *)
  Lemma src_graph_defined : forall g k, defined (src_graph g) k <-> exists nd, In (k, nd) g.
  Proof.
    intros g k. unfold defined, keys, src_graph. rewrite map_map. cbn. rewrite in_map_iff. split.
    - intros [[k' nd] [E H]]. cbn in E. subst. eauto.
    - intros [nd H]. exists (k, nd). split; [reflexivity | exact H].
  Qed.

  Lemma src_graph_edge : forall g k d, edge (src_graph g) k d <-> exists nd, In (k, nd) g /\ In d (nrefs nd).
  Proof.
    intros g k d. unfold edge, src_graph. split.
    - intros [ds [H Hd]]. apply in_map_iff in H. destruct H as [[k' nd] [E H]]. cbn in E. inversion E; subst. eauto.
    - intros [nd [H Hd]]. exists (nrefs nd). split; [|exact Hd].
      apply in_map_iff. exists (k, nd). split; [reflexivity | exact H].
  Qed.

  Lemma produced_KG : forall g d,
    In (KG d) (produced (flatten kle g)) <-> exists nd, In (d, nd) g /\ records kle d nd <> [].
  Proof.
    intros g d. unfold produced. rewrite in_map_iff. split.
    - intros [r [E Hr]]. apply in_flatten in Hr. destruct Hr as [k [nd [Hin Hr]]].
      destruct (records_keys _ _ _ Hr) as [A|[i [A _]]]; rewrite E in A; [|discriminate].
      inversion A; subst k. exists nd. split; [exact Hin|]. intro H0. rewrite H0 in Hr. destruct Hr.
    - intros [nd [Hin Hne]]. pose proof (records_spec d nd) as S.
      destruct (records kle d nd) as [|m ex] eqn:E; [contradiction|]. destruct S as [Ek _].
      exists m. split; [exact Ek|]. apply in_flatten. exists d, nd. split; [exact Hin|]. rewrite E. left; reflexivity.
  Qed.

  Lemma records_nonempty : forall g k nd, no_self_alias g -> supported g = true -> In (k, nd) g ->
    records kle k nd <> [].
  Proof.
    intros g k nd Hs Hsup Hin H0. pose proof (records_spec k nd) as S. rewrite H0 in S.
    destruct S as [E|E]; subst.
    - exact (Hs k Hin).
    - pose proof (supported_in g k NOther Hsup Hin) as F. discriminate.
  Qed.

  Theorem dangling_spec : forall g, no_self_alias g -> supported g = true ->
    forall x, In x (dangling (flatten kle g)) <->
              exists d, x = KG d /\ (exists k, edge (src_graph g) k d) /\ ~ defined (src_graph g) d.
  Proof.
    intros g Hs Hsup x. unfold dangling. rewrite filter_In, negb_true_iff. rewrite in_flat_map. split.
    - intros [[r [Hr Hx]] Hnp].
      assert (Hnp' : ~ In x (produced (flatten kle g))).
      { intro H. apply rmem_In in H. congruence. }
      apply in_flatten in Hr. destruct Hr as [k [nd [Hin Hr]]].
      destruct (records_deps_bound k nd r x Hr Hx) as [[d [E Hd]]|[_ Hp]].
      + exists d. split; [exact E|]. split; [exists k; apply src_graph_edge; eauto|].
        intro Hdef. apply src_graph_defined in Hdef. destruct Hdef as [nd' Hin'].
        apply Hnp'. subst x. apply produced_KG. exists nd'. split; [exact Hin'|].
        exact (records_nonempty g d nd' Hs Hsup Hin').
      + exfalso. apply Hnp'. unfold produced. apply in_map_iff in Hp. destruct Hp as [r' [E' Hr']].
        apply in_map_iff. exists r'. split; [exact E'|]. apply in_flatten. eauto.
    - intros [d [E [[k He] Hnd]]]. subst x. apply src_graph_edge in He. destruct He as [nd [Hin Hd]].
      split.
      + destruct (records_deps_cover k nd d (records_nonempty g k nd Hs Hsup Hin) Hd) as [r [Hr Hx]].
        exists r. split; [apply in_flatten; eauto | exact Hx].
      + destruct (rmem (KG d) (produced (flatten kle g))) eqn:Em; [|reflexivity].
        exfalso. apply Hnd. apply rmem_In in Em. apply produced_KG in Em. destruct Em as [nd' [Hin' _]].
        apply src_graph_defined. eauto.
  Qed.

  Theorem check_complete_closed : forall g, no_self_alias g -> supported g = true ->
    (check_complete (flatten kle g) = true <-> closed (src_graph g)).
  Proof.
    intros g Hs Hsup. pose proof (dangling_spec g Hs Hsup) as D. unfold check_complete. split.
    - intros Hc k ds d Hk Hd.
      destruct (in_dec Pos.eq_dec d (keys (src_graph g))) as [Hdef|Hn]; [exact Hdef|]. exfalso.
      assert (Hx : In (KG d) (dangling (flatten kle g))).
      { apply D. exists d. split; [reflexivity|]. split; [exists k, ds; auto | exact Hn]. }
      destruct (dangling (flatten kle g)); [destruct Hx | discriminate].
    - intro Hcl. destruct (dangling (flatten kle g)) as [|x t] eqn:E; [reflexivity|]. exfalso.
      assert (Hx : In x (x :: t)) by (left; reflexivity).
      apply D in Hx. destruct Hx as [d [_ [[k [ds [Hk Hd]]] Hn]]]. apply Hn. exact (Hcl k ds d Hk Hd).
  Qed.

  (* every source key is defined by the records (the output keys in particular) *)
  Theorem flatten_defines : forall g k, no_self_alias g -> supported g = true ->
    defined (src_graph g) k -> In (KG k) (produced (flatten kle g)).
  Proof.
    intros g k Hs Hsup Hd. apply src_graph_defined in Hd. destruct Hd as [nd Hin].
    apply produced_KG. exists nd. split; [exact Hin | exact (records_nonempty g k nd Hs Hsup Hin)].
  Qed.
End NodeFacts.

(* ------------------------------------------------------------------------- *)
(** * Generic facts about running a graph of defining equations in a topological order
      (the argument of GraphFacts.run_satisfies / satisfies_unique / run_confluent, for
      an arbitrary key type and option-valued stores; instantiated below for the source
      graph and for the records) *)

Section EqGraph.
  Variables (A N V : Type).
  Variable eqb : A -> A -> bool.
  Hypothesis eqb_eq : forall a b, eqb a b = true <-> a = b.
  Variable find : A -> option N.          (* the node bound to a key *)
  Variable deps : N -> list A.
  Variable ev : (A -> option V) -> N -> option V.

  Definition gstep (s : A -> option V) (k : A) : A -> option V :=
    match find k with Some n => supd V eqb s k (ev s n) | None => s end.
  Definition grun (o : list A) : A -> option V := fold_left gstep o (fun _ => None).

  Definition gtopo (o : list A) : Prop :=
    NoDup o /\ (forall k, In k o <-> exists n, find k = Some n) /\
    (forall pre k post n, o = pre ++ k :: post -> find k = Some n -> incl (deps n) pre).
  Definition gsat (s : A -> option V) : Prop := forall k n, find k = Some n -> s k = ev s n.
  Definition gext : Prop :=
    forall k n, find k = Some n -> forall s s', (forall d, In d (deps n) -> s d = s' d) -> ev s n = ev s' n.

  Lemma eqb_refl' : forall a, eqb a a = true.
  Proof. intro a. apply eqb_eq. reflexivity. Qed.
  Lemma eqb_neq' : forall a b, a <> b -> eqb a b = false.
  Proof. intros a b H. destruct (eqb a b) eqn:E; [apply eqb_eq in E; contradiction | reflexivity]. Qed.

  Lemma gstep_other : forall s k k', k' <> k -> gstep s k k' = s k'.
  Proof.
    intros s k k' H. unfold gstep. destruct (find k); [|reflexivity].
    unfold supd. rewrite (eqb_neq' _ _ H). reflexivity.
  Qed.

  Lemma gfold_other : forall o s k', ~ In k' o -> fold_left gstep o s k' = s k'.
  Proof.
    induction o as [|k t IH]; cbn; intros s k' H; [reflexivity|].
    rewrite IH by (intro Hin; apply H; right; exact Hin).
    apply gstep_other. intro E. apply H. left. symmetry; exact E.
  Qed.

  Lemma grun_undefined : forall o k, ~ In k o -> grun o k = None.
  Proof. intros o k H. unfold grun. rewrite gfold_other by exact H. reflexivity. Qed.

  Lemma NoDup_mid : forall (pre : list A) k post, NoDup (pre ++ k :: post) -> ~ In k pre /\ ~ In k post.
  Proof.
    intros pre k post H. apply NoDup_remove_2 in H. split; intro Hin; apply H; apply in_or_app; auto.
  Qed.

  Lemma grun_at : forall pre k post n, NoDup (pre ++ k :: post) -> find k = Some n ->
    grun (pre ++ k :: post) k = ev (grun pre) n.
  Proof.
    intros pre k post n Hnd Hf. unfold grun. rewrite fold_left_app. cbn.
    apply NoDup_mid in Hnd. destruct Hnd as [_ Hpost].
    rewrite gfold_other by exact Hpost.
    unfold gstep. rewrite Hf. unfold supd. rewrite eqb_refl'. reflexivity.
  Qed.

  Lemma grun_stable : forall pre post k, NoDup (pre ++ post) -> In k pre -> grun (pre ++ post) k = grun pre k.
  Proof.
    intros pre post k Hnd Hin. unfold grun. rewrite fold_left_app. apply gfold_other.
    intro Hp. revert Hnd Hin Hp. clear. induction pre as [|x pre IH]; cbn; intros Hnd Hin Hp; [contradiction|].
    inversion Hnd as [|? ? Hx Hnd']; subst. destruct Hin as [E|Hin].
    - subst. apply Hx. apply in_or_app. right; exact Hp.
    - exact (IH Hnd' Hin Hp).
  Qed.

  Theorem grun_sat : forall o, gtopo o -> gext -> gsat (grun o).
  Proof.
    intros o (Hnd & Hkeys & Hdeps) Hext k n Hf.
    assert (Hk : In k o) by (apply Hkeys; eauto).
    apply in_split in Hk. destruct Hk as [pre [post E]].
    rewrite E. rewrite (grun_at pre k post n); [|rewrite <- E; exact Hnd | exact Hf].
    apply (Hext k n Hf). intros d Hd. symmetry.
    replace (pre ++ k :: post) with (pre ++ (k :: post)) by reflexivity.
    apply grun_stable; [rewrite <- E; exact Hnd|].
    exact (Hdeps pre k post n E Hf d Hd).
  Qed.

  Theorem gsat_unique : forall o s1 s2, gtopo o -> gext -> gsat s1 -> gsat s2 ->
    forall k, In k o -> s1 k = s2 k.
  Proof.
    intros o s1 s2 (Hnd & Hkeys & Hdeps) Hext H1 H2.
    assert (Hpre : forall pre post, o = pre ++ post -> forall k, In k pre -> s1 k = s2 k).
    { intro pre; induction pre as [|x pre IH] using rev_ind; intros post E k Hk; [contradiction|].
      rewrite <- app_assoc in E. cbn in E.
      apply in_app_or in Hk. destruct Hk as [Hk|[Hk|[]]]; [exact (IH _ E k Hk)|]. subst x.
      assert (Hd : exists n, find k = Some n).
      { apply Hkeys. rewrite E. apply in_or_app. right; left; reflexivity. }
      destruct Hd as [n Hf]. rewrite (H1 k n Hf), (H2 k n Hf). apply (Hext k n Hf).
      intros d Hd. apply (IH _ E). exact (Hdeps pre k post n E Hf d Hd). }
    intros k Hk. apply (Hpre o []); [rewrite app_nil_r; reflexivity | exact Hk].
  Qed.

  (* CONFLUENCE: every topological order computes the same store *)
  Theorem grun_confluent : forall o1 o2, gtopo o1 -> gtopo o2 -> gext -> forall k, grun o1 k = grun o2 k.
  Proof.
    intros o1 o2 T1 T2 Hext k.
    assert (Hiff : In k o1 <-> In k o2).
    { destruct T1 as (_ & K1 & _). destruct T2 as (_ & K2 & _). rewrite K1, K2. tauto. }
    assert (Hdec : In k o1 \/ ~ In k o1).
    { destruct T1 as (_ & K1 & _). destruct (find k) as [n|] eqn:E.
      - left. apply K1. eauto.
      - right. intro H. apply K1 in H. destruct H as [n H]. congruence. }
    destruct Hdec as [Hin|Hn].
    - apply (gsat_unique o1); auto using grun_sat.
    - rewrite (grun_undefined o1 k Hn). symmetry. apply grun_undefined. tauto.
  Qed.

  (* nothing is stuck *)
  Theorem grun_total : forall o,
    (forall k n, find k = Some n -> forall s, (forall d, In d (deps n) -> s d <> None) -> ev s n <> None) ->
    gtopo o -> gext -> forall k, In k o -> grun o k <> None.
  Proof.
    intros o Hsome T Hext. pose proof (grun_sat o T Hext) as Hsat. destruct T as (Hnd & Hkeys & Hdeps).
    assert (Hpre : forall pre post, o = pre ++ post -> forall k, In k pre -> grun o k <> None).
    { intro pre; induction pre as [|x pre IH] using rev_ind; intros post E k Hk; [contradiction|].
      rewrite <- app_assoc in E. cbn in E.
      apply in_app_or in Hk. destruct Hk as [Hk|[Hk|[]]]; [exact (IH _ E k Hk)|]. subst x.
      assert (Hd : exists n, find k = Some n).
      { apply Hkeys. rewrite E. apply in_or_app. right; left; reflexivity. }
      destruct Hd as [n Hf]. rewrite (Hsat k n Hf). apply (Hsome k n Hf).
      intros d Hd. apply (IH _ E). exact (Hdeps pre k post n E Hf d Hd). }
    intros k Hk. apply (Hpre o []); [rewrite app_nil_r; reflexivity | exact Hk].
  Qed.
End EqGraph.

(* ------------------------------------------------------------------------- *)
(** * Semantics: the records compute what the source graph computes *)

Section SemFacts.
  Variable V : Type.
  Variable apply : tag -> list V -> list (tag * V) -> V.
  Variable vlit : tag -> V.
  Variable vlist vtuple : list V -> V.
  Variable vdict : list (tag * V) -> V.
  Hypothesis apply_ident : forall v, apply ident_fn [v] [] = v.      (* toolz.identity *)
  Variable kle : rkey -> rkey -> bool.

  Notation teval := (teval V vlit vlist vtuple vdict).
  Notation teval_list := (teval_list V vlit vlist vtuple vdict).
  Notation teval_kw := (teval_kw V vlit vlist vtuple vdict).
  Notation rec_eval := (rec_eval V apply vlit vlist vtuple vdict).
  Notation aeval := (aeval V apply vlit vlist vtuple vdict).
  Notation aeval_list := (aeval_list V apply vlit vlist vtuple vdict).
  Notation aeval_kw := (aeval_kw V apply vlit vlist vtuple vdict).
  Notation neval := (neval V apply vlit vlist vtuple vdict).
  Notation src_run := (src_run V apply vlit vlist vtuple vdict).
  Notation rec_run := (rec_run V apply vlit vlist vtuple vdict).

  (* --- unfolding equations --- *)
  Lemma teval_TList : forall s l, teval s (TList l) = option_map vlist (teval_list s l).
  Proof.
    intros s l. cbn. f_equal. induction l as [|x r IH]; [reflexivity|]. cbn. rewrite IH. reflexivity.
  Qed.
  Lemma teval_TTuple : forall s l, teval s (TTuple l) = option_map vtuple (teval_list s l).
  Proof.
    intros s l. cbn. f_equal. induction l as [|x r IH]; [reflexivity|]. cbn. rewrite IH. reflexivity.
  Qed.
  Lemma teval_TDict : forall s l, teval s (TDict l) = option_map vdict (teval_kw s l).
  Proof.
    intros s l. cbn. f_equal. induction l as [|[k x] r IH]; [reflexivity|]. cbn. rewrite IH. reflexivity.
  Qed.

  Lemma aeval_al : forall s l,
    (fix al (l : list arg) : option (list V) :=
       match l with
       | [] => Some []
       | x :: r => match aeval s x, al r with Some v, Some vs => Some (v :: vs) | _, _ => None end
       end) l = aeval_list s l.
  Proof. intros s l. induction l as [|x r IH]; [reflexivity|]. cbn. rewrite IH. reflexivity. Qed.
  Lemma aeval_ak : forall s l,
    (fix ak (l : list (tag * arg)) : option (list (tag * V)) :=
       match l with
       | [] => Some []
       | (k, x) :: r => match aeval s x, ak r with Some v, Some vs => Some ((k, v) :: vs) | _, _ => None end
       end) l = aeval_kw s l.
  Proof. intros s l. induction l as [|[k x] r IH]; [reflexivity|]. cbn. rewrite IH. reflexivity. Qed.

  Lemma aeval_ASeq : forall s sk l,
    aeval s (ASeq sk l) = option_map (if seq_is_list sk then vlist else vtuple) (aeval_list s l).
  Proof. intros s sk l. cbn. rewrite aeval_al. reflexivity. Qed.
  Lemma aeval_ADict : forall s l, aeval s (ADict l) = option_map vdict (aeval_kw s l).
  Proof. intros s l. cbn. rewrite aeval_ak. reflexivity. Qed.
  Lemma aeval_ATask : forall s f a k,
    aeval s (ATask f a k) =
    match aeval_list s a, aeval_kw s k with Some vs, Some kvs => Some (apply f vs kvs) | _, _ => None end.
  Proof. intros s f a k. cbn. rewrite aeval_al, aeval_ak. reflexivity. Qed.

  (* --- evaluation only looks at the referenced keys --- *)
  Lemma teval_ext : forall t s s', (forall x, In x (trefs t) -> s x = s' x) -> teval s t = teval s' t.
  Proof.
    induction t as [k|t|l IH|l IH|l IH] using targ_ind2; intros s s' H.
    - cbn. apply H. left; reflexivity.
    - reflexivity.
    - rewrite !teval_TList. f_equal. rewrite trefs_TList in H. clear -IH H.
      induction IH as [|x r Hx Hr IHr]; [reflexivity|]. cbn in *.
      rewrite (Hx s s'), IHr; [reflexivity | |]; intros y Hy; apply H; apply in_or_app; auto.
    - rewrite !teval_TTuple. f_equal. rewrite trefs_TTuple in H. clear -IH H.
      induction IH as [|x r Hx Hr IHr]; [reflexivity|]. cbn in *.
      rewrite (Hx s s'), IHr; [reflexivity | |]; intros y Hy; apply H; apply in_or_app; auto.
    - rewrite !teval_TDict. f_equal. rewrite trefs_TDict in H. clear -IH H.
      induction IH as [|[k x] r Hx Hr IHr]; [reflexivity|]. cbn in *.
      rewrite (Hx s s'), IHr; [reflexivity | |]; intros y Hy; apply H; apply in_or_app; auto.
  Qed.

  Lemma teval_list_ext : forall l s s', (forall x, In x (trefs_list l) -> s x = s' x) -> teval_list s l = teval_list s' l.
  Proof.
    induction l as [|t r IH]; intros s s' H; [reflexivity|]. cbn in *.
    rewrite (teval_ext t s s'), (IH s s'); [reflexivity | |]; intros y Hy; apply H; apply in_or_app; auto.
  Qed.
  Lemma teval_kw_ext : forall l s s', (forall x, In x (trefs_kw l) -> s x = s' x) -> teval_kw s l = teval_kw s' l.
  Proof.
    induction l as [|[k t] r IH]; intros s s' H; [reflexivity|]. cbn in *.
    rewrite (teval_ext t s s'), (IH s s'); [reflexivity | |]; intros y Hy; apply H; apply in_or_app; auto.
  Qed.

  Lemma rec_eval_ext : forall r s s', (forall x, In x (rec_refs r) -> s x = s' x) -> rec_eval s r = rec_eval s' r.
  Proof.
    intros r s s' H. unfold rec_eval, Records.rec_eval.
    rewrite (teval_list_ext (r_args r) s s'), (teval_kw_ext (r_kwargs r) s s'); [reflexivity | |];
      intros y Hy; apply H; unfold rec_refs; apply in_or_app; auto.
  Qed.

  Definition aext (a : arg) : Prop :=
    forall s s', (forall d, In d (arefs a) -> s d = s' d) -> aeval s a = aeval s' a.

  Lemma aeval_list_ext : forall l, Forall aext l ->
    forall s s', (forall d, In d (arefs_list l) -> s d = s' d) -> aeval_list s l = aeval_list s' l.
  Proof.
    intros l Hl; induction Hl as [|x r Hx Hr IH]; intros s s' H; [reflexivity|]. cbn in *.
    rewrite (Hx s s'), (IH s s'); [reflexivity | |]; intros y Hy; apply H; apply in_or_app; auto.
  Qed.
  Lemma aeval_kw_ext : forall l, Forall (fun kv => aext (snd kv)) l ->
    forall s s', (forall d, In d (arefs_kw l) -> s d = s' d) -> aeval_kw s l = aeval_kw s' l.
  Proof.
    intros l Hl; induction Hl as [|[k x] r Hx Hr IH]; intros s s' H; [reflexivity|]. cbn in *.
    rewrite (Hx s s'), (IH s s'); [reflexivity | |]; intros y Hy; apply H; apply in_or_app; auto.
  Qed.

  Lemma aeval_ext : forall a, aext a.
  Proof.
    induction a as [k|k|v|sk items IH|f args kwargs IHa IHk| |items IH|t] using arg_ind2; intros s s' H.
    - cbn. apply H. left; reflexivity.
    - cbn. apply H. left; reflexivity.
    - reflexivity.
    - rewrite !aeval_ASeq. rewrite arefs_ASeq in H. rewrite (aeval_list_ext items IH s s' H). reflexivity.
    - rewrite !aeval_ATask. rewrite arefs_ATask in H.
      rewrite (aeval_list_ext args IHa s s'), (aeval_kw_ext kwargs IHk s s'); [reflexivity | |];
        intros y Hy; apply H; apply in_or_app; auto.
    - reflexivity.
    - rewrite !aeval_ADict. rewrite arefs_ADict in H. rewrite (aeval_kw_ext items IH s s' H). reflexivity.
    - reflexivity.
  Qed.

  Lemma aeval_list_ext' : forall l s s', (forall d, In d (arefs_list l) -> s d = s' d) -> aeval_list s l = aeval_list s' l.
  Proof. intro l. apply aeval_list_ext. apply Forall_forall. intros x _. apply aeval_ext. Qed.
  Lemma aeval_kw_ext' : forall l s s', (forall d, In d (arefs_kw l) -> s d = s' d) -> aeval_kw s l = aeval_kw s' l.
  Proof. intro l. apply aeval_kw_ext. apply Forall_forall. intros x _. apply aeval_ext. Qed.

  Lemma neval_ext : forall nd s s', (forall d, In d (nrefs nd) -> s d = s' d) -> neval s nd = neval s' nd.
  Proof.
    intros [t|v|b items|f args kwargs|] s s' H; cbn in *.
    - apply H. left; reflexivity.
    - reflexivity.
    - rewrite (aeval_list_ext' items s s' H). reflexivity.
    - rewrite (aeval_list_ext' args s s'), (aeval_kw_ext' kwargs s s'); [reflexivity | |];
        intros y Hy; apply H; apply in_or_app; auto.
    - reflexivity.
  Qed.

  (* --- nothing is stuck when every referenced key has a value --- *)
  Lemma teval_some : forall t s, (forall x, In x (trefs t) -> s x <> None) -> teval s t <> None.
  Proof.
    induction t as [k|t|l IH|l IH|l IH] using targ_ind2; intros s H.
    - cbn. apply H. left; reflexivity.
    - discriminate.
    - rewrite teval_TList. rewrite trefs_TList in H.
      assert (Hl : teval_list s l <> None).
      { clear -IH H. induction IH as [|x r Hx Hr IHr]; [discriminate|]. cbn in *.
        assert (A : teval s x <> None) by (apply Hx; intros y Hy; apply H; apply in_or_app; auto).
        assert (B : teval_list s r <> None) by (apply IHr; intros y Hy; apply H; apply in_or_app; auto).
        destruct (teval s x); [|contradiction]. destruct (teval_list s r); [discriminate | contradiction]. }
      destruct (teval_list s l); [discriminate | contradiction].
    - rewrite teval_TTuple. rewrite trefs_TTuple in H.
      assert (Hl : teval_list s l <> None).
      { clear -IH H. induction IH as [|x r Hx Hr IHr]; [discriminate|]. cbn in *.
        assert (A : teval s x <> None) by (apply Hx; intros y Hy; apply H; apply in_or_app; auto).
        assert (B : teval_list s r <> None) by (apply IHr; intros y Hy; apply H; apply in_or_app; auto).
        destruct (teval s x); [|contradiction]. destruct (teval_list s r); [discriminate | contradiction]. }
      destruct (teval_list s l); [discriminate | contradiction].
    - rewrite teval_TDict. rewrite trefs_TDict in H.
      assert (Hl : teval_kw s l <> None).
      { clear -IH H. induction IH as [|[k x] r Hx Hr IHr]; [discriminate|]. cbn in *.
        assert (A : teval s x <> None) by (apply Hx; intros y Hy; apply H; apply in_or_app; auto).
        assert (B : teval_kw s r <> None) by (apply IHr; intros y Hy; apply H; apply in_or_app; auto).
        destruct (teval s x); [|contradiction]. destruct (teval_kw s r); [discriminate | contradiction]. }
      destruct (teval_kw s l); [discriminate | contradiction].
  Qed.

  Definition asome (a : arg) : Prop :=
    forall s, supported_arg a = true -> data_ok_arg a = true ->
              (forall d, In d (arefs a) -> s d <> None) -> aeval s a <> None.

  Lemma aeval_list_some : forall l, Forall asome l ->
    forall s, supported_list l = true -> data_ok_list l = true ->
              (forall d, In d (arefs_list l) -> s d <> None) -> aeval_list s l <> None.
  Proof.
    intros l Hl; induction Hl as [|x r Hx Hr IH]; intros s Hs Hd H; [discriminate|]. cbn in *.
    apply andb_true_iff in Hs. destruct Hs as [Hs1 Hs2]. apply andb_true_iff in Hd. destruct Hd as [Hd1 Hd2].
    assert (A : aeval s x <> None) by (apply Hx; auto; intros y Hy; apply H; apply in_or_app; auto).
    assert (B : aeval_list s r <> None) by (apply IH; auto; intros y Hy; apply H; apply in_or_app; auto).
    destruct (aeval s x); [|contradiction]. destruct (aeval_list s r); [discriminate | contradiction].
  Qed.
  Lemma aeval_kw_some : forall l, Forall (fun kv => asome (snd kv)) l ->
    forall s, supported_kw l = true -> data_ok_kw l = true ->
              (forall d, In d (arefs_kw l) -> s d <> None) -> aeval_kw s l <> None.
  Proof.
    intros l Hl; induction Hl as [|[k x] r Hx Hr IH]; intros s Hs Hd H; [discriminate|]. cbn in *.
    apply andb_true_iff in Hs. destruct Hs as [Hs1 Hs2]. apply andb_true_iff in Hd. destruct Hd as [Hd1 Hd2].
    assert (A : aeval s x <> None) by (apply Hx; auto; intros y Hy; apply H; apply in_or_app; auto).
    assert (B : aeval_kw s r <> None) by (apply IH; auto; intros y Hy; apply H; apply in_or_app; auto).
    destruct (aeval s x); [|contradiction]. destruct (aeval_kw s r); [discriminate | contradiction].
  Qed.

  Lemma aeval_some : forall a, asome a.
  Proof.
    induction a as [k|k|v|sk items IH|f args kwargs IHa IHk| |items IH|t] using arg_ind2; intros s Hs Hd H.
    - cbn. apply H. left; reflexivity.
    - cbn. apply H. left; reflexivity.
    - cbn in *. apply teval_some. unfold tref_free in Hd. destruct (trefs v); [intros x [] | discriminate].
    - rewrite aeval_ASeq. rewrite arefs_ASeq in H. rewrite supported_ASeq in Hs. rewrite data_ok_ASeq in Hd.
      pose proof (aeval_list_some items IH s Hs Hd H) as A.
      destruct (aeval_list s items); [discriminate | contradiction].
    - rewrite aeval_ATask. rewrite arefs_ATask in H. rewrite supported_ATask in Hs. rewrite data_ok_ATask in Hd.
      apply andb_true_iff in Hs. destruct Hs as [Hs1 Hs2]. apply andb_true_iff in Hd. destruct Hd as [Hd1 Hd2].
      assert (A : aeval_list s args <> None)
        by (apply (aeval_list_some args IHa); auto; intros y Hy; apply H; apply in_or_app; auto).
      assert (B : aeval_kw s kwargs <> None)
        by (apply (aeval_kw_some kwargs IHk); auto; intros y Hy; apply H; apply in_or_app; auto).
      destruct (aeval_list s args); [|contradiction]. destruct (aeval_kw s kwargs); [discriminate | contradiction].
    - discriminate.
    - rewrite aeval_ADict. rewrite arefs_ADict in H. rewrite supported_ADict in Hs. rewrite data_ok_ADict in Hd.
      pose proof (aeval_kw_some items IH s Hs Hd H) as A.
      destruct (aeval_kw s items); [discriminate | contradiction].
    - discriminate.
  Qed.

  Lemma neval_some : forall nd s, supported_node nd = true -> data_ok_node nd = true ->
    (forall d, In d (nrefs nd) -> s d <> None) -> neval s nd <> None.
  Proof.
    intros [t|v|b items|f args kwargs|] s Hs Hd H; cbn in *.
    - apply H. left; reflexivity.
    - apply teval_some. unfold tref_free in Hd. destruct (trefs v); [intros x [] | discriminate].
    - assert (A : aeval_list s items <> None).
      { apply aeval_list_some; auto. apply Forall_forall. intros x _. apply aeval_some. }
      destruct (aeval_list s items); [discriminate | contradiction].
    - apply andb_true_iff in Hs. destruct Hs as [Hs1 Hs2]. apply andb_true_iff in Hd. destruct Hd as [Hd1 Hd2].
      assert (A : aeval_list s args <> None).
      { apply aeval_list_some; auto; [apply Forall_forall; intros x _; apply aeval_some|].
        intros y Hy; apply H; apply in_or_app; auto. }
      assert (B : aeval_kw s kwargs <> None).
      { apply aeval_kw_some; auto; [apply Forall_forall; intros x _; apply aeval_some|].
        intros y Hy; apply H; apply in_or_app; auto. }
      destruct (aeval_list s args); [|contradiction]. destruct (aeval_kw s kwargs); [discriminate | contradiction].
    - discriminate.
  Qed.
  (* --- SIMULATION: if the store satisfies the equations of the lifted records, the resolved
         argument evaluates to what the source argument evaluates to --- *)
  Definition rsat (rs : rkey -> option V) (ex : list rec) : Prop :=
    forall r, In r ex -> rs (r_key r) = rec_eval rs r.

  Definition asim (a : arg) : Prop :=
    forall p n t ds n' ex rs, resolve kle p a n = (t, ds, n', ex) ->
      supported_arg a = true -> data_ok_arg a = true -> rsat rs ex ->
      teval rs t = aeval (fun k => rs (KG k)) a.

  Lemma rsat_app : forall rs e1 e2, rsat rs (e1 ++ e2) -> rsat rs e1 /\ rsat rs e2.
  Proof. intros rs e1 e2 H. split; intros r Hr; apply H; apply in_or_app; auto. Qed.

  Lemma resolve_list_sim : forall l, Forall asim l ->
    forall p n ts ds n' ex rs, resolve_list kle p l n = (ts, ds, n', ex) ->
      supported_list l = true -> data_ok_list l = true -> rsat rs ex ->
      teval_list rs ts = aeval_list (fun k => rs (KG k)) l.
  Proof.
    intros l Hl; induction Hl as [|x t Hx Ht IH]; intros p n ts ds n' ex rs E Hs Hd Hsat.
    - cbn in E. inversion E; subst. reflexivity.
    - rewrite resolve_list_cons in E.
      destruct (resolve kle p x n) as [[[tx dx] n1] e1] eqn:E1.
      destruct (resolve_list kle p t n1) as [[[tr dt] n2] e2] eqn:E2.
      inversion E; subst. cbn in Hs, Hd.
      apply andb_true_iff in Hs. destruct Hs as [Hs1 Hs2]. apply andb_true_iff in Hd. destruct Hd as [Hd1 Hd2].
      apply rsat_app in Hsat. destruct Hsat as [S1 S2]. cbn.
      rewrite (Hx p n tx dx n1 e1 rs E1 Hs1 Hd1 S1), (IH p n1 tr dt n' e2 rs E2 Hs2 Hd2 S2). reflexivity.
  Qed.

  Lemma resolve_kw_sim : forall l, Forall (fun kv => asim (snd kv)) l ->
    forall p n ts ds n' ex rs, resolve_kw kle p l n = (ts, ds, n', ex) ->
      supported_kw l = true -> data_ok_kw l = true -> rsat rs ex ->
      teval_kw rs ts = aeval_kw (fun k => rs (KG k)) l.
  Proof.
    intros l Hl; induction Hl as [|[k x] t Hx Ht IH]; intros p n ts ds n' ex rs E Hs Hd Hsat.
    - cbn in E. inversion E; subst. reflexivity.
    - rewrite resolve_kw_cons in E.
      destruct (resolve kle p x n) as [[[tx dx] n1] e1] eqn:E1.
      destruct (resolve_kw kle p t n1) as [[[tr dt] n2] e2] eqn:E2.
      inversion E; subst. cbn in Hs, Hd.
      apply andb_true_iff in Hs. destruct Hs as [Hs1 Hs2]. apply andb_true_iff in Hd. destruct Hd as [Hd1 Hd2].
      apply rsat_app in Hsat. destruct Hsat as [S1 S2]. cbn.
      rewrite (Hx p n tx dx n1 e1 rs E1 Hs1 Hd1 S1), (IH p n1 tr dt n' e2 rs E2 Hs2 Hd2 S2). reflexivity.
  Qed.

  Theorem resolve_sim : forall a, asim a.
  Proof.
    induction a as [k|k|v|sk items IH|f args kwargs IHa IHk| |items IH|t] using arg_ind2;
      intros p n t0 ds n' ex rs E Hs Hd Hsat.
    - cbn in E. inversion E; subst. reflexivity.
    - cbn in E. inversion E; subst. reflexivity.
    - cbn in E. inversion E; subst. cbn. apply teval_ext. cbn in Hd. unfold tref_free in Hd.
      destruct (trefs t0); [intros x [] | discriminate].
    - rewrite resolve_ASeq in E. destruct (resolve_list kle p items n) as [[[ts d1] n1] e1] eqn:E1.
      inversion E; subst. rewrite supported_ASeq in Hs. rewrite data_ok_ASeq in Hd.
      rewrite aeval_ASeq. rewrite <- (resolve_list_sim items IH p n ts ds n' ex rs E1 Hs Hd Hsat).
      destruct (seq_is_list sk); [apply teval_TList | apply teval_TTuple].
    - rewrite resolve_ATask in E.
      destruct (resolve_list kle p args (S n)) as [[[ta d1] n1] e1] eqn:E1.
      destruct (resolve_kw kle p kwargs n1) as [[[tk d2] n2] e2] eqn:E2.
      inversion E; subst. rewrite supported_ATask in Hs. rewrite data_ok_ATask in Hd.
      apply andb_true_iff in Hs. destruct Hs as [Hs1 Hs2]. apply andb_true_iff in Hd. destruct Hd as [Hd1 Hd2].
      apply rsat_app in Hsat. destruct Hsat as [S1 S23]. apply rsat_app in S23. destruct S23 as [S2 S3].
      rewrite aeval_ATask.
      rewrite <- (resolve_list_sim args IHa p (S n) ta d1 n1 e1 rs E1 Hs1 Hd1 S1).
      rewrite <- (resolve_kw_sim kwargs IHk p n1 tk d2 n' e2 rs E2 Hs2 Hd2 S2).
      pose proof (S3 _ (or_introl eq_refl)) as H3. cbn [r_key] in H3.
      change (teval rs (TRef (KSub p (S n)))) with (rs (KSub p (S n))). rewrite H3. reflexivity.
    - discriminate.
    - rewrite resolve_ADict in E. destruct (resolve_kw kle p items n) as [[[tk d1] n1] e1] eqn:E1.
      inversion E; subst. rewrite supported_ADict in Hs. rewrite data_ok_ADict in Hd.
      rewrite aeval_ADict. rewrite <- (resolve_kw_sim items IH p n tk ds n' ex rs E1 Hs Hd Hsat).
      apply teval_TDict.
    - cbn in E. inversion E; subst. reflexivity.
  Qed.

  Lemma ident_eval : forall rs k t ds,
    rec_eval rs (mkrec k ident_fn [t] [] ds) = teval rs t.
  Proof.
    intros rs k t ds. unfold rec_eval, Records.rec_eval. cbn.
    destruct (teval rs t) as [v|]; [|reflexivity]. rewrite apply_ident. reflexivity.
  Qed.

  (* one graph node: a store that satisfies the equations of the node's records satisfies the
     node's own defining equation *)
  Theorem records_sim : forall k nd rs,
    supported_node nd = true -> data_ok_node nd = true -> rsat rs (records kle k nd) ->
    rs (KG k) = neval (fun k => rs (KG k)) nd.
  Proof.
    intros k [t|v|b items|f args kwargs|] rs Hs Hd Hsat; cbn [records] in Hsat.
    - revert Hsat. destruct (Pos.eqb t k) eqn:E; intro Hsat.
      + apply Pos.eqb_eq in E. subst. reflexivity.
      + pose proof (Hsat _ (or_introl eq_refl)) as H0. cbn [r_key] in H0. rewrite H0.
        rewrite ident_eval. reflexivity.
    - pose proof (Hsat _ (or_introl eq_refl)) as H0. cbn [r_key] in H0. rewrite H0.
      rewrite ident_eval. cbn.
      apply teval_ext. cbn in Hd. unfold tref_free in Hd. destruct (trefs v); [intros x [] | discriminate].
    - revert Hsat.
      destruct (resolve kle k (ASeq (if b then ContList else ContTuple) items) 0) as [[[t ds] n'] ex] eqn:E.
      intro Hsat.
      pose proof (Hsat _ (or_introl eq_refl)) as H0. cbn [r_key] in H0. rewrite H0.
      rewrite ident_eval.
      assert (Hsat' : rsat rs ex) by (intros r Hr; apply Hsat; right; exact Hr).
      cbn in Hs, Hd.
      rewrite (resolve_sim _ k 0 t ds n' ex rs E); [| rewrite supported_ASeq; exact Hs | rewrite data_ok_ASeq; exact Hd | exact Hsat'].
      rewrite aeval_ASeq. cbn. destruct b; reflexivity.
    - revert Hsat.
      destruct (resolve_list kle k args 0) as [[[ta d1] n1] e1] eqn:E1.
      destruct (resolve_kw kle k kwargs n1) as [[[tk d2] n2] e2] eqn:E2.
      intro Hsat.
      pose proof (Hsat _ (or_introl eq_refl)) as H0. cbn [r_key] in H0. rewrite H0.
      assert (Hsat' : rsat rs (e1 ++ e2)) by (intros r Hr; apply Hsat; right; exact Hr).
      apply rsat_app in Hsat'. destruct Hsat' as [S1 S2]. cbn in Hs, Hd.
      apply andb_true_iff in Hs. destruct Hs as [Hs1 Hs2]. apply andb_true_iff in Hd. destruct Hd as [Hd1 Hd2].
      unfold rec_eval, Records.rec_eval. cbn [r_args r_kwargs r_fn].
      rewrite (resolve_list_sim args (proj2 (Forall_forall _ _) (fun x _ => resolve_sim x)) k 0 ta d1 n1 e1 rs E1 Hs1 Hd1 S1).
      rewrite (resolve_kw_sim kwargs (proj2 (Forall_forall _ _) (fun x _ => resolve_sim (snd x))) k n1 tk d2 n2 e2 rs E2 Hs2 Hd2 S2).
      reflexivity.
    - discriminate.
  Qed.
  (* --- the two graphs as instances of the generic theory --- *)
  Lemma find_node_In : forall g k nd, find_node g k = Some nd -> In (k, nd) g.
  Proof.
    induction g as [|[k0 n0] t IH]; cbn; intros k nd H; [discriminate|].
    destruct (Pos.eqb k0 k) eqn:E.
    - apply Pos.eqb_eq in E. inversion H; subst. left; reflexivity.
    - right. exact (IH k nd H).
  Qed.

  Lemma find_node_NoDup : forall g k nd, NoDup (map fst g) -> In (k, nd) g -> find_node g k = Some nd.
  Proof.
    induction g as [|[k0 n0] t IH]; cbn; intros k nd Hnd Hin; [contradiction|].
    inversion Hnd as [|? ? Hk Ht]; subst. destruct Hin as [E|Hin].
    - inversion E; subst. rewrite Pos.eqb_refl. reflexivity.
    - destruct (Pos.eqb k0 k) eqn:E.
      + apply Pos.eqb_eq in E. subst. exfalso. apply Hk. apply (in_map fst) in Hin. exact Hin.
      + exact (IH k nd Ht Hin).
  Qed.

  Lemma find_rec_In : forall rs k r, find_rec rs k = Some r -> In r rs /\ r_key r = k.
  Proof.
    induction rs as [|r0 t IH]; cbn; intros k r H; [discriminate|].
    destruct (rkey_eqb (r_key r0) k) eqn:E.
    - apply rkey_eqb_eq in E. inversion H; subst. auto.
    - destruct (IH k r H). auto.
  Qed.

  Lemma find_rec_NoDup : forall rs r, NoDup (map r_key rs) -> In r rs -> find_rec rs (r_key r) = Some r.
  Proof.
    induction rs as [|r0 t IH]; cbn; intros r Hnd Hin; [contradiction|].
    inversion Hnd as [|? ? Hk Ht]; subst. destruct Hin as [E|Hin].
    - subst. rewrite rkey_eqb_refl. reflexivity.
    - destruct (rkey_eqb (r_key r0) (r_key r)) eqn:E.
      + apply rkey_eqb_eq in E. exfalso. apply Hk. rewrite E. apply in_map. exact Hin.
      + exact (IH r Ht Hin).
  Qed.

  Lemma src_topo : forall g o, NoDup (map fst g) -> topological (src_graph g) o ->
    gtopo key node (find_node g) nrefs o.
  Proof.
    intros g o Hnd (Ho & Hkeys & Hdeps). split; [exact Ho|]. split.
    - intro k. rewrite Hkeys, src_graph_defined. split; intros [nd H].
      + exists nd. apply find_node_NoDup; assumption.
      + exists nd. apply find_node_In; assumption.
    - intros pre k post nd E Hf. apply (Hdeps pre k post (nrefs nd) E).
      apply find_node_In in Hf. unfold src_graph. apply in_map_iff. exists (k, nd). auto.
  Qed.

  Lemma rec_topo : forall rs o, NoDup (map r_key rs) -> rtopological (rec_graph rs) o ->
    gtopo rkey rec (find_rec rs) r_deps o.
  Proof.
    intros rs o Hnd (Ho & Hkeys & Hdeps). split; [exact Ho|]. split.
    - intro k. rewrite Hkeys. unfold rec_graph. rewrite map_map. cbn. rewrite in_map_iff. split.
      + intros [r [E Hr]]. exists r. subst k. apply find_rec_NoDup; assumption.
      + intros [r Hf]. apply find_rec_In in Hf. destruct Hf as [Hr E]. eauto.
    - intros pre k post r E Hf. apply (Hdeps pre k post (r_deps r) E).
      apply find_rec_In in Hf. destruct Hf as [Hr Ek]. unfold rec_graph. apply in_map_iff.
      exists r. subst k. auto.
  Qed.

  (* ----------------------------------------------------------------------- *)
  (** ** C21_flatten_sound *)
  Theorem flatten_sound : forall g os ot,
    NoDup (map fst g) -> supported g = true -> data_ok g = true ->
    topological (src_graph g) os ->
    rtopological (rec_graph (flatten kle g)) ot ->
    forall k, In k (map fst g) ->
      rec_run (flatten kle g) ot (KG k) = src_run g os k /\ exists v, src_run g os k = Some v.
  Proof.
    intros g os ot Hnd Hsup Hdok Tos Tot k Hk.
    set (F := flatten kle g).
    assert (HndF : NoDup (map r_key F)) by (apply flatten_keys_unique; exact Hnd).
    pose proof (src_topo g os Hnd Tos) as Gs. pose proof (rec_topo F ot HndF Tot) as Gt.
    (* the two ext conditions *)
    assert (Xs : gext key node V (find_node g) nrefs neval).
    { intros k0 nd _ s s' H. apply neval_ext. exact H. }
    assert (Xt : gext rkey rec V (find_rec F) r_deps rec_eval).
    { intros k0 r Hf s s' H. apply find_rec_In in Hf. destruct Hf as [Hr _].
      apply rec_eval_ext. intros x Hx. apply H.
      apply (proj2 (proj2 (flatten_deps_exact kle g r Hdok Hr))). exact Hx. }
    (* both runs satisfy their equations *)
    pose proof (grun_sat key node V Pos.eqb Pos.eqb_eq (find_node g) nrefs neval os Gs Xs) as Ss.
    pose proof (grun_sat rkey rec V rkey_eqb rkey_eqb_eq (find_rec F) r_deps rec_eval ot Gt Xt) as St.
    change (grun key node V Pos.eqb (find_node g) neval os) with (src_run g os) in Ss.
    change (grun rkey rec V rkey_eqb (find_rec F) rec_eval ot) with (rec_run F ot) in St.
    set (rs := rec_run F ot) in *.
    assert (Hrsat : rsat rs F).
    { intros r Hr. apply (St (r_key r) r). apply find_rec_NoDup; assumption. }
    (* the records store, read at the graph keys, satisfies the source equations *)
    assert (Ss' : gsat key node V (find_node g) neval (fun k => rs (KG k))).
    { intros k0 nd Hf. apply find_node_In in Hf.
      apply (records_sim k0 nd rs (supported_in g k0 nd Hsup Hf) (data_ok_in g k0 nd Hdok Hf)).
      intros r Hr. apply Hrsat. apply in_flatten. eauto. }
    assert (Hko : In k os).
    { destruct Tos as (_ & Hkeys & _). apply Hkeys. unfold defined, keys, src_graph. rewrite map_map. exact Hk. }
    split.
    - symmetry. exact (gsat_unique key node V (find_node g) nrefs neval os _ _ Gs Xs Ss Ss' k Hko).
    - assert (Hne : src_run g os k <> None).
      { apply (grun_total key node V Pos.eqb Pos.eqb_eq (find_node g) nrefs neval os); auto.
        intros k0 nd Hf s H. apply find_node_In in Hf.
        apply neval_some; [exact (supported_in g k0 nd Hsup Hf) | exact (data_ok_in g k0 nd Hdok Hf) | exact H]. }
      destruct (src_run g os k) as [v|]; [eauto | contradiction].
  Qed.

  (* order independence on both sides *)
  Theorem rec_run_confluent : forall g o1 o2,
    NoDup (map fst g) -> data_ok g = true ->
    rtopological (rec_graph (flatten kle g)) o1 -> rtopological (rec_graph (flatten kle g)) o2 ->
    forall x, rec_run (flatten kle g) o1 x = rec_run (flatten kle g) o2 x.
  Proof.
    intros g o1 o2 Hnd Hdok T1 T2 x.
    assert (HndF : NoDup (map r_key (flatten kle g))) by (apply flatten_keys_unique; exact Hnd).
    apply (grun_confluent rkey rec V rkey_eqb rkey_eqb_eq (find_rec (flatten kle g)) r_deps rec_eval);
      [apply rec_topo; assumption | apply rec_topo; assumption |].
    intros k0 r Hf s s' H. apply find_rec_In in Hf. destruct Hf as [Hr _].
    apply rec_eval_ext. intros y Hy. apply H.
    apply (proj2 (proj2 (flatten_deps_exact kle g r Hdok Hr))). exact Hy.
  Qed.
End SemFacts.

(* ------------------------------------------------------------------------- *)
(** * _walk_records with a shared `seen` set *)

Section WalkFacts.
  Variable d : dag.

  (* names reachable from the roots through `dependencies()` *)
  Inductive reach (roots : list positive) : positive -> Prop :=
  | reach_root : forall r, In r roots -> reach roots r
  | reach_step : forall a b, reach roots a -> In b (deps_of d a) -> reach roots b.

  Lemma reach_trans : forall roots roots' x,
    (forall r, In r roots' -> reach roots r) -> reach roots' x -> reach roots x.
  Proof.
    intros roots roots' x H R. induction R as [r Hr|a b Ra IH Hb]; [exact (H r Hr)|].
    exact (reach_step roots a b IH Hb).
  Qed.

  Lemma reach_incl : forall roots roots' x, incl roots' roots -> reach roots' x -> reach roots x.
  Proof. intros roots roots' x H. apply reach_trans. intros r Hr. apply reach_root. exact (H r Hr). Qed.

  (* a set of names closed under `dependencies()` *)
  Definition closed_set (S : list positive) : Prop := forall x y, In x S -> In y (deps_of d x) -> In y S.

  Lemma closed_reach : forall S roots, closed_set S -> incl roots S -> forall x, reach roots x -> In x S.
  Proof.
    intros S roots Hc Hr x R. induction R as [r H|a b Ra IH Hb]; [exact (Hr r H) | exact (Hc a b IH Hb)].
  Qed.

  (* --- the loop --- *)
  Lemma walk_loop_spec : forall fuel stack seen em seen' em',
    walk_loop fuel d stack seen em = Some (seen', em') ->
    exists new,
      em' = em ++ new /\ seen' = rev new ++ seen /\
      NoDup new /\ (forall x, In x new -> ~ In x seen) /\
      (forall x, In x new -> reach stack x) /\
      (forall x, In x stack -> In x seen') /\
      (forall x y, In x new -> In y (deps_of d x) -> In y seen').
  Proof.
    induction fuel as [|f IH]; intros stack seen em seen' em' H.
    - destruct stack as [|e rest]; [|discriminate]. cbn in H. inversion H; subst.
      exists []. split; [rewrite app_nil_r; reflexivity|]. split; [reflexivity|]. split; [constructor|].
        split; [intros x []|]. split; [intros x []|]. split; [intros x []|]. intros x y [].
    - destruct stack as [|e rest].
      + cbn in H. inversion H; subst.
        exists []. split; [rewrite app_nil_r; reflexivity|]. split; [reflexivity|]. split; [constructor|].
        split; [intros x []|]. split; [intros x []|]. split; [intros x []|]. intros x y [].
      + cbn [walk_loop] in H. destruct (mem_b e seen) eqn:Em.
        * apply mem_b_In in Em. destruct (IH _ _ _ _ _ H) as (new & E1 & E2 & Hnd & Hns & Hr & Hst & Hcl).
          exists new. repeat split; try assumption.
          -- intros x Hx. apply (reach_incl _ rest); [intros y Hy; right; exact Hy | exact (Hr x Hx)].
          -- intros x [E|Hx]; [|exact (Hst x Hx)]. subst x. rewrite E2. apply in_or_app. right; exact Em.
        * assert (Hne : ~ In e seen) by (intro Hin; apply mem_b_In in Hin; congruence).
          destruct (IH _ _ _ _ _ H) as (new & E1 & E2 & Hnd & Hns & Hr & Hst & Hcl).
          exists (e :: new). split; [rewrite E1, <- app_assoc; reflexivity|].
          split; [rewrite E2; cbn; rewrite <- app_assoc; reflexivity|].
          split; [constructor; [intro Hin; apply (Hns e Hin); left; reflexivity | exact Hnd]|].
          split; [intros x [E|Hx]; [subst; exact Hne | intro Hs; apply (Hns x Hx); right; exact Hs]|].
          split.
          { intros x [E|Hx]; [subst; apply reach_root; left; reflexivity|].
            apply (reach_trans _ (rev (deps_of d e) ++ rest)); [|exact (Hr x Hx)].
            intros r Hin. apply in_app_or in Hin. destruct Hin as [Hin|Hin].
            - apply in_rev in Hin. apply (reach_step _ e); [apply reach_root; left; reflexivity | exact Hin].
            - apply reach_root. right; exact Hin. }
          split.
          { intros x [E|Hx].
            - subst x. rewrite E2. apply in_or_app. right. left; reflexivity.
            - apply Hst. apply in_or_app. right; exact Hx. }
          intros x y [E|Hx] Hy.
          { subst x. apply Hst. apply in_or_app. left. apply in_rev. rewrite rev_involutive. exact Hy. }
          exact (Hcl x y Hx Hy).
  Qed.

  (* --- the fuel of `walk` always suffices --- *)
  Definition wgt (seen : list positive) (ln : lnode) : nat :=
    if mem_b (ln_name ln) seen then 0 else length (ln_deps ln).
  Fixpoint phi_of (l : dag) (seen : list positive) : nat :=
    match l with [] => 0 | ln :: t => wgt seen ln + phi_of t seen end.
  Definition phi (seen : list positive) : nat := phi_of d seen.

  Lemma wgt_cons : forall e seen ln,
    wgt (e :: seen) ln = if Pos.eqb (ln_name ln) e then 0 else wgt seen ln.
  Proof. intros e seen ln. unfold wgt. cbn [mem_b]. destruct (Pos.eqb (ln_name ln) e); reflexivity. Qed.

  Lemma phi_le_total : forall seen, phi seen <= total_deps d.
  Proof.
    intro seen. unfold phi, total_deps. induction d as [|ln t IH]; cbn [phi_of fold_right]; [lia|].
    unfold wgt. destruct (mem_b (ln_name ln) seen); lia.
  Qed.

  Lemma phi_of_mono : forall l e seen, phi_of l (e :: seen) <= phi_of l seen.
  Proof.
    induction l as [|ln t IH]; intros e seen; cbn [phi_of]; [lia|].
    rewrite wgt_cons. pose proof (IH e seen). destruct (Pos.eqb (ln_name ln) e); lia.
  Qed.

  Lemma phi_step : forall e seen, mem_b e seen = false -> phi (e :: seen) + length (deps_of d e) <= phi seen.
  Proof.
    intros e seen Hm. unfold phi, deps_of. induction d as [|ln t IH]; cbn [phi_of find_layer]; [cbn; lia|].
    rewrite wgt_cons. destruct (Pos.eqb (ln_name ln) e) eqn:E.
    - apply Pos.eqb_eq in E. unfold wgt. rewrite E, Hm. pose proof (phi_of_mono t e seen). lia.
    - lia.
  Qed.

  Lemma walk_loop_fuel : forall fuel stack seen em,
    length stack + phi seen < fuel -> walk_loop fuel d stack seen em <> None.
  Proof.
    induction fuel as [|f IH]; intros stack seen em Hlt; [lia|].
    destruct stack as [|e rest]; [discriminate|]. cbn [walk_loop].
    destruct (mem_b e seen) eqn:Em.
    - apply IH. cbn [length] in Hlt. lia.
    - apply IH. pose proof (phi_step e seen Em) as P. rewrite app_length, rev_length. cbn [length] in Hlt.
      unfold key in *. lia.
  Qed.

  Theorem walk_total : forall roots seen, exists r, walk d roots seen = Some r.
  Proof.
    intros roots seen. unfold walk.
    destruct (walk_loop (walk_fuel d (rev roots)) d (rev roots) seen []) as [r|] eqn:E; [eauto|].
    exfalso. revert E. apply walk_loop_fuel. unfold walk_fuel. pose proof (phi_le_total seen). lia.
  Qed.

  (* --- one call of _walk_records --- *)
  Theorem walk_spec : forall roots seen seen' em,
    walk d roots seen = Some (seen', em) ->
    seen' = rev em ++ seen /\ NoDup em /\ (forall x, In x em -> ~ In x seen) /\
    (forall x, In x em -> reach roots x) /\ incl roots seen' /\
    (closed_set seen -> closed_set seen').
  Proof.
    intros roots seen seen' em H. unfold walk in H.
    destruct (walk_loop_spec _ _ _ _ _ _ H) as (new & E1 & E2 & Hnd & Hns & Hr & Hst & Hcl).
    cbn in E1. subst em. split; [exact E2|]. split; [exact Hnd|]. split; [exact Hns|]. split.
    - intros x Hx. apply (reach_incl _ (rev roots)); [intros y Hy; apply in_rev; exact Hy | exact (Hr x Hx)].
    - split; [intros x Hx; apply Hst; apply in_rev; rewrite rev_involutive; exact Hx|].
      intros Hc x y Hx Hy. rewrite E2 in Hx. apply in_app_or in Hx. destruct Hx as [Hx|Hx].
      + apply in_rev in Hx. exact (Hcl x y Hx Hy).
      + rewrite E2. apply in_or_app. right. exact (Hc x y Hx Hy).
  Qed.

  (* --- several roots, one shared `seen` (the names only) --- *)
  Fixpoint walk_shared (roots seen : list positive) : option (list positive * list positive) :=
    match roots with
    | [] => Some (seen, [])
    | r :: t =>
      match walk d [r] seen with
      | None => None
      | Some (s1, e1) =>
        match walk_shared t s1 with
        | None => None
        | Some (s2, e2) => Some (s2, e1 ++ e2)
        end
      end
    end.

  Lemma walk_shared_spec : forall roots seen seen' em,
    closed_set seen -> walk_shared roots seen = Some (seen', em) ->
    closed_set seen' /\ (forall x, In x seen' <-> In x seen \/ In x em) /\
    NoDup em /\ (forall x, In x em -> ~ In x seen) /\
    (forall x, In x em -> reach roots x) /\ incl roots seen'.
  Proof.
    induction roots as [|r t IH]; intros seen seen' em Hc H.
    - cbn in H. inversion H; subst. split; [exact Hc|]. split; [intro x; cbn; tauto|].
      split; [constructor|]. split; [intros x []|]. split; [intros x [] | intros x []].
    - cbn [walk_shared] in H. destruct (walk d [r] seen) as [[s1 e1]|] eqn:W; [|discriminate].
      destruct (walk_shared t s1) as [[s2 e2]|] eqn:W2; [|discriminate]. inversion H; subst.
      destruct (walk_spec _ _ _ _ W) as (E1 & Hnd1 & Hns1 & Hr1 & Hi1 & Hc1).
      destruct (IH _ _ _ (Hc1 Hc) W2) as (Hc2 & Hiff2 & Hnd2 & Hns2 & Hr2 & Hi2).
      assert (Hs1 : forall x, In x s1 <-> In x seen \/ In x e1).
      { intro x. rewrite E1, in_app_iff, <- in_rev. tauto. }
      split; [exact Hc2|]. split.
      { intro x. rewrite Hiff2, Hs1, in_app_iff. tauto. }
      split.
      { apply NoDup_app_intro; [exact Hnd1 | exact Hnd2 |].
        intros z Hz1 Hz2. apply (Hns2 z Hz2). apply Hs1. right; exact Hz1. }
      split.
      { intros x Hx Hs. apply in_app_or in Hx. destruct Hx as [Hx|Hx]; [exact (Hns1 x Hx Hs)|].
        apply (Hns2 x Hx). apply Hs1. left; exact Hs. }
      split.
      { intros x Hx. apply in_app_or in Hx. destruct Hx as [Hx|Hx].
        - apply (reach_incl _ [r]); [intros y [E|[]]; subst; left; reflexivity | exact (Hr1 x Hx)].
        - apply (reach_incl _ t); [intros y Hy; right; exact Hy | exact (Hr2 x Hx)]. }
      intros x [E|Hx]; [|exact (Hi2 x Hx)]. subst x. apply Hiff2. left. apply Hi1. left; reflexivity.
  Qed.

  (* with a fresh shared set: each reachable layer exactly once *)
  Theorem walk_shared_exactly_once : forall roots seen' em,
    walk_shared roots [] = Some (seen', em) ->
    NoDup em /\ (forall x, In x em <-> reach roots x) /\ (forall x, In x seen' <-> In x em).
  Proof.
    intros roots seen' em H.
    assert (Hc0 : closed_set []) by (intros x y []).
    destruct (walk_shared_spec _ _ _ _ Hc0 H) as (Hc & Hiff & Hnd & _ & Hr & Hi).
    assert (Hse : forall x, In x seen' <-> In x em) by (intro x; rewrite Hiff; cbn; tauto).
    split; [exact Hnd|]. split; [|exact Hse].
    intro x. split; [exact (Hr x)|]. intro R. apply Hse. exact (closed_reach seen' roots Hc Hi x R).
  Qed.

  (* all the roots in ONE walk *)
  Theorem walk_exactly_once : forall roots seen' em,
    walk d roots [] = Some (seen', em) ->
    NoDup em /\ (forall x, In x em <-> reach roots x).
  Proof.
    intros roots seen' em H. destruct (walk_spec _ _ _ _ H) as (E & Hnd & _ & Hr & Hi & Hc).
    split; [exact Hnd|]. intro x. split; [exact (Hr x)|]. intro R.
    assert (Hin : In x seen') by (apply (closed_reach seen' roots); [apply Hc; intros a b [] | exact Hi | exact R]).
    rewrite E, app_nil_r in Hin. apply in_rev. exact Hin.
  Qed.
End WalkFacts.

(* ------------------------------------------------------------------------- *)
(** * collect_task_records: one collection, and several with a shared `seen` *)

Section CollectFacts.
  Variable kle : rkey -> rkey -> bool.
  Variable d : dag.

  Lemma flatten_flat_map : forall A (f : A -> sgraph) l,
    flatten kle (flat_map f l) = flat_map (fun x => flatten kle (f x)) l.
  Proof.
    intros A f l. unfold flatten. induction l as [|x t IH]; cbn; [reflexivity|].
    rewrite flat_map_app, IH. reflexivity.
  Qed.

  Lemma supported_flat_map : forall A (f : A -> sgraph) l,
    supported (flat_map f l) = forallb (fun x => supported (f x)) l.
  Proof.
    intros A f l. unfold supported. induction l as [|x t IH]; cbn; [reflexivity|].
    rewrite forallb_app, IH. reflexivity.
  Qed.

  (* the combined source graph of the emitted layers *)
  Definition combined (em : list positive) : sgraph := flat_map (graph_of d) em.

  Lemma emitted_records_spec : forall em,
    emitted_records kle d em =
    if supported (combined em) then Some (flatten kle (combined em)) else None.
  Proof.
    intro em. unfold emitted_records, combined, layer_records.
    rewrite supported_flat_map, flatten_flat_map. reflexivity.
  Qed.

  (* ONE collection, fresh `seen`, completeness checked *)
  Theorem collect_single_spec : forall root,
    exists seen' em,
      walk d [root] [] = Some (seen', em) /\
      NoDup em /\ (forall nm, In nm em <-> reach d [root] nm) /\
      collect kle d root None =
      (if supported (combined em) && check_complete (flatten kle (combined em))
       then Some (seen', flatten kle (combined em)) else None).
  Proof.
    intro root. destruct (walk_total d [root] []) as [[seen' em] W].
    exists seen', em. split; [exact W|].
    destruct (walk_exactly_once d _ _ _ W) as [Hnd Hiff]. split; [exact Hnd|]. split; [exact Hiff|].
    unfold collect. rewrite W, emitted_records_spec.
    destruct (supported (combined em)); cbn; [|reflexivity].
    destruct (check_complete (flatten kle (combined em))); reflexivity.
  Qed.

  (* SEVERAL collections, one shared `seen`: the records are those of the layers that
     walk_shared emits *)
  Lemma collect_shared_walk : forall roots seen seen' rs,
    collect_shared kle d roots seen = Some (seen', rs) ->
    exists em, walk_shared d roots seen = Some (seen', em) /\
               supported (combined em) = true /\ rs = flatten kle (combined em).
  Proof.
    induction roots as [|r t IH]; intros seen seen' rs H.
    - cbn in H. inversion H; subst. exists []. cbn. auto.
    - cbn [collect_shared] in H. unfold collect in H. cbn [walk_shared].
      destruct (walk d [r] seen) as [[s1 e1]|] eqn:W; [|discriminate].
      rewrite emitted_records_spec in H. destruct (supported (combined e1)) eqn:S1; [|discriminate].
      cbn [orb] in H.
      destruct (collect_shared kle d t s1) as [[s2 rs2]|] eqn:C; [|discriminate]. inversion H; subst.
      destruct (IH _ _ _ C) as (e2 & W2 & S2 & E2). rewrite W2. exists (e1 ++ e2).
      split; [reflexivity|]. unfold combined in *. rewrite flat_map_app.
      split.
      + unfold supported in *. rewrite forallb_app, S1, S2. reflexivity.
      + unfold flatten in *. rewrite flat_map_app, E2. reflexivity.
  Qed.

  Theorem collect_shared_spec : forall roots seen' rs,
    collect_shared kle d roots [] = Some (seen', rs) ->
    exists em,
      (* each layer reachable from some root is emitted exactly once *)
      NoDup em /\ (forall nm, In nm em <-> reach d roots nm) /\
      (* the union of the records is the translation of the combined source graph ... *)
      rs = flatten kle (combined em) /\ supported (combined em) = true /\
      (* ... the same records, as a set, as walking all the roots in one go *)
      (forall seen1 em1, walk d roots [] = Some (seen1, em1) ->
         forall r, In r rs <-> In r (flatten kle (combined em1))) /\
      (* hence complete exactly when the combined source graph is closed *)
      (no_self_alias (combined em) -> (check_complete rs = true <-> closed (src_graph (combined em)))).
  Proof.
    intros roots seen' rs H. destruct (collect_shared_walk _ _ _ _ H) as (em & W & S & E).
    destruct (walk_shared_exactly_once d _ _ _ W) as (Hnd & Hiff & _).
    exists em. split; [exact Hnd|]. split; [exact Hiff|]. split; [exact E|]. split; [exact S|]. split.
    - intros seen1 em1 W1 r. destruct (walk_exactly_once d _ _ _ W1) as [_ Hiff1].
      rewrite E. unfold combined. rewrite !flatten_flat_map, !in_flat_map.
      split; intros [nm [Hn Hr]]; exists nm; (split; [|exact Hr]).
      + apply Hiff1. apply Hiff. exact Hn.
      + apply Hiff. apply Hiff1. exact Hn.
    - intro Hs. rewrite E. apply check_complete_closed; assumption.
  Qed.

  (* the shared walk never runs out of fuel: it declines only when a reachable layer is not
     translatable *)
  Theorem collect_shared_total : forall roots seen,
    (forall nm, reach d roots nm -> supported (graph_of d nm) = true) ->
    exists res, collect_shared kle d roots seen = Some res.
  Proof.
    induction roots as [|r t IH]; intros seen Hsup; [cbn; eauto|].
    cbn [collect_shared]. unfold collect.
    destruct (walk_total d [r] seen) as [[s1 e1] W]. rewrite W.
    destruct (walk_spec d _ _ _ _ W) as (_ & _ & _ & Hr & _ & _).
    unfold emitted_records.
    assert (S1 : forallb (fun nm => supported (graph_of d nm)) e1 = true).
    { apply forallb_forall. intros nm Hn. apply Hsup.
      apply (reach_incl d _ [r]); [intros y [E|[]]; subst; left; reflexivity | exact (Hr nm Hn)]. }
    rewrite S1. cbn [orb].
    destruct (IH s1) as [[s2 rs2] C].
    { intros nm R. apply Hsup. apply (reach_incl d _ t); [intros y Hy; right; exact Hy | exact R]. }
    rewrite C. eauto.
  Qed.
End CollectFacts.

(* ------------------------------------------------------------------------- *)
(** * A topological order of the records always exists (given one of the source) *)

Definition before {A} (o : list A) (y x : A) : Prop := exists l1 l2 l3, o = l1 ++ y :: l2 ++ x :: l3.

Lemma NoDup_split_unique : forall A (a a' : list A) k b b',
  NoDup (a ++ k :: b) -> a ++ k :: b = a' ++ k :: b' -> a = a'.
Proof.
  induction a as [|x a IH]; intros [|y a'] k b b' Hnd E; cbn in *.
  - reflexivity.
  - inversion E; subst. inversion Hnd as [|? ? Hk _]; subst. exfalso. apply Hk.
    apply in_or_app. right; left; reflexivity.
  - inversion E; subst. inversion Hnd as [|? ? Hk _]; subst. exfalso. apply Hk.
    apply in_or_app. right; left; reflexivity.
  - inversion E; subst. inversion Hnd; subst. f_equal. eapply IH; eassumption.
Qed.

Lemma before_in_pre : forall A (o : list A) y x pre post,
  NoDup o -> before o y x -> o = pre ++ x :: post -> In y pre.
Proof.
  intros A o y x pre post Hnd (l1 & l2 & l3 & E) E'.
  assert (Epre : pre = l1 ++ y :: l2).
  { apply (NoDup_split_unique A pre (l1 ++ y :: l2) x post l3); [rewrite <- E'; exact Hnd|].
    rewrite <- E', E. rewrite <- app_assoc. reflexivity. }
  rewrite Epre. apply in_or_app. right; left; reflexivity.
Qed.

Lemma before_flat_map : forall A B (f : A -> list B) o1 a o2 b o3 y x,
  In y (f a) -> In x (f b) -> before (flat_map f (o1 ++ a :: o2 ++ b :: o3)) y x.
Proof.
  intros A B f o1 a o2 b o3 y x Hy Hx.
  apply in_split in Hy. destruct Hy as [a1 [a2 Ea]]. apply in_split in Hx. destruct Hx as [b1 [b2 Eb]].
  exists (flat_map f o1 ++ a1), (a2 ++ flat_map f o2 ++ b1), (b2 ++ flat_map f o3).
  rewrite flat_map_app. cbn [flat_map]. rewrite flat_map_app. cbn [flat_map]. rewrite Ea, Eb.
  repeat (rewrite <- app_assoc; cbn [app]). reflexivity.
Qed.

Lemma before_flat_map_same : forall A B (f : A -> list B) os b y x,
  In b os -> before (f b) y x -> before (flat_map f os) y x.
Proof.
  intros A B f os b y x Hb (l1 & l2 & l3 & E).
  apply in_split in Hb. destruct Hb as [o1 [o2 Eo]]. subst os.
  exists (flat_map f o1 ++ l1), l2, (l3 ++ flat_map f o2).
  rewrite flat_map_app. cbn [flat_map]. rewrite E.
  repeat (rewrite <- app_assoc; cbn [app]). reflexivity.
Qed.

Lemma ordered_split : forall e1 r e2 av, ordered av (e1 ++ r :: e2) ->
  forall y, In y (r_deps r) -> (exists dd, y = KG dd) \/ In y av \/ In y (map r_key e1).
Proof.
  induction e1 as [|r0 e1 IH]; cbn; intros r e2 av [H1 H2] y Hy.
  - destruct (H1 y Hy); auto.
  - destruct (IH r e2 _ H2 y Hy) as [H|[[E|H]|H]]; auto.
Qed.

Section FlatOrder.
  Variable kle : rkey -> rkey -> bool.

  Definition block (g : sgraph) (k : key) : list rkey :=
    match find_node g k with
    | Some nd => match records kle k nd with [] => [] | m :: ex => map r_key ex ++ [r_key m] end
    | None => []
    end.

  Lemma flat_order_blocks : forall g os, flat_order kle g os = flat_map (block g) os.
  Proof. reflexivity. Qed.

  Lemma block_in : forall g k z,
    In z (block g k) <-> exists nd, find_node g k = Some nd /\ In z (map r_key (records kle k nd)).
  Proof.
    intros g k z. unfold block. destruct (find_node g k) as [nd|]; [|split; [intros [] | intros [nd [H _]]; discriminate]].
    split.
    - intro H. exists nd. split; [reflexivity|]. destruct (records kle k nd) as [|m ex]; [destruct H|].
      apply in_app_or in H. cbn. destruct H as [H|[H|[]]]; auto.
    - intros [nd' [E H]]. inversion E; subst nd'. destruct (records kle k nd) as [|m ex]; [destruct H|].
      apply in_or_app. cbn in H. destruct H as [H|H]; [right; left; exact H | left; exact H].
  Qed.

  Lemma topo_no_self_alias : forall g os, topological (src_graph g) os -> no_self_alias g.
  Proof.
    intros g os (Hnd & Hkeys & Hdeps) k Hin.
    assert (Hk : In k os) by (apply Hkeys; apply src_graph_defined; eauto).
    apply in_split in Hk. destruct Hk as [pre [post E]].
    assert (Hp : In k pre).
    { apply (Hdeps pre k post [k] E); [|left; reflexivity].
      unfold src_graph. apply in_map_iff. exists (k, NAlias k). auto. }
    rewrite E in Hnd. apply NoDup_remove_2 in Hnd. apply Hnd. apply in_or_app. left; exact Hp.
  Qed.

  Theorem flat_order_topological : forall g os,
    NoDup (map fst g) -> supported g = true -> topological (src_graph g) os ->
    rtopological (rec_graph (flatten kle g)) (flat_order kle g os).
  Proof.
    intros g os Hndg Hsup T. pose proof (topo_no_self_alias g os T) as Hns.
    destruct T as (Hndo & Hkeys & Hdeps). rewrite flat_order_blocks.
    assert (Hos : forall k, In k os <-> exists nd, In (k, nd) g).
    { intro k. rewrite Hkeys. apply src_graph_defined. }
    assert (Hnd : NoDup (flat_map (block g) os)).
    { apply NoDup_flat_map_in; [exact Hndo | |].
      - intros k _. unfold block. destruct (find_node g k) as [nd|]; [|constructor].
        pose proof (records_keys_NoDup kle k nd) as N. destruct (records kle k nd) as [|m ex]; [constructor|].
        cbn in N. inversion N as [|? ? Hm Hex]; subst.
        apply NoDup_app_intro; [exact Hex | constructor; [intros [] | constructor] |].
        intros z Hz [E|[]]. subst z. contradiction.
      - intros k1 k2 z _ _ H1 H2. apply block_in in H1. apply block_in in H2.
        destruct H1 as [n1 [_ H1]]. destruct H2 as [n2 [_ H2]].
        apply in_map_iff in H1. destruct H1 as [r1 [E1 Hr1]]. apply in_map_iff in H2. destruct H2 as [r2 [E2 Hr2]].
        destruct (records_keys kle _ _ _ Hr1) as [A|[i [A _]]]; destruct (records_keys kle _ _ _ Hr2) as [B|[j [B _]]];
          rewrite E1 in A; rewrite E2 in B; rewrite A in B; inversion B; reflexivity. }
    assert (Hmem : forall x, In x (flat_map (block g) os) <-> In x (map r_key (flatten kle g))).
    { intro x. rewrite in_flat_map, in_map_iff. split.
      - intros [k [Hk Hx]]. apply block_in in Hx. destruct Hx as [nd [Hf Hx]].
        apply in_map_iff in Hx. destruct Hx as [r [E Hr]]. exists r. split; [exact E|].
        apply in_flatten. exists k, nd. split; [apply find_node_In; exact Hf | exact Hr].
      - intros [r [E Hr]]. apply in_flatten in Hr. destruct Hr as [k [nd [Hin Hr]]].
        exists k. split; [apply Hos; eauto|]. apply block_in. exists nd.
        split; [apply find_node_NoDup; assumption|]. apply in_map_iff. eauto. }
    split; [exact Hnd|]. split.
    { intro x. rewrite Hmem. unfold rec_graph. rewrite map_map. reflexivity. }
    intros pre x post ds E Hx y Hy.
    apply (before_in_pre _ _ y x pre post Hnd); [|exact E].
    unfold rec_graph in Hx. apply in_map_iff in Hx. destruct Hx as [r [Er Hr]]. inversion Er; subst x ds. clear Er.
    apply in_flatten in Hr. destruct Hr as [k [nd [Hin Hr]]].
    assert (Hf : find_node g k = Some nd) by (apply find_node_NoDup; assumption).
    assert (Hko : In k os) by (apply Hos; eauto).
    assert (Hxb : In (r_key r) (block g k)).
    { apply block_in. exists nd. split; [exact Hf|]. apply in_map. exact Hr. }
    destruct (records_deps_bound kle k nd r y Hr Hy) as [[dd [Ey Hdd]]|[[i Ey] Hyk]].
    - (* a graph key: its block is earlier because dd is earlier in the source order *)
      subst y. pose proof Hko as Hsplit. apply in_split in Hsplit. destruct Hsplit as [pre' [post' Eo]].
      assert (Hp : In dd pre').
      { apply (Hdeps pre' k post' (nrefs nd) Eo); [|exact Hdd].
        unfold src_graph. apply in_map_iff. exists (k, nd). auto. }
      apply in_split in Hp. destruct Hp as [p1 [p2 Ep]]. subst pre'.
      assert (Hddo : In dd os) by (rewrite Eo; apply in_or_app; left; apply in_or_app; right; left; reflexivity).
      apply Hos in Hddo. destruct Hddo as [nd' Hin'].
      assert (Hyb : In (KG dd) (block g dd)).
      { apply block_in. exists nd'. split; [apply find_node_NoDup; assumption|].
        destruct (records_cons kle dd nd') as (m' & ex' & Er' & Ek' & _).
        - intro E0. subst nd'. exact (Hns dd Hin').
        - intro E0. subst nd'. pose proof (supported_in g dd NOther Hsup Hin'). discriminate.
        - rewrite Er'. cbn. left. exact Ek'. }
      rewrite Eo. rewrite <- app_assoc. cbn [app]. apply before_flat_map; assumption.
    - (* a lifted sub-task of the same node: earlier inside the block *)
      apply (before_flat_map_same _ _ (block g) os k); [exact Hko|].
      unfold block. rewrite Hf. pose proof (records_spec kle k nd) as S.
      destruct (records kle k nd) as [|m ex]; [destruct Hr|].
      destruct S as [Ek [ds0 [nt [n' [Ed A]]]]].
      assert (Hyex : In y (map r_key ex)).
      { cbn in Hyk. destruct Hyk as [E0|H]; [|exact H]. rewrite Ek, Ey in E0. discriminate. }
      destruct Hr as [E0|Hr].
      + subst r. apply in_split in Hyex. destruct Hyex as [l1 [l2 El]].
        exists l1, l2, []. rewrite El. rewrite <- app_assoc. reflexivity.
      + apply in_split in Hr. destruct Hr as [e1 [e2 Ee]].
        pose proof (ro_ordered _ _ _ _ _ _ _ _ _ _ A) as Ho. rewrite Ee in Ho.
        destruct (ordered_split e1 r e2 [] Ho y Hy) as [[dd E0]|[[]|H1]]; [rewrite Ey in E0; discriminate|].
        apply in_split in H1. destruct H1 as [l1 [l2 El]].
        exists l1, l2, (map r_key e2 ++ [r_key m]). rewrite Ee, map_app. cbn [map]. rewrite El.
        repeat (rewrite <- app_assoc; cbn [app]). reflexivity.
  Qed.
End FlatOrder.

Lemma no_self_alias_b_spec : forall g, no_self_alias_b g = true <-> no_self_alias g.
Proof.
  intro g. unfold no_self_alias_b, no_self_alias. rewrite forallb_forall. split.
  - intros H k Hin. specialize (H _ Hin). cbn in H. rewrite Pos.eqb_refl in H. discriminate.
  - intros H [k nd] Hin. cbn. destruct nd as [t| | | |]; try reflexivity.
    destruct (Pos.eqb t k) eqn:E; [|reflexivity]. apply Pos.eqb_eq in E. subst. exfalso. exact (H k Hin).
Qed.

(* ------------------------------------------------------------------------- *)
(** * dask's reading of raw containers agrees with the traversing one on `raw_ok` graphs *)

Lemma raw_lit_ASeq : forall s l, raw_lit (ASeq s l) = seq_is_raw s && raw_lit_list l.
Proof. reflexivity. Qed.
Lemma raw_lit_ADict : forall l, raw_lit (ADict l) = raw_lit_kw l.
Proof. reflexivity. Qed.
Lemma raw_ok_list_eq : forall l,
  (fix go (l : list arg) := match l with [] => true | x :: r => raw_ok_arg x && go r end) l = raw_ok_list l.
Proof. induction l as [|x r IH]; [reflexivity|]. cbn. rewrite IH. reflexivity. Qed.
Lemma raw_ok_kw_eq : forall l,
  (fix go (l : list (tag * arg)) := match l with [] => true | (_, x) :: r => raw_ok_arg x && go r end) l = raw_ok_kw l.
Proof. induction l as [|[k x] r IH]; [reflexivity|]. cbn. rewrite IH. reflexivity. Qed.
Lemma raw_ok_ASeq : forall s l,
  raw_ok_arg (ASeq s l) = if seq_is_raw s then raw_lit_list l else raw_ok_list l.
Proof. intros s l. cbn. rewrite raw_ok_list_eq. reflexivity. Qed.
Lemma raw_ok_ATask : forall f a k, raw_ok_arg (ATask f a k) = raw_ok_list a && raw_ok_kw k.
Proof. intros f a k. cbn. rewrite raw_ok_list_eq, raw_ok_kw_eq. reflexivity. Qed.

Section DaskSem.
  Variable V : Type.
  Variable apply : tag -> list V -> list (tag * V) -> V.
  Variable vlit : tag -> V.
  Variable vlist vtuple : list V -> V.
  Variable vdict : list (tag * V) -> V.
  Variable vquote : arg -> V.

  Notation aeval := (aeval V apply vlit vlist vtuple vdict).
  Notation aeval_list := (aeval_list V apply vlit vlist vtuple vdict).
  Notation aeval_kw := (aeval_kw V apply vlit vlist vtuple vdict).
  Notation neval := (neval V apply vlit vlist vtuple vdict).
  Notation src_run := (src_run V apply vlit vlist vtuple vdict).
  Notation rawval := (rawval V vlit vlist vtuple vdict vquote).
  Notation aeval_dask := (aeval_dask V apply vlit vlist vtuple vdict vquote).
  Notation aeval_dask_list := (aeval_dask_list V apply vlit vlist vtuple vdict vquote).
  Notation aeval_dask_kw := (aeval_dask_kw V apply vlit vlist vtuple vdict vquote).
  Notation neval_dask := (neval_dask V apply vlit vlist vtuple vdict vquote).
  Notation src_run_dask := (src_run_dask V apply vlit vlist vtuple vdict vquote).

  Lemma rawval_ASeq : forall s l, seq_is_raw s = true ->
    rawval (ASeq s l) = (if seq_is_list s then vlist else vtuple) (map rawval l).
  Proof.
    intros s l H. cbn. rewrite H. f_equal; induction l as [|x r IH]; cbn; try rewrite IH; reflexivity.
  Qed.
  Lemma rawval_ADict : forall l, rawval (ADict l) = vdict (map (fun kv => (fst kv, rawval (snd kv))) l).
  Proof.
    intro l. cbn. f_equal; induction l as [|[k x] r IH]; cbn; try rewrite IH; reflexivity.
  Qed.

  (* a raw literal structure evaluates, by traversal, to itself *)
  Lemma raw_lit_eval : forall a, raw_lit a = true -> forall s, aeval s a = Some (rawval a).
  Proof.
    induction a as [k|k|v|sk items IH|f args kwargs IHa IHk| |items IH|t] using arg_ind2;
      intros H s; try discriminate.
    - rewrite raw_lit_ASeq in H. apply andb_true_iff in H. destruct H as [Hr Hl].
      rewrite (aeval_ASeq V apply vlit vlist vtuple vdict), rawval_ASeq by exact Hr.
      assert (E : aeval_list s items = Some (map rawval items)).
      { clear Hr. induction IH as [|x r Hx Hrr IHr]; [reflexivity|]. cbn in Hl.
        apply andb_true_iff in Hl. destruct Hl as [H1 H2]. cbn. rewrite (Hx H1 s), (IHr H2). reflexivity. }
      rewrite E. reflexivity.
    - rewrite raw_lit_ADict in H.
      rewrite (aeval_ADict V apply vlit vlist vtuple vdict), rawval_ADict.
      assert (E : aeval_kw s items = Some (map (fun kv => (fst kv, rawval (snd kv))) items)).
      { induction IH as [|[k x] r Hx Hrr IHr]; [reflexivity|]. cbn in H. cbn [snd] in Hx.
        apply andb_true_iff in H. destruct H as [H1 H2]. cbn. rewrite (Hx H1 s), (IHr H2). reflexivity. }
      rewrite E. reflexivity.
    - reflexivity.
  Qed.

  Lemma aeval_dask_al : forall s l,
    (fix al (l : list arg) : option (list V) :=
       match l with
       | [] => Some []
       | x :: r => match aeval_dask s x, al r with Some v, Some vs => Some (v :: vs) | _, _ => None end
       end) l = aeval_dask_list s l.
  Proof. intros s l. induction l as [|x r IH]; [reflexivity|]. cbn. rewrite IH. reflexivity. Qed.
  Lemma aeval_dask_ak : forall s l,
    (fix ak (l : list (tag * arg)) : option (list (tag * V)) :=
       match l with
       | [] => Some []
       | (k, x) :: r => match aeval_dask s x, ak r with Some v, Some vs => Some ((k, v) :: vs) | _, _ => None end
       end) l = aeval_dask_kw s l.
  Proof. intros s l. induction l as [|[k x] r IH]; [reflexivity|]. cbn. rewrite IH. reflexivity. Qed.

  Definition dask_eq (a : arg) : Prop := raw_ok_arg a = true -> forall s, aeval_dask s a = aeval s a.

  Lemma aeval_dask_list_eq : forall l, Forall dask_eq l -> raw_ok_list l = true ->
    forall s, aeval_dask_list s l = aeval_list s l.
  Proof.
    intros l Hl; induction Hl as [|x r Hx Hr IH]; intros H s; [reflexivity|]. cbn in H.
    apply andb_true_iff in H. destruct H as [H1 H2]. cbn. rewrite (Hx H1 s), (IH H2 s). reflexivity.
  Qed.
  Lemma aeval_dask_kw_eq : forall l, Forall (fun kv => dask_eq (snd kv)) l -> raw_ok_kw l = true ->
    forall s, aeval_dask_kw s l = aeval_kw s l.
  Proof.
    intros l Hl; induction Hl as [|[k x] r Hx Hr IH]; intros H s; [reflexivity|]. cbn in H. cbn [snd] in Hx.
    apply andb_true_iff in H. destruct H as [H1 H2]. cbn. rewrite (Hx H1 s), (IH H2 s). reflexivity.
  Qed.

  Theorem aeval_dask_eq : forall a, dask_eq a.
  Proof.
    induction a as [k|k|v|sk items IH|f args kwargs IHa IHk| |items IH|t] using arg_ind2; intros H s;
      try reflexivity.
    - rewrite raw_ok_ASeq in H. destruct (seq_is_raw sk) eqn:Er.
      + assert (Hl : raw_lit (ASeq sk items) = true) by (rewrite raw_lit_ASeq, Er, H; reflexivity).
        rewrite (raw_lit_eval _ Hl s). cbn [Records.aeval_dask]. rewrite Er. reflexivity.
      + rewrite (aeval_ASeq V apply vlit vlist vtuple vdict). cbn [Records.aeval_dask]. rewrite Er.
        rewrite aeval_dask_al. rewrite (aeval_dask_list_eq items IH H s). reflexivity.
    - rewrite raw_ok_ATask in H. apply andb_true_iff in H. destruct H as [H1 H2].
      rewrite (aeval_ATask V apply vlit vlist vtuple vdict). cbn [Records.aeval_dask].
      rewrite aeval_dask_al, aeval_dask_ak.
      rewrite (aeval_dask_list_eq args IHa H1 s), (aeval_dask_kw_eq kwargs IHk H2 s). reflexivity.
    - assert (Hl : raw_lit (ADict items) = true) by (rewrite raw_lit_ADict; exact H).
      rewrite (raw_lit_eval _ Hl s). reflexivity.
  Qed.

  Lemma neval_dask_eq : forall nd, raw_ok_node nd = true -> forall s, neval_dask s nd = neval s nd.
  Proof.
    intros [t|v|b items|f args kwargs|] H s; try reflexivity; cbn in *.
    - rewrite (aeval_dask_list_eq items); [reflexivity | apply Forall_forall; intros x _; apply aeval_dask_eq | exact H].
    - apply andb_true_iff in H. destruct H as [H1 H2].
      rewrite (aeval_dask_list_eq args), (aeval_dask_kw_eq kwargs);
        [reflexivity | apply Forall_forall; intros x _; apply aeval_dask_eq | exact H2
         | apply Forall_forall; intros x _; apply aeval_dask_eq | exact H1].
  Qed.

  Theorem src_run_dask_eq : forall g o, raw_ok g = true -> forall k, src_run_dask g o k = src_run g o k.
  Proof.
    intros g o H k. unfold Records.src_run_dask, Records.src_run.
    assert (Hstep : forall s k0, src_step_dask V apply vlit vlist vtuple vdict vquote g s k0
                               = src_step V apply vlit vlist vtuple vdict g s k0).
    { intros s k0. unfold src_step_dask, src_step. destruct (find_node g k0) as [nd|] eqn:E; [|reflexivity].
      apply find_node_In in E. unfold raw_ok in H. rewrite forallb_forall in H.
      rewrite (neval_dask_eq nd (H (k0, nd) E) s). reflexivity. }
    generalize (fun _ : key => @None V). induction o as [|x t IH]; intro s0; cbn; [reflexivity|].
    rewrite Hstep. apply IH.
  Qed.
End DaskSem.

(* C21_flatten_sound against dask's own reading of raw containers *)
Section DaskSound.
  Variable V : Type.
  Variable apply : tag -> list V -> list (tag * V) -> V.
  Variable vlit : tag -> V.
  Variable vlist vtuple : list V -> V.
  Variable vdict : list (tag * V) -> V.
  Variable vquote : arg -> V.
  Hypothesis apply_ident : forall v, apply ident_fn [v] [] = v.

  Theorem flatten_sound_dask : forall kle g os ot,
    NoDup (map fst g) -> supported g = true -> data_ok g = true -> raw_ok g = true ->
    topological (src_graph g) os ->
    rtopological (rec_graph (flatten kle g)) ot ->
    forall k, In k (map fst g) ->
      rec_run V apply vlit vlist vtuple vdict (flatten kle g) ot (KG k)
      = src_run_dask V apply vlit vlist vtuple vdict vquote g os k /\
      exists v, src_run_dask V apply vlit vlist vtuple vdict vquote g os k = Some v.
  Proof.
    intros kle g os ot H1 H2 H3 Hraw H4 H5 k Hk.
    rewrite (src_run_dask_eq V apply vlit vlist vtuple vdict vquote g os Hraw k).
    exact (flatten_sound V apply vlit vlist vtuple vdict apply_ident kle g os ot H1 H2 H3 H4 H5 k Hk).
  Qed.
End DaskSound.
