(* C18 — the N-D tree: every level groups a product of per-axis partitions; for an
   order-insensitive combine the tree equals one flat aggregate over all blocks. *)
From DA Require Import PyBase PyBaseFacts TreeReduce TreeReduceFacts.
From Coq Require Import ZifyBool Permutation.
Open Scope Z_scope.

Ltac Zify.zify_post_hook ::= Z.to_euclidean_division_equations.

(* ------------------------------------------------------------------ *)
(* list lemmas                                                         *)

Lemma fm_fm {A B C} (f : A -> list B) (g : B -> list C) l :
  flat_map g (flat_map f l) = flat_map (fun a => flat_map g (f a)) l.
Proof. induction l as [|a t IH]; cbn [flat_map]; [reflexivity|]. rewrite flat_map_app, IH. reflexivity. Qed.

Lemma map_fm {A B C} (f : A -> list B) (g : B -> C) l :
  map g (flat_map f l) = flat_map (fun a => map g (f a)) l.
Proof. induction l as [|a t IH]; cbn [flat_map map]; [reflexivity|]. rewrite map_app, IH. reflexivity. Qed.

Lemma fm_map {A B C} (f : A -> B) (g : B -> list C) l :
  flat_map g (map f l) = flat_map (fun a => g (f a)) l.
Proof. induction l as [|a t IH]; cbn [flat_map map]; [reflexivity|]. rewrite IH. reflexivity. Qed.

Lemma fm_concat {A B} (f : A -> list B) (ls : list (list A)) :
  flat_map f (concat ls) = flat_map (fun l => flat_map f l) ls.
Proof. induction ls as [|l t IH]; cbn [concat flat_map]; [reflexivity|]. rewrite flat_map_app, IH. reflexivity. Qed.

Lemma fm_singleton {A} (l : list A) : flat_map (fun x => [x]) l = l.
Proof. induction l as [|a t IH]; cbn; [reflexivity|]. rewrite IH. reflexivity. Qed.

Lemma fm_nil {A B} (l : list A) : flat_map (fun _ => @nil B) l = [].
Proof. induction l as [|a t IH]; cbn; [reflexivity | assumption]. Qed.

Lemma fm_ext_Forall {A B} (P : A -> Prop) (f g : A -> list B) l :
  Forall P l -> (forall a, P a -> f a = g a) -> flat_map f l = flat_map g l.
Proof. intros Hl H. induction Hl as [|a t Ha Ht IH]; cbn; [reflexivity|]. rewrite IH, (H a Ha). reflexivity. Qed.

Lemma perm_fm_ext_Forall {A B} (P : A -> Prop) (f g : A -> list B) l :
  Forall P l -> (forall a, P a -> Permutation (f a) (g a)) -> Permutation (flat_map f l) (flat_map g l).
Proof. intros Hl H. induction Hl as [|a t Ha Ht IH]; cbn; [constructor|]. apply Permutation_app; auto. Qed.

Lemma perm_fm_ext {A B} (f g : A -> list B) l :
  (forall a, Permutation (f a) (g a)) -> Permutation (flat_map f l) (flat_map g l).
Proof. intros H. induction l as [|a t IH]; cbn; [constructor|]. apply Permutation_app; auto. Qed.

Lemma perm_fm_app {A B} (f g : A -> list B) l :
  Permutation (flat_map (fun a => f a ++ g a) l) (flat_map f l ++ flat_map g l).
Proof.
  induction l as [|a t IH]; cbn [flat_map]; [constructor|].
  rewrite <- !app_assoc. apply Permutation_app_head.
  eapply Permutation_trans; [apply Permutation_app_head; exact IH|]. apply Permutation_app_swap_app.
Qed.

Lemma perm_fm_swap {A B C} (f : A -> B -> list C) la lb :
  Permutation (flat_map (fun a => flat_map (f a) lb) la) (flat_map (fun b => flat_map (fun a => f a b) la) lb).
Proof.
  induction la as [|a t IH]; cbn [flat_map].
  - rewrite fm_nil. constructor.
  - eapply Permutation_trans; [apply Permutation_app_head; exact IH|].
    apply Permutation_sym. apply (perm_fm_app (fun b => f a b) (fun b => flat_map (fun a0 => f a0 b) t)).
Qed.

Lemma map2_length {A B C} (f : A -> B -> C) la lb : length la = length lb -> length (map2 f la lb) = length la.
Proof.
  revert lb. induction la as [|a t IH]; intros [|b tb] H; cbn in *; try reflexivity; try discriminate.
  rewrite IH by lia. reflexivity.
Qed.

Lemma map_map2 {A B C D} (f : A -> B -> C) (g : C -> D) la lb : map g (map2 f la lb) = map2 (fun a b => g (f a b)) la lb.
Proof. revert lb. induction la as [|a t IH]; intros [|b tb]; cbn; try reflexivity. rewrite IH. reflexivity. Qed.

Lemma map2_map_l {A A' B C} (f : A' -> B -> C) (h : A -> A') la lb : map2 f (map h la) lb = map2 (fun a b => f (h a) b) la lb.
Proof. revert lb. induction la as [|a t IH]; intros [|b tb]; cbn; try reflexivity. rewrite IH. reflexivity. Qed.

Lemma map2_map2_r {A B B' C} (f : A -> B' -> C) (h : A -> B -> B') la lb :
  map2 f la (map2 h la lb) = map2 (fun a b => f a (h a b)) la lb.
Proof. revert lb. induction la as [|a t IH]; intros [|b tb]; cbn; try reflexivity. rewrite IH. reflexivity. Qed.

Lemma map2_fst_snd {A B C} (f : A -> B -> C) (l : list (A * B)) :
  map2 f (map fst l) (map snd l) = map (fun p => f (fst p) (snd p)) l.
Proof. induction l as [|p t IH]; cbn; [reflexivity|]. rewrite IH. reflexivity. Qed.

(* ------------------------------------------------------------------ *)
(* itertools.product                                                   *)

Lemma cprod_elem_length {A} (ls : list (list A)) x : In x (cprod ls) -> length x = length ls.
Proof.
  revert x. induction ls as [|l t IH]; intros x H; cbn [cprod] in H.
  - destruct H as [<-|[]]. reflexivity.
  - apply in_flat_map in H. destruct H as (a & _ & H). apply in_map_iff in H. destruct H as (y & <- & Hy).
    cbn [length]. rewrite (IH y Hy). reflexivity.
Qed.

Lemma cprod_singletons {A} (q : list A) : cprod (map (fun j => [j]) q) = [q].
Proof. induction q as [|a t IH]; [reflexivity|]. cbn [map cprod flat_map]. rewrite IH. reflexivity. Qed.

(* the groups of a product of partitions, taken together, are the product of the wholes *)
Lemma cprod_parts_perm {A} (parts : list (list (list A))) :
  Permutation (flat_map cprod (cprod parts)) (cprod (map (@concat A) parts)).
Proof.
  induction parts as [|P rest IH].
  - cbn. apply Permutation_refl.
  - cbn [cprod map]. rewrite fm_fm, fm_concat. apply perm_fm_ext. intros g.
    rewrite fm_map.
    refine (Permutation_trans (perm_fm_swap (fun q a => map (cons a) (cprod q)) (cprod rest) g) _).
    apply perm_fm_ext. intros a. rewrite <- map_fm. apply Permutation_map. exact IH.
Qed.

Lemma cprod_map2 {A B C} (g : A -> B -> C) ps : forall Cs, length ps = length Cs ->
  map (fun q => map2 g ps q) (cprod Cs) = cprod (map2 (fun p c => map (g p) c) ps Cs).
Proof.
  induction ps as [|p ps IH]; intros [|c Cs] H; try discriminate.
  - reflexivity.
  - cbn [cprod map2]. rewrite map_fm, fm_map. apply flat_map_ext. intros a.
    rewrite map_map. cbn [map2]. rewrite <- (IH Cs) by (cbn in H; lia). rewrite map_map. reflexivity.
Qed.

Lemma cover_step_perm {P} (c : P -> Z -> list Z) (ps : list P) (G : list (list Z)) :
  length ps = length G ->
  Permutation (flat_map (fun q' => cprod (map2 c ps q')) (cprod G))
              (cprod (map2 (fun p cc => flat_map (c p) cc) ps G)).
Proof.
  intros H. rewrite <- (fm_map (fun q' => map2 c ps q') cprod). rewrite cprod_map2 by assumption.
  eapply Permutation_trans; [apply cprod_parts_perm|]. rewrite map_map2.
  replace (map2 (fun a b => concat (map (c a) b)) ps G) with (map2 (fun p cc => flat_map (c p) cc) ps G).
  - apply Permutation_refl.
  - clear H. revert G. induction ps as [|p t IH]; intros [|g G]; cbn; try reflexivity.
    rewrite IH, flat_map_concat_map. reflexivity.
Qed.

(* ------------------------------------------------------------------ *)
(* the evaluator, level by level                                       *)

Section ND.
  Context {S : Type} (comb : list S -> S).
  Variable kn : list (Z * Z).             (* per axis: (fan-in, number of blocks) *)
  Let ks := map fst kn.
  Let nb := map snd kn.

  Definition nb_at (d : nat) : list Z := map (fun p => nblk d (fst p) (snd p)) kn.

  Lemma nd_iter_snoc d : forall nb0 (f : list Z -> S),
    nd_iter comb ks (Datatypes.S d) nb0 f =
    (nd_numblocks ks (fst (nd_iter comb ks d nb0 f)),
     nd_level comb ks (fst (nd_iter comb ks d nb0 f)) (snd (nd_iter comb ks d nb0 f))).
  Proof.
    induction d as [|d IH]; intros nb0 f; [reflexivity|].
    change (nd_iter comb ks (Datatypes.S (Datatypes.S d)) nb0 f)
      with (nd_iter comb ks (Datatypes.S d) (nd_numblocks ks nb0) (nd_level comb ks nb0 f)).
    rewrite IH. reflexivity.
  Qed.

  Lemma nd_parts_at d : nd_parts ks (nb_at d) =
    map (fun p => partition_all (fst p) (zrange0 (nblk d (fst p) (snd p)))) kn.
  Proof.
    unfold nd_parts, ks, nb_at. rewrite map2_map_l.
    induction kn as [|p t IH]; cbn; [reflexivity|]. rewrite IH. reflexivity.
  Qed.

  Lemma nd_iter_fst d (f : list Z -> S) : fst (nd_iter comb ks d nb f) = nb_at d.
  Proof.
    induction d as [|d IH].
    - cbn. unfold nb, nb_at. apply map_ext. reflexivity.
    - rewrite nd_iter_snoc. cbn [fst]. rewrite IH. unfold nd_numblocks. rewrite nd_parts_at, map_map.
      unfold nb_at. apply map_ext. reflexivity.
  Qed.

  Lemma nd_iter_snd_succ d (f : list Z -> S) :
    snd (nd_iter comb ks (Datatypes.S d) nb f) = nd_level comb ks (nb_at d) (snd (nd_iter comb ks d nb f)).
  Proof. rewrite nd_iter_snoc. cbn [snd]. rewrite nd_iter_fst. reflexivity. Qed.

  Lemma nd_cover_zero q : length q = length kn -> cprod (nd_cover kn 0 q) = [q].
  Proof.
    intros H. unfold nd_cover. cbn [cover1].
    replace (map2 (fun (_ : Z * Z) j => [j]) kn q) with (map (fun j => [j]) q); [apply cprod_singletons|].
    revert q H. induction kn as [|p t IH]; intros [|j q] H; cbn in *; try reflexivity; try discriminate.
    rewrite IH by lia. reflexivity.
  Qed.

  Lemma nd_group_at d q :
    nd_group (nd_parts ks (nb_at d)) q =
    map2 (fun p j => nth (Z.to_nat j) (partition_all (fst p) (zrange0 (nblk d (fst p) (snd p)))) []) kn q.
  Proof. rewrite nd_parts_at. unfold nd_group. rewrite map2_map_l. reflexivity. Qed.

  Lemma nd_group_length d q : length q = length kn -> length (nd_group (nd_parts ks (nb_at d)) q) = length kn.
  Proof. intros H. rewrite nd_group_at. apply map2_length. lia. Qed.

  (* one level: the blocks below the members of the group of q are the blocks below q *)
  Lemma nd_cover_step d q : length q = length kn ->
    Permutation (flat_map (fun q' => cprod (nd_cover kn d q')) (cprod (nd_group (nd_parts ks (nb_at d)) q)))
                (cprod (nd_cover kn (Datatypes.S d) q)).
  Proof.
    intros H. unfold nd_cover at 1.
    eapply Permutation_trans.
    - apply (cover_step_perm (fun p j => cover1 (fst p) d (snd p) j)). rewrite nd_group_length; auto.
    - rewrite nd_group_at, map2_map2_r. unfold nd_cover. cbn [cover1]. apply Permutation_refl.
  Qed.

  Section Observer.
    Context {T : Type} (phi : list S -> T).
    Hypothesis Pphi : forall l l', Permutation l l' -> phi l = phi l'.
    Hypothesis Fphi : forall ls, phi (map comb ls) = phi (concat ls).

    Lemma claim d (f : list Z -> S) : forall qs, Forall (fun q => length q = length kn) qs ->
      phi (map (snd (nd_iter comb ks d nb f)) qs) = phi (map f (flat_map (fun q => cprod (nd_cover kn d q)) qs)).
    Proof.
      induction d as [|d IH]; intros qs Hqs.
      - cbn [nd_iter snd]. rewrite (fm_ext_Forall _ _ (fun q => [q]) qs Hqs); [|apply nd_cover_zero].
        rewrite fm_singleton. reflexivity.
      - rewrite nd_iter_snd_succ. unfold nd_level.
        rewrite <- (map_map (fun key => map (snd (nd_iter comb ks d nb f)) (cprod (nd_group (nd_parts ks (nb_at d)) key))) comb).
        rewrite Fphi. rewrite <- flat_map_concat_map, <- map_fm.
        rewrite IH.
        + apply Pphi. apply Permutation_map. rewrite fm_fm.
          apply (perm_fm_ext_Forall _ _ _ qs Hqs). intros q Hq. apply nd_cover_step. assumption.
        + apply Forall_forall. intros x Hx. apply in_flat_map in Hx. destruct Hx as (q & Hq & Hx).
          rewrite (cprod_elem_length _ _ Hx). apply nd_group_length.
          rewrite Forall_forall in Hqs. apply Hqs. assumption.
    Qed.
  End Observer.

  (* the statement behind C18_tree_equals_flat_nd *)
  Theorem nd_tree_value_cover {R} (agg : list S -> R) (depth : nat) (f : list Z -> S) (key : list Z) :
    tree_laws comb agg -> (1 <= depth)%nat -> length key = length kn ->
    nd_tree_value comb agg ks depth nb f key = agg (map f (cprod (nd_cover kn depth key))).
  Proof.
    intros [HP HF] Hd Hkey. destruct depth as [|d]; [lia|].
    unfold nd_tree_value. replace (Datatypes.S d - 1)%nat with d by lia.
    destruct (nd_iter comb ks d nb f) as [nb' f'] eqn:E.
    assert (nb' = nb_at d) as -> by (rewrite <- (nd_iter_fst d f), E; reflexivity).
    assert (f' = snd (nd_iter comb ks d nb f)) as -> by (rewrite E; reflexivity).
    unfold nd_level.
    rewrite (claim agg (fun l l' H => proj2 (HP l l' H)) (fun ls => proj2 (HF ls)) d f).
    - apply HP. apply Permutation_map. apply nd_cover_step. assumption.
    - apply Forall_forall. intros x Hx. rewrite (cprod_elem_length _ _ Hx). apply nd_group_length. assumption.
  Qed.
End ND.

(* ------------------------------------------------------------------ *)
(* what lies below the top block                                       *)

Lemma zrange0_seq n : zrange0 n = map Z.of_nat (seq 0 (Z.to_nat n)).
Proof.
  unfold zrange0, zrange.
  assert (range_len 0 n 1 = Z.max 0 n) as ->.
  { unfold range_len. cbn. destruct (0 <? n) eqn:E; rewrite ?Z.div_1_r; lia. }
  replace (Z.to_nat (Z.max 0 n)) with (Z.to_nat n) by lia.
  apply map_ext. intros i. lia.
Qed.

Lemma zrange0_length n : 0 <= n -> Z.of_nat (length (zrange0 n)) = n.
Proof. intros H. rewrite zrange0_seq, map_length, seq_length. lia. Qed.

Lemma zrange0_nonempty n : 1 <= n -> zrange0 n <> [].
Proof. intros H E. pose proof (zrange0_length n ltac:(lia)) as L. rewrite E in L. cbn in L. lia. Qed.

Lemma zrange0_nth n j : 0 <= j < n -> nth (Z.to_nat j) (zrange0 n) 0 = j.
Proof.
  intros H. rewrite zrange0_seq. change 0 with (Z.of_nat 0) at 1. rewrite map_nth, seq_nth by lia. lia.
Qed.

Lemma nblk_nonneg d k n : 0 <= n -> 0 <= nblk d k n.
Proof. destruct d; cbn [nblk]; lia. Qed.

Lemma iter_cdiv_succ d k n : iter_cdiv (Datatypes.S d) k n = cdiv (iter_cdiv d k n) k.
Proof. revert n. induction d as [|d IH]; intros n; [reflexivity|]. cbn [iter_cdiv] in *. rewrite IH. reflexivity. Qed.

Lemma iter_cdiv_nonneg d k n : 1 <= k -> 0 <= n -> 0 <= iter_cdiv d k n.
Proof.
  intros Hk. revert n. induction d as [|d IH]; intros n Hn; cbn [iter_cdiv]; [assumption|].
  apply IH. unfold cdiv. nia.
Qed.

Lemma nblk_iter_cdiv d k n : 1 <= k -> 0 <= n -> nblk d k n = iter_cdiv d k n.
Proof.
  intros Hk Hn. induction d as [|d IH]; [reflexivity|].
  rewrite iter_cdiv_succ. cbn [nblk]. rewrite partition_all_pa, pa_length by lia.
  rewrite zrange0_length by (rewrite IH; apply iter_cdiv_nonneg; assumption).
  rewrite IH. f_equal. lia.
Qed.

Lemma fm_nth_all {A} (parts : list (list A)) :
  flat_map (fun j => nth (Z.to_nat j) parts []) (zrange0 (Z.of_nat (length parts))) = concat parts.
Proof.
  rewrite zrange0_seq, fm_map, Nat2Z.id.
  rewrite (flat_map_ext _ (fun i => nth i parts [])) by (intros i; rewrite Nat2Z.id; reflexivity).
  induction parts as [|p t IH]; [reflexivity|].
  cbn [length seq flat_map concat nth]. f_equal. rewrite <- seq_shift, fm_map. exact IH.
Qed.

(* all blocks of level d together lie above all input blocks *)
Lemma cover_all k d n : 1 <= k -> 0 <= n -> flat_map (cover1 k d n) (zrange0 (nblk d k n)) = zrange0 n.
Proof.
  intros Hk Hn. induction d as [|d IH].
  - cbn [cover1 nblk]. apply fm_singleton.
  - cbn [nblk]. rewrite (flat_map_ext _ (fun j => flat_map (cover1 k d n) (nth (Z.to_nat j) (partition_all k (zrange0 (nblk d k n))) []))) by reflexivity.
    rewrite <- fm_fm, fm_nth_all. rewrite partition_all_pa, pa_concat by lia. exact IH.
Qed.

(* a reduced axis: once the level below the top has at most k blocks, the single top block lies above everything *)
Lemma cover1_top k d n : 1 <= k -> 1 <= n -> n <= k ^ (Z.of_nat d + 1) -> cover1 k (Datatypes.S d) n 0 = zrange0 n.
Proof.
  intros Hk Hn Hle. cbn [cover1].
  assert (1 <= nblk d k n <= k) as Hm.
  { rewrite nblk_iter_cdiv by lia. split.
    - clear Hle. revert n Hn. induction d as [|d IH]; intros n Hn; cbn [iter_cdiv]; [assumption|].
      apply IH. apply cdiv_pos; assumption.
    - apply iter_cdiv_le_k; assumption. }
  rewrite partition_all_pa, pa_single.
  - cbn [nth Z.to_nat]. apply cover_all; lia.
  - lia.
  - apply zrange0_nonempty. lia.
  - pose proof (zrange0_length (nblk d k n) ltac:(lia)). lia.
Qed.

Lemma pa_one {A} (l : list A) : pa 1 l = map (fun x => [x]) l.
Proof.
  induction l as [|a t IH]; [reflexivity|].
  rewrite pa_cons by (try lia; congruence). cbn [firstn skipn map]. rewrite IH. reflexivity.
Qed.

(* a kept axis (fan-in 1): block j lies above block j only *)
Lemma cover1_fan1 d n j : 0 <= j < n -> cover1 1 d n j = [j].
Proof.
  intros Hj. induction d as [|d IH]; [reflexivity|].
  cbn [cover1]. rewrite nblk_iter_cdiv, iter_cdiv_fan1 by lia.
  rewrite partition_all_pa. change (Z.to_nat 1) with 1%nat. rewrite pa_one.
  rewrite (nth_indep _ [] [0]) by (rewrite map_length; pose proof (zrange0_length n ltac:(lia)); lia).
  change [0] with ((fun x : Z => [x]) 0). rewrite map_nth, zrange0_nth by assumption.
  cbn [flat_map]. rewrite IH. reflexivity.
Qed.

(* the per-axis index lists of the flat reduction: everything on a reduced axis, the kept
   coordinate on an axis of fan-in 1 *)
Definition flat_axes (kn : list (Z * Z)) (key : list Z) : list (list Z) :=
  map2 (fun p j => if fst p =? 1 then [j] else zrange0 (snd p)) kn key.

Definition axis_ok (depth : Z) (p : Z * Z) (j : Z) : Prop :=
  (fst p = 1 /\ 0 <= j < snd p) \/ (2 <= fst p /\ j = 0 /\ 1 <= snd p /\ snd p <= fst p ^ depth).

Lemma nd_cover_flat kn : forall depth key, (1 <= depth)%nat ->
  Forall2 (axis_ok (Z.of_nat depth)) kn key -> nd_cover kn depth key = flat_axes kn key.
Proof.
  intros depth key Hd H. unfold nd_cover, flat_axes.
  induction H as [|p j kn' key' Hpj Hrest IH]; [reflexivity|].
  cbn [map2]. rewrite IH. f_equal.
  destruct Hpj as [[Hk Hj]|(Hk & Hj & Hn & Hle)].
  - rewrite Hk. cbn [Z.eqb Pos.eqb]. apply cover1_fan1. assumption.
  - destruct (fst p =? 1) eqn:E; [lia|]. subst j.
    destruct depth as [|d]; [lia|]. apply cover1_top; try lia.
    all: replace (Z.of_nat d + 1) with (Z.of_nat (Datatypes.S d)) by lia; assumption.
Qed.

Lemma Forall2_length_eq {A B} (R : A -> B -> Prop) la lb : Forall2 R la lb -> length lb = length la.
Proof. induction 1; cbn; congruence. Qed.

(* the statement of C18_tree_equals_flat_nd *)
Theorem nd_tree_equals_flat {S R} (comb : list S -> S) (agg : list S -> R) kn depth (f : list Z -> S) key :
  tree_laws comb agg -> (1 <= depth)%nat -> Forall2 (axis_ok (Z.of_nat depth)) kn key ->
  nd_tree_value comb agg (map fst kn) depth (map snd kn) f key = agg (map f (cprod (flat_axes kn key))).
Proof.
  intros HL Hd Hok. rewrite nd_tree_value_cover; try assumption.
  - rewrite nd_cover_flat by assumption. reflexivity.
  - apply (Forall2_length_eq _ _ _ Hok).
Qed.

(* ------------------------------------------------------------------ *)
(* which combine/aggregate pairs satisfy tree_laws                     *)

Lemma mfold_perm {S} (op : S -> S -> S) e : monoid_laws op e -> commutative op ->
  forall l l', Permutation l l' -> mfold op e l = mfold op e l'.
Proof.
  intros (Ha & Hl & Hr) Hc l l' H. unfold mfold. induction H; cbn [fold_right].
  - reflexivity.
  - congruence.
  - rewrite !Ha. f_equal. apply Hc.
  - congruence.
Qed.

Theorem tree_laws_monoid {S R} (op : S -> S -> S) e (out : S -> R) :
  monoid_laws op e -> commutative op -> tree_laws (mfold op e) (fun l => out (mfold op e l)).
Proof.
  intros Hm Hc. split.
  - intros l l' H. rewrite (mfold_perm op e Hm Hc l l' H). split; reflexivity.
  - intros ls. rewrite mfold_concat by assumption. split; reflexivity.
Qed.

Lemma Permutation_concat {A} (l l' : list (list A)) : Permutation l l' -> Permutation (concat l) (concat l').
Proof.
  induction 1; cbn [concat].
  - constructor.
  - apply Permutation_app_head. assumption.
  - rewrite !app_assoc. apply Permutation_app_tail. apply Permutation_app_comm.
  - eapply Permutation_trans; eassumption.
Qed.

(* concatenate=True reductions whose stages fold a commutative monoid over the elements *)
Theorem tree_laws_concat_monoid {D R} (op : D -> D -> D) e (out : D -> R) :
  monoid_laws op e -> commutative op ->
  tree_laws (fun l : list (list D) => [mfold op e (concat l)]) (fun l => out (mfold op e (concat l))).
Proof.
  intros Hm Hc. split.
  - intros l l' H. rewrite (mfold_perm op e Hm Hc _ _ (Permutation_concat _ _ H)). split; reflexivity.
  - intros ls.
    assert (mfold op e (concat (map (fun l : list (list D) => [mfold op e (concat l)]) ls)) = mfold op e (concat (concat ls))) as ->.
    { induction ls as [|l t IH]; [reflexivity|]. cbn [map concat].
      transitivity (op (mfold op e (concat l)) (mfold op e (concat (concat t)))).
      - rewrite <- IH. reflexivity.
      - rewrite concat_app, mfold_app by assumption. reflexivity. }
    split; reflexivity.
Qed.

Lemma tree_laws_ext {S R} (c1 c2 : list S -> S) (a1 a2 : list S -> R) :
  (forall l, c1 l = c2 l) -> (forall l, a1 l = a2 l) -> tree_laws c1 a1 -> tree_laws c2 a2.
Proof.
  intros Hc Ha [HP HF]. split.
  - intros l l' H. rewrite <- !Hc, <- !Ha. apply HP. assumption.
  - intros ls. rewrite <- !Hc, <- !Ha. rewrite <- (map_ext c1 c2 Hc). apply HF.
Qed.

Lemma zsum_mfold l : zsum l = mfold Z.add 0 l.
Proof. induction l as [|x t IH]; cbn; [reflexivity|]. rewrite IH. reflexivity. Qed.
Lemma zprod_mfold l : zprod l = mfold Z.mul 1 l.
Proof. induction l as [|x t IH]; cbn [zprod mfold fold_right]; [reflexivity|]. rewrite IH. reflexivity. Qed.

Theorem tree_laws_sum : tree_laws (r_combine red_sum) (r_agg red_sum).
Proof.
  apply (tree_laws_ext (fun l => [mfold Z.add 0 (concat l)]) _ (fun l => mfold Z.add 0 (concat l)) _).
  - intros l. reflexivity.
  - intros l. reflexivity.
  - apply (tree_laws_concat_monoid Z.add 0 (fun x => x)).
    + repeat split; intros; lia.
    + intros a b; lia.
Qed.

Theorem tree_laws_prod : tree_laws (r_combine red_prod) (r_agg red_prod).
Proof.
  apply (tree_laws_ext (fun l => [mfold Z.mul 1 (concat l)]) _ (fun l => mfold Z.mul 1 (concat l)) _).
  - intros l. reflexivity.
  - intros l. reflexivity.
  - apply (tree_laws_concat_monoid Z.mul 1 (fun x => x)).
    + repeat split; intros; lia.
    + intros a b; lia.
Qed.

Theorem tree_laws_fsum : tree_laws (r_combine red_fsum) (r_agg red_fsum).
Proof.
  apply (tree_laws_concat_monoid fadd (Some 0) (fun x => x)).
  - repeat split.
    + intros [a|] [b|] [c|]; cbn; try reflexivity. f_equal. lia.
    + intros [a|]; cbn; [f_equal; lia | reflexivity].
    + intros [a|]; cbn; [f_equal; lia | reflexivity].
  - intros [a|] [b|]; cbn; try reflexivity. f_equal. lia.
Qed.

(* da.mean: componentwise sums of (n, total) *)
Theorem tree_laws_mean : tree_laws (r_combine red_mean) (r_agg red_mean).
Proof.
  pose (op := fun a b : Z * Z => (fst a + fst b, snd a + snd b)).
  assert (monoid_laws op (0, 0)) as Hm.
  { repeat split; unfold op; cbn.
    - intros a b c. f_equal; lia.
    - intros [a b]. cbn. f_equal; lia.
    - intros [a b]. cbn. f_equal; lia. }
  assert (commutative op) as Hc by (intros a b; unfold op; f_equal; lia).
  assert (forall l, (zsum (map fst l), zsum (map snd l)) = mfold op (0, 0) l) as Hfold.
  { induction l as [|x t IH]; [reflexivity|]. cbn [map zsum mfold fold_right]. change (fold_right op (0, 0) t) with (mfold op (0, 0) t).
    rewrite <- IH. reflexivity. }
  apply (tree_laws_ext (mfold op (0, 0)) _ (fun l => (fun s => (snd s, fst s)) (mfold op (0, 0) l)) _).
  - intros l. cbn. symmetry. apply Hfold.
  - intros l. cbn. rewrite <- Hfold. reflexivity.
  - apply (tree_laws_monoid op (0, 0) (fun s => (snd s, fst s))); assumption.
Qed.
