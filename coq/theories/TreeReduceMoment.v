(* C18 — var / std / moment(order=2): moment_chunk, moment_combine, moment_agg of
   /repo/dask_array/reductions/_common.py over exact rationals.  DEFINITIONS ONLY.
   None is a non-finite float (NaN; x/0 is also mapped to None: the only division by zero the
   code can perform on finite data is 0/0 — total/n of an empty block — or the final M/(n-ddof)). *)
From DA Require Import PyBase TreeReduce.
From Coq Require Import QArith Qabs.
Open Scope Z_scope.

Definition fq := option Q.

Definition fq_add (a b : fq) : fq := match a, b with Some x, Some y => Some (x + y)%Q | _, _ => None end.
Definition fq_sub (a b : fq) : fq := match a, b with Some x, Some y => Some (x - y)%Q | _, _ => None end.
Definition fq_mul (a b : fq) : fq := match a, b with Some x, Some y => Some (x * y)%Q | _, _ => None end.
Definition fq_div (a b : fq) : fq :=
  match a, b with
  | Some x, Some y => if Qeq_bool y 0 then None else Some (x / y)%Q
  | _, _ => None
  end.
Definition fq_sum (l : list fq) : fq := fold_right fq_add (Some 0%Q) l.
Definition qz (z : Z) : Q := inject_Z z.

(* the summary {"n", "total", "M"} of moment_chunk / moment_combine for order = 2 *)
Record msum := mkmsum { m_n : Z; m_total : Q; m_M : fq }.

(* moment_chunk: n = numel(A); total = sum(A); u = total / n; d = A - u; M = sum(d**2).
   On an empty block d is empty and M = 0 (u = 0/0 is never used). *)
Definition moment_chunk (A : list Z) : msum :=
  let n := Z.of_nat (length A) in
  let total := qz (zsum A) in
  let u := fq_div (Some total) (Some (qz n)) in
  let M := fq_sum (map (fun x => let d := fq_sub (Some (qz x)) u in fq_mul d d) A) in
  mkmsum n total M.

(* _moment_helper for order = 2: Ms.sum() + sum(ns * inner_term**2) *)
Definition moment_helper2 (Ms : list fq) (ns : list Z) (inner : list fq) : fq :=
  fq_add (fq_sum Ms) (fq_sum (map2 (fun n t => fq_mul (Some (qz n)) (fq_mul t t)) ns inner)).

(* moment_combine: inner_term = totals / ns - total / n   (NO guard for ns == 0) *)
Definition moment_combine (pairs : list msum) : msum :=
  let ns := map m_n pairs in
  let totals := map m_total pairs in
  let n := zsum ns in
  let total := fold_right Qplus 0%Q totals in
  let mu := fq_div (Some total) (Some (qz n)) in
  let inner := map2 (fun t c => fq_sub (fq_div (Some t) (Some (qz c))) mu) totals ns in
  mkmsum n total (moment_helper2 (map m_M pairs) ns inner).

(* moment_agg: inner_term = np.where(ns == 0, 0, totals / ns - mu); M / (n - ddof), NaN if n - ddof < 0 *)
Definition moment_agg (ddof : Z) (pairs : list msum) : fq :=
  let ns := map m_n pairs in
  let totals := map m_total pairs in
  let n := zsum ns in
  let total := fold_right Qplus 0%Q totals in
  let mu := fq_div (Some total) (Some (qz n)) in
  let inner := map2 (fun t c => if c =? 0 then Some 0%Q else fq_sub (fq_div (Some t) (Some (qz c))) mu) totals ns in
  let M := moment_helper2 (map m_M pairs) ns inner in
  if n - ddof <? 0 then None else fq_div M (Some (qz (n - ddof))).

(* da.var(x, ddof=ddof): concatenate=False, combine=moment_combine *)
Definition red_var (ddof : Z) : reduction (list Z) msum fq :=
  mkred moment_chunk moment_combine (moment_agg ddof).

(* np.var on the whole data: mean((x - mean(x))**2) * n / (n - ddof) *)
Definition np_var (ddof : Z) (data : list Z) : fq :=
  let n := Z.of_nat (length data) in
  let mu := fq_div (Some (qz (zsum data))) (Some (qz n)) in
  let M := fq_sum (map (fun x => let d := fq_sub (Some (qz x)) mu in fq_mul d d) data) in
  if n - ddof <? 0 then None else fq_div M (Some (qz (n - ddof))).

Definition fq_eqb (a b : fq) : bool :=
  match a, b with Some x, Some y => Qeq_bool x y | None, None => true | _, _ => false end.

(* |a - r| <= 1e-9 * |r| + 1e-12 *)
Definition fq_close (a : fq) (r : fq) : bool :=
  match a, r with
  | Some x, Some y => Qle_bool (Qabs (x - y)) (Qabs y * (1 # 1000000000) + (1 # 1000000000000))%Q
  | None, None => true
  | _, _ => false
  end.
