(* Proofs about the model of auto_chunks' previous_chunks branch (AutoPrev.v), part 5:
   WHICH INPUTS ARE SAFE.  The only way the loop can fail to end is a NaN proposal (AutoPrevTerm), and the
   implementation's `multiplier ** (1/n)` is NaN only for a negative multiplier.  Here: on well-formed inputs

       itemsize > 0,  the product of the explicit entries (largest_block) > 0,
       shape >= 0,  previous chunks >= 0,

   the exact multiplier of EVERY pass is a positive number, whatever numbers the oracle supplies
   (prev_mults_positive).  So a negative explicit entry / negative previous chunks are the only sources of the
   NaN that makes `while multiplier_remaining` spin (normalize_prev_negative_entry_never_returns). *)
From DA Require Import PyBase PyBaseFacts NormChunks NormChunksFacts AutoPrev AutoPrevFacts AutoPrevTerm AutoPrevTerm2 AutoPrevBound.
From Coq Require Import ZifyBool.
Open Scope Z_scope.
Ltac Zify.zify_post_hook ::= Z.to_euclidean_division_equations.

Definition mult_pos (m : fval) : Prop := exists n d, m = FQ n d /\ 0 < n /\ 0 < d.

(* a dict entry that contributes a non-negative factor *)
Definition dv_nonneg (v : dv) : Prop :=
  match v with
  | VNum (FQ n d) => 0 <= n /\ 0 < d
  | VNum FNan => False
  | VTup l => 0 <= max_of l
  end.
Definition med_nonneg (x : axst) : Prop := match ax_med x with Some v => dv_nonneg v | None => True end.

Lemma med_prod_nonneg xs : Forall med_nonneg xs ->
  exists pn pd, med_prod (map ax_med xs) = FQ pn pd /\ 0 <= pn /\ 0 < pd.
Proof.
  induction 1 as [|x xs Hx _ (pn & pd & IH & Hn & Hd)]; cbn [map].
  - exists 1, 1. cbn. repeat split; lia.
  - rewrite med_prod_cons. unfold med_nonneg in Hx.
    destruct (ax_med x) as [[[|n d]|l]|]; cbn [dv_nonneg] in Hx.
    + destruct Hx.
    + cbn [dv_factor]. destruct (n =? 0) eqn:E; [eauto|].
      rewrite IH. cbn [fmul]. exists (n * pn), (d * pd). repeat split; nia.
    + destruct l as [|y l]; cbn [dv_factor]; [eauto|].
      rewrite IH. cbn [fmul]. exists (max_of (y :: l) * pn), (1 * pd). repeat split; nia.
    + eauto.
Qed.

Lemma compute_multiplier_pos limit itemsize lb xs m :
  0 < limit -> 0 < itemsize -> 0 < lb -> Forall med_nonneg xs ->
  compute_multiplier limit itemsize lb (map ax_med xs) = Ok m -> mult_pos m.
Proof.
  intros Hl Hi Hlb HF. unfold compute_multiplier.
  destruct (med_prod_nonneg xs HF) as (pn & pd & -> & Hn & Hd).
  destruct ((itemsize =? 0) || (lb =? 0)); [discriminate|].
  destruct (pn =? 0) eqn:E; [discriminate|]. intros H. injection H as <-.
  unfold mkq. assert (0 < itemsize * lb * pn) by nia.
  destruct (itemsize * lb * pn <? 0) eqn:En; [lia|].
  exists (limit * pd), (itemsize * lb * pn). repeat split; nia.
Qed.

(* one axis keeps its entry non-negative *)
Lemma axis_step_nonneg reduce c o x x' f k :
  axis_step reduce c o x = (x', f, k) -> wf_c c -> fwf (fst o) = true -> med_nonneg x -> med_nonneg x'.
Proof.
  unfold axis_step. destruct o as [p mcs]. cbn [fst]. intros H [Hc Hn] Hp Hx.
  destruct p as [|n d]; [discriminate|]. cbn [fwf] in Hp.
  destruct (f_gt_z (FQ n d) (c_n c)) eqn:Eg.
  - split3 H. unfold med_nonneg. destruct reduce; cbn; [lia|exact I].
  - cbn [f_gt_z] in Eg.
    assert (exists r, round_to_f (FQ n d) (c_ideal c) = FQ r 1 /\ 1 <= r) as (r & Hr & Hr1).
    { unfold round_to_f. destruct (n <=? c_ideal c * d) eqn:E.
      - eexists. split; [reflexivity|lia].
      - assert (1 < c_ideal c) as Hs by (destruct Hc as [Hc|Hc]; [exact Hc|rewrite Hc in E; lia]).
        destruct (c_ideal c =? 0) eqn:Ez; [lia|]. eexists. split; [reflexivity|].
        assert (1 <= n / (d * c_ideal c)) by (apply Z.div_le_lower_bound; nia). nia. }
    destruct (reduce || z_gt_f (max_of (c_pv c)) mcs).
    + cbv zeta in H. destruct (f_lt_z (FQ n d) 1); split3 H; rewrite Hr;
        unfold med_nonneg, set_res in *; destruct reduce; cbn in *; try lia; exact Hx.
    + split3 H. unfold med_nonneg, set_res in *. destruct reduce; cbn in *; [|exact Hx].
      apply max_of_nonneg. apply merge_prev_pos.
Qed.

Lemma round_axes_nonneg reduce cs : forall a o xs xs' f k,
  round_axes reduce cs a o xs = (xs', f, k) -> length cs = length xs ->
  Forall wf_c cs -> owf a o xs = true -> Forall med_nonneg xs -> Forall med_nonneg xs'.
Proof.
  induction cs as [|c cs IH]; intros a o [|x xs] xs' f k H Hl Hc Ho HF; cbn [round_axes] in H; cbn in Hl; try lia.
  - split3 H. constructor.
  - inversion Hc as [|? ? Hc1 Hc2]; subst. inversion HF as [|? ? Hx HF2]; subst.
    cbn [owf] in Ho. apply andb_true_iff in Ho as [Ho1 Ho2].
    destruct (round_axes reduce cs (S a) o xs) as [[xs2 f2] k2] eqn:Hr.
    specialize (IH _ _ _ _ _ _ Hr ltac:(lia) Hc2 Ho2 HF2).
    destruct (ax_auto x) eqn:Ea.
    + destruct (axis_step reduce c (o a) x) as [[x1 f1] k1] eqn:Hs.
      apply andb_true_iff in Ho1 as [Hp _].
      pose proof (axis_step_nonneg _ _ _ _ _ _ _ Hs Hc1 Hp Hx) as Hx1.
      split3 H. constructor; assumption.
    + split3 H. constructor; assumption.
Qed.

(* every multiplier of the run is a positive number *)
Lemma mult_trace_pos reduce limit itemsize cs orc :
  0 < limit -> 0 < itemsize -> Forall wf_c cs ->
  (forall r a, fwf (fst (orc r a)) && fwf (snd (orc r a)) = true) ->
  forall fuel r st,
    length cs = length (ls_axes st) -> 0 < ls_lb st -> Forall med_nonneg (ls_axes st) -> mult_pos (ls_mult st) ->
    Forall mult_pos (mult_trace fuel reduce limit itemsize cs orc r st).
Proof.
  intros Hlim Hi Hc Ho. induction fuel as [|f IH]; intros r st Hl Hlb HF Hm; cbn [mult_trace]; constructor; [exact Hm|].
  destruct (prev_round reduce limit itemsize cs (orc r) st) as [[st1 [|]]|] eqn:Hr; try constructor.
  assert (forall a xs, owf a (orc r) xs = true) as Howf.
  { intros a xs. revert a. induction xs as [|x xs IHx]; intros a; cbn [owf]; [reflexivity|].
    rewrite IHx, andb_true_r. destruct (ax_auto x); [apply Ho|reflexivity]. }
  unfold prev_round in Hr.
  destruct (round_axes reduce cs 0 (orc r) (ls_axes st)) as [[xs fl] k] eqn:Hra.
  pose proof (round_axes_nonneg _ _ _ _ _ _ _ _ Hra Hl Hc (Howf _ _) HF) as HF'.
  pose proof (round_axes_length _ _ _ _ _ _ _ _ Hra Hl) as Hlen.
  destruct (round_axes_blk _ _ _ _ _ _ _ _ Hra Hl Hc (Howf _ _)) as (_ & Hk & _).
  destruct (fl || reduce) eqn:Eb.
  - destruct (compute_multiplier limit itemsize (ls_lb st * k) (map ax_med xs)) as [m2|] eqn:Hcm; [|discriminate].
    injection Hr as <- _.
    assert (0 < ls_lb st * k) as Hlb'.
    { destruct (Z.eq_dec k 0) as [->|]; [|nia]. unfold compute_multiplier in Hcm.
      rewrite Z.mul_0_r, orb_true_r in Hcm. discriminate. }
    apply IH; cbn [ls_axes ls_lb ls_mult]; [lia|exact Hlb'|exact HF'|].
    eapply compute_multiplier_pos; [exact Hlim|exact Hi|exact Hlb'|exact HF'|exact Hcm].
  - discriminate.
Qed.

(* ---------------------------------------------------------------------- *)
(* the initial state *)

Lemma insert_z_Forall (P : Z -> Prop) x l : P x -> Forall P l -> Forall P (insert_z x l).
Proof.
  intros Hx H. induction H as [|y l Hy Hl IH]; cbn [insert_z]; [constructor; [exact Hx|constructor]|].
  destruct (x <=? y).
  - constructor; [exact Hx|]. constructor; assumption.
  - constructor; assumption.
Qed.
Lemma sort_z_Forall (P : Z -> Prop) l : Forall P l -> Forall P (sort_z l).
Proof. unfold sort_z. induction 1; cbn [fold_right]; [constructor|apply insert_z_Forall; assumption]. Qed.
Lemma insert_z_length x l : length (insert_z x l) = S (length l).
Proof. induction l as [|y l IH]; cbn [insert_z]; [reflexivity|]. destruct (x <=? y); cbn [length]; lia. Qed.
Lemma sort_z_length l : length (sort_z l) = length l.
Proof. unfold sort_z. induction l as [|x l IH]; cbn [fold_right]; [reflexivity|]. rewrite insert_z_length, IH. reflexivity. Qed.
Lemma nth_nonneg s : Forall (fun c => 0 <= c) s -> forall i, 0 <= nth i s 0.
Proof. induction 1 as [|x s Hx _ IH]; intros [|i]; cbn [nth]; try lia. Qed.

Lemma median_nonneg pv : Forall (fun c => 0 <= c) pv -> pv <> [] -> dv_nonneg (VNum (median pv)).
Proof.
  intros H Hne. unfold median. pose proof (sort_z_Forall _ _ H) as Hs.
  pose proof (sort_z_length pv) as Hl.
  destruct (length (sort_z pv)) eqn:E.
  - destruct pv; [congruence|cbn in Hl; lia].
  - rewrite <- E. destruct (Nat.even (length (sort_z pv))); cbn [dv_nonneg].
    + pose proof (nth_nonneg _ Hs (length (sort_z pv) / 2 - 1)). pose proof (nth_nonneg _ Hs (length (sort_z pv) / 2)). lia.
    + pose proof (nth_nonneg _ Hs (length (sort_z pv) / 2)). lia.
Qed.

Lemma init_axes_nonneg specs : forall pvs shape ids,
  ideals_of pvs shape = Ok ids -> length specs = length shape ->
  Forall (Forall (fun c => 0 <= c)) pvs -> Forall med_nonneg (init_axes specs pvs).
Proof.
  unfold init_axes. induction specs as [|sp specs IH]; intros pvs shape ids Hi Hl HF; [constructor|].
  destruct shape as [|s shape]; [discriminate|]. destruct pvs as [|pv pvs]; [cbn in Hi; discriminate|].
  cbn [ideals_of] in Hi. destruct (ideal_of pv s) as [i|] eqn:Hid; [|discriminate].
  destruct (ideals_of pvs shape) as [r|] eqn:Hr; [|discriminate].
  inversion HF as [|? ? Hpv HF2]; subst. cbn [combine map fst snd].
  constructor; [|eapply IH; [exact Hr|cbn in Hl; lia|exact HF2]].
  unfold med_nonneg. destruct (is_auto sp); cbn [ax_med]; [|exact I].
  apply median_nonneg; [exact Hpv|]. intros ->. discriminate.
Qed.

(* SAFE INPUTS: on a well-formed input every pass computes a positive multiplier, for all (numeric) oracle
   values — the base of `multiplier ** (1/n)` is never negative, so the implementation cannot produce the NaN
   proposals that keep the loop alive *)
Theorem prev_mults_positive : forall orc fuel limit itemsize specs shape prev,
  0 < itemsize -> 0 < largest_fixed (subst_all specs shape) ->
  Forall (fun n => 0 <= n) shape ->
  (forall pvs, conv_prev shape prev = Ok pvs -> Forall (Forall (fun c => 0 <= c)) pvs) ->
  (forall r a, fwf (fst (orc r a)) && fwf (snd (orc r a)) = true) ->
  Forall mult_pos (prev_mults orc fuel limit itemsize specs shape prev).
Proof.
  intros orc fuel limit itemsize specs shape prev Hi Hlb Hsh Hprev Ho. unfold prev_mults.
  destruct (prev_start limit itemsize specs shape prev) as [[[reduce cs] st0]|] eqn:Hst; [|constructor].
  assert (exists pvs ids m,
             conv_prev shape prev = Ok pvs /\ length specs = length shape /\ ideals_of pvs shape = Ok ids /\
             initial_multiplier limit itemsize (subst_all specs shape) pvs = Ok m /\
             cs = mk_consts shape pvs ids /\
             st0 = mkls (init_axes (subst_all specs shape) pvs) (largest_fixed (subst_all specs shape)) m)
    as (pvs & ids & m & Hcp & Hlen & Hids & Hm & -> & ->).
  { revert Hst. unfold prev_start. fold (subst_all specs shape).
    destruct (Nat.eqb (length specs) (length shape)) eqn:El; cbn [negb]; [|discriminate].
    apply Nat.eqb_eq in El.
    destruct (count_autos (subst_all specs shape) =? 0); [discriminate|].
    destruct prev as [|p0 prev]; [discriminate|].
    destruct (conv_prev shape (p0 :: prev)) as [pvs|] eqn:Hcp; [|discriminate].
    unfold loop_start.
    destruct (initial_multiplier limit itemsize (subst_all specs shape) pvs) as [m|] eqn:Hm; [|discriminate].
    destruct (ideals_of pvs shape) as [ids|] eqn:Hi'; [|discriminate].
    intros H. injection H as <- <- <-. exists pvs, ids, m. auto 10. }
  destruct (ideals_of_length _ _ _ Hids) as [Li Lp].
  pose proof (subst_all_length specs shape Hlen) as Ls.
  pose proof (init_axes_nonneg _ _ _ _ Hids Ls (Hprev _ Hcp)) as HF.
  apply mult_trace_pos; cbn [ls_axes ls_lb ls_mult]; try assumption; try lia.
  - eapply mk_consts_wf; eassumption.
  - rewrite mk_consts_length, init_axes_length; lia.
  - unfold initial_multiplier in Hm. eapply compute_multiplier_pos; [| | |exact HF|exact Hm]; lia.
Qed.
