(* Proofs about the FromArray model (FromArrayModel.v): region pushdown is exact,
   the per-block read requests tile the region and stay in bounds, the read
   layouts chosen by _accept_rechunk are storage aligned. *)
From DA Require Import PyBase PyBaseFacts Slicing NormalizeFacts FuseFacts FromArrayModel.
From Coq Require Import ZifyBool.
Open Scope Z_scope.
Ltac Zify.zify_post_hook ::= Z.to_euclidean_division_equations.

(* ---------------------------------------------------------------------- *)
(* generic list facts *)
Lemma pick_pos_pick l js : pick_pos l js = pick l js.
Proof. reflexivity. Qed.

Lemma lenZ_map {A B} (f : A -> B) l : lenZ (map f l) = lenZ l.
Proof. unfold lenZ. rewrite map_length. reflexivity. Qed.

Lemma lenZ_nonneg {A} (l : list A) : 0 <= lenZ l.
Proof. unfold lenZ. lia. Qed.

Lemma zrange_unit_In a b x : In x (zrange a b 1) <-> a <= x < b.
Proof.
  unfold zrange. rewrite range_len_unit, in_map_iff. split.
  - intros (i & <- & Hi). apply in_seq in Hi. lia.
  - intros H. exists (Z.to_nat (x - a)). split; [lia|]. apply in_seq. lia.
Qed.

Lemma zrange_unit_app a b c : a <= b <= c -> zrange a b 1 ++ zrange b c 1 = zrange a c 1.
Proof.
  intros H. unfold zrange. rewrite !range_len_unit.
  replace (Z.to_nat (Z.max (c - a) 0)) with (Z.to_nat (Z.max (b - a) 0) + Z.to_nat (Z.max (c - b) 0))%nat by lia.
  rewrite seq_app, map_app. f_equal.
  rewrite seq_shift_add, map_map. apply map_ext. intros i. lia.
Qed.

Lemma zrange_unit_nil a b : b <= a -> zrange a b 1 = [].
Proof. intros H. apply zrange_empty. rewrite range_len_unit. lia. Qed.

Lemma zrange_unit_single i : zrange i (i + 1) 1 = [i].
Proof.
  unfold zrange. rewrite range_len_unit.
  replace (Z.to_nat (Z.max (i + 1 - i) 0)) with 1%nat by lia.
  cbn [seq map]. f_equal. lia.
Qed.

Lemma zrange_unit_map_add a b c : map (fun p => c + p) (zrange a b 1) = zrange (c + a) (c + b) 1.
Proof.
  unfold zrange. rewrite !range_len_unit, map_map.
  replace (c + b - (c + a)) with (b - a) by lia.
  apply map_ext. intros i. lia.
Qed.

Lemma pick_map_inrange (f : Z -> Z) l js :
  Forall (fun j => 0 <= j < lenZ l) js -> pick_pos (map f l) js = map f (pick_pos l js).
Proof.
  intros H. unfold pick_pos. rewrite map_map. apply map_ext_in. intros j Hj.
  rewrite Forall_forall in H. specialize (H j Hj). unfold lenZ in H.
  rewrite (nth_indep _ 0 (f 0)) by (rewrite map_length; lia).
  apply map_nth.
Qed.

Lemma pick_pos_length l js : length (pick_pos l js) = length js.
Proof. unfold pick_pos. apply map_length. Qed.

(* ---------------------------------------------------------------------- *)
(* unit-step slices *)
Lemma sel_unit s n :
  0 <= n -> unit_step s ->
  exists A B, indices s n = (A, B, 1) /\ 0 <= A <= n /\ 0 <= B <= n /\
              sel s n = zrange A B 1 /\ slice_len s n = Z.max (B - A) 0.
Proof.
  intros Hn Hs. destruct (indices_unit s n Hn Hs) as (A & B & Hi & HA & HB).
  exists A, B. unfold sel, slice_len. rewrite Hi, range_len_unit. auto.
Qed.

Lemma sel_unit_inrange s n : 0 <= n -> unit_step s -> Forall (fun j => 0 <= j < n) (sel s n).
Proof.
  intros Hn Hs. destruct (sel_unit s n Hn Hs) as (A & B & _ & HA & HB & -> & _).
  apply Forall_forall. intros x Hx. apply zrange_unit_In in Hx. lia.
Qed.

Lemma sel_length s n : lenZ (sel s n) = slice_len s n.
Proof.
  unfold sel, slice_len, lenZ. destruct (indices s n) as [[a b] k]. apply zrange_length.
Qed.

Lemma region_sel_length dim r : 0 <= dim -> lenZ (region_sel dim r) = eff_len dim r.
Proof.
  intros Hd. destruct r as [r|]; cbn [region_sel eff_len]; [apply sel_length|].
  unfold lenZ. rewrite zrange_length, range_len_unit. lia.
Qed.

Lemma axis_positions_length a : 0 <= a_dim a -> lenZ (axis_positions a) = a_eff a.
Proof. intros H. unfold axis_positions, a_eff. rewrite lenZ_map. apply region_sel_length, H. Qed.

Lemma unit_step_b_iff s : unit_step_b s = true <-> unit_step s.
Proof.
  unfold unit_step_b, unit_step. destruct (s_step s) as [k|]; split; intros H; auto.
  - right. f_equal. lia.
  - destruct H as [H|H]; [discriminate|]. injection H as ->. reflexivity.
Qed.

Lemma unit_ri_of n e : idx_ok n e -> unit_step (ri_of e).
Proof. destruct e as [i|s|]; cbn [idx_ok ri_of]; intros H; [left; reflexivity | exact H | contradiction]. Qed.

Lemma compose_unit_shape outer inner n :
  0 <= n -> unit_step outer -> unit_step inner ->
  exists a b, compose_slices outer inner n = mkslice (Some a) (Some b) None.
Proof.
  intros Hn Ho Hi. unfold compose_slices.
  destruct (indices_unit outer n Hn Ho) as (A & B & -> & _ & _).
  destruct (indices_unit inner _ (range_len_nonneg A B 1) Hi) as (C & D & -> & _ & _).
  cbn [negb Z.eqb Pos.eqb orb]. eauto.
Qed.

Lemma int_region_singleton i n : 0 <= i < n -> sel (ri_of (IInt i)) n = [i].
Proof.
  intros H. cbn [ri_of]. unfold sel. rewrite indices_inbounds by lia. apply zrange_unit_single.
Qed.

Lemma np_index_int pos i : 0 <= i < lenZ pos -> np_index pos (IInt i) = [nth (Z.to_nat i) pos 0].
Proof. intros H. unfold np_index. rewrite int_region_singleton by exact H. reflexivity. Qed.

(* ---------------------------------------------------------------------- *)
(* _compute_sliced_chunks yields a layout of the sliced length *)
Lemma overlap_chunks_sum cs : forall pos A B,
  A < B -> Forall (fun c => 0 <= c) cs ->
  Forall (fun c => 0 <= c) (overlap_chunks pos cs A B) /\
  zsum (overlap_chunks pos cs A B) = Z.max 0 (Z.min (pos + zsum cs) B - Z.max pos A).
Proof.
  induction cs as [|c t IH]; intros pos A B HAB Hnn; cbn [overlap_chunks zsum].
  - split; [constructor | lia].
  - inversion Hnn as [|c' t' Hc Ht]; subst.
    pose proof (zsum_nonneg t Ht) as Hz.
    destruct (pos + c <=? A) eqn:E1.
    + destruct (IH (pos + c) A B HAB Ht) as [H1 H2]. split; [exact H1|]. rewrite H2. lia.
    + destruct (pos >=? B) eqn:E2.
      * split; [constructor|]. cbn [zsum]. lia.
      * destruct (IH (pos + c) A B HAB Ht) as [H1 H2]. cbn [zsum]. split.
        -- constructor; [lia | exact H1].
        -- rewrite H2. lia.
Qed.

Theorem compute_sliced_chunks_valid cs s n :
  valid_chunks cs n -> cs <> [] -> unit_step s ->
  valid_chunks (compute_sliced_chunks cs s n) (slice_len s n) /\ compute_sliced_chunks cs s n <> [].
Proof.
  intros [Hnn Hsum] Hne Hs.
  assert (0 <= n) as Hn by (rewrite <- Hsum; apply zsum_nonneg, Hnn).
  unfold compute_sliced_chunks.
  destruct (pslice_eqb s colon) eqn:Ec.
  - apply pslice_eqb_eq in Ec. subst s. destruct (sel_colon n Hn) as [_ ->].
    split; [split; assumption | exact Hne].
  - destruct (sel_unit s n Hn Hs) as (A & B & Hi & HA & HB & _ & Hlen).
    rewrite Hi, Hlen. cbn [Z.eqb Pos.eqb negb].
    destruct (A >=? B) eqn:E.
    + split; [|discriminate]. split; [constructor; [lia | constructor] | cbn [zsum]; lia].
    + assert (A < B) as HAB by lia.
      destruct (overlap_chunks_sum cs 0 A B HAB Hnn) as [H1 H2].
      destruct (overlap_chunks 0 cs A B) as [|x r] eqn:Eo.
      * cbn [zsum] in H2. lia.
      * split; [|discriminate]. split; [exact H1|]. rewrite H2, Hsum. lia.
Qed.

(* ---------------------------------------------------------------------- *)
(* one accepted index element, one axis *)
Lemma region_sel_compose dim old ri :
  0 <= dim -> region_unit old -> unit_step ri ->
  region_sel dim (Some (match old with Some o => compose_slices o ri dim | None => ri end))
  = pick_pos (region_sel dim old) (sel ri (eff_len dim old)).
Proof.
  intros Hd Ho Hr. destruct old as [o|]; cbn [region_sel eff_len region_unit] in *.
  - rewrite pick_pos_pick. apply compose_slices_unit_exact; assumption.
  - destruct (sel_unit ri dim Hd Hr) as (A & B & _ & HA & HB & -> & _).
    rewrite pick_pos_pick. symmetry. apply pick_zrange.
    + reflexivity.
    + intros i Hi. rewrite !range_len_unit in *. lia.
    + intros _. lia.
    + reflexivity.
Qed.

Theorem accept_axis_exact a e :
  axis_wf a -> idx_ok (a_eff a) e ->
  axis_wf (accept_axis a e) /\
  axis_positions (accept_axis a e) = np_index (axis_positions a) e /\
  a_eff (accept_axis a e) = slice_len (ri_of e) (a_eff a).
Proof.
  intros (Hd & Hru & Hv & Hne) He.
  pose proof (unit_ri_of _ _ He) as Hri.
  pose proof (region_sel_compose (a_dim a) (a_region a) (ri_of e) Hd Hru Hri) as Hsel.
  assert (0 <= a_eff a) as Heff by (unfold a_eff; rewrite <- region_sel_length by exact Hd; apply lenZ_nonneg).
  assert (a_eff (accept_axis a e) = slice_len (ri_of e) (a_eff a)) as Hlen.
  { unfold a_eff at 1. cbn [accept_axis a_dim a_region]. rewrite <- region_sel_length by exact Hd.
    rewrite Hsel. unfold lenZ. rewrite pick_pos_length. apply sel_length. }
  split; [|split; [|exact Hlen]].
  - unfold axis_wf. rewrite Hlen. cbn [accept_axis a_dim a_region a_chunks].
    destruct (compute_sliced_chunks_valid (a_chunks a) (ri_of e) (a_eff a) Hv Hne Hri) as [H1 H2].
    split; [exact Hd|]. split; [|split; [exact H1 | exact H2]].
    cbn [region_unit]. destruct (a_region a) as [o|]; [|exact Hri].
    destruct (compose_unit_shape o (ri_of e) (a_dim a) Hd Hru Hri) as (x & y & ->). left. reflexivity.
  - unfold axis_positions, np_index. cbn [accept_axis a_base a_dim a_region]. rewrite Hsel.
    rewrite lenZ_map, region_sel_length by exact Hd.
    symmetry. apply pick_map_inrange.
    rewrite region_sel_length by exact Hd. apply sel_unit_inrange; assumption.
Qed.

(* the whole chain x[e1][e2]...[ek] *)
Theorem region_chain_exact es : forall a,
  axis_wf a -> chain_ok (a_eff a) es ->
  axis_wf (axis_chain a es) /\
  axis_positions (axis_chain a es) = chain_sel (axis_positions a) es /\
  a_dim (axis_chain a es) = a_dim a /\ a_base (axis_chain a es) = a_base a.
Proof.
  induction es as [|e t IH]; intros a Hwf Hok; cbn [axis_chain fold_left chain_sel].
  - auto.
  - destruct Hok as [He Ht].
    destruct (accept_axis_exact a e Hwf He) as (Hwf' & Hpos & Hlen).
    rewrite <- Hlen in Ht. destruct (IH _ Hwf' Ht) as (H1 & H2 & H3 & H4).
    fold (axis_chain (accept_axis a e) t). rewrite Hpos in H2. auto.
Qed.

Lemma fresh_axis_positions dim cs : axis_positions (fresh_axis dim cs) = zrange 0 dim 1.
Proof.
  unfold axis_positions, fresh_axis. cbn [a_base a_dim a_region region_sel].
  rewrite zrange_unit_map_add. reflexivity.
Qed.

Corollary region_chain_fresh dim cs es :
  valid_chunks cs dim -> cs <> [] -> chain_ok dim es ->
  let a := axis_chain (fresh_axis dim cs) es in
  axis_wf a /\
  map (fun p => a_base a + p) (region_sel (a_dim a) (a_region a)) = chain_sel (zrange 0 dim 1) es /\
  valid_chunks (a_chunks a) (lenZ (chain_sel (zrange 0 dim 1) es)) /\ a_chunks a <> [].
Proof.
  intros Hv Hne Hok.
  assert (0 <= dim) as Hd by (destruct Hv as [Hnn <-]; apply zsum_nonneg, Hnn).
  assert (axis_wf (fresh_axis dim cs)) as Hwf by (unfold axis_wf, fresh_axis, a_eff; cbn; auto).
  destruct (region_chain_exact es _ Hwf Hok) as (H1 & H2 & H3 & _). cbv zeta.
  rewrite fresh_axis_positions in H2.
  split; [exact H1|]. split; [exact H2|].
  destruct H1 as (Hd' & _ & Hv' & Hne'). rewrite <- H2, axis_positions_length by exact Hd'. auto.
Qed.

(* ---------------------------------------------------------------------- *)
(* _layer: the per-block requests of one axis *)
Lemma slices_from_spec cs : forall pos off,
  Forall (fun c => 0 <= c) cs ->
  let rq := map (fun p => (fst p + off, snd p + off)) (slices_from pos cs) in
  request_positions rq = zrange (pos + off) (pos + off + zsum cs) 1 /\
  contiguous_from (pos + off) rq (pos + off + zsum cs) /\
  Forall (fun p => pos + off <= fst p /\ fst p <= snd p /\ snd p <= pos + off + zsum cs) rq.
Proof.
  induction cs as [|c t IH]; intros pos off Hnn; cbv zeta; cbn [slices_from map zsum].
  - unfold request_positions. cbn [map concat contiguous_from]. rewrite zrange_unit_nil by lia.
    split; [reflexivity|]. split; [lia | constructor].
  - inversion Hnn as [|c' t' Hc Ht]; subst.
    pose proof (zsum_nonneg t Ht) as Hz.
    destruct (IH (pos + c) off Ht) as (H1 & H2 & H3). cbv zeta in H1, H2, H3.
    unfold request_positions in *. cbn [map concat contiguous_from fst snd].
    split; [|split].
    + rewrite H1.
      replace (pos + c + off) with (pos + off + c) by lia.
      replace (pos + off + c + zsum t) with (pos + off + (c + zsum t)) by lia.
      apply zrange_unit_app. lia.
    + split; [reflexivity|]. split; [lia|].
      replace (pos + off + (c + zsum t)) with (pos + c + off + zsum t) by lia. exact H2.
    + constructor; [cbn [fst snd]; lia|].
      eapply Forall_impl; [|exact H3]. cbv beta. intros p Hp. lia.
Qed.

Lemma region_bounds dim r :
  0 <= dim -> region_unit r ->
  0 <= region_start dim r /\ region_start dim r + eff_len dim r <= dim /\ 0 <= eff_len dim r /\
  region_sel dim r = zrange (region_start dim r) (region_start dim r + eff_len dim r) 1.
Proof.
  intros Hd Hr. destruct r as [r|]; cbn [region_start eff_len region_sel region_unit] in *.
  - destruct (sel_unit r dim Hd Hr) as (A & B & Hi & HA & HB & Hsel & Hlen).
    rewrite Hi, Hsel, Hlen. repeat split; try lia.
    apply zrange_ext. rewrite !range_len_unit. lia.
  - repeat split; try lia.
Qed.

Theorem reads_partition a :
  axis_wf a ->
  request_positions (axis_requests a) = region_sel (a_dim a) (a_region a) /\
  contiguous_from (region_start (a_dim a) (a_region a)) (axis_requests a)
                  (region_start (a_dim a) (a_region a) + a_eff a).
Proof.
  intros (Hd & Hru & [Hnn Hsum] & Hne).
  destruct (region_bounds _ _ Hd Hru) as (_ & _ & _ & Hsel).
  destruct (slices_from_spec (a_chunks a) 0 (region_start (a_dim a) (a_region a)) Hnn) as (H1 & H2 & _).
  cbv zeta in H1, H2. unfold axis_requests. rewrite Hsum in *. cbn [Z.add] in *.
  rewrite Hsel. split; [exact H1 | exact H2].
Qed.

Theorem reads_in_bounds a : axis_wf a -> Forall (in_bounds (a_dim a)) (axis_requests a).
Proof.
  intros (Hd & Hru & [Hnn Hsum] & Hne).
  destruct (region_bounds _ _ Hd Hru) as (H0 & Hhi & _ & _).
  destruct (slices_from_spec (a_chunks a) 0 (region_start (a_dim a) (a_region a)) Hnn) as (_ & _ & H3).
  cbv zeta in H3. unfold axis_requests. eapply Forall_impl; [|exact H3].
  cbv beta. unfold in_bounds, a_eff in *. intros p Hp. rewrite Hsum in Hp. lia.
Qed.

(* headline, one axis: after any admissible chain pushed into a fresh from_array,
   the blocks' requests read exactly the elements NumPy's x[e1]...[ek] selects, in
   order, and never leave the source *)
Theorem chain_reads_exact dim cs es :
  valid_chunks cs dim -> cs <> [] -> chain_ok dim es ->
  let a := axis_chain (fresh_axis dim cs) es in
  request_positions (axis_requests a) = chain_sel (zrange 0 dim 1) es /\
  Forall (in_bounds dim) (axis_requests a).
Proof.
  intros Hv Hne Hok.
  assert (0 <= dim) as Hd by (destruct Hv as [Hnn <-]; apply zsum_nonneg, Hnn).
  assert (axis_wf (fresh_axis dim cs)) as Hwf.
  { unfold axis_wf, fresh_axis, a_eff. cbn [a_dim a_region a_chunks eff_len region_unit]. auto. }
  destruct (region_chain_exact es _ Hwf Hok) as (H1 & H2 & H3 & H4). cbv zeta.
  rewrite fresh_axis_positions in H2.
  destruct (reads_partition _ H1) as [Hp _]. pose proof (reads_in_bounds _ H1) as Hb.
  rewrite H3 in Hb. cbn [fresh_axis a_dim] in Hb. split; [|exact Hb].
  rewrite Hp, <- H2. unfold axis_positions. rewrite H4. cbn [fresh_axis a_base].
  rewrite <- (map_id (region_sel _ _)) at 1. apply map_ext. intros p. lia.
Qed.

(* contiguous requests are ordered and pairwise disjoint; every position of the
   span lies in exactly one of them *)
Lemma contiguous_lower rq : forall lo hi p, contiguous_from lo rq hi -> In p rq -> lo <= fst p /\ snd p <= hi.
Proof.
  induction rq as [|q t IH]; intros lo hi p Hc Hin; [contradiction|].
  cbn [contiguous_from] in Hc. destruct Hc as (H1 & H2 & H3).
  assert (snd q <= hi) as Hq.
  { clear -H3. revert H3. generalize (snd q). induction t as [|r t IH]; intros lo H; cbn [contiguous_from] in H; [lia|].
    destruct H as (Ha & Hb & Hc). specialize (IH _ Hc). lia. }
  destruct Hin as [->|Hin]; [lia|]. specialize (IH _ _ _ H3 Hin). lia.
Qed.

Theorem contiguous_disjoint rq : forall lo hi,
  contiguous_from lo rq hi ->
  forall i j, (i < j < length rq)%nat -> snd (nth i rq (0, 0)) <= fst (nth j rq (0, 0)).
Proof.
  induction rq as [|q t IH]; intros lo hi Hc i j Hij; cbn [length] in Hij; [lia|].
  cbn [contiguous_from] in Hc. destruct Hc as (H1 & H2 & H3).
  destruct j as [|j]; [lia|]. cbn [nth].
  destruct i as [|i].
  - assert (In (nth j t (0, 0)) t) as Hin by (apply nth_In; lia).
    destruct (contiguous_lower t _ _ _ H3 Hin) as [Hlo _]. exact Hlo.
  - apply (IH _ _ H3). lia.
Qed.

Theorem contiguous_cover rq : forall lo hi x,
  contiguous_from lo rq hi ->
  (lo <= x < hi <-> exists p, In p rq /\ fst p <= x < snd p).
Proof.
  induction rq as [|q t IH]; intros lo hi x Hc; cbn [contiguous_from] in Hc.
  - split; [lia | intros (p & [] & _)].
  - destruct Hc as (H1 & H2 & H3). specialize (IH _ _ x H3).
    pose proof (contiguous_lower (q :: t) lo hi) as Hlow.
    split.
    + intros Hx. destruct (Z_lt_le_dec x (snd q)) as [Hl|Hl].
      * exists q. split; [left; reflexivity | lia].
      * destruct IH as [IH _]. destruct (IH ltac:(specialize (Hlow q); cbn [contiguous_from] in Hlow;
          specialize (Hlow (conj H1 (conj H2 H3)) (or_introl eq_refl)); lia)) as (p & Hp & Hpx).
        exists p. split; [right; exact Hp | exact Hpx].
    + intros (p & Hp & Hpx).
      specialize (Hlow p). cbn [contiguous_from] in Hlow.
      specialize (Hlow (conj H1 (conj H2 H3)) Hp). lia.
Qed.

Theorem contiguous_unique rq : forall lo hi x p q,
  contiguous_from lo rq hi -> In p rq -> In q rq ->
  fst p <= x < snd p -> fst q <= x < snd q -> p = q.
Proof.
  induction rq as [|r t IH]; intros lo hi x p q Hc Hp Hq Hpx Hqx; [contradiction|].
  cbn [contiguous_from] in Hc. destruct Hc as (H1 & H2 & H3).
  destruct Hp as [<-|Hp], Hq as [<-|Hq].
  - reflexivity.
  - destruct (contiguous_lower t _ _ _ H3 Hq). lia.
  - destruct (contiguous_lower t _ _ _ H3 Hp). lia.
  - apply (IH _ _ x p q H3); assumption.
Qed.

(* ---------------------------------------------------------------------- *)
(* N-D: product of the axes *)
Lemma in_cart_iff {A} (ls : list (list A)) (x : list A) : In x (cart ls) <-> Forall2 (fun e l => In e l) x ls.
Proof.
  revert x. induction ls as [|l rest IH]; intros x; cbn [cart].
  - split.
    + intros [<-|[]]. constructor.
    + intros H. inversion H. left. reflexivity.
  - rewrite in_flat_map. split.
    + intros (e & He & Hx). apply in_map_iff in Hx. destruct Hx as (y & <- & Hy).
      constructor; [exact He | apply IH, Hy].
    + intros H. inversion H as [|e l' y rest' He Hy]; subst.
      exists e. split; [exact He|]. apply in_map_iff. exists y. split; [reflexivity | apply IH, Hy].
Qed.

Theorem layer_requests_in_bounds f :
  Forall axis_wf f ->
  Forall (fun req => Forall2 (fun p a => in_bounds (a_dim a) p) req f) (layer_requests f).
Proof.
  intros Hwf. apply Forall_forall. intros req Hin.
  unfold layer_requests in Hin. apply in_cart_iff in Hin.
  revert req Hin. induction Hwf as [|a f Ha Hf IH]; intros req Hin; cbn [map] in Hin.
  - inversion Hin. constructor.
  - inversion Hin as [|p l y rest Hp Hy]; subst. constructor; [|apply IH, Hy].
    pose proof (reads_in_bounds a Ha) as Hb. rewrite Forall_forall in Hb. apply Hb, Hp.
Qed.

(* every point of the region box lies in exactly one request box, and no request
   box contains a point outside the region box *)
Theorem layer_requests_cover f p :
  Forall axis_wf f ->
  (Forall2 (fun x a => In x (region_sel (a_dim a) (a_region a))) p f <->
   exists req, In req (layer_requests f) /\ point_in req p).
Proof.
  intros Hwf. revert p. induction Hwf as [|a f Ha Hf IH]; intros p.
  - unfold layer_requests. cbn [map cart]. split.
    + intros H. inversion H. exists []. split; [left; reflexivity | constructor].
    + intros (req & [<-|[]] & Hp). inversion Hp. constructor.
  - destruct (reads_partition a Ha) as [_ Hc].
    destruct Ha as (Hd & Hru & Hv & Hne).
    destruct (region_bounds _ _ Hd Hru) as (_ & _ & _ & Hsel).
    unfold layer_requests in *. cbn [map]. split.
    + intros H. inversion H as [|x a' p' f' Hx Hp']; subst.
      rewrite Hsel in Hx. apply zrange_unit_In in Hx.
      apply (contiguous_cover _ _ _ x Hc) in Hx. destruct Hx as (r & Hr & Hrx).
      apply IH in Hp'. destruct Hp' as (req & Hreq & Hpt).
      exists (r :: req). split.
      * apply in_cart_iff. constructor; [exact Hr | apply in_cart_iff, Hreq].
      * constructor; assumption.
    + intros (req & Hreq & Hpt). apply in_cart_iff in Hreq.
      inversion Hreq as [|r l req' rest Hr Hreq']; subst.
      inversion Hpt as [|r' x req'' p' Hrx Hpt']; subst.
      constructor.
      * rewrite Hsel. apply zrange_unit_In. apply (contiguous_cover _ _ _ x Hc). exists r. auto.
      * apply IH. exists req'. split; [apply in_cart_iff, Hreq' | exact Hpt'].
Qed.

Theorem layer_requests_unique f p r1 r2 :
  Forall axis_wf f ->
  In r1 (layer_requests f) -> In r2 (layer_requests f) -> point_in r1 p -> point_in r2 p -> r1 = r2.
Proof.
  intros Hwf. revert p r1 r2. unfold layer_requests.
  induction Hwf as [|a f Ha Hf IH]; intros p r1 r2 H1 H2 P1 P2; cbn [map] in *.
  - apply in_cart_iff in H1, H2. inversion H1. inversion H2. reflexivity.
  - apply in_cart_iff in H1, H2.
    inversion H1 as [|q1 l1 t1 rest1 Hq1 Ht1]; subst.
    inversion H2 as [|q2 l2 t2 rest2 Hq2 Ht2]; subst.
    inversion P1 as [|q1' x t1' p' Hx1 Pt1]; subst.
    inversion P2 as [|q2' x' t2' p'' Hx2 Pt2]; subst.
    destruct (reads_partition a Ha) as [_ Hc].
    f_equal.
    + apply (contiguous_unique _ _ _ x q1 q2 Hc); assumption.
    + apply (IH p'); try assumption; apply in_cart_iff; assumption.
Qed.

(* ---------------------------------------------------------------------- *)
(* _accept_slice on all axes *)
Lemma Forall2_combine_map {A B C} (P : A -> B -> Prop) (Q : A * B -> C -> Prop) (g : A * B -> C) l1 l2 :
  Forall2 P l1 l2 -> (forall a b, P a b -> Q (a, b) (g (a, b))) ->
  Forall2 Q (combine l1 l2) (map g (combine l1 l2)).
Proof.
  intros H HQ. induction H as [|a b l1 l2 Hab H IH]; cbn [combine map]; constructor; auto.
Qed.

Theorem accept_slice_declines f index :
  accept_slice f index = None <-> exists e, In e index /\ slice_pushable e = false.
Proof.
  unfold accept_slice. destruct (forallb slice_pushable index) eqn:E; cbn [negb]; split.
  - discriminate.
  - intros (e & He & Hp). rewrite forallb_forall in E. rewrite (E e He) in Hp. discriminate.
  - intros _. clear f. induction index as [|e t IH]; [discriminate|].
    cbn [forallb] in E. destruct (slice_pushable e) eqn:Ee.
    + cbn [andb] in E. destruct (IH E) as (x & Hx & Hp). exists x. split; [right; exact Hx | exact Hp].
    + exists e. split; [left; reflexivity | exact Ee].
  - reflexivity.
Qed.

Theorem accept_slice_nd f index f' ext :
  let full := pad_index index (length f) in
  Forall axis_wf f ->
  Forall2 (fun a e => idx_ok (a_eff a) e) f full ->
  accept_slice f index = Some (f', ext) ->
  Forall2 (fun ae a' => axis_wf a' /\
                        axis_positions a' = np_index (axis_positions (fst ae)) (snd ae) /\
                        a_dim a' = a_dim (fst ae) /\ a_base a' = a_base (fst ae))
          (combine f full) f' /\
  ext = (if existsb is_int full then Some (map extract_of full) else None).
Proof.
  intros full Hwf Hok H. unfold accept_slice in H.
  destruct (negb (forallb slice_pushable index)); [discriminate|].
  fold full in H. injection H as <- <-. split; [|reflexivity].
  apply (Forall2_combine_map (fun a e => axis_wf a /\ idx_ok (a_eff a) e)).
  - clear -Hwf Hok. induction Hok as [|a e l1 l2 Hae H IH]; constructor.
    + inversion Hwf; subst. auto.
    + apply IH. inversion Hwf; subst. assumption.
  - intros a e [Ha He]. cbn [fst snd].
    destruct (accept_axis_exact a e Ha He) as (H1 & H2 & _). auto.
Qed.

(* ---------------------------------------------------------------------- *)
(* the NumPy branch: dropping a full region / copying a small one keeps the
   denoted positions (in the coordinates of the original data) *)
Lemma zlist_eqb_eq a b : zlist_eqb a b = true -> a = b.
Proof.
  unfold zlist_eqb. revert b. induction a as [|x a IH]; intros [|y b] H; cbn [list_eqb] in H; try discriminate.
  - reflexivity.
  - apply andb_true_iff in H. destruct H as [H1 H2]. apply Z.eqb_eq in H1. subst. f_equal. apply IH, H2.
Qed.

Lemma drop_region_exact a :
  axis_wf a -> a_eff a = a_dim a ->
  axis_wf (drop_region a) /\ axis_positions (drop_region a) = axis_positions a /\
  a_chunks (drop_region a) = a_chunks a.
Proof.
  intros (Hd & Hru & Hv & Hne) Hfull.
  destruct (region_bounds _ _ Hd Hru) as (H0 & Hhi & _ & Hsel). fold (a_eff a) in *.
  split; [|split; [|reflexivity]].
  - unfold axis_wf, drop_region, a_eff. cbn [a_dim a_region a_chunks eff_len region_unit].
    rewrite <- Hfull. split; [lia|]. split; [exact I|]. split; assumption.
  - unfold axis_positions, drop_region. cbn [a_base a_dim a_region region_sel].
    rewrite Hsel. f_equal. f_equal; lia.
Qed.

Lemma copy_region_exact a :
  axis_wf a ->
  axis_wf (copy_region a) /\ axis_positions (copy_region a) = axis_positions a /\
  a_chunks (copy_region a) = a_chunks a.
Proof.
  intros (Hd & Hru & Hv & Hne).
  destruct (region_bounds _ _ Hd Hru) as (H0 & Hhi & Heff & Hsel). fold (a_eff a) in *.
  split; [|split; [|reflexivity]].
  - unfold axis_wf, copy_region. unfold a_eff at 2. cbn [a_dim a_region a_chunks eff_len region_unit]. auto.
  - unfold axis_positions, copy_region. cbn [a_base a_dim a_region region_sel].
    rewrite Hsel, !zrange_unit_map_add. f_equal; lia.
Qed.

Theorem np_adjust_exact itemsize limit f :
  Forall axis_wf f ->
  Forall2 (fun a a' => axis_wf a' /\ axis_positions a' = axis_positions a /\ a_chunks a' = a_chunks a)
          f (np_adjust itemsize limit f).
Proof.
  intros Hwf. unfold np_adjust, np_decide.
  destruct (zlist_eqb (eff_shape f) (map a_dim f)) eqn:E.
  - apply zlist_eqb_eq in E. unfold eff_shape in E.
    induction Hwf as [|a f Ha Hf IH]; cbn [map] in *; constructor.
    + injection E as E1 E2. apply drop_region_exact; assumption.
    + injection E as E1 E2. apply IH, E2.
  - destruct (zprod (eff_shape f) * itemsize <=? limit).
    + clear E. induction Hwf as [|a f Ha Hf IH]; cbn [map]; constructor; [apply copy_region_exact, Ha | exact IH].
    + clear E. induction Hwf as [|a f Ha Hf IH]; constructor; auto.
Qed.

(* ---------------------------------------------------------------------- *)
(* regions stay ordered (start <= stop) along chains of normalised indices *)
Lemma ordered_b_iff s n : ordered_b s n = true <-> ordered s n.
Proof. unfold ordered_b, ordered. destruct (indices s n) as [[a b] k]. lia. Qed.

Lemma int_ordered i n : 0 <= i < n -> ordered (ri_of (IInt i)) n.
Proof. intros H. unfold ordered. cbn [ri_of]. rewrite indices_inbounds by lia. lia. Qed.

Theorem accept_axis_ordered a e :
  axis_wf a -> idx_ok (a_eff a) e -> idx_ordered (a_eff a) e ->
  region_ordered (a_dim a) (a_region (accept_axis a e)).
Proof.
  intros (Hd & Hru & Hv & Hne) He Ho.
  pose proof (unit_ri_of _ _ He) as Hri.
  assert (ordered (ri_of e) (a_eff a)) as Hord.
  { destruct e as [i|s|]; cbn [idx_ok idx_ordered ri_of] in *; [apply int_ordered, He | exact Ho | contradiction]. }
  cbn [accept_axis a_region region_ordered]. unfold a_eff in *.
  destruct (a_region a) as [o|]; cbn [eff_len region_unit] in *; [|exact Hord].
  unfold compose_slices, ordered in *. unfold slice_len in Hord.
  destruct (indices_unit o (a_dim a) Hd Hru) as (A & B & Hi & HA & HB). rewrite Hi in *.
  destruct (indices_unit (ri_of e) _ (range_len_nonneg A B 1) Hri) as (C & D & Hi2 & HC & HD).
  rewrite Hi2 in *. cbn [negb Z.eqb Pos.eqb orb]. rewrite range_len_unit in *.
  rewrite indices_inbounds by lia. lia.
Qed.

Theorem region_chain_ordered es : forall a,
  axis_wf a -> region_ordered (a_dim a) (a_region a) ->
  chain_ok (a_eff a) es ->
  chain_ordered (a_eff a) es ->
  region_ordered (a_dim (axis_chain a es)) (a_region (axis_chain a es)).
Proof.
  induction es as [|e t IH]; intros a Hwf Hro Hok Hord; cbn [axis_chain fold_left]; [exact Hro|].
  destruct Hok as [He Ht]. cbn [chain_ordered] in Hord. destruct Hord as [Ho Hot].
  destruct (accept_axis_exact a e Hwf He) as (Hwf' & _ & Hlen).
  pose proof (accept_axis_ordered a e Hwf He Ho) as Hro'.
  rewrite <- Hlen in Ht, Hot.
  apply (IH (accept_axis a e) Hwf'); try assumption.
Qed.

(* ---------------------------------------------------------------------- *)
(* _accept_rechunk: storage-aligned read layouts *)
Lemma mod0_divide st x : 0 < st -> (x mod st = 0 <-> (st | x)).
Proof. intros H. apply Z.mod_divide. lia. Qed.

Lemma pytrue_false z : pytrue z = false <-> z = 0.
Proof. unfold pytrue. destruct (z =? 0) eqn:E; cbn [negb]; split; intros H; try discriminate; lia. Qed.

Lemma existsb_false_Forall {A} (f : A -> bool) l : existsb f l = false -> Forall (fun x => f x = false) l.
Proof.
  induction l as [|x t IH]; cbn [existsb]; intros H; constructor.
  - destruct (f x); [discriminate | reflexivity].
  - apply IH. destruct (f x); [discriminate | exact H].
Qed.

Lemma Forall_removelast {A} (P : A -> Prop) l : Forall P l -> Forall P (removelast l).
Proof.
  induction 1 as [|x t Hx Ht IH]; cbn [removelast]; [constructor|].
  destruct t; [constructor | constructor; assumption].
Qed.

Lemma cumsum_from_aligned st s l : forall acc,
  (st | s + acc) -> Forall (fun c => (st | c)) l -> Forall (fun b => (st | s + b)) (cumsum_from acc l).
Proof.
  induction l as [|c t IH]; intros acc Hacc Hl; cbn [cumsum_from]; [constructor|].
  inversion Hl as [|c' t' Hc Ht]; subst.
  assert (st | s + (acc + c)) as H by (replace (s + (acc + c)) with (s + acc + c) by lia; apply Z.divide_add_r; assumption).
  constructor; [exact H | apply IH; assumption].
Qed.

Lemma zsum_repeat c k : zsum (repeat c k) = Z.of_nat k * c.
Proof. induction k as [|k IH]; cbn [repeat zsum]; lia. Qed.

(* consecutive differences *)
Fixpoint diffs_from (prev : Z) (l : list Z) : list Z :=
  match l with [] => [] | x :: t => (x - prev) :: diffs_from x t end.

Lemma diffs_cons x0 rest : diffs (x0 :: rest) = diffs_from x0 rest.
Proof.
  unfold diffs. cbn [tl]. revert x0. induction rest as [|x t IH]; intros x0; [reflexivity|].
  cbn [combine map diffs_from fst snd]. f_equal. apply IH.
Qed.

Lemma diffs_from_length prev l : length (diffs_from prev l) = length l.
Proof. revert prev. induction l as [|x t IH]; intros prev; cbn [diffs_from length]; [reflexivity | rewrite IH; reflexivity]. Qed.

Lemma last_cons_indep {A} (l : list A) : forall x d d', last (x :: l) d = last (x :: l) d'.
Proof.
  induction l as [|y t IH]; intros x d d'; [reflexivity|].
  change (last (x :: y :: t) d) with (last (y :: t) d). change (last (x :: y :: t) d') with (last (y :: t) d'). apply IH.
Qed.

Lemma last_cons_default {A} (l : list A) x d : last (x :: l) d = last l x.
Proof.
  destruct l as [|y t]; [reflexivity|].
  change (last (x :: y :: t) d) with (last (y :: t) d). apply last_cons_indep.
Qed.

Lemma diffs_from_snoc l : forall prev x, diffs_from prev (l ++ [x]) = diffs_from prev l ++ [x - last l prev].
Proof.
  induction l as [|y t IH]; intros prev x; [reflexivity|].
  cbn [app diffs_from]. rewrite IH, last_cons_default. reflexivity.
Qed.

Lemma cumsum_diffs_from l : forall prev acc,
  cumsum_from acc (diffs_from prev l) = map (fun y => acc + y - prev) l.
Proof.
  induction l as [|x t IH]; intros prev acc; [reflexivity|].
  cbn [diffs_from cumsum_from map]. f_equal; [lia|]. rewrite IH. apply map_ext. intros y. lia.
Qed.

Lemma zsum_diffs_from l : forall prev, zsum (diffs_from prev l) = last l prev - prev.
Proof.
  induction l as [|x t IH]; intros prev; cbn [diffs_from zsum]; [cbn; lia|].
  rewrite IH, last_cons_default. lia.
Qed.

(* lo <= x1 <= x2 <= ... <= xk <= hi *)
Fixpoint chain_le (lo : Z) (l : list Z) (hi : Z) : Prop :=
  match l with [] => lo <= hi | x :: t => lo <= x /\ chain_le x t hi end.

Lemma chain_le_weaken l : forall lo lo' hi, lo' <= lo -> chain_le lo l hi -> chain_le lo' l hi.
Proof. destruct l as [|x t]; intros lo lo' hi H Hc; cbn [chain_le] in *; [lia|]. destruct Hc. split; [lia | assumption]. Qed.

Lemma chain_le_filter f l : forall lo hi, chain_le lo l hi -> chain_le lo (filter f l) hi.
Proof.
  induction l as [|x t IH]; intros lo hi Hc; cbn [filter]; [exact Hc|].
  cbn [chain_le] in Hc. destruct Hc as [H1 H2]. destruct (f x); cbn [chain_le].
  - split; [exact H1 | apply IH, H2].
  - apply (chain_le_weaken _ x); [exact H1 | apply IH, H2].
Qed.

Lemma chain_le_shift c l : forall lo hi, chain_le lo l hi -> chain_le (lo - c) (map (fun b => b - c) l) (hi - c).
Proof.
  induction l as [|x t IH]; intros lo hi Hc; cbn [map chain_le] in *; [lia|].
  destruct Hc as [H1 H2]. split; [lia | apply IH, H2].
Qed.

Lemma chain_le_diffs l : forall lo hi, chain_le lo l hi -> Forall (fun c => 0 <= c) (diffs_from lo (l ++ [hi])).
Proof.
  induction l as [|x t IH]; intros lo hi Hc; cbn [app diffs_from chain_le] in *.
  - constructor; [lia | constructor].
  - destruct Hc as [H1 H2]. constructor; [lia | apply IH, H2].
Qed.

Lemma chain_le_seq g st hi n : forall s lo,
  0 < st -> lo <= hi -> lo <= g + Z.of_nat s * st ->
  ((0 < n)%nat -> g + Z.of_nat (s + n - 1) * st <= hi) ->
  chain_le lo (map (fun i => g + Z.of_nat i * st) (seq s n)) hi.
Proof.
  induction n as [|n IH]; intros s lo Hst Hlh Hlo Hlast; cbn [seq map chain_le]; [exact Hlh|].
  split; [exact Hlo|].
  apply IH; try assumption.
  - specialize (Hlast ltac:(lia)). nia.
  - nia.
  - intros Hn. specialize (Hlast ltac:(lia)). replace (S s + n - 1)%nat with (s + S n - 1)%nat by lia. exact Hlast.
Qed.

Lemma chain_le_zrange lo g hi st : 0 < st -> lo <= g -> lo <= hi -> chain_le lo (zrange g hi st) hi.
Proof.
  intros Hst Hg Hlh. unfold zrange. apply chain_le_seq; try assumption; [lia|].
  intros Hn.
  assert (0 < range_len g hi st) as Hpos by lia.
  destruct (range_len_pos_cases g hi st Hst) as [[_ H0]|(Hlt & _ & Hlast & _)]; [lia|].
  replace (Z.of_nat (0 + Z.to_nat (range_len g hi st) - 1)) with (range_len g hi st - 1) by lia. lia.
Qed.

Lemma zrange_aligned q g hi st : g = q * st -> Forall (fun b => (st | b)) (zrange g hi st).
Proof.
  intros ->. apply Forall_forall. intros b Hb. unfold zrange in Hb. apply in_map_iff in Hb.
  destruct Hb as (i & <- & _). exists (q + Z.of_nat i). lia.
Qed.

Lemma removelast_snoc {A} (l : list A) x : removelast (l ++ [x]) = l.
Proof. apply removelast_last. Qed.

Lemma interior_diffs_snoc mids hi : interior (diffs_from 0 (mids ++ [hi])) = mids.
Proof.
  unfold interior. rewrite diffs_from_snoc, removelast_snoc. unfold cumsum. rewrite cumsum_diffs_from.
  rewrite <- (map_id mids) at 2. apply map_ext. intros y. lia.
Qed.

(* region case, one axis *)
Theorem region_read_axis_ok a r dc st rd :
  axis_wf a -> a_region a = Some r -> ordered r (a_dim a) -> 0 < st ->
  valid_chunks dc (a_eff a) -> dc <> [] ->
  region_read_axis dc st r (a_dim a) = Some rd -> read_ok a st rd.
Proof.
  intros (Hd & Hru & _ & _) Hr Hord Hst Hv Hne H.
  unfold read_ok, a_eff in *. rewrite Hr in *. cbn [region_unit eff_len region_start] in *.
  unfold region_read_axis, ordered in *.
  destruct (sel_unit r (a_dim a) Hd Hru) as (A & B & Hi & HA & HB & _ & Hlen).
  rewrite Hi in *. rewrite Hlen in *.
  destruct (splits_storage A st dc) eqn:Es; cbn [negb] in H.
  - cbn [Z.eqb Pos.eqb negb] in H. injection H as <-.
    unfold region_boundaries. rewrite diffs_cons.
    set (first := (A + st - 1) / st * st).
    set (mids := map (fun b => b - A) (filter (fun b => b >? A) (zrange first B st))).
    assert (chain_le 0 mids (B - A)) as Hchain.
    { replace 0 with (A - A) by lia. apply chain_le_shift, chain_le_filter, chain_le_zrange; try lia;
      unfold first; nia. }
    split; [split|split].
    + apply chain_le_diffs, Hchain.
    + rewrite zsum_diffs_from, last_last. lia.
    + intros Hnil. apply (f_equal (@length Z)) in Hnil. rewrite diffs_from_length, app_length in Hnil. cbn in Hnil. lia.
    + rewrite interior_diffs_snoc. unfold mids.
      apply Forall_forall. intros m Hm. apply in_map_iff in Hm. destruct Hm as (b & <- & Hb).
      apply filter_In in Hb. destruct Hb as [Hb _].
      pose proof (zrange_aligned ((A + st - 1) / st) first B st eq_refl) as Hal.
      rewrite Forall_forall in Hal. specialize (Hal b Hb).
      apply mod0_divide; [exact Hst|]. replace (A + (b - A)) with b by lia. exact Hal.
  - injection H as <-. split; [exact Hv|]. split; [exact Hne|].
    unfold splits_storage in Es. apply orb_false_iff in Es. destruct Es as [Es _].
    apply orb_false_iff in Es. destruct Es as [E1 E2].
    apply pytrue_false in E1. apply existsb_false_Forall in E2.
    unfold interior, cumsum.
    eapply Forall_impl; [|apply (cumsum_from_aligned st A (removelast dc) 0)].
    + cbv beta. intros b Hb. apply mod0_divide; assumption.
    + rewrite Z.add_0_r. apply mod0_divide; assumption.
    + eapply Forall_impl; [|exact E2]. cbv beta. intros c Hc. apply pytrue_false in Hc. apply mod0_divide; assumption.
Qed.

(* plain case, chunks already on the grid *)
Theorem respects_axis_ok a dc st :
  a_region a = None -> 0 < st -> valid_chunks dc (a_eff a) -> dc <> [] ->
  respects_storage_axis dc st = true -> read_ok a st dc.
Proof.
  intros Hr Hst Hv Hne H. unfold read_ok. rewrite Hr. cbn [region_start].
  split; [exact Hv|]. split; [exact Hne|].
  unfold respects_storage_axis in H. rewrite forallb_forall in H.
  apply Forall_forall. intros b Hb. specialize (H b Hb). cbn [Z.add]. lia.
Qed.

(* plain case, read at a multiple of the storage chunk *)
Lemma plain_read_size_pos dc st : 0 < st -> 0 < plain_read_size dc st /\ (st | plain_read_size dc st).
Proof.
  intros Hst. unfold plain_read_size. split; [nia|]. apply Z.divide_factor_r.
Qed.

Lemma uniform_chunks_ok d R :
  0 <= d -> 0 < R ->
  valid_chunks (uniform_chunks d R) d /\ uniform_chunks d R <> [] /\
  Forall (fun c => c = R) (removelast (uniform_chunks d R)).
Proof.
  intros Hd HR. unfold uniform_chunks. destruct (d =? 0) eqn:E0.
  - assert (d = 0) by lia. subst. split; [split; [constructor; [lia|constructor] | reflexivity]|].
    split; [discriminate | constructor].
  - assert (Forall (fun c => c = R) (repeat R (Z.to_nat (d / R)))) as Hrep
      by (apply Forall_forall; intros x Hx; apply repeat_spec in Hx; exact Hx).
    assert (0 <= d / R) as Hq by (apply Z.div_pos; lia).
    destruct (d mod R =? 0) eqn:Er.
    + rewrite app_nil_r. split; [split|split].
      * eapply Forall_impl; [|exact Hrep]. cbv beta. intros c ->. lia.
      * rewrite zsum_repeat. rewrite Z2Nat.id by exact Hq. nia.
      * intros Hnil. apply (f_equal (@length Z)) in Hnil. rewrite repeat_length in Hnil. cbn in Hnil. nia.
      * apply Forall_removelast, Hrep.
    + split; [split|split].
      * apply Forall_app. split; [eapply Forall_impl; [|exact Hrep]; cbv beta; intros c ->; lia|].
        constructor; [|constructor]. pose proof (Z.mod_pos_bound d R HR). lia.
      * rewrite zsum_app, zsum_repeat. cbn [zsum]. rewrite Z2Nat.id by exact Hq. nia.
      * intros Hnil. apply app_eq_nil in Hnil. destruct Hnil as [_ Hnil]. discriminate.
      * rewrite removelast_snoc. exact Hrep.
Qed.

Theorem plain_axis_ok a dc st :
  axis_wf a -> a_region a = None -> 0 < st ->
  read_ok a st (uniform_chunks (a_eff a) (plain_read_size dc st)).
Proof.
  intros (Hd & _ & _ & _) Hr Hst. unfold read_ok, a_eff. rewrite Hr. cbn [eff_len region_start].
  destruct (plain_read_size_pos dc st Hst) as [HR Hdiv].
  destruct (uniform_chunks_ok (a_dim a) _ Hd HR) as (H1 & H2 & H3).
  split; [exact H1|]. split; [exact H2|].
  unfold interior, cumsum.
  eapply Forall_impl; [|apply (cumsum_from_aligned st 0 _ 0)].
  - cbv beta. intros b Hb. apply mod0_divide; assumption.
  - apply Z.divide_0_r.
  - eapply Forall_impl; [|exact H3]. cbv beta. intros c ->. exact Hdiv.
Qed.

(* ---------------------------------------------------------------------- *)
(* _accept_rechunk on all axes *)
Lemma zlist2_eqb_eq a b : zlist2_eqb a b = true -> a = b.
Proof.
  unfold zlist2_eqb. revert b. induction a as [|x a IH]; intros [|y b] H; cbn [list_eqb] in H; try discriminate.
  - reflexivity.
  - apply andb_true_iff in H. destruct H as [H1 H2]. apply zlist_eqb_eq in H1. subst. f_equal. apply IH, H2.
Qed.

Lemma storage_grid_inv raw n st :
  storage_grid raw n = Some st -> raw = Some st /\ length st = n /\ Forall (fun c => 0 < c) st.
Proof.
  unfold storage_grid. destruct raw as [l|]; [|discriminate].
  destruct (negb (Nat.eqb (length l) n) || existsb (fun c => c <=? 0) l) eqn:E; [discriminate|].
  intros H. injection H as <-. apply orb_false_iff in E. destruct E as [E1 E2].
  split; [reflexivity|]. split.
  - apply Nat.eqb_eq. destruct (Nat.eqb (length l) n); [reflexivity | discriminate].
  - apply existsb_false_Forall in E2. eapply Forall_impl; [|exact E2]. cbv beta. intros c Hc. lia.
Qed.

Lemma region_read_ok chunks f : Forall2 target_ok chunks f -> forall st read,
  length st = length f -> Forall (fun c => 0 < c) st ->
  Forall axis_wf f -> Forall (fun a => region_ordered (a_dim a) (a_region a)) f ->
  region_read chunks st f = Some read ->
  Forall2 (fun r p => read_ok (fst p) (snd p) r) read (combine f st).
Proof.
  induction 1 as [|dc a chunks f [Hv Hne] Hrest IH]; intros st read Hlen Hpos Hwf Hord H.
  - cbn [region_read] in H. injection H as <-. constructor.
  - destruct st as [|s st]; [discriminate|]. cbn [region_read] in H.
    inversion Hpos; inversion Hwf; inversion Hord; subst.
    destruct (a_region a) as [r|] eqn:Hr; [|discriminate].
    destruct (region_read_axis dc s r (a_dim a)) as [rd|] eqn:E1; [|discriminate].
    destruct (region_read chunks st f) as [rest|] eqn:E2; [|discriminate].
    injection H as <-. cbn [combine]. constructor.
    + cbn [fst snd]. apply (region_read_axis_ok a r dc s rd); try assumption.
    + apply IH; try assumption. cbn [length] in Hlen. lia.
Qed.

Lemma respects_ok chunks f : Forall2 target_ok chunks f -> forall st,
  length st = length f -> Forall (fun c => 0 < c) st ->
  Forall (fun a => a_region a = None) f ->
  respects_storage chunks st = true ->
  Forall2 (fun r p => read_ok (fst p) (snd p) r) chunks (combine f st).
Proof.
  induction 1 as [|dc a chunks f [Hv Hne] Hrest IH]; intros st Hlen Hpos Hnone H.
  - constructor.
  - destruct st as [|s st]; [discriminate|]. cbn [respects_storage] in H.
    apply andb_true_iff in H. destruct H as [H1 H2].
    inversion Hpos; inversion Hnone; subst. cbn [combine]. constructor.
    + cbn [fst snd]. apply respects_axis_ok; assumption.
    + apply IH; try assumption. cbn [length] in Hlen. lia.
Qed.

Lemma plain_read_ok chunks f : Forall2 target_ok chunks f -> forall st,
  length st = length f -> Forall (fun c => 0 < c) st ->
  Forall axis_wf f -> Forall (fun a => a_region a = None) f ->
  Forall2 (fun r p => read_ok (fst p) (snd p) r) (plain_read chunks st (eff_shape f)) (combine f st).
Proof.
  induction 1 as [|dc a chunks f _ Hrest IH]; intros st Hlen Hpos Hwf Hnone.
  - destruct st; constructor.
  - destruct st as [|s st]; [discriminate|]. cbn [eff_shape map plain_read combine].
    inversion Hpos; inversion Hwf; inversion Hnone; subst. constructor.
    + cbn [fst snd]. apply plain_axis_ok; assumption.
    + apply IH; try assumption. cbn [length] in Hlen. lia.
Qed.

Theorem accept_rechunk_read_ok f raw chunks st rd :
  Forall axis_wf f -> Forall (fun a => region_ordered (a_dim a) (a_region a)) f ->
  regions_uniform f -> Forall2 target_ok chunks f ->
  storage_grid raw (length f) = Some st ->
  accept_rechunk f raw chunks = PushAll rd \/ accept_rechunk f raw chunks = ReadThenRechunk rd ->
  Forall2 (fun r p => read_ok (fst p) (snd p) r) rd (combine f st).
Proof.
  intros Hwf Hord Huni Htgt Hgrid H.
  unfold accept_rechunk in H. unfold eff_shape in H. rewrite map_length, Hgrid in H.
  destruct (storage_grid_inv _ _ _ Hgrid) as (_ & Hlen & Hpos).
  unfold regions_uniform in Huni.
  destruct (has_region f) eqn:Ehr.
  - destruct (region_read chunks st f) as [read|] eqn:Er; [|destruct H; discriminate].
    pose proof (region_read_ok chunks f Htgt st read Hlen Hpos Hwf Hord Er) as Hok.
    destruct (zlist2_eqb read chunks) eqn:E1.
    + apply zlist2_eqb_eq in E1. subst read. destruct H as [H|H]; [injection H as <-; exact Hok | discriminate].
    + destruct (zlist2_eqb read (map a_chunks f)); destruct H as [H|H]; try discriminate.
      injection H as <-. exact Hok.
  - assert (Forall (fun a => a_region a = None) f) as Hnone.
    { eapply Forall_impl; [|exact Huni]. cbv beta. intros a Ha. destruct (a_region a); [discriminate | reflexivity]. }
    destruct (respects_storage chunks st) eqn:Ers.
    + destruct H as [H|H]; [|discriminate]. injection H as <-. apply respects_ok; assumption.
    + destruct (zlist2_eqb (plain_read chunks st (map a_eff f)) (map a_chunks f)); destruct H as [H|H]; try discriminate.
      injection H as <-. apply plain_read_ok; assumption.
Qed.

(* a pushed rechunk always reads at the target chunks; without a usable grid everything is pushed *)
Theorem accept_rechunk_pushall f raw chunks c :
  accept_rechunk f raw chunks = PushAll c -> c = chunks.
Proof.
  unfold accept_rechunk. destruct (storage_grid raw (length (eff_shape f))) as [st|].
  - destruct (has_region f).
    + destruct (region_read chunks st f) as [read|]; [|discriminate].
      destruct (zlist2_eqb read chunks); [intros H; injection H as <-; reflexivity|].
      destruct (zlist2_eqb read (map a_chunks f)); discriminate.
    + destruct (respects_storage chunks st); [intros H; injection H as <-; reflexivity|].
      destruct (zlist2_eqb _ (map a_chunks f)); discriminate.
  - intros H. injection H as <-. reflexivity.
Qed.

Theorem accept_rechunk_nogrid f raw chunks :
  storage_grid raw (length f) = None -> accept_rechunk f raw chunks = PushAll chunks.
Proof. intros H. unfold accept_rechunk, eff_shape. rewrite map_length, H. reflexivity. Qed.

(* Without start <= stop the boundary list of the region case is not a layout *)
Theorem region_read_unordered_refuted :
  exists a r dc st rd,
    axis_wf a /\ a_region a = Some r /\ 0 < st /\ valid_chunks dc (a_eff a) /\ dc <> [] /\
    region_read_axis dc st r (a_dim a) = Some rd /\ ~ read_ok a st rd.
Proof.
  exists (mkaxis 0 10 (Some (mkslice (Some 8) (Some 3) None)) [0]), (mkslice (Some 8) (Some 3) None), [0], 5, [-5].
  assert (valid_chunks [0] 0) as Hv by (split; [constructor; [lia | constructor] | reflexivity]).
  split; [|split; [reflexivity|split; [lia|split; [exact Hv|split; [discriminate|split; [vm_compute; reflexivity|]]]]]].
  - unfold axis_wf. cbn [a_dim a_region a_chunks region_unit]. split; [lia|]. split; [left; reflexivity|].
    split; [exact Hv | discriminate].
  - intros ((Hnn & _) & _). inversion Hnn; subst. lia.
Qed.

(* Integers must have been made non-negative (normalize_index) before _accept_slice *)
Theorem accept_axis_negative_int_refuted :
  exists a e, axis_wf a /\ e = IInt (-1) /\
    axis_positions (accept_axis a e) = [] /\ nth 2 (axis_positions a) 0 = 2 /\ lenZ (axis_positions a) = 3.
Proof.
  exists (fresh_axis 3 [3]), (IInt (-1)). split; [|vm_compute; auto].
  unfold axis_wf, fresh_axis. cbn [a_dim a_region a_chunks region_unit].
  split; [lia|]. split; [exact I|]. split; [|discriminate].
  split; [constructor; [lia | constructor] | reflexivity].
Qed.

(* ---------------------------------------------------------------------- *)
(* the boolean checkers used by the harness are sound *)
Lemma valid_chunks_b_iff cs n : valid_chunks_b cs n = true <-> valid_chunks cs n.
Proof.
  unfold valid_chunks_b, valid_chunks, all_nonneg. rewrite andb_true_iff, forallb_forall, Forall_forall, Z.eqb_eq.
  split; intros [H1 H2]; split; try assumption; intros x Hx; specialize (H1 x Hx); lia.
Qed.

Theorem axis_wf_b_sound a : axis_wf_b a = true -> axis_wf a.
Proof.
  unfold axis_wf_b, axis_wf. rewrite !andb_true_iff. intros [[[H1 H2] H3] H4].
  split; [lia|]. split; [|split].
  - destruct (a_region a) as [r|]; cbn [region_unit]; [apply unit_step_b_iff, H2 | exact I].
  - apply valid_chunks_b_iff, H3.
  - destruct (a_chunks a); [discriminate H4 | discriminate].
Qed.

Theorem contiguous_from_b_sound rq : forall lo hi, contiguous_from_b lo rq hi = true -> contiguous_from lo rq hi.
Proof.
  induction rq as [|p t IH]; intros lo hi H; cbn [contiguous_from_b contiguous_from] in *; [lia|].
  rewrite !andb_true_iff in H. destruct H as [[H1 H2] H3]. split; [lia|]. split; [lia | apply IH, H3].
Qed.

Theorem in_bounds_b_sound dim p : in_bounds_b dim p = true -> in_bounds dim p.
Proof. unfold in_bounds_b, in_bounds. rewrite !andb_true_iff. lia. Qed.

Theorem read_ok_b_sound a st rd : read_ok_b a st rd = true -> read_ok a st rd.
Proof.
  unfold read_ok_b, read_ok. rewrite !andb_true_iff. intros [[H1 H2] H3].
  split; [apply valid_chunks_b_iff, H1|]. split; [destruct rd; [discriminate H2 | discriminate]|].
  rewrite forallb_forall in H3. apply Forall_forall. intros b Hb. specialize (H3 b Hb). lia.
Qed.

(* normalize_slice output (Slice1dFacts.normalized) with a unit step is ordered *)
Lemma unit_nonneg_ordered s n :
  0 <= n -> unit_step s ->
  (forall a, s_start s = Some a -> 0 <= a <= n) -> (forall b, s_stop s = Some b -> 0 <= b <= n) ->
  (forall a b, s_start s = Some a -> s_stop s = Some b -> a <= b) -> ordered s n.
Proof.
  intros Hn Hu Ha Hb Hab. unfold ordered.
  assert (step_of s = 1) as Hk by (unfold step_of; destruct Hu as [-> | ->]; reflexivity).
  rewrite indices_nonneg;
    [| lia | lia | intros x Hx; specialize (Ha x Hx); lia | intros x Hx; specialize (Hb x Hx); lia].
  unfold start_or0, clip_stop. destruct (s_start s) as [a|], (s_stop s) as [b|];
    try specialize (Ha _ eq_refl); try specialize (Hb _ eq_refl); try specialize (Hab _ _ eq_refl eq_refl); lia.
Qed.
