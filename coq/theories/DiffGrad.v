(* C19 — diff and gradient (dask_array/routines/_diff.py, dask_array/routines/_gradient.py) and their
   NumPy definitions, 1-D model along the differenced axis: a block is a `list`, a chunked array a
   `list (list _)` (Window.v).  N-D: every function acts on the lanes along `axis` independently.
   Definitions only; proofs in DiffGradFacts.v.

   Exactness: inputs are integers (Z).  gradient results are rationals: the unit-spacing model returns
   TWICE the gradient as Z (`np_gradient2`), the scalar-spacing model returns Q (`np_gradient`,
   value = twice-gradient / (2 h)), the coordinate model returns Q. *)
From DA Require Import PyBase Scan Window.
From Coq Require Import QArith Qabs.
Open Scope Z_scope.

(* ===================================================================================== *)
(* numpy.diff and dask_array.diff                                                        *)

(* NumPy's definition: out[i] = a[i+1] - a[i]; higher differences recursively *)
Definition np_diff1 (l : list Z) : list Z :=
  map (fun i => nth (S i) l 0 - nth i l 0) (seq 0 (length l - 1)).
Fixpoint np_diff (n : nat) (l : list Z) : list Z :=
  match n with O => l | S k => np_diff1 (np_diff k l) end.

(* the closed form of the n-th difference: out[i] = sum_{k=0..n} (-1)^(n-k) C(n,k) a[i+k].
   sbinom n k is the signed binomial coefficient (-1)^(n-k) C(n,k) (0 for k > n), by Pascal's rule. *)
Fixpoint binom (n k : nat) : Z :=
  match n, k with
  | _, O => 1
  | O, S _ => 0
  | S n', S k' => binom n' k' + binom n' k
  end.
Fixpoint sbinom (n k : nat) : Z :=
  match n, k with
  | O, O => 1
  | O, S _ => 0
  | S n', O => - sbinom n' O
  | S n', S k' => sbinom n' k' - sbinom n' k
  end.
Definition np_diff_closed (n : nat) (l : list Z) : list Z :=
  map (fun i => zsum (map (fun k => sbinom n k * nth (i + k) l 0) (seq 0 (S n)))) (seq 0 (length l - n)).

(* diff: r[sl_1] - r[sl_2] with sl_1[axis] = slice(1, None), sl_2[axis] = slice(None, -1)
   (a[1:] = pyslice a 1 len, a[:-1] = pyslice a 0 (len - 1); both [] on an empty axis) *)
Definition diff_step (r : list Z) : list Z :=
  map2 Z.sub (pyslice r 1 (zlen r)) (pyslice r 0 (zlen r - 1)).

(* diff: `r = a; for _ in range(n): r = r[sl_1] - r[sl_2]` *)
Fixpoint diff_loop (n : nat) (r : list Z) : list Z :=
  match n with O => r | S k => diff_loop k (diff_step r) end.

(* diff: combined = [prepend]? + [a] + [append]?; concatenate(combined, axis).  A 0-d prepend /
   append is broadcast to extent 1 along the axis (a one-element list here). *)
Definition diff_combined (prepend append : option (list Z)) (a : list Z) : list Z :=
  (match prepend with None => [] | Some p => p end) ++ a ++ (match append with None => [] | Some q => q end).

(* diff(a, n, axis, prepend, append); None = ValueError("order must be non-negative");
   n == 0 returns a BEFORE looking at prepend / append (like numpy.diff) *)
Definition da_diff (n : Z) (prepend append : option (list Z)) (a : list Z) : option (list Z) :=
  if n =? 0 then Some a
  else if n <? 0 then None
  else Some (diff_loop (Z.to_nat n) (diff_combined prepend append a)).

(* numpy.diff(a, n, prepend=, append=): the n-th difference of the concatenation *)
Definition np_diff_full (n : Z) (prepend append : option (list Z)) (a : list Z) : option (list Z) :=
  if n =? 0 then Some a
  else if n <? 0 then None
  else Some (np_diff (Z.to_nat n) (diff_combined prepend append a)).

(* ===================================================================================== *)
(* numpy.gradient and dask_array.gradient                                                 *)

Fixpoint all_some {A} (l : list (option A)) : option (list A) :=
  match l with
  | [] => Some []
  | None :: _ => None
  | Some x :: t => match all_some t with None => None | Some r => Some (x :: r) end
  end.

Section Gradient.
  Variables T R : Type.          (* T: one sample (a value, or a value with its coordinate); R: results *)
  Variable d : T.                (* never read: all positions are in range *)
  Variable mid : T -> T -> T -> R.   (* out[i] from samples i-1, i, i+1: the central difference *)
  Variable lft : list T -> R.        (* out[0]  from the FIRST edge_order+1 samples *)
  Variable rgt : list T -> R.        (* out[-1] from the LAST  edge_order+1 samples (in array order) *)
  Variable eo : Z.                   (* edge_order (1 or 2) *)

  (* numpy.gradient along one axis, position i: out[1:-1] central, out[0] / out[-1] one-sided *)
  Definition grad_at (l : list T) (i : nat) : R :=
    if (i =? 0)%nat then lft (firstn (Z.to_nat (eo + 1)) l)
    else if (S i =? length l)%nat then rgt (lastn (eo + 1) l)
    else mid (nth (i - 1) l d) (nth i l d) (nth (S i) l d).

  (* numpy.gradient; None = ValueError("Shape of array too small to calculate a numerical gradient,
     at least (edge_order + 1) elements are required.") *)
  Definition np_gradient_gen (l : list T) : option (list R) :=
    if zlen l <? eo + 1 then None else Some (map (grad_at l) (seq 0 (length l))).

  (* gradient(): `for c in f.chunks[ax]: if np.min(c) < kwargs["edge_order"] + 1: raise ValueError` *)
  Definition gradient_guard (chunks : list Z) : bool := forallb (fun c => negb (c <? eo + 1)) chunks.

  (* map_overlap(_gradient_kernel, f, depth={ax: 1}, boundary="none") lowered by MapOverlap._lower:
     overlap (with its own rechunk) -> map_blocks(kernel) -> trim_internal.  The kernel is
     np.gradient on the extended block; None = the kernel raised in some block. *)
  Definition gradient_ext (blocks : list (list T)) : option (list (list T)) := overlap blocks 1 1 BNone.
  Definition gradient_core (blocks : list (list T)) : option (list (list R)) :=
    match gradient_ext blocks with
    | None => None
    | Some ov =>
        match all_some (map np_gradient_gen ov) with
        | None => None
        | Some gs => Some (trim_internal gs 1 1 true)
        end
    end.

  (* gradient() along one axis: the guard, then the map_overlap pipeline; None = ValueError *)
  Definition gradient_plan (blocks : list (list T)) : option (list (list R)) :=
    if gradient_guard (map zlen blocks) then gradient_core blocks else None.
End Gradient.

Arguments grad_at {T R}. Arguments np_gradient_gen {T R}. Arguments gradient_ext {T}.
Arguments gradient_core {T R}. Arguments gradient_plan {T R}.

(* ---- unit spacing, TWICE the gradient as an integer ------------------------------------ *)
(* interior: (f[i+1] - f[i-1]) / 2 *)
Definition mid2 (a b c : Z) : Z := c - a.
(* edge_order 1: (f[1] - f[0]) / 1;  edge_order 2: -(3 f[0] - 4 f[1] + f[2]) / 2 *)
Definition lft2 (eo : Z) (l : list Z) : Z :=
  if eo =? 1 then 2 * (nth 1 l 0 - nth 0 l 0) else - 3 * nth 0 l 0 + 4 * nth 1 l 0 - nth 2 l 0.
(* edge_order 1: f[-1] - f[-2];  edge_order 2: (3 f[-1] - 4 f[-2] + f[-3]) / 2 *)
Definition rgt2 (eo : Z) (l : list Z) : Z :=
  let r := rev l in
  if eo =? 1 then 2 * (nth 0 r 0 - nth 1 r 0) else 3 * nth 0 r 0 - 4 * nth 1 r 0 + nth 2 r 0.

Definition np_gradient2 (eo : Z) (l : list Z) : option (list Z) :=
  np_gradient_gen 0 mid2 (lft2 eo) (rgt2 eo) eo l.
Definition da_gradient2 (eo : Z) (blocks : list (list Z)) : option (list (list Z)) :=
  gradient_plan 0 mid2 (lft2 eo) (rgt2 eo) eo blocks.
Definition da_gradient2_core (eo : Z) (blocks : list (list Z)) : option (list (list Z)) :=
  gradient_core 0 mid2 (lft2 eo) (rgt2 eo) eo blocks.

(* ---- scalar spacing h: exact rationals --------------------------------------------------- *)
Definition over2h (h : Q) (v : Z) : Q := (inject_Z v / (2 * h))%Q.
Definition np_gradient (eo : Z) (h : Q) (l : list Z) : option (list Q) :=
  np_gradient_gen 0 (fun a b c => over2h h (mid2 a b c)) (fun l => over2h h (lft2 eo l))
                  (fun l => over2h h (rgt2 eo l)) eo l.
Definition da_gradient (eo : Z) (h : Q) (blocks : list (list Z)) : option (list (list Q)) :=
  gradient_plan 0 (fun a b c => over2h h (mid2 a b c)) (fun l => over2h h (lft2 eo l))
                (fun l => over2h h (rgt2 eo l)) eo blocks.

(* ---- coordinates: gradient(f, x) with a 1-D coordinate array ---------------------------- *)
(* gradient(): the coordinate window handed to block j is coord[array_locs[0][j] : array_locs[1][j]]:
     chunk = np.array(f.chunks[ax]); array_loc_stop = np.cumsum(chunk) + 1
     array_loc_start = array_loc_stop - chunk - 2; array_loc_stop[-1] -= 1; array_loc_start[0] = 0 *)
Definition set_first (v : Z) (l : list Z) : list Z := match l with [] => [] | _ :: t => v :: t end.
Definition set_last (v : Z) (l : list Z) : list Z := match l with [] => [] | _ => removelast l ++ [v] end.
Definition array_locs (chunks : list Z) : list Z * list Z :=
  let stop0 := map (fun s => s + 1) (cumsum chunks) in
  let start0 := map2 (fun s c => s - c - 2) stop0 chunks in
  (set_first 0 start0, set_last (last stop0 0 - 1) stop0).

(* _gradient_kernel: coord = coord[array_locs[0][block_loc] : array_locs[1][block_loc]] for every block *)
Definition coord_windows {A} (coord : list A) (chunks : list Z) : list (list A) :=
  map (fun se => pyslice coord (fst se) (snd se)) (combine (fst (array_locs chunks)) (snd (array_locs chunks))).

(* a sample is (f, x); numpy.gradient's second-order formulas for non-uniform spacing *)
Definition zq (v : Z) : Q := inject_Z v.
Definition midx (p q r : Z * Z) : Q :=
  let dx1 := zq (snd q - snd p) in let dx2 := zq (snd r - snd q) in
  (- dx2 / (dx1 * (dx1 + dx2)) * zq (fst p) + (dx2 - dx1) / (dx1 * dx2) * zq (fst q)
   + dx1 / (dx2 * (dx1 + dx2)) * zq (fst r))%Q.
Definition lftx (eo : Z) (l : list (Z * Z)) : Q :=
  let p := nth 0 l (0, 0) in let q := nth 1 l (0, 0) in let r := nth 2 l (0, 0) in
  if eo =? 1 then (zq (fst q - fst p) / zq (snd q - snd p))%Q
  else let dx1 := zq (snd q - snd p) in let dx2 := zq (snd r - snd q) in
       (- (2 * dx1 + dx2) / (dx1 * (dx1 + dx2)) * zq (fst p) + (dx1 + dx2) / (dx1 * dx2) * zq (fst q)
        - dx1 / (dx2 * (dx1 + dx2)) * zq (fst r))%Q.
Definition rgtx (eo : Z) (l : list (Z * Z)) : Q :=
  let rl := rev l in
  let r := nth 0 rl (0, 0) in let q := nth 1 rl (0, 0) in let p := nth 2 rl (0, 0) in
  if eo =? 1 then (zq (fst r - fst q) / zq (snd r - snd q))%Q
  else let dx1 := zq (snd q - snd p) in let dx2 := zq (snd r - snd q) in
       (dx2 / (dx1 * (dx1 + dx2)) * zq (fst p) - (dx2 + dx1) / (dx1 * dx2) * zq (fst q)
        + (2 * dx2 + dx1) / (dx2 * (dx1 + dx2)) * zq (fst r))%Q.

(* numpy.gradient(f, x) on the samples combine f x.  (NumPy switches to the scalar formulas when the
   coordinates are equally spaced: the same rational numbers, Qeq but not syntactically equal; the
   non-uniform formulas are used here for every input.) *)
Definition np_gradient_x (eo : Z) (fx : list (Z * Z)) : option (list Q) :=
  np_gradient_gen (0, 0) midx (lftx eo) (rgtx eo) eo fx.
(* the library's plan: block j of f is overlapped, the kernel pairs it with its coordinate window *)
Definition da_gradient_x (eo : Z) (blocks : list (list (Z * Z))) : option (list (list Q)) :=
  gradient_plan (0, 0) midx (lftx eo) (rgtx eo) eo blocks.

(* ---- specification-side checkers (harness) ------------------------------------------------ *)
Definition olist_eqb (a b : option (list Z)) : bool :=
  match a, b with Some x, Some y => zlist_eqb x y | None, None => true | _, _ => false end.
Definition olist2_eqb (a b : option (list (list Z))) : bool :=
  match a, b with Some x, Some y => zlist2_eqb x y | None, None => true | _, _ => false end.
Definition qlist_eqb (a b : list Q) : bool := list_eqb Qeq_bool a b.
(* |a - b| <= tol * (1 + |b|) *)
Definition qclose (tol a b : Q) : bool := Qle_bool (Qabs (a - b)) (tol * (1 + Qabs b)).
Definition qlist_close (tol : Q) (a b : list Q) : bool := list_eqb (qclose tol) a b.
