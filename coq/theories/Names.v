(* Names.v — DEFINITIONS ONLY.
   How dask_array builds expression names (`_name`), the tokens parents see
   (`deterministic_token` / `__dask_tokenize__`), what a node MEANS (`content`), the name-keyed
   caches (singleton registry, _LOWER_CACHE, graph merging) and the pickle round trip.

   Python anchors
     dask/_expr.py            Expr.__new__, Expr._name, Expr.deterministic_token,
                              Expr.__dask_tokenize__, Expr._reconstruct, SingletonExpr.__new__
     dask_array/_expr.py      ArrayExpr.__reduce__, RootAlias._name
     dask_array/_blockwise.py Blockwise.__dask_tokenize__/_name, Elemwise.__dask_tokenize__,
                              FusedBlockwise._name
     dask_array/reductions/_reduction.py  Reduction.__dask_tokenize__/_name,
                              PartialReduce.__dask_tokenize__/_name
     dask_array/_rechunk.py   Rechunk._name (TasksRechunk inherits it with 4 parameters)
     dask_array/io/_from_array.py  FromArray.__dask_tokenize__/_name/_accept_slice/_with_chunks
     dask_array/random/_expr.py    Random._info / _name
     dask_array/_materialize.py    _LOWER_CACHE, _materialize (RootAlias)

   Conventions
     * every non-expression operand (ints, tuples, functions, dtypes, ndarrays ...) is an ATOM: a `Z`
       that stands for the string dask's `normalize_token` produces for it (the harness interns
       `tokenize(operand)`); leaf tokenisation itself is dask's and is in the trusted base.
     * `hash` is abstract; `H` is `dask.tokenize._tokenize_deterministic` (md5 of the str of the
       normalised tuple) and `Hp` is `hash_buffer_hex(pickle.dumps(...))` (Rechunk).  Both are assumed
       injective in the Facts/Properties files (hash collisions excluded; trusted base).
     * a CHILD expression enters its parent's token through `child.__dask_tokenize__()`, i.e. through the
       child's TOKEN (`_determ_token`), NOT through its `_name` and not structurally.  Only the
       hand-built names (Rechunk, FromArray regions) use the child's `_name` string. *)
From Coq Require Import ZArith List Bool.
Import ListNotations.
Open Scope Z_scope.

(* ------------------------------------------------------------------------------------------------ *)
(* Expression syntax: operands as in the real `_parameters`.                                         *)

Inductive expr : Type :=
(* any class that uses the stock tokenizer `_tokenize_deterministic(type(self), *operands)` and names
   itself f"{prefix}-{token}": Elemwise (its override is the stock formula), FromArray (non-exact; the
   override is the stock formula up to lock ids), Transpose, SliceSlicesIntegers, Concatenate, Stack,
   ExpandDims, Squeeze, FusedBlockwise (ops = the fused group; prefix = str(self)), creation nodes ...
   `prefix` is what the class puts in front (funcname(type) / a constant / a `name=` operand): it is
   NOT part of the token. *)
| Gen (cls prefix : Z) (ops : args)
(* classes that hand-build f"{prefix}-{_tokenize_deterministic(*operands)}" WITHOUT type(self), array first:
   CumReduction, CumReductionBlelloch, ArgChunk, P2PRechunk.  Parents still see the stock token. *)
| GenNC (cls prefix : Z) (e : expr) (ops : args)
(* SliceSlicesIntegers(new_io, extract_index, False, _determ_token=f"{new_io._name}-extract-{pat}")
   built by FromArray._accept_slice for integer indices *)
| SliceExtract (base : expr) (pat : Z)
(* FromArray(..., _name_override=f"{base._name}-getitem-{tokenize(old_region, region_index,
   new_region)}", _name_is_exact=True)  — FromArray._accept_slice *)
| SrcRegion (base : expr) (old_region index new_region : Z)
(* FromArray(..., _name_override=f"{base._name}-rechunk-{tokenize(base.chunks, chunks)}",
   _name_is_exact=True)  — FromArray._with_chunks *)
| SrcRechunk (base : expr) (old_chunks new_chunks : Z)
(* Blockwise (and subclasses that inherit its tokenizer): _parameters func,out_ind,name,token,dtype,
   adjust_chunks,new_axes,align_arrays,concatenate,_meta_provided,kwargs,*args.
   `prefix` = name or token or funcname(func) (OMITTED from the token); `meta` = _meta_provided
   (OMITTED); `dtype` is the DERIVED self.dtype (that is what the tokenizer hashes);
   ops = the (arg, ind) pairs flattened, literal args as atoms *)
| Blockwise (prefix func out_ind dtype adjust new_axes align concat kwargs meta : Z) (ops : args)
(* Reduction and its subclasses (Sum, Mean, ...): `prefix` = name operand or funcname(chunk)
   (OMITTED from the token), `meta` OMITTED; dtype is the raw operand; weights = ANil or one child *)
| Reduction (cls prefix : Z) (e : expr)
            (chunk aggregate axis keepdims dtype split_every combine concatenate output_size : Z)
            (weights : args) (meta : Z)
(* PartialReduce: token = (func, array, split_every, keepdims, self.dtype); `prefix` (name) and
   `reduced_meta` OMITTED, no type(self) *)
| PartialReduce (prefix : Z) (e : expr) (func split_every keepdims dtype reduced_meta : Z)
(* Rechunk: _name = "rechunk-merge-rc1" + Hp((array._name, _chunks, threshold, block_size_limit,
   balance, method));  TasksRechunk: same formula over its 4 parameters *)
| Rechunk (e : expr) (chunks threshold bsl balance method : Z)
| TasksRechunk (e : expr) (chunks threshold bsl : Z)
(* Random: operands rng, distribution, size, chunks, extra_chunks, args, kwargs.  The rng operand is a
   MUTABLE shared object: `rng_draw` is its state when this node drew its per-block bit generators
   (Random._info: spawn / bytes(16) advance it); `rng_now` is its state when the node is looked at later
   (pickled / asked to recompute `_info`) — since the repair of finding C06-A it enters neither the token
   nor the name.  `nchunks` is the DERIVED self.chunks = normalize_chunks(chunks, size, dtype) + extra_chunks
   (what the hand-built name hashes; the raw chunks / extra_chunks operands are hashed nowhere any more). *)
| Random (cls rng_draw rng_now dist size nchunks kwargs : Z) (ops : args)
(* RootAlias(opt, raw._name) built by _materialize: the optimized tree pinned to the raw root's name *)
| RootAlias (opt raw : expr)
with args : Type :=
| ANil
| ALit (z : Z) (r : args)       (* a tokenizable non-expression operand *)
| AObj (o : Z) (r : args)       (* an operand with no deterministic token: (type(v), id(v)) / lock-id *)
| AChild (e : expr) (r : args).

Fixpoint esize (e : expr) : nat :=
  match e with
  | Gen _ _ ops => S (asize ops)
  | GenNC _ _ e ops => S (esize e + asize ops)
  | SliceExtract b _ => S (esize b)
  | SrcRegion b _ _ _ => S (esize b)
  | SrcRechunk b _ _ => S (esize b)
  | Blockwise _ _ _ _ _ _ _ _ _ _ ops => S (asize ops)
  | Reduction _ _ e _ _ _ _ _ _ _ _ _ w _ => S (esize e + asize w)
  | PartialReduce _ e _ _ _ _ _ => S (esize e)
  | Rechunk e _ _ _ _ _ => S (esize e)
  | TasksRechunk e _ _ _ => S (esize e)
  | Random _ _ _ _ _ _ _ ops => S (asize ops)
  | RootAlias o r => S (esize o + esize r)
  end
with asize (a : args) : nat :=
  match a with
  | ANil => O
  | ALit _ r => S (asize r)
  | AObj _ r => S (asize r)
  | AChild e r => S (esize e + asize r)
  end.

(* ------------------------------------------------------------------------------------------------ *)
(* What a node means: class, children's meanings, the semantically relevant operands.
   OMITTED on purpose (they are not part of shape / chunks / dtype / block values): name prefixes
   (`name=`, `token=`), `_meta_provided` / `meta` / `reduced_meta` (only the container type of `_meta`),
   and — for Random — the later states of the rng object (the values come from the state at DRAW time)
   and the class (Random / RandomNormal / RandomPoisson name themselves by `distribution` only: the same
   distribution, arguments and bit generators give the same stream whatever the class). *)
Inductive content : Type :=
| CGen (cls : Z) (ops : cargs)
| CGenNC (c : content) (ops : cargs)   (* no class: told apart by their operand lists only *)
| CSliceExtract (b : content) (pat : Z)
| CSrcRegion (b : content) (old_region index new_region : Z)
| CSrcRechunk (b : content) (old_chunks new_chunks : Z)
| CBlockwise (func out_ind dtype adjust new_axes align concat kwargs : Z) (ops : cargs)
| CReduction (cls : Z) (c : content)
             (chunk aggregate axis keepdims dtype split_every combine concatenate output_size : Z)
             (w : cargs)
| CPartialReduce (c : content) (func split_every keepdims dtype : Z)
| CRechunk (c : content) (chunks threshold bsl balance method : Z)
| CTasksRechunk (c : content) (chunks threshold bsl : Z)
| CRandom (rng_draw dist size nchunks kwargs : Z) (ops : cargs)
with cargs : Type :=
| CNil | CLit (z : Z) (r : cargs) | CObj (o : Z) (r : cargs) | CChild (c : content) (r : cargs).

Fixpoint content_of (e : expr) : content :=
  match e with
  | Gen c _ ops => CGen c (cargs_of ops)
  | GenNC _ _ e ops => CGenNC (content_of e) (cargs_of ops)
  | SliceExtract b pat => CSliceExtract (content_of b) pat
  | SrcRegion b o i n => CSrcRegion (content_of b) o i n
  | SrcRechunk b oc nc => CSrcRechunk (content_of b) oc nc
  | Blockwise _ f oi dt adj na al cc kw _ ops => CBlockwise f oi dt adj na al cc kw (cargs_of ops)
  | Reduction c _ e ch ag ax kd dt se cb cc os w _ =>
      CReduction c (content_of e) ch ag ax kd dt se cb cc os (cargs_of w)
  | PartialReduce _ e f se kd dt _ => CPartialReduce (content_of e) f se kd dt
  | Rechunk e ch th bs ba me => CRechunk (content_of e) ch th bs ba me
  | TasksRechunk e ch th bs => CTasksRechunk (content_of e) ch th bs
  | Random _ dr _ di sz nch kw ops => CRandom dr di sz nch kw (cargs_of ops)
  (* the pin advertises the RAW root's array; that `opt` computes it is C01-C03's business *)
  | RootAlias _ raw => content_of raw
  end
with cargs_of (a : args) : cargs :=
  match a with
  | ANil => CNil
  | ALit z r => CLit z (cargs_of r)
  | AObj o r => CObj o (cargs_of r)
  | AChild e r => CChild (content_of e) (cargs_of r)
  end.

Definition same_content (e1 e2 : expr) : Prop := content_of e1 = content_of e2.

(* which tokenizer a class runs: `type(self)` is the first hashed element of the stock formula *)
Inductive clsid : Type :=
| KGen (c : Z) | KGenNC (c : Z) | KRed (c : Z) | KRechunk | KTasksRechunk | KRandom (c : Z) | KRootAlias.

(* Finding C06-A (FIXED in /repo by `Random.__dask_tokenize__`): the stock token used to pickle the rng
   operand in its CURRENT state, and the injectivity proof forced the hypothesis "rng tokenised in the state
   its own draw left it in".  The token is now H(type, _name) and no hypothesis on Random nodes is needed
   for C06.  What remains is only relevant to a pickle round trip WITHOUT the cached `_info`
   (C07_reduce_roundtrip_recomputed): recomputing `_info` re-draws from the rng in its current state. *)
Fixpoint rng_unmoved (e : expr) : Prop :=
  match e with
  | Gen _ _ ops => args_unmoved ops
  | GenNC _ _ e ops => rng_unmoved e /\ args_unmoved ops
  | SliceExtract b _ => rng_unmoved b
  | SrcRegion b _ _ _ => rng_unmoved b
  | SrcRechunk b _ _ => rng_unmoved b
  | Blockwise _ _ _ _ _ _ _ _ _ _ ops => args_unmoved ops
  | Reduction _ _ e _ _ _ _ _ _ _ _ _ w _ => rng_unmoved e /\ args_unmoved w
  | PartialReduce _ e _ _ _ _ _ => rng_unmoved e
  | Rechunk e _ _ _ _ _ => rng_unmoved e
  | TasksRechunk e _ _ _ => rng_unmoved e
  | Random _ dr now _ _ _ _ ops => now = dr /\ args_unmoved ops
  | RootAlias o r => rng_unmoved o /\ rng_unmoved r
  end
with args_unmoved (a : args) : Prop :=
  match a with
  | ANil => True
  | ALit _ r => args_unmoved r
  | AObj _ r => args_unmoved r
  | AChild e r => rng_unmoved e /\ args_unmoved r
  end.

(* no operand is tokenised by object identity *)
Fixpoint obj_free (e : expr) : Prop :=
  match e with
  | Gen _ _ ops => args_obj_free ops
  | GenNC _ _ e ops => obj_free e /\ args_obj_free ops
  | SliceExtract b _ => obj_free b
  | SrcRegion b _ _ _ => obj_free b
  | SrcRechunk b _ _ => obj_free b
  | Blockwise _ _ _ _ _ _ _ _ _ _ ops => args_obj_free ops
  | Reduction _ _ e _ _ _ _ _ _ _ _ _ w _ => obj_free e /\ args_obj_free w
  | PartialReduce _ e _ _ _ _ _ => obj_free e
  | Rechunk e _ _ _ _ _ => obj_free e
  | TasksRechunk e _ _ _ => obj_free e
  | Random _ _ _ _ _ _ _ ops => args_obj_free ops
  | RootAlias o r => obj_free o /\ obj_free r
  end
with args_obj_free (a : args) : Prop :=
  match a with
  | ANil => True
  | ALit _ r => args_obj_free r
  | AObj _ _ => False
  | AChild e r => obj_free e /\ args_obj_free r
  end.

(* ------------------------------------------------------------------------------------------------ *)
Section Naming.
  Variable hash : Type.

  (* `deterministic_token` values and `_name` strings, by construction *)
  Inductive token : Type :=
  | TkHash (h : hash)                  (* a 32-hex md5 from _tokenize_deterministic *)
  | TkExact (n : name)                 (* FromArray exact: (type(self), _name_override) *)
  | TkExtract (n : name) (pat : Z)     (* f"{new_io._name}-extract-{pat}" *)
  with name : Type :=
  | NmPref (p : Z) (t : token)         (* f"{prefix}-{token}" *)
  | NmRegion (b : name) (h : hash)     (* f"{base}-getitem-{h}" *)
  | NmRechunkIO (b : name) (h : hash)  (* f"{base}-rechunk-{h}" *)
  | NmRc1 (h : hash)                   (* "rechunk-merge-rc1" + h *)
  | NmRandom (dist : Z) (h : hash).    (* f"{distribution}-{h}" *)

  (* elements of a hashed tuple *)
  Inductive harg : Type :=
  | HCls (c : clsid)
  | HLit (z : Z)
  | HObj (a : Z)          (* (type(v), id(v)) *)
  | HTok (t : token)
  | HName (n : name)
  | HHash (h : hash).

  Variable H : list harg -> hash.     (* dask.tokenize._tokenize_deterministic *)
  Variable Hp : list harg -> hash.    (* hash_buffer_hex(pickle.dumps(., protocol=5)) *)
  Variable addr : Z -> Z.             (* id() of an untokenizable operand in THIS process *)
  Variable pfx_getitem : Z.           (* the atom of the string "getitem" *)

  (* Blockwise.__dask_tokenize__ : (func, out_ind, self.dtype, adjust_chunks, new_axes, align_arrays,
     concatenate, *args_token, **kwargs_token) — no type(self), no name/token, no _meta_provided.
     (kwargs are hashed after the args in Python; the position is immaterial here.) *)
  Definition blockwise_token (f oi dt adj na al cc kw : Z) (hs : list harg) : token :=
    TkHash (H (HLit f :: HLit oi :: HLit dt :: HLit adj :: HLit na :: HLit al :: HLit cc :: HLit kw :: hs)).

  (* Reduction.__dask_tokenize__ : (type(self), chunk, aggregate, array, axis, keepdims,
     operand("dtype"), split_every, combine, concatenate, output_size, weights) *)
  Definition reduction_token (c : Z) (t : token) (ch ag ax kd dt se cb cc os : Z) (ws : list harg) : token :=
    TkHash (H (HCls (KRed c) :: HLit ch :: HLit ag :: HTok t :: HLit ax :: HLit kd :: HLit dt :: HLit se ::
               HLit cb :: HLit cc :: HLit os :: ws)).

  (* PartialReduce.__dask_tokenize__ : (func, array, split_every, keepdims, self.dtype) *)
  Definition partial_token (t : token) (f se kd dt : Z) : token :=
    TkHash (H [HLit f; HTok t; HLit se; HLit kd; HLit dt]).

  (* Expr.__dask_tokenize__ : (type(self), *operands) *)
  Definition stock_token (k : clsid) (hs : list harg) : token := TkHash (H (HCls k :: hs)).

  (* Random._info : tokenize(tokenize(bitgens), size, chunks, args, kwargs); bitgens are drawn from the
     rng in its state `rng_draw` *)
  Definition random_name (dr di sz nch kw : Z) (hs : list harg) : name :=
    NmRandom di (H (HHash (H [HLit dr]) :: HLit sz :: HLit nch :: HLit kw :: hs)).

  Fixpoint token_of (e : expr) : token :=
    match e with
    | Gen c _ ops => stock_token (KGen c) (hargs ops)
    | GenNC c _ e ops => stock_token (KGenNC c) (HTok (token_of e) :: hargs ops)
    | SliceExtract b pat => TkExtract (name_of b) pat
    | SrcRegion b o i n => TkExact (NmRegion (name_of b) (H [HLit o; HLit i; HLit n]))
    | SrcRechunk b oc nc => TkExact (NmRechunkIO (name_of b) (H [HLit oc; HLit nc]))
    | Blockwise _ f oi dt adj na al cc kw _ ops => blockwise_token f oi dt adj na al cc kw (hargs ops)
    | Reduction c _ e ch ag ax kd dt se cb cc os w _ =>
        reduction_token c (token_of e) ch ag ax kd dt se cb cc os (hargs w)
    | PartialReduce _ e f se kd dt _ => partial_token (token_of e) f se kd dt
    (* Rechunk / TasksRechunk have no tokenizer of their own: parents see the stock token *)
    | Rechunk e ch th bs ba me =>
        stock_token KRechunk [HTok (token_of e); HLit ch; HLit th; HLit bs; HLit ba; HLit me]
    | TasksRechunk e ch th bs => stock_token KTasksRechunk [HTok (token_of e); HLit ch; HLit th; HLit bs]
    (* Random.__dask_tokenize__ : _tokenize_deterministic(type(self), self._name) — the realization, not the
       mutable generator (repair of finding C06-A) *)
    | Random c dr _ di sz nch kw ops => stock_token (KRandom c) [HName (random_name dr di sz nch kw (hargs ops))]
    | RootAlias o r => stock_token KRootAlias [HTok (token_of o); HName (name_of r)]
    end
  with name_of (e : expr) : name :=
    match e with
    | Gen c p ops => NmPref p (stock_token (KGen c) (hargs ops))
    | GenNC _ p e ops => NmPref p (TkHash (H (HTok (token_of e) :: hargs ops)))
    | SliceExtract b pat => NmPref pfx_getitem (TkExtract (name_of b) pat)
    | SrcRegion b o i n => NmRegion (name_of b) (H [HLit o; HLit i; HLit n])
    | SrcRechunk b oc nc => NmRechunkIO (name_of b) (H [HLit oc; HLit nc])
    | Blockwise p f oi dt adj na al cc kw _ ops => NmPref p (blockwise_token f oi dt adj na al cc kw (hargs ops))
    | Reduction c p e ch ag ax kd dt se cb cc os w _ =>
        NmPref p (reduction_token c (token_of e) ch ag ax kd dt se cb cc os (hargs w))
    | PartialReduce p e f se kd dt _ => NmPref p (partial_token (token_of e) f se kd dt)
    (* the child is referenced by its cached _name STRING *)
    | Rechunk e ch th bs ba me => NmRc1 (Hp [HName (name_of e); HLit ch; HLit th; HLit bs; HLit ba; HLit me])
    | TasksRechunk e ch th bs => NmRc1 (Hp [HName (name_of e); HLit ch; HLit th; HLit bs])
    | Random _ dr _ di sz nch kw ops => random_name dr di sz nch kw (hargs ops)
    | RootAlias _ r => name_of r
    end
  with hargs (a : args) : list harg :=
    match a with
    | ANil => []
    | ALit z r => HLit z :: hargs r
    | AObj o r => HObj (addr o) :: hargs r
    | AChild e r => HTok (token_of e) :: hargs r
    end.

  (* ---------------------------------------------------------------------------------------------- *)
  (* Name-keyed stores: SingletonExpr._instances, _LOWER_CACHE (lower_once's `lowered` dict), and the
     merged task graph (keys (name, i...)).  A store remembers, per name, the meaning of the expression
     it was FIRST filled from (what a later hit hands back). *)
  Variable name_eqb : name -> name -> bool.

  Definition store := list (name * content).

  Fixpoint lookup (n : name) (s : store) : option content :=
    match s with
    | [] => None
    | (m, c) :: r => if name_eqb n m then Some c else lookup n r
    end.

  Fixpoint remove (n : name) (s : store) : store :=
    match s with
    | [] => []
    | (m, c) :: r => if name_eqb n m then remove n r else (m, c) :: remove n r
    end.

  (* d.setdefault(name, value) *)
  Definition setdefault (n : name) (c : content) (s : store) : store :=
    match lookup n s with Some _ => s | None => (n, c) :: s end.

  (* RootAlias (non-trivial __init__, lower_once returns self) and exact-named FromArray
     (Expr.__new__ directly, lower_once returns self) never enter the registry or the lowering cache *)
  Definition opts_out (e : expr) : bool :=
    match e with RootAlias _ _ | SrcRegion _ _ _ _ | SrcRechunk _ _ _ => true | _ => false end.

  (* every node of a tree, root first (Expr.walk) *)
  Fixpoint walk (e : expr) : list expr :=
    e :: match e with
         | Gen _ _ ops => walk_args ops
         | GenNC _ _ e ops => walk e ++ walk_args ops
         | SliceExtract b _ => walk b
         | SrcRegion b _ _ _ => []        (* the base is not an operand of the exact node *)
         | SrcRechunk b _ _ => []
         | Blockwise _ _ _ _ _ _ _ _ _ _ ops => walk_args ops
         | Reduction _ _ e _ _ _ _ _ _ _ _ _ w _ => walk e ++ walk_args w
         | PartialReduce _ e _ _ _ _ _ => walk e
         | Rechunk e _ _ _ _ _ => walk e
         | TasksRechunk e _ _ _ => walk e
         | Random _ _ _ _ _ _ _ ops => walk_args ops
         | RootAlias o _ => walk o        (* the raw tree is not an operand, only its name *)
         end
  with walk_args (a : args) : list expr :=
    match a with
    | ANil => []
    | ALit _ r => walk_args r
    | AObj _ r => walk_args r
    | AChild e r => walk e ++ walk_args r
    end.

  Record state := mkstate { registry : store; lowered : store; graph : store }.

  Definition empty_state := mkstate [] [] [].

  Inductive cache_op : Type :=
  | Build (e : expr)     (* SingletonExpr.__new__ *)
  | Lower (e : expr)     (* Expr.lower_once(..., _LOWER_CACHE): lowered.setdefault(self._name, out) *)
  | Merge (e : expr)     (* the layers of every node of e are merged into one graph (dict update) *)
  | Drop (n : name).     (* a weak reference died *)

  Definition step (st : state) (o : cache_op) : state :=
    match o with
    | Build e => if opts_out e then st
                 else mkstate (setdefault (name_of e) (content_of e) (registry st)) (lowered st) (graph st)
    | Lower e => if opts_out e then st
                 else mkstate (registry st) (setdefault (name_of e) (content_of e) (lowered st)) (graph st)
    | Merge e => mkstate (registry st) (lowered st)
                         (fold_left (fun g x => (name_of x, content_of x) :: g) (walk e) (graph st))
    | Drop n => mkstate (remove n (registry st)) (remove n (lowered st)) (graph st)
    end.

  Definition run (ops : list cache_op) : state := fold_left step ops empty_state.

  (* every entry n |-> c : c is the meaning of ANY expression named n *)
  Definition store_ok (s : store) : Prop :=
    forall n c, In (n, c) s -> forall e, name_of e = n -> content_of e = c.

  Definition state_ok (st : state) : Prop :=
    store_ok (registry st) /\ store_ok (lowered st) /\ store_ok (graph st).

  (* ---------------------------------------------------------------------------------------------- *)
  (* Pickle round trip.  ArrayExpr.__reduce__ ships (type, *operands, deterministic_token, cache) where
     cache holds the populated cached_property values (`_name` is one for every class that defines it
     with cached_property; Rechunk._name and Random._name are plain properties, but Random._info — which
     holds the name — is cached).  Expr._reconstruct calls typ( *operands, _determ_token=token) and then
     restores the cache.  The receiving process may tokenize differently (H'), operands are
     reconstructed recursively. *)
  Variable H' : list harg -> hash.      (* the tokenizer of the RECEIVING process *)
  Variable carry_cache : bool.          (* type(self)._pickle_functools_cache *)

  (* `_determ_token` after the round trip: always the carried one *)
  Definition rt_token (e : expr) : token := token_of e.

  (* `_name` after the round trip *)
  Fixpoint rt_name (e : expr) : name :=
    match e with
    (* cached_property _name: restored from the cache, else recomputed from the CARRIED token *)
    | Gen c p ops => if carry_cache then name_of e else NmPref p (rt_token e)
    (* recomputed from the operands with the RECEIVING tokenizer when not cached *)
    | GenNC _ p x ops => if carry_cache then name_of e else NmPref p (TkHash (H' (HTok (token_of x) :: hargs ops)))
    | SliceExtract b pat => if carry_cache then name_of e else NmPref pfx_getitem (rt_token e)
    | Blockwise p _ _ _ _ _ _ _ _ _ _ => if carry_cache then name_of e else NmPref p (rt_token e)
    | Reduction _ p _ _ _ _ _ _ _ _ _ _ _ _ => if carry_cache then name_of e else NmPref p (rt_token e)
    | PartialReduce p _ _ _ _ _ _ => if carry_cache then name_of e else NmPref p (rt_token e)
    (* exact names are OPERANDS (_name_override): shipped verbatim *)
    | SrcRegion _ _ _ _ => name_of e
    | SrcRechunk _ _ _ => name_of e
    (* plain property: recomputed from the reconstructed child's _name with the process-independent Hp *)
    | Rechunk x ch th bs ba me => NmRc1 (Hp [HName (rt_name x); HLit ch; HLit th; HLit bs; HLit ba; HLit me])
    | TasksRechunk x ch th bs => NmRc1 (Hp [HName (rt_name x); HLit ch; HLit th; HLit bs])
    (* _info is a cached_property; without the cache it is recomputed with the receiving process'
       tokenizer from the rng in the state it was PICKLED in (`rng_now`) *)
    | Random _ dr now di sz nch kw ops =>
        if carry_cache then name_of e
        else NmRandom di (H' (HHash (H' [HLit now]) :: HLit sz :: HLit nch :: HLit kw :: hargs ops))
    (* operand("name") is shipped verbatim *)
    | RootAlias _ r => name_of r
    end.

End Naming.

Arguments TkHash {hash}. Arguments TkExact {hash}. Arguments TkExtract {hash}.
Arguments NmPref {hash}. Arguments NmRegion {hash}. Arguments NmRechunkIO {hash}.
Arguments NmRc1 {hash}. Arguments NmRandom {hash}.
Arguments HCls {hash}. Arguments HLit {hash}. Arguments HObj {hash}. Arguments HTok {hash}.
Arguments HName {hash}. Arguments HHash {hash}.

(* what ArrayExpr.__reduce__ ships besides (type, operands, token): 0 = the cached `_name`
   (functools.cached_property, always populated by Expr.__new__), 1 = no name but the cached `_info` that
   holds it (Random), 2 = nothing: `_name` is a plain property and is recomputed (Rechunk, TasksRechunk).
   This is the classification `rt_name` is built on; the harness compares it with the real cache dict. *)
Definition reduce_carries (e : expr) : Z :=
  match e with
  | Rechunk _ _ _ _ _ _ | TasksRechunk _ _ _ _ => 2
  | Random _ _ _ _ _ _ _ _ => 1
  | _ => 0
  end.

(* ------------------------------------------------------------------------------------------------ *)
(* An EXECUTABLE instance for the correspondence harness: hashes are length-prefixed serialisations. *)
Fixpoint ser_token (t : token (list Z)) : list Z :=
  match t with
  | TkHash h => 1 :: Z.of_nat (length h) :: h
  | TkExact n => 2 :: ser_name n
  | TkExtract n p => 3 :: p :: ser_name n
  end
with ser_name (n : name (list Z)) : list Z :=
  match n with
  | NmPref p t => 4 :: p :: ser_token t
  | NmRegion b h => 5 :: Z.of_nat (length h) :: h ++ ser_name b
  | NmRechunkIO b h => 6 :: Z.of_nat (length h) :: h ++ ser_name b
  | NmRc1 h => 7 :: Z.of_nat (length h) :: h
  | NmRandom d h => 8 :: d :: Z.of_nat (length h) :: h
  end.

Definition ser_cls (c : clsid) : list Z :=
  match c with
  | KGen c => [20; c] | KGenNC c => [26; c] | KRed c => [21; c] | KRechunk => [22; 0] | KTasksRechunk => [23; 0]
  | KRandom c => [24; c] | KRootAlias => [25; 0]
  end.

Definition ser_harg (a : harg (list Z)) : list Z :=
  match a with
  | HCls c => 10 :: ser_cls c
  | HLit z => [11; z]
  | HObj z => [12; z]
  | HTok t => let s := ser_token t in 13 :: Z.of_nat (length s) :: s
  | HName n => let s := ser_name n in 14 :: Z.of_nat (length s) :: s
  | HHash h => 15 :: Z.of_nat (length h) :: h
  end.

Definition Hx (tag : Z) (l : list (harg (list Z))) : list Z :=
  tag :: Z.of_nat (length l) :: flat_map ser_harg l.

Definition xname (e : expr) : list Z := ser_name (name_of (list Z) (Hx 100) (Hx 101) (fun o => o) 0 e).
Definition xtoken (e : expr) : list Z := ser_token (token_of (list Z) (Hx 100) (Hx 101) (fun o => o) 0 e).

Fixpoint zlist_eqb (a b : list Z) : bool :=
  match a, b with
  | [], [] => true
  | x :: a', y :: b' => (x =? y) && zlist_eqb a' b'
  | _, _ => false
  end.

(* the equality pattern of model names / tokens over a list of reified nodes must be the one of the real
   `_name` / `deterministic_token` strings (given as interned ids) *)
Fixpoint pattern_row (x : list Z * list Z * Z * Z) (l : list (list Z * list Z * Z * Z)) : bool :=
  match l with
  | [] => true
  | y :: r =>
      let '(n1, t1, rn1, rt1) := x in
      let '(n2, t2, rn2, rt2) := y in
      Bool.eqb (zlist_eqb n1 n2) (rn1 =? rn2) && Bool.eqb (zlist_eqb t1 t2) (rt1 =? rt2) && pattern_row x r
  end.

Fixpoint pattern_ok (l : list (list Z * list Z * Z * Z)) : bool :=
  match l with
  | [] => true
  | x :: r => pattern_row x r && pattern_ok r
  end.

Definition names_pattern_ok (nodes : list (expr * Z * Z)) : bool :=
  pattern_ok (map (fun '(e, rn, rt) => (xname e, xtoken e, rn, rt)) nodes).

(* C07 correspondence: per reified node (expr, observed kind of the real __reduce__ cache, real name id before,
   real name id after a pickle round trip, real token id before, after): the model's classification is the
   observed one, the model's round-tripped name (receiving tokenizer with a DIFFERENT tag) is the model's
   name, and the real ids did not move *)
Definition roundtrip_ok (x : expr * Z * (Z * Z) * (Z * Z)) : bool :=
  let '(e, kind, (n0, n1), (t0, t1)) := x in
  (reduce_carries e =? kind) && (n0 =? n1) && (t0 =? t1) &&
  zlist_eqb (ser_name (rt_name (list Z) (Hx 100) (Hx 101) (fun o => o) 0 (Hx 999) true e)) (xname e).
