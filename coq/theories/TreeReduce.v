(* C18 — tree reductions.  DEFINITIONS ONLY (proofs: TreeReduceFacts.v, TreeReduceND.v,
   TreeReduceInst.v).  Transcriptions of
     /repo/dask_array/reductions/_reduction.py   (_normalize_split_every, _build_tree_reduce_expr,
                                                  PartialReduce.chunks / ._layer, Reduction.chunks,
                                                  _accept_slice_impl)
     /repo/dask_array/reductions/_common.py      (chunk/combine/aggregate triples, _arg_combine, arg_chunk)
     /repo/dask_array/reductions/_arg_reduction.py (ArgChunk offsets)
     tlz.partition_all, itertools.product, dask.blockwise.lol_tuples.
   Float-derived choices (int(split_every ** (1/len(axis))), ceil(log(n, k))) are ORACLE arguments. *)
From DA Require Import PyBase.
From Coq Require Import Permutation.
Open Scope Z_scope.

(* ------------------------------------------------------------------ *)
(* small Python-isms                                                   *)

Definition zrange0 (n : Z) : list Z := zrange 0 n 1.          (* list(range(n)) *)

Fixpoint enumerate_from {A} (i : Z) (l : list A) : list (Z * A) :=
  match l with [] => [] | x :: t => (i, x) :: enumerate_from (i + 1) t end.
Definition enumerate {A} (l : list A) : list (Z * A) := enumerate_from 0 l.

Fixpoint map2 {A B C} (f : A -> B -> C) (la : list A) (lb : list B) : list C :=
  match la, lb with a :: ta, b :: tb => f a b :: map2 f ta tb | _, _ => [] end.

(* itertools.product over ls: row-major, last factor fastest *)
Fixpoint cprod {A} (ls : list (list A)) : list (list A) :=
  match ls with
  | [] => [[]]
  | l :: t => flat_map (fun a => map (cons a) (cprod t)) l
  end.

(* a dict {int: int} as an association list with distinct keys, in insertion order *)
Definition dict_find (d : list (Z * Z)) (k : Z) : option Z :=
  match find (fun kv => fst kv =? k) d with Some kv => Some (snd kv) | None => None end.
Definition dict_get (d : list (Z * Z)) (k dflt : Z) : Z :=
  match dict_find d k with Some v => v | None => dflt end.
Definition dict_mem (d : list (Z * Z)) (k : Z) : bool :=
  match dict_find d k with Some _ => true | None => false end.

(* tlz.partition_all(k, seq): consecutive groups of k, the last one shorter.  k >= 1. *)
Fixpoint partition_all_fuel {A} (fuel : nat) (k : nat) (l : list A) : list (list A) :=
  match fuel with
  | O => []
  | S f => match l with
           | [] => []
           | _ :: _ => firstn k l :: partition_all_fuel f k (skipn k l)
           end
  end.
Definition partition_all {A} (k : Z) (l : list A) : list (list A) :=
  partition_all_fuel (length l) (Z.to_nat k) l.

(* number of groups: ceil(n / k) *)
Definition cdiv (n k : Z) : Z := (n + k - 1) / k.

(* ------------------------------------------------------------------ *)
(* _normalize_split_every(split_every, axis)                           *)

Inductive se_arg := SEnone | SEint (n : Z) | SEdict (d : list (Z * Z)).

(* Python truthiness of the argument in `split_every or config.get("split_every", 16)` *)
Definition se_truthy (s : se_arg) : bool :=
  match s with SEnone => false | SEint n => negb (n =? 0) | SEdict d => match d with [] => false | _ => true end end.

(* `root` is the oracle for int(split_every ** (1 / (len(axis) or 1))) (a float power).
   None = ValueError("split_every must be a int or a dict"). *)
Definition normalize_split_every (cfg : se_arg) (root : Z) (se : se_arg) (axis : list Z) : option (list (Z * Z)) :=
  let se' := if se_truthy se then se else cfg in
  match se' with
  | SEdict d => Some (map (fun k => (k, dict_get d k 2)) axis)
  | SEint _ => let n := Z.max root 2 in Some (map (fun k => (k, n)) axis)
  | SEnone => None
  end.

(* specification of the exact integer root: root^len <= n < (root+1)^len *)
Definition root_exact (n len root : Z) : bool :=
  (0 <=? root) && (root ^ len <=? n) && (n <? (root + 1) ^ len).

(* ------------------------------------------------------------------ *)
(* _build_tree_reduce_expr: depth                                      *)

(* the exact value of ceil(log_k(n)) for k >= 2: least d >= 0 with k^d >= n *)
Fixpoint ceil_log_fuel (fuel : nat) (k n acc d : Z) : Z :=
  match fuel with
  | O => d
  | S f => if n <=? acc then d else ceil_log_fuel f k n (acc * k) (d + 1)
  end.
Definition ceil_log (k n : Z) : Z := ceil_log_fuel (S (Z.to_nat (Z.log2_up n))) k n 1 0.

(* depth = 1
   for i, n in enumerate(x.numblocks):
       if i in split_every and split_every[i] != 1:
           depth = int(max(depth, math.ceil(math.log(n, split_every[i]))))
   `logs` are the oracle values of math.ceil(math.log(n, k)), one per qualifying axis, in order.
   None = oracle list exhausted (never happens when the harness records it). *)
Fixpoint tree_depth_from (i : Z) (numblocks : list Z) (se : list (Z * Z)) (logs : list Z) (depth : Z) : option Z :=
  match numblocks with
  | [] => Some depth
  | n :: t =>
      match dict_find se i with
      | Some k =>
          if k =? 1 then tree_depth_from (i + 1) t se logs depth
          else match logs with
               | [] => None
               | c :: logs' => tree_depth_from (i + 1) t se logs' (Z.max depth c)
               end
      | None => tree_depth_from (i + 1) t se logs depth
      end
  end.
Definition tree_depth (numblocks : list Z) (se : list (Z * Z)) (logs : list Z) : option Z :=
  tree_depth_from 0 numblocks se logs 1.

(* the exact oracle *)
Fixpoint exact_logs_from (i : Z) (numblocks : list Z) (se : list (Z * Z)) : list Z :=
  match numblocks with
  | [] => []
  | n :: t =>
      match dict_find se i with
      | Some k => if k =? 1 then exact_logs_from (i + 1) t se else ceil_log k n :: exact_logs_from (i + 1) t se
      | None => exact_logs_from (i + 1) t se
      end
  end.
Definition exact_logs numblocks se := exact_logs_from 0 numblocks se.

(* checked precondition on the oracle: each value c satisfies k^c >= n (so c levels suffice) *)
Fixpoint logs_ok_from (i : Z) (numblocks : list Z) (se : list (Z * Z)) (logs : list Z) : bool :=
  match numblocks with
  | [] => true
  | n :: t =>
      match dict_find se i with
      | Some k =>
          if k =? 1 then logs_ok_from (i + 1) t se logs
          else match logs with
               | [] => false
               | c :: logs' => (0 <=? c) && (n <=? k ^ c) && logs_ok_from (i + 1) t se logs'
               end
      | None => logs_ok_from (i + 1) t se logs
      end
  end.
Definition logs_ok numblocks se logs := logs_ok_from 0 numblocks se logs.

(* ------------------------------------------------------------------ *)
(* Reduction.chunks, the per-chunk Blockwise step, PartialReduce.chunks *)

(* Reduction.chunks (the logical node) *)
Definition reduction_chunks (chunks : list (list Z)) (axis : list Z) (keepdims : bool) (output_size : Z) : list (list Z) :=
  if keepdims
  then map (fun ic => if existsb (Z.eqb (fst ic)) axis then [output_size] else snd ic) (enumerate chunks)
  else map snd (filter (fun ic => negb (existsb (Z.eqb (fst ic)) axis)) (enumerate chunks)).

(* chunks of blockwise(chunk_func, ..., adjust_chunks={i: output_size for i in axis}) *)
Definition chunk_step_chunks (chunks : list (list Z)) (axis : list Z) (output_size : Z) : list (list Z) :=
  map (fun ic => if existsb (Z.eqb (fst ic)) axis then map (fun _ => output_size) (snd ic) else snd ic) (enumerate chunks).

(* PartialReduce.chunks *)
Definition pr_chunks (chunks : list (list Z)) (se : list (Z * Z)) (keepdims : bool) : list (list Z) :=
  let cs := map (fun ic => match dict_find se (fst ic) with
                           | Some k => map (fun _ => 1) (partition_all k (snd ic))
                           | None => snd ic
                           end) (enumerate chunks) in
  if keepdims then cs
  else map snd (filter (fun ic => negb (dict_mem se (fst ic))) (enumerate cs)).

(* chunks of the chain of PartialReduce nodes built by _build_tree_reduce_expr
   (depth-1 intermediate nodes with keepdims=True, then the aggregate node), innermost first *)
Fixpoint pr_chain_chunks (d : nat) (chunks : list (list Z)) (se : list (Z * Z)) (keepdims : bool) : list (list (list Z)) :=
  match d with
  | O => [pr_chunks chunks se keepdims]
  | S d' => let c := pr_chunks chunks se true in c :: pr_chain_chunks d' c se keepdims
  end.
Definition build_tree_chunks (chunks : list (list Z)) (se : list (Z * Z)) (keepdims : bool) (depth : Z) : list (list (list Z)) :=
  pr_chain_chunks (Z.to_nat (depth - 1)) chunks se keepdims.

(* ------------------------------------------------------------------ *)
(* PartialReduce._layer                                                *)

(* dask.blockwise.lol_tuples result: a key or a (nested) list *)
Inductive lol := LKey (k : list Z) | LList (l : list lol).

(* lol_tuples(head, ind, values, dummies): axes = [(is_dummy, indices of the group)] *)
Fixpoint lol_tuples (head : list Z) (axes : list (bool * list Z)) : lol :=
  match axes with
  | [] => LKey head
  | (dummy, js) :: t =>
      if dummy then LList (map (fun j => lol_tuples (head ++ [j]) t) js)
      else lol_tuples (head ++ [hd 0 js]) t
  end.

Fixpoint lol_flatten (t : lol) : list (list Z) :=
  match t with LKey k => [k] | LList l => flat_map lol_flatten l end.

Fixpoint lol_eqb (a b : lol) : bool :=
  match a, b with
  | LKey x, LKey y => zlist_eqb x y
  | LList x, LList y =>
      (fix go (x y : list lol) : bool :=
         match x, y with
         | [], [] => true
         | u :: x', v :: y' => lol_eqb u v && go x' y'
         | _, _ => false
         end) x y
  | _, _ => false
  end.

(* per-axis fan-in used by _layer: split_every.get(i, 1) *)
Definition se_ks (se : list (Z * Z)) (ndim : nat) : list Z :=
  map (fun i => dict_get se i 1) (zrange0 (Z.of_nat ndim)).

(* parts = [list(partition_all(split_every.get(i, 1), range(n))) for i, n in enumerate(numblocks)] *)
Definition nd_parts (ks nb : list Z) : list (list (list Z)) :=
  map2 (fun k n => partition_all k (zrange0 n)) ks nb.

(* numblocks of the output of one level *)
Definition nd_numblocks (ks nb : list Z) : list Z :=
  map (fun p => Z.of_nat (length p)) (nd_parts ks nb).

(* get(out_axis, k): drop the axes that are keys of split_every *)
Definition drop_axes (se : list (Z * Z)) {A} (key : list A) : list A :=
  map snd (filter (fun ia => negb (dict_mem se (fst ia))) (enumerate key)).

(* the (key, task-argument) items in generation order *)
Definition pr_layer_items (nb : list Z) (se : list (Z * Z)) (keepdims : bool) : list (list Z * lol) :=
  let parts := nd_parts (se_ks se (length nb)) nb in
  let keys := cprod (map (fun p => zrange0 (Z.of_nat (length p))) parts) in
  let keys' := if keepdims then keys else map (drop_axes se) keys in
  let flags := map (fun i => dict_mem se i) (zrange0 (Z.of_nat (length nb))) in
  combine keys' (map (fun p => lol_tuples [] (combine flags p)) (cprod parts)).

(* dsk[key] = value for each item: a later item with the same key replaces the value
   (the key keeps its first insertion position) *)
Fixpoint dict_set {V} (d : list (list Z * V)) (k : list Z) (v : V) : list (list Z * V) :=
  match d with
  | [] => [(k, v)]
  | (k', v') :: t => if zlist_eqb k k' then (k', v) :: t else (k', v') :: dict_set t k v
  end.
Definition dict_of_items {V} (items : list (list Z * V)) : list (list Z * V) :=
  fold_left (fun d kv => dict_set d (fst kv) (snd kv)) items [].

Definition pr_layer (nb : list Z) (se : list (Z * Z)) (keepdims : bool) : list (list Z * lol) :=
  dict_of_items (pr_layer_items nb se keepdims).

Definition layer_eqb (a b : list (list Z * lol)) : bool :=
  list_eqb (fun x y => zlist_eqb (fst x) (fst y) && lol_eqb (snd x) (snd y)) a b.

(* ------------------------------------------------------------------ *)
(* abstract tree evaluation                                            *)

(* a chunk / combine / aggregate triple: B = a block of the input, S = the per-block summary
   that travels through the tree, R = the result of one output block *)
Record reduction (B S R : Type) := mkred {
  r_chunk : B -> S;
  r_combine : list S -> S;
  r_agg : list S -> R
}.
Arguments mkred {B S R}.
Arguments r_chunk {B S R}.
Arguments r_combine {B S R}.
Arguments r_agg {B S R}.

(* one PartialReduce along a single axis: each group of k consecutive blocks feeds one output block *)
Definition tree_level {S T} (f : list S -> T) (k : Z) (l : list S) : list T :=
  map f (partition_all k l).

Fixpoint tree_iter {S} (f : list S -> S) (k : Z) (d : nat) (l : list S) : list S :=
  match d with O => l | S d' => tree_iter f k d' (tree_level f k l) end.

(* 1-D: Blockwise(chunk), depth-1 combine levels, one aggregate level; one R per output block *)
Definition tree_reduce_1d {B S R} (r : reduction B S R) (k depth : Z) (blocks : list B) : list R :=
  tree_level (r_agg r) k (tree_iter (r_combine r) k (Z.to_nat (depth - 1)) (map (r_chunk r) blocks)).

(* keepdims=False drops the reduced axis from the output key, so all output blocks of the
   aggregate layer share the key () and the last one written survives in the dict *)
Definition dict_last {R} (outs : list R) : list R :=
  match rev outs with [] => [] | x :: _ => [x] end.

(* N-D: a grid of blocks is a function from block keys to values *)
Definition nd_group (parts : list (list (list Z))) (key : list Z) : list (list Z) :=
  map2 (fun p j => nth (Z.to_nat j) p []) parts key.

Definition nd_level {S T} (comb : list S -> T) (ks nb : list Z) (f : list Z -> S) : list Z -> T :=
  fun key => comb (map f (cprod (nd_group (nd_parts ks nb) key))).

Fixpoint nd_iter {S} (comb : list S -> S) (ks : list Z) (d : nat) (nb : list Z) (f : list Z -> S)
  : list Z * (list Z -> S) :=
  match d with
  | O => (nb, f)
  | S d' => nd_iter comb ks d' (nd_numblocks ks nb) (nd_level comb ks nb f)
  end.

Definition nd_keys (nb : list Z) : list (list Z) := cprod (map zrange0 nb).

(* all (output key, value) pairs of the aggregate layer (keepdims=True keys) *)
Definition nd_tree_reduce {B S R} (r : reduction B S R) (ks : list Z) (depth : Z) (nb : list Z)
           (blocks : list Z -> B) : list (list Z * R) :=
  let '(nb', f') := nd_iter (r_combine r) ks (Z.to_nat (depth - 1)) nb (fun key => r_chunk r (blocks key)) in
  map (fun key => (key, nd_level (r_agg r) ks nb' f' key)) (nd_keys (nd_numblocks ks nb')).

(* precondition of the 1-D theorems: fan-in >= 2, at least one level, at least one block, and
   enough levels (k^depth >= number of blocks; C18_depth_reaches_one provides it) *)
Definition tree_ok (k depth : Z) {A} (blocks : list A) : Prop :=
  2 <= k /\ 1 <= depth /\ blocks <> [] /\ Z.of_nat (length blocks) <= k ^ depth.

(* monoid fold *)
Definition mfold {S} (op : S -> S -> S) (e : S) (l : list S) : S := fold_right op e l.

Definition monoid_laws {S} (op : S -> S -> S) (e : S) : Prop :=
  (forall a b c, op a (op b c) = op (op a b) c) /\ (forall a, op e a = a) /\ (forall a, op a e = a).
Definition commutative {S} (op : S -> S -> S) : Prop := forall a b, op a b = op b a.

(* the reduction is a list homomorphism: there is a view `phi` of a block as a list of data
   items and a summary `h` of raw data such that chunk = h o phi, combining summaries of
   pieces gives the summary of their concatenation, and aggregating gives `spec` of it *)
Definition hom_reduction {B D S R} (r : reduction B S R) (phi : B -> list D) (h : list D -> S)
           (spec : list D -> R) : Prop :=
  (forall b, r_chunk r b = h (phi b)) /\
  (forall ds, ds <> [] -> r_combine r (map h ds) = h (concat ds)) /\
  (forall ds, ds <> [] -> r_agg r (map h ds) = spec (concat ds)).

(* ------------------------------------------------------------------ *)
(* concrete triples over exact carriers (concatenate=True reductions travel as arrays that
   have length 1 along the reduced axis, or 0 for min/max of an empty block)            *)

Definition concat_reduction {D R} (fchunk fcomb : list D -> list D) (fagg : list D -> R)
  : reduction (list D) (list D) R :=
  mkred fchunk (fun l => fcomb (concat l)) (fun l => fagg (concat l)).

Fixpoint zprod (l : list Z) : Z := match l with [] => 1 | x :: t => x * zprod t end.

(* np.min / np.max of a 1-D array; None = ValueError (zero-size array) *)
Definition np_min (l : list Z) : option Z :=
  match l with [] => None | x :: t => Some (fold_left Z.min t x) end.
Definition np_max (l : list Z) : option Z :=
  match l with [] => None | x :: t => Some (fold_left Z.max t x) end.

(* chunk_min / chunk_max: "ignores size 0 arrays", keepdims=True *)
Definition chunk_min (l : list Z) : list Z := match np_min l with None => [] | Some m => [m] end.
Definition chunk_max (l : list Z) : list Z := match np_max l with None => [] | Some m => [m] end.

Definition nonzero (x : Z) : bool := negb (x =? 0).
Definition b2z (b : bool) : Z := if b then 1 else 0.

(* da.sum: chunk.sum, chunk.sum, chunk.sum *)
Definition red_sum : reduction (list Z) (list Z) Z :=
  concat_reduction (fun x => [zsum x]) (fun x => [zsum x]) zsum.
(* da.prod *)
Definition red_prod : reduction (list Z) (list Z) Z :=
  concat_reduction (fun x => [zprod x]) (fun x => [zprod x]) zprod.
(* da.min: chunk_min, combine=chunk_min, aggregate=chunk.min *)
Definition red_min : reduction (list Z) (list Z) (option Z) :=
  concat_reduction chunk_min chunk_min np_min.
Definition red_max : reduction (list Z) (list Z) (option Z) :=
  concat_reduction chunk_max chunk_max np_max.
(* da.any / da.all: np.any / np.all at every level (booleans as 0/1) *)
Definition red_any : reduction (list Z) (list Z) bool :=
  concat_reduction (fun x => [b2z (existsb nonzero x)]) (fun x => [b2z (existsb nonzero x)]) (existsb nonzero).
Definition red_all : reduction (list Z) (list Z) bool :=
  concat_reduction (fun x => [b2z (forallb nonzero x)]) (fun x => [b2z (forallb nonzero x)]) (forallb nonzero).
(* count_nonzero(a) = isnonzero(a).astype(intp).sum() : elementwise map, then da.sum *)
Definition count_nonzero_blocks (blocks : list (list Z)) : list (list Z) :=
  map (map (fun x => b2z (nonzero x))) blocks.

(* da.mean (concatenate=False): mean_chunk -> {"n", "total"}; mean_combine sums both;
   mean_agg divides.  The exact quotient total/n is returned as the pair (total, n). *)
Definition red_mean : reduction (list Z) (Z * Z) (Z * Z) :=
  mkred (fun x => (Z.of_nat (length x), zsum x))
        (fun pairs => (zsum (map fst pairs), zsum (map snd pairs)))
        (fun pairs => (zsum (map snd pairs), zsum (map fst pairs))).

(* ---- NaN-bearing data: None is NaN ---- *)
Definition fz := option Z.
Definition fadd (a b : fz) : fz := match a, b with Some x, Some y => Some (x + y) | _, _ => None end.
Definition fsum (l : list fz) : fz := fold_right fadd (Some 0) l.
Definition is_nan (a : fz) : bool := match a with None => true | Some _ => false end.
Definition drop_nan (l : list fz) : list Z := flat_map (fun a => match a with Some x => [x] | None => [] end) l.
(* np.nansum: NaN counts as 0 *)
Definition np_nansum (l : list fz) : fz := Some (zsum (drop_nan l)).
(* np.min / np.max propagate NaN; None (outer) = ValueError on empty *)
Definition fnp_min (l : list fz) : option fz :=
  match l with [] => None | _ => Some (if existsb is_nan l then None else np_min (drop_nan l)) end.
Definition fnp_max (l : list fz) : option fz :=
  match l with [] => None | _ => Some (if existsb is_nan l then None else np_max (drop_nan l)) end.
(* np.nanmin / np.nanmax: ignore NaN; an all-NaN array gives NaN (with a warning) *)
Definition fnp_nanmin (l : list fz) : option fz := match l with [] => None | _ => Some (np_min (drop_nan l)) end.
Definition fnp_nanmax (l : list fz) : option fz := match l with [] => None | _ => Some (np_max (drop_nan l)) end.
Definition opt_to_list {A} (o : option A) : list A := match o with None => [] | Some x => [x] end.

Definition red_fsum : reduction (list fz) (list fz) fz :=
  concat_reduction (fun x => [fsum x]) (fun x => [fsum x]) fsum.
(* da.nansum: chunk.nansum, then chunk.sum *)
Definition red_nansum : reduction (list fz) (list fz) fz :=
  concat_reduction (fun x => [np_nansum x]) (fun x => [fsum x]) fsum.
Definition red_fmin : reduction (list fz) (list fz) (option fz) :=
  concat_reduction (fun x => opt_to_list (fnp_min x)) (fun x => opt_to_list (fnp_min x)) fnp_min.
Definition red_fmax : reduction (list fz) (list fz) (option fz) :=
  concat_reduction (fun x => opt_to_list (fnp_max x)) (fun x => opt_to_list (fnp_max x)) fnp_max.
(* da.nanmin: _nanmin_skip at all three stages *)
Definition red_nanmin : reduction (list fz) (list fz) (option fz) :=
  concat_reduction (fun x => opt_to_list (fnp_nanmin x)) (fun x => opt_to_list (fnp_nanmin x)) fnp_nanmin.
Definition red_nanmax : reduction (list fz) (list fz) (option fz) :=
  concat_reduction (fun x => opt_to_list (fnp_nanmax x)) (fun x => opt_to_list (fnp_nanmax x)) fnp_nanmax.
(* da.mean on NaN-bearing data / da.nanmean: result (total, n) *)
Definition red_fmean : reduction (list fz) (Z * fz) (fz * Z) :=
  mkred (fun x => (Z.of_nat (length x), fsum x))
        (fun pairs => (zsum (map fst pairs), fsum (map snd pairs)))
        (fun pairs => (fsum (map snd pairs), zsum (map fst pairs))).
Definition red_nanmean : reduction (list fz) (Z * fz) (fz * Z) :=
  mkred (fun x => (Z.of_nat (length (drop_nan x)), np_nansum x))
        (fun pairs => (zsum (map fst pairs), fsum (map snd pairs)))
        (fun pairs => (fsum (map snd pairs), zsum (map fst pairs))).

(* ------------------------------------------------------------------ *)
(* arg reductions                                                      *)

(* np.argmax / np.argmin of a flat array: first occurrence.  `better x y` = x strictly
   beats y (x > y for argmax, x < y for argmin). *)
Fixpoint argbest_from (better : Z -> Z -> bool) (i best_i best_v : Z) (l : list Z) : Z * Z :=
  match l with
  | [] => (best_v, best_i)
  | x :: t => if better x best_v then argbest_from better (i + 1) i x t
              else argbest_from better (i + 1) best_i best_v t
  end.
(* (value, position); None = ValueError (empty) *)
Definition np_argbest (better : Z -> Z -> bool) (l : list Z) : option (Z * Z) :=
  match l with [] => None | x :: t => Some (argbest_from better 1 0 x t) end.

(* the structured (vals, arg) records of a group, concatenated: _arg_combine picks the record
   at argfunc(vals), i.e. the FIRST best value in concatenation order, and returns its arg *)
Definition arg_combine (better : Z -> Z -> bool) (recs : list (Z * Z)) : option (Z * Z) :=
  match np_argbest better (map fst recs) with
  | None => None
  | Some (v, pos) => Some (v, snd (nth (Z.to_nat pos) recs (0, 0)))
  end.

(* arg_chunk with an axis given (or 1-D): vals = func(x), arg = argfunc(x) + offset.
   A block is (offset along the axis, data).  Empty block: ValueError -> no record. *)
Definition arg_chunk_axis (better : Z -> Z -> bool) (b : Z * list Z) : list (Z * Z) :=
  match np_argbest better (snd b) with
  | None => []
  | Some (v, pos) => [(v, pos + fst b)]
  end.

Definition red_arg_axis (better : Z -> Z -> bool) : reduction (Z * list Z) (list (Z * Z)) (option Z) :=
  mkred (arg_chunk_axis better)
        (fun l => opt_to_list (arg_combine better (concat l)))
        (fun l => match arg_combine better (concat l) with Some (_, a) => Some a | None => None end).

(* offsets of the blocks along one axis: accumulate(add, chunks[:-1], 0) *)
Definition block_offsets (chunks : list Z) : list Z := 0 :: removelast (cumsum chunks).

(* split a flat list according to chunk sizes *)
Fixpoint split_chunks {A} (chunks : list Z) (l : list A) : list (list A) :=
  match chunks with
  | [] => []
  | c :: t => firstn (Z.to_nat c) l :: split_chunks t (skipn (Z.to_nat c) l)
  end.

(* np.unravel_index / np.ravel_multi_index (C order) *)
Fixpoint ravel_multi_index (ind shape : list Z) : Z :=
  match ind, shape with
  | i :: ti, _ :: ts => i * zprod ts + ravel_multi_index ti ts
  | _, _ => 0
  end.
Fixpoint unravel_index (flat : Z) (shape : list Z) : list Z :=
  match shape with
  | [] => []
  | _ :: ts => (flat / zprod ts) :: unravel_index (flat mod zprod ts) ts
  end.

(* an N-D block for the axis=None (ravel) case: offset per axis, shape of the block, its data in
   local C order; total_shape is the shape of the whole array.
   arg_chunk: ind = unravel_index(argfunc(x), x.shape); total_ind = offset + ind;
              arg = ravel_multi_index(total_ind, total_shape) *)
Record ndblock := mkblock { b_offset : list Z; b_shape : list Z; b_data : list Z }.
Definition arg_chunk_ravel (better : Z -> Z -> bool) (total_shape : list Z) (b : ndblock) : list (Z * Z) :=
  match np_argbest better (b_data b) with
  | None => []
  | Some (v, pos) =>
      let ind := unravel_index pos (b_shape b) in
      let total_ind := map2 Z.add (b_offset b) ind in
      [(v, ravel_multi_index total_ind total_shape)]
  end.

Definition red_arg_ravel (better : Z -> Z -> bool) (total_shape : list Z)
  : reduction ndblock (list (Z * Z)) (option Z) :=
  mkred (arg_chunk_ravel better total_shape)
        (fun l => opt_to_list (arg_combine better (concat l)))
        (fun l => match arg_combine better (concat l) with Some (_, a) => Some a | None => None end).

(* cut an N-D array (flat C-order data) into the blocks of a chunk grid *)
Definition nd_block_of (shape : list Z) (data : list Z) (chunks : list (list Z)) (key : list Z) : ndblock :=
  let offs := map2 (fun cs j => nthZ (block_offsets cs) j) chunks key in
  let bshape := map2 (fun cs j => nthZ cs j) chunks key in
  let locals := cprod (map zrange0 bshape) in
  mkblock offs bshape (map (fun loc => nthZ data (ravel_multi_index (map2 Z.add offs loc) shape)) locals).

(* da.argmax(x, axis=None, split_every=...) on an N-D array; `ks`/`depth` as chosen by the tree builder *)
Definition nd_arg_ravel (better : Z -> Z -> bool) (shape : list Z) (data : list Z) (chunks : list (list Z))
           (ks : list Z) (depth : Z) : list (list Z * option Z) :=
  nd_tree_reduce (red_arg_ravel better shape) ks depth (map (fun c => Z.of_nat (length c)) chunks)
                 (nd_block_of shape data chunks).

(* ------------------------------------------------------------------ *)
(* _accept_slice_impl: the index mapping                                *)

Inductive idx := INone | IInt (i : Z) | ISlice (s : pslice).

Definition idx_is_none (i : idx) : bool := match i with INone => true | _ => false end.
Definition idx_is_int (i : idx) : bool := match i with IInt _ => true | _ => false end.
Definition idx_is_colon (i : idx) : bool := match i with ISlice s => pslice_eqb s colon | _ => false end.
Definition idx_eqb (a b : idx) : bool :=
  match a, b with
  | INone, INone => true
  | IInt x, IInt y => x =? y
  | ISlice s, ISlice t => pslice_eqb s t
  | _, _ => false
  end.
Definition icolon : idx := ISlice colon.
Definition zmem (x : Z) (l : list Z) : bool := existsb (Z.eqb x) l.

(* slice(idx, idx + 1) if isinstance(idx, Integral) else idx *)
Definition int_to_slice (i : idx) : idx :=
  match i with IInt n => ISlice (mkslice (Some n) (Some (n + 1)) None) | x => x end.

(* input_index for keepdims=False: walk the input axes *)
Fixpoint input_index_drop (in_ax : Z) (n : nat) (reduced : list Z) (slice_index : list idx) : list idx :=
  match n with
  | O => []
  | S n' =>
      if zmem in_ax reduced then icolon :: input_index_drop (in_ax + 1) n' reduced slice_index
      else match slice_index with
           | [] => icolon :: input_index_drop (in_ax + 1) n' reduced []     (* IndexError in Python; unreachable *)
           | s :: rest => s :: input_index_drop (in_ax + 1) n' reduced rest
           end
  end.

(* length of axis n after applying idx (slices only) *)
Definition idx_len (i : idx) (n : Z) : Z :=
  match i with ISlice s => slice_len s n | IInt _ => 1 | INone => 1 end.

(* result: None = the pushdown is declined; Some (input_index, final_index) where final_index =
   None means the rebuilt reduction is returned bare *)
Definition accept_slice (index : list idx) (input_shape : list Z) (reduced : list Z) (keepdims : bool)
  : option (list idx * option (list idx)) :=
  if existsb idx_is_none index then None else
  let input_ndim := length input_shape in
  let out_ndim := if keepdims then input_ndim
                  else length (filter (fun i => negb (zmem i reduced)) (zrange0 (Z.of_nat input_ndim))) in
  let full_index := index ++ repeat icolon (out_ndim - length index)%nat in
  let slice_index := map int_to_slice full_index in
  let input_index :=
    if keepdims then map (fun ai => if zmem (fst ai) reduced then icolon else snd ai) (enumerate slice_index)
    else input_index_drop 0 input_ndim reduced slice_index in
  if forallb idx_is_colon input_index then None else
  if existsb (fun ain => negb (zmem (fst ain) reduced) && (idx_len (fst (snd ain)) (snd (snd ain)) =? 0))
             (enumerate (combine input_index input_shape)) then None else
  let final_index :=
    if keepdims then map (fun ai => if zmem (fst ai) reduced then snd ai
                                    else if idx_is_int (snd ai) then IInt 0 else icolon) (enumerate full_index)
    else map (fun i => if idx_is_int i then IInt 0 else icolon) full_index in
  Some (input_index, if existsb (fun i => negb (idx_is_colon i)) final_index then Some final_index else None).

(* specification side: what an index selects on one axis of length n.
   (positions, true = the axis is dropped from the result) *)
Definition idx_sel (i : idx) (n : Z) : list Z * bool :=
  match i with
  | ISlice s => (sel s n, false)
  | IInt k => ([k], true)
  | INone => ([], false)
  end.
(* apply a second index to the positions selected by a first one *)
Definition idx_sel_compose (first second : idx) (n : Z) : list Z * bool :=
  let '(pos, _) := idx_sel first n in
  match second with
  | ISlice s => (map (fun j => nthZ pos j) (sel s (Z.of_nat (length pos))), false)
  | IInt k => ([nthZ pos k], true)
  | INone => ([], false)
  end.

(* ------------------------------------------------------------------ *)
(* specification side of the N-D tree: which input blocks lie below an output block *)

(* number of blocks along an axis after d levels of fan-in k *)
Fixpoint nblk (d : nat) (k n : Z) : Z :=
  match d with
  | O => n
  | S d' => Z.of_nat (length (partition_all k (zrange0 (nblk d' k n))))
  end.

(* the level-0 block indices below block j of level d *)
Fixpoint cover1 (k : Z) (d : nat) (n : Z) (j : Z) : list Z :=
  match d with
  | O => [j]
  | S d' => flat_map (cover1 k d' n) (nth (Z.to_nat j) (partition_all k (zrange0 (nblk d' k n))) [])
  end.

(* per axis, for a grid with per-axis (fan-in, number of blocks) *)
Definition nd_cover (kn : list (Z * Z)) (d : nat) (key : list Z) : list (list Z) :=
  map2 (fun p j => cover1 (fst p) d (snd p) j) kn key.

(* what the N-D theorem needs of combine / aggregate: the order of the inputs is irrelevant and
   combining partial results first changes nothing.  Every commutative monoid satisfies it. *)
Definition tree_laws {S R} (comb : list S -> S) (agg : list S -> R) : Prop :=
  (forall l l', Permutation l l' -> comb l = comb l' /\ agg l = agg l') /\
  (forall ls, comb (map comb ls) = comb (concat ls) /\ agg (map comb ls) = agg (concat ls)).

(* the final value of the tree at `key`: `depth` levels in all (depth-1 combine, one aggregate) *)
Definition nd_tree_value {S R} (comb : list S -> S) (agg : list S -> R) (ks : list Z) (depth : nat)
           (nb : list Z) (f : list Z -> S) (key : list Z) : R :=
  let '(nb', f') := nd_iter comb ks (depth - 1) nb f in nd_level agg ks nb' f' key.
