(* BlockInfo.v (C20) and UnknownChunks.v (C28) model _chunks_match and _validate_rechunk independently; they agree. *)
From DA Require Import PyBase PyBaseFacts BlockInfo BlockInfoFacts.
From DA Require UnknownChunks UnknownChunksFacts.
Open Scope Z_scope.

(* BlockInfo.v restates, for ChunksFreeze, two functions that UnknownChunks.v (C28) models:
   they are the same functions *)
Lemma osum_agrees d : BlockInfo.osum d = UnknownChunks.osum d.
Proof.
  induction d as [|[x|] d IH]; cbn [BlockInfo.osum UnknownChunks.osum UnknownChunks.oadd]; [reflexivity| |reflexivity].
  rewrite IH. destruct (UnknownChunks.osum d); reflexivity.
Qed.

Lemma validate_axis_agrees o n :
  (match BlockInfo.osum o, BlockInfo.osum n with
   | Some a, Some b => a =? b
   | None, None => odim_eqb o n
   | _, _ => false
   end) = UnknownChunks.validate_axis o n.
Proof.
  unfold UnknownChunks.validate_axis. rewrite (osum_agrees o), (osum_agrees n).
  destruct (UnknownChunks.osum o) as [a|]; destruct (UnknownChunks.osum n) as [b|];
    cbn [UnknownChunks.py_eq UnknownChunks.is_nan andb]; try reflexivity.
  destruct (a =? b); reflexivity.
Qed.

Lemma forallb_ext' {A} (f g : A -> bool) l : (forall x, f x = g x) -> forallb f l = forallb g l.
Proof. intros H. induction l as [|x l IH]; cbn [forallb]; [reflexivity|]. rewrite H, IH. reflexivity. Qed.

Lemma validate_rechunk_agrees old new :
  length old = length new ->
  UnknownChunks.validate_rechunk old new =
  if validate_rechunk_b old new then UnknownChunks.Proceed tt else UnknownChunks.Refuse UnknownChunks.ValueError.
Proof.
  intros Hlen. unfold UnknownChunks.validate_rechunk, validate_rechunk_b.
  rewrite Hlen, Nat.eqb_refl. cbn [negb].
  assert (E : forallb (fun p => UnknownChunks.validate_axis (fst p) (snd p)) (combine old new) =
              forallb (fun p => let '(o, n) := p in
                                match BlockInfo.osum o, BlockInfo.osum n with
                                | Some a, Some b => a =? b
                                | None, None => odim_eqb o n
                                | _, _ => false
                                end) (combine old new)).
  { apply forallb_ext'. intros [o n]. cbn [fst snd]. symmetry. apply validate_axis_agrees. }
  rewrite E. reflexivity.
Qed.

Lemma chunks_match_agrees a b : BlockInfo.chunks_match a b = UnknownChunks.chunks_match a b.
Proof.
  destruct (UnknownChunks.chunks_match a b) eqn:E.
  - apply UnknownChunksFacts.chunks_match_eq in E. apply chunks_match_eq. exact E.
  - destruct (BlockInfo.chunks_match a b) eqn:E2; [|reflexivity].
    apply chunks_match_eq in E2. apply UnknownChunksFacts.chunks_match_eq in E2. congruence.
Qed.
