(* L1 — model of the rechunk *expression* in dask_array/_rechunk.py:
     Rechunk.chunks (spec merging + normalize_chunks + balance + validation),
     _get_chunks, _balance_chunksizes, _validate_rechunk,
     _compute_rechunk / intersect_chunks / TasksRechunk._layer (the task graph of one
     rechunk step: split tasks, merge tasks, aliases) and its execution on an array.
   Definitions only (proofs: RechunkGraphFacts.v).

   Float-derived choices are ORACLE ARGUMENTS:
     * np.median(chunks).astype(int) in _balance_chunksizes          -> [median]
     * the tuple returned by auto_chunks(..., previous_chunks=x.chunks) (np.median,
       float multipliers, round_to, chunk-size tolerance)            -> [auto_out]
   Domain: rank >= 1, known (non-nan) chunk sizes except in validate_rechunk, integer
   block_size_limit, well-formed byte strings (already parsed to an int). *)
From DA Require Export PyBase Rechunk NormChunks.
Open Scope Z_scope.

(* ================================================================== *)
(* A. Rechunk.chunks                                                    *)

(* one entry of the user's chunk specification *)
Inductive uaxis :=
| UNone                  (* None: keep this axis' chunks *)
| UInt (c : Z)           (* uniform size; -1 = whole axis *)
| UTuple (cs : list Z)   (* explicit sizes *)
| UAuto                  (* "auto" *)
| UBytes (b : Z).        (* a byte-size string such as "16B" (b = parse_bytes(s)) *)

(* the `chunks` operand of Rechunk *)
Inductive uspec :=
| SDict (kv : list (Z * uaxis))    (* {axis: entry}, in insertion order *)
| STuple (l : list uaxis)          (* tuple / list *)
| SScalar (a : uaxis).             (* a bare int or string (or None) *)

(* validate_axis(axis, ndim); AxisError is a ValueError *)
Definition validate_axis (axis ndim : Z) : res Z :=
  if (axis <? - ndim) || (axis >=? ndim) then Err EValue
  else Ok (if axis <? 0 then axis + ndim else axis).

(* {validate_axis(c, x.ndim): v for c, v in chunks.items()} as an association list *)
Fixpoint validate_keys (kv : list (Z * uaxis)) (ndim : Z) : res (list (Z * uaxis)) :=
  match kv with
  | [] => Ok []
  | (k, v) :: t =>
      match validate_axis k ndim with
      | Err e => Err e
      | Ok k' => match validate_keys t ndim with
                 | Err e => Err e
                 | Ok r => Ok ((k', v) :: r)
                 end
      end
  end.

(* dict lookup: a later item with the same (normalised) key overwrites an earlier one *)
Fixpoint dict_get (kv : list (Z * uaxis)) (i : Z) : option uaxis :=
  match kv with
  | [] => None
  | (k, v) :: t =>
      match dict_get t i with
      | Some w => Some w
      | None => if k =? i then Some v else None
      end
  end.

(* `if i not in chunks: chunks[i] = x.chunks[i]  elif chunks[i] is None: chunks[i] = x.chunks[i]`
   and `lc if lc is not None else rc` *)
Definition keep_old (a : option uaxis) (oc : list Z) : uaxis :=
  match a with
  | None => UTuple oc
  | Some UNone => UTuple oc
  | Some v => v
  end.

(* the first half of Rechunk.chunks: merge the spec with x.chunks.  zip() truncates a
   tuple that is longer than x.ndim. *)
Definition merge_spec (spec : uspec) (old : chunksN) : res (list uaxis) :=
  match spec with
  | SDict kv =>
      match validate_keys kv (lenZ' old) with
      | Err e => Err e
      | Ok kv' => Ok (map (fun p => keep_old (dict_get kv' (Z.of_nat (fst p))) (snd p))
                          (combine (seq 0 (length old)) old))
      end
  | STuple l => Ok (map (fun p => keep_old (Some (fst p)) (snd p)) (combine l old))
  | SScalar a =>
      match a with
      | UNone => Err EValue                     (* normalize_chunks(None): CHUNKS_NONE_ERROR_MESSAGE *)
      | UTuple _ => Err EValue                  (* not a scalar *)
      | _ => Ok (repeat a (length old))         (* (chunks,) * len(shape) *)
      end
  end.

(* normalize_chunks: `if not chunks and shape and all(s == 0 for s in shape): chunks = ((0,),) * len(shape)` *)
Definition empty_fix (m : list uaxis) (shape : list Z) : list uaxis :=
  if is_nil m && negb (is_nil shape) && forallb (Z.eqb 0) shape then map (fun _ => UTuple [0]) shape else m.

(* normalize_chunks: the loop that turns byte strings into the limit *)
Fixpoint resolve_limit (limit : option Z) (m : list uaxis) : res (option Z) :=
  match m with
  | [] => Ok limit
  | UBytes p :: t =>
      if p <? 0 then Err EValue
      else match limit with
           | None => resolve_limit (Some p) t
           | Some l => if p =? l then resolve_limit limit t else Err EValue
           end
  | _ :: t => resolve_limit limit t
  end.

Definition to_aspec (a : uaxis) : aspec :=
  match a with
  | UNone => AFull
  | UInt c => AInt c
  | UTuple cs => ATuple cs
  | UAuto => AAuto
  | UBytes _ => AAuto
  end.

(* the tail of normalize_chunks once no "auto" is left (same text as in NormChunks.normalize_chunks) *)
Definition normalize_tail (specs : list aspec) (shape : list Z) : res chunksN :=
  let allints := forallb is_int_spec specs in
  match convert_all specs shape with
  | Err e => Err e
  | Ok chunks =>
      if existsb is_nil chunks then Err EValue
      else if existsb (fun c => existsb (fun x => x <? 0) c) chunks then Err EValue
      else if negb allints && negb (forallb (fun p => zsum (fst p) =? snd p) (combine chunks shape)) then Err EValue
      else Ok chunks
  end.

(* normalize_chunks(chunks, shape, limit, dtype, previous_chunks=x.chunks): when an axis is "auto"
   the value of auto_chunks(...) is the oracle [auto_out] (None = auto_chunks raised); on the
   other axes auto_chunks returns its input unchanged. *)
Definition normalize_chunks_prev (auto_out : option (list aspec)) (specs : list aspec) (shape : list Z) : res chunksN :=
  if negb (Nat.eqb (length specs) (length shape)) then Err EValue else
  let specs := map (fun p => subst_full (fst p) (snd p)) (combine specs shape) in
  if count_autos specs =? 0 then normalize_tail specs shape
  else match auto_out with
       | None => Err EValue
       | Some ao =>
           normalize_tail (map (fun p => if is_auto (fst p) then snd p else fst p) (combine specs ao)) shape
       end.

(* _get_chunks(n, chunksize) *)
Definition get_chunks (n c : Z) : res (list Z) :=
  if c =? 0 then Err EZeroDiv
  else Ok (repeat c (Z.to_nat (n / c)) ++ (if n mod c =? 0 then [] else [n mod c])).

(* min(l) / max(l) of a non-empty Python tuple *)
Definition pymin (l : list Z) : Z := fold_right Z.min (hd 0 l) l.
Definition pymax (l : list Z) : Z := fold_right Z.max (hd 0 l) l.

(* a list comprehension whose element expression may raise *)
Fixpoint collect_res {A} (l : list (res A)) : res (list A) :=
  match l with
  | [] => Ok []
  | Err e :: _ => Err e
  | Ok a :: t => match collect_res t with Err e => Err e | Ok r => Ok (a :: r) end
  end.

(* possible_chunks[np.argmin([max(c) - min(c) for c in possible_chunks])]: first minimum *)
Definition spread (c : list Z) : Z := pymax c - pymin c.
Fixpoint best_of (best : list Z) (rest : list (list Z)) : list Z :=
  match rest with
  | [] => best
  | c :: t => if spread c <? spread best then best_of c t else best_of best t
  end.

(* _balance_chunksizes(chunks); median = np.median(chunks).astype(int) *)
Definition balance_chunksizes (median : Z) (chunks : list Z) : res (list Z) :=
  match chunks with
  | [] => Err EValue                                        (* min(()) *)
  | _ =>
      if pymin chunks =? 0 then Ok chunks else
      let eps := median / 2 in
      let n_chunks := lenZ' chunks - (if 2 * pymin chunks <=? pymax chunks then 1 else 0) in
      match collect_res (map (get_chunks (zsum chunks)) (zrange (median - eps) (median + eps + 1) 1)) with
      | Err e => Err e
      | Ok new_chunks =>
          match filter (fun c => lenZ' c =? n_chunks) new_chunks with
          | [] => Ok chunks                                 (* warn(...); return chunks *)
          | p :: ps => Ok (best_of p ps)
          end
      end
  end.

Fixpoint balance_all (medians : list Z) (cs : chunksN) : res chunksN :=
  match cs with
  | [] => Ok []
  | c :: t =>
      match balance_chunksizes (hd 0 medians) c with
      | Err e => Err e
      | Ok c' => match balance_all (tl medians) t with Err e => Err e | Ok r => Ok (c' :: r) end
      end
  end.

(* _validate_rechunk(old_chunks, new_chunks); a chunk size is None when unknown (nan).
   false = the Python raises (AssertionError for a rank mismatch, else ValueError). *)
Definition sum_opt (l : list (option Z)) : option Z :=
  fold_right (fun c acc => match c, acc with Some a, Some b => Some (a + b) | _, _ => None end) (Some 0) l.

Definition validate_axis_ok (o n : list (option Z)) : bool :=
  match sum_opt o, sum_opt n with
  | Some a, Some b => a =? b                       (* old_shape == new_shape *)
  | None, None => list_eqb oZ_eqb o n              (* both nan: np.array_equal(old_dim, new_dim, equal_nan=True) *)
  | _, _ => false
  end.

Definition validate_rechunk (old new : list (list (option Z))) : bool :=
  Nat.eqb (length old) (length new) &&
  forallb (fun p => validate_axis_ok (fst p) (snd p)) (combine old new).

Definition known (cs : chunksN) : list (list (option Z)) := map (map Some) cs.

(* Rechunk.chunks for an array with known chunks [old] (shape = the per-axis sums) *)
Definition rechunk_chunks (auto_out : option (list aspec)) (medians : list Z)
           (old : chunksN) (spec : uspec) (limit : option Z) (balance : bool) : res chunksN :=
  let shape := map zsum old in
  match merge_spec spec old with
  | Err e => Err e
  | Ok m =>
      let m := empty_fix m shape in
      if negb (Nat.eqb (length m) (length shape)) then Err EValue else
      match resolve_limit limit m with
      | Err e => Err e
      | Ok _ =>
          match normalize_chunks_prev auto_out (map to_aspec m) shape with
          | Err e => Err e
          | Ok cs =>
              (* `if not len(chunks) == x.ndim: raise` cannot fire here *)
              match (if balance then balance_all medians cs else Ok cs) with
              | Err e => Err e
              | Ok cs' => if validate_rechunk (known old) (known cs') then Ok cs' else Err EValue
              end
          end
      end
  end.

(* ================================================================== *)
(* B. the task graph of one rechunk step, 1-D                           *)

Definition piece := (Z * Z * Z)%type.        (* (old block, start, stop) as produced by intersect_1d *)

(* an input of a merge task: an old block itself, or split task (old block i, piece counter k) *)
Inductive src := SrcOld (i : Z) | SrcSplit (i k : Z).
(* x2[key]: Alias(key, source) or Task(key, concatenate3, [sources]) *)
Inductive mtask := MAlias (s : src) | MConcat (l : list src).
(* intermediates[(split_name, i, k)] = Task(getitem, old block i, slice(a, b)) *)
Definition stask := (Z * Z * Z * Z)%type.    (* (i, k, a, b) *)

(* split_pieces: dict old index -> number of split tasks emitted so far *)
Definition counter := list (Z * Z).
Fixpoint ctr_get (c : counter) (i : Z) : Z :=
  match c with
  | [] => 0
  | (k, v) :: t => if k =? i then v else ctr_get t i
  end.
Definition ctr_incr (c : counter) (i : Z) : counter := (i, ctr_get c i + 1) :: c.

(* the inner loop over the pieces of one new block *)
Fixpoint block_pieces (old : list Z) (ps : list piece) (ctr : counter) : list src * list stask * counter :=
  match ps with
  | [] => ([], [], ctr)
  | (i, a, b) :: t =>
      if (a =? 0) && (b =? nthZ old i) then
        (* No slicing needed - use old block directly *)
        let '(srcs, sp, c') := block_pieces old t ctr in (SrcOld i :: srcs, sp, c')
      else
        let k := ctr_get ctr i in
        let '(srcs, sp, c') := block_pieces old t (ctr_incr ctr i) in
        (SrcSplit i k :: srcs, (i, k, a, b) :: sp, c')
  end.

(* len(set(l)) *)
Fixpoint count_distinct (l : list Z) : nat :=
  match l with
  | [] => O
  | x :: t => if existsb (Z.eqb x) t then count_distinct t else S (count_distinct t)
  end.

(* rec_cat_arg = np.empty([len(set(old indices))]); filling it through .flat with more pieces than
   slots is an IndexError (None); one slot -> Alias, else concatenate3 *)
Definition merge_of (ps : list piece) (srcs : list src) : option mtask :=
  if negb (Nat.eqb (count_distinct (map (fun p => fst (fst p)) ps)) (length ps)) then None
  else match srcs with
       | [] => None
       | [s] => Some (MAlias s)
       | _ => Some (MConcat srcs)
       end.

Fixpoint graph_loop (old : list Z) (cw : list (list piece)) (ctr : counter) : option (list mtask * list stask) :=
  match cw with
  | [] => Some ([], [])
  | ps :: rest =>
      let '(srcs, sp, ctr') := block_pieces old ps ctr in
      match merge_of ps srcs, graph_loop old rest ctr' with
      | Some m, Some (ms, ss) => Some (m :: ms, sp ++ ss)
      | _, _ => None
      end
  end.

(* _compute_rechunk(old_name, (old,), (new,), level, name): merge tasks in new-block order and the
   split tasks; zip(new_index, crossed) stops at the shorter of the two *)
Definition compute_rechunk_1d (old new : list Z) : option (list mtask * list stask) :=
  graph_loop old (firstn (length new) (intersect_1d old new)) [].

(* ---------------- executing the graph on a 1-D array of cells ---------------- *)
Section Exec1.
Variable A : Type.

(* l[a:b] for 0 <= a <= b *)
Definition sub (a b : Z) (l : list A) : list A := firstn (Z.to_nat (b - a)) (skipn (Z.to_nat a) l).

(* block i of the array xs chunked by cs *)
Definition block_at (cs : list Z) (xs : list A) (i : Z) : list A :=
  sub (nthZ (cum0 cs) i) (nthZ (cum0 cs) i + nthZ cs i) xs.

Definition blocks_of (cs : list Z) (xs : list A) : list (list A) :=
  map (fun j => block_at cs xs (Z.of_nat j)) (seq 0 (length cs)).

Definition stask_key_eqb (i k : Z) (t : stask) : bool := let '(i', k', _, _) := t in (i' =? i) && (k' =? k).

Definition src_value (old : list Z) (xs : list A) (ss : list stask) (s : src) : option (list A) :=
  match s with
  | SrcOld i => Some (block_at old xs i)
  | SrcSplit i k =>
      match find (stask_key_eqb i k) ss with
      | Some (_, _, a, b) => Some (sub a b (block_at old xs i))      (* getitem(old block, slice(a, b)) *)
      | None => None                                                  (* missing dependency *)
      end
  end.

Fixpoint collect_opt {B} (l : list (option B)) : option (list B) :=
  match l with
  | [] => Some []
  | None :: _ => None
  | Some a :: t => match collect_opt t with None => None | Some r => Some (a :: r) end
  end.

Definition mtask_value (old : list Z) (xs : list A) (ss : list stask) (m : mtask) : option (list A) :=
  match m with
  | MAlias s => src_value old xs ss s
  | MConcat l => option_map (@concat A) (collect_opt (map (src_value old xs ss) l))   (* concatenate3([...]) *)
  end.

(* the blocks the graph of rechunk old -> new computes from the old blocks of xs *)
Definition run_rechunk_1d (old new : list Z) (xs : list A) : option (list (list A)) :=
  match compute_rechunk_1d old new with
  | None => None
  | Some (ms, ss) => collect_opt (map (mtask_value old xs ss) ms)
  end.

(* TasksRechunk._layer: one _compute_rechunk per step of the plan, each reading the previous
   step's merge keys *)
Fixpoint run_plan_1d (cur : list Z) (steps : list (list Z)) (xs : list A) : option (list (list A)) :=
  match steps with
  | [] => Some (blocks_of cur xs)
  | s :: rest =>
      match run_rechunk_1d cur s xs with
      | None => None
      | Some bs => run_plan_1d s rest (concat bs)
      end
  end.
End Exec1.
Arguments sub {A}. Arguments block_at {A}. Arguments blocks_of {A}. Arguments src_value {A}.
Arguments mtask_value {A}. Arguments run_rechunk_1d {A}. Arguments run_plan_1d {A}. Arguments collect_opt {B}.

(* ================================================================== *)
(* C. the task graph of one rechunk step, N-D (structure)               *)

Definition ndpiece := list piece.            (* one (old block, start, stop) per axis *)
Inductive ndsrc := NSrcOld (idx : list Z) | NSrcSplit (idx : list Z) (k : Z).
(* NConcat shape l: concatenate3(np.array(l, dtype=object).reshape(shape).tolist()) *)
Inductive ndmtask := NAlias (s : ndsrc) | NConcat (shape : list nat) (l : list ndsrc).
Definition ndstask := (list Z * Z * list (Z * Z))%type.    (* old index, piece counter, per-axis (start, stop) *)

(* itertools.product over the lists ls: last factor varies fastest *)
Fixpoint cart {A} (ls : list (list A)) : list (list A) :=
  match ls with
  | [] => [[]]
  | l :: t => flat_map (fun x => map (cons x) (cart t)) l
  end.

(* intersect_chunks(old, new): per new block (row-major) the tuple of N-D pieces *)
Definition intersect_chunks (old new : chunksN) : list (list ndpiece) :=
  map (@cart piece) (cart (old_to_new old new)).

Definition ndcounter := list (list Z * Z).
Fixpoint ndctr_get (c : ndcounter) (i : list Z) : Z :=
  match c with
  | [] => 0
  | (k, v) :: t => if zlist_eqb k i then v else ndctr_get t i
  end.

Definition nd_whole (old : chunksN) (p : ndpiece) : bool :=
  forallb (fun q => let '(oc, (i, a, b)) := q in (a =? 0) && (b =? nthZ oc i)) (combine old p).

Definition nd_index (p : ndpiece) : list Z := map (fun q => fst (fst q)) p.
Definition nd_slices (p : ndpiece) : list (Z * Z) := map (fun q => (snd (fst q), snd q)) p.

Fixpoint nd_block_pieces (old : chunksN) (ps : list ndpiece) (ctr : ndcounter) : list ndsrc * list ndstask * ndcounter :=
  match ps with
  | [] => ([], [], ctr)
  | p :: t =>
      if nd_whole old p then
        let '(srcs, sp, c') := nd_block_pieces old t ctr in (NSrcOld (nd_index p) :: srcs, sp, c')
      else
        let k := ndctr_get ctr (nd_index p) in
        let '(srcs, sp, c') := nd_block_pieces old t ((nd_index p, k + 1) :: ctr) in
        (NSrcSplit (nd_index p) k :: srcs, (nd_index p, k, nd_slices p) :: sp, c')
  end.

(* subdims1 = [len(set(old_block_indices[i])) for i in range(ndim)] *)
Definition nd_subdims (ndim : nat) (ps : list ndpiece) : list nat :=
  map (fun ax => count_distinct (map (fun p => fst (fst (nth ax p (0, 0, 0)))) ps)) (seq 0 ndim).

(* None: IndexError (more pieces than slots) / AssertionError (fewer) / no piece at all *)
Definition nd_merge_of (ndim : nat) (ps : list ndpiece) (srcs : list ndsrc) : option ndmtask :=
  let sd := nd_subdims ndim ps in
  if negb (Nat.eqb (fold_right Nat.mul 1%nat sd) (length ps)) then None
  else match srcs with
       | [] => None
       | s :: _ => if forallb (Nat.eqb 1) sd then Some (NAlias s) else Some (NConcat sd srcs)
       end.

Fixpoint nd_graph_loop (old : chunksN) (blocks : list (list ndpiece)) (ctr : ndcounter)
  : option (list ndmtask * list ndstask) :=
  match blocks with
  | [] => Some ([], [])
  | ps :: rest =>
      let '(srcs, sp, ctr') := nd_block_pieces old ps ctr in
      match nd_merge_of (length old) ps srcs, nd_graph_loop old rest ctr' with
      | Some m, Some (ms, ss) => Some (m :: ms, sp ++ ss)
      | _, _ => None
      end
  end.

(* _compute_rechunk(old_name, old, new, level, name) *)
Definition compute_rechunk_nd (old new : chunksN) : option (list ndmtask * list ndstask) :=
  nd_graph_loop old (firstn (Z.to_nat (number_of_blocks new)) (intersect_chunks old new)) [].

(* ---------------- 2-D semantics of split and merge ---------------- *)
Section Exec2.
Variable B : Type.

(* m[a0:b0, a1:b1] for a matrix given as a list of rows *)
Definition sub2 (a0 b0 a1 b1 : Z) (m : list (list B)) : list (list B) := map (sub a1 b1) (sub a0 b0 m).

Definition block_at2 (cs0 cs1 : list Z) (m : list (list B)) (i0 i1 : Z) : list (list B) :=
  sub2 (nthZ (cum0 cs0) i0) (nthZ (cum0 cs0) i0 + nthZ cs0 i0)
       (nthZ (cum0 cs1) i1) (nthZ (cum0 cs1) i1 + nthZ cs1 i1) m.

(* np.concatenate along axis 1 of matrices with the same number of rows *)
Fixpoint zip_app (x y : list (list B)) : list (list B) :=
  match x, y with
  | r :: x', s :: y' => (r ++ s) :: zip_app x' y'
  | _, _ => []
  end.
Definition hcat (ms : list (list (list B))) : list (list B) :=
  match ms with
  | [] => []
  | m :: t => fold_left zip_app t m
  end.

(* the value of getitem(old block (i0, i1), (slice(a0, b0), slice(a1, b1))) *)
Definition piece_value2 (old0 old1 : list Z) (m : list (list B)) (p0 p1 : piece) : list (list B) :=
  let '(i0, a0, b0) := p0 in let '(i1, a1, b1) := p1 in
  sub2 a0 b0 a1 b1 (block_at2 old0 old1 m i0 i1).

(* concatenate3 of the nested list [[piece(p0, p1) for p1 in ps1] for p0 in ps0]: the merge task of a
   new block whose per-axis piece lists are ps0 and ps1 *)
Definition assemble2 (old0 old1 : list Z) (m : list (list B)) (ps0 ps1 : list piece) : list (list B) :=
  concat (map (fun p0 => hcat (map (fun p1 => piece_value2 old0 old1 m p0 p1) ps1)) ps0).
End Exec2.
Arguments sub2 {B}. Arguments block_at2 {B}. Arguments zip_app {B}. Arguments hcat {B}.
Arguments piece_value2 {B}. Arguments assemble2 {B}.

(* ================================================================== *)
(* D. specification-side checkers                                       *)

(* old indices of the pieces of every new block strictly increase *)
Fixpoint strictly_increasing (l : list Z) : bool :=
  match l with
  | x :: ((y :: _) as t) => (x <? y) && strictly_increasing t
  | _ => true
  end.
Definition cw_sorted (cw : list (list piece)) : bool :=
  forallb (fun ps => strictly_increasing (map (fun p => fst (fst p)) ps)) cw.

(* the graph of a new block is an alias of an old block exactly when that block is taken whole *)
Definition is_whole_alias (old : list Z) (ps : list piece) (m : mtask) : bool :=
  match ps, m with
  | [(i, a, b)], MAlias (SrcOld i') => (a =? 0) && (b =? nthZ old i) && (i =? i')
  | _, _ => false
  end.

(* boolean equality on graphs / results: what the correspondence harness evaluates *)
Definition src_eqb (a b : src) : bool :=
  match a, b with
  | SrcOld i, SrcOld j => i =? j
  | SrcSplit i k, SrcSplit j l => (i =? j) && (k =? l)
  | _, _ => false
  end.
Definition mtask_eqb (a b : mtask) : bool :=
  match a, b with
  | MAlias s, MAlias t => src_eqb s t
  | MConcat l, MConcat r => list_eqb src_eqb l r
  | _, _ => false
  end.
Definition stask_eqb (a b : stask) : bool :=
  let '(i, k, x, y) := a in let '(j, l, u, v) := b in (i =? j) && (k =? l) && (x =? u) && (y =? v).
Definition graph1_eqb (a b : option (list mtask * list stask)) : bool :=
  match a, b with
  | Some (m, s), Some (m', s') => list_eqb mtask_eqb m m' && list_eqb stask_eqb s s'
  | None, None => true
  | _, _ => false
  end.

Definition ndsrc_eqb (a b : ndsrc) : bool :=
  match a, b with
  | NSrcOld i, NSrcOld j => zlist_eqb i j
  | NSrcSplit i k, NSrcSplit j l => zlist_eqb i j && (k =? l)
  | _, _ => false
  end.
Definition ndmtask_eqb (a b : ndmtask) : bool :=
  match a, b with
  | NAlias s, NAlias t => ndsrc_eqb s t
  | NConcat sh l, NConcat sh' r => list_eqb Nat.eqb sh sh' && list_eqb ndsrc_eqb l r
  | _, _ => false
  end.
Definition ndstask_eqb (a b : ndstask) : bool :=
  let '(i, k, sl) := a in let '(j, l, sl') := b in
  zlist_eqb i j && (k =? l) && list_eqb (fun p q => (fst p =? fst q) && (snd p =? snd q)) sl sl'.
Definition graphN_eqb (a b : option (list ndmtask * list ndstask)) : bool :=
  match a, b with
  | Some (m, s), Some (m', s') => list_eqb ndmtask_eqb m m' && list_eqb ndstask_eqb s s'
  | None, None => true
  | _, _ => false
  end.

Definition res_chunks_eqb (a b : res chunksN) : bool :=
  match a, b with
  | Ok x, Ok y => zlist2_eqb x y
  | Err _, Err _ => true
  | _, _ => false
  end.
Definition res_list_eqb (a b : res (list Z)) : bool :=
  match a, b with
  | Ok x, Ok y => zlist_eqb x y
  | Err _, Err _ => true
  | _, _ => false
  end.

(* the 1-D graph is the rank-1 instance of the N-D one *)
Definition src_to_nd (s : src) : ndsrc := match s with SrcOld i => NSrcOld [i] | SrcSplit i k => NSrcSplit [i] k end.
Definition graph1_as_nd (g : option (list mtask * list stask)) : option (list ndmtask * list ndstask) :=
  match g with
  | None => None
  | Some (ms, ss) =>
      Some (map (fun m => match m with
                          | MAlias s => NAlias (src_to_nd s)
                          | MConcat l => NConcat [length l] (map src_to_nd l)
                          end) ms,
            map (fun t : stask => let '(i, k, a, b) := t in ([i], k, [(a, b)])) ss)
  end.
