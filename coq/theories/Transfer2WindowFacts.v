(* Proofs about the sliding / moving window transfer estimates of Transfer2.v (property C27):
   SlidingWindowReduction._block_plan / .transfer_bytes, MovingWindowReduction._block_plan /
   .transfer_bytes.  The work is the `bisect_right(starts, .)` arithmetic of the band blocks. *)
From DA Require Import PyBase PyBaseFacts Slicing Unify UnifyFacts Transfer TransferFacts Transfer2 Transfer2Facts.
From Coq Require Import ZifyBool.
Open Scope Z_scope.
Ltac Zify.zify_post_hook ::= Z.to_euclidean_division_equations.

(* ====================================================================== *)
(* prefix sums: pre l j = starts[j] = sum(l[:j]) *)
Definition pre (l : list Z) (j : Z) : Z := zsum (firstn (Z.to_nat j) l).

Lemma nth_cumsum_from : forall l n acc, (n <= length l)%nat ->
  nth n (acc :: cumsum_from acc l) 0 = acc + zsum (firstn n l).
Proof.
  induction l as [|x t IH]; intros n acc H.
  - cbn [length] in H. assert (n = 0%nat) as -> by lia. cbn. lia.
  - destruct n as [|n]; [cbn; lia|].
    cbn [cumsum_from nth firstn zsum]. cbn [length] in H.
    change (nth n (acc + x :: cumsum_from (acc + x) t) 0 = acc + (x + zsum (firstn n t))).
    rewrite IH by lia. lia.
Qed.

Lemma nth_starts l j : 0 <= j <= zlen l -> nthZ (starts_of l) j = pre l j.
Proof.
  intros H. unfold nthZ, starts_of, cumsum, pre, zlen in *.
  rewrite nth_cumsum_from by lia. lia.
Qed.

Lemma firstn_nonneg : forall n l, nonneg_layout l -> nonneg_layout (firstn n l).
Proof.
  induction n as [|n IH]; intros l H; [constructor|].
  destruct H as [|x t Hx Ht]; cbn [firstn]; constructor; [exact Hx | apply IH; exact Ht].
Qed.

Lemma firstn_mono : forall l a b, nonneg_layout l -> (a <= b)%nat -> zsum (firstn a l) <= zsum (firstn b l).
Proof.
  induction l as [|x t IH]; intros a b H Hab.
  - rewrite !firstn_nil. lia.
  - inversion H as [|? ? Hx Ht]; subst.
    destruct a as [|a]; destruct b as [|b]; try lia; cbn [firstn zsum].
    + pose proof (zsum_nonneg _ (firstn_nonneg b t Ht)). lia.
    + specialize (IH a b Ht ltac:(lia)). lia.
Qed.

Lemma pre_mono l a b : nonneg_layout l -> 0 <= a <= b -> pre l a <= pre l b.
Proof. intros H Hab. unfold pre. apply firstn_mono; [exact H | lia]. Qed.

Lemma pre_0 l : pre l 0 = 0.
Proof. reflexivity. Qed.

Lemma pre_total l : pre l (zlen l) = zsum l.
Proof. unfold pre, zlen. rewrite Nat2Z.id, firstn_all. reflexivity. Qed.

Lemma pre_nonneg l j : nonneg_layout l -> 0 <= pre l j.
Proof.
  intros H. destruct (Z_le_gt_dec 0 j) as [Hj|Hj].
  - rewrite <- (pre_0 l). apply pre_mono; [exact H | lia].
  - unfold pre. replace (Z.to_nat j) with 0%nat by lia. cbn. lia.
Qed.

Lemma pre_le_total l j : nonneg_layout l -> pre l j <= zsum l.
Proof.
  intros H. unfold pre. rewrite <- (firstn_all l) at 2.
  destruct (Nat.le_gt_cases (Z.to_nat j) (length l)) as [Hj|Hj].
  - apply firstn_mono; [exact H | exact Hj].
  - rewrite firstn_all2 by lia. rewrite firstn_all. lia.
Qed.

Lemma skipn_cons_firstn : forall l n c cs, skipn n l = c :: cs ->
  firstn (S n) l = firstn n l ++ [c] /\ skipn (S n) l = cs /\ (n < length l)%nat /\ nth n l 0 = c.
Proof.
  induction l as [|x t IH]; intros n c cs H.
  - rewrite skipn_nil in H. discriminate.
  - destruct n as [|n].
    + cbn [skipn] in H. injection H as -> ->. cbn. repeat split; lia.
    + cbn [skipn] in H. destruct (IH n c cs H) as (A & B & C & D).
      cbn [length nth]. repeat split; try lia; try assumption.
      change (firstn (S (S n)) (x :: t)) with (x :: firstn (S n) t). rewrite A. reflexivity.
Qed.

Lemma pre_succ l i c cs : 0 <= i -> skipn (Z.to_nat i) l = c :: cs ->
  pre l (i + 1) = pre l i + c /\ skipn (Z.to_nat (i + 1)) l = cs /\ i < zlen l /\ nthZ l i = c.
Proof.
  intros Hi H. destruct (skipn_cons_firstn l _ c cs H) as (A & B & C & D).
  unfold pre, zlen, nthZ. replace (Z.to_nat (i + 1)) with (S (Z.to_nat i)) by lia.
  rewrite A, zsum_app. cbn [zsum]. repeat split; try lia; assumption.
Qed.

(* sum(l[a:b]) = starts[b] - starts[a] *)
Lemma firstn_split : forall (l : list Z) a b, (a <= b)%nat ->
  zsum (firstn b l) = zsum (firstn a l) + zsum (firstn (b - a) (skipn a l)).
Proof.
  induction l as [|x t IH]; intros a b H.
  - rewrite skipn_nil, !firstn_nil. cbn. lia.
  - destruct a as [|a].
    + cbn [firstn skipn zsum]. rewrite Nat.sub_0_r. lia.
    + destruct b as [|b]; [lia|]. cbn [firstn skipn zsum].
      replace (S b - S a)%nat with (b - a)%nat by lia. rewrite (IH a b) by lia. lia.
Qed.

Lemma slice_sum_pre l a b : 0 <= a <= b -> slice_sum l a b = pre l b - pre l a.
Proof.
  intros H. unfold slice_sum, pre.
  rewrite (firstn_split l (Z.to_nat a) (Z.to_nat b)) by lia.
  replace (Z.to_nat (b - a)) with (Z.to_nat b - Z.to_nat a)%nat by lia. lia.
Qed.

(* ====================================================================== *)
(* bisect_right(starts, x) - 1 is the block that contains position x *)
Lemma bisect_cumsum_from : forall l acc x, nonneg_layout l -> acc <= x ->
  let r := bisect_right (cumsum_from acc l) x in
  0 <= r <= zlen l /\ acc + zsum (firstn (Z.to_nat r) l) <= x /\
  (r < zlen l -> x < acc + zsum (firstn (Z.to_nat (r + 1)) l)).
Proof.
  induction l as [|c t IH]; intros acc x H Hacc.
  - cbn. unfold zlen. cbn. lia.
  - inversion H as [|? ? Hc Ht]; subst. cbn [cumsum_from bisect_right].
    unfold zlen. cbn [length].
    destruct (acc + c <=? x) eqn:E.
    + specialize (IH (acc + c) x Ht ltac:(lia)). cbn zeta in IH. unfold zlen in IH.
      set (r' := bisect_right (cumsum_from (acc + c) t) x) in *.
      destruct IH as (A & B & C). cbn zeta.
      replace (Z.to_nat (1 + r')) with (S (Z.to_nat r')) by lia.
      replace (Z.to_nat (1 + r' + 1)) with (S (Z.to_nat (r' + 1))) by lia.
      cbn [firstn zsum]. repeat split; try lia.
    + cbn zeta. change (Z.to_nat 0) with 0%nat. change (Z.to_nat (0 + 1)) with 1%nat.
      cbn [firstn zsum]. repeat split; try lia.
Qed.

Lemma bisect_starts l x : nonneg_layout l -> 0 <= x ->
  let r := bisect_right (starts_of l) x - 1 in
  0 <= r <= zlen l /\ pre l r <= x /\ (r < zlen l -> x < pre l (r + 1)).
Proof.
  intros H Hx. unfold starts_of, cumsum. cbn [bisect_right].
  assert (0 <=? x = true) as -> by lia.
  pose proof (bisect_cumsum_from l 0 x H Hx) as P. cbn zeta in *.
  set (r' := bisect_right (cumsum_from 0 l) x) in *.
  replace (1 + r' - 1) with r' by lia. unfold pre. lia.
Qed.

(* a position below the axis length lies in a real block *)
Lemma bisect_starts_inside l x : nonneg_layout l -> 0 <= x < zsum l ->
  let r := bisect_right (starts_of l) x - 1 in
  0 <= r < zlen l /\ pre l r <= x < pre l (r + 1).
Proof.
  intros H Hx. pose proof (bisect_starts l x H ltac:(lia)) as P. cbn zeta in *.
  set (r := bisect_right (starts_of l) x - 1) in *.
  destruct P as (A & B & C).
  assert (r < zlen l) as Hr.
  { destruct (Z.eq_dec r (zlen l)) as [E|E]; [|lia]. rewrite E, pre_total in B. lia. }
  specialize (C Hr). lia.
Qed.

(* two positions x <= y: the blocks are ordered, and the span b..e covers [x, y] *)
Lemma band_span l x y : nonneg_layout l -> 0 <= x <= y -> y < zsum l ->
  let b := bisect_right (starts_of l) x - 1 in
  let e := bisect_right (starts_of l) y - 1 in
  0 <= b <= e /\ e < zlen l /\ pre l b <= x /\ y < pre l (e + 1) /\
  slice_sum l b (e + 1) = pre l (e + 1) - pre l b.
Proof.
  intros H Hxy Hy. cbn zeta.
  pose proof (bisect_starts_inside l x H ltac:(lia)) as Pb.
  pose proof (bisect_starts_inside l y H ltac:(lia)) as Pe. cbn zeta in *.
  set (b := bisect_right (starts_of l) x - 1) in *.
  set (e := bisect_right (starts_of l) y - 1) in *.
  assert (b <= e) as Hbe.
  { destruct (Z_le_gt_dec b e) as [L|G]; [exact L|].
    pose proof (pre_mono l (e + 1) b H ltac:(lia)). lia. }
  repeat split; try lia. apply slice_sum_pre. lia.
Qed.

(* ====================================================================== *)
(* MovingWindowReduction *)

Definition mw_row_ok (full : list Z) (row : Z * Z * Z * option (Z * Z) * Z) : Prop :=
  let '(_, c, band_start, band, n_middle) := row in
  0 <= n_middle /\ 0 <= c /\
  match band with
  | None => True
  | Some (g, h) => 0 <= band_start <= slice_sum full g (h + 1)
  end.

Lemma mw_plan_ok full window : pos_layout full -> 1 <= window ->
  forall rest i, 0 <= i -> skipn (Z.to_nat i) full = rest ->
  Forall (mw_row_ok full) (mw_plan (starts_of full) window rest i).
Proof.
  intros Hpos Hw. pose proof (pos_nonneg _ Hpos) as Hnn.
  induction rest as [|c cs IH]; intros i Hi Hsk; cbn [mw_plan]; [constructor|].
  destruct (pre_succ full i c cs Hi Hsk) as (Hp & Hsk' & Hlt & Hnth).
  assert (0 < c) as Hc.
  { unfold pos_layout in Hpos. rewrite Forall_forall in Hpos. apply Hpos.
    rewrite <- Hnth. unfold nthZ. apply nth_In. unfold zlen in Hlt. lia. }
  rewrite (nth_starts full i) by lia.
  pose proof (pre_nonneg full i Hnn) as Hs0.
  pose proof (pre_le_total full (i + 1) Hnn) as Hs1.
  destruct (pre full i =? 0) eqn:E0.
  - constructor; [|apply IH; [lia | exact Hsk']].
    unfold mw_row_ok. repeat split; lia.
  - constructor; [|apply IH; [lia | exact Hsk']].
    set (start := pre full i) in *.
    set (band_first := Z.max 0 (start - window + 1)).
    set (band_last := Z.max band_first (start + c - window)).
    assert (0 <= band_first <= band_last) as Hb1 by lia.
    assert (band_last < zsum full) as Hb2 by lia.
    pose proof (band_span full band_first band_last Hnn Hb1 Hb2) as P. cbn zeta in P.
    set (g := bisect_right (starts_of full) band_first - 1) in *.
    set (h := bisect_right (starts_of full) band_last - 1) in *.
    destruct P as (A & B & C & D & F).
    rewrite (nth_starts full g) by lia.
    unfold mw_row_ok. rewrite F. repeat split; lia.
Qed.

Lemma mw_loop_wf full : forall plan lo hi, Forall (mw_row_ok full) plan -> 0 <= lo <= hi ->
  wellformed (mw_loop full plan lo hi).
Proof.
  induction plan as [|row plan IH]; intros lo hi H Hinv; cbn [mw_loop].
  - unfold wellformed. cbn [fst snd]. lia.
  - inversion H as [|? ? Hrow Hrest]; subst.
    destruct row as [[[[start c] band_start] band] n_middle]. unfold mw_row_ok in Hrow.
    destruct Hrow as (Hm & Hc & Hband).
    destruct band as [[g h]|]; apply IH; try exact Hrest; lia.
Qed.

Lemma scale_wf lo hi cross : wellformed (lo, hi) -> 0 <= cross -> wellformed (lo * cross, hi * cross).
Proof. unfold wellformed. cbn [fst snd]. intros [A B] C. split; nia. Qed.

Theorem moving_wellformed chunks axis itemsize window :
  0 <= itemsize -> Forall nonneg_layout chunks -> pos_layout (nth axis chunks []) -> 1 <= window ->
  wellformed (moving_transfer chunks axis itemsize window).
Proof.
  intros Hi Hc Hpos Hw. unfold moving_transfer.
  pose proof (mw_plan_ok (nth axis chunks []) window Hpos Hw (nth axis chunks []) 0 ltac:(lia) eq_refl) as Hplan.
  pose proof (mw_loop_wf (nth axis chunks []) _ 0 0 Hplan ltac:(lia)) as Hwf.
  unfold moving_plan.
  destruct (mw_loop (nth axis chunks []) (mw_plan (starts_of (nth axis chunks [])) window (nth axis chunks []) 0) 0 0) as [lo hi].
  apply scale_wf; [exact Hwf | apply cross_nonneg; assumption].
Qed.

(* a single block along the sliding axis: nothing has to move; max fetches the block once *)
Theorem moving_single_block chunks axis itemsize window c :
  nth axis chunks [] = [c] ->
  moving_transfer chunks axis itemsize window = (0, c * cross_section chunks axis itemsize).
Proof.
  intros H. unfold moving_transfer, moving_plan. rewrite H.
  cbn [mw_plan]. unfold nthZ, starts_of. change (nth (Z.to_nat 0) (0 :: cumsum [c]) 0) with 0.
  change (0 =? 0) with true. cbn [mw_loop]. f_equal; lia.
Qed.

(* the constructor's guard needs at least two blocks *)
Theorem supports_moving_two_blocks chunks window :
  supports_moving chunks window = true -> (2 <= length chunks)%nat /\ 2 <= window.
Proof.
  unfold supports_moving, zlen. intros H.
  destruct (window <=? 1) eqn:E1; [discriminate|].
  destruct (zmin_ne chunks <=? 0); [discriminate|].
  destruct (Z.of_nat (length chunks) <? 2) eqn:E2; [discriminate|]. lia.
Qed.

(* ====================================================================== *)
(* SlidingWindowReduction *)

Definition sw_row_ok (full : list Z) (window i : Z) (row : Z * Z * Z * Z) : Prop :=
  let '(out_len, band_offset, b, e) := row in
  out_len <= 0 \/
  (i <= b /\ b <= e /\ e < zlen full /\ 0 <= band_offset /\
   band_offset + out_len <= slice_sum full b (e + 1) /\
   (nthZ full i <= window - 1 -> i < b) /\
   0 <= i < zlen full /\ pre full i < zsum full - window + 1).

Fixpoint sw_rows_ok (full : list Z) (window i : Z) (plan : list (Z * Z * Z * Z)) : Prop :=
  match plan with
  | [] => True
  | row :: plan' => sw_row_ok full window i row /\ sw_rows_ok full window (i + 1) plan'
  end.

Lemma sw_plan_ok full window : nonneg_layout full -> 1 <= window ->
  forall rest i remaining, 0 <= i -> skipn (Z.to_nat i) full = rest ->
  (remaining = zsum full - window + 1 - pre full i \/ remaining <= 0) ->
  sw_rows_ok full window i (sw_plan (starts_of full) window rest i remaining).
Proof.
  intros Hnn Hw.
  induction rest as [|c cs IH]; intros i remaining Hi Hsk Hinv; cbn [sw_plan]; [exact I|].
  destruct (pre_succ full i c cs Hi Hsk) as (Hp & Hsk' & Hlt & Hnth).
  assert (0 <= c) as Hc by (rewrite <- Hnth; apply nthZ_nonneg; exact Hnn).
  pose proof (pre_nonneg full i Hnn) as Hs0.
  pose proof (pre_le_total full (i + 1) Hnn) as Hs1.
  set (out_len := Z.max 0 (Z.min c remaining)).
  assert (remaining - out_len = zsum full - window + 1 - pre full (i + 1) \/ remaining - out_len <= 0) as Hinv'
    by (subst out_len; lia).
  destruct (out_len <=? 0) eqn:E.
  - cbn [sw_rows_ok]. split; [left; lia|]. apply IH; [lia | exact Hsk' | exact Hinv'].
  - cbn [sw_rows_ok]. split; [|apply IH; [lia | exact Hsk' | exact Hinv']].
    right. rewrite (nth_starts full i) by lia.
    assert (remaining = zsum full - window + 1 - pre full i) as Hrem by (subst out_len; lia).
    set (edge := pre full i + window - 1).
    assert (0 <= edge <= edge + out_len - 1) as Hb1 by (subst edge; lia).
    assert (edge + out_len - 1 < zsum full) as Hb2 by (subst edge out_len; lia).
    pose proof (band_span full edge (edge + out_len - 1) Hnn Hb1 Hb2) as P. cbn zeta in P.
    set (b := bisect_right (starts_of full) edge - 1) in *.
    set (e := bisect_right (starts_of full) (edge + out_len - 1) - 1) in *.
    destruct P as (A & B & C & D & F).
    rewrite (nth_starts full b) by lia. rewrite F.
    pose proof (bisect_starts_inside full edge Hnn ltac:(lia)) as Q. cbn zeta in Q. fold b in Q.
    assert (i <= b) as Hib.
    { destruct (Z_le_gt_dec i b) as [L|G]; [exact L|].
      pose proof (pre_mono full (b + 1) i Hnn ltac:(lia)). subst edge. lia. }
    assert (nthZ full i <= window - 1 -> i < b) as Hguard.
    { intros Hle. destruct (Z_lt_ge_dec i b) as [L|G]; [exact L|].
      pose proof (pre_mono full (b + 1) (i + 1) Hnn ltac:(lia)). subst edge. lia. }
    repeat split; try lia; try exact Hguard.
Qed.

Lemma sw_loop_wf full window : nonneg_layout full -> forall plan i lo hi,
  sw_rows_ok full window i plan -> 0 <= lo <= hi -> wellformed (sw_loop full i plan lo hi).
Proof.
  intros Hnn. induction plan as [|row plan IH]; intros i lo hi H Hinv; cbn [sw_loop].
  - unfold wellformed. cbn [fst snd]. lia.
  - destruct row as [[[out_len band_offset] b] e]. cbn [sw_rows_ok] in H. destruct H as [Hrow Hrest].
    destruct (out_len <=? 0) eqn:E; [unfold wellformed; cbn [fst snd]; lia|].
    unfold sw_row_ok in Hrow. destruct Hrow as [Hz|(Hib & Hbe & He & Hoff & Hband & _ & _ & _)]; [lia|].
    pose proof (nthZ_nonneg full i Hnn).
    apply IH; [exact Hrest | lia].
Qed.

Theorem sliding_plan_rows full window :
  nonneg_layout full -> 1 <= window -> sw_rows_ok full window 0 (sliding_plan full window).
Proof.
  intros Hnn Hw. unfold sliding_plan.
  apply (sw_plan_ok full window Hnn Hw full 0 (zsum full - window + 1)); [lia | reflexivity|].
  rewrite pre_0. left. lia.
Qed.

(* zero-size chunks are allowed here; the window must be at least 1 *)
Theorem sliding_wellformed chunks axis itemsize window :
  0 <= itemsize -> Forall nonneg_layout chunks -> 1 <= window ->
  wellformed (sliding_transfer chunks axis itemsize window).
Proof.
  intros Hi Hc Hw. unfold sliding_transfer.
  pose proof (nth_nonneg_layout chunks axis Hc) as Hnn.
  pose proof (sliding_plan_rows (nth axis chunks []) window Hnn Hw) as Hplan.
  pose proof (sw_loop_wf (nth axis chunks []) window Hnn _ 0 0 0 Hplan ltac:(lia)) as Hwf.
  destruct (sw_loop (nth axis chunks []) 0 _ 0 0) as [lo hi].
  apply scale_wf; [exact Hwf | apply cross_nonneg; assumption].
Qed.

(* ---- inside the constructor's guard the band lies strictly to the right of the block ---- *)
Fixpoint sw_rows_right (i : Z) (plan : list (Z * Z * Z * Z)) : Prop :=
  match plan with
  | [] => True
  | (out_len, _, b, _) :: plan' => (out_len <= 0 \/ i < b) /\ sw_rows_right (i + 1) plan'
  end.

Definition emitting_small (full : list Z) (window : Z) : Prop :=
  forall j, 0 <= j < zlen full -> pre full j < zsum full - window + 1 -> nthZ full j <= window - 1.

Lemma sns_loop_small full depth R : nonneg_layout full ->
  forall rest i, 0 <= i -> skipn (Z.to_nat i) full = rest ->
  sns_loop depth R rest (pre full i) = true ->
  forall j, i <= j < zlen full -> pre full j < R -> nthZ full j <= depth.
Proof.
  intros Hnn. induction rest as [|c cs IH]; intros i Hi Hsk Hs j Hj Hpre.
  - exfalso. assert (length (skipn (Z.to_nat i) full) = 0%nat) as Hl by (rewrite Hsk; reflexivity).
    rewrite skipn_length in Hl. unfold zlen in Hj. lia.
  - destruct (pre_succ full i c cs Hi Hsk) as (Hp & Hsk' & Hlt & Hnth).
    cbn [sns_loop] in Hs.
    destruct (R <=? pre full i) eqn:E1.
    + pose proof (pre_mono full i j Hnn ltac:(lia)). lia.
    + destruct (depth <? c) eqn:E2; [discriminate|].
      destruct (Z.eq_dec j i) as [->|Hne]; [lia|].
      rewrite <- Hp in Hs. apply (IH (i + 1) ltac:(lia) Hsk' Hs j); lia.
Qed.

Lemma zmin_ne_pos l : 0 < zmin_ne l -> pos_layout l.
Proof.
  destruct l as [|x t]; [constructor|]. cbn [zmin_ne]. revert x.
  induction t as [|y t IH]; intros x H; cbn [fold_right] in H.
  - repeat constructor. exact H.
  - assert (0 < fold_right Z.min x t) as H1 by lia. assert (0 < y) as H2 by lia.
    specialize (IH x H1). inversion IH; subst. repeat constructor; assumption.
Qed.

Lemma supports_sliding_facts full window :
  supports_sliding full window = true ->
  pos_layout full /\ 2 <= window <= zsum full /\ emitting_small full window.
Proof.
  unfold supports_sliding. intros H.
  destruct (window - 1 <=? 0) eqn:E1; [discriminate|].
  destruct (zmin_ne full <=? 0) eqn:E2; [discriminate|].
  destruct (zsum full <? window) eqn:E3; [discriminate|].
  destruct ((window - 1 <=? zmin_ne full) && (window - 1 <? last full 0)); [discriminate|].
  pose proof (zmin_ne_pos full ltac:(lia)) as Hpos.
  repeat split; try lia; try exact Hpos.
  intros j Hj Hpre.
  apply (sns_loop_small full (window - 1) (zsum full - (window - 1)) (pos_nonneg _ Hpos) full 0 ltac:(lia) eq_refl H j); lia.
Qed.

Lemma rows_right full window : emitting_small full window -> forall plan i,
  sw_rows_ok full window i plan -> sw_rows_right i plan.
Proof.
  intros Hsmall. induction plan as [|row plan IH]; intros i H; [exact I|].
  destruct row as [[[out_len band_offset] b] e]. cbn [sw_rows_ok sw_rows_right] in *.
  destruct H as [Hrow Hrest]. split; [|apply IH; exact Hrest].
  unfold sw_row_ok in Hrow. destruct Hrow as [Hz|(_ & _ & _ & _ & _ & Hg & Hi & Hp)]; [left; exact Hz|].
  right. apply Hg. apply Hsmall; assumption.
Qed.

(* every output-emitting block of a layout the guard accepts has b > i, so `middles = b - i - 1`
   is >= 0 and the band never contains the block itself *)
Theorem sliding_guard_band_right full window :
  supports_sliding full window = true -> sw_rows_right 0 (sliding_plan full window).
Proof.
  intros H. destruct (supports_sliding_facts full window H) as (Hpos & Hw & Hsmall).
  apply (rows_right full window Hsmall). apply sliding_plan_rows; [apply pos_nonneg; exact Hpos | lia].
Qed.

(* a window longer than the axis: no output block, nothing moves *)
Theorem sliding_window_too_long chunks axis itemsize window :
  zsum (nth axis chunks []) < window ->
  sliding_transfer chunks axis itemsize window = (0, 0).
Proof.
  intros H. unfold sliding_transfer, sliding_plan.
  destruct (nth axis chunks []) as [|c cs] eqn:E; [reflexivity|].
  cbn [sw_plan]. assert (Z.max 0 (Z.min c (zsum (c :: cs) - window + 1)) <=? 0 = true) as -> by lia.
  cbn [sw_loop]. reflexivity.
Qed.

(* the constructor's guard needs at least two blocks ... *)
Theorem supports_sliding_two_blocks chunks window :
  supports_sliding chunks window = true -> (2 <= length chunks)%nat /\ 2 <= window.
Proof.
  unfold supports_sliding. intros H.
  destruct (window - 1 <=? 0) eqn:E1; [discriminate|].
  destruct chunks as [|c [|c2 t]]; cbn [length]; [cbn in H; discriminate | | lia].
  exfalso. cbn [zmin_ne fold_right zsum last] in H.
  destruct (c <=? 0) eqn:E2; [discriminate|].
  destruct (c + 0 <? window) eqn:E3; [discriminate|].
  assert ((window - 1 <=? c) && (window - 1 <? c) = true) as E4 by lia.
  rewrite E4 in H. discriminate.
Qed.

(* ... which matters: the estimate of a SINGLE block (built directly, outside the guard) is
   not zero — the `band` is the block itself and `middles` is -1 (see C27.v) *)
Theorem sliding_single_block_moves :
  exists chunks axis itemsize window,
    length (nth axis chunks []) = 1%nat /\ 1 <= window <= zsum (nth axis chunks []) /\
    sliding_transfer chunks axis itemsize window = (96, 216).
Proof. exists [[5]; [2; 1]], 0%nat, 8, 2. repeat split; try (cbn; lia). Qed.
