(* T4 — the crosswalk computed by intersect_1d is accepted by crosswalk_ok. *)
From DA Require Import PyBase PyBaseFacts Rechunk RechunkBase CrosswalkFacts.
From Coq Require Import ZifyBool.
Open Scope Z_scope.
Ltac Zify.zify_post_hook ::= Z.to_euclidean_division_equations.

Notation nonneg := (Forall (fun c : Z => 0 <= c)).

(* ------------------------------------------------------------------ *)
(* unfolding the stable merge of the labelled breakpoints *)
Lemma merge_breaks_nil_l n : merge_breaks [] n = map (pair false) n.
Proof. destruct n; reflexivity. Qed.

Lemma merge_breaks_nil_r o : merge_breaks o [] = map (pair true) o.
Proof. destruct o; reflexivity. Qed.

Lemma merge_breaks_cons x o y n :
  merge_breaks (x :: o) (y :: n) =
  if x <=? y then (true, x) :: merge_breaks o (y :: n) else (false, y) :: merge_breaks (x :: o) n.
Proof. reflexivity. Qed.

Lemma merge_step po pn oc nc :
  merge_breaks (cumsum_from po oc) (cumsum_from pn nc) =
  match oc, nc with
  | [], [] => []
  | [], cn :: nc' => (false, pn + cn) :: merge_breaks (cumsum_from po []) (cumsum_from (pn + cn) nc')
  | co :: oc', [] => (true, po + co) :: merge_breaks (cumsum_from (po + co) oc') (cumsum_from pn [])
  | co :: oc', cn :: nc' =>
      if po + co <=? pn + cn
      then (true, po + co) :: merge_breaks (cumsum_from (po + co) oc') (cumsum_from pn (cn :: nc'))
      else (false, pn + cn) :: merge_breaks (cumsum_from po (co :: oc')) (cumsum_from (pn + cn) nc')
  end.
Proof.
  destruct oc as [|co oc'], nc as [|cn nc']; cbn [cumsum_from].
  - reflexivity.
  - rewrite !merge_breaks_nil_l. reflexivity.
  - rewrite !merge_breaks_nil_r. reflexivity.
  - apply merge_breaks_cons.
Qed.

Lemma zsum_snoc l c : zsum (l ++ [c]) = zsum l + c.
Proof. rewrite zsum_app. cbn [zsum]. lia. Qed.

Lemma nonneg_app_inv (a b : list Z) : nonneg (a ++ b) -> nonneg a /\ nonneg b.
Proof. apply Forall_app. Qed.

(* the output of the loop, after the final "if ret_next: ret.append(ret_next)" *)
Definition flush (st : ix_state) : list (list (Z * Z * Z)) :=
  match ix_next st with [] => ix_ret st | nx => rev nx :: ix_ret st end.

Section Intersect.
Variables old new : list Z.
Hypothesis Hold : nonneg old.
Hypothesis Hnew : nonneg new.
Hypothesis Hne : old <> [].
Hypothesis Hsum : zsum old = zsum new.

Let loc := Z.of_nat (length old) - 1.
Let lob := zsum old.

Definition tiles (ps : list (Z * Z * Z)) (lo hi : Z) : Prop := pieces_tile (cum0 old) old ps lo hi = true.
Definition cwok (nw : list Z) (cw : list (list (Z * Z * Z))) : Prop :=
  crosswalk_ok_from (cum0 old) old nw cw 0 = true.

Definition piece_ok (p : Z * Z * Z) (pos : Z) : Prop :=
  let '(i, a, b) := p in
  0 <= i < lenZ' old /\ 0 <= a /\ a <= b /\ b <= nthZ old i /\ nthZ (cum0 old) i + a = pos.
Definition piece_end (p : Z * Z * Z) : Z := let '(i, a, b) := p in nthZ (cum0 old) i + b.

Lemma tiles_nil lo hi : tiles [] lo hi <-> lo = hi.
Proof. unfold tiles. cbn [pieces_tile]. apply Z.eqb_eq. Qed.

Lemma tiles_cons p t lo hi : tiles (p :: t) lo hi <-> piece_ok p lo /\ tiles t (piece_end p) hi.
Proof.
  unfold tiles, piece_ok, piece_end. destruct p as [[i a] b]. cbn [pieces_tile].
  rewrite !andb_true_iff, !Z.leb_le, Z.ltb_lt, Z.eqb_eq. tauto.
Qed.

Lemma tiles_snoc : forall ps p lo mid,
  tiles ps lo mid -> piece_ok p mid -> tiles (ps ++ [p]) lo (piece_end p).
Proof.
  induction ps as [|q t IH]; intros p lo mid H Hp; cbn [app].
  - apply tiles_nil in H. subst mid. apply tiles_cons. split; [exact Hp|]. apply tiles_nil. reflexivity.
  - apply tiles_cons in H. destruct H as [Hq Ht]. apply tiles_cons. split; [exact Hq|].
    eapply IH; eauto.
Qed.

Lemma tiles_nonempty ps lo hi : tiles ps lo hi -> lo < hi -> ps <> [].
Proof. intros H Hlt ->. apply tiles_nil in H. lia. Qed.

Lemma cwok_from_snoc : forall nw cw pos c ps,
  crosswalk_ok_from (cum0 old) old nw cw pos = true -> ps <> [] ->
  tiles ps (pos + zsum nw) (pos + zsum nw + c) ->
  crosswalk_ok_from (cum0 old) old (nw ++ [c]) (cw ++ [ps]) pos = true.
Proof.
  induction nw as [|x nw IH]; intros [|q cw] pos c ps H Hps Ht; cbn [crosswalk_ok_from app] in *;
    try discriminate.
  - cbn [zsum] in Ht. rewrite Z.add_0_r in Ht. unfold tiles in Ht. rewrite Ht.
    destruct ps; [congruence|reflexivity].
  - apply andb_true_iff in H. destruct H as [H1 H2]. rewrite H1. cbn [andb].
    apply IH; [exact H2|exact Hps|]. cbn [zsum] in Ht. rewrite !Z.add_assoc in Ht. exact Ht.
Qed.

Lemma cwok_snoc nw cw c ps :
  cwok nw cw -> ps <> [] -> tiles ps (zsum nw) (zsum nw + c) -> cwok (nw ++ [c]) (cw ++ [ps]).
Proof. unfold cwok. intros H Hps Ht. apply cwok_from_snoc; [exact H|exact Hps|exact Ht]. Qed.

(* a slice of the old block that follows the prefix od *)
Lemma piece_in_block od co oc' a b :
  old = od ++ co :: oc' -> 0 <= a -> a <= b -> b <= co ->
  piece_ok (Z.of_nat (length od), a, b) (zsum od + a) /\
  piece_end (Z.of_nat (length od), a, b) = zsum od + b.
Proof.
  intros Ho Ha Hab Hb. unfold piece_ok, piece_end, lenZ'.
  assert (nthZ (cum0 old) (Z.of_nat (length od)) = zsum od) as Hoff.
  { rewrite cum0_nthZ by (rewrite Ho, app_length; cbn [length]; lia).
    unfold cum. rewrite Nat2Z.id, Ho, firstn_app, Nat.sub_diag, firstn_all. cbn [firstn].
    rewrite app_nil_r. reflexivity. }
  assert (nthZ old (Z.of_nat (length od)) = co) as Hnth.
  { unfold nthZ. rewrite Nat2Z.id, Ho. apply nth_middle. }
  rewrite Hoff, Hnth. split; [|reflexivity].
  split; [rewrite Ho, app_length; cbn [length]; lia|]. lia.
Qed.

(* the zero-width piece at the very end of the last old block *)
Lemma piece_at_end : piece_ok (loc, last old 0, last old 0) (zsum old) /\
                     piece_end (loc, last old 0, last old 0) = zsum old.
Proof.
  destruct (exists_last Hne) as (od' & c & Ho).
  assert (0 <= c) as Hc.
  { rewrite Ho in Hold. apply nonneg_app_inv in Hold. destruct Hold as [_ H]. inversion H; assumption. }
  assert (loc = Z.of_nat (length od')) as Hloc.
  { unfold loc. rewrite Ho, app_length. cbn [length]. lia. }
  assert (last old 0 = c) as Hlast by (rewrite Ho; apply last_last).
  rewrite Hloc, Hlast.
  destruct (piece_in_block od' c [] c c Ho Hc ltac:(lia) ltac:(lia)) as [H1 H2].
  assert (zsum old = zsum od' + c) as Hz by (rewrite Ho; apply zsum_snoc).
  rewrite Hz. split; assumption.
Qed.

(* Loop invariant.  od / nd: the old / new chunks whose closing breakpoint has
   been consumed; oc / nc: the remaining ones; prev: the last breakpoint. *)
Definition inv (od oc nd nc : list Z) (st : ix_state) (prev : bool * Z) : Prop :=
  old = od ++ oc /\ new = nd ++ nc /\
  ix_old_idx st = Z.of_nat (length od) /\ ix_last_o_end st = last od 0 /\
  if fst prev then
    snd prev = zsum od /\ zsum nd < zsum od /\
    (forall cn nc', nc = cn :: nc' -> zsum od <= zsum nd + cn) /\
    cwok nd (rev (ix_ret st)) /\ tiles (rev (ix_next st)) (zsum nd) (zsum od)
  else
    snd prev = zsum nd /\ zsum od <= zsum nd /\
    (forall co oc', oc = co :: oc' -> zsum nd < zsum od + co) /\
    ix_last_end st = zsum nd - zsum od /\ cwok nd (rev (flush st)).

Lemma split_facts od oc nd nc :
  old = od ++ oc -> new = nd ++ nc ->
  nonneg oc /\ nonneg nc /\ zsum od + zsum oc = zsum nd + zsum nc /\ lob = zsum od + zsum oc.
Proof.
  intros Ho Hn. pose proof Hold as H1. pose proof Hnew as H2. pose proof Hsum as H3.
  unfold lob. rewrite Ho in H1, H3 |- *. rewrite Hn in H2, H3. rewrite !zsum_app in *.
  apply nonneg_app_inv in H1. apply nonneg_app_inv in H2. tauto.
Qed.

Lemma snoc_nonempty {A} (l : list A) x : l ++ [x] <> [].
Proof. intros H. apply app_eq_nil in H. destruct H; discriminate. Qed.

(* consuming an 'o' breakpoint *)
Lemma step_O od co oc' nd nc st prev :
  inv od (co :: oc') nd nc st prev ->
  (forall cn nc', nc = cn :: nc' -> zsum od + co <= zsum nd + cn) ->
  inv (od ++ [co]) oc' nd nc (ix_step loc lob st prev (true, zsum od + co)) (true, zsum od + co).
Proof.
  intros (Ho & Hn & Hidx & Hloe & Hp) Hm.
  destruct (split_facts _ _ _ _ Ho Hn) as (Hoc & Hnc & Hz & Hlob).
  inversion Hoc as [|? ? Hco Hoc']; subst x l.
  pose proof (zsum_nonneg _ Hoc') as Hzoc'. pose proof (zsum_nonneg _ Hnc) as Hznc.
  cbn [zsum] in Hz, Hlob.
  assert (old = (od ++ [co]) ++ oc') as Ho' by (rewrite <- app_assoc; exact Ho).
  assert (Z.of_nat (length (od ++ [co])) = Z.of_nat (length od) + 1) as Hlen
      by (rewrite app_length; cbn [length]; lia).
  destruct st as [le oi loe ret next]. cbn [ix_old_idx ix_last_o_end ix_last_end ix_ret ix_next] in *.
  unfold inv. rewrite !zsum_snoc, last_last, Hlen.
  destruct prev as [[|] pb]; cbn [fst snd] in Hp |- *.
  - (* o, o *)
    destruct Hp as (-> & Hlt & Hnext & Hcw & Ht).
    unfold ix_step. cbn [negb andb ix_old_idx ix_last_o_end ix_last_end ix_ret ix_next].
    replace (zsum od + co - zsum od + 0) with co by lia.
    destruct (zsum od + co =? zsum od) eqn:E; cbn [ix_old_idx ix_last_o_end ix_last_end ix_ret ix_next].
    + repeat (split; [first [assumption | lia]|]).
      replace (zsum od + co) with (zsum od) by lia. exact Ht.
    + repeat (split; [first [assumption | lia]|]). cbn [rev].
      destruct (piece_in_block od co oc' 0 co Ho ltac:(lia) Hco ltac:(lia)) as [Hpk Hpe].
      rewrite <- Hpe, Hidx. eapply tiles_snoc; [exact Ht|]. rewrite Z.add_0_r in Hpk. exact Hpk.
  - (* n, o *)
    destruct Hp as (-> & Hle & Hnexto & -> & Hcw).
    specialize (Hnexto co oc' eq_refl).
    unfold ix_step. cbn [negb andb ix_old_idx ix_last_o_end ix_last_end ix_ret ix_next].
    replace (zsum od + co - zsum nd + (zsum nd - zsum od)) with co by lia.
    destruct (zsum od + co =? zsum nd) eqn:E; [lia|].
    cbn [ix_old_idx ix_last_o_end ix_last_end ix_ret ix_next].
    repeat (split; [first [assumption | lia]|]). cbn [rev app].
    destruct (piece_in_block od co oc' (zsum nd - zsum od) co Ho ltac:(lia) ltac:(lia) ltac:(lia)) as [Hpk Hpe].
    apply tiles_cons. rewrite Hidx. split.
    + replace (zsum od + (zsum nd - zsum od)) with (zsum nd) in Hpk by lia. exact Hpk.
    + apply tiles_nil. exact Hpe.
Qed.

(* consuming an 'n' breakpoint *)
Lemma step_N od oc nd cn nc' st prev :
  inv od oc nd (cn :: nc') st prev ->
  (forall co oc', oc = co :: oc' -> zsum nd + cn < zsum od + co) ->
  inv od oc (nd ++ [cn]) nc' (ix_step loc lob st prev (false, zsum nd + cn)) (false, zsum nd + cn).
Proof.
  intros (Ho & Hn & Hidx & Hloe & Hp) Hm.
  destruct (split_facts _ _ _ _ Ho Hn) as (Hoc & Hnc & Hz & Hlob).
  inversion Hnc as [|? ? Hcn Hnc']; subst x l.
  pose proof (zsum_nonneg _ Hnc') as Hznc'. pose proof (zsum_nonneg _ Hoc) as Hzoc.
  cbn [zsum] in Hz.
  assert (new = (nd ++ [cn]) ++ nc') as Hn' by (rewrite <- app_assoc; exact Hn).
  destruct st as [le oi loe ret next]. cbn [ix_old_idx ix_last_o_end ix_last_end ix_ret ix_next] in *.
  unfold inv. rewrite !zsum_snoc.
  destruct prev as [[|] pb]; cbn [fst snd] in Hp |- *.
  - (* o, n *)
    destruct Hp as (-> & Hlt & Hnext & Hcw & Ht).
    specialize (Hnext cn nc' eq_refl).
    unfold ix_step. cbn [negb andb ix_old_idx ix_last_o_end ix_last_end ix_ret ix_next].
    destruct (zsum nd + cn =? zsum od) eqn:E; cbn [ix_old_idx ix_last_o_end ix_last_end ix_ret ix_next].
    + repeat (split; [first [assumption | lia]|]).
      unfold flush. cbn [ix_ret ix_next].
      pose proof (tiles_nonempty _ _ _ Ht Hlt) as Hne'.
      destruct next as [|p t]; [cbn in Hne'; congruence|].
      cbn [rev]. apply cwok_snoc; [exact Hcw|apply snoc_nonempty|].
      cbn [rev] in Ht. replace (zsum nd + cn) with (zsum od) by lia. exact Ht.
    + destruct oc as [|co oc'].
      { cbn [zsum] in Hz. lia. }
      pose proof (Hm co oc' eq_refl) as Hm1.
      repeat (split; [first [assumption | lia]|]).
      unfold flush. cbn [ix_ret ix_next rev].
      apply cwok_snoc; [exact Hcw|apply snoc_nonempty|].
      destruct (piece_in_block od co oc' 0 (zsum nd + cn - zsum od) Ho ltac:(lia) ltac:(lia) ltac:(lia))
        as [Hpk Hpe].
      replace (zsum nd + cn) with (zsum od + (zsum nd + cn - zsum od)) at 2 by lia.
      rewrite <- Hpe, Hidx, Z.add_0_r. eapply tiles_snoc; [exact Ht|].
      rewrite Z.add_0_r in Hpk. exact Hpk.
  - (* n, n *)
    destruct Hp as (-> & Hle & Hnexto & -> & Hcw).
    unfold ix_step. cbn [negb andb ix_old_idx ix_last_o_end ix_last_end ix_ret ix_next].
    set (fl := flush (mk_ix (zsum nd - zsum od) oi loe ret next)) in *.
    change (match next with [] => ret | nx => rev nx :: ret end) with fl.
    replace (zsum nd + cn - zsum nd + (zsum nd - zsum od)) with (zsum nd + cn - zsum od) by lia.
    assert (forall p, piece_ok p (zsum nd) -> piece_end p = zsum nd + cn ->
                      cwok (nd ++ [cn]) (rev ([p] :: fl))) as Hfin.
    { intros p Hpk Hpe. cbn [rev]. apply cwok_snoc; [exact Hcw|discriminate|].
      apply tiles_cons. split; [exact Hpk|]. apply tiles_nil. exact Hpe. }
    destruct (zsum nd + cn =? zsum nd) eqn:E; cbn [ix_old_idx ix_last_o_end ix_last_end ix_ret ix_next].
    + destruct (zsum nd + cn =? lob) eqn:El; cbn [ix_old_idx ix_last_o_end ix_last_end ix_ret ix_next].
      * destruct oc as [|co oc'].
        2:{ specialize (Hnexto co oc' eq_refl). inversion Hoc; subst. cbn [zsum] in Hlob.
            pose proof (zsum_nonneg oc' ltac:(assumption)). lia. }
        assert (od = old) as Hod by (rewrite Ho at 1; symmetry; apply app_nil_r).
        repeat (split; [first [assumption | lia]|]).
        unfold flush. cbn [ix_ret ix_next rev app].
        destruct piece_at_end as [Hpk Hpe]. rewrite Hloe, Hod.
        apply Hfin; [replace (zsum nd) with (zsum old) by lia; exact Hpk|].
        rewrite Hpe. lia.
      * destruct oc as [|co oc'].
        { cbn [zsum] in Hlob, Hz. lia. }
        specialize (Hnexto co oc' eq_refl). pose proof (Hm co oc' eq_refl) as Hm1.
        repeat (split; [first [assumption | lia]|]).
        unfold flush. cbn [ix_ret ix_next rev app].
        destruct (piece_in_block od co oc' (zsum nd - zsum od) (zsum nd + cn - zsum od) Ho
                    ltac:(lia) ltac:(lia) ltac:(lia)) as [Hpk Hpe].
        rewrite Hidx. apply Hfin; [|lia].
        replace (zsum od + (zsum nd - zsum od)) with (zsum nd) in Hpk by lia. exact Hpk.
    + destruct oc as [|co oc'].
      { cbn [zsum] in Hlob, Hz. lia. }
      specialize (Hnexto co oc' eq_refl). pose proof (Hm co oc' eq_refl) as Hm1.
      repeat (split; [first [assumption | lia]|]).
      unfold flush. cbn [ix_ret ix_next rev app].
      destruct (piece_in_block od co oc' (zsum nd - zsum od) (zsum nd + cn - zsum od) Ho
                  ltac:(lia) ltac:(lia) ltac:(lia)) as [Hpk Hpe].
      rewrite Hidx. apply Hfin; [|lia].
      replace (zsum od + (zsum nd - zsum od)) with (zsum nd) in Hpk by lia. exact Hpk.
Qed.

(* main phase: at least one 'n' breakpoint has been consumed, or prev = 'o'
   with a non-trivial partial tiling *)
Lemma phase2 : forall n od oc nd nc st prev po pn,
  (length oc + length nc)%nat = n -> po = zsum od -> pn = zsum nd ->
  inv od oc nd nc st prev ->
  cwok new (rev (flush (ix_loop loc lob st prev
                          (merge_breaks (cumsum_from po oc) (cumsum_from pn nc))))).
Proof.
  induction n as [|n IH]; intros od oc nd nc st prev po pn Hlen -> -> Hinv; rewrite merge_step;
    destruct oc as [|co oc'], nc as [|cn nc']; cbn [length] in Hlen; try lia; cbn [ix_loop].
  - (* all breakpoints consumed *)
    destruct Hinv as (Ho & Hn & _ & _ & Hp). rewrite app_nil_r in Ho, Hn. subst od nd.
    destruct prev as [[|] pb]; cbn [fst snd] in Hp.
    + pose proof Hsum. lia.
    + tauto.
  - apply (IH od [] (nd ++ [cn]) nc'); [cbn [length]; lia|reflexivity|symmetry; apply zsum_snoc|].
    apply step_N; [exact Hinv|]. intros; discriminate.
  - apply (IH (od ++ [co]) oc' nd []); [cbn [length]; lia|symmetry; apply zsum_snoc|reflexivity|].
    apply step_O; [exact Hinv|]. intros; discriminate.
  - destruct (zsum od + co <=? zsum nd + cn) eqn:E; cbn [ix_loop].
    + apply (IH (od ++ [co]) oc' nd (cn :: nc')); [cbn [length]; lia|symmetry; apply zsum_snoc|reflexivity|].
      apply step_O; [exact Hinv|].
      intros cn0 nc0 H0. injection H0 as <- <-. lia.
    + apply (IH od (co :: oc') (nd ++ [cn]) nc'); [cbn [length]; lia|reflexivity|symmetry; apply zsum_snoc|].
      apply step_N; [exact Hinv|].
      intros co0 oc0 H0. injection H0 as <- <-. lia.
Qed.

(* initial phase: only 'o' breakpoints at position 0 (leading empty old
   blocks) have been consumed, the first 'n' breakpoint (n, 0) is pending *)
Lemma phase1 : forall oc od le,
  Forall (fun c => c = 0) od -> old = od ++ oc ->
  cwok new (rev (flush (ix_loop loc lob (mk_ix le (Z.of_nat (length od)) 0 [] []) (true, 0)
                          (merge_breaks (cumsum_from 0 oc) (0 :: cumsum_from 0 new))))).
Proof.
  assert (forall od, Forall (fun c => c = 0) od -> zsum od = 0 /\ last od 0 = 0) as Hzeros.
  { induction 1 as [|x t Hx Ht IH]; [split; reflexivity|]. subst x. destruct IH as [IH1 IH2].
    split; [cbn [zsum]; lia|]. destruct t; [reflexivity|exact IH2]. }
  assert (forall od oc le, Forall (fun c => c = 0) od -> old = od ++ oc ->
            (forall co oc', oc = co :: oc' -> 0 < co) ->
            cwok new (rev (flush (ix_loop loc lob (mk_ix le (Z.of_nat (length od)) 0 [] []) (true, 0)
                                    ((false, 0) :: merge_breaks (cumsum_from 0 oc) (cumsum_from 0 new))))))
    as Hfirst_n.
  { intros od oc le Hz Ho Hpos. destruct (Hzeros od Hz) as [Hz1 Hz2].
    cbn [ix_loop].
    apply (phase2 _ od oc [] new _ _ 0 0 eq_refl); [symmetry; exact Hz1|reflexivity|].
    unfold inv, ix_step. cbn [fst snd negb andb Z.eqb ix_old_idx ix_last_o_end ix_last_end ix_ret ix_next zsum].
    repeat (split; [first [assumption | reflexivity | lia]|]).
    split; [intros co oc' H; specialize (Hpos co oc' H); lia|].
    split; [lia|]. reflexivity. }
  induction oc as [|co oc' IH]; intros od le Hz Ho.
  - cbn [cumsum_from]. rewrite merge_breaks_nil_l. cbn [map].
    rewrite <- merge_breaks_nil_l.
    apply (Hfirst_n od [] le); [exact Hz|exact Ho|]. intros; discriminate.
  - assert (0 <= co) as Hco.
    { pose proof Hold as H. rewrite Ho in H. apply nonneg_app_inv in H. destruct H as [_ H].
      inversion H; assumption. }
    change (cumsum_from 0 (co :: oc')) with (0 + co :: cumsum_from (0 + co) oc').
    rewrite merge_breaks_cons. destruct (0 + co <=? 0) eqn:E.
    + assert (co = 0) as -> by lia. change (0 + 0) with 0. cbn [ix_loop].
      replace (ix_step loc lob (mk_ix le (Z.of_nat (length od)) 0 [] []) (true, 0) (true, 0))
        with (mk_ix 0 (Z.of_nat (length (od ++ [0]))) 0 [] []).
      2:{ unfold ix_step. cbn [negb andb Z.eqb ix_old_idx ix_last_o_end ix_last_end ix_ret ix_next].
          rewrite app_length. cbn [length]. f_equal; lia. }
      apply IH.
      * apply Forall_app. split; [exact Hz|]. constructor; [reflexivity|constructor].
      * rewrite <- app_assoc. exact Ho.
    + change (0 + co :: cumsum_from (0 + co) oc') with (cumsum_from 0 (co :: oc')).
      apply Hfirst_n; [exact Hz|exact Ho|]. intros co0 oc0 H0. injection H0 as <- <-. lia.
Qed.

Lemma intersect_1d_ok_section : crosswalk_ok old new (intersect_1d old new) = true.
Proof.
  unfold intersect_1d, cum0, cumsum. rewrite merge_breaks_cons. cbn [Z.leb Z.compare].
  exact (phase1 old [] 0 (Forall_nil _) eq_refl).
Qed.
End Intersect.

(* T4 *)
Theorem intersect_1d_ok old new :
  nonneg old -> nonneg new -> old <> [] -> new <> [] -> zsum old = zsum new ->
  crosswalk_ok old new (intersect_1d old new) = true.
Proof. intros Ho Hn Hne _ Hs. apply intersect_1d_ok_section; assumption. Qed.

(* old <> [] is needed: with no old block there is nothing an empty new block
   could take its (empty) slice from *)
Example intersect_1d_empty_old : crosswalk_ok [] [0] (intersect_1d [] [0]) = false.
Proof. vm_compute. reflexivity. Qed.

(* new = [] is also fine (the sum forces old to consist of empty blocks) *)
Example intersect_1d_empty_new : crosswalk_ok [0;0] [] (intersect_1d [0;0] []) = true.
Proof. vm_compute. reflexivity. Qed.

Example intersect_1d_ok_hyps_sat :
  nonneg [2;0;2] /\ nonneg [0;4] /\ [2;0;2] <> [] /\ [0;4] <> [] /\ zsum [2;0;2] = zsum [0;4] /\
  intersect_1d [2;0;2] [0;4] = [[(0,0,0)]; [(0,0,2);(2,0,2)]] /\
  intersect_1d [2;0;2] [4;0] = [[(0,0,2);(2,0,2)]; [(2,2,2)]] /\
  intersect_1d [10;10;10;10;10] [25;5;20]
  = [[(0,0,10);(1,0,10);(2,0,5)]; [(2,5,10)]; [(3,0,10);(4,0,10)]].
Proof.
  repeat split; try discriminate; repeat constructor; lia.
Qed.
