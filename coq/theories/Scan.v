(* C19 — cumulative scans (dask_array/reductions/_cumulative.py), 1-D model over an
   abstract monoid (M, op, e).  Definitions only; proofs in ScanFacts.v.

   A block is a `list M`; an array chunked along the scan axis is a `list (list M)`.
   `op` models `binop` (np.add / np.multiply merged by _cumsum_merge/_cumprod_merge),
   `e` models `ident`, `scan` models `func` (np.cumsum / np.cumprod on one block) and
   `mtotal` models `preop` (np.sum / np.prod with keepdims=True on one block).
   N-D arrays run the same wiring independently for every index of the other axes
   (the `product(...)` loops of `_layer` only enumerate those indices). *)
From DA Require Import PyBase.
Open Scope Z_scope.

Section Scan.
  Variable M : Type.
  Variable op : M -> M -> M.
  Variable e : M.

  (* func(x, axis): np.cumsum / np.cumprod of one block: out[0] = x[0], out[k] = out[k-1] op x[k] *)
  Fixpoint scan_from (acc : M) (l : list M) : list M :=
    match l with
    | [] => []
    | x :: t => op acc x :: scan_from (op acc x) t
    end.
  Definition scan (l : list M) : list M :=
    match l with
    | [] => []
    | x :: t => x :: scan_from x t
    end.

  (* preop(x, axis, keepdims=True): np.sum / np.prod of one block; the identity for an empty block *)
  Definition mtotal (l : list M) : M :=
    match l with
    | [] => e
    | x :: t => fold_left op t x
    end.

  (* _cum_tail(getitem, slc, ident, axis, x): last hyperplane x[-1:], or the identity when the block is empty *)
  Definition cum_tail (pb : list M) : M :=
    match pb with
    | [] => e
    | _ :: _ => last pb e
    end.

  (* binop(extra, per_block): NumPy broadcasting of the carried hyperplane against a block *)
  Definition bcast (extra : M) (pb : list M) : list M := map (op extra) pb.

  (* CumReduction._layer, the `for i in range(1, n)` loop.  `extra` is the value of key
     (name, "extra", i-1) and `prev` the per-block result (name-chunk, i-1):
       this_extra      = binop(extra_{i-1}, _cum_tail(per_block_{i-1}))
       (name, i)       = binop(this_extra, per_block_i)                         *)
  Fixpoint seq_rest (extra : M) (prev : list M) (blocks : list (list M)) : list (list M) :=
    match blocks with
    | [] => []
    | b :: t =>
        let this_extra := op extra (cum_tail prev) in
        bcast this_extra (scan b) :: seq_rest this_extra (scan b) t
    end.

  (* CumReduction._layer: block 0 is the per-block result itself, extra_0 = ident *)
  Definition cum_sequential (blocks : list (list M)) : list (list M) :=
    match blocks with
    | [] => []
    | b0 :: t => scan b0 :: seq_rest e (scan b0) t
    end.

  (* ---- Blelloch ------------------------------------------------------------- *)
  (* prefix_vals is a Python list updated in place: prefix_vals[i] = v *)
  Fixpoint upd (l : list M) (i : nat) (v : M) : list M :=
    match l, i with
    | [], _ => []
    | _ :: t, O => v :: t
    | x :: t, S j => x :: upd t j v
    end.
  Definition getZ (l : list M) (i : Z) : M := nth (Z.to_nat i) l e.

  (* one `for i in range(start, n_vals, stride2)` pass of either sweep:
       prefix_vals[i] = binop(prefix_vals[i - stride], prefix_vals[i])           *)
  Definition sweep_pass (pv : list M) (start n_vals stride stride2 : Z) : list M :=
    fold_left (fun pv i => upd pv (Z.to_nat i) (op (getZ pv (i - stride)) (getZ pv i)))
              (zrange start n_vals stride2) pv.

  (* Upsweep: stride = 1; stride2 = 2; while stride2 <= n_vals: pass(stride2 - 1); stride = stride2; stride2 *= 2 *)
  Fixpoint upsweep (fuel : nat) (pv : list M) (n_vals stride stride2 : Z) : option (list M) :=
    if stride2 <=? n_vals then
      match fuel with
      | O => None
      | S f => upsweep f (sweep_pass pv (stride2 - 1) n_vals stride stride2) n_vals stride2 (stride2 * 2)
      end
    else Some pv.

  (* Downsweep: while stride > 0: pass(stride2 + stride - 1); stride2 = stride; stride //= 2 *)
  Fixpoint downsweep (fuel : nat) (pv : list M) (n_vals stride stride2 : Z) : option (list M) :=
    if stride >? 0 then
      match fuel with
      | O => None
      | S f => downsweep f (sweep_pass pv (stride2 + stride - 1) n_vals stride stride2) n_vals (stride / 2) stride
      end
    else Some pv.

  (* 2 ** math.ceil(math.log2(k)) for an int k >= 1: the least power of two >= k
     (math.log2 of an int is correctly rounded and exact on powers of two, so the ceil is
     the exact one for every k < 2^53; the harness compares the real wiring for every
     block count it generates) *)
  Fixpoint pow2_ge (fuel : nat) (p k : Z) : Z :=
    if k <=? p then p else
    match fuel with
    | O => p
    | S f => pow2_ge f (2 * p) k
    end.

  (* CumReductionBlelloch._layer, the two sweeps over prefix_vals = the block totals of
     all blocks but the last.  Result: the final prefix_vals. *)
  Definition blelloch_prefix (totals : list M) : option (list M) :=
    let n_vals := Z.of_nat (length totals) in
    if n_vals >=? 2 then
      match upsweep (length totals) totals n_vals 1 2 with
      | None => None
      | Some pv =>
          let stride2 := Z.max 2 (pow2_ge (length totals) 1 (n_vals / 2)) in
          downsweep (S (length totals)) pv n_vals (stride2 / 2) stride2
      end
    else Some totals.

  (* Phase 2: block 0 -> _prefixscan_first = func(x); block i+1 -> _prefixscan_combine =
     binop(prefix_vals[i], func(x_{i+1})) (zip(full_indices[1:], prefix_vals)) *)
  Fixpoint combine_rest (pv : list M) (blocks : list (list M)) : list (list M) :=
    match pv, blocks with
    | p :: pv', b :: t => bcast p (scan b) :: combine_rest pv' t
    | _, _ => []
    end.

  Definition cum_blelloch (blocks : list (list M)) : option (list (list M)) :=
    match blocks with
    | [] => Some []
    | b0 :: t =>
        match blelloch_prefix (map mtotal (removelast blocks)) with
        | None => None
        | Some pv => Some (scan b0 :: combine_rest pv t)
        end
    end.
End Scan.

Arguments scan_from {M}. Arguments scan {M}. Arguments mtotal {M}. Arguments cum_tail {M}.
Arguments bcast {M}. Arguments seq_rest {M}. Arguments cum_sequential {M}.
Arguments upd {M}. Arguments getZ {M}. Arguments sweep_pass {M}. Arguments upsweep {M}.
Arguments downsweep {M}. Arguments blelloch_prefix {M}. Arguments combine_rest {M}.
Arguments cum_blelloch {M}.

(* the wiring alone (what the harness reads back from the real `_layer()` graph): run the
   sweeps over the free monoid with total_i = [i]; slot i then lists, in order, the blocks
   whose totals it combines *)
Definition blelloch_wiring (n_vals : nat) : option (list (list Z)) :=
  blelloch_prefix (@app Z) [] (map (fun i => [Z.of_nat i]) (seq 0 n_vals)).

(* the individual binop tasks of the two sweeps, in creation order, as (i, i - stride):
   key (name, index_i, level, i) = binop(prefix_vals[i - stride], prefix_vals[i]) *)
Fixpoint up_tasks (fuel : nat) (n_vals stride stride2 level : Z) : list (Z * Z * Z) :=
  if stride2 <=? n_vals then
    match fuel with
    | O => []
    | S f => map (fun i => (level, i, i - stride)) (zrange (stride2 - 1) n_vals stride2)
             ++ up_tasks f n_vals stride2 (stride2 * 2) (level + 1)
    end
  else [].
Fixpoint up_levels (fuel : nat) (n_vals stride2 level : Z) : Z :=
  if stride2 <=? n_vals then
    match fuel with O => level | S f => up_levels f n_vals (stride2 * 2) (level + 1) end
  else level.
Fixpoint down_tasks (fuel : nat) (n_vals stride stride2 level : Z) : list (Z * Z * Z) :=
  if stride >? 0 then
    match fuel with
    | O => []
    | S f => map (fun i => (level, i, i - stride)) (zrange (stride2 + stride - 1) n_vals stride2)
             ++ down_tasks f n_vals (stride / 2) stride (level + 1)
    end
  else [].
Definition blelloch_tasks (n_vals : Z) : list (Z * Z * Z) :=
  if n_vals >=? 2 then
    let fuel := S (Z.to_nat n_vals) in
    let stride2 := Z.max 2 (pow2_ge fuel 1 (n_vals / 2)) in
    up_tasks fuel n_vals 1 2 0 ++ down_tasks fuel n_vals (stride2 / 2) stride2 (up_levels fuel n_vals 2 0)
  else [].
