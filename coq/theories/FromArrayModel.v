(* L2 — model of dask_array/io/_from_array.py: FromArray region pushdown
   (_accept_slice), read requests (_layer + slices_from_chunks) and the
   storage-grid logic of _accept_rechunk / _source_storage_chunks.
   Definitions only (proofs: FromArrayFacts.v, statements: Properties/C24.v).

   A FromArray over an N-D source is a list of per-axis records (N-D = product of
   axes).  Python keeps `_region` as `None` or a tuple with one slice per axis;
   here every axis carries `a_region : option pslice` and `has_region` recovers
   the global `_region is not None` test (all axes agree by construction). *)
From DA Require Export PyBase Slicing.
Open Scope Z_scope.

Record axis := mkaxis {
  a_base : Z;                  (* GHOST: position, in the data the user passed to
                                  from_array, of element 0 of `self.array` on this
                                  axis.  Non-zero only after the NumPy eager copy
                                  `source = source[new_region].copy()`. *)
  a_dim : Z;                   (* self.array.shape[ax] *)
  a_region : option pslice;    (* self.operand("_region")[ax], None when _region is None *)
  a_chunks : list Z            (* self.chunks[ax] *)
}.
Definition fa := list axis.

Definition is_some {A} (o : option A) : bool := match o with Some _ => true | None => false end.

(* `region is not None` (rank >= 1) *)
Definition has_region (f : fa) : bool :=
  match f with a :: _ => is_some (a_region a) | [] => false end.

(* FromArray._effective_shape, one axis: len(range( *slc.indices(dim) )) or dim *)
Definition eff_len (dim : Z) (region : option pslice) : Z :=
  match region with None => dim | Some r => slice_len r dim end.
Definition a_eff (a : axis) : Z := eff_len (a_dim a) (a_region a).
Definition eff_shape (f : fa) : list Z := map a_eff f.

(* slc.indices(dim_size)[0] — the offset _layer adds (0 without a region) *)
Definition region_start (dim : Z) (region : option pslice) : Z :=
  match region with None => 0 | Some r => let '(a, _, _) := indices r dim in a end.
Definition region_stop (dim : Z) (region : option pslice) : Z :=
  match region with None => dim | Some r => let '(_, b, _) := indices r dim in b end.

(* ---------------------------------------------------------------------- *)
(* FromArray._accept_slice *)

(* the three early `return None` tests, per index element *)
Definition slice_pushable (e : pidx) : bool :=
  match e with
  | INone => false
  | IInt _ => true
  | ISlice s => match s_step s with None => true | Some k => k =? 1 end
  end.

(* full_index = index + (slice(None),) * (ndim - len(index)) *)
Definition pad_index (index : list pidx) (ndim : nat) : list pidx :=
  index ++ repeat (ISlice colon) (ndim - length index).

Definition is_int (e : pidx) : bool := match e with IInt _ => true | _ => false end.

(* region_index element: slice(idx, idx + 1) for an Integral, idx otherwise *)
Definition ri_of (e : pidx) : pslice :=
  match e with
  | IInt i => mkslice (Some i) (Some (i + 1)) None
  | ISlice s => s
  | INone => colon                          (* excluded by slice_pushable *)
  end.

(* one axis of new_region / new_chunks *)
Definition accept_axis (a : axis) (e : pidx) : axis :=
  let ri := ri_of e in
  let new_region :=
    match a_region a with
    | Some old => compose_slices old ri (a_dim a)        (* _compose_slices(old_slc, new_slc, dim_size) *)
    | None => ri
    end in
  let new_chunks := compute_sliced_chunks (a_chunks a) ri (a_eff a) in
  mkaxis (a_base a) (a_dim a) (Some new_region) new_chunks.

(* extract_index element *)
Definition extract_of (e : pidx) : pidx :=
  match e with IInt _ => IInt 0 | _ => ISlice colon end.

(* non-ndarray source.  Result: None = declined; Some (new_io, extract) where
   extract = Some idx when the result is SliceSlicesIntegers(new_io, idx). *)
Definition accept_slice (f : fa) (index : list pidx) : option (fa * option (list pidx)) :=
  if negb (forallb slice_pushable index) then None
  else
    let full := pad_index index (length f) in
    let f' := map (fun p => accept_axis (fst p) (snd p)) (combine f full) in
    Some (f', if existsb is_int full then Some (map extract_of full) else None).

(* the `if is_ndarray:` block: drop a full region / copy a small one *)
Definition zprod (l : list Z) : Z := fold_right Z.mul 1 l.

Definition drop_region (a : axis) : axis := mkaxis (a_base a) (a_dim a) None (a_chunks a).
Definition copy_region (a : axis) : axis :=
  mkaxis (a_base a + region_start (a_dim a) (a_region a)) (a_eff a) None (a_chunks a).

Inductive np_case := NpFull | NpCopy | NpKeep.

Definition np_decide (itemsize limit : Z) (f : fa) : np_case :=
  if zlist_eqb (eff_shape f) (map a_dim f) then NpFull
  else if zprod (eff_shape f) * itemsize <=? limit then NpCopy
  else NpKeep.

Definition np_adjust (itemsize limit : Z) (f : fa) : fa :=
  match np_decide itemsize limit f with
  | NpFull => map drop_region f
  | NpCopy => map copy_region f
  | NpKeep => f
  end.

Definition accept_slice_np (itemsize limit : Z) (f : fa) (index : list pidx)
  : option (fa * option (list pidx)) :=
  match accept_slice f index with
  | None => None
  | Some (f', ext) => Some (np_adjust itemsize limit f', ext)
  end.

(* ---------------------------------------------------------------------- *)
(* FromArray._layer read requests.
   slices_from_chunks, one axis: [slice(s, s + c)] over cached_cumsum(initial_zero) *)
Fixpoint slices_from (pos : Z) (chunks : list Z) : list (Z * Z) :=
  match chunks with
  | [] => []
  | c :: t => (pos, pos + c) :: slices_from (pos + c) t
  end.

(* slice(s.start + offset, s.stop + offset) *)
Definition axis_requests (a : axis) : list (Z * Z) :=
  let off := region_start (a_dim a) (a_region a) in
  map (fun p => (fst p + off, snd p + off)) (slices_from 0 (a_chunks a)).

(* itertools.product( *per_axis ) in C order *)
Fixpoint cart {A} (ls : list (list A)) : list (list A) :=
  match ls with
  | [] => [[]]
  | l :: rest => flat_map (fun x => map (cons x) (cart rest)) l
  end.

Definition layer_requests (f : fa) : list (list (Z * Z)) := cart (map axis_requests f).

(* ---------------------------------------------------------------------- *)
(* _source_storage_chunks(array): walk the wrapper chain (each layer exposes
   optional .shards / .chunks), at most 16 layers. *)
Definition truthy (o : option (list Z)) : option (list Z) :=
  match o with Some (x :: t) => Some (x :: t) | _ => None end.

Definition shards_or_chunks (sh ch : option (list Z)) : option (list Z) :=
  match truthy sh with Some l => Some l | None => ch end.

Fixpoint storage_walk (fuel : nat) (layers : list (option (list Z) * option (list Z))) : option (list Z) :=
  match fuel, layers with
  | S f, (sh, ch) :: rest =>
      match shards_or_chunks sh ch with
      | Some raw => Some raw
      | None => storage_walk f rest
      end
  | _, _ => None
  end.
Definition source_storage_chunks := storage_walk 16.

(* storage_chunks validation at the top of _accept_rechunk *)
Definition storage_grid (raw : option (list Z)) (ndim : nat) : option (list Z) :=
  match raw with
  | None => None
  | Some st =>
      if negb (Nat.eqb (length st) ndim) || existsb (fun c => c <=? 0) st then None else Some st
  end.

(* Python truthiness of an int *)
Definition pytrue (z : Z) : bool := negb (z =? 0).

Definition zmax_list (l : list Z) : Z := fold_right Z.max (hd 0 l) l.    (* max(l), l non-empty *)

(* region case, one axis *)
Definition splits_storage (start storage : Z) (dim_chunks : list Z) : bool :=
  pytrue (start mod storage)
  || existsb (fun c => pytrue (c mod storage)) (removelast dim_chunks)
  || ((last dim_chunks 0 >? storage) && pytrue (last dim_chunks 0 mod storage)).

Definition region_boundaries (start stop storage : Z) : list Z :=
  let first := ((start + storage - 1) / storage) * storage in
  0 :: map (fun b => b - start) (filter (fun b => b >? start) (zrange first stop storage))
    ++ [stop - start].

(* tuple(right - left for left, right in zip(boundaries, boundaries[1:])) *)
Definition diffs (l : list Z) : list Z :=
  map (fun p => snd p - fst p) (combine l (tl l)).

(* None = `return None` (step != 1) *)
Definition region_read_axis (dim_chunks : list Z) (storage : Z) (slc : pslice) (dim : Z) : option (list Z) :=
  let '(start, stop, step) := indices slc dim in
  if negb (splits_storage start storage dim_chunks) then Some dim_chunks
  else if negb (step =? 1) then None
  else Some (diffs (region_boundaries start stop storage)).

(* zip(chunks, storage_chunks, region, self.array.shape) *)
Fixpoint region_read (chunks : list (list Z)) (st : list Z) (f : fa) : option (list (list Z)) :=
  match chunks, st, f with
  | dc :: chunks', s :: st', a :: f' =>
      match a_region a with
      | None => None                             (* not reached: has_region *)
      | Some slc =>
          match region_read_axis dc s slc (a_dim a), region_read chunks' st' f' with
          | Some r, Some rest => Some (r :: rest)
          | _, _ => None
          end
      end
  | _, _, _ => Some []
  end.

(* plain case *)
Definition respects_storage_axis (dim_chunks : list Z) (storage : Z) : bool :=
  forallb (fun b => b mod storage =? 0) (cumsum (removelast dim_chunks)).

Fixpoint respects_storage (chunks : list (list Z)) (st : list Z) : bool :=
  match chunks, st with
  | dc :: chunks', s :: st' => respects_storage_axis dc s && respects_storage chunks' st'
  | _, _ => true
  end.

Definition plain_read_size (dim_chunks : list Z) (storage : Z) : Z :=
  let target := zmax_list dim_chunks in
  let chunk_size := Z.max target storage in
  ((chunk_size + storage - 1) / storage) * storage.

(* normalize_chunks((size,), (d,)) = blockdims_from_blockshape, size > 0 *)
Definition uniform_chunks (d bd : Z) : list Z :=
  if d =? 0 then [0]
  else repeat bd (Z.to_nat (d / bd)) ++ (if d mod bd =? 0 then [] else [d mod bd]).

Fixpoint plain_read (chunks : list (list Z)) (st : list Z) (shape : list Z) : list (list Z) :=
  match chunks, st, shape with
  | dc :: chunks', s :: st', d :: shape' =>
      uniform_chunks d (plain_read_size dc s) :: plain_read chunks' st' shape'
  | _, _, _ => []
  end.

Inductive rechunk_out :=
| PushAll (chunks : list (list Z))             (* self._with_chunks(chunks) *)
| ReadThenRechunk (read_chunks : list (list Z)) (* Rechunk(self._with_chunks(read_chunks), chunks, ...) *)
| Decline.                                      (* None *)

Definition rechunk_out_eqb (a b : rechunk_out) : bool :=
  match a, b with
  | PushAll x, PushAll y => zlist2_eqb x y
  | ReadThenRechunk x, ReadThenRechunk y => zlist2_eqb x y
  | Decline, Decline => true
  | _, _ => false
  end.

(* FromArray._accept_rechunk(chunks); raw = _source_storage_chunks(self.array)
   already passed through int() (NaN targets are outside the integer model) *)
Definition accept_rechunk (f : fa) (raw : option (list Z)) (chunks : list (list Z)) : rechunk_out :=
  match storage_grid raw (length (eff_shape f)) with
  | None => PushAll chunks
  | Some st =>
      if has_region f then
        match region_read chunks st f with
        | None => Decline
        | Some read =>
            if zlist2_eqb read chunks then PushAll chunks
            else if zlist2_eqb read (map a_chunks f) then Decline
            else ReadThenRechunk read
        end
      else if respects_storage chunks st then PushAll chunks
      else
        let read := plain_read chunks st (eff_shape f) in
        if zlist2_eqb read (map a_chunks f) then Decline else ReadThenRechunk read
  end.

(* _with_chunks: same source, same region, new chunks *)
Definition with_chunks (f : fa) (chunks : list (list Z)) : fa :=
  map (fun p => mkaxis (a_base (fst p)) (a_dim (fst p)) (a_region (fst p)) (snd p)) (combine f chunks).

(* ---------------------------------------------------------------------- *)
(* Specification side *)

Definition unit_step (s : pslice) : Prop := s_step s = None \/ s_step s = Some 1.
Definition unit_step_b (s : pslice) : bool :=
  match s_step s with None => true | Some k => k =? 1 end.

(* start <= stop after clipping: what normalize_slice establishes *)
Definition ordered (s : pslice) (n : Z) : Prop := let '(a, b, _) := indices s n in a <= b.
Definition ordered_b (s : pslice) (n : Z) : bool := let '(a, b, _) := indices s n in a <=? b.

(* positions of the source axis a region denotes *)
Definition region_sel (dim : Z) (region : option pslice) : list Z :=
  match region with None => zrange 0 dim 1 | Some r => sel r dim end.

(* ... in the coordinates of the data originally passed to from_array *)
Definition axis_positions (a : axis) : list Z :=
  map (fun p => a_base a + p) (region_sel (a_dim a) (a_region a)).

Definition region_unit (region : option pslice) : Prop :=
  match region with None => True | Some r => unit_step r end.
Definition region_ordered (dim : Z) (region : option pslice) : Prop :=
  match region with None => True | Some r => ordered r dim end.

(* well-formed axis: what from_array + normalize_chunks establish initially *)
Definition axis_wf (a : axis) : Prop :=
  0 <= a_dim a /\ region_unit (a_region a) /\ valid_chunks (a_chunks a) (a_eff a) /\ a_chunks a <> [].

Definition axis_wf_b (a : axis) : bool :=
  (0 <=? a_dim a)
  && match a_region a with None => true | Some r => unit_step_b r end
  && valid_chunks_b (a_chunks a) (a_eff a)
  && negb (match a_chunks a with [] => true | _ => false end).

(* index element admissible on an axis of current length n (normalize_index /
   check_index / normalize_slice establish this) *)
Definition idx_ok (n : Z) (e : pidx) : Prop :=
  match e with
  | IInt i => 0 <= i < n
  | ISlice s => unit_step s
  | INone => False
  end.
Definition idx_ordered (n : Z) (e : pidx) : Prop :=
  match e with ISlice s => ordered s n | _ => True end.

(* applying a second selection to a list of positions (same as FuseFacts.pick) *)
Definition pick_pos (l js : list Z) : list Z := map (fun j => nth (Z.to_nat j) l 0) js.

(* NumPy semantics of indexing a 1-D vector of positions with one element *)
Definition np_index (pos : list Z) (e : pidx) : list Z :=
  pick_pos pos (sel (ri_of e) (lenZ pos)).

(* the chain x[e1][e2]...[ek] on one axis *)
Fixpoint chain_sel (pos : list Z) (es : list pidx) : list Z :=
  match es with [] => pos | e :: t => chain_sel (np_index pos e) t end.

Fixpoint chain_ok (n : Z) (es : list pidx) : Prop :=
  match es with
  | [] => True
  | e :: t => idx_ok n e /\ chain_ok (slice_len (ri_of e) n) t
  end.

Fixpoint chain_ordered (n : Z) (es : list pidx) : Prop :=
  match es with
  | [] => True
  | e :: t => idx_ordered n e /\ chain_ordered (slice_len (ri_of e) n) t
  end.

Definition axis_chain (a : axis) (es : list pidx) : axis := fold_left accept_axis es a.

(* a fresh from_array axis: no region, source = the user's data *)
Definition fresh_axis (dim : Z) (cs : list Z) : axis := mkaxis 0 dim None cs.

(* the elements a list of requests reads, in order *)
Definition request_positions (rq : list (Z * Z)) : list Z :=
  concat (map (fun p => zrange (fst p) (snd p) 1) rq).

(* requests are contiguous: start at lo, each begins where the previous ended, end at hi *)
Fixpoint contiguous_from (lo : Z) (rq : list (Z * Z)) (hi : Z) : Prop :=
  match rq with
  | [] => lo = hi
  | p :: t => fst p = lo /\ fst p <= snd p /\ contiguous_from (snd p) t hi
  end.

Fixpoint contiguous_from_b (lo : Z) (rq : list (Z * Z)) (hi : Z) : bool :=
  match rq with
  | [] => lo =? hi
  | p :: t => (fst p =? lo) && (fst p <=? snd p) && contiguous_from_b (snd p) t hi
  end.

Definition in_bounds (dim : Z) (p : Z * Z) : Prop := 0 <= fst p <= snd p /\ snd p <= dim.
Definition in_bounds_b (dim : Z) (p : Z * Z) : bool := (0 <=? fst p) && (fst p <=? snd p) && (snd p <=? dim).

(* interior block boundaries of a layout (relative to the start of the layout) *)
Definition interior (cs : list Z) : list Z := cumsum (removelast cs).

(* a read layout for axis a is storage-aligned: valid for the effective length and
   every interior boundary, in ABSOLUTE source coordinates, is a multiple of storage *)
Definition read_ok (a : axis) (storage : Z) (read : list Z) : Prop :=
  valid_chunks read (a_eff a) /\ read <> [] /\
  Forall (fun b => (region_start (a_dim a) (a_region a) + b) mod storage = 0) (interior read).

Definition read_ok_b (a : axis) (storage : Z) (read : list Z) : bool :=
  valid_chunks_b read (a_eff a)
  && negb (match read with [] => true | _ => false end)
  && forallb (fun b => (region_start (a_dim a) (a_region a) + b) mod storage =? 0) (interior read).

(* the target chunks a Rechunk hands to _accept_rechunk: a non-empty layout of the effective length *)
Definition target_ok (dc : list Z) (a : axis) : Prop := valid_chunks dc (a_eff a) /\ dc <> [].

(* all axes carry a region, or none does (Python: one `_region` operand) *)
Definition regions_uniform (f : fa) : Prop :=
  Forall (fun a => is_some (a_region a) = has_region f) f.

(* N-D: a point lies in a request box *)
Definition point_in (req : list (Z * Z)) (p : list Z) : Prop :=
  Forall2 (fun r x => fst r <= x < snd r) req p.
