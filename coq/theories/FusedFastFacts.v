(* FusedFastFacts.v — proofs about the fast paths of FusedBlockwiseLayer (model: FusedFast.v). *)
From Coq Require Import ZArith List Bool PArith Arith Lia.
From DA Require Import FusedFast.
Import ListNotations.
Open Scope Z_scope.

(* ------------------------------------------------------------------------- *)
(** * Boolean equalities *)
Section ListEqb.
  Context {A : Type} (eqb : A -> A -> bool).
  Hypothesis eqb_eq : forall a b, eqb a b = true <-> a = b.

  Lemma list_eqb_eq : forall a b, list_eqb eqb a b = true <-> a = b.
  Proof.
    induction a as [|x t IH]; intros [|y t']; cbn; try (split; [discriminate | intro E; inversion E]).
    - split; reflexivity.
    - rewrite andb_true_iff, eqb_eq, IH. split; [intros [? ?]; subst; reflexivity | intro E; inversion E; auto].
  Qed.

  Lemma memb_In : forall x l, memb eqb x l = true <-> In x l.
  Proof.
    intros x l; induction l as [|y t IH]; cbn; [split; [discriminate | tauto]|].
    rewrite orb_true_iff, eqb_eq, IH. split; intros [H|H]; auto.
  Qed.

  Lemma memb_false : forall x l, memb eqb x l = false <-> ~ In x l.
  Proof.
    intros x l. split.
    - intros E H. apply memb_In in H. congruence.
    - intro H. destruct (memb eqb x l) eqn:E; [|reflexivity]. apply memb_In in E. contradiction.
  Qed.

  Lemma set_eqb_spec : forall a b, set_eqb eqb a b = true <-> (forall x, In x a <-> In x b).
  Proof.
    intros a b. unfold set_eqb. rewrite andb_true_iff, !forallb_forall. split.
    - intros [H1 H2] x. split; intro H; [apply memb_In, H1, H | apply memb_In, H2, H].
    - intro H. split; intros x Hx; apply memb_In, H, Hx.
  Qed.

  Lemma dedup_In : forall x l, In x (dedup eqb l) <-> In x l.
  Proof.
    intros x l; induction l as [|y t IH]; cbn; [tauto|].
    destruct (memb eqb y t) eqn:E.
    - rewrite IH. apply memb_In in E. split; [auto | intros [H|H]; subst; auto].
    - cbn. rewrite IH. tauto.
  Qed.

  Lemma dedup_length_le : forall l, (length (dedup eqb l) <= length l)%nat.
  Proof. induction l as [|y t IH]; cbn; [lia|]. destruct (memb eqb y t); cbn; lia. Qed.

  Lemma ndistinct_NoDup : forall l, ndistinct eqb l = length l <-> NoDup l.
  Proof.
    unfold ndistinct. induction l as [|y t IH]; cbn.
    - split; [constructor | reflexivity].
    - destruct (memb eqb y t) eqn:E.
      + split.
        * intro H. pose proof (dedup_length_le t). lia.
        * intro H. inversion H; subst. apply memb_In in E. contradiction.
      + cbn. split.
        * intro H. constructor; [apply memb_false; exact E | apply IH; lia].
        * intro H. inversion H; subst. f_equal. apply IH. assumption.
  Qed.

  Lemma index_of_nth : forall l j d, NoDup l -> (j < length l)%nat -> index_of eqb (nth j l d) l = j.
  Proof.
    induction l as [|y t IH]; intros j d Hn Hj; cbn in Hj; [lia|].
    inversion Hn as [|? ? Hy Ht]; subst. destruct j as [|j]; cbn.
    - assert (E : eqb y y = true) by (apply eqb_eq; reflexivity). rewrite E. reflexivity.
    - destruct (eqb (nth j t d) y) eqn:E.
      + apply eqb_eq in E. exfalso. apply Hy. rewrite <- E. apply nth_In. lia.
      + f_equal. apply IH; [assumption | lia].
  Qed.

  (* [projections[site_of[k]] for k in sm] = projections *)
  Lemma map_index_nth : forall {B} (l : list A) (P : list B) d,
    NoDup l -> length l = length P -> map (fun k => nth (index_of eqb k l) P d) l = P.
  Proof.
    intros B l; induction l as [|y t IH]; intros [|p P'] d Hn Hl; cbn in *; try discriminate; [reflexivity|].
    inversion Hn as [|? ? Hy Ht]; subst.
    assert (E : eqb y y = true) by (apply eqb_eq; reflexivity). rewrite E. f_equal.
    transitivity (map (fun k => nth (index_of eqb k t) P' d) t); [|apply IH; [assumption | lia]].
    apply map_ext_in. intros k Hk.
    destruct (eqb k y) eqn:E2; [apply eqb_eq in E2; subst; contradiction | reflexivity].
  Qed.
End ListEqb.

Lemma skind_eqb_eq : forall a b, skind_eqb a b = true <-> a = b.
Proof.
  intros [| |x] [| |y]; cbn; try (split; [discriminate | intro E; inversion E]); try (split; reflexivity).
  rewrite Pos.eqb_eq. split; [intros; subst; reflexivity | intro E; inversion E; reflexivity].
Qed.

Lemma label_eqb_eq : forall a b, label_eqb a b = true <-> a = b.
Proof.
  intros [x|x|x] [y|y|y]; cbn; try (split; [discriminate | intro E; inversion E]);
    rewrite Pos.eqb_eq; (split; [intros; subst; reflexivity | intro E; inversion E; reflexivity]).
Qed.

(* induction principle for the nested type *)
Lemma lit_ind' (P : lit -> Prop) :
  (forall z, P (LInt z)) -> (forall t, P (LVal t)) -> (forall l, P (LRef l)) ->
  (forall k l, Forall P l -> P (LSeq k l)) -> forall v, P v.
Proof.
  intros Hi Hv Hr Hs. fix IH 1. intros [z|t|l|k l]; [apply Hi | apply Hv | apply Hr |].
  apply Hs. induction l as [|x t IHl]; constructor; [apply IH | exact IHl].
Qed.

Lemma lit_eqb_eq : forall a b, lit_eqb a b = true <-> a = b.
Proof.
  induction a as [z|t|l|k l IH] using lit_ind'; intros [z'|t'|l'|k' l']; cbn;
    try (split; [discriminate | intro E; inversion E]).
  - rewrite Z.eqb_eq. split; [intros; subst; reflexivity | intro E; inversion E; reflexivity].
  - rewrite Pos.eqb_eq. split; [intros; subst; reflexivity | intro E; inversion E; reflexivity].
  - rewrite label_eqb_eq. split; [intros; subst; reflexivity | intro E; inversion E; reflexivity].
  - rewrite andb_true_iff, skind_eqb_eq.
    assert (G : forall l',
      (fix go (l l' : list lit) : bool :=
         match l, l' with
         | [], [] => true
         | x :: t, y :: t' => lit_eqb x y && go t t'
         | _, _ => false
         end) l l' = true <-> l = l').
    { clear l'. induction IH as [|x t Hx Ht IHt]; intros [|y t']; try (split; [discriminate | intro E; inversion E]).
      - split; reflexivity.
      - rewrite andb_true_iff, Hx, IHt. split; [intros [? ?]; subst; reflexivity | intro E; inversion E; auto]. }
    rewrite G. split; [intros [? ?]; subst; reflexivity | intro E; inversion E; auto].
Qed.

Lemma node_eqb_eq : forall a b, node_eqb a b = true <-> a = b.
Proof.
  intros [k f a kw] [k' f' a' kw']. unfold node_eqb; cbn.
  rewrite !andb_true_iff, !Pos.eqb_eq, (list_eqb_eq lit_eqb lit_eqb_eq), lit_eqb_eq.
  split; [intros [[[? ?] ?] ?]; subst; reflexivity | intro E; inversion E; auto].
Qed.

Lemma zlist_eqb_eq : forall a b : list Z, list_eqb Z.eqb a b = true <-> a = b.
Proof. apply list_eqb_eq. apply Z.eqb_eq. Qed.

Lemma site_eqb_eq : forall a b, site_eqb a b = true <-> a = b.
Proof.
  intros [s c] [s' c']. unfold site_eqb; cbn. rewrite andb_true_iff, Pos.eqb_eq, zlist_eqb_eq.
  split; [intros [? ?]; subst; reflexivity | intro E; inversion E; auto].
Qed.

Lemma slot_eqb_eq : forall a b, slot_eqb a b = true <-> a = b.
Proof.
  intros [s c] [s' c']. unfold slot_eqb; cbn. rewrite andb_true_iff, Nat.eqb_eq, zlist_eqb_eq.
  split; [intros [? ?]; subst; reflexivity | intro E; inversion E; auto].
Qed.

Lemma seedkey_eqb_eq : forall a b, seedkey_eqb a b = true <-> a = b.
Proof.
  intros [s c] [s' c']. unfold seedkey_eqb; cbn. rewrite andb_true_iff, Pos.eqb_eq, Nat.eqb_eq.
  split; [intros [? ?]; subst; reflexivity | intro E; inversion E; auto].
Qed.

Lemma canon_eqb_eq : forall t t0, canon_eqb t t0 = true <-> t_nodes t = t_nodes t0 /\ t_out t = t_out t0.
Proof.
  intros. unfold canon_eqb. rewrite andb_true_iff, (list_eqb_eq node_eqb node_eqb_eq), label_eqb_eq. tauto.
Qed.

(* ------------------------------------------------------------------------- *)
(** * Option lists *)
Lemma all_some_map : forall {A B} (f : A -> option B) (g : A -> B) l,
  (forall x, In x l -> f x = Some (g x)) -> all_some (map f l) = Some (map g l).
Proof.
  intros A B f g l; induction l as [|x t IH]; intro H; cbn; [reflexivity|].
  rewrite (H x (or_introl eq_refl)). rewrite IH by (intros; apply H; right; assumption). reflexivity.
Qed.

Lemma all_some_length : forall {A} (l : list (option A)) r, all_some l = Some r -> length r = length l.
Proof.
  intros A l; induction l as [|[x|] t IH]; intros r H; cbn in H; try discriminate.
  - inversion H; reflexivity.
  - destruct (all_some t) as [r'|] eqn:E; cbn in H; [|discriminate]. inversion H; subst; cbn. f_equal. apply IH. reflexivity.
Qed.

Lemma all_some_nth : forall {A} (l : list (option A)) r, all_some l = Some r ->
  forall i d, (i < length l)%nat -> nth i l None = Some (nth i r d).
Proof.
  intros A l; induction l as [|[x|] t IH]; intros r H i d Hi; cbn in H, Hi; try discriminate; [lia|].
  destruct (all_some t) as [r'|] eqn:E; cbn in H; [|discriminate]. inversion H; subst.
  destruct i as [|i]; cbn; [reflexivity|]. apply IH; [reflexivity | lia].
Qed.

(* ------------------------------------------------------------------------- *)
(** * Blocks, grids *)
Lemma range0_In : forall n k, In k (range0 n) <-> 0 <= k < n.
Proof.
  intros n k. unfold range0. rewrite in_map_iff. split.
  - intros [i [E Hi]]. apply in_seq in Hi. lia.
  - intro H. exists (Z.to_nat k). split; [lia | apply in_seq; lia].
Qed.

Lemma all_blocks_spec : forall nb b, In b (all_blocks nb) <-> in_grid nb b.
Proof.
  unfold in_grid. induction nb as [|n t IH]; intro b; cbn.
  - split; [intros [E|[]]; subst; constructor | intro H; inversion H; auto].
  - rewrite in_flat_map. split.
    + intros [i [Hi Hb]]. apply in_map_iff in Hb. destruct Hb as [b' [E Hb']]. subst.
      constructor; [apply range0_In; assumption | apply IH; assumption].
    + intro H. inversion H as [|? x ? b' Hx Hb']; subst. exists x. split; [apply range0_In; assumption|].
      apply in_map. apply IH. assumption.
Qed.

Lemma in_grid_length : forall nb b, in_grid nb b -> length b = length nb.
Proof. intros nb b H; induction H; cbn; [reflexivity | f_equal; assumption]. Qed.

Lemma in_grid_nth : forall nb b, in_grid nb b -> forall i n, nth_error nb i = Some n -> 0 <= nth i b 0 < n.
Proof.
  intros nb b H; induction H as [|n x nb' b' Hx H IH]; intros i m E; destruct i; cbn in *; try discriminate.
  - inversion E; subst. assumption.
  - apply IH. assumption.
Qed.

Lemma in_grid_pos : forall nb b, in_grid nb b -> Forall (fun n => 1 <= n) nb.
Proof. intros nb b H; induction H; constructor; [lia | assumption]. Qed.

Lemma zero_in_grid : forall nb, Forall (fun n => 1 <= n) nb -> in_grid nb (zero_block nb).
Proof. intros nb H; induction H; cbn; constructor; [lia | assumption]. Qed.

Lemma zero_block_length : forall nb, length (zero_block nb) = length nb.
Proof. intro nb. unfold zero_block. apply map_length. Qed.

Lemma nth_zero_block : forall nb i, nth i (zero_block nb) 0 = 0.
Proof. induction nb as [|n t IH]; intros [|i]; cbn; auto. Qed.

Lemma set_nth_length : forall i v b, length (set_nth i v b) = length b.
Proof. intros i v b; revert i; induction b as [|x t IH]; intros [|i]; cbn; auto. Qed.

Lemma nth_set_nth : forall i j v b, (i < length b)%nat ->
  nth j (set_nth i v b) 0 = if Nat.eqb j i then v else nth j b 0.
Proof.
  intros i j v b; revert i j; induction b as [|x t IH]; intros i j Hi; cbn in Hi; [lia|].
  destruct i as [|i], j as [|j]; cbn; try reflexivity. apply IH. lia.
Qed.

Lemma set_nth_in_grid : forall nb b i n v, in_grid nb b -> nth_error nb i = Some n -> 0 <= v < n ->
  in_grid nb (set_nth i v b).
Proof.
  intros nb b i n v H; revert i; induction H as [|m x nb' b' Hx H IH]; intros i E Hv; destruct i; cbn in *; try discriminate.
  - inversion E; subst. constructor; assumption.
  - constructor; [assumption | apply IH; assumption].
Qed.

Lemma enum_from_In : forall {A} (l : list A) s i x, In (i, x) (enum_from s l) <-> (s <= i)%nat /\ nth_error l (i - s) = Some x.
Proof.
  intros A l; induction l as [|y t IH]; intros s i x; cbn.
  - split; [tauto | intros [_ H]; destruct (i - s)%nat; discriminate].
  - rewrite IH. split.
    + intros [E|[H1 H2]]; [inversion E; subst; rewrite Nat.sub_diag; auto|].
      split; [lia|]. replace (i - s)%nat with (S (i - S s)) by lia. exact H2.
    + intros [H1 H2]. destruct (i - s)%nat as [|k] eqn:E.
      * left. cbn in H2. inversion H2. f_equal. lia.
      * right. split; [lia|]. cbn in H2. replace (i - S s)%nat with k by lia. exact H2.
Qed.

Lemma enum_from_length : forall {A} (l : list A) s, length (enum_from s l) = length l.
Proof. intros A l; induction l; intro s; cbn; auto. Qed.

Lemma map_snd_enum_from : forall {A} (l : list A) s, map snd (enum_from s l) = l.
Proof. intros A l; induction l as [|x t IH]; intro s; cbn; [reflexivity | rewrite IH; reflexivity]. Qed.

(* ------------------------------------------------------------------------- *)
(** * The probe blocks *)
(* exactly which blocks are probed *)
Lemma probe_blocks_spec : forall nb p,
  In p (probe_blocks nb) <->
  p = zero_block nb \/ p = map (fun n => n - 1) nb \/
  (exists i n, nth_error nb i = Some n /\ 1 < n /\
               (p = set_nth i (n - 1) (zero_block nb) \/ p = set_nth i (n / 2) (zero_block nb))) \/
  p = diag_block nb.
Proof.
  intros nb p. unfold probe_blocks. cbn [In app]. rewrite in_app_iff, in_flat_map. cbn [In].
  split.
  - intros [H|[H|[[[i n] [Hi Hp]]|[H|[]]]]]; auto.
    right; right; left. exists i, n. apply enum_from_In in Hi. destruct Hi as [_ Hi]. rewrite Nat.sub_0_r in Hi.
    unfold probe_axis in Hp. destruct (1 <? n) eqn:E; [|destruct Hp]. apply Z.ltb_lt in E.
    split; [exact Hi|]. split; [exact E|]. destruct Hp as [Hp|[Hp|[]]]; auto.
  - intros [H|[H|[[i [n [Hi [Hn Hp]]]]|H]]]; auto.
    right; right; left. exists (i, n). split.
    + apply enum_from_In. split; [lia | rewrite Nat.sub_0_r; exact Hi].
    + unfold probe_axis. apply Z.ltb_lt in Hn. rewrite Hn. destruct Hp as [Hp|Hp]; subst; cbn; auto.
Qed.

(* per axis, with the other coordinates at 0: first, last and middle position are probed *)
Lemma probe_axis_cover : forall nb i n k,
  nth_error nb i = Some n -> 1 <= n -> (k = 0 \/ k = n - 1 \/ k = n / 2) ->
  In (set_nth i k (zero_block nb)) (probe_blocks nb).
Proof.
  intros nb i n k Hi Hn Hk. apply probe_blocks_spec.
  assert (Z0 : set_nth i 0 (zero_block nb) = zero_block nb).
  { clear. revert i. induction nb as [|m t IH]; intros [|i]; cbn; try reflexivity. f_equal. apply IH. }
  destruct (Z.eq_dec n 1) as [E1|E1].
  - left. subst n. assert (k = 0) by (destruct Hk as [?|[?|?]]; subst; reflexivity). subst. exact Z0.
  - destruct Hk as [?|Hk]; [left; subst; exact Z0|].
    right; right; left. exists i, n. split; [exact Hi|]. split; [lia|]. destruct Hk; subst; auto.
Qed.

Lemma diag_block_nth : forall nb i n, nth_error nb i = Some n -> nth i (diag_block nb) 0 = Z.min (Z.of_nat i) (n - 1).
Proof.
  intros nb i n H. unfold diag_block.
  assert (G : forall s, nth i (map (fun p : nat * Z => Z.min (Z.of_nat (fst p)) (snd p - 1)) (enum_from s nb)) 0
                       = Z.min (Z.of_nat (s + i)) (n - 1)).
  { revert i H. induction nb as [|m t IH]; intros [|i] H s; cbn in *; try discriminate.
    - inversion H; subst. rewrite Nat.add_0_r. reflexivity.
    - rewrite IH by assumption. f_equal. lia. }
  apply (G 0%nat).
Qed.

Lemma nth_map_error : forall {A B} (f : A -> B) l i x d, nth_error l i = Some x -> nth i (map f l) d = f x.
Proof.
  intros A B f l; induction l as [|y t IH]; intros [|i] x d H; cbn in *; try discriminate.
  - inversion H; reflexivity.
  - apply IH. exact H.
Qed.

(* ... and these, with the diagonal block, are the only positions any probe has on an axis *)
Lemma probe_positions : forall nb p i n,
  In p (probe_blocks nb) -> nth_error nb i = Some n ->
  nth i p 0 = 0 \/ nth i p 0 = n - 1 \/ nth i p 0 = n / 2 \/ nth i p 0 = Z.min (Z.of_nat i) (n - 1).
Proof.
  intros nb p i n Hp Hi. apply probe_blocks_spec in Hp.
  assert (Li : (i < length nb)%nat) by (apply nth_error_Some; congruence).
  destruct Hp as [Hp|[Hp|[[j [m [Hj [Hm Hp]]]]|Hp]]]; subst.
  - left. apply nth_zero_block.
  - right; left. exact (nth_map_error (fun m => m - 1) nb i n 0 Hi).
  - assert (Lj : (j < length (zero_block nb))%nat) by (rewrite zero_block_length; apply nth_error_Some; congruence).
    destruct Hp as [Hp|Hp]; subst; rewrite nth_set_nth by exact Lj; destruct (Nat.eqb i j) eqn:E;
      try (left; apply nth_zero_block); apply Nat.eqb_eq in E; subst; rewrite Hi in Hj; inversion Hj; subst; auto.
  - right; right; right. apply diag_block_nth. exact Hi.
Qed.

Lemma probes_in_grid : forall nb p, Forall (fun n => 1 <= n) nb -> In p (probe_blocks nb) -> in_grid nb p.
Proof.
  intros nb p Hnb Hp. apply probe_blocks_spec in Hp.
  destruct Hp as [Hp|[Hp|[[j [m [Hj [Hm Hp]]]]|Hp]]]; subst.
  - apply zero_in_grid. exact Hnb.
  - unfold in_grid. induction Hnb; cbn; constructor; [lia | assumption].
  - destruct Hp; subst; eapply set_nth_in_grid; try (apply zero_in_grid; exact Hnb); try exact Hj.
    + lia.
    + split; [apply Z.div_pos; lia | apply Z.div_lt_upper_bound; lia].
  - unfold in_grid, diag_block. generalize 0%nat as s. induction Hnb as [|n t Hn Ht IH]; intro s; cbn; constructor.
    + lia.
    + apply IH.
Qed.

(* ------------------------------------------------------------------------- *)
(** * Inference of the projections by bumping one output axis at a time *)
(* what the inference knows about a true coordinate after the axes < m have been bumped *)
Definition norm_pcoord (nb : list Z) (m : nat) (p : pcoord) : pcoord :=
  match p with
  | PConst c => PConst c
  | PBid o => if Nat.ltb o m && (1 <? nth o nb 0) then PBid o else PConst 0
  end.

Lemma apply_norm : forall nb b p, in_grid nb b ->
  apply_pcoord b (norm_pcoord nb (length nb) p) = apply_pcoord b p.
Proof.
  intros nb b [c|o] H; cbn [norm_pcoord apply_pcoord]; [reflexivity|].
  destruct (Nat.ltb o (length nb)) eqn:E1; cbn [andb apply_pcoord].
  - destruct (1 <? nth o nb 0) eqn:E2; cbn [apply_pcoord]; [reflexivity|].
    apply Nat.ltb_lt in E1. destruct (nth_error nb o) as [n|] eqn:En; [|apply nth_error_None in En; lia].
    pose proof (in_grid_nth nb b H o n En) as Hb. rewrite (nth_error_nth _ _ 0 En) in E2. apply Z.ltb_ge in E2. lia.
  - apply Nat.ltb_ge in E1. symmetry. apply nth_overflow. rewrite (in_grid_length nb b H). exact E1.
Qed.

Lemma norm_succ_small : forall nb m p, nth m nb 0 <= 1 -> norm_pcoord nb (S m) p = norm_pcoord nb m p.
Proof.
  intros nb m [c|o] H; cbn [norm_pcoord]; [reflexivity|].
  destruct (Nat.eq_dec o m) as [E|E].
  - subst o. assert (E1 : Nat.ltb m m = false) by (apply Nat.ltb_ge; lia).
    assert (E2 : (1 <? nth m nb 0) = false) by (apply Z.ltb_ge; lia).
    rewrite E1, E2, andb_false_r. reflexivity.
  - assert (E1 : Nat.ltb o (S m) = Nat.ltb o m).
    { destruct (Nat.ltb o m) eqn:E3; [apply Nat.ltb_lt in E3; apply Nat.ltb_lt; lia | apply Nat.ltb_ge in E3; apply Nat.ltb_ge; lia]. }
    rewrite E1. reflexivity.
Qed.

Lemma bump_row_affine : forall nb m cs, (m < length nb)%nat -> 1 < nth m nb 0 ->
  bump_row m (map (apply_pcoord (zero_block nb)) cs) (map (apply_pcoord (set_nth m 1 (zero_block nb))) cs)
           (map (norm_pcoord nb m) cs)
  = Some (map (norm_pcoord nb (S m)) cs).
Proof.
  intros nb m cs Hm Hn. induction cs as [|[c|o] cs IH]; cbn [map bump_row]; [reflexivity| |].
  - cbn [apply_pcoord]. rewrite Z.eqb_refl, IH. reflexivity.
  - cbn [apply_pcoord]. rewrite nth_zero_block, nth_set_nth by (rewrite zero_block_length; exact Hm).
    rewrite nth_zero_block. destruct (Nat.eqb o m) eqn:E.
    + apply Nat.eqb_eq in E. subst o. cbn [Z.eqb Z.sub Z.add Z.opp Z.pos_sub]. rewrite IH. cbn [option_map norm_pcoord].
      assert (E1 : Nat.ltb m (S m) = true) by (apply Nat.ltb_lt; lia).
      assert (E2 : (1 <? nth m nb 0) = true) by (apply Z.ltb_lt; lia).
      rewrite E1, E2. reflexivity.
    + cbn [Z.eqb]. rewrite IH. cbn [option_map]. do 2 f_equal.
      apply Nat.eqb_neq in E. cbn [norm_pcoord].
      assert (E1 : Nat.ltb o (S m) = Nat.ltb o m).
      { destruct (Nat.ltb o m) eqn:E3; [apply Nat.ltb_lt in E3; apply Nat.ltb_lt; lia | apply Nat.ltb_ge in E3; apply Nat.ltb_ge; lia]. }
      rewrite E1. reflexivity.
Qed.

Lemma bump_sites_affine : forall nb m (P : list nproj), (m < length nb)%nat -> 1 < nth m nb 0 ->
  bump_sites m (map (apply_nproj (zero_block nb)) P) (map (apply_nproj (set_nth m 1 (zero_block nb))) P)
             (map (fun p : nproj => map (norm_pcoord nb m) (snd p)) P)
  = Some (map (fun p : nproj => map (norm_pcoord nb (S m)) (snd p)) P).
Proof.
  intros nb m P Hm Hn. induction P as [|[s cs] P IH]; cbn [map bump_sites]; [reflexivity|].
  cbn [apply_nproj fst snd]. rewrite Pos.eqb_refl. cbn [negb].
  rewrite bump_row_affine by assumption. rewrite IH. reflexivity.
Qed.

Section Infer.
  Variables (L : layer) (extra : task -> bool) (P : list nproj).
  Hypothesis Haff : affine_sites L P.
  Hypothesis Hpos : Forall (fun n => 1 <= n) (l_nb L).

  Let R (k : nat) := map (fun p : nproj => map (norm_pcoord (l_nb L) k) (snd p)) P.
  Let sites0 := map (apply_nproj (zero_block (l_nb L))) P.

  Lemma infer_step_affine : forall m n, nth_error (l_nb L) m = Some n ->
    infer_step L extra sites0 (Some (R m)) (m, n) = None \/
    infer_step L extra sites0 (Some (R m)) (m, n) = Some (R (S m)).
  Proof.
    intros m n Hm. unfold infer_step. cbn [fst snd].
    assert (Lm : (m < length (l_nb L))%nat) by (apply nth_error_Some; congruence).
    destruct (n <=? 1) eqn:E.
    - right. f_equal. unfold R. apply map_ext. intro p. apply map_ext. intro c. symmetry. apply norm_succ_small.
      rewrite (nth_error_nth _ _ 0 Hm). apply Z.leb_le. exact E.
    - apply Z.leb_gt in E.
      assert (G : in_grid (l_nb L) (set_nth m 1 (zero_block (l_nb L)))).
      { eapply set_nth_in_grid; [apply zero_in_grid; exact Hpos | exact Hm | lia]. }
      rewrite (Haff _ G). destruct (t_ok _); cbn [negb]; [|left; reflexivity].
      unfold sites0. rewrite !map_length, Nat.eqb_refl. cbn [negb].
      unfold R. rewrite bump_sites_affine; [|exact Lm | rewrite (nth_error_nth _ _ 0 Hm); lia].
      destruct (extra _); auto.
  Qed.

  Lemma fold_infer_none : forall l, fold_left (infer_step L extra sites0) l None = None.
  Proof. induction l as [|x t IH]; cbn; [reflexivity | exact IH]. Qed.

  Lemma infer_fold_affine : forall rest m,
    (forall i n, nth_error rest i = Some n -> nth_error (l_nb L) (m + i) = Some n) ->
    forall rows, fold_left (infer_step L extra sites0) (enum_from m rest) (Some (R m)) = Some rows ->
    rows = R (m + length rest).
  Proof.
    induction rest as [|n rest IH]; intros m Hr rows H; cbn [enum_from fold_left] in H.
    - inversion H. rewrite Nat.add_0_r. reflexivity.
    - assert (Hm : nth_error (l_nb L) m = Some n) by (rewrite <- (Nat.add_0_r m); apply Hr; reflexivity).
      destruct (infer_step_affine m n Hm) as [E|E]; rewrite E in H.
      + rewrite fold_infer_none in H. discriminate.
      + cbn [length]. rewrite Nat.add_succ_r. apply (IH (S m)); [|exact H].
        intros i k Hi. replace (S m + i)%nat with (m + S i)%nat by lia. apply Hr. exact Hi.
  Qed.

  Lemma infer_proj_affine : forall rows, infer_proj L extra sites0 = Some rows -> rows = R (length (l_nb L)).
  Proof.
    intros rows H. unfold infer_proj in H.
    assert (E0 : map (fun k : site => map PConst (snd k)) sites0 = R 0).
    { unfold sites0, R. rewrite map_map. apply map_ext. intros [s cs]. cbn [apply_nproj snd].
      rewrite map_map. apply map_ext. intros [c|o]; cbn; [reflexivity | rewrite nth_zero_block; reflexivity]. }
    rewrite E0 in H. apply (infer_fold_affine (l_nb L) 0%nat); [|exact H].
    intros i n Hi. exact Hi.
  Qed.
End Infer.

Lemma dep_index_nth : forall names s i0 j d, dep_index names s i0 = Some j ->
  (i0 <= j)%nat /\ nth (j - i0) names d = s.
Proof.
  induction names as [|x t IH]; intros s i0 j d H; cbn in H; [discriminate|].
  destruct (dep_index t s (S i0)) as [j'|] eqn:E.
  - inversion H; subst. destruct (IH _ _ _ d E) as [H1 H2]. split; [lia|].
    replace (j - i0)%nat with (S (j - S i0)) by lia. exact H2.
  - destruct (Pos.eqb x s) eqn:E2; [|discriminate]. inversion H; subst. apply Pos.eqb_eq in E2.
    rewrite Nat.sub_diag. split; [lia | exact E2].
Qed.

(* the inferred projections generate, at EVERY block of the grid, exactly the block's sites *)
Lemma projections_affine : forall L (P : list nproj) idx0 b, in_grid (l_nb L) b ->
  all_some (map (fun k : site => dep_index (l_deps L) (fst k) 0) (map (apply_nproj (zero_block (l_nb L))) P)) = Some idx0 ->
  map (fun p => dep_key (l_deps L) (apply_proj b p))
      (combine idx0 (map (fun p : nproj => map (norm_pcoord (l_nb L) (length (l_nb L))) (snd p)) P))
  = map (apply_nproj b) P.
Proof.
  intros L P idx0 b Hb. revert idx0. induction P as [|[s cs] P IH]; intros idx0 H; cbn in H.
  - inversion H. reflexivity.
  - destruct (dep_index (l_deps L) s 0) as [j|] eqn:Ej; [|discriminate].
    destruct (all_some _) as [r|] eqn:Er; cbn in H; [|discriminate]. inversion H; subst idx0.
    cbn [map combine]. rewrite (IH r eq_refl). f_equal.
    unfold dep_key, apply_proj, apply_nproj. cbn [fst snd].
    destruct (dep_index_nth _ _ _ _ 1%positive Ej) as [_ Hn]. rewrite Nat.sub_0_r in Hn. rewrite Hn. f_equal.
    rewrite map_map. apply map_ext. intro c. apply apply_norm. exact Hb.
Qed.

(* ------------------------------------------------------------------------- *)
(** * The maximal block, the stable order of its inkeys, the re-ordered projections *)
Lemma insert_site_In : forall x y l, In x (insert_site y l) <-> x = y \/ In x l.
Proof.
  intros x y l; induction l as [|z t IH]; cbn; [intuition|].
  destruct (site_leb y z); cbn; [intuition|]. rewrite IH. intuition.
Qed.

Lemma sort_sites_In : forall x l, In x (sort_sites l) <-> In x l.
Proof.
  intros x l; induction l as [|y t IH]; cbn; [tauto|]. rewrite insert_site_In, IH. intuition.
Qed.

Lemma assoc_key_combine_map : forall (g : site -> site) k l, In k l -> assoc_key k (combine l (map g l)) = Some (g k).
Proof.
  intros g k l; induction l as [|y t IH]; intro H; cbn; [destruct H|].
  destruct (site_eqb y k) eqn:E.
  - apply site_eqb_eq in E. subst. reflexivity.
  - apply IH. destruct H as [H|H]; [|exact H]. subst. rewrite (proj2 (site_eqb_eq k k) eq_refl) in E. discriminate.
Qed.

Lemma maximal_reads : forall (projections : list proj) (sm inkeys_m : list site) (g : proj -> site),
  NoDup sm -> length sm = length projections -> (forall x, In x sm <-> In x inkeys_m) ->
  let inkeys := sort_sites inkeys_m in
  let ordered := map (fun ik => nth (index_of site_eqb ik sm) projections (O, [])) inkeys in
  all_some (map (fun k => assoc_key k (combine inkeys (map g ordered))) sm) = Some (map g projections)
  /\ (forall x, In x (map g ordered) <-> In x (map g projections)).
Proof.
  intros projections sm inkeys_m g Hnd Hlen Hset inkeys ordered.
  set (h := fun ik : site => g (nth (index_of site_eqb ik sm) projections (O, []))).
  assert (Eo : map g ordered = map h inkeys) by (unfold ordered; rewrite map_map; reflexivity).
  assert (Eh : map h sm = map g projections).
  { unfold h. rewrite <- (map_map (fun k => nth (index_of site_eqb k sm) projections (O, [])) g).
    rewrite (map_index_nth site_eqb site_eqb_eq sm projections (O, []) Hnd Hlen). reflexivity. }
  assert (Hin : forall k, In k sm <-> In k inkeys).
  { intro k. unfold inkeys. rewrite sort_sites_In. apply Hset. }
  split.
  - rewrite Eo, <- Eh. apply all_some_map. intros k Hk. apply assoc_key_combine_map. apply Hin. exact Hk.
  - intro x. rewrite Eo, <- Eh, !in_map_iff. split; intros [k [E Hk]]; exists k; (split; [exact E | apply Hin; exact Hk]).
Qed.

Lemma build_maximal_inv : forall L projections mb inkeys ordered,
  build_maximal L projections = Some (mb, inkeys, ordered) ->
  in_grid (l_nb L) mb /\
  exists sm, t_sites (l_task L mb) = Some sm /\
    ndistinct site_eqb sm = length projections /\
    (forall x, In x sm <-> In x (t_inkeys (l_task L mb))) /\
    inkeys = sort_sites (t_inkeys (l_task L mb)) /\
    ordered = map (fun ik => nth (index_of site_eqb ik sm) projections (O, [])) inkeys.
Proof.
  intros L projections mb inkeys ordered H. unfold build_maximal in H.
  destruct (find _ (all_blocks (l_nb L))) as [mb'|] eqn:Ef; [|discriminate].
  apply find_some in Ef. destruct Ef as [Ein _]. apply all_blocks_spec in Ein.
  destruct (t_sites (l_task L mb')) as [sm|] eqn:Es; [|discriminate].
  destruct (Nat.eqb (ndistinct site_eqb sm) (length projections) && set_eqb site_eqb sm (t_inkeys (l_task L mb'))) eqn:Ec;
    cbn [negb] in H; [|discriminate].
  apply andb_true_iff in Ec. destruct Ec as [E1 E2]. apply Nat.eqb_eq in E1.
  pose proof (proj1 (set_eqb_spec site_eqb site_eqb_eq _ _) E2) as E3.
  inversion H; subst. split; [exact Ein|]. exists sm. repeat split; auto; apply E3.
Qed.

(* ------------------------------------------------------------------------- *)
(** * What the generated records compute *)
Lemma fill_node_nil : forall n, fill_node [] n = n.
Proof.
  intros [k f a kw]. unfold fill_node; cbn. f_equal.
  transitivity (map snd (enum_from 0 a)); [apply map_ext; intros [i x]; reflexivity | apply map_snd_enum_from].
Qed.

Lemma map_fill_node_nil : forall ns, map (fill_node []) ns = ns.
Proof. induction ns as [|n t IH]; cbn; [reflexivity | rewrite fill_node_nil, IH; reflexivity]. Qed.

(* the common part of the two projection-based derivations: sites and dependency keys *)
Lemma proj_reads_sound : forall L (P : list nproj) idx0 rows mb inkeys ordered b,
  affine_sites L P -> deps_are_sites L ->
  all_some (map (fun k : site => dep_index (l_deps L) (fst k) 0) (map (apply_nproj (zero_block (l_nb L))) P)) = Some idx0 ->
  rows = map (fun p : nproj => map (norm_pcoord (l_nb L) (length (l_nb L))) (snd p)) P ->
  build_maximal L (combine idx0 rows) = Some (mb, inkeys, ordered) ->
  in_grid (l_nb L) b ->
  let deps := map (fun p => dep_key (l_deps L) (apply_proj b p)) ordered in
  match t_sites (l_task L mb) with
  | None => None
  | Some sm => all_some (map (fun k => assoc_key k (combine inkeys deps)) sm)
  end = t_sites (l_task L b)
  /\ (forall k, In k deps <-> In k (t_deps (l_task L b))).
Proof.
  intros L P idx0 rows mb inkeys ordered b Haff Hdeps Hidx Hrows Hbm Hb deps.
  apply build_maximal_inv in Hbm. destruct Hbm as [Hmb [sm [Hsm [Hnd [Hset [Hink Hord]]]]]].
  set (g := fun p : proj => dep_key (l_deps L) (apply_proj b p)).
  assert (Lidx : length idx0 = length P).
  { apply all_some_length in Hidx. rewrite !map_length in Hidx. exact Hidx. }
  assert (Lproj : length (combine idx0 rows) = length P).
  { rewrite combine_length, Lidx, Hrows, map_length. lia. }
  assert (Esm : sm = map (apply_nproj mb) P).
  { rewrite (Haff mb Hmb) in Hsm. inversion Hsm. reflexivity. }
  assert (Lsm : length sm = length (combine idx0 rows)) by (rewrite Esm, map_length, Lproj; reflexivity).
  assert (NDsm : NoDup sm).
  { apply (ndistinct_NoDup site_eqb site_eqb_eq). rewrite Hnd. symmetry. exact Lsm. }
  destruct (maximal_reads (combine idx0 rows) sm (t_inkeys (l_task L mb)) g NDsm Lsm Hset) as [Hr Hs].
  rewrite <- Hink in Hr, Hs. rewrite <- Hord in Hr, Hs.
  assert (Eg : map g (combine idx0 rows) = map (apply_nproj b) P).
  { unfold g. rewrite Hrows. apply projections_affine; assumption. }
  rewrite Hsm. split.
  - unfold deps. fold g. rewrite Hr, Eg. symmetry. apply Haff. exact Hb.
  - intro k. unfold deps. fold g. rewrite Hs, Eg. symmetry. apply (Hdeps b _ Hb). apply Haff. exact Hb.
Qed.

(* ------------------------------------------------------------------------- *)
(** * (a) _analytical_site_spec is sound when the family really is shared with affine slots *)
Theorem analytical_sound : forall L s (P : list nproj),
  analytical L = Some s ->
  shared_everywhere L -> affine_sites L P -> deps_are_sites L ->
  forall i b, in_grid (l_nb L) b ->
    eff_equiv (eff_fast L (fast_record L s i b)) (eff_slow (l_task L b)).
Proof.
  intros L s P H Hsh Haff Hdeps i b Hb.
  pose proof (in_grid_pos _ _ Hb) as Hpos.
  pose proof (zero_in_grid _ Hpos) as Hz.
  unfold analytical in H. cbv zeta in H.
  destruct (Nat.eqb (length (l_nb L)) 0); [discriminate|].
  destruct (t_ok (l_task L (zero_block (l_nb L)))); cbn [negb] in H; [|discriminate].
  rewrite (Haff _ Hz) in H.
  destruct (map (apply_nproj (zero_block (l_nb L))) P) as [|k0 s0] eqn:Es0; [discriminate|]. rewrite <- Es0 in H.
  destruct (all_some _) as [idx0|] eqn:Eidx in H; [|discriminate].
  destruct (infer_proj L (fun _ => true) _) as [rows|] eqn:Erows in H; [|discriminate].
  apply (infer_proj_affine L (fun _ => true) P Haff Hpos) in Erows.
  destruct (negb (Nat.eqb _ _)) in H; [discriminate|].
  destruct (negb (forallb _ _)) in H; [discriminate|].
  destruct (build_maximal L (combine idx0 rows)) as [[[mb inkeys] ordered]|] eqn:Ebm; [|discriminate].
  inversion H; subst s. clear H.
  destruct (proj_reads_sound L P idx0 rows mb inkeys ordered b Haff Hdeps Eidx Erows Ebm Hb) as [Hr Hd].
  pose proof (build_maximal_inv _ _ _ _ _ Ebm) as [Hmb _].
  destruct (Hsh b Hb) as [_ [Hn Ho]]. destruct (Hsh mb Hmb) as [_ [Hnm Hom]].
  unfold eff_equiv, eff_fast, eff_slow, fast_record. cbn [fr_shared fr_seeds fr_deps fr_block sh_block sh_inkeys sh_holes e_nodes e_out e_reads e_deps combine].
  rewrite map_fill_node_nil. repeat split.
  - congruence.
  - congruence.
  - exact Hr.
  - apply Hd.
  - apply Hd.
Qed.

(* ------------------------------------------------------------------------- *)
(** * Filling the holes of the shared subgraph with the seeds *)
Lemma find_node_unique : forall ns n, NoDup (map n_key ns) -> In n ns -> find_node (n_key n) ns = Some n.
Proof.
  unfold find_node. induction ns as [|x t IH]; intros n Hnd Hin; cbn in *; [destruct Hin|].
  inversion Hnd as [|? ? Hx Ht]; subst. destruct Hin as [E|Hin].
  - subst. rewrite Pos.eqb_refl. reflexivity.
  - destruct (Pos.eqb (n_key x) (n_key n)) eqn:E.
    + apply Pos.eqb_eq in E. exfalso. apply Hx. rewrite E. apply in_map. exact Hin.
    + apply IH; assumption.
Qed.

Lemma assoc_seed_combine : forall (sv : seedkey -> option lit) holes vals,
  Forall2 (fun h v => sv h = Some v) holes vals ->
  forall h, (In h holes -> exists v, assoc_seed h (combine holes vals) = Some v /\ sv h = Some v) /\
            (~ In h holes -> assoc_seed h (combine holes vals) = None).
Proof.
  intros sv holes vals H; induction H as [|x v holes vals Hx H IH]; intro h; cbn.
  - split; [intros [] | reflexivity].
  - destruct (seedkey_eqb x h) eqn:E.
    + apply seedkey_eqb_eq in E. subst. split; [intros _; exists v; auto | intro N; exfalso; apply N; left; reflexivity].
    + assert (x <> h) by (intro; subst; rewrite (proj2 (seedkey_eqb_eq h h) eq_refl) in E; discriminate).
      destruct (IH h) as [I1 I2]. split; [intros [?|?]; [contradiction | auto] | intro N; apply I2; tauto].
Qed.

Lemma cons_eq_inv : forall {A} (x y : A) a b, x :: a = y :: b -> x = y /\ a = b.
Proof. intros A x y a b H; inversion H; auto. Qed.

Lemma fill_args_holed : forall (k : positive) (holes : list seedkey) (sv : list (seedkey * lit)) args_m args_b s,
  map (fun p : nat * lit => if memb seedkey_eqb (k, fst p) holes then LVal 1 else snd p) (enum_from s args_m)
  = map (fun p : nat * lit => if memb seedkey_eqb (k, fst p) holes then LVal 1 else snd p) (enum_from s args_b) ->
  (forall i, memb seedkey_eqb (k, i) holes = false -> assoc_seed (k, i) sv = None) ->
  (forall i x, memb seedkey_eqb (k, i) holes = true -> (s <= i)%nat -> nth_error args_b (i - s) = Some x ->
               assoc_seed (k, i) sv = Some x) ->
  map (fun p : nat * lit => match assoc_seed (k, fst p) sv with Some v => v | None => snd p end) (enum_from s args_m)
  = args_b.
Proof.
  intros k holes sv args_m; induction args_m as [|am tm IH]; intros [|ab tb] s E H1 H2; cbn in E; try discriminate; [reflexivity|].
  cbn [enum_from map fst snd]. cbn [fst snd] in E. apply cons_eq_inv in E. destruct E as [Eh Et]. f_equal.
  - destruct (memb seedkey_eqb (k, s) holes) eqn:M.
    + rewrite (H2 s ab M (Nat.le_refl s)); [reflexivity | rewrite Nat.sub_diag; reflexivity].
    + rewrite (H1 s M). exact Eh.
  - apply IH; [exact Et | exact H1|].
    intros i x M Hi Hn. apply H2; [exact M | lia|]. replace (i - s)%nat with (S (i - S s)) by lia. exact Hn.
Qed.

Lemma fill_nodes_holed : forall holes vals (full : list node) (sv : seedkey -> option lit),
  NoDup (map n_key full) ->
  (forall h, sv h = match find_node (fst h) full with Some n => nth_error (n_args n) (snd h) | None => None end) ->
  Forall2 (fun h v => sv h = Some v) holes vals ->
  forall ns_m ns_b, (forall n, In n ns_b -> In n full) ->
  map (hole_node holes) ns_m = map (hole_node holes) ns_b ->
  map (fill_node (combine holes vals)) ns_m = ns_b.
Proof.
  intros holes vals full sv Hnd Hsv Hf. induction ns_m as [|nm tm IH]; intros [|nb tb] Hin E; cbn in E; try discriminate; [reflexivity|].
  apply cons_eq_inv in E. destruct E as [Eh Et]. cbn [map]. f_equal; [|apply IH; [intros; apply Hin; right; assumption | exact Et]].
  destruct nm as [km fm am kwm], nb as [kb fb ab kwb]. unfold hole_node in Eh; cbn [n_key n_func n_args n_kwargs] in Eh.
  injection Eh as Ek Ef Ea Ekw. subst km fm kwm. unfold fill_node; cbn [n_key n_func n_args n_kwargs]. f_equal.
  apply (fill_args_holed kb holes); [exact Ea | |].
  - intros i M. apply (proj2 (assoc_seed_combine sv holes vals Hf (kb, i))). apply (memb_false seedkey_eqb seedkey_eqb_eq). exact M.
  - intros i x M _ Hn. rewrite Nat.sub_0_r in Hn.
    apply (memb_In seedkey_eqb seedkey_eqb_eq) in M.
    destruct (proj1 (assoc_seed_combine sv holes vals Hf (kb, i)) M) as [v [Ev Esv]].
    rewrite Hsv in Esv. cbn [fst snd] in Esv.
    pose proof (find_node_unique full (mknode kb fb ab kwb) Hnd (Hin _ (or_introl eq_refl))) as Efn.
    cbn [n_key] in Efn. rewrite Efn in Esv. cbn [n_args] in Esv. rewrite Hn in Esv. inversion Esv. subst. exact Ev.
Qed.

(* ------------------------------------------------------------------------- *)
(** * (a) _seed_spec is sound when the seeds really are templated and the slots affine *)
Theorem seed_sound : forall L sh projs tmpls (P : list nproj),
  seed_spec L = Some (ProjSpec sh projs tmpls) ->
  seeds_everywhere L (sh_holes sh) tmpls -> canon_keys_unique L ->
  affine_sites L P -> deps_are_sites L ->
  forall i b, in_grid (l_nb L) b ->
    eff_equiv (eff_fast L (fast_record L (ProjSpec sh projs tmpls) i b)) (eff_slow (l_task L b)).
Proof.
  intros L sh projs tmpls P H Hseed Hkeys Haff Hdeps i b Hb.
  pose proof (in_grid_pos _ _ Hb) as Hpos.
  pose proof (zero_in_grid _ Hpos) as Hz.
  unfold seed_spec in H. cbv zeta in H.
  destruct (Nat.eqb (length (l_nb L)) 0); [discriminate|].
  destruct (t_ok (l_task L (zero_block (l_nb L)))); cbn [negb] in H; [|discriminate].
  rewrite (Haff _ Hz) in H.
  destruct (map (apply_nproj (zero_block (l_nb L))) P) as [|k0 s0] eqn:Es0; [discriminate|]. rewrite <- Es0 in H.
  destruct (all_some _) as [idx0|] eqn:Eidx in H; [|discriminate].
  destruct (infer_proj L _ _) as [rows|] eqn:Erows in H; [|discriminate].
  apply (infer_proj_affine L _ P Haff Hpos) in Erows.
  destruct (classify_seeds L _ _) as [[|st0 stm]|] in H; try discriminate.
  destruct (negb (Nat.eqb _ _)) in H; [discriminate|].
  destruct (negb (forallb _ _)) in H; [discriminate|].
  destruct (build_maximal L (combine idx0 rows)) as [[[mb inkeys] ordered]|] eqn:Ebm; [|discriminate].
  destruct (negb (forallb _ _)) in H; [discriminate|].
  inversion H; subst sh projs tmpls. clear H.
  destruct (proj_reads_sound L P idx0 rows mb inkeys ordered b Haff Hdeps Eidx Erows Ebm Hb) as [Hr Hd].
  pose proof (build_maximal_inv _ _ _ _ _ Ebm) as [Hmb _].
  cbn [sh_holes] in Hseed.
  destruct (Hseed b Hb) as [_ [Hn [Ho Hv]]]. destruct (Hseed mb Hmb) as [_ [Hnm [Hom _]]].
  unfold eff_equiv, eff_fast, eff_slow, fast_record.
  cbn [fr_shared fr_seeds fr_deps fr_block sh_block sh_inkeys sh_holes e_nodes e_out e_reads e_deps].
  repeat split.
  - apply (fill_nodes_holed _ _ (t_nodes (l_task L b)) (seed_value (l_task L b))).
    + apply Hkeys. exact Hb.
    + intro h. reflexivity.
    + clear - Hv. induction Hv; cbn [map]; constructor; assumption.
    + auto.
    + congruence.
  - congruence.
  - exact Hr.
  - apply Hd.
  - apply Hd.
Qed.

(* ------------------------------------------------------------------------- *)
(** * Every derivation that accepts has run the independence test — on the probes *)
Lemma forallb_impl : forall {A} (f g : A -> bool) l,
  (forall x, In x l -> f x = true -> g x = true) -> forallb f l = true -> forallb g l = true.
Proof.
  intros A f g l H Hf. apply forallb_forall. intros x Hx. apply H; [exact Hx|].
  rewrite forallb_forall in Hf. apply Hf. exact Hx.
Qed.

Lemma analytical_tests_probes : forall L s, analytical L = Some s -> independence_test L = true.
Proof.
  intros L s H. unfold analytical in H. cbv zeta in H.
  destruct (Nat.eqb (length (l_nb L)) 0); [discriminate|].
  destruct (negb (t_ok _)); [discriminate|].
  destruct (t_sites _) as [[|k0 s0]|]; try discriminate.
  destruct (all_some _) as [idx0|]; [|discriminate].
  destruct (infer_proj _ _ _) as [rows|]; [|discriminate].
  destruct (negb (Nat.eqb _ _)); [discriminate|].
  destruct (forallb _ (probe_blocks _)) eqn:Ep; cbn [negb] in H; [|discriminate].
  unfold independence_test. eapply forallb_impl; [|exact Ep]. intros x _ Hx.
  unfold analytical_probe_ok in Hx. apply andb_true_iff in Hx. destruct Hx as [Hx _].
  apply andb_true_iff in Hx. apply Hx.
Qed.

Lemma uniform_tests_probes : forall L s, uniform L = Some s -> independence_test L = true.
Proof.
  intros L s H. unfold uniform in H. cbv zeta in H.
  destruct (Nat.eqb (length (l_nb L)) 0); [discriminate|].
  destruct (negb (t_ok _)); [discriminate|].
  destruct (negb (Nat.eqb _ _)); [discriminate|].
  destruct (broadcast_spec L _) as [sources|].
  - destruct (validate_broadcast L _ sources) eqn:Ev.
    + unfold independence_test. unfold validate_broadcast in Ev. eapply forallb_impl; [|exact Ev].
      intros x _ Hx. apply andb_true_iff in Hx. apply Hx.
    + destruct (forallb _ (probe_blocks _)) eqn:Ep; cbn [negb] in H; [exact Ep | discriminate].
  - destruct (forallb _ (probe_blocks _)) eqn:Ep; cbn [negb] in H; [exact Ep | discriminate].
Qed.

Lemma all_blocks_nil_tail : forall (l : list Z) (t : list block), t = [] ->
  flat_map (fun i => map (cons i) t) l = [].
Proof. intros l t E; subst. induction l as [|x r IH]; cbn; [reflexivity | exact IH]. Qed.

Lemma all_blocks_head : forall nb b0 rest, all_blocks nb = b0 :: rest -> b0 = zero_block nb.
Proof.
  induction nb as [|n t IH]; intros b0 rest H; cbn in H.
  - inversion H. reflexivity.
  - destruct (all_blocks t) as [|c0 crest] eqn:Et.
    + rewrite all_blocks_nil_tail in H by reflexivity. discriminate.
    + unfold range0 in H. destruct (Z.to_nat n) as [|k]; cbn in H; [discriminate|].
      inversion H. cbn. f_equal. apply (IH c0 crest). reflexivity.
Qed.

Lemma site_based_tests_probes : forall L s, site_based L = Some s -> independence_test L = true.
Proof.
  intros L s H. unfold site_based in H. cbv zeta in H.
  destruct (Nat.eqb (length (l_nb L)) 0); [discriminate|].
  destruct (all_blocks (l_nb L)) as [|b0 rest] eqn:Eb; [discriminate|].
  apply all_blocks_head in Eb. subst b0.
  destruct (negb (t_ok _)); [discriminate|].
  destruct (t_sites _) as [s0|]; [|discriminate].
  destruct (forallb _ (probe_blocks _)) eqn:Ep; cbn [negb] in H; [|discriminate].
  unfold independence_test. eapply forallb_impl; [|exact Ep]. intros x _ Hx.
  unfold site_probe_ok in Hx. apply andb_true_iff in Hx. destruct Hx as [Hx _].
  apply andb_true_iff in Hx. apply Hx.
Qed.

(* ------------------------------------------------------------------------- *)
(** * (c) When the probe test IS sufficient *)
(* The positions of axis a (of length n) that some probe block has there. *)
Definition covered (n : Z) (a : nat) (k : Z) : Prop :=
  k = 0 \/ k = n - 1 \/ k = n / 2 \/ k = Z.min (Z.of_nat a) (n - 1).

(* The canonical subgraph of block b is `build` of a vector of int leaves (injectively: it is a term
   with int holes); leaf (a, g) takes the value g (b[a]): it depends on ONE output axis.  If every
   position of that axis carries the value of some probed position, then the test on the probes
   decides block independence for the whole grid. *)
Section ProbeComplete.
  Variables (L : layer) (C : Type) (build : list Z -> C) (leaves : list (nat * (Z -> Z))).
  Variable canon_of : task -> C.
  Hypothesis canon_of_spec : forall t t', canon_of t = canon_of t' <-> canon_eqb t t' = true.
  Hypothesis build_inj : forall v w, build v = build w -> v = w.
  Hypothesis Hfam : forall b, in_grid (l_nb L) b ->
    canon_of (l_task L b) = build (map (fun ag : nat * (Z -> Z) => snd ag (nth (fst ag) b 0)) leaves).
  Hypothesis Hcov : forall a g n, In (a, g) leaves -> nth_error (l_nb L) a = Some n ->
    forall k, 0 <= k < n -> exists k', 0 <= k' < n /\
      (exists p, In p (probe_blocks (l_nb L)) /\ nth a p 0 = k') /\ g k = g k'.

  Lemma probe_test_complete_gen : independence_test L = true ->
    forall b, in_grid (l_nb L) b -> canon_eqb (l_task L b) (l_task L (zero_block (l_nb L))) = true.
  Proof.
    intros Ht b Hb. pose proof (in_grid_pos _ _ Hb) as Hpos. pose proof (zero_in_grid _ Hpos) as Hz.
    apply canon_of_spec. rewrite (Hfam b Hb), (Hfam _ Hz). f_equal.
    apply map_ext_in. intros [a g] Hag. cbn [fst snd]. rewrite nth_zero_block.
    destruct (nth_error (l_nb L) a) as [n|] eqn:En.
    - destruct (Hcov a g n Hag En (nth a b 0) (in_grid_nth _ _ Hb a n En)) as [k' [Hk' [[p [Hp Hpa]] Hg]]].
      rewrite Hg. unfold independence_test in Ht. rewrite forallb_forall in Ht. specialize (Ht p Hp).
      apply canon_of_spec in Ht. rewrite (Hfam p (probes_in_grid _ _ Hpos Hp)), (Hfam _ Hz) in Ht.
      apply build_inj in Ht.
      assert (E : forall (l : list (nat * (Z -> Z))) x, In x l ->
                map (fun ag : nat * (Z -> Z) => snd ag (nth (fst ag) p 0)) l
                = map (fun ag : nat * (Z -> Z) => snd ag (nth (fst ag) (zero_block (l_nb L)) 0)) l ->
                snd x (nth (fst x) p 0) = snd x (nth (fst x) (zero_block (l_nb L)) 0)).
      { clear. induction l as [|y t IH]; intros x Hx E; [destruct Hx|]. cbn in E. apply cons_eq_inv in E.
        destruct E as [E1 E2]. destruct Hx as [Hx|Hx]; [subst; exact E1 | apply IH; assumption]. }
      specialize (E leaves (a, g) Hag Ht). cbn [fst snd] in E. rewrite Hpa, nth_zero_block in E. exact E.
    - apply nth_error_None in En. rewrite nth_overflow; [reflexivity|]. rewrite (in_grid_length _ _ Hb). exact En.
  Qed.
End ProbeComplete.

(* the probes cover, on every axis, positions 0, n-1, n/2 (other coordinates 0) and min(a, n-1) *)
Lemma covered_probed : forall nb a n k, Forall (fun n => 1 <= n) nb -> nth_error nb a = Some n -> covered n a k ->
  0 <= k < n /\ exists p, In p (probe_blocks nb) /\ nth a p 0 = k.
Proof.
  intros nb a n k Hpos Ha Hk.
  assert (Hn : 1 <= n) by (rewrite Forall_forall in Hpos; apply Hpos; eapply nth_error_In; exact Ha).
  assert (La : (a < length (zero_block nb))%nat) by (rewrite zero_block_length; apply nth_error_Some; congruence).
  destruct Hk as [Hk|[Hk|[Hk|Hk]]].
  - split; [lia|]. exists (set_nth a k (zero_block nb)). split; [eapply probe_axis_cover; eauto|].
    rewrite nth_set_nth, Nat.eqb_refl by exact La. reflexivity.
  - split; [lia|]. exists (set_nth a k (zero_block nb)). split; [eapply probe_axis_cover; eauto|].
    rewrite nth_set_nth, Nat.eqb_refl by exact La. reflexivity.
  - split; [subst; split; [apply Z.div_pos; lia | apply Z.div_lt_upper_bound; lia]|].
    exists (set_nth a k (zero_block nb)). split; [eapply probe_axis_cover; eauto|].
    rewrite nth_set_nth, Nat.eqb_refl by exact La. reflexivity.
  - split; [lia|]. exists (diag_block nb). split; [apply probe_blocks_spec; auto|].
    rewrite (diag_block_nth nb a n Ha). symmetry. exact Hk.
Qed.

(* (c): leaves that take, at every position of their axis, the value of a COVERED position *)
Theorem probe_test_complete : forall (L : layer) (build : list Z -> list node * label) (leaves : list (nat * (Z -> Z))),
  (forall v w, build v = build w -> v = w) ->
  (forall b, in_grid (l_nb L) b ->
     (t_nodes (l_task L b), t_out (l_task L b)) = build (map (fun ag : nat * (Z -> Z) => snd ag (nth (fst ag) b 0)) leaves)) ->
  (forall a g n, In (a, g) leaves -> nth_error (l_nb L) a = Some n ->
     forall k, 0 <= k < n -> exists k', covered n a k' /\ g k = g k') ->
  independence_test L = true ->
  forall b, in_grid (l_nb L) b ->
    t_nodes (l_task L b) = t_nodes (l_task L (zero_block (l_nb L))) /\
    t_out (l_task L b) = t_out (l_task L (zero_block (l_nb L))).
Proof.
  intros L build leaves Hinj Hfam Hcov Ht b Hb. pose proof (in_grid_pos _ _ Hb) as Hpos.
  apply canon_eqb_eq.
  apply (probe_test_complete_gen L (list node * label) build leaves (fun t => (t_nodes t, t_out t))); auto.
  - intros t t'. rewrite canon_eqb_eq. split; [intro E; inversion E; auto | intros [E1 E2]; rewrite E1, E2; reflexivity].
  - intros a g n Hag Ha k Hk. destruct (Hcov a g n Hag Ha k Hk) as [k' [Hc Hg]].
    destruct (covered_probed _ a n k' Hpos Ha Hc) as [Hr Hp]. exists k'. auto.
Qed.

(* the instance the code bets on: a leaf that has ONE value on all the interior positions of its
   axis (whatever it is at the first and at the last position) — e.g. the block size of uniform
   chunks with a shorter last (and/or first) block *)
Lemma interior_covered : forall (g : Z -> Z) n a, 1 <= n ->
  (forall k k', 0 < k < n - 1 -> 0 < k' < n - 1 -> g k = g k') ->
  forall k, 0 <= k < n -> exists k', covered n a k' /\ g k = g k'.
Proof.
  intros g n a Hn Hint k Hk. unfold covered.
  destruct (Z.eq_dec k 0) as [E|E]; [exists 0; subst; auto|].
  destruct (Z.eq_dec k (n - 1)) as [E1|E1]; [exists (n - 1); subst; auto|].
  exists (n / 2). split; [auto|]. apply Hint; [lia|].
  assert (3 <= n) by lia. split.
  - apply Z.div_str_pos. lia.
  - assert (n / 2 < n - 1); [|lia]. apply Z.div_lt_upper_bound; lia.
Qed.

Theorem probe_test_complete_interior : forall (L : layer) (build : list Z -> list node * label) (leaves : list (nat * (Z -> Z))),
  (forall v w, build v = build w -> v = w) ->
  (forall b, in_grid (l_nb L) b ->
     (t_nodes (l_task L b), t_out (l_task L b)) = build (map (fun ag : nat * (Z -> Z) => snd ag (nth (fst ag) b 0)) leaves)) ->
  (forall a g n, In (a, g) leaves -> nth_error (l_nb L) a = Some n ->
     forall k k', 0 < k < n - 1 -> 0 < k' < n - 1 -> g k = g k') ->
  independence_test L = true ->
  forall b, in_grid (l_nb L) b ->
    t_nodes (l_task L b) = t_nodes (l_task L (zero_block (l_nb L))) /\
    t_out (l_task L b) = t_out (l_task L (zero_block (l_nb L))).
Proof.
  intros L build leaves Hinj Hfam Hint Ht b Hb. pose proof (in_grid_pos _ _ Hb) as Hpos.
  apply (probe_test_complete L build leaves Hinj Hfam); auto.
  intros a g n Hag Ha k Hk. apply interior_covered; [|eapply Hint; eauto | exact Hk].
  rewrite Forall_forall in Hpos. apply Hpos. eapply nth_error_In. exact Ha.
Qed.

(* ------------------------------------------------------------------------- *)
(** * (a) for the two exact derivations (_MatSpec): _site_based_spec and _fast_spec_uniform *)
Lemma all_some_Forall2 : forall {A B} (f : A -> option B) l r,
  Forall2 (fun x y => f x = Some y) l r -> all_some (map f l) = Some r.
Proof. intros A B f l r H; induction H as [|x y l r Hx H IH]; cbn; [reflexivity | rewrite Hx, IH; reflexivity]. Qed.

Lemma all_some_Forall2_inv : forall {A B} (f : A -> option B) l r,
  all_some (map f l) = Some r -> Forall2 (fun x y => f x = Some y) l r.
Proof.
  intros A B f l; induction l as [|x t IH]; intros r H; cbn in H.
  - inversion H. constructor.
  - destruct (f x) as [y|] eqn:E; [|discriminate]. destruct (all_some (map f t)) as [r'|]; cbn in H; [|discriminate].
    inversion H; subst. constructor; [exact E | apply IH; reflexivity].
Qed.

Lemma dep_slots_roundtrip : forall names ks slots, dep_slots names ks = Some slots -> map (dep_key names) slots = ks.
Proof.
  unfold dep_slots. intros names ks slots H. apply all_some_Forall2_inv in H.
  induction H as [|k s ks slots Hk H IH]; cbn; [reflexivity|]. f_equal; [|exact IH].
  unfold dep_slot in Hk. destruct (dep_index names (fst k) 0) as [i|] eqn:E; [|discriminate]. inversion Hk; subst.
  destruct (dep_index_nth _ _ _ _ 1%positive E) as [_ Hn]. rewrite Nat.sub_0_r in Hn.
  unfold dep_key; cbn. rewrite Hn. destruct k; reflexivity.
Qed.

Lemma Forall2_impl_left : forall {A B} (P Q : A -> B -> Prop) l v,
  Forall2 P l v -> (forall k y, In k l -> P k y -> Q k y) -> Forall2 Q l v.
Proof.
  intros A B P Q l v H; induction H as [|k y l v Hk H IH]; intro HPQ; constructor.
  - apply HPQ; [left; reflexivity | exact Hk].
  - apply IH. intros k' y' Hin. apply HPQ. right. exact Hin.
Qed.

Lemma assoc_key_combine_self : forall (l v : list site), NoDup l -> length l = length v ->
  all_some (map (fun k => assoc_key k (combine l v)) l) = Some v.
Proof.
  intros l v Hnd Hl. apply all_some_Forall2. revert v Hl.
  induction Hnd as [|x t Hx Hnd IH]; intros [|y v] Hl; cbn in Hl; try discriminate.
  - constructor.
  - constructor.
    + cbn. rewrite (proj2 (site_eqb_eq x x) eq_refl). reflexivity.
    + apply (Forall2_impl_left (fun k y0 => assoc_key k (combine t v) = Some y0)); [apply IH; lia|].
      intros k y0 Hin Hk. cbn.
      destruct (site_eqb x k) eqn:E; [apply site_eqb_eq in E; subst; contradiction | exact Hk].
Qed.

Lemma nth_all_some_map : forall {A B} (f : A -> option B) l r i b d,
  all_some (map f l) = Some r -> nth_error l i = Some b -> f b = Some (nth i r d).
Proof.
  intros A B f l r i b d H Hi. apply all_some_Forall2_inv in H. revert i Hi.
  induction H as [|x y l r Hx H IH]; intros [|i] Hi; cbn in Hi; try discriminate.
  - inversion Hi; subst. exact Hx.
  - cbn. apply IH. exact Hi.
Qed.

Theorem site_based_sound : forall L s,
  site_based L = Some s -> shared_everywhere L -> deps_are_sites L ->
  forall i b, nth_error (all_blocks (l_nb L)) i = Some b ->
    eff_equiv (eff_fast L (fast_record L s i b)) (eff_slow (l_task L b)).
Proof.
  intros L s H Hsh Hdeps i b Hi.
  assert (Hb : in_grid (l_nb L) b) by (apply all_blocks_spec; eapply nth_error_In; exact Hi).
  unfold site_based in H. cbv zeta in H.
  destruct (Nat.eqb (length (l_nb L)) 0); [discriminate|].
  destruct (all_blocks (l_nb L)) as [|b0 rest] eqn:Eb; [discriminate|]. rewrite <- Eb in *.
  destruct (negb (t_ok _)); [discriminate|].
  destruct (t_sites (l_task L (zero_block (l_nb L)))) as [s0|]; [|discriminate].
  destruct (negb (forallb _ _)); [discriminate|].
  destruct (Nat.eqb (length s0) 0); [discriminate|].
  destruct (all_some _) as [slots|] eqn:Esl; [|discriminate].
  destruct (find _ _) as [mb|] eqn:Ef; [|discriminate].
  apply find_some in Ef. destruct Ef as [Hmb Em]. apply all_blocks_spec in Hmb.
  destruct (t_sites (l_task L mb)) as [sm|] eqn:Esm; [|discriminate]. apply Nat.eqb_eq in Em.
  inversion H; subst s. clear H.
  pose proof (nth_all_some_map _ _ _ _ _ [] Esl Hi) as Hslot. unfold site_block_slots in Hslot.
  destruct (negb (t_ok (l_task L b))); [discriminate|].
  destruct (t_sites (l_task L b)) as [sb|] eqn:Esb; [|discriminate].
  destruct (Nat.eqb (length sb) (length s0) && _) eqn:Ec; cbn [negb] in Hslot; [|discriminate].
  apply andb_true_iff in Ec. destruct Ec as [Ec _]. apply Nat.eqb_eq in Ec.
  apply dep_slots_roundtrip in Hslot.
  (* the maximal block has as many sites as every block *)
  pose proof (nth_error_In _ _ Hi) as Hin.
  assert (Lsm : length sm = length s0).
  { destruct (In_nth_error _ _ (proj2 (all_blocks_spec _ _) Hmb)) as [j Hj].
    pose proof (nth_all_some_map _ _ _ _ _ [] Esl Hj) as Hm. unfold site_block_slots in Hm.
    destruct (negb (t_ok (l_task L mb))); [discriminate|]. rewrite Esm in Hm.
    destruct (Nat.eqb (length sm) (length s0) && _) eqn:Ec2; cbn [negb] in Hm; [|discriminate].
    apply andb_true_iff in Ec2. destruct Ec2 as [Ec2 _]. apply Nat.eqb_eq in Ec2. exact Ec2. }
  assert (NDsm : NoDup sm) by (apply (ndistinct_NoDup site_eqb site_eqb_eq); congruence).
  destruct (Hsh b Hb) as [_ [Hn Ho]]. destruct (Hsh mb Hmb) as [_ [Hnm Hom]].
  unfold eff_equiv, eff_fast, eff_slow, fast_record.
  cbn [fr_shared fr_seeds fr_deps fr_block sh_block sh_inkeys sh_holes e_nodes e_out e_reads e_deps combine].
  rewrite map_fill_node_nil, Esm, Hslot, Esb. repeat split.
  - congruence.
  - congruence.
  - rewrite assoc_key_combine_self; [reflexivity | exact NDsm | congruence].
  - intro Hk. apply (Hdeps b sb Hb Esb). exact Hk.
  - intro Hk. apply (Hdeps b sb Hb Esb). exact Hk.
Qed.

(* binding by source NAME: the shared subgraph is block 0's, its inkeys have distinct names *)
Lemma assoc_key_by_name : forall (inkeys0 E : list site) k x,
  NoDup (map fst inkeys0) -> map fst E = map fst inkeys0 -> In k inkeys0 -> In x E -> fst x = fst k ->
  assoc_key k (combine inkeys0 E) = Some x.
Proof.
  induction inkeys0 as [|k0 t IH]; intros [|e0 E] k x Hnd Hf Hk Hx Hn; cbn in Hf; try discriminate; [destruct Hk|].
  inversion Hf as [[Hf0 Hft]]. inversion Hnd as [|? ? Hk0 Hnt]; subst. cbn.
  destruct (site_eqb k0 k) eqn:Ek.
  - apply site_eqb_eq in Ek. subst k0. destruct Hx as [Hx|Hx]; [subst; reflexivity|].
    exfalso. apply Hk0. rewrite <- Hn, <- Hft. apply in_map. exact Hx.
  - destruct Hk as [Hk|Hk]; [subst; rewrite (proj2 (site_eqb_eq k k) eq_refl) in Ek; discriminate|].
    destruct Hx as [Hx|Hx].
    + subst e0. exfalso. apply Hk0. rewrite <- Hf0, Hn. apply in_map. exact Hk.
    + apply IH; assumption.
Qed.

Lemma uniform_reads : forall (inkeys0 E sites0 sites_b : list site),
  NoDup (map fst inkeys0) -> map fst E = map fst inkeys0 ->
  (forall k, In k sites0 -> In k inkeys0) -> map fst sites_b = map fst sites0 ->
  (forall k, In k sites_b -> In k E) ->
  all_some (map (fun k => assoc_key k (combine inkeys0 E)) sites0) = Some sites_b.
Proof.
  intros inkeys0 E sites0 sites_b Hnd Hf H0 Hn Hb. apply all_some_Forall2.
  revert sites_b Hn Hb. induction sites0 as [|k t IH]; intros [|x sb] Hn Hb; cbn in Hn; try discriminate; constructor.
  - inversion Hn. apply assoc_key_by_name; auto; [apply H0; left; reflexivity | apply Hb; left; reflexivity].
  - inversion Hn. apply IH; auto; intros; [apply H0 | apply Hb]; right; assumption.
Qed.

Lemma assoc_site_In : forall {B} lb (l : list (positive * B)) v, assoc_site lb l = Some v -> In (lb, v) l.
Proof.
  intros B lb l; induction l as [|[x w] t IH]; intros v H; cbn in H; [discriminate|].
  destruct (Pos.eqb x lb) eqn:E; [apply Pos.eqb_eq in E; inversion H; subst; left; reflexivity | right; apply IH; exact H].
Qed.

Lemma assoc_site_unique : forall {B} lb (l : list (positive * B)) v,
  NoDup (map fst l) -> In (lb, v) l -> assoc_site lb l = Some v.
Proof.
  intros B lb l; induction l as [|[x w] t IH]; intros v Hnd Hin; cbn in *; [destruct Hin|].
  inversion Hnd as [|? ? Hx Ht]; subst. destruct Hin as [E|Hin].
  - inversion E; subst. rewrite Pos.eqb_refl. reflexivity.
  - destruct (Pos.eqb x lb) eqn:E; [|apply IH; assumption].
    apply Pos.eqb_eq in E. subst. exfalso. apply Hx. apply (in_map fst) in Hin. exact Hin.
Qed.

(* the slots the exact loop of _fast_spec_uniform stores for one block: its own inkeys, in the
   order of block 0's labels *)
Lemma uniform_block_slots_spec : forall L labels0 b sl,
  uniform_block_slots L labels0 b = Some sl ->
  let E := map (dep_key (l_deps L)) sl in
  map fst E = labels0 /\
  (forall k, In k E <-> In k (t_inkeys (l_task L b))) /\
  (forall k, In k (t_inkeys (l_task L b)) <-> In k (t_deps (l_task L b))).
Proof.
  intros L labels0 b sl H E. unfold uniform_block_slots in H. cbv zeta in H.
  destruct (negb (t_ok _)); [discriminate|].
  set (ks := t_inkeys (l_task L b)) in *.
  destruct (Nat.eqb (ndistinct Pos.eqb (map (fun k : site => fst k) ks)) (length (map (fun k : site => fst k) ks))) eqn:End;
    cbn [negb] in H; [|discriminate].
  apply Nat.eqb_eq in End. apply (ndistinct_NoDup Pos.eqb Pos.eqb_eq) in End.
  destruct (set_eqb Pos.eqb (map (fun k : site => fst k) ks) labels0) eqn:Esl; cbn [negb] in H; [|discriminate].
  pose proof (proj1 (set_eqb_spec Pos.eqb Pos.eqb_eq _ _) Esl) as Hlab.
  destruct (set_eqb site_eqb ks (t_deps (l_task L b))) eqn:Esd; cbn [negb] in H; [|discriminate].
  pose proof (proj1 (set_eqb_spec site_eqb site_eqb_eq _ _) Esd) as Hdep.
  destruct (dep_slots (l_deps L) ks) as [slots|] eqn:Eds; [|discriminate].
  pose proof (dep_slots_roundtrip _ _ _ Eds) as Hrt.
  assert (Lsl : length slots = length ks) by (rewrite <- Hrt, map_length; reflexivity).
  set (pairs := combine (map (fun k : site => fst k) ks) slots) in *.
  assert (Epairs : pairs = map (fun v => (fst (dep_key (l_deps L) v), v)) slots).
  { unfold pairs. rewrite <- Hrt. clear. induction slots as [|s t IH]; cbn; [reflexivity | rewrite IH; reflexivity]. }
  assert (Hpairs : forall lb v, In (lb, v) pairs <-> In v slots /\ fst (dep_key (l_deps L) v) = lb).
  { intros lb v. rewrite Epairs, in_map_iff. split.
    - intros [v' [Ep Hv']]. inversion Ep; subst. auto.
    - intros [Hv Ep]. exists v. subst. auto. }
  assert (Hks : forall v, In v slots -> In (dep_key (l_deps L) v) ks) by (intros v Hv; rewrite <- Hrt; apply in_map; exact Hv).
  assert (NDp : NoDup (map fst pairs)).
  { unfold pairs. assert (Ef : map fst (combine (map (fun k : site => fst k) ks) slots) = map (fun k : site => fst k) ks).
    { clear - Lsl. revert slots Lsl. induction ks as [|k t IH]; intros [|s sl] Hl; cbn in *; try discriminate; [reflexivity|].
      f_equal. apply IH. lia. }
    rewrite Ef. exact End. }
  apply all_some_Forall2_inv in H.
  split; [|split].
  - unfold E. clear - H Hpairs. induction H as [|lb v l r Hv H IH]; cbn; [reflexivity|]. f_equal; [|exact IH].
    apply assoc_site_In in Hv. apply Hpairs in Hv. apply Hv.
  - intro k. unfold E. split.
    + intro Hk. apply in_map_iff in Hk. destruct Hk as [v [Ev Hv]]. subst k.
      assert (G : exists lb, assoc_site lb pairs = Some v).
      { clear - H Hv. induction H as [|lb w l r Hw H IH]; [destruct Hv|]. destruct Hv as [Hv|Hv]; [subst; exists lb; exact Hw | apply IH; exact Hv]. }
      destruct G as [lb G]. apply assoc_site_In in G. apply Hpairs in G. apply Hks. apply G.
    + intro Hk. assert (Hl : In (fst k) labels0) by (apply Hlab; apply (in_map (fun k : site => fst k)); exact Hk).
      (* the slot of k *)
      assert (G : exists v, In v slots /\ dep_key (l_deps L) v = k).
      { rewrite <- Hrt in Hk. apply in_map_iff in Hk. destruct Hk as [v [Ev Hv]]. exists v. auto. }
      destruct G as [v [Hv Ev]].
      assert (Hp : In (fst k, v) pairs) by (apply Hpairs; rewrite Ev; auto).
      pose proof (assoc_site_unique _ _ _ NDp Hp) as Ha.
      assert (G2 : forall l r, Forall2 (fun lb y => assoc_site lb pairs = Some y) l r -> In (fst k) l -> In v r).
      { clear - Ha. intros l r F. induction F as [|lb y l r Hy F IH]; intros Hin; [destruct Hin|].
        destruct Hin as [Hin|Hin]; [subst; rewrite Ha in Hy; inversion Hy; left; reflexivity | right; apply IH; exact Hin]. }
      rewrite <- Ev. apply in_map. apply (G2 _ _ H Hl).
  - exact Hdep.
Qed.

Lemma broadcast_spec_names : forall L inkeys0 sources b, broadcast_spec L inkeys0 = Some sources ->
  map (dep_key (l_deps L)) (map (fun s : nat * positive * list Z => (fst (fst s), broadcast_block_id (snd s) b)) sources)
  = map (fun s : nat * positive * list Z => (snd (fst s), broadcast_block_id (snd s) b)) sources
  /\ map (fun s : nat * positive * list Z => snd (fst s)) sources = map fst inkeys0.
Proof.
  intros L inkeys0 sources b H. unfold broadcast_spec in H. apply all_some_Forall2_inv in H.
  induction H as [|k s ks ss Hk H IH]; cbn; [auto|].
  destruct (dep_index (l_deps L) (fst k) 0) as [i|] eqn:E; [|discriminate]. inversion Hk; subst. cbn [fst snd].
  destruct (dep_index_nth _ _ _ _ 1%positive E) as [_ Hn]. rewrite Nat.sub_0_r in Hn.
  destruct IH as [I1 I2]. split; [|f_equal; exact I2]. f_equal; [|exact I1].
  unfold dep_key; cbn. rewrite Hn. reflexivity.
Qed.

Theorem uniform_sound : forall L s,
  uniform L = Some s -> shared_everywhere L -> fuse_wf L -> broadcast_everywhere L ->
  forall i b, nth_error (all_blocks (l_nb L)) i = Some b ->
    eff_equiv (eff_fast L (fast_record L s i b)) (eff_slow (l_task L b)).
Proof.
  intros L s H Hsh Hwf Hbc i b Hi.
  assert (Hb : in_grid (l_nb L) b) by (apply all_blocks_spec; eapply nth_error_In; exact Hi).
  pose proof (in_grid_pos _ _ Hb) as Hpos. pose proof (zero_in_grid _ Hpos) as Hz.
  set (zero := zero_block (l_nb L)) in *. set (t0 := l_task L zero) in *.
  destruct (Hwf zero Hz) as [s0 [Es0 [Hs0in _]]].
  destruct (Hwf b Hb) as [sb [Esb [Hsbin [Hdb Hnames]]]]. specialize (Hnames s0 Es0).
  destruct (Hsh b Hb) as [_ [Hn Ho]].
  (* whichever branch made the slots: E = the dependency keys of the record, named like block 0's
     inkeys, and exactly the block's own inkeys *)
  assert (G : exists sh slots, s = MatSpec sh slots /\ sh = mkshared zero (t_inkeys t0) [] /\
            NoDup (map fst (t_inkeys t0)) /\
            let E := map (dep_key (l_deps L)) (nth i slots []) in
            map fst E = map fst (t_inkeys t0) /\ (forall k, In k E <-> In k (t_inkeys (l_task L b)))).
  { unfold uniform in H. cbv zeta in H. fold zero in H. fold t0 in H.
    destruct (Nat.eqb (length (l_nb L)) 0); [discriminate|].
    destruct (negb (t_ok t0)); [discriminate|].
    destruct (Nat.eqb (ndistinct Pos.eqb (map (fun k : site => fst k) (t_inkeys t0))) (length (map (fun k : site => fst k) (t_inkeys t0)))) eqn:End;
      cbn [negb] in H; [|discriminate].
    apply Nat.eqb_eq in End. apply (ndistinct_NoDup Pos.eqb Pos.eqb_eq) in End.
    assert (Exact : forall slots,
              all_some (map (uniform_block_slots L (map (fun k : site => fst k) (t_inkeys t0))) (all_blocks (l_nb L))) = Some slots ->
              let E := map (dep_key (l_deps L)) (nth i slots []) in
              map fst E = map fst (t_inkeys t0) /\ (forall k, In k E <-> In k (t_inkeys (l_task L b)))).
    { intros slots Esl. pose proof (nth_all_some_map _ _ _ _ _ [] Esl Hi) as Hslot.
      destruct (uniform_block_slots_spec _ _ _ _ Hslot) as [U1 [U2 _]]. split; assumption. }
    destruct (broadcast_spec L (t_inkeys t0)) as [sources|] eqn:Ebs.
    - destruct (validate_broadcast L t0 sources) eqn:Ev.
      + inversion H; subst s. do 2 eexists. split; [reflexivity|]. split; [reflexivity|]. split; [exact End|].
        cbv zeta. rewrite (nth_map_error _ _ _ _ [] Hi).
        destruct (broadcast_spec_names L _ _ b Ebs) as [B1 B2]. rewrite B1. split.
        * rewrite map_map. cbn [fst]. exact B2.
        * intro k. rewrite (Hbc sources Ebs Ev b Hb k). apply Hdb.
      + destruct (negb (forallb _ _)); [discriminate|].
        destruct (all_some _) as [slots|] eqn:Esl; [|discriminate]. inversion H; subst s.
        do 2 eexists. split; [reflexivity|]. split; [reflexivity|]. split; [exact End|]. apply Exact. reflexivity.
    - destruct (negb (forallb _ _)); [discriminate|].
      destruct (all_some _) as [slots|] eqn:Esl; [|discriminate]. inversion H; subst s.
      do 2 eexists. split; [reflexivity|]. split; [reflexivity|]. split; [exact End|]. apply Exact. reflexivity. }
  destruct G as [sh [slots [Es [Esh [Hnd [HE1 HE2]]]]]]. subst s sh.
  unfold eff_equiv, eff_fast, eff_slow, fast_record.
  cbn [fr_shared fr_seeds fr_deps fr_block sh_block sh_inkeys sh_holes e_nodes e_out e_reads e_deps combine].
  fold zero. fold t0. rewrite map_fill_node_nil. unfold t0 at 3. rewrite Es0, Esb. repeat split.
  - unfold t0, zero. symmetry. exact Hn.
  - unfold t0, zero. symmetry. exact Ho.
  - apply uniform_reads; auto. intros k Hk. apply HE2. apply Hsbin. exact Hk.
  - intro Hk. apply Hdb. apply HE2. exact Hk.
  - intro Hk. apply HE2. apply Hdb. exact Hk.
Qed.

(* ------------------------------------------------------------------------- *)
(** * `eff_eqb` decides `eff_equiv` *)
Lemma eff_eqb_spec : forall a b, eff_eqb a b = true <-> eff_equiv a b.
Proof.
  intros [na oa ra da] [nb ob rb db]. unfold eff_eqb, eff_equiv. cbn [e_nodes e_out e_reads e_deps].
  rewrite !andb_true_iff, (list_eqb_eq node_eqb node_eqb_eq), label_eqb_eq, (set_eqb_spec site_eqb site_eqb_eq).
  assert (R : match ra, rb with
              | Some x, Some y => list_eqb site_eqb x y
              | None, None => true
              | _, _ => false end = true <-> ra = rb).
  { destruct ra as [x|], rb as [y|]; try (split; [discriminate | intro E; inversion E]); [|split; reflexivity].
    rewrite (list_eqb_eq site_eqb site_eqb_eq). split; [intro; subst; reflexivity | intro E; inversion E; reflexivity]. }
  rewrite R. tauto.
Qed.

(* ------------------------------------------------------------------------- *)
(** * (b) the probe test is incomplete *)
Theorem probe_test_incomplete : 
  exists L s b i,
    independence_test L = true /\ fast_spec L = Some s /\
    nth_error (all_blocks (l_nb L)) i = Some b /\ ~ In b (probe_blocks (l_nb L)) /\
    ~ eff_equiv (eff_fast L (fast_record L s i b)) (eff_slow (l_task L b)).
Proof.
  exists c21a_layer, (MatSpec (mkshared [0] [] []) [[]; []; []; []]), [1], 1%nat.
  split; [vm_compute; reflexivity|]. split; [vm_compute; reflexivity|]. split; [reflexivity|].
  split.
  - intro H. vm_compute in H. repeat (destruct H as [H|H]; [discriminate|]). exact H.
  - intro H. apply eff_eqb_spec in H. vm_compute in H. discriminate.
Qed.

(* the same through _analytical_site_spec (a source is read): the slots are right, the literal is not *)
Theorem probe_test_incomplete_analytical :
  exists L s b i,
    analytical L = Some s /\ affine_sites L [(3%positive, [PBid 0])] /\ deps_are_sites L /\
    nth_error (all_blocks (l_nb L)) i = Some b /\ ~ In b (probe_blocks (l_nb L)) /\
    ~ eff_equiv (eff_fast L (fast_record L s i b)) (eff_slow (l_task L b)).
Proof.
  exists c21a_src_layer, (ProjSpec (mkshared [0] [(3%positive, [0])] []) [(0%nat, [PBid 0])] []), [1], 1%nat.
  split; [vm_compute; reflexivity|].
  split; [intros b Hb; inversion Hb as [|? x ? b' Hx Hb']; subst; inversion Hb'; subst; reflexivity|].
  split; [intros b s Hb Hs k; cbn in Hs; inversion Hs; subst; reflexivity|].
  split; [reflexivity|]. split.
  - intro H. vm_compute in H. repeat (destruct H as [H|H]; [discriminate|]). exact H.
  - intro H. apply eff_eqb_spec in H. vm_compute in H. discriminate.
Qed.

(* In one dimension the covered positions are EXACTLY the ones at which a deviating literal is
   caught: for every other position there is a family that passes every test of the fast path and
   whose generated record is wrong there. *)
Theorem probe_cover_exact_1d : forall n k, 0 <= k < n -> ~ covered n 0 k ->
  let L := spike_layer n k in
  independence_test L = true /\
  exists s, fast_spec L = Some s /\
    nth_error (all_blocks (l_nb L)) (Z.to_nat k) = Some [k] /\
    ~ eff_equiv (eff_fast L (fast_record L s (Z.to_nat k) [k])) (eff_slow (l_task L [k])).
Proof.
  intros n k Hk Hc L.
  assert (Hp : forall p, In p (probe_blocks [n]) -> l_task L p = creation_task 1).
  { intros p Hp. destruct (probe_positions [n] p 0 n Hp eq_refl) as [E|[E|[E|E]]];
      unfold L, spike_layer; cbn [l_task]; rewrite E;
      (destruct (Z.eqb _ k) eqn:Ek; [apply Z.eqb_eq in Ek; exfalso; apply Hc; unfold covered; rewrite <- Ek; auto | reflexivity]). }
  assert (H0 : l_task L (zero_block [n]) = creation_task 1).
  { apply Hp. apply probe_blocks_spec. left. reflexivity. }
  assert (Hall : forallb (fun b => canon_eqb (l_task L b) (l_task L (zero_block [n]))) (probe_blocks [n]) = true).
  { apply forallb_forall. intros p Hpp. rewrite (Hp p Hpp), H0. reflexivity. }
  split; [exact Hall|].
  exists (MatSpec (mkshared [0] [] []) (map (fun _ => []) (all_blocks [n]))).
  split; [|split].
  - unfold fast_spec, fast_spec_path.
    assert (Ea : analytical L = None).
    { unfold analytical. cbv zeta. change (l_nb L) with [n]. rewrite H0. reflexivity. }
    assert (Eu : uniform L = Some (MatSpec (mkshared [0] [] []) (map (fun _ => []) (all_blocks [n])))).
    { unfold uniform. cbv zeta. change (l_nb L) with [n]. rewrite H0.
      cbn [length Nat.eqb t_ok negb creation_task t_inkeys map ndistinct dedup broadcast_spec all_some].
      assert (Ev : validate_broadcast L (creation_task 1) [] = true).
      { unfold validate_broadcast. change (l_nb L) with [n]. apply forallb_forall. intros p Hpp. rewrite (Hp p Hpp). reflexivity. }
      rewrite Ev. reflexivity. }
    rewrite Ea, Eu. reflexivity.
  - change (l_nb L) with [n]. cbn [all_blocks].
    assert (G : forall l : list Z, flat_map (fun i => map (cons i) [[]]) l = map (fun i => [i]) l).
    { induction l as [|x t IH]; [reflexivity|]. cbn [flat_map map app]. apply f_equal. exact IH. }
    rewrite G. unfold range0. rewrite map_map.
    rewrite nth_error_map. rewrite nth_error_nth' with (d := 0%nat) by (rewrite seq_length; lia).
    rewrite seq_nth by lia. cbn. f_equal. f_equal. lia.
  - intro H. destruct H as [Hn _]. unfold eff_fast, fast_record in Hn. cbn [e_nodes fr_shared sh_block sh_holes fr_seeds combine eff_slow] in Hn.
    change [0] with (zero_block [n]) in Hn. rewrite H0 in Hn.
    unfold L, spike_layer in Hn. cbn [l_task nth] in Hn. rewrite Z.eqb_refl in Hn. discriminate.
Qed.

(* ------------------------------------------------------------------------- *)
(** * (c) + (a): when the leaves take covered values, an accepted fast path is right everywhere *)
Section CoveredSound.
  Variables (L : layer) (build : list Z -> list node * label) (leaves : list (nat * (Z -> Z))).
  Hypothesis build_inj : forall v w, build v = build w -> v = w.
  Hypothesis Hfam : forall b, in_grid (l_nb L) b ->
     (t_nodes (l_task L b), t_out (l_task L b)) = build (map (fun ag : nat * (Z -> Z) => snd ag (nth (fst ag) b 0)) leaves).
  Hypothesis Hcov : forall a g n, In (a, g) leaves -> nth_error (l_nb L) a = Some n ->
     forall k, 0 <= k < n -> exists k', covered n a k' /\ g k = g k'.
  Hypothesis Hok : forall b, in_grid (l_nb L) b -> t_ok (l_task L b) = true.

  Lemma covered_shared : independence_test L = true -> shared_everywhere L.
  Proof.
    intros Ht b Hb. split; [apply Hok; exact Hb|].
    apply (probe_test_complete L build leaves build_inj Hfam Hcov Ht b Hb).
  Qed.

  Theorem analytical_sound_covered : forall s P,
    analytical L = Some s -> affine_sites L P -> deps_are_sites L ->
    forall i b, in_grid (l_nb L) b -> eff_equiv (eff_fast L (fast_record L s i b)) (eff_slow (l_task L b)).
  Proof.
    intros s P H Haff Hdeps. apply (analytical_sound L s P H); auto.
    apply covered_shared. eapply analytical_tests_probes. exact H.
  Qed.

  Theorem uniform_sound_covered : forall s,
    uniform L = Some s -> fuse_wf L -> broadcast_everywhere L ->
    forall i b, nth_error (all_blocks (l_nb L)) i = Some b ->
      eff_equiv (eff_fast L (fast_record L s i b)) (eff_slow (l_task L b)).
  Proof.
    intros s H Hwf Hbc. apply (uniform_sound L s H); auto.
    apply covered_shared. eapply uniform_tests_probes. exact H.
  Qed.

  Theorem site_based_sound_covered : forall s,
    site_based L = Some s -> deps_are_sites L ->
    forall i b, nth_error (all_blocks (l_nb L)) i = Some b ->
      eff_equiv (eff_fast L (fast_record L s i b)) (eff_slow (l_task L b)).
  Proof.
    intros s H Hdeps. apply (site_based_sound L s H); auto.
    apply covered_shared. eapply site_based_tests_probes. exact H.
  Qed.
End CoveredSound.

Lemma fast_paths_test_probes_only : forall L s,
  analytical L = Some s \/ uniform L = Some s \/ site_based L = Some s -> independence_test L = true.
Proof.
  intros L s [H|[H|H]];
    [eapply analytical_tests_probes | eapply uniform_tests_probes | eapply site_based_tests_probes]; exact H.
Qed.

(* ------------------------------------------------------------------------- *)
(** * The boolean well-formedness check implies the hypotheses of the theorems *)
Lemma family_wf_sound : forall L, family_wf_b L = true -> fuse_wf L /\ deps_are_sites L /\ canon_keys_unique L.
Proof.
  intros L H. unfold family_wf_b in H. rewrite forallb_forall in H.
  assert (G : forall b, in_grid (l_nb L) b ->
            exists s s0, t_sites (l_task L b) = Some s /\ t_sites (l_task L (zero_block (l_nb L))) = Some s0 /\
              (forall k, In k s -> In k (t_inkeys (l_task L b))) /\
              (forall k, In k (t_deps (l_task L b)) <-> In k (t_inkeys (l_task L b))) /\
              (forall k, In k (t_deps (l_task L b)) <-> In k s) /\
              map fst s = map fst s0 /\ NoDup (map n_key (t_nodes (l_task L b)))).
  { intros b Hb. specialize (H b (proj2 (all_blocks_spec _ _) Hb)). unfold task_wf_b in H.
    destruct (t_sites (l_task L b)) as [s|]; [|discriminate].
    destruct (t_sites (l_task L (zero_block (l_nb L)))) as [s0|]; [|discriminate].
    repeat (apply andb_true_iff in H; destruct H as [H ?]).
    exists s, s0.
    split; [reflexivity|]. split; [reflexivity|].
    split; [rewrite forallb_forall in H; intros k Hk; apply (memb_In site_eqb site_eqb_eq); apply H; exact Hk|].
    split; [apply (set_eqb_spec site_eqb site_eqb_eq); assumption|].
    split; [apply (set_eqb_spec site_eqb site_eqb_eq); assumption|].
    split; [apply (list_eqb_eq Pos.eqb Pos.eqb_eq); assumption
           | apply (ndistinct_NoDup Pos.eqb Pos.eqb_eq); apply Nat.eqb_eq; assumption]. }
  split; [|split].
  - intros b Hb. destruct (G b Hb) as [s [s0 [E1 [E2 [H1 [H2 [H3 [H4 H5]]]]]]]]. exists s. repeat split; auto; try apply H2.
    intros s0' E. rewrite E2 in E. inversion E; subst. exact H4.
  - intros b s Hb Es. destruct (G b Hb) as [s' [s0 [E1 [E2 [H1 [H2 [H3 [H4 H5]]]]]]]]. rewrite E1 in Es. inversion Es; subst. exact H3.
  - intros b Hb. destruct (G b Hb) as [s [s0 [E1 [E2 [H1 [H2 [H3 [H4 H5]]]]]]]]. exact H5.
Qed.

(* ------------------------------------------------------------------------- *)
(** * The probe validation compares the reads as a MULTISET *)
(* `sorted(block_slots(bid)) == sorted(actual)`: even at a PROBED block of a truly shared family the
   binding of sites to source blocks is not validated, only inferred (model-level observation: the
   block maps of real blockwise expressions are per-site functions of the block id). *)
Theorem probe_validation_is_multiset :
  exists L s b i,
    analytical L = Some s /\ shared_everywhere L /\ deps_are_sites L /\
    nth_error (all_blocks (l_nb L)) i = Some b /\ In b (probe_blocks (l_nb L)) /\
    ~ eff_equiv (eff_fast L (fast_record L s i b)) (eff_slow (l_task L b)).
Proof.
  exists swapped_layer,
         (ProjSpec (mkshared [0; 1] [(3%positive, [0; 1]); (3%positive, [1; 0])] [])
                   [(0%nat, [PBid 0; PBid 1]); (0%nat, [PBid 1; PBid 0])] []), [2; 0], 6%nat.
  split; [vm_compute; reflexivity|].
  split; [intros b Hb; repeat split; reflexivity|].
  split.
  - intros b s Hb Hs k. unfold swapped_layer in *. cbn [l_task t_sites t_deps] in *. inversion Hs. reflexivity.
  - split; [reflexivity|]. split; [vm_compute; auto 10|].
    intro H. apply eff_eqb_spec in H. vm_compute in H. discriminate.
Qed.
