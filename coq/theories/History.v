(* History.v — materialization history and planner configuration (C09): definitions only.

   Anchors in /repo:
     dask_array/_materialize.py   _LOWER_CACHE (process-wide, name-keyed, weak values), _lower,
                                  _materialize
     dask/_expr.py                Expr.lower_once(lowered):  try lowered[self._name]; else
                                  out = self._lower() ...; return lowered.setdefault(self._name, out)
     dask_array/_collection.py    Array._lowered_expr (the per-collection cache),
                                  _lowered_expr_optimize_graph

   Expressions are identified by their names (`positive`); a lowered form is itself an expression,
   so the one-pass planner is  lower1 : cfg -> name -> name.  It takes the configuration
   EXPLICITLY: the real `_lower` overrides read dask.config (array.rechunk.*, array.chunk-size,
   array.unify-chunks-policy, ...).  `simp` is simplify().  Both are parameters of the model; the
   theorems quantify over all of them. *)
From Coq Require Import List Bool ZArith PArith Lia.
From DA Require Import PyBase.
Import ListNotations.

Definition name := positive.
Definition cfg := positive.

Definition cache := list (name * name).        (* _LOWER_CACHE: name -> lowered form *)

Fixpoint c_find (n : name) (c : cache) : option name :=
  match c with
  | [] => None
  | (k, l) :: t => if Pos.eqb n k then Some l else c_find n t
  end.

(* weak values: entries disappear when nothing else references the lowered form *)
Definition c_evict (dead : list name) (c : cache) : cache :=
  filter (fun kl => negb (existsb (Pos.eqb (fst kl)) dead)) c.

Section Planner.
  Variable lower1 : cfg -> name -> name.
  Variable simp : name -> name.

  (* Expr.lower_once for one node: a hit returns the cached form WHATEVER the configuration is
     now; a miss runs the planner under the current configuration and publishes the result
     (setdefault) *)
  Definition lower_once (k : cfg) (c : cache) (n : name) : name * cache :=
    match c_find n c with
    | Some l => (l, c)
    | None => let l := lower1 k n in (l, c ++ [(n, l)])
    end.

  (* what one `_lower(expr)` does, as a stream: the top-level loop
         while True: new = expr.lower_once(cache); if new._name == expr._name: return expr; expr = new
     issues `Top` requests for the current head; each of them recursively issues requests for
     sub-expressions (`Req n`: which ones is decided by the lowering rules: an oracle), logged when
     they RETURN (that is when they publish); the garbage collector may evict entries whose lowered
     form died at any point in between (`Gc`). *)
  Inductive item :=
  | Req (n : name)
  | Top
  | TopSelf        (* the head opts out of the cache (FromArray with an exact name, FromGraph,
                      RootAlias: `lower_once` returns self): the loop ends, nothing is published *)
  | Gc (dead : list name).

  (* returns (results of the requests, cache, head, reached the fixpoint) *)
  Fixpoint lower_stream (k : cfg) (c : cache) (head : name) (done : bool) (items : list item)
    : list name * cache * name * bool :=
    match items with
    | [] => ([], c, head, done)
    | Req n :: t =>
      let '(l, c1) := lower_once k c n in
      let '(ls, c2, h, d) := lower_stream k c1 head done t in (l :: ls, c2, h, d)
    | Top :: t =>
      if done then lower_stream k c head done t
      else
        let '(l, c1) := lower_once k c head in
        let '(ls, c2, h, d) := lower_stream k c1 l (Pos.eqb l head) t in (l :: ls, c2, h, d)
    | TopSelf :: t =>
      if done then lower_stream k c head done t
      else let '(ls, c2, h, d) := lower_stream k c head true t in (head :: ls, c2, h, d)
    | Gc dead :: t => lower_stream k (c_evict dead c) head done t
    end.

  Record coll := { c_root : name; c_low : option name; c_live : bool }.
  Record state := { st_cache : cache; st_colls : list coll }.

  Inductive op :=
  | Build (p : name)                                      (* a new collection over expression p *)
  | Materialize (c : nat) (k : cfg) (optimize : bool) (items : list item)
                                                          (* x.compute() / __dask_graph__ under k *)
  | Drop (c : nat)                                        (* del x *)
  | Evict (dead : list name).                             (* the garbage collector *)

  Fixpoint set_nth {A} (l : list A) (i : nat) (x : A) : list A :=
    match l, i with
    | [], _ => []
    | _ :: t, O => x :: t
    | y :: t, S j => y :: set_nth t j x
    end.

  Definition step (st : state) (o : op) : state :=
    match o with
    | Build p => {| st_cache := st_cache st;
                    st_colls := st_colls st ++ [{| c_root := p; c_low := None; c_live := true |}] |}
    | Materialize c k optimize items =>
      match nth_error (st_colls st) c with
      | None => st
      | Some x =>
        match c_low x with
        | Some _ => st                                    (* cached_property: nothing is lowered again *)
        | None =>
          let r0 := if optimize then simp (c_root x) else c_root x in
          let '(_, c2, h, d) := lower_stream k (st_cache st) r0 false items in
          {| st_cache := c2;
             st_colls := set_nth (st_colls st) c
                           {| c_root := c_root x; c_low := if d then Some h else None; c_live := c_live x |} |}
        end
      end
    | Drop c =>
      match nth_error (st_colls st) c with
      | None => st
      | Some x => {| st_cache := st_cache st;
                     st_colls := set_nth (st_colls st) c {| c_root := c_root x; c_low := None; c_live := false |} |}
      end
    | Evict dead => {| st_cache := c_evict dead (st_cache st); st_colls := st_colls st |}
    end.

  Definition init : state := {| st_cache := []; st_colls := [] |}.
  Definition run (ops : list op) (st : state) : state := fold_left step ops st.
End Planner.


(* ---- what the correspondence check replays: the real event stream of one history ----
   lower1 / simp are given as the finite tables observed on the real run *)
Definition table := list (cfg * name * name).

Fixpoint t_find (k : cfg) (n : name) (t : table) : option name :=
  match t with
  | [] => None
  | (k', n', l) :: r => if Pos.eqb k k' && Pos.eqb n n' then Some l else t_find k n r
  end.

Definition lower1_of (t : table) (k : cfg) (n : name) : name :=
  match t_find k n t with Some l => l | None => n end.

Definition simp_of (t : list (name * name)) (n : name) : name :=
  match c_find n t with Some l => l | None => n end.

(* the table is a function: one result per (configuration, name) *)
Fixpoint table_functional (t : table) : bool :=
  match t with
  | [] => true
  | (k, n, l) :: r =>
    match t_find k n r with Some l' => Pos.eqb l l' | None => true end && table_functional r
  end.

Definition plist_eqb (a b : list positive) : bool := list_eqb Pos.eqb a b.

Definition cache_eqb (a b : cache) : bool :=
  list_eqb (fun x y => Pos.eqb (fst x) (fst y) && Pos.eqb (snd x) (snd y)) a b.

(* one observed step: the op, the results the real lower_once calls returned (Req / Top items), the
   lowered root `_lower` returned (None: not materialized by this step), the real cache after *)
Definition observed := (op * list name * option name * cache)%type.

Fixpoint replay (lt : table) (stt : list (name * name)) (st : state) (evs : list observed) : bool :=
  match evs with
  | [] => true
  | (o, results, low, after) :: r =>
    let st' := step (lower1_of lt) (simp_of stt) st o in
    let ok_results :=
      match o with
      | Materialize c k optimize items =>
        match nth_error (st_colls st) c with
        | Some x =>
          match c_low x with
          | Some _ => true
          | None =>
            plist_eqb (fst (fst (fst (lower_stream (lower1_of lt) k (st_cache st)
                                        (if optimize then simp_of stt (c_root x) else c_root x) false items)))) results &&
            match nth_error (st_colls st') c with
            | Some y => match c_low y, low with
                        | Some a, Some b => Pos.eqb a b
                        | _, _ => false
                        end
            | None => false
            end
          end
        | None => false
        end
      | _ => true
      end in
    ok_results && cache_eqb (st_cache st') after && replay lt stt st' r
  end.

Definition history_ok (lt : table) (stt : list (name * name)) (evs : list observed) : bool :=
  table_functional lt && replay lt stt init evs.
