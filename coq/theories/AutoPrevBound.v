(* Proofs about the model of auto_chunks' previous_chunks branch (AutoPrev.v), part 4:
   the BYTE BOUND.

     normalize_prev_limit          if the LAST pass that starts with `autos` non-empty is accurate for the
                                   factor T (acc_round: prod(max(1, int(proposed), int(max_chunk_size))) is
                                   within T * target and the settled dict entries multiply to >= 1) then
                                   itemsize * (largest block) <= T * max(1, limit)
     normalize_prev_limit_zero_prev_refuted   without "settled entries multiply to >= 1" the bound fails:
                                   zero-size previous chunks (median 1/2) give blocks of 2 * limit

   Argument.  largest_block always equals (fixed part) * (product of the largest chunks of the axes that left
   `autos`): an axis that hits the shape boundary multiplies both by shape[a], an axis whose proposal is < 1
   gets chunk size 1.  Every axis still in `autos` is recomputed in each pass, so only the last such pass
   matters; there each axis receives at most max(1, int(proposed), int(max_chunk_size)). *)
From DA Require Import PyBase PyBaseFacts NormChunks NormChunksFacts AutoPrev AutoPrevFacts AutoPrevTerm AutoPrevTerm2.
From Coq Require Import ZifyBool.
Open Scope Z_scope.
Ltac Zify.zify_post_hook ::= Z.to_euclidean_division_equations.

(* ---------------------------------------------------------------------- *)
(* max of a tuple *)

Lemma fold_max_le_base b l B : b <= B -> (forall e, In e l -> e <= B) -> fold_right Z.max b l <= B.
Proof.
  intros Hb H. induction l as [|x l IH]; cbn [fold_right]; [exact Hb|].
  assert (x <= B) by (apply H; left; reflexivity).
  assert (fold_right Z.max b l <= B) by (apply IH; intros e He; apply H; right; exact He). lia.
Qed.

Lemma max_of_le l B : 0 <= B -> (forall e, In e l -> e <= B) -> max_of l <= B.
Proof.
  intros HB H. unfold max_of. apply fold_max_le_base; [|exact H].
  destruct l as [|x l]; cbn [hd]; [exact HB|apply H; left; reflexivity].
Qed.

Lemma fold_max_ge b l e : In e l -> e <= fold_right Z.max b l.
Proof.
  induction l as [|x l IH]; intros H; [destruct H|]. cbn [fold_right].
  destruct H as [<-|H]; [lia|specialize (IH H); lia].
Qed.

Lemma max_of_ge l e : In e l -> e <= max_of l.
Proof. apply fold_max_ge. Qed.

Lemma max_of_nonneg l : Forall (fun c => 0 < c) l -> 0 <= max_of l.
Proof.
  intros H. destruct l as [|x l]; [cbn; lia|].
  inversion H; subst. pose proof (max_of_ge (x :: l) x (or_introl eq_refl)). lia.
Qed.

(* the merged chunks fit `proposed`, except single previous chunks *)
Lemma merge_prev_elems n d pv0 : 0 < d -> forall pv nc,
  (forall c, In c pv -> In c pv0) -> (nc <= n / d \/ In nc pv0 \/ nc = 0) ->
  forall e, In e (merge_prev (FQ n d) pv nc) -> e <= n / d \/ In e pv0.
Proof.
  intros Hd. induction pv as [|c pv IH]; intros nc Hsub Hnc e He; cbn [merge_prev] in He.
  - destruct (0 <? nc) eqn:E0; [|destruct He]. destruct He as [<-|[]].
    destruct Hnc as [H|[H|H]]; [left; exact H|right; exact H|lia].
  - destruct (z_le_f (c + nc) (FQ n d)) eqn:E.
    + eapply IH; [| |exact He].
      * intros c' Hc'. apply Hsub. right. exact Hc'.
      * left. cbn [z_le_f] in E. apply Z.div_le_lower_bound; lia.
    + apply in_app_or in He as [He|He].
      * destruct (0 <? nc) eqn:E0; [|destruct He]. destruct He as [<-|[]].
        destruct Hnc as [H|[H|H]]; [left; exact H|right; exact H|lia].
      * eapply IH; [| |exact He].
        -- intros c' Hc'. apply Hsub. right. exact Hc'.
        -- right. left. apply Hsub. left. reflexivity.
Qed.

(* ---------------------------------------------------------------------- *)
(* one axis *)

Definition wf_c (c : axc) : Prop := consts_ok c /\ 0 <= c_n c.

(* split an equation between triples without letting injection simplify the components *)
Ltac split3 H :=
  let Hx := fresh "Hx" in let Hf := fresh "Hf" in let Hk := fresh "Hk" in
  pose proof (f_equal (fun t => fst (fst t)) H) as Hx;
  pose proof (f_equal (fun t => snd (fst t)) H) as Hf;
  pose proof (f_equal (fun t => snd t) H) as Hk;
  cbn beta iota delta [fst snd] in Hx, Hf, Hk; clear H;
  match type of Hx with _ = ?x' => subst x' end;
  match type of Hk with _ = ?k => subst k end;
  clear Hf.

Lemma res_of_set_res reduce x v : res_of reduce (set_res reduce x v) = Some v.
Proof. unfold res_of, set_res. destruct reduce; reflexivity. Qed.

Lemma axis_step_blk reduce c o x x' f k :
  axis_step reduce c o x = (x', f, k) -> ax_auto x = true -> wf_c c ->
  fwf (fst o) = true -> fwf (snd o) = true ->
  0 <= mvo (res_of reduce x') <= ubound o /\ 0 <= k /\
  (ax_auto x' = false -> mvo (res_of reduce x') = k) /\ (ax_auto x' = true -> k = 1).
Proof.
  unfold axis_step, ubound. destruct o as [p mcs]. cbn [fst snd]. intros H Ha [Hc Hn] Hp Hm.
  destruct p as [|n d]; [discriminate|]. destruct mcs as [|n' d']; [discriminate|].
  cbn [fwf] in Hp, Hm. cbn [ffloor].
  destruct (f_gt_z (FQ n d) (c_n c)) eqn:Eg.
  - (* the shape boundary *)
    split3 H. cbn [f_gt_z] in Eg.
    assert (c_n c <= n / d) by (apply Z.div_le_lower_bound; lia).
    assert (mvo (res_of reduce (if reduce then mkax false (Some (VTup [c_n c])) (ax_res x)
                                else mkax false None (Some (VTup [c_n c])))) = c_n c) as ->.
    { destruct reduce; cbn; lia. }
    repeat split; try lia. destruct reduce; cbn; discriminate.
  - cbn [f_gt_z] in Eg.
    destruct (reduce || z_gt_f (max_of (c_pv c)) (FQ n' d')) eqn:Eb.
    + cbv zeta in H. destruct (f_lt_z (FQ n d) 1) eqn:El; cbn [f_lt_z] in El.
      * (* proposed < 1: chunk size 1 *)
        split3 H.
        assert (round_to_f (FQ n d) (c_ideal c) = FQ 1 1) as Hr.
        { unfold round_to_f. destruct (n <=? c_ideal c * d) eqn:E.
          - assert (Z.quot n d <= 0) as Hq.
            { destruct (Z_le_gt_dec 0 n); [rewrite Z.quot_small by lia; lia|].
              assert (Z.quot n d = - Z.quot (- n) d) by (rewrite Z.quot_opp_l by lia; lia).
              assert (0 <= Z.quot (- n) d) by (apply Z.quot_pos; lia). lia. }
            rewrite Z.max_l by lia. reflexivity.
          - exfalso. destruct Hc as [Hc|Hc]; [nia|rewrite Hc in E; lia]. }
        assert (mvo (res_of reduce (mkax false (ax_med (set_res reduce x (VNum (round_to_f (FQ n d) (c_ideal c)))))
                                       (ax_res (set_res reduce x (VNum (round_to_f (FQ n d) (c_ideal c))))))) = 1) as ->.
        { rewrite Hr. unfold res_of, set_res. destruct reduce; cbn; reflexivity. }
        repeat split; lia.
      * (* 1 <= proposed <= shape[a]: round_to *)
        split3 H. rewrite res_of_set_res.
        destruct (round_to_facts n d (c_ideal c) (c_n c)) as (r & Hr1 & Hr2 & Hr3 & Hr4); [lia|lia|lia|exact Hc|].
        rewrite Hr1. cbn [mvo mv]. rewrite Z.div_1_r.
        repeat split; try lia. unfold set_res. destruct reduce; cbn; congruence.
    + (* merge the previous chunks *)
      split3 H. rewrite res_of_set_res. cbn [mvo mv].
      apply orb_false_iff in Eb as [_ Eb]. unfold z_gt_f in Eb. cbn [f_lt_z] in Eb.
      assert (max_of (c_pv c) <= n' / d') as Hmx by (apply Z.div_le_lower_bound; lia).
      pose proof (merge_prev_pos (FQ n d) (c_pv c) 0) as Hpos.
      split; [split; [apply max_of_nonneg; exact Hpos|]|].
      * apply max_of_le; [lia|]. intros e He.
        assert (0 < d) as Hd by lia.
        destruct (merge_prev_elems n d (c_pv c) Hd (c_pv c) 0 (fun _ H => H)) with (e := e) as [H1|H1].
        -- right. right. reflexivity.
        -- exact He.
        -- lia.
        -- pose proof (max_of_ge _ _ H1). lia.
      * repeat split; try lia. unfold set_res. destruct reduce; cbn; congruence.
Qed.

(* ---------------------------------------------------------------------- *)
(* one pass *)

Lemma settled_blk_cons reduce x xs :
  settled_blk reduce (x :: xs) = (if ax_auto x then 1 else mvo (res_of reduce x)) * settled_blk reduce xs.
Proof. reflexivity. Qed.
Lemma all_blk_cons reduce x xs : all_blk reduce (x :: xs) = mvo (res_of reduce x) * all_blk reduce xs.
Proof. reflexivity. Qed.

Lemma uprod_pos a o xs : forall a', a' = a -> 1 <= uprod a' o xs.
Proof.
  revert a. induction xs as [|x xs IH]; intros a a' ->; cbn [uprod]; [lia|].
  specialize (IH (S a) (S a) eq_refl). unfold ubound. destruct (ax_auto x); nia.
Qed.

Lemma round_axes_blk reduce cs : forall a o xs xs' f k,
  round_axes reduce cs a o xs = (xs', f, k) -> length cs = length xs ->
  Forall wf_c cs -> owf a o xs = true ->
  settled_blk reduce xs' = settled_blk reduce xs * k /\ 0 <= k /\
  exists W, all_blk reduce xs' = settled_blk reduce xs * W /\ 0 <= W <= uprod a o xs.
Proof.
  induction cs as [|c cs IH]; intros a o [|x xs] xs' f k H Hl Hc Ho; cbn [round_axes] in H; cbn in Hl; try lia.
  - split3 H. cbn. split; [reflexivity|]. split; [lia|]. exists 1. split; [reflexivity|lia].
  - inversion Hc as [|? ? Hc1 Hc2]; subst.
    cbn [owf] in Ho. apply andb_true_iff in Ho as [Ho1 Ho2].
    destruct (round_axes reduce cs (S a) o xs) as [[xs2 f2] k2] eqn:Hr.
    destruct (IH _ _ _ _ _ _ Hr ltac:(lia) Hc2 Ho2) as (I1 & I2 & W0 & I3 & I4).
    pose proof (uprod_pos (S a) o xs _ eq_refl) as Hup.
    destruct (ax_auto x) eqn:Ea.
    + destruct (axis_step reduce c (o a) x) as [[x1 f1] k1] eqn:Hs.
      apply andb_true_iff in Ho1 as [Hp Hm].
      destruct (axis_step_blk _ _ _ _ _ _ _ Hs Ea Hc1 Hp Hm) as (B1 & B2 & B3 & B4).
      split3 H. rewrite !settled_blk_cons, !all_blk_cons, Ea, I1, I3. cbn [uprod]. rewrite Ea.
      split.
      { destruct (ax_auto x1) eqn:E1; [rewrite (B4 eq_refl); ring|rewrite (B3 eq_refl); ring]. }
      split; [nia|].
      exists (mvo (res_of reduce x1) * W0). split; [ring|].
      assert (1 <= ubound (o a)) by (unfold ubound; lia). nia.
    + split3 H. rewrite !settled_blk_cons, !all_blk_cons, Ea, I1, I3. cbn [uprod]. rewrite Ea.
      split; [ring|]. split; [lia|]. exists W0. split; [ring|lia].
Qed.

Lemma prev_round_inv_gen reduce limit itemsize cs o st st' b :
  prev_round reduce limit itemsize cs o st = Ok (st', b) ->
  exists xs fl k, round_axes reduce cs 0 o (ls_axes st) = (xs, fl, k) /\
                  ls_axes st' = xs /\ ls_lb st' = ls_lb st * k.
Proof.
  unfold prev_round. destruct (round_axes reduce cs 0 o (ls_axes st)) as [[xs fl] k].
  destruct (fl || reduce).
  - destruct (compute_multiplier limit itemsize (ls_lb st * k) (map ax_med xs)) as [m2|]; [|discriminate].
    intros H. injection H as <- _. exists xs, fl, k. auto.
  - intros H. injection H as <- _. exists xs, fl, k. auto.
Qed.

(* with `autos` empty further passes do not touch the dicts *)
Lemma no_autos_axes reduce limit itemsize cs orc : forall fuel r st stF,
  prev_loop fuel reduce limit itemsize cs orc r st = LDone stF ->
  length cs = length (ls_axes st) -> n_autos (ls_axes st) = 0%nat -> ls_axes stF = ls_axes st.
Proof.
  induction fuel as [|f IH]; intros r st stF H Hl Hn; cbn [prev_loop] in H; [discriminate|].
  destruct (prev_round reduce limit itemsize cs (orc r) st) as [[st1 b]|] eqn:Hr; [|discriminate].
  destruct (prev_round_inv_gen _ _ _ _ _ _ _ _ Hr) as (xs & fl & k & Hra & Hx & _).
  rewrite round_axes_no_autos in Hra by assumption. injection Hra as <- _ _.
  destruct b.
  - rewrite (IH _ _ _ H); [exact Hx|rewrite Hx; exact Hl|rewrite Hx; exact Hn].
  - injection H as <-. exact Hx.
Qed.

Lemma acc_round_inv tn td limit itemsize o st :
  acc_round tn td limit itemsize o st = true ->
  exists on od, others_prod (ls_axes st) = FQ on od /\ owf 0 o (ls_axes st) = true /\
    0 <= ls_lb st /\ 0 < od <= on /\
    uprod 0 o (ls_axes st) * (itemsize * ls_lb st * on) * td <= tn * limit * od.
Proof.
  unfold acc_round. destruct (others_prod (ls_axes st)) as [|on od]; [discriminate|].
  intros H. apply andb_true_iff in H as [H H5]. apply andb_true_iff in H as [H H4].
  apply andb_true_iff in H as [H H3]. apply andb_true_iff in H as [H1 H2].
  exists on, od. repeat split; try lia; assumption.
Qed.

(* the block of the state a pass produces, when the pass is accurate *)
Lemma acc_round_bound tn td reduce limit itemsize cs o st xs fl k lb0 :
  round_axes reduce cs 0 o (ls_axes st) = (xs, fl, k) -> length cs = length (ls_axes st) ->
  Forall wf_c cs -> 0 < td -> 0 <= itemsize ->
  ls_lb st = lb0 * settled_blk reduce (ls_axes st) ->
  acc_round tn td limit itemsize o st = true ->
  itemsize * (lb0 * all_blk reduce xs) * td <= tn * limit.
Proof.
  intros Hr Hl Hc Htd Hi HJ Hacc.
  destruct (acc_round_inv _ _ _ _ _ _ Hacc) as (on & od & _ & Ho & Hlb & Hod & Hle).
  destruct (round_axes_blk _ _ _ _ _ _ _ _ Hr Hl Hc Ho) as (_ & _ & W & HW & HWb).
  rewrite HW. replace (lb0 * (settled_blk reduce (ls_axes st) * W)) with (ls_lb st * W) by (rewrite HJ; ring).
  set (U := uprod 0 o (ls_axes st)) in *. set (lb := ls_lb st) in *.
  assert (0 <= itemsize * lb * td) as HA by nia.
  assert (itemsize * lb * td * W <= itemsize * lb * td * U) as H1 by nia.
  assert (itemsize * lb * td * U * od <= itemsize * lb * td * U * on) as H2.
  { apply Z.mul_le_mono_nonneg_l; [nia|lia]. }
  assert (itemsize * (lb * W) * td * od <= tn * limit * od) as H3 by nia.
  apply Z.mul_le_mono_pos_r in H3; lia.
Qed.

Lemma prev_loop_blk tn td reduce limit itemsize cs orc lb0 :
  Forall wf_c cs -> 0 < td -> 0 <= itemsize ->
  forall fuel r st stF,
    prev_loop fuel reduce limit itemsize cs orc r st = LDone stF ->
    length cs = length (ls_axes st) ->
    ls_lb st = lb0 * settled_blk reduce (ls_axes st) ->
    acc_last tn td fuel reduce limit itemsize cs orc r st = true ->
    itemsize * (lb0 * all_blk reduce (ls_axes stF)) * td <= tn * limit.
Proof.
  intros Hc Htd Hi. induction fuel as [|f IH]; intros r st stF H Hl HJ Hacc; cbn [prev_loop] in H; [discriminate|].
  cbn [acc_last] in Hacc. apply andb_true_iff in Hacc as [Ho Hacc].
  destruct (prev_round reduce limit itemsize cs (orc r) st) as [[st1 b]|] eqn:Hr; [|discriminate].
  destruct (prev_round_inv_gen _ _ _ _ _ _ _ _ Hr) as (xs & fl & k & Hra & Hx & Hlb).
  pose proof (round_axes_length _ _ _ _ _ _ _ _ Hra Hl) as Hlen.
  destruct (round_axes_blk _ _ _ _ _ _ _ _ Hra Hl Hc Ho) as (HS & _ & _).
  destruct b.
  - destruct (0 <? n_autos (ls_axes st1))%nat eqn:En.
    + eapply IH; [exact H|rewrite Hx; lia| |exact Hacc].
      rewrite Hlb, Hx, HS, HJ. ring.
    + rewrite (no_autos_axes _ _ _ _ _ _ _ _ _ H); [| rewrite Hx; lia | apply Nat.ltb_ge in En; lia].
      rewrite Hx. eapply acc_round_bound; eassumption.
  - injection H as <-. rewrite Hx. eapply acc_round_bound; eassumption.
Qed.

(* ---------------------------------------------------------------------- *)
(* from the final dicts to the chunks *)

Lemma final_specs_largest reduce specs : forall xs specs',
  Forall2 ax_inv specs xs -> final_specs reduce specs xs = Ok specs' ->
  largest_fixed specs' = largest_fixed specs * all_blk reduce xs.
Proof.
  induction specs as [|sp specs IH]; intros xs specs' HF H; inversion HF as [|? x ? xs0 Hx HF']; subst;
    cbn [final_specs] in H.
  - injection H as <-. reflexivity.
  - fold (res_of reduce x) in H.
    destruct (final_spec_of sp (res_of reduce x)) as [s|] eqn:Hs; [|discriminate].
    destruct (final_specs reduce specs xs0) as [r|] eqn:Hr; [|discriminate].
    injection H as <-. rewrite all_blk_cons, !largest_fixed_cons, (IH _ _ HF' Hr).
    unfold ax_inv in Hx. destruct (is_auto sp) eqn:Ea.
    + destruct (res_of reduce x) as [[[|n d]|[|y l]]|]; cbn [final_spec_of] in Hs.
      * discriminate.
      * destruct (n =? 0) eqn:En.
        -- injection Hs as <-. cbn [is_auto fixed_extent mvo mv]. assert (n = 0) as -> by lia.
           rewrite Zdiv_0_l. ring.
        -- destruct (n mod d =? 0); [|discriminate]. injection Hs as <-. cbn [is_auto fixed_extent mvo mv]. ring.
      * injection Hs as <-. cbn [is_auto fixed_extent mvo mv max_of hd fold_right]. ring.
      * injection Hs as <-. cbn [is_auto fixed_extent mvo mv]. unfold max_of. ring.
      * injection Hs as <-. rewrite Ea. cbn [mvo]. ring.
    + subst x. assert (res_of reduce (mkax false None None) = None) as E by (destruct reduce; reflexivity).
      rewrite E in *. cbn [final_spec_of] in Hs. injection Hs as <-. rewrite Ea. cbn [mvo]. ring.
Qed.

Lemma settled_blk_init reduce specs : forall pvs, settled_blk reduce (init_axes specs pvs) = 1.
Proof.
  unfold init_axes. induction specs as [|sp specs IH]; intros [|pv pvs]; cbn [combine map]; try reflexivity.
  rewrite settled_blk_cons, IH. cbn [fst snd]. destruct (is_auto sp); cbn [ax_auto]; [reflexivity|].
  unfold res_of. destruct reduce; reflexivity.
Qed.

Lemma mk_consts_wf pvs : forall shape ids,
  ideals_of pvs shape = Ok ids -> Forall (fun n => 0 <= n) shape -> Forall wf_c (mk_consts shape pvs ids).
Proof.
  induction pvs as [|pv pvs IH]; intros [|s shape] ids H Hsh; cbn [ideals_of] in H; try discriminate.
  - injection H as <-. constructor.
  - injection H as <-. constructor.
  - destruct (ideal_of pv s) as [i|] eqn:Hi; [|discriminate].
    destruct (ideals_of pvs shape) as [r|] eqn:Hr; [|discriminate].
    injection H as <-. inversion Hsh; subst. cbn [mk_consts]. constructor; [|apply IH; assumption].
    split; [|cbn [c_n]; assumption]. unfold consts_ok. cbn [c_ideal c_n]. eapply ideal_of_ok; exact Hi.
Qed.

(* normalize_chunks_prev = POk, seen through prev_start *)
Lemma normalize_prev_ok_inv orc fuel limit itemsize specs shape prev cs reduce cs0 st0 :
  normalize_chunks_prev orc fuel limit itemsize specs shape prev = POk cs ->
  prev_start limit itemsize specs shape prev = Some (reduce, cs0, st0) ->
  exists stF specs',
    prev_loop fuel reduce (Z.max 1 limit) itemsize cs0 orc 0 st0 = LDone stF /\
    final_specs reduce (subst_all specs shape) (ls_axes stF) = Ok specs' /\
    normalize_tail specs' shape = Ok cs.
Proof.
  unfold normalize_chunks_prev, prev_start. fold (subst_all specs shape).
  destruct (Nat.eqb (length specs) (length shape)); cbn [negb]; [|discriminate].
  destruct (count_autos (subst_all specs shape) =? 0); [discriminate|].
  destruct prev as [|p0 prev]; [discriminate|].
  destruct (conv_prev shape (p0 :: prev)) as [pvs|]; [|discriminate].
  unfold auto_chunks_prev.
  destruct (loop_start limit itemsize (subst_all specs shape) shape pvs) as [[[reduce' cs'] st0']|]; [|discriminate].
  intros H E. injection E as -> -> ->.
  destruct (prev_loop fuel reduce (Z.max 1 limit) itemsize cs0 orc 0 st0) as [stF| |] eqn:Hl; try discriminate.
  destruct (final_specs reduce (subst_all specs shape) (ls_axes stF)) as [s|] eqn:Hf; [|discriminate].
  destruct (normalize_tail s shape) as [cs'|] eqn:Ht; [|discriminate].
  injection H as <-. exists stF, s. auto.
Qed.

Lemma prev_start_inv limit itemsize specs shape prev reduce cs0 st0 :
  prev_start limit itemsize specs shape prev = Some (reduce, cs0, st0) ->
  exists pvs ids m,
    length specs = length shape /\ ideals_of pvs shape = Ok ids /\
    cs0 = mk_consts shape pvs ids /\
    st0 = mkls (init_axes (subst_all specs shape) pvs) (largest_fixed (subst_all specs shape)) m.
Proof.
  unfold prev_start. fold (subst_all specs shape).
  destruct (Nat.eqb (length specs) (length shape)) eqn:El; cbn [negb]; [|discriminate].
  apply Nat.eqb_eq in El.
  destruct (count_autos (subst_all specs shape) =? 0); [discriminate|].
  destruct prev as [|p0 prev]; [discriminate|].
  destruct (conv_prev shape (p0 :: prev)) as [pvs|]; [|discriminate].
  unfold loop_start.
  destruct (initial_multiplier limit itemsize (subst_all specs shape) pvs) as [m|]; [|discriminate].
  destruct (ideals_of pvs shape) as [ids|] eqn:Hi; [|discriminate].
  intros H. injection H as <- <- <-. exists pvs, ids, m. auto.
Qed.

(* (b) THE BYTE BOUND of the previous_chunks branch.  T = tn/td (the configured array.chunk-size-tolerance is
   5/4).  If the proposals of every pass are numbers and the last pass that starts with `autos` non-empty is
   accurate for T, every block has at most T * max(1, limit) bytes. *)
Theorem normalize_prev_limit : forall tn td orc fuel limit itemsize specs shape prev cs,
  0 < td -> 0 <= tn -> 0 <= itemsize -> Forall (fun n => 0 <= n) shape ->
  normalize_chunks_prev orc fuel limit itemsize specs shape prev = POk cs ->
  prev_acc tn td orc fuel limit itemsize specs shape prev = true ->
  itemsize * max_block cs * td <= tn * Z.max 1 limit.
Proof.
  intros tn td orc fuel limit itemsize specs shape prev cs Htd Htn Hi Hsh H Hacc.
  unfold prev_acc in Hacc.
  destruct (prev_start limit itemsize specs shape prev) as [[[reduce cs0] st0]|] eqn:Hst; [|discriminate].
  destruct (normalize_prev_ok_inv _ _ _ _ _ _ _ _ _ _ _ H Hst) as (stF & specs' & Hl & Hf & Ht).
  destruct (prev_start_inv _ _ _ _ _ _ _ _ Hst) as (pvs & ids & m & Hlen & Hids & -> & ->).
  destruct (ideals_of_length _ _ _ Hids) as [Li Lp].
  pose proof (subst_all_length specs shape Hlen) as Ls.
  assert (length (mk_consts shape pvs ids) =
          length (ls_axes (mkls (init_axes (subst_all specs shape) pvs) (largest_fixed (subst_all specs shape)) m))) as Hl0.
  { cbn [ls_axes]. rewrite mk_consts_length, init_axes_length; lia. }
  pose proof (prev_loop_blk tn td reduce (Z.max 1 limit) itemsize _ orc (largest_fixed (subst_all specs shape))
                (mk_consts_wf _ _ _ Hids Hsh) Htd Hi fuel 0%nat _ stF Hl Hl0) as Hb.
  cbn [ls_axes ls_lb] in Hb. rewrite settled_blk_init in Hb. specialize (Hb ltac:(ring) Hacc).
  assert (Forall2 ax_inv (subst_all specs shape) (ls_axes stF)) as HF.
  { eapply prev_loop_inv; [exact Hl|exact Hl0|]. cbn [ls_axes]. apply init_axes_inv. lia. }
  rewrite <- (final_specs_largest _ _ _ _ HF Hf) in Hb.
  apply normalize_tail_inv in Ht as (Hc & Hnil & Hneg & _).
  destruct (convert_all_max specs' shape cs Hc Hnil Hneg) as [HM|[HM _]].
  - rewrite HM. nia.
  - nia.
Qed.

(* ---------------------------------------------------------------------- *)
(* (b, refuted) the bound fails when an 'auto' axis has zero-size previous chunks (median 1/2 < 1):
   normalize_chunks(('auto','auto'), (1,100), limit=10, dtype='u1', previous_chunks=((0,1),(10,)*10))
   = ((1,), (20,20,20,20,20)): 20 bytes per block for a limit of 10 (tolerance 5/4).
   The oracle values are the floats the implementation computes (0.7071.., 0.7905.., 14.142.., 15.811..; 20, 25). *)
Definition zero_prev_oracle : nat -> nat -> fval * fval :=
  orc_of_table
    [[(0%nat, (FQ 6369051672525773 9007199254740992, FQ 7120816245988179 9007199254740992));
      (1%nat, (FQ 124395540479019 8796093022208, FQ 1112627538435653 70368744177664))];
     [(1%nat, (FQ 20 1, FQ 25 1))]].

Theorem normalize_prev_limit_zero_prev_refuted :
  exists orc fuel limit itemsize specs shape prev cs,
    layout_ok prev shape = true /\
    normalize_chunks_prev orc fuel limit itemsize specs shape prev = POk cs /\
    itemsize * largest_fixed specs <= limit /\
    5 * limit < 4 * (itemsize * max_block cs).
Proof.
  exists zero_prev_oracle, 8%nat, 10, 1, [AAuto; AAuto], [1; 100], [[0; 1]; [10; 10; 10; 10; 10; 10; 10; 10; 10; 10]],
         [[1]; [20; 20; 20; 20; 20]].
  vm_compute. repeat split; congruence.
Qed.
