(* Records.v — the generic Frisky RECORDS TRANSLATION (definitions only; stdlib + Graph.v).

   Python modelled:
     /repo/dask_array/_frisky/graph_records.py : _norm_key, _Flattener.resolve, _records,
                                                 GraphRecordsLayer.to_task_records
     /repo/dask_array/_frisky/collect.py       : _walk_records, _check_complete, collect_task_records

   A small compiler: the SOURCE language is dask's `_task_spec` node language (Alias / DataNode /
   Task / NestedContainer, nesting freely), the TARGET language is Frisky's flat records
   `(key, func, args, kwargs, deps)` whose args hold only `TaskRef`s, plain containers and
   literals.  `flatten` is the translation; RecordsFacts.v proves it correct.

   Abstractions (all of them checked or made explicit by harness/c21.py):
   * keys.  The implementation identifies a key with the STRING `str(_norm_key(key))`; the
     harness numbers the distinct strings, so a source key is a `positive` (Graph.key).
     A lifted sub-task key `f"{parent}-sub{N}"` is the pair `KSub parent N`.  That such a string
     never equals the string of a graph key is an ASSUMPTION (the harness reports a collision as
     a correspondence break).
   * functions, literal leaves, kwarg names and dict keys are opaque `tag`s (`positive`);
     `toolz.identity` is `ident_fn`.
   * `sorted(deps)` orders key STRINGS; the string order is an ORACLE `kle` (the harness passes the
     order of the real strings); every theorem holds for all `kle`.
   * raw Python containers.  `_Flattener.resolve` recurses into raw list / tuple / dict arguments;
     dask hands them over verbatim.  Both source semantics are defined (`aeval`, `aeval_dask`); they
     agree on `raw_ok` graphs, which the harness checks on every layer that takes the generic path.
   * frisky `Future`s cannot exist in the sandbox (`from frisky import Future` fails), so the
     Future branches of `_records` are not modelled.  The last branch of `_records` (a bare non-node
     value) is unreachable from `to_task_records` because `convert_legacy_graph` wraps every such
     value in a DataNode; it emits the same record as the DataNode branch. *)
From Coq Require Import List Bool Arith PArith.
From DA Require Import Graph.
Import ListNotations.

Definition tag := positive.
Definition ident_fn : tag := 1%positive.             (* toolz.identity *)

(* ------------------------------------------------------------------------- *)
(** * Target language: flat records *)

(* a record key: the string of a graph key, or "<parent>-sub<N>" *)
Inductive rkey := KG (k : key) | KSub (p : key) (n : nat).

Definition rkey_eqb (a b : rkey) : bool :=
  match a, b with
  | KG k, KG l => Pos.eqb k l
  | KSub p n, KSub q m => Pos.eqb p q && Nat.eqb n m
  | _, _ => false
  end.

Definition rkey_eq_dec : forall a b : rkey, {a = b} + {a <> b}.
Proof. decide equality; [apply Pos.eq_dec | apply Nat.eq_dec | apply Pos.eq_dec]. Defined.

Fixpoint rmem (k : rkey) (l : list rkey) : bool :=
  match l with [] => false | x :: t => rkey_eqb k x || rmem k t end.

(* what a record argument may be: a TaskRef, an opaque literal, a plain list / tuple / dict *)
Inductive targ :=
| TRef (k : rkey)
| TLit (t : tag)
| TList (l : list targ)
| TTuple (l : list targ)
| TDict (l : list (tag * targ)).

Record rec := mkrec {
  r_key : rkey; r_fn : tag; r_args : list targ; r_kwargs : list (tag * targ); r_deps : list rkey }.

(* the TaskRefs embedded in an argument, in traversal order (dict VALUES only, like
   Frisky's lower_dep_refs) *)
Fixpoint trefs (t : targ) : list rkey :=
  match t with
  | TRef k => [k]
  | TLit _ => []
  | TList l | TTuple l => (fix go (l : list targ) := match l with [] => [] | x :: r => trefs x ++ go r end) l
  | TDict l => (fix go (l : list (tag * targ)) :=
                  match l with [] => [] | (_, x) :: r => trefs x ++ go r end) l
  end.
Fixpoint trefs_list (l : list targ) : list rkey :=
  match l with [] => [] | x :: r => trefs x ++ trefs_list r end.
Fixpoint trefs_kw (l : list (tag * targ)) : list rkey :=
  match l with [] => [] | (_, x) :: r => trefs x ++ trefs_kw r end.

Definition rec_refs (r : rec) : list rkey := trefs_list (r_args r) ++ trefs_kw (r_kwargs r).

(* structural equality (specification-side checkers used by the harness) *)
Fixpoint glist_eqb2 {A} (eqb : A -> A -> bool) (a b : list A) : bool :=
  match a, b with
  | [], [] => true
  | x :: a', y :: b' => eqb x y && glist_eqb2 eqb a' b'
  | _, _ => false
  end.

Fixpoint targ_eqb (a b : targ) {struct a} : bool :=
  match a, b with
  | TRef k, TRef l => rkey_eqb k l
  | TLit s, TLit t => Pos.eqb s t
  | TList x, TList y | TTuple x, TTuple y =>
    (fix go (x y : list targ) {struct x} : bool :=
       match x, y with
       | [], [] => true
       | u :: x', v :: y' => targ_eqb u v && go x' y'
       | _, _ => false
       end) x y
  | TDict x, TDict y =>
    (fix go (x y : list (tag * targ)) {struct x} : bool :=
       match x, y with
       | [], [] => true
       | (j, u) :: x', (k, v) :: y' => Pos.eqb j k && targ_eqb u v && go x' y'
       | _, _ => false
       end) x y
  | _, _ => false
  end.

Definition rec_eqb (a b : rec) : bool :=
  rkey_eqb (r_key a) (r_key b) && Pos.eqb (r_fn a) (r_fn b) &&
  glist_eqb2 targ_eqb (r_args a) (r_args b) &&
  glist_eqb2 (fun x y => Pos.eqb (fst x) (fst y) && targ_eqb (snd x) (snd y)) (r_kwargs a) (r_kwargs b) &&
  glist_eqb2 rkey_eqb (r_deps a) (r_deps b).

Definition recs_eqb (a b : list rec) : bool := glist_eqb2 rec_eqb a b.

(* ------------------------------------------------------------------------- *)
(** * Source language: `_task_spec` nodes *)

(* the four ways a sequence can sit inside a node: NestedContainer with klass list / tuple
   (`List(...)`, `Tuple(...)`), or a raw Python list / tuple *)
Inductive seqkind := ContList | ContTuple | RawList | RawTuple.
Definition seq_is_list (s : seqkind) : bool :=
  match s with ContList | RawList => true | _ => false end.

(* anything that can occur as an argument of a Task, in the order `_Flattener.resolve` tests *)
Inductive arg :=
| ARef (k : key)                         (* TaskRef(key) *)
| AAlias (k : key)                       (* inline Alias(target) *)
| AData (v : targ)                       (* inline DataNode(value): the value, verbatim *)
| ASeq (s : seqkind) (items : list arg)  (* List/Tuple NestedContainer, raw list, raw tuple *)
| ATask (f : tag) (args : list arg) (kwargs : list (tag * arg))
                                         (* inline Task, incl. Dict/Set NestedContainers
                                            (func = to_container, kwargs = {constructor}) *)
| AOther                                 (* any other inline GraphNode: NotImplementedError *)
| ADict (items : list (tag * arg))       (* raw dict *)
| ALit (t : tag).                        (* anything else: passed through *)

(* what a graph key can be bound to *)
Inductive node :=
| NAlias (target : key)
| NData (v : targ)
| NCont (is_list : bool) (items : list arg)     (* NestedContainer, klass list / tuple *)
| NTask (f : tag) (args : list arg) (kwargs : list (tag * arg))
| NOther.                                       (* unhandled GraphNode: NotImplementedError *)

Definition sgraph := list (key * node).         (* the dict `dsk`, in insertion order *)

(* keys referenced anywhere inside (TaskRefs and Alias targets, also inside inline tasks) *)
Fixpoint arefs (a : arg) : list key :=
  match a with
  | ARef k | AAlias k => [k]
  | AData _ | AOther | ALit _ => []
  | ASeq _ items => (fix go (l : list arg) := match l with [] => [] | x :: r => arefs x ++ go r end) items
  | ATask _ args kwargs =>
    (fix go (l : list arg) := match l with [] => [] | x :: r => arefs x ++ go r end) args ++
    (fix go (l : list (tag * arg)) := match l with [] => [] | (_, x) :: r => arefs x ++ go r end) kwargs
  | ADict items =>
    (fix go (l : list (tag * arg)) := match l with [] => [] | (_, x) :: r => arefs x ++ go r end) items
  end.
Fixpoint arefs_list (l : list arg) : list key :=
  match l with [] => [] | x :: r => arefs x ++ arefs_list r end.
Fixpoint arefs_kw (l : list (tag * arg)) : list key :=
  match l with [] => [] | (_, x) :: r => arefs x ++ arefs_kw r end.

Definition nrefs (nd : node) : list key :=
  match nd with
  | NAlias t => [t]
  | NData _ | NOther => []
  | NCont _ items => arefs_list items
  | NTask _ args kwargs => arefs_list args ++ arefs_kw kwargs
  end.

(* the dependency graph of the source, in the vocabulary of Graph.v *)
Definition src_graph (g : sgraph) : graph := map (fun kn => (fst kn, nrefs (snd kn))) g.

(* number of inline Tasks (each is lifted to one record) *)
Fixpoint ntasks (a : arg) : nat :=
  match a with
  | ARef _ | AAlias _ | AData _ | AOther | ALit _ => 0
  | ASeq _ items => (fix go (l : list arg) := match l with [] => 0 | x :: r => ntasks x + go r end) items
  | ATask _ args kwargs =>
    S ((fix go (l : list arg) := match l with [] => 0 | x :: r => ntasks x + go r end) args +
       (fix go (l : list (tag * arg)) := match l with [] => 0 | (_, x) :: r => ntasks x + go r end) kwargs)
  | ADict items =>
    (fix go (l : list (tag * arg)) := match l with [] => 0 | (_, x) :: r => ntasks x + go r end) items
  end.
Fixpoint ntasks_list (l : list arg) : nat :=
  match l with [] => 0 | x :: r => ntasks x + ntasks_list r end.
Fixpoint ntasks_kw (l : list (tag * arg)) : nat :=
  match l with [] => 0 | (_, x) :: r => ntasks x + ntasks_kw r end.

(* no unhandled GraphNode anywhere (else the translation raises NotImplementedError) *)
Fixpoint supported_arg (a : arg) : bool :=
  match a with
  | ARef _ | AAlias _ | AData _ | ALit _ => true
  | AOther => false
  | ASeq _ items => (fix go (l : list arg) := match l with [] => true | x :: r => supported_arg x && go r end) items
  | ATask _ args kwargs =>
    (fix go (l : list arg) := match l with [] => true | x :: r => supported_arg x && go r end) args &&
    (fix go (l : list (tag * arg)) := match l with [] => true | (_, x) :: r => supported_arg x && go r end) kwargs
  | ADict items =>
    (fix go (l : list (tag * arg)) := match l with [] => true | (_, x) :: r => supported_arg x && go r end) items
  end.
Fixpoint supported_list (l : list arg) : bool :=
  match l with [] => true | x :: r => supported_arg x && supported_list r end.
Fixpoint supported_kw (l : list (tag * arg)) : bool :=
  match l with [] => true | (_, x) :: r => supported_arg x && supported_kw r end.
Definition supported_node (nd : node) : bool :=
  match nd with
  | NAlias _ | NData _ => true
  | NCont _ items => supported_list items
  | NTask _ args kwargs => supported_list args && supported_kw kwargs
  | NOther => false
  end.
Definition supported (g : sgraph) : bool := forallb (fun kn => supported_node (snd kn)) g.

(* DataNode values are DATA: they embed no TaskRef (dask hands the value over verbatim, while a
   records executor resolves every embedded TaskRef; the two readings agree only on ref-free
   data).  Checked by the harness on every real DataNode. *)
Definition tref_free (v : targ) : bool := match trefs v with [] => true | _ => false end.
Fixpoint data_ok_arg (a : arg) : bool :=
  match a with
  | ARef _ | AAlias _ | ALit _ | AOther => true
  | AData v => tref_free v
  | ASeq _ items => (fix go (l : list arg) := match l with [] => true | x :: r => data_ok_arg x && go r end) items
  | ATask _ args kwargs =>
    (fix go (l : list arg) := match l with [] => true | x :: r => data_ok_arg x && go r end) args &&
    (fix go (l : list (tag * arg)) := match l with [] => true | (_, x) :: r => data_ok_arg x && go r end) kwargs
  | ADict items =>
    (fix go (l : list (tag * arg)) := match l with [] => true | (_, x) :: r => data_ok_arg x && go r end) items
  end.
Fixpoint data_ok_list (l : list arg) : bool :=
  match l with [] => true | x :: r => data_ok_arg x && data_ok_list r end.
Fixpoint data_ok_kw (l : list (tag * arg)) : bool :=
  match l with [] => true | (_, x) :: r => data_ok_arg x && data_ok_kw r end.
Definition data_ok_node (nd : node) : bool :=
  match nd with
  | NAlias _ | NOther => true
  | NData v => tref_free v
  | NCont _ items => data_ok_list items
  | NTask _ args kwargs => data_ok_list args && data_ok_kw kwargs
  end.
Definition data_ok (g : sgraph) : bool := forallb (fun kn => data_ok_node (snd kn)) g.

(* RAW Python containers (list / tuple / dict that are NOT NestedContainers) are DATA for dask:
   `Task.__call__` hands them over verbatim, a GraphNode or TaskRef inside stays an object, whereas
   `_Flattener.resolve` (and Frisky's lower_dep_refs) recurse into them.  The two readings agree
   when raw containers hold only literals and raw containers: *)
Definition seq_is_raw (s : seqkind) : bool := match s with RawList | RawTuple => true | _ => false end.
Fixpoint raw_lit (a : arg) : bool :=
  match a with
  | ALit _ => true
  | ASeq s items =>
    seq_is_raw s && (fix go (l : list arg) := match l with [] => true | x :: r => raw_lit x && go r end) items
  | ADict items => (fix go (l : list (tag * arg)) := match l with [] => true | (_, x) :: r => raw_lit x && go r end) items
  | _ => false
  end.
Fixpoint raw_lit_list (l : list arg) : bool :=
  match l with [] => true | x :: r => raw_lit x && raw_lit_list r end.
Fixpoint raw_lit_kw (l : list (tag * arg)) : bool :=
  match l with [] => true | (_, x) :: r => raw_lit x && raw_lit_kw r end.
Fixpoint raw_ok_arg (a : arg) : bool :=
  match a with
  | ARef _ | AAlias _ | AData _ | AOther | ALit _ => true
  | ASeq s items =>
    if seq_is_raw s then raw_lit_list items
    else (fix go (l : list arg) := match l with [] => true | x :: r => raw_ok_arg x && go r end) items
  | ATask _ args kwargs =>
    (fix go (l : list arg) := match l with [] => true | x :: r => raw_ok_arg x && go r end) args &&
    (fix go (l : list (tag * arg)) := match l with [] => true | (_, x) :: r => raw_ok_arg x && go r end) kwargs
  | ADict items => raw_lit_kw items
  end.
Fixpoint raw_ok_list (l : list arg) : bool :=
  match l with [] => true | x :: r => raw_ok_arg x && raw_ok_list r end.
Fixpoint raw_ok_kw (l : list (tag * arg)) : bool :=
  match l with [] => true | (_, x) :: r => raw_ok_arg x && raw_ok_kw r end.
Definition raw_ok_node (nd : node) : bool :=
  match nd with
  | NAlias _ | NData _ | NOther => true
  | NCont _ items => raw_ok_list items
  | NTask _ args kwargs => raw_ok_list args && raw_ok_kw kwargs
  end.
Definition raw_ok (g : sgraph) : bool := forallb (fun kn => raw_ok_node (snd kn)) g.

(* ------------------------------------------------------------------------- *)
(** * The translation *)

Section Flatten.
  (* ORACLE: the order of the key strings (`sorted(deps)` sorts `str`s) *)
  Variable kle : rkey -> rkey -> bool.

  Fixpoint insert_key (x : rkey) (l : list rkey) : list rkey :=
    match l with
    | [] => [x]
    | y :: t => if kle x y then x :: l else y :: insert_key x t
    end.
  Definition sort_keys (l : list rkey) : list rkey := fold_right insert_key [] l.

  (* `sorted(deps)` for the SET `deps` into which the list `ds` was added *)
  Definition sorted_deps (ds : list rkey) : list rkey := sort_keys (nodup rkey_eq_dec ds).

  (* _Flattener.resolve(arg, deps) for the flattener of parent key p.
     State threaded: n = self._n, the records appended to self.extra (returned in append order).
     Result: (resolved argument, keys added to `deps` in order, new self._n, appended records). *)
  Fixpoint resolve (p : key) (a : arg) (n : nat) {struct a} : targ * list rkey * nat * list rec :=
    let rlist :=
      fix rlist (l : list arg) (n : nat) {struct l} : list targ * list rkey * nat * list rec :=
        match l with
        | [] => ([], [], n, [])
        | x :: t =>
          let '(tx, dx, n1, e1) := resolve p x n in
          let '(tr, dt, n2, e2) := rlist t n1 in
          (tx :: tr, dx ++ dt, n2, e1 ++ e2)
        end in
    let rkw :=
      fix rkw (l : list (tag * arg)) (n : nat) {struct l} : list (tag * targ) * list rkey * nat * list rec :=
        match l with
        | [] => ([], [], n, [])
        | (k, x) :: t =>
          let '(tx, dx, n1, e1) := resolve p x n in
          let '(tr, dt, n2, e2) := rkw t n1 in
          ((k, tx) :: tr, dx ++ dt, n2, e1 ++ e2)
        end in
    match a with
    | ARef k => (TRef (KG k), [KG k], n, [])                 (* deps.add(str(k)); TaskRef(k) *)
    | AAlias k => (TRef (KG k), [KG k], n, [])               (* same for an inline Alias *)
    | AData v => (v, [], n, [])                              (* arg.value *)
    | ASeq s items =>                                        (* klass(resolve(a) for a in arg.args) / raw list, tuple *)
      let '(ts, ds, n1, e1) := rlist items n in
      ((if seq_is_list s then TList ts else TTuple ts), ds, n1, e1)
    | ATask f args kwargs =>
      let n0 := S n in                                       (* self._n += 1 *)
      let sub := KSub p n0 in                                (* f"{parent_key}-sub{self._n}" *)
      let '(ta, d1, n1, e1) := rlist args n0 in              (* sub_args, into the fresh sub_deps *)
      let '(tk, d2, n2, e2) := rkw kwargs n1 in              (* sub_kwargs *)
      (TRef sub, [sub], n2,                                  (* deps.add(sub_key); TaskRef(sub_key) *)
       e1 ++ e2 ++ [mkrec sub f ta tk (sorted_deps (d1 ++ d2))])   (* self.extra.append(...) AFTER the sub-arguments *)
    | AOther => (TLit 1%positive, [], n, [])                 (* raises; see flatten_opt *)
    | ADict items =>
      let '(tk, ds, n1, e1) := rkw items n in (TDict tk, ds, n1, e1)
    | ALit t => (TLit t, [], n, [])
    end.

  Definition resolve_list (p : key) :=
    fix rlist (l : list arg) (n : nat) {struct l} : list targ * list rkey * nat * list rec :=
      match l with
      | [] => ([], [], n, [])
      | x :: t =>
        let '(tx, dx, n1, e1) := resolve p x n in
        let '(tr, dt, n2, e2) := rlist t n1 in
        (tx :: tr, dx ++ dt, n2, e1 ++ e2)
      end.
  Definition resolve_kw (p : key) :=
    fix rkw (l : list (tag * arg)) (n : nat) {struct l} : list (tag * targ) * list rkey * nat * list rec :=
      match l with
      | [] => ([], [], n, [])
      | (k, x) :: t =>
        let '(tx, dx, n1, e1) := resolve p x n in
        let '(tr, dt, n2, e2) := rkw t n1 in
        ((k, tx) :: tr, dx ++ dt, n2, e1 ++ e2)
      end.

  (* _records(key, node) *)
  Definition records (k : key) (nd : node) : list rec :=
    match nd with
    | NAlias t =>
      if Pos.eqb t k then []                                  (* self-alias: no record *)
      else [mkrec (KG k) ident_fn [TRef (KG t)] [] [KG t]]
    | NData v => [mkrec (KG k) ident_fn [v] [] []]
    | NCont b items =>
      let '(t, ds, _, ex) := resolve k (ASeq (if b then ContList else ContTuple) items) 0 in
      mkrec (KG k) ident_fn [t] [] (sorted_deps ds) :: ex
    | NTask f args kwargs =>
      let '(ta, d1, n1, e1) := resolve_list k args 0 in
      let '(tk, d2, _, e2) := resolve_kw k kwargs n1 in
      mkrec (KG k) f ta tk (sorted_deps (d1 ++ d2)) :: e1 ++ e2
    | NOther => []                                            (* raises; see flatten_opt *)
    end.

  (* GraphRecordsLayer.to_task_records, after convert_legacy_graph:
       [rec for key, node in dsk.items() for rec in _records(key, node)] *)
  Definition flatten (g : sgraph) : list rec := flat_map (fun kn => records (fst kn) (snd kn)) g.

  (* ... or NotImplementedError *)
  Definition flatten_opt (g : sgraph) : option (list rec) :=
    if supported g then Some (flatten g) else None.

  (* ----------------------------------------------------------------------- *)
  (** * _check_complete *)

  Definition produced (rs : list rec) : list rkey := map r_key rs.
  Definition dangling (rs : list rec) : list rkey :=
    filter (fun d => negb (rmem d (produced rs))) (flat_map r_deps rs).
  Definition check_complete (rs : list rec) : bool :=
    match dangling rs with [] => true | _ :: _ => false end.

  (* ----------------------------------------------------------------------- *)
  (** * _walk_records / collect_task_records over a DAG of expression nodes *)

  (* one lowered expression node: its `_name`, its (converted) `_layer()` graph and the
     `_name`s of `dependencies()` *)
  Record lnode := mklnode { ln_name : positive; ln_graph : sgraph; ln_deps : list positive }.
  Definition dag := list lnode.

  Fixpoint find_layer (d : dag) (nm : positive) : option lnode :=
    match d with
    | [] => None
    | ln :: t => if Pos.eqb (ln_name ln) nm then Some ln else find_layer t nm
    end.
  Definition deps_of (d : dag) (nm : positive) : list positive :=
    match find_layer d nm with Some ln => ln_deps ln | None => [] end.
  Definition graph_of (d : dag) (nm : positive) : sgraph :=
    match find_layer d nm with Some ln => ln_graph ln | None => [] end.

  (* the `while stack:` loop of _walk_records.  The stack is kept with its TOP FIRST
     (`stack.pop()` = head; `stack.extend(ds)` = `rev ds ++ stack`).  Returns the final `seen`
     and the names whose records were appended, in order.  None = fuel exhausted. *)
  Fixpoint walk_loop (fuel : nat) (d : dag) (stack seen emitted : list positive)
    : option (list positive * list positive) :=
    match stack with
    | [] => Some (seen, emitted)
    | e :: rest =>
      match fuel with
      | O => None
      | S f =>
        if mem_b e seen then walk_loop f d rest seen emitted
        else walk_loop f d (rev (deps_of d e) ++ rest) (e :: seen) (emitted ++ [e])
      end
    end.

  Definition total_deps (d : dag) : nat := fold_right (fun ln acc => length (ln_deps ln) + acc) 0 d.
  Definition walk_fuel (d : dag) (stack : list positive) : nat := S (length stack + total_deps d).

  (* _walk_records(roots, seen, records): stack = list(roots) *)
  Definition walk (d : dag) (roots seen : list positive) : option (list positive * list positive) :=
    walk_loop (walk_fuel d (rev roots)) d (rev roots) seen [].

  (* the records appended for the emitted names; None when a layer declines *)
  Definition layer_records (d : dag) (nm : positive) : list rec := flatten (graph_of d nm).
  Definition emitted_records (d : dag) (emitted : list positive) : option (list rec) :=
    if forallb (fun nm => supported (graph_of d nm)) emitted
    then Some (flat_map (layer_records d) emitted) else None.

  (* collect_task_records(collection, seen): seen = None -> fresh set + completeness check;
     a shared set -> only this collection's contribution, no check.
     Result: (the updated seen set, the records) or None = NotImplementedError *)
  Definition collect (d : dag) (root : positive) (seen : option (list positive))
    : option (list positive * list rec) :=
    let shared := match seen with Some _ => true | None => false end in
    let seen0 := match seen with Some s => s | None => [] end in
    match walk d [root] seen0 with
    | None => None
    | Some (seen1, emitted) =>
      match emitted_records d emitted with
      | None => None
      | Some rs => if shared || check_complete rs then Some (seen1, rs) else None
      end
    end.

  (* several collections walked with one shared `seen` (dask.compute(x, y, ...)) *)
  Fixpoint collect_shared (d : dag) (roots : list positive) (seen : list positive)
    : option (list positive * list rec) :=
    match roots with
    | [] => Some (seen, [])
    | r :: t =>
      match collect d r (Some seen) with
      | None => None
      | Some (seen1, rs1) =>
        match collect_shared d t seen1 with
        | None => None
        | Some (seen2, rs2) => Some (seen2, rs1 ++ rs2)
        end
      end
    end.
End Flatten.

(* ------------------------------------------------------------------------- *)
(** * Semantics *)

Section Sem.
  Variable V : Type.                                             (* block values, abstract *)
  Variable apply : tag -> list V -> list (tag * V) -> V.         (* the call  func args kwargs *)
  Variable vlit : tag -> V.                                      (* the value of a literal *)
  Variable vlist vtuple : list V -> V.                           (* list(...) / tuple(...) of values *)
  Variable vdict : list (tag * V) -> V.

  (* value of a record argument once every TaskRef is replaced by the value in the store *)
  Fixpoint teval (s : rkey -> option V) (t : targ) {struct t} : option V :=
    let tl := fix tl (l : list targ) : option (list V) :=
      match l with
      | [] => Some []
      | x :: r => match teval s x, tl r with Some v, Some vs => Some (v :: vs) | _, _ => None end
      end in
    match t with
    | TRef k => s k
    | TLit t => Some (vlit t)
    | TList l => option_map vlist (tl l)
    | TTuple l => option_map vtuple (tl l)
    | TDict l =>
      option_map vdict
        ((fix tk (l : list (tag * targ)) : option (list (tag * V)) :=
            match l with
            | [] => Some []
            | (k, x) :: r => match teval s x, tk r with Some v, Some vs => Some ((k, v) :: vs) | _, _ => None end
            end) l)
    end.
  Fixpoint teval_list (s : rkey -> option V) (l : list targ) : option (list V) :=
    match l with
    | [] => Some []
    | x :: r => match teval s x, teval_list s r with Some v, Some vs => Some (v :: vs) | _, _ => None end
    end.
  Fixpoint teval_kw (s : rkey -> option V) (l : list (tag * targ)) : option (list (tag * V)) :=
    match l with
    | [] => Some []
    | (k, x) :: r => match teval s x, teval_kw s r with Some v, Some vs => Some ((k, v) :: vs) | _, _ => None end
    end.

  (* what a records executor computes for one record (None: a referenced key has no value) *)
  Definition rec_eval (s : rkey -> option V) (r : rec) : option V :=
    match teval_list s (r_args r), teval_kw s (r_kwargs r) with
    | Some vs, Some kvs => Some (apply (r_fn r) vs kvs)
    | _, _ => None
    end.

  Definition no_refs : rkey -> option V := fun _ => None.

  (* SOURCE semantics: inline nodes are evaluated recursively (dask's Task.__call__).  This version
     also looks INTO raw containers (as the translation does); `aeval_dask` below does not, and the
     two agree on `raw_ok` graphs (RecordsFacts.aeval_dask_eq). *)
  Fixpoint aeval (s : key -> option V) (a : arg) {struct a} : option V :=
    let al := fix al (l : list arg) : option (list V) :=
      match l with
      | [] => Some []
      | x :: r => match aeval s x, al r with Some v, Some vs => Some (v :: vs) | _, _ => None end
      end in
    let ak := fix ak (l : list (tag * arg)) : option (list (tag * V)) :=
      match l with
      | [] => Some []
      | (k, x) :: r => match aeval s x, ak r with Some v, Some vs => Some ((k, v) :: vs) | _, _ => None end
      end in
    match a with
    | ARef k | AAlias k => s k
    | AData v => teval no_refs v
    | ASeq sk items => option_map (if seq_is_list sk then vlist else vtuple) (al items)
    | ATask f args kwargs =>
      match al args, ak kwargs with Some vs, Some kvs => Some (apply f vs kvs) | _, _ => None end
    | AOther => None
    | ADict items => option_map vdict (ak items)
    | ALit t => Some (vlit t)
    end.
  Fixpoint aeval_list (s : key -> option V) (l : list arg) : option (list V) :=
    match l with
    | [] => Some []
    | x :: r => match aeval s x, aeval_list s r with Some v, Some vs => Some (v :: vs) | _, _ => None end
    end.
  Fixpoint aeval_kw (s : key -> option V) (l : list (tag * arg)) : option (list (tag * V)) :=
    match l with
    | [] => Some []
    | (k, x) :: r => match aeval s x, aeval_kw s r with Some v, Some vs => Some ((k, v) :: vs) | _, _ => None end
    end.

  Definition neval (s : key -> option V) (nd : node) : option V :=
    match nd with
    | NAlias t => s t
    | NData v => teval no_refs v
    | NCont b items => option_map (if b then vlist else vtuple) (aeval_list s items)
    | NTask f args kwargs =>
      match aeval_list s args, aeval_kw s kwargs with Some vs, Some kvs => Some (apply f vs kvs) | _, _ => None end
    | NOther => None
    end.

  (* DASK's reading of raw containers: data, handed over verbatim; a GraphNode / TaskRef object
     inside is just an object, whose value as data is `vquote` of it *)
  Variable vquote : arg -> V.
  Fixpoint rawval (a : arg) {struct a} : V :=
    match a with
    | ALit t => vlit t
    | ASeq s items =>
      if seq_is_raw s
      then (if seq_is_list s then vlist else vtuple)
             ((fix go (l : list arg) : list V := match l with [] => [] | x :: r => rawval x :: go r end) items)
      else vquote a
    | ADict items =>
      vdict ((fix go (l : list (tag * arg)) : list (tag * V) :=
                match l with [] => [] | (k, x) :: r => (k, rawval x) :: go r end) items)
    | _ => vquote a
    end.
  Fixpoint aeval_dask (s : key -> option V) (a : arg) {struct a} : option V :=
    let al := fix al (l : list arg) : option (list V) :=
      match l with
      | [] => Some []
      | x :: r => match aeval_dask s x, al r with Some v, Some vs => Some (v :: vs) | _, _ => None end
      end in
    let ak := fix ak (l : list (tag * arg)) : option (list (tag * V)) :=
      match l with
      | [] => Some []
      | (k, x) :: r => match aeval_dask s x, ak r with Some v, Some vs => Some ((k, v) :: vs) | _, _ => None end
      end in
    match a with
    | ARef k | AAlias k => s k
    | AData v => teval no_refs v
    | ASeq sk items =>
      if seq_is_raw sk then Some (rawval a)
      else option_map (if seq_is_list sk then vlist else vtuple) (al items)
    | ATask f args kwargs =>
      match al args, ak kwargs with Some vs, Some kvs => Some (apply f vs kvs) | _, _ => None end
    | AOther => None
    | ADict items => Some (rawval a)
    | ALit t => Some (vlit t)
    end.
  Fixpoint aeval_dask_list (s : key -> option V) (l : list arg) : option (list V) :=
    match l with
    | [] => Some []
    | x :: r => match aeval_dask s x, aeval_dask_list s r with Some v, Some vs => Some (v :: vs) | _, _ => None end
    end.
  Fixpoint aeval_dask_kw (s : key -> option V) (l : list (tag * arg)) : option (list (tag * V)) :=
    match l with
    | [] => Some []
    | (k, x) :: r => match aeval_dask s x, aeval_dask_kw s r with Some v, Some vs => Some ((k, v) :: vs) | _, _ => None end
    end.
  Definition neval_dask (s : key -> option V) (nd : node) : option V :=
    match nd with
    | NAlias t => s t
    | NData v => teval no_refs v
    | NCont b items => option_map (if b then vlist else vtuple) (aeval_dask_list s items)
    | NTask f args kwargs =>
      match aeval_dask_list s args, aeval_dask_kw s kwargs with
      | Some vs, Some kvs => Some (apply f vs kvs) | _, _ => None end
    | NOther => None
    end.

  (* running a graph: the keys of `order` one after the other, each from the store so far *)
  Definition supd {A} (eqb : A -> A -> bool) (s : A -> option V) (k : A) (v : option V) : A -> option V :=
    fun k' => if eqb k' k then v else s k'.

  Fixpoint find_node (g : sgraph) (k : key) : option node :=
    match g with [] => None | (k', nd) :: t => if Pos.eqb k' k then Some nd else find_node t k end.
  Definition src_step (g : sgraph) (s : key -> option V) (k : key) : key -> option V :=
    match find_node g k with Some nd => supd Pos.eqb s k (neval s nd) | None => s end.
  Definition src_run (g : sgraph) (order : list key) : key -> option V :=
    fold_left (src_step g) order (fun _ => None).

  Definition src_step_dask (g : sgraph) (s : key -> option V) (k : key) : key -> option V :=
    match find_node g k with Some nd => supd Pos.eqb s k (neval_dask s nd) | None => s end.
  Definition src_run_dask (g : sgraph) (order : list key) : key -> option V :=
    fold_left (src_step_dask g) order (fun _ => None).

  Fixpoint find_rec (rs : list rec) (k : rkey) : option rec :=
    match rs with [] => None | r :: t => if rkey_eqb (r_key r) k then Some r else find_rec t k end.
  Definition rec_step (rs : list rec) (s : rkey -> option V) (k : rkey) : rkey -> option V :=
    match find_rec rs k with Some r => supd rkey_eqb s k (rec_eval s r) | None => s end.
  Definition rec_run (rs : list rec) (order : list rkey) : rkey -> option V :=
    fold_left (rec_step rs) order (fun _ => None).
End Sem.

(* the DECLARED dependency graph of a list of records, and its topological orders
   (same shape as Graph.topological, over record keys) *)
Definition rec_graph (rs : list rec) : list (rkey * list rkey) := map (fun r => (r_key r, r_deps r)) rs.
Definition rtopological (dg : list (rkey * list rkey)) (order : list rkey) : Prop :=
  NoDup order /\
  (forall k, In k order <-> In k (map fst dg)) /\
  (forall pre k post ds, order = pre ++ k :: post -> In (k, ds) dg -> incl ds pre).

(* a topological order of the records built from one of the source: the lifted sub-tasks of a
   key (in the order they were appended) right before the key itself *)
Definition flat_order (kle : rkey -> rkey -> bool) (g : sgraph) (order : list key) : list rkey :=
  flat_map (fun k => match find_node g k with
                     | Some nd => match records kle k nd with
                                  | [] => []
                                  | m :: ex => map r_key ex ++ [r_key m]
                                  end
                     | None => []
                     end) order.

Definition no_self_alias (g : sgraph) : Prop := forall k, ~ In (k, NAlias k) g.
Definition no_self_alias_b (g : sgraph) : bool :=
  forallb (fun kn => match snd kn with NAlias t => negb (Pos.eqb t (fst kn)) | _ => true end) g.
