(* C18 — facts about partition_all, the tree depth and the 1-D tree evaluator. *)
From DA Require Import PyBase PyBaseFacts TreeReduce.
From Coq Require Import ZifyBool.
Open Scope Z_scope.

Ltac Zify.zify_post_hook ::= Z.to_euclidean_division_equations.

(* ------------------------------------------------------------------ *)
(* partition_all                                                       *)

Definition pa {A} (k : nat) (l : list A) : list (list A) := partition_all_fuel (length l) k l.

Lemma partition_all_pa {A} k (l : list A) : partition_all k l = pa (Z.to_nat k) l.
Proof. reflexivity. Qed.

Lemma pa_fuel_enough {A} (k : nat) : (0 < k)%nat ->
  forall f1 f2 (l : list A), (length l <= f1)%nat -> (length l <= f2)%nat ->
  partition_all_fuel f1 k l = partition_all_fuel f2 k l.
Proof.
  intros Hk. induction f1 as [|f1 IH]; intros f2 l H1 H2.
  - destruct l; [|cbn in H1; lia]. destruct f2; reflexivity.
  - destruct l as [|a t]; [destruct f2; reflexivity|].
    destruct f2 as [|f2]; [cbn in H2; lia|].
    cbn [partition_all_fuel]. f_equal.
    apply IH; rewrite skipn_length; cbn [length] in *; lia.
Qed.

Lemma pa_nil {A} k : pa k (@nil A) = [].
Proof. reflexivity. Qed.

Lemma pa_cons {A} k (l : list A) : (0 < k)%nat -> l <> [] ->
  pa k l = firstn k l :: pa k (skipn k l).
Proof.
  intros Hk Hl. unfold pa. destruct l as [|a t]; [congruence|].
  cbn [length partition_all_fuel]. f_equal.
  apply pa_fuel_enough; try assumption; rewrite ?skipn_length; cbn [length]; lia.
Qed.

(* induction along the recursion of partition_all *)
Lemma pa_ind {A} (k : nat) (Hk : (0 < k)%nat) (P : list A -> Prop) :
  P [] -> (forall l, l <> [] -> P (skipn k l) -> P l) -> forall l, P l.
Proof.
  intros H0 Hs l.
  assert (forall n (l : list A), (length l <= n)%nat -> P l) as Hn.
  { induction n as [|n IH]; intros l' Hl.
    - destruct l'; [assumption | cbn in Hl; lia].
    - destruct l' as [|a t]; [assumption|].
      apply Hs; [congruence|]. apply IH. rewrite skipn_length. cbn [length] in *. lia. }
  apply (Hn (length l)). lia.
Qed.

Lemma pa_concat {A} k (l : list A) : (0 < k)%nat -> concat (pa k l) = l.
Proof.
  intros Hk. induction l as [|l Hl IH] using (pa_ind k Hk).
  - reflexivity.
  - rewrite pa_cons by assumption. cbn [concat]. rewrite IH. apply firstn_skipn.
Qed.

Lemma pa_groups {A} k (l : list A) : (0 < k)%nat ->
  Forall (fun g => g <> [] /\ (length g <= k)%nat) (pa k l).
Proof.
  intros Hk. induction l as [|l Hl IH] using (pa_ind k Hk).
  - constructor.
  - rewrite pa_cons by assumption. constructor; [|assumption]. split.
    + destruct l; [congruence|]. destruct k; [lia|]. cbn. congruence.
    + rewrite firstn_length. lia.
Qed.

Lemma pa_length {A} k (l : list A) : (0 < k)%nat ->
  Z.of_nat (length (pa k l)) = cdiv (Z.of_nat (length l)) (Z.of_nat k).
Proof.
  intros Hk. unfold cdiv. induction l as [|l Hl IH] using (pa_ind k Hk).
  - cbn [pa partition_all_fuel length]. rewrite Z.div_small; lia.
  - rewrite pa_cons by assumption. cbn [length]. rewrite Nat2Z.inj_succ, IH, skipn_length.
    assert (0 < length l)%nat by (destruct l; [congruence | cbn; lia]).
    destruct (Nat.le_gt_cases (length l) k) as [Hle|Hgt].
    + replace (length l - k)%nat with 0%nat by lia.
      rewrite Z.div_small by lia.
      assert (Z.of_nat (length l) + Z.of_nat k - 1 = 1 * Z.of_nat k + (Z.of_nat (length l) - 1)) as -> by lia.
      rewrite Z.div_add_l by lia. rewrite Z.div_small; lia.
    + rewrite Nat2Z.inj_sub by lia.
      assert (Z.of_nat (length l) + Z.of_nat k - 1 = 1 * Z.of_nat k + (Z.of_nat (length l) - Z.of_nat k + Z.of_nat k - 1)) as -> by lia.
      rewrite Z.div_add_l by lia. lia.
Qed.

Lemma pa_map {A B} (f : A -> B) k (l : list A) : (0 < k)%nat ->
  pa k (map f l) = map (map f) (pa k l).
Proof.
  intros Hk. induction l as [|l Hl IH] using (pa_ind k Hk).
  - reflexivity.
  - rewrite (pa_cons k l) by assumption.
    rewrite pa_cons; [|assumption|destruct l; [congruence|cbn; congruence]].
    cbn [map]. rewrite firstn_map, skipn_map, IH. reflexivity.
Qed.

Lemma pa_single {A} k (l : list A) : (0 < k)%nat -> l <> [] -> (length l <= k)%nat -> pa k l = [l].
Proof.
  intros Hk Hl Hlen. rewrite pa_cons by assumption.
  rewrite firstn_all2 by assumption. rewrite skipn_all2 by assumption. reflexivity.
Qed.

Lemma skipn_add {A} (a b : nat) (l : list A) : skipn a (skipn b l) = skipn (b + a) l.
Proof.
  revert l. induction b as [|b IH]; intros l; [reflexivity|].
  destruct l as [|x t]; [rewrite !skipn_nil; reflexivity|]. cbn [skipn Nat.add]. apply IH.
Qed.

Lemma pa_nth {A} k (l : list A) : (0 < k)%nat -> forall j, (j < length (pa k l))%nat ->
  nth j (pa k l) [] = firstn k (skipn (j * k) l).
Proof.
  intros Hk. induction l as [|l Hl IH] using (pa_ind k Hk); intros j Hj.
  - cbn in Hj. lia.
  - rewrite pa_cons in * by assumption. destruct j as [|j].
    + reflexivity.
    + cbn [nth length] in *. rewrite IH by lia. rewrite skipn_add.
      replace (S j * k)%nat with (k + j * k)%nat by lia. reflexivity.
Qed.

Lemma pa_nonempty {A} k (l : list A) : (0 < k)%nat -> l <> [] -> pa k l <> [].
Proof. intros Hk Hl. rewrite pa_cons by assumption. congruence. Qed.

(* the statement of C18_partition_all_valid *)
Theorem partition_all_valid {A} (k : Z) (l : list A) : 1 <= k ->
  concat (partition_all k l) = l /\
  Forall (fun g => g <> [] /\ Z.of_nat (length g) <= k) (partition_all k l) /\
  Z.of_nat (length (partition_all k l)) = cdiv (Z.of_nat (length l)) k /\
  (forall j, (j < length (partition_all k l))%nat ->
     nth j (partition_all k l) [] = firstn (Z.to_nat k) (skipn (j * Z.to_nat k) l)).
Proof.
  intros Hk. rewrite partition_all_pa. assert (0 < Z.to_nat k)%nat as Hk' by lia.
  repeat split.
  - apply pa_concat; assumption.
  - eapply Forall_impl; [|apply pa_groups; assumption]. cbn. intros g [H1 H2]. split; [assumption | lia].
  - rewrite pa_length by assumption. f_equal. lia.
  - apply pa_nth; assumption.
Qed.

(* ------------------------------------------------------------------ *)
(* depth                                                               *)

Fixpoint iter_cdiv (d : nat) (k n : Z) : Z :=
  match d with O => n | S d' => iter_cdiv d' k (cdiv n k) end.

Lemma cdiv_pos n k : 1 <= k -> 1 <= n -> 1 <= cdiv n k.
Proof. intros. unfold cdiv. nia. Qed.

Lemma cdiv_le_pow n k m : 1 <= k -> n <= k * m -> cdiv n k <= m.
Proof. intros. unfold cdiv. nia. Qed.

Lemma cdiv_one n : cdiv n 1 = n.
Proof. unfold cdiv. rewrite Z.div_1_r. lia. Qed.

Lemma cdiv_of_one k : 1 <= k -> cdiv 1 k = 1.
Proof. intros. unfold cdiv. nia. Qed.

Lemma iter_cdiv_reaches_one d k n : 1 <= k -> 1 <= n -> n <= k ^ Z.of_nat d -> iter_cdiv d k n = 1.
Proof.
  intros Hk. revert n. induction d as [|d IH]; intros n Hn Hle.
  - cbn in *. lia.
  - cbn [iter_cdiv]. apply IH.
    + apply cdiv_pos; assumption.
    + apply cdiv_le_pow; [assumption|]. rewrite Nat2Z.inj_succ, Z.pow_succ_r in Hle by lia. assumption.
Qed.

Lemma iter_cdiv_le_k d k n : 1 <= k -> 1 <= n -> n <= k ^ (Z.of_nat d + 1) -> iter_cdiv d k n <= k.
Proof.
  intros Hk. revert n. induction d as [|d IH]; intros n Hn Hle.
  - cbn [iter_cdiv]. change (Z.of_nat 0 + 1) with 1 in Hle. rewrite Z.pow_1_r in Hle. assumption.
  - cbn [iter_cdiv]. apply IH.
    + apply cdiv_pos; assumption.
    + apply cdiv_le_pow; [assumption|]. rewrite Nat2Z.inj_succ in Hle.
      replace (Z.succ (Z.of_nat d) + 1) with (Z.succ (Z.of_nat d + 1)) in Hle by lia.
      rewrite Z.pow_succ_r in Hle by lia. assumption.
Qed.

Lemma iter_cdiv_fan1 d n : iter_cdiv d 1 n = n.
Proof. revert n. induction d as [|d IH]; intros n; cbn [iter_cdiv]; [reflexivity|]. rewrite cdiv_one. apply IH. Qed.

Lemma ceil_log_fuel_spec fuel : forall k n acc d,
  2 <= k -> 0 <= d -> acc = k ^ d -> (1 <= fuel)%nat -> n <= acc * 2 ^ (Z.of_nat fuel - 1) ->
  let r := ceil_log_fuel fuel k n acc d in
  d <= r /\ n <= k ^ r /\ (forall d', d <= d' < r -> k ^ d' < n).
Proof.
  induction fuel as [|f IH]; intros k n acc d Hk Hd Hacc Hf Hn; [lia|].
  cbn [ceil_log_fuel]. destruct (n <=? acc) eqn:E.
  - cbn zeta. split; [lia|]. split; [lia|]. intros d' H. lia.
  - assert (0 < acc) by (subst acc; apply Z.pow_pos_nonneg; lia).
    assert (1 <= f)%nat as Hf1.
    { destruct f; [|lia]. cbn in Hn. lia. }
    specialize (IH k n (acc * k) (d + 1) Hk ltac:(lia)).
    assert (acc * k = k ^ (d + 1)) as Hacc' by (rewrite Z.pow_add_r by lia; rewrite Z.pow_1_r; lia).
    specialize (IH Hacc' Hf1).
    assert (n <= acc * k * 2 ^ (Z.of_nat f - 1)) as Hn'.
    { replace (Z.of_nat (S f) - 1) with (1 + (Z.of_nat f - 1)) in Hn by lia.
      rewrite Z.pow_add_r in Hn by lia. rewrite Z.pow_1_r in Hn.
      assert (0 <= 2 ^ (Z.of_nat f - 1)) by (apply Z.pow_nonneg; lia). nia. }
    specialize (IH Hn'). cbn zeta in IH. destruct IH as (H1 & H2 & H3).
    cbn zeta. split; [lia|]. split; [assumption|].
    intros d' Hd'. destruct (Z.eq_dec d' d) as [->|Hne]; [subst acc; lia|]. apply H3. lia.
Qed.

(* ceil_log k n is the least d >= 0 with k^d >= n *)
Theorem ceil_log_spec k n : 2 <= k ->
  0 <= ceil_log k n /\ n <= k ^ ceil_log k n /\ (forall d, 0 <= d < ceil_log k n -> k ^ d < n).
Proof.
  intros Hk. unfold ceil_log.
  destruct (Z_le_gt_dec n 1) as [Hn|Hn].
  - cbn [ceil_log_fuel]. destruct (n <=? 1) eqn:E; [|lia]. cbn. split; [lia|]. split; [lia|]. intros; lia.
  - pose proof (Z.log2_up_spec n ltac:(lia)) as [_ Hup].
    pose proof (Z.log2_up_nonneg n) as Hnn.
    pose proof (ceil_log_fuel_spec (S (Z.to_nat (Z.log2_up n))) k n 1 0 Hk ltac:(lia) ltac:(reflexivity) ltac:(lia)) as H.
    replace (Z.of_nat (S (Z.to_nat (Z.log2_up n))) - 1) with (Z.log2_up n) in H by lia.
    specialize (H ltac:(lia)). cbn zeta in H. destruct H as (H1 & H2 & H3).
    split; [assumption|]. split; [assumption|]. intros d Hd. apply H3. lia.
Qed.

Lemma ceil_log_least k n d : 2 <= k -> 0 <= d -> n <= k ^ d -> ceil_log k n <= d.
Proof.
  intros Hk Hd Hn. destruct (ceil_log_spec k n Hk) as (H0 & H1 & H2).
  destruct (Z_le_gt_dec (ceil_log k n) d) as [|Hgt]; [assumption|].
  specialize (H2 d ltac:(lia)). lia.
Qed.

Lemma tree_depth_from_spec nb : forall i se logs d0 d,
  tree_depth_from i nb se logs d0 = Some d ->
  logs_ok_from i nb se logs = true ->
  d0 <= d /\
  forall j n k, nth_error nb j = Some n -> dict_find se (i + Z.of_nat j) = Some k -> 2 <= k -> n <= k ^ d.
Proof.
  induction nb as [|n0 t IH]; intros i se logs d0 d Hd Hok.
  - cbn in Hd. injection Hd as <-. split; [lia|]. intros [|j] n k H; cbn in H; discriminate.
  - cbn [tree_depth_from logs_ok_from] in Hd, Hok.
    destruct (dict_find se i) as [k0|] eqn:Ef.
    + destruct (k0 =? 1) eqn:Ek.
      * destruct (IH _ _ _ _ _ Hd Hok) as [Hle Hall]. split; [assumption|].
        intros [|j] n k Hn Hk Hk2.
        -- cbn in Hn. injection Hn as <-. rewrite Z.add_0_r, Ef in Hk. injection Hk as <-. lia.
        -- cbn [nth_error] in Hn. apply (Hall j n k Hn); [|assumption].
           rewrite <- Hk. f_equal. lia.
      * destruct logs as [|c logs']; [discriminate|].
        apply andb_true_iff in Hok. destruct Hok as [Hok1 Hok].
        apply andb_true_iff in Hok1. destruct Hok1 as [Hc0 Hcn].
        destruct (IH _ _ _ _ _ Hd Hok) as [Hle Hall]. split; [lia|].
        intros [|j] n k Hn Hk Hk2.
        -- cbn in Hn. injection Hn as <-. rewrite Z.add_0_r, Ef in Hk. injection Hk as <-.
           assert (k0 ^ c <= k0 ^ d) by (apply Z.pow_le_mono_r; lia). lia.
        -- cbn [nth_error] in Hn. apply (Hall j n k Hn); [|assumption].
           rewrite <- Hk. f_equal. lia.
    + destruct (IH _ _ _ _ _ Hd Hok) as [Hle Hall]. split; [assumption|].
      intros [|j] n k Hn Hk Hk2.
      * rewrite Z.add_0_r, Ef in Hk. discriminate.
      * cbn [nth_error] in Hn. apply (Hall j n k Hn); [|assumption].
        rewrite <- Hk. f_equal. lia.
Qed.

(* the statement of C18_depth_reaches_one (model part) *)
Theorem tree_depth_reaches_one nb se logs d :
  tree_depth nb se logs = Some d -> logs_ok nb se logs = true ->
  1 <= d /\
  forall j n k, nth_error nb j = Some n -> 1 <= n -> dict_find se (Z.of_nat j) = Some k -> 2 <= k ->
    iter_cdiv (Z.to_nat d) k n = 1.
Proof.
  intros Hd Hok. destruct (tree_depth_from_spec nb 0 se logs 1 d Hd Hok) as [Hle Hall].
  split; [assumption|]. intros j n k Hn Hn1 Hk Hk2.
  apply iter_cdiv_reaches_one; try lia. rewrite Z2Nat.id by lia. apply (Hall j n k Hn); assumption.
Qed.

Lemma exact_logs_ok_from nb : forall i se,
  Forall (fun n => 1 <= n) nb -> (forall a k, dict_find se a = Some k -> 1 <= k) ->
  logs_ok_from i nb se (exact_logs_from i nb se) = true.
Proof.
  induction nb as [|n t IH]; intros i se Hnb Hse; [reflexivity|].
  inversion Hnb as [|? ? Hn Ht]; subst.
  cbn [logs_ok_from exact_logs_from]. destruct (dict_find se i) as [k|] eqn:Ef.
  - destruct (k =? 1) eqn:Ek; [apply IH; assumption|].
    pose proof (Hse i k Ef) as Hk1.
    destruct (ceil_log_spec k n ltac:(lia)) as (H0 & H1 & _).
    rewrite IH by assumption. lia.
  - apply IH; assumption.
Qed.

Theorem exact_logs_ok nb se :
  Forall (fun n => 1 <= n) nb -> (forall a k, dict_find se a = Some k -> 1 <= k) ->
  logs_ok nb se (exact_logs nb se) = true.
Proof. apply exact_logs_ok_from. Qed.

Lemma tree_depth_from_total nb : forall i se logs d0,
  logs_ok_from i nb se logs = true -> exists d, tree_depth_from i nb se logs d0 = Some d.
Proof.
  induction nb as [|n t IH]; intros i se logs d0 Hok; [eexists; reflexivity|].
  cbn [tree_depth_from logs_ok_from] in *. destruct (dict_find se i) as [k|].
  - destruct (k =? 1); [apply IH; assumption|]. destruct logs as [|c logs']; [discriminate|].
    apply andb_true_iff in Hok. destruct Hok as [_ Hok]. apply IH; assumption.
  - apply IH; assumption.
Qed.

(* ------------------------------------------------------------------ *)
(* the 1-D tree                                                        *)

Lemma tree_level_length {S T} (f : list S -> T) k (l : list S) : 1 <= k ->
  Z.of_nat (length (tree_level f k l)) = cdiv (Z.of_nat (length l)) k.
Proof.
  intros Hk. unfold tree_level. rewrite map_length, partition_all_pa, pa_length by lia. f_equal. lia.
Qed.

Lemma tree_iter_length {S} (f : list S -> S) k d (l : list S) : 1 <= k ->
  Z.of_nat (length (tree_iter f k d l)) = iter_cdiv d k (Z.of_nat (length l)).
Proof.
  intros Hk. revert l. induction d as [|d IH]; intros l; cbn [tree_iter iter_cdiv]; [reflexivity|].
  rewrite IH, tree_level_length by assumption. reflexivity.
Qed.

Lemma mfold_app {S} (op : S -> S -> S) e : monoid_laws op e ->
  forall l1 l2, mfold op e (l1 ++ l2) = op (mfold op e l1) (mfold op e l2).
Proof.
  intros (Ha & Hl & Hr) l1 l2. unfold mfold. induction l1 as [|x t IH]; cbn [fold_right app].
  - symmetry. apply Hl.
  - rewrite IH. apply Ha.
Qed.

Lemma mfold_concat {S} (op : S -> S -> S) e : monoid_laws op e ->
  forall ls, mfold op e (map (mfold op e) ls) = mfold op e (concat ls).
Proof.
  intros H ls. induction ls as [|l t IH]; [reflexivity|].
  cbn [map concat]. rewrite mfold_app by assumption. rewrite <- IH. reflexivity.
Qed.

(* one level preserves the total; so does any number of levels (associativity only) *)
Lemma tree_level_mfold {S} (op : S -> S -> S) e k (l : list S) : monoid_laws op e -> 1 <= k ->
  mfold op e (tree_level (mfold op e) k l) = mfold op e l.
Proof.
  intros H Hk. unfold tree_level. rewrite mfold_concat by assumption.
  rewrite partition_all_pa, pa_concat by lia. reflexivity.
Qed.

Theorem tree_iter_mfold {S} (op : S -> S -> S) e k d (l : list S) : monoid_laws op e -> 1 <= k ->
  mfold op e (tree_iter (mfold op e) k d l) = mfold op e l.
Proof.
  intros H Hk. revert l. induction d as [|d IH]; intros l; cbn [tree_iter]; [reflexivity|].
  rewrite IH. apply tree_level_mfold; assumption.
Qed.

Lemma length_one_inv {A} (l : list A) : length l = 1%nat -> exists x, l = [x].
Proof. destruct l as [|x [|y t]]; cbn; intros H; try discriminate. eexists; reflexivity. Qed.

(* the statement of C18_tree_equals_flat (1-D, abstract monoid): after enough levels a single
   block is left and it holds the flat fold of all blocks *)
Theorem tree_iter_flat {S} (op : S -> S -> S) e k d (l : list S) :
  monoid_laws op e -> 2 <= k -> l <> [] -> Z.of_nat (length l) <= k ^ Z.of_nat d ->
  tree_iter (mfold op e) k d l = [mfold op e l].
Proof.
  intros H Hk Hl Hd.
  assert (Z.of_nat (length (tree_iter (mfold op e) k d l)) = 1) as Hlen.
  { rewrite tree_iter_length by lia. apply iter_cdiv_reaches_one; try lia.
    destruct l; [congruence | cbn [length]; lia]. }
  destruct (length_one_inv (tree_iter (mfold op e) k d l) ltac:(lia)) as [x Hx].
  pose proof (tree_iter_mfold op e k d l H ltac:(lia)) as Ht. rewrite Hx in *.
  destruct H as (_ & _ & Hr). cbn in Ht. rewrite Hr in Ht. congruence.
Qed.

(* homomorphic reductions: every level is the image under h of a coarser split of the data *)
Lemma concat_map_concat {A} (ls : list (list (list A))) : concat (map (@concat A) ls) = concat (concat ls).
Proof. induction ls as [|l t IH]; [reflexivity|]. cbn [map concat]. rewrite concat_app, IH. reflexivity. Qed.

Lemma map_ext_Forall {A B} (f g : A -> B) (l : list A) : Forall (fun x => f x = g x) l -> map f l = map g l.
Proof. induction 1; cbn; congruence. Qed.

Section Hom.
  Context {B D S R : Type} (r : reduction B S R) (phi : B -> list D) (h : list D -> S) (spec : list D -> R).
  Hypothesis Hhom : hom_reduction r phi h spec.

  Lemma hom_level k (ds : list (list D)) : 1 <= k ->
    tree_level (r_combine r) k (map h ds) = map h (map (@concat D) (partition_all k ds)).
  Proof.
    intros Hk. destruct Hhom as (_ & Hc & _). unfold tree_level.
    rewrite !partition_all_pa, pa_map by lia. rewrite !map_map.
    apply map_ext_Forall. eapply Forall_impl; [|apply (pa_groups (Z.to_nat k) ds); lia].
    cbn. intros g [Hg _]. apply Hc; assumption.
  Qed.

  Lemma hom_iter k d : 1 <= k -> forall ds : list (list D),
    exists ds', tree_iter (r_combine r) k d (map h ds) = map h ds' /\ concat ds' = concat ds /\
                length ds' = length (tree_iter (r_combine r) k d (map h ds)) /\ (ds <> [] -> ds' <> []).
  Proof.
    intros Hk. induction d as [|d IH]; intros ds.
    - exists ds. cbn [tree_iter]. rewrite map_length. auto.
    - cbn [tree_iter]. rewrite hom_level by assumption.
      destruct (IH (map (@concat D) (partition_all k ds))) as (ds' & H1 & H2 & H3 & H4).
      exists ds'. split; [assumption|]. split; [|split; [assumption|]].
      + rewrite H2, concat_map_concat, partition_all_pa, pa_concat by lia. reflexivity.
      + intros Hne. apply H4. rewrite partition_all_pa.
        pose proof (pa_nonempty (Z.to_nat k) ds ltac:(lia) Hne). destruct (pa (Z.to_nat k) ds); [congruence | cbn; congruence].
  Qed.

  (* the statement of C18_tree_1d_hom *)
  Theorem tree_reduce_1d_hom k depth (blocks : list B) :
    2 <= k -> 1 <= depth -> blocks <> [] -> Z.of_nat (length blocks) <= k ^ depth ->
    tree_reduce_1d r k depth blocks = [spec (concat (map phi blocks))].
  Proof.
    intros Hk Hd Hb Hlen. unfold tree_reduce_1d.
    destruct Hhom as (Hchunk & Hc & Hagg).
    rewrite (map_ext _ (fun b => h (phi b)) Hchunk), <- map_map.
    destruct (hom_iter k (Z.to_nat (depth - 1)) ltac:(lia) (map phi blocks)) as (ds' & H1 & H2 & H3 & H4).
    rewrite H1. unfold tree_level. rewrite partition_all_pa.
    assert (ds' <> []) as Hne by (apply H4; destruct blocks; [congruence | cbn; congruence]).
    assert (Z.of_nat (length ds') <= k) as Hk'.
    { rewrite H3, tree_iter_length, !map_length by lia.
      apply iter_cdiv_le_k; [lia| |].
      - destruct blocks; [congruence | cbn [length]; lia].
      - replace (Z.of_nat (Z.to_nat (depth - 1)) + 1) with depth by lia. assumption. }
    rewrite pa_single; [| lia | destruct ds'; [congruence | cbn; congruence] | rewrite map_length; lia].
    cbn [map]. rewrite Hagg by assumption. rewrite H2. reflexivity.
  Qed.
End Hom.
