(* Proofs about the model of auto_chunks' previous_chunks branch (AutoPrev.v), part 2:
   TERMINATION of `while multiplier_remaining:`.

     prev_loop_grow_terminates     multiplier >= 1 initially (result is a fresh dict): for ALL oracle values the
                                   loop ends within (number of 'auto' axes + 1) passes
     prev_loop_nan_never_exits     multiplier < 1 initially (result IS median_chunks): when the proposals are NaN
                                   and an axis is still in `autos`, no pass ever ends the loop (NaN != NaN)
     prev_loop_sane_terminates     (AutoPrevTerm2.v) the same case with sane proposals: a stated bound suffices *)
From DA Require Import PyBase PyBaseFacts NormChunks NormChunksFacts AutoPrev AutoPrevFacts.
From Coq Require Import ZifyBool.
Open Scope Z_scope.
Ltac Zify.zify_post_hook ::= Z.to_euclidean_division_equations.

(* ---------------------------------------------------------------------- *)
(* `autos` only shrinks, and multiplier_remaining is set by the axis loop exactly when it shrinks *)

Lemma axis_step_auto reduce c o x x' f k :
  axis_step reduce c o x = (x', f, k) -> ax_auto x = true ->
  (ax_auto x' = true /\ f = false /\ k = 1) \/ (ax_auto x' = false /\ f = true).
Proof.
  unfold axis_step. destruct o as [p mcs]. intros H Ha.
  destruct (f_gt_z p (c_n c)).
  - injection H as <- <- _. right. destruct reduce; auto.
  - destruct (reduce || z_gt_f (max_of (c_pv c)) mcs).
    + destruct (f_lt_z p 1); injection H as <- <- <-.
      * right. auto.
      * left. unfold set_res. destruct reduce; cbn; auto.
    + injection H as <- <- <-. left. unfold set_res. destruct reduce; cbn; auto.
Qed.

Lemma n_autos_cons x xs : n_autos (x :: xs) = if ax_auto x then S (n_autos xs) else n_autos xs.
Proof. unfold n_autos. cbn [filter]. destruct (ax_auto x); reflexivity. Qed.

Lemma round_axes_autos reduce cs : forall a o xs xs' f k,
  round_axes reduce cs a o xs = (xs', f, k) -> length cs = length xs ->
  (n_autos xs' <= n_autos xs)%nat /\ (f = true -> (n_autos xs' < n_autos xs)%nat) /\
  (f = false -> k = 1 /\ map ax_auto xs' = map ax_auto xs).
Proof.
  induction cs as [|c cs IH]; intros a o [|x xs] xs' f k H Hl; cbn [round_axes] in H; cbn in Hl; try lia.
  - injection H as <- <- <-. repeat split; auto; discriminate.
  - destruct (round_axes reduce cs (S a) o xs) as [[xs2 f2] k2] eqn:Hr.
    destruct (IH _ _ _ _ _ _ Hr ltac:(lia)) as (I1 & I2 & I3).
    destruct (ax_auto x) eqn:Ea.
    + destruct (axis_step reduce c (o a) x) as [[x1 f1] k1] eqn:Hs.
      injection H as <- <- <-. rewrite !n_autos_cons, Ea.
      destruct (axis_step_auto _ _ _ _ _ _ _ Hs Ea) as [(A1 & -> & ->) | (A1 & ->)]; rewrite A1; cbn [orb].
      * split; [lia|]. split; [intros Hf; specialize (I2 Hf); lia|].
        intros Hf. destruct (I3 Hf) as [-> E]. split; [reflexivity|]. cbn [map]. rewrite A1, Ea, E. reflexivity.
      * split; [lia|]. split; [intros _; lia|discriminate].
    + injection H as <- <- <-. rewrite !n_autos_cons, Ea. cbn [orb].
      split; [lia|]. split; [exact I2|].
      intros Hf. destruct (I3 Hf) as [-> E]. split; [reflexivity|]. cbn [map]. rewrite E. reflexivity.
Qed.

(* ---------------------------------------------------------------------- *)
(* (c1) the growing case: for all oracle values *)

Lemma prev_round_grow limit itemsize cs o st st' :
  prev_round false limit itemsize cs o st = Ok (st', true) -> length cs = length (ls_axes st) ->
  (n_autos (ls_axes st') < n_autos (ls_axes st))%nat /\ length (ls_axes st') = length (ls_axes st).
Proof.
  unfold prev_round. intros H Hl.
  destruct (round_axes false cs 0 o (ls_axes st)) as [[xs f] k] eqn:Hr.
  destruct (round_axes_autos _ _ _ _ _ _ _ _ Hr Hl) as (_ & I2 & _).
  pose proof (round_axes_length _ _ _ _ _ _ _ _ Hr Hl) as Hlen.
  rewrite orb_false_r in H. destruct f.
  - destruct (compute_multiplier limit itemsize (ls_lb st * k) (map ax_med xs)); [|discriminate].
    injection H as <-. cbn [ls_axes]. auto.
  - discriminate.
Qed.

Theorem prev_loop_grow_terminates : forall fuel limit itemsize cs orc r st,
  length cs = length (ls_axes st) ->
  (n_autos (ls_axes st) < fuel)%nat ->
  prev_loop fuel false limit itemsize cs orc r st <> LFuel.
Proof.
  induction fuel as [|f IH]; intros limit itemsize cs orc r st Hl Hn; [lia|].
  cbn [prev_loop].
  destruct (prev_round false limit itemsize cs (orc r) st) as [[st1 [|]]|] eqn:Hr; try discriminate.
  destruct (prev_round_grow _ _ _ _ _ _ Hr Hl) as [H1 H2].
  apply IH; lia.
Qed.

Lemma init_axes_autos specs : forall pvs, (n_autos (init_axes specs pvs) <= length (filter is_auto specs))%nat.
Proof.
  unfold init_axes. induction specs as [|sp specs IH]; intros pvs; [cbn; lia|].
  destruct pvs as [|pv pvs]; [cbn; lia|]. cbn [combine map fst snd filter]. rewrite n_autos_cons.
  specialize (IH pvs). destruct (is_auto sp); cbn [ax_auto length]; lia.
Qed.

(* at the level of auto_chunks: if the first multiplier is >= 1 the loop needs at most #autos + 1 passes *)
Theorem auto_chunks_prev_grow_terminates : forall orc fuel limit itemsize specs shape pvs m,
  length specs = length shape ->
  initial_multiplier limit itemsize specs pvs = Ok m -> f_lt_z m 1 = false ->
  (length (filter is_auto specs) < fuel)%nat ->
  auto_chunks_prev orc fuel limit itemsize specs shape pvs <> AFuel.
Proof.
  intros orc fuel limit itemsize specs shape pvs m Hlen Hm Hred Hfuel. unfold auto_chunks_prev, loop_start.
  rewrite Hm, Hred.
  destruct (ideals_of pvs shape) as [ids|] eqn:Hi; [|discriminate].
  destruct (ideals_of_length _ _ _ Hi) as [Li Lp].
  destruct (prev_loop fuel false (Z.max 1 limit) itemsize (mk_consts shape pvs ids) orc 0
              (mkls (init_axes specs pvs) (largest_fixed specs) m)) as [st| |] eqn:Hl; try discriminate.
  - destruct (final_specs false specs (ls_axes st)); discriminate.
  - exfalso. revert Hl. apply prev_loop_grow_terminates; cbn [ls_axes].
    + rewrite mk_consts_length, init_axes_length; lia.
    + pose proof (init_axes_autos specs pvs). lia.
Qed.

(* ---------------------------------------------------------------------- *)
(* (c, refuted side) NaN proposals in the shrinking case *)

Lemma fmul_nan_r x : fmul x FNan = FNan.
Proof. destruct x; reflexivity. Qed.

Definition has_nan_med (xs : list axst) : Prop := exists x, In x xs /\ ax_med x = Some (VNum FNan).

Lemma med_prod_nan xs : has_nan_med xs -> med_prod (map ax_med xs) = FNan.
Proof.
  intros (x & Hin & Hx). induction xs as [|y xs IH]; [destruct Hin|].
  cbn [map med_prod fold_right]. destruct Hin as [->|Hin].
  - rewrite Hx. cbn [dv_factor]. reflexivity.
  - fold (med_prod (map ax_med xs)). rewrite (IH Hin).
    destruct (ax_med y) as [v|]; [|reflexivity]. destruct (dv_factor v); [apply fmul_nan_r|reflexivity].
Qed.

(* one pass with all-NaN proposals, result = median_chunks: every axis of `autos` stays in `autos`, its
   dict entry becomes NaN, nothing is flagged, largest_block keeps its value *)
Lemma round_axes_nan cs : forall a o xs xs' f k,
  (forall a', o a' = (FNan, FNan)) ->
  round_axes true cs a o xs = (xs', f, k) -> length cs = length xs ->
  f = false /\ k = 1 /\ map ax_auto xs' = map ax_auto xs /\
  (forall x', In x' xs' -> ax_auto x' = true -> ax_med x' = Some (VNum FNan)).
Proof.
  induction cs as [|c cs IH]; intros a o [|x xs] xs' f k Ho H Hl; cbn [round_axes] in H; cbn in Hl; try lia.
  - injection H as <- <- <-. repeat split; auto. intros x' [].
  - destruct (round_axes true cs (S a) o xs) as [[xs2 f2] k2] eqn:Hr.
    destruct (IH _ _ _ _ _ _ Ho Hr ltac:(lia)) as (-> & -> & E & Hnan).
    destruct (ax_auto x) eqn:Ea.
    + rewrite Ho in H. cbn in H. injection H as <- <- <-. cbn [map ax_auto]. rewrite Ea, E.
      repeat split; auto.
      intros x' [<-|Hin] Hx'; [reflexivity|auto].
    + injection H as <- <- <-. cbn [map]. rewrite E.
      repeat split; auto.
      intros x' [<-|Hin] Hx'; [congruence|auto].
Qed.

Lemma n_autos_map xs xs' : map ax_auto xs' = map ax_auto xs -> n_autos xs' = n_autos xs.
Proof.
  revert xs'. induction xs as [|x xs IH]; intros [|x' xs'] H; cbn [map] in H; try discriminate; [reflexivity|].
  injection H as H1 H2. rewrite !n_autos_cons, H1, (IH _ H2). reflexivity.
Qed.

Lemma n_autos_pos_In xs : (0 < n_autos xs)%nat -> exists x, In x xs /\ ax_auto x = true.
Proof.
  induction xs as [|x xs IH]; [cbn; lia|]. rewrite n_autos_cons. destruct (ax_auto x) eqn:E.
  - intros _. exists x. split; [left; reflexivity|exact E].
  - intros H. destruct (IH H) as (y & Hy & Ey). exists y. split; [right; exact Hy|exact Ey].
Qed.

Theorem prev_loop_nan_never_exits : forall fuel limit itemsize cs orc r st,
  (forall r' a, orc r' a = (FNan, FNan)) ->
  length cs = length (ls_axes st) ->
  (0 < n_autos (ls_axes st))%nat ->
  forall st', prev_loop fuel true limit itemsize cs orc r st <> LDone st'.
Proof.
  induction fuel as [|f IH]; intros limit itemsize cs orc r st Ho Hl Hn st'; [discriminate|].
  cbn [prev_loop]. unfold prev_round.
  destruct (round_axes true cs 0 (orc r) (ls_axes st)) as [[xs fl] k] eqn:Hr.
  destruct (round_axes_nan _ _ _ _ _ _ _ (Ho r) Hr Hl) as (-> & -> & E & Hnan).
  pose proof (round_axes_length _ _ _ _ _ _ _ _ Hr Hl) as Hlen.
  cbn [orb].
  assert (med_prod (map ax_med xs) = FNan) as Hp.
  { apply med_prod_nan. pose proof (n_autos_map _ _ E) as En.
    destruct (n_autos_pos_In xs ltac:(lia)) as (x & Hin & Hx). exists x. auto. }
  unfold compute_multiplier. rewrite Hp.
  destruct ((itemsize =? 0) || (ls_lb st * 1 =? 0)); [discriminate|].
  cbn [f_ne orb]. apply IH; cbn [ls_axes]; [exact Ho|lia|]. rewrite (n_autos_map _ _ E). exact Hn.
Qed.
