(* L2 — model of dask_array/io/_store.py (store, load_store_chunk, load_chunk) and of the
   npy-stack writer/reader (io/_to_npy_stack.py, io/_from_npy_stack.py).
   Definitions only; each definition names the Python it transcribes.  Proofs: StoreFacts.v.

   One axis at a time (an N-d store is the product of its axes: the index tuple of a block
   is computed entry by entry by fuse_slice's tuple loop, see [store_index_nd]).  A 1-d
   target is the list of its cells; a 1-d source is the list of its values together with
   its chunk sizes. *)
From DA Require Export PyBase Slicing.
Open Scope Z_scope.

(* ---------------------------------------------------------------------- *)
(* dask.layers.ArraySliceDep(chunks)[b], one axis:
     starts = cached_cumsum(chunks, initial_zero=True);  slice(starts[b], starts[b+1], None) *)
Fixpoint block_slices_from (off : Z) (cs : list Z) : list pslice :=
  match cs with
  | [] => []
  | c :: t => mkslice (Some off) (Some (off + c)) None :: block_slices_from (off + c) t
  end.
Definition block_slices (cs : list Z) : list pslice := block_slices_from 0 cs.

(* load_store_chunk, the index computation, one axis:
     if region:  index = fuse_slice(region, index) if index else region
   None = fuse_slice raises NotImplementedError (negative start/stop/step). *)
Definition store_index (region : option pslice) (index : pslice) : option pslice :=
  match region with
  | None => Some index
  | Some r => fuse_slice_ss r index
  end.

(* The same on whole index tuples.  `if region:` / `if index:` are tuple truthiness:
   regions=None and regions=() leave the block index alone, a 0-d source (index = ())
   is written at `region` itself. *)
Definition store_index_nd (region : option (list pidx)) (index : list pidx) : option (list pidx) :=
  match region with
  | None => Some index
  | Some [] => Some index
  | Some r => match index with
              | [] => Some r
              | _ => fuse_tuple r index
              end
  end.

(* per-axis view of the tuple loop when region and index have one slice per axis *)
Fixpoint store_index_axes (rs : list (option pslice)) (bss : list pslice) : option (list pslice) :=
  match rs, bss with
  | [], [] => Some []
  | r :: rs', b :: bss' =>
      match store_index r b, store_index_axes rs' bss' with
      | Some i, Some t => Some (i :: t)
      | _, _ => None
      end
  | _, _ => None
  end.

(* the write index of every block of an axis, in block order *)
Fixpoint write_indices_of (region : option pslice) (bss : list pslice) : option (list pslice) :=
  match bss with
  | [] => Some []
  | b :: t =>
      match store_index region b, write_indices_of region t with
      | Some i, Some r => Some (i :: r)
      | _, _ => None
      end
  end.
Definition write_indices (region : option pslice) (cs : list Z) : option (list pslice) :=
  write_indices_of region (block_slices cs).

(* outcome of a task / of the whole store *)
Inductive sres (A : Type) : Type :=
| SOk (a : A)
| SNotImpl          (* NotImplementedError from fuse_slice *)
| SValueErr.        (* ValueError from the target's __setitem__ (shape mismatch, zero step) *)
Arguments SOk {A} a.
Arguments SNotImpl {A}.
Arguments SValueErr {A}.

Section Cells.
Context {V : Type}.

Fixpoint set_nth (l : list V) (i : nat) (v : V) : list V :=
  match l, i with
  | [], _ => []
  | _ :: t, O => v :: t
  | h :: t, S i' => h :: set_nth t i' v
  end.

(* out[ps[k]] = xs[k], k = 0, 1, ... *)
Fixpoint assign (out : list V) (ps : list Z) (xs : list V) : list V :=
  match ps, xs with
  | p :: ps', x :: xs' => assign (set_nth out (Z.to_nat p) x) ps' xs'
  | _, _ => out
  end.

(* NumPy  out[index] = x  for 1-d out and x, index a slice: the selected positions
   receive x element by element; a length-1 x is broadcast (also onto an EMPTY selection);
   any other length mismatch and a zero step raise ValueError (None). *)
Definition np_setitem (out : list V) (index : pslice) (x : list V) : option (list V) :=
  if step_of index =? 0 then None
  else
    let ps := sel index (lenZ out) in
    if lenZ x =? lenZ ps then Some (assign out ps x)
    else match x with
         | [v] => Some (assign out ps (repeat v (length ps)))
         | _ => None
         end.

(* NumPy  out[index]  *)
Definition np_getitem (d : V) (out : list V) (index : pslice) : option (list V) :=
  if step_of index =? 0 then None
  else Some (map (fun p => nth (Z.to_nat p) out d) (sel index (lenZ out))).

(* load_store_chunk(x, out, index, region, lock, return_stored, load_stored): the write.
   Order of the Python: fuse first (may raise), then the `x.size != 0` guard, then
   out[index] = x.  The lock only brackets the write. *)
Definition store_chunk (region : option pslice) (out : list V) (index : pslice) (x : list V)
  : sres (list V) :=
  match store_index region index with
  | None => SNotImpl
  | Some idx =>
      if lenZ x =? 0 then SOk out
      else match np_setitem out idx x with
           | Some o => SOk o
           | None => SValueErr
           end
  end.

(* load_chunk(out, index, lock, region) = load_store_chunk(None, out, index, region, lock,
   True, True): returns out[fused index].  The same expression is what load_store_chunk
   returns after its write when return_stored and load_stored are both set. *)
Definition load_chunk (d : V) (region : option pslice) (out : list V) (index : pslice)
  : sres (list V) :=
  match store_index region index with
  | None => SNotImpl
  | Some idx => match np_getitem d out idx with
                | Some r => SOk r
                | None => SValueErr
                end
  end.

(* the blocks of a 1-d array with chunk sizes cs *)
Fixpoint split_chunks (cs : list Z) (l : list V) : list (list V) :=
  match cs with
  | [] => []
  | c :: t => firstnZ c l :: split_chunks t (skipnZ c l)
  end.

(* store(): one load_store_chunk task per block, map_blocks(load_store_chunk, s, t,
   ArraySliceDep(s.chunks), region=r, ...).  A task = (block slice, block). *)
Definition store_tasks (cs : list Z) (src : list V) : list (pslice * list V) :=
  combine (block_slices cs) (split_chunks cs src).

(* running the tasks in the given order against one target *)
Fixpoint store_blocks (region : option pslice) (tasks : list (pslice * list V)) (out : list V)
  : sres (list V) :=
  match tasks with
  | [] => SOk out
  | (index, x) :: t =>
      match store_chunk region out index x with
      | SOk o => store_blocks region t o
      | SNotImpl => SNotImpl
      | SValueErr => SValueErr
      end
  end.

Definition store_axis (region : option pslice) (cs : list Z) (src out : list V) : sres (list V) :=
  store_blocks region (store_tasks cs src) out.

(* store(..., return_stored=True): the blocks of the returned array, read after the store *)
Definition load_stored (d : V) (region : option pslice) (cs : list Z) (out : list V)
  : list (sres (list V)) :=
  map (load_chunk d region out) (block_slices cs).

End Cells.

(* ---------------------------------------------------------------------- *)
(* to_npy_stack:  chunks = tuple((c if i == axis else (sum(c),)) for i, c in enumerate(x.chunks))
   — the layout written to `info` and the chunks of from_npy_stack's result.  File i.npy is
   block i of the rechunked array, i.e. [split_chunks (chunks[axis])] along the axis. *)
Fixpoint npy_stack_chunks_from (i axis : Z) (chunks : list (list Z)) : list (list Z) :=
  match chunks with
  | [] => []
  | c :: t => (if i =? axis then c else [zsum c]) :: npy_stack_chunks_from (i + 1) axis t
  end.
Definition npy_stack_chunks (axis : Z) (chunks : list (list Z)) : list (list Z) :=
  npy_stack_chunks_from 0 axis chunks.

(* number of .npy files from_npy_stack reads: len(chunks[axis]) with Python indexing;
   None = IndexError *)
Definition npy_stack_nfiles (axis : Z) (stack_chunks : list (list Z)) : option Z :=
  let n := lenZ stack_chunks in
  let a := if axis <? 0 then axis + n else axis in
  if (0 <=? a) && (a <? n) then Some (lenZ (nth (Z.to_nat a) stack_chunks [])) else None.

(* ---------------------------------------------------------------------- *)
(* Specification side. *)

(* the positions a region designates on a target axis of length N *)
Definition region_slice (region : option pslice) : pslice :=
  match region with None => colon | Some r => r end.
Definition rsel (region : option pslice) (N : Z) : list Z := sel (region_slice region) N.

(* regions fuse_slice supports: no negative field; and a non-zero step *)
Definition slice_okb (s : pslice) : bool :=
  match normalize_slice_for_fusion s with
  | Some (_, _, k) => negb (k =? 0)
  | None => false
  end.
Definition region_okb (region : option pslice) : bool :=
  match region with None => true | Some r => slice_okb r end.

(* the documented precondition `target[region].shape == source.shape`, in the weaker
   form the code actually needs: the region designates at least len(source) cells *)
Definition region_fits (region : option pslice) (n N : Z) : bool :=
  n <=? slice_len (region_slice region) N.

(* ---------------------------------------------------------------------- *)
(* --- N-d specification side --- *)
(* cartesian product of per-axis lists, first axis slowest (C order) *)
Fixpoint cart {A} (ls : list (list A)) : list (list A) :=
  match ls with
  | [] => [[]]
  | l :: t => flat_map (fun x => map (cons x) (cart t)) l
  end.

(* positions selected on each axis by an index tuple of slices *)
Fixpoint sels_of (idxs : list pslice) (Ns : list Z) : list (list Z) :=
  match idxs, Ns with
  | i :: t, N :: Ns' => sel i N :: sels_of t Ns'
  | _, _ => []
  end.

Fixpoint all_some {A} (l : list (option A)) : option (list A) :=
  match l with
  | [] => Some []
  | Some x :: t => match all_some t with Some r => Some (x :: r) | None => None end
  | None :: _ => None
  end.

(* the write index tuple of every block of an N-d source (blocks in C order), one region
   entry per axis *)
Definition write_indices_nd (regions : list (option pslice)) (chunks : list (list Z))
  : option (list (list pslice)) :=
  all_some (map (store_index_axes regions) (cart (map block_slices chunks))).

(* per axis: the first n positions the region designates *)
Fixpoint designated (regions : list (option pslice)) (ns Ns : list Z) : list (list Z) :=
  match regions, ns, Ns with
  | r :: rs, n :: ns', N :: Ns' => firstnZ n (rsel r N) :: designated rs ns' Ns'
  | _, _, _ => []
  end.

(* ---------------------------------------------------------------------- *)
(* N-d outcome of a store (used by the correspondence for error behaviour): which
   exception, if any, and whether every non-empty block was written one cell per value. *)
Inductive outcome := OExact | OInexact | ONotImpl | OValueErr | OIndexErr.

Definition outcome_eqb (a b : outcome) : bool :=
  match a, b with
  | OExact, OExact | OInexact, OInexact | ONotImpl, ONotImpl
  | OValueErr, OValueErr | OIndexErr, OIndexErr => true
  | _, _ => false
  end.

(* shape of out[idx] for a basic index tuple on a target of shape Ns.
   inl = the shape, inr true = ValueError (zero step), inr false = IndexError *)
Fixpoint index_shape (idx : list pidx) (Ns : list Z) : list Z + bool :=
  match idx with
  | [] => inl Ns
  | INone :: t => match index_shape t Ns with inl s => inl (1 :: s) | e => e end
  | IInt i :: t =>
      match Ns with
      | [] => inr false
      | n :: ns => if check_int n i then index_shape t ns else inr false
      end
  | ISlice s :: t =>
      match Ns with
      | [] => inr false
      | n :: ns =>
          if step_of s =? 0 then inr true
          else match index_shape t ns with inl sh => inl (slice_len s n :: sh) | e => e end
      end
  end.

(* NumPy assignment broadcasting of a value of shape xs into a destination of shape ls;
   both given reversed (trailing axis first) *)
Fixpoint bcast_rev (xs ls : list Z) : bool :=
  match xs, ls with
  | [], _ => true
  | x :: xs', [] => (x =? 1) && bcast_rev xs' []
  | x :: xs', l :: ls' => ((x =? l) || (x =? 1)) && bcast_rev xs' ls'
  end.

Fixpoint zprod (l : list Z) : Z := match l with [] => 1 | x :: t => x * zprod t end.

Definition block_len (s : pslice) : Z :=
  match s_start s, s_stop s with Some a, Some b => b - a | _, _ => 0 end.

Definition store_chunk_outcome (region : option (list pidx)) (Ns : list Z) (index : list pslice) : outcome :=
  match store_index_nd region (map ISlice index) with
  | None => ONotImpl
  | Some idx =>
      let xs := map block_len index in
      if existsb (Z.eqb 0) xs then OExact
      else match index_shape idx Ns with
           | inr true => OValueErr
           | inr false => OIndexErr
           | inl ls =>
               if bcast_rev (rev xs) (rev ls)
               then (if zprod xs =? zprod ls then OExact else OInexact)
               else OValueErr
           end
  end.

(* the whole store: the first failing block in C order decides the exception class (all
   classes are order-independent: NotImplemented depends on the region only) *)
Fixpoint combine_outcomes (l : list outcome) : outcome :=
  match l with
  | [] => OExact
  | OExact :: t => combine_outcomes t
  | OInexact :: t => match combine_outcomes t with OExact => OInexact | o => o end
  | e :: _ => e
  end.

Definition store_outcome (region : option (list pidx)) (Ns : list Z) (chunks : list (list Z)) : outcome :=
  combine_outcomes (map (store_chunk_outcome region Ns) (cart (map block_slices chunks))).

(* return_stored=True: every block (empty ones included) is additionally read back as
   out[index] — by load_store_chunk itself (load_stored) or by load_chunk *)
Definition load_chunk_outcome (region : option (list pidx)) (Ns : list Z) (index : list pslice) : outcome :=
  match store_index_nd region (map ISlice index) with
  | None => ONotImpl
  | Some idx => match index_shape idx Ns with
                | inr true => OValueErr
                | inr false => OIndexErr
                | inl _ => OExact
                end
  end.

Definition store_outcome_rs (return_stored : bool) (region : option (list pidx)) (Ns : list Z)
           (chunks : list (list Z)) : outcome :=
  let blocks := cart (map block_slices chunks) in
  combine_outcomes (map (store_chunk_outcome region Ns) blocks ++
                    (if return_stored then map (load_chunk_outcome region Ns) blocks else [])).
