(* Facts about the unknown-chunk-size models of UnknownChunks.v (property C28). *)
From DA Require Import PyBase PyBaseFacts Slicing Rechunk RechunkBase Unify UnifyFacts FuseFacts UnknownChunks.
From Coq Require Import ZifyBool.
Open Scope Z_scope.

Ltac Zify.zify_post_hook ::= Z.to_euclidean_division_equations.

(* ------------------------------------------------------------------ *)
(* generic list lemmas *)
Lemma forallb_combine_Forall2 {A B} (f : A -> B -> bool) : forall a b,
  length a = length b ->
  (forallb (fun p => f (fst p) (snd p)) (combine a b) = true <-> Forall2 (fun x y => f x y = true) a b).
Proof.
  induction a as [|x a IH]; intros [|y b] Hl; cbn [length] in Hl; try discriminate.
  - cbn. split; [constructor|reflexivity].
  - cbn [combine forallb fst snd]. rewrite andb_true_iff, IH by lia. split.
    + intros [H1 H2]. constructor; assumption.
    + intros H. inversion H; subst. split; assumption.
Qed.

Lemma Forall2_impl {A B} (R S : A -> B -> Prop) a b :
  (forall x y, R x y -> S x y) -> Forall2 R a b -> Forall2 S a b.
Proof. intros H F. induction F; constructor; auto. Qed.

Lemma Forall2_iff {A B} (R S : A -> B -> Prop) a b :
  (forall x y, R x y <-> S x y) -> (Forall2 R a b <-> Forall2 S a b).
Proof. intros H. split; apply Forall2_impl; intros x y; apply H. Qed.

Lemma Forall2_length' {A B} (R : A -> B -> Prop) a b : Forall2 R a b -> length a = length b.
Proof. intros F. induction F; cbn; congruence. Qed.

Lemma Forall2_compose {A B C} (R : A -> B -> Prop) (S : A -> C -> Prop) (T : B -> C -> Prop) :
  (forall x y z, R x y -> S x z -> T y z) ->
  forall a b c, Forall2 R a b -> Forall2 S a c -> Forall2 T b c.
Proof.
  intros H a b c F. revert c. induction F as [|x y a b Hxy F IH]; intros c G; inversion G; subst; constructor.
  - eapply H; eassumption.
  - apply IH. assumption.
Qed.

Lemma Forall2_nth_error {A B} (R : A -> B -> Prop) a b :
  Forall2 R a b -> forall k x y, nth_error a k = Some x -> nth_error b k = Some y -> R x y.
Proof.
  intros F. induction F as [|x0 y0 a b H0 F IH]; intros [|k] x y Hx Hy; cbn in Hx, Hy; try discriminate.
  - injection Hx as <-. injection Hy as <-. exact H0.
  - eapply IH; eassumption.
Qed.

Lemma In_combine_nth_error {A B} (x : A) (y : B) : forall a b,
  In (x, y) (combine a b) <-> exists k, nth_error a k = Some x /\ nth_error b k = Some y.
Proof.
  induction a as [|x0 a IH]; intros [|y0 b]; cbn [combine In].
  - split; [intros []|intros ([|k] & H & _); discriminate].
  - split; [intros []|intros ([|k] & H & _); discriminate].
  - split; [intros []|intros ([|k] & _ & H); discriminate].
  - rewrite IH. split.
    + intros [H|(k & H1 & H2)].
      * injection H as <- <-. exists 0%nat. split; reflexivity.
      * exists (S k). split; assumption.
    + intros ([|k] & H1 & H2); cbn in H1, H2.
      * left. congruence.
      * right. exists k. split; assumption.
Qed.

(* ------------------------------------------------------------------ *)
(* int-or-nan arithmetic *)
Lemma ochunks_eqb_eq a b : ochunks_eqb a b = true <-> a = b.
Proof. apply list_eqb_eq. apply oZ_eqb_eq. Qed.

Lemma ochunks_eqb_refl a : ochunks_eqb a a = true.
Proof. apply ochunks_eqb_eq. reflexivity. Qed.

Theorem chunks_match_eq a b : chunks_match a b = true <-> a = b.
Proof. apply list_eqb_eq. apply ochunks_eqb_eq. Qed.

Lemma has_nan_map_Some l : has_nan (map Some l) = false.
Proof. induction l as [|x l IH]; [reflexivity|]. cbn. exact IH. Qed.

Lemma oknown_map_Some l : oknown (map Some l) = Some l.
Proof. induction l as [|x l IH]; [reflexivity|]. cbn [map oknown]. rewrite IH. reflexivity. Qed.

Lemma oknown_spec d l : oknown d = Some l <-> d = map Some l.
Proof.
  split; [|intros ->; apply oknown_map_Some].
  revert l. induction d as [|[c|] d IH]; intros l H; cbn [oknown] in H.
  - injection H as <-. reflexivity.
  - destruct (oknown d) as [r|] eqn:E; cbn in H; [|discriminate]. injection H as <-.
    cbn [map]. f_equal. apply IH. reflexivity.
  - discriminate.
Qed.

Lemma has_nan_false_known d : has_nan d = false -> exists l, d = map Some l.
Proof.
  induction d as [|[c|] d IH]; intros H.
  - exists []. reflexivity.
  - cbn in H. destruct (IH H) as [l ->]. exists (c :: l). reflexivity.
  - discriminate.
Qed.

Lemma has_nan_false_iff d : has_nan d = false <-> exists l, d = map Some l.
Proof. split; [apply has_nan_false_known|intros [l ->]; apply has_nan_map_Some]. Qed.

Lemma oknown_none d : oknown d = None <-> has_nan d = true.
Proof.
  split; intros H.
  - destruct (has_nan d) eqn:E; [reflexivity|].
    apply has_nan_false_known in E as [l ->]. rewrite oknown_map_Some in H. discriminate.
  - destruct (oknown d) as [l|] eqn:E; [|reflexivity].
    apply oknown_spec in E. subst d. rewrite has_nan_map_Some in H. discriminate.
Qed.

Lemma osum_map_Some l : osum (map Some l) = Some (zsum l).
Proof. induction l as [|x l IH]; [reflexivity|]. cbn [map osum zsum]. rewrite IH. reflexivity. Qed.

Lemma osum_has_nan d : has_nan d = true -> osum d = None.
Proof.
  induction d as [|[c|] d IH]; intros H; cbn in H; [discriminate| |reflexivity].
  cbn [osum]. rewrite (IH H). reflexivity.
Qed.

(* np.isnan(sum(d)) is any(isnan(c) for c in d) *)
Theorem is_nan_osum d : is_nan (osum d) = has_nan d.
Proof.
  destruct (has_nan d) eqn:E.
  - rewrite (osum_has_nan d E). reflexivity.
  - apply has_nan_false_known in E as [l ->]. rewrite osum_map_Some. reflexivity.
Qed.

Lemma filter_ext_in' {A} (f g : A -> bool) l : (forall x, f x = g x) -> filter f l = filter g l.
Proof. intros H. induction l as [|x l IH]; [reflexivity|]. cbn. rewrite H, IH. reflexivity. Qed.

(* ------------------------------------------------------------------ *)
(* known_sound *)
Lemma known_sound_b_spec adv tr : known_sound_b adv tr = true <-> known_sound adv tr.
Proof.
  unfold known_sound. revert tr. induction adv as [|a adv IH]; intros [|t tr]; cbn [known_sound_b].
  - split; [constructor|reflexivity].
  - split; [discriminate|intros H; inversion H].
  - split; [discriminate|intros H; inversion H].
  - rewrite andb_true_iff, IH. split.
    + intros [H1 H2]. constructor; [|exact H2]. destruct a as [x|]; [right; f_equal; lia|left; reflexivity].
    + intros H. inversion H as [|? ? ? ? Ha Hr]; subst. split; [|exact Hr].
      destruct Ha as [-> | ->]; [reflexivity|lia].
Qed.

Lemma known_soundN_b_spec adv tr : known_soundN_b adv tr = true <-> known_soundN adv tr.
Proof.
  unfold known_soundN. revert tr. induction adv as [|a adv IH]; intros [|t tr]; cbn [known_soundN_b].
  - split; [constructor|reflexivity].
  - split; [discriminate|intros H; inversion H].
  - split; [discriminate|intros H; inversion H].
  - rewrite andb_true_iff, IH, known_sound_b_spec. split.
    + intros [H1 H2]. constructor; assumption.
    + intros H. inversion H; subst. split; assumption.
Qed.

(* a fully known layout is sound iff it IS the true layout *)
Lemma known_sound_known l tr : known_sound (map Some l) tr <-> l = tr.
Proof.
  unfold known_sound. revert tr. induction l as [|x l IH]; intros [|t tr]; cbn [map].
  - split; [reflexivity|constructor].
  - split; [intros H; inversion H|discriminate].
  - split; [intros H; inversion H|discriminate].
  - split.
    + intros H. inversion H as [|? ? ? ? Ha Hr]; subst. apply IH in Hr. subst.
      destruct Ha as [Ha|Ha]; [discriminate|]. injection Ha as ->. reflexivity.
    + intros H. injection H as -> ->. constructor; [right; reflexivity|]. apply IH. reflexivity.
Qed.

Lemma known_sound_length adv tr : known_sound adv tr -> length adv = length tr.
Proof. apply Forall2_length'. Qed.

(* ------------------------------------------------------------------ *)
(* _validate_rechunk *)
Lemma validate_axis_spec od nd :
  validate_axis od nd = true <-> (if has_nan od || has_nan nd then od = nd else osum od = osum nd).
Proof.
  unfold validate_axis.
  destruct (has_nan od) eqn:Eo; cbn [orb].
  - rewrite (osum_has_nan od Eo). cbn [py_eq is_nan andb]. rewrite is_nan_osum. split.
    + intros H. apply andb_true_iff in H as [_ H]. apply ochunks_eqb_eq. exact H.
    + intros <-. rewrite Eo. apply ochunks_eqb_refl.
  - destruct (has_nan nd) eqn:En.
    + rewrite (osum_has_nan nd En). apply has_nan_false_known in Eo as [o ->].
      rewrite osum_map_Some. cbn [py_eq is_nan andb]. split; [discriminate|].
      intros H. rewrite <- H, has_nan_map_Some in En. discriminate.
    + apply has_nan_false_known in Eo as [o ->]. apply has_nan_false_known in En as [n ->].
      rewrite !osum_map_Some. cbn [py_eq is_nan andb].
      destruct (zsum o =? zsum n) eqn:E; split; intros H; try reflexivity; try discriminate.
      * f_equal. lia.
      * injection H as H. lia.
Qed.

Theorem validate_rechunk_accepts old new :
  validate_rechunk old new = Proceed tt <->
  Forall2 (fun od nd => if has_nan od || has_nan nd then od = nd else osum od = osum nd) old new.
Proof.
  unfold validate_rechunk. destruct (Nat.eqb (length old) (length new)) eqn:El; cbn [negb].
  - apply Nat.eqb_eq in El.
    rewrite <- (Forall2_iff _ _ old new validate_axis_spec).
    rewrite <- (forallb_combine_Forall2 validate_axis old new El).
    destruct (forallb _ _); split; intros H; try reflexivity; discriminate.
  - apply Nat.eqb_neq in El. split; [discriminate|].
    intros F. apply Forall2_length' in F. contradiction.
Qed.

Theorem validate_rechunk_assertion old new :
  validate_rechunk old new = Refuse AssertionError <-> length old <> length new.
Proof.
  unfold validate_rechunk. destruct (Nat.eqb (length old) (length new)) eqn:El; cbn [negb].
  - apply Nat.eqb_eq in El. destruct (forallb _ _); split; intros H; try discriminate; contradiction.
  - apply Nat.eqb_neq in El. split; intros; [exact El|reflexivity].
Qed.

(* an accepted rechunk leaves every axis that has unknown sizes untouched, so what the new
   layout advertises there is still sound for the same true sizes; a fully known axis keeps
   the true length *)
Theorem validate_rechunk_sound old new tr :
  validate_rechunk old new = Proceed tt -> known_soundN old tr ->
  Forall2 (fun nd t => known_sound nd t \/ exists n, nd = map Some n /\ zsum n = zsum t) new tr.
Proof.
  intros H S. apply validate_rechunk_accepts in H. unfold known_soundN in S.
  refine (Forall2_compose _ _ _ _ old new tr H S).
  intros od nd t Hax Hs.
  destruct (has_nan od) eqn:Eo; cbn [orb] in Hax.
  - subst nd. left. exact Hs.
  - destruct (has_nan nd) eqn:En.
    + subst nd. left. exact Hs.
    + right. apply has_nan_false_known in Eo as [o ->]. apply has_nan_false_known in En as [n ->].
      rewrite !osum_map_Some in Hax. injection Hax as Hax. apply known_sound_known in Hs. subst t.
      exists n. split; [reflexivity|lia].
Qed.

(* ------------------------------------------------------------------ *)
(* old_to_new *)
Lemma enumerate_from_nth_error {A} (l : list A) : forall i j x,
  nth_error l j = Some x -> nth_error (enumerate_from i l) j = Some (i + Z.of_nat j, x).
Proof.
  induction l as [|y l IH]; intros i [|j] x H; cbn in H; try discriminate.
  - injection H as <-. cbn [enumerate_from nth_error]. f_equal. f_equal. lia.
  - cbn [enumerate_from nth_error]. rewrite (IH (i + 1) j x H). f_equal. f_equal. lia.
Qed.

Lemma enumerate_from_length {A} (l : list A) i : length (enumerate_from i l) = length l.
Proof. revert i. induction l as [|y l IH]; intros i; [reflexivity|]. cbn. rewrite IH. reflexivity. Qed.

(* block j of an axis with unknown sizes is exactly old block j, whole: (j, slice(0, size_j or None)) *)
Theorem unknown_axis_crosswalk_spec dim :
  length (unknown_axis_crosswalk dim) = length dim /\
  forall j size, nth_error dim j = Some size ->
    nth_error (unknown_axis_crosswalk dim) j = Some [(Z.of_nat j, 0, size)].
Proof.
  unfold unknown_axis_crosswalk. split.
  - rewrite map_length. apply enumerate_from_length.
  - intros j size H. rewrite nth_error_map, (enumerate_from_nth_error dim 0 j size H). reflexivity.
Qed.

Lemma old_to_new_axis_unknown od nd :
  has_nan od = true -> old_to_new_axis od nd = Some (unknown_axis_crosswalk od).
Proof. intros H. unfold old_to_new_axis. rewrite H. reflexivity. Qed.

Lemma old_to_new_axis_known o n :
  old_to_new_axis (map Some o) (map Some n) = Some (map (map lift_piece) (intersect_1d o n)).
Proof. unfold old_to_new_axis. rewrite has_nan_map_Some, !oknown_map_Some. reflexivity. Qed.

Lemma old_to_new_axis_known_inv od nd r :
  has_nan od = false -> old_to_new_axis od nd = Some r ->
  exists o n, od = map Some o /\ nd = map Some n /\ r = map (map lift_piece) (intersect_1d o n).
Proof.
  intros Hn H. unfold old_to_new_axis in H. rewrite Hn in H.
  destruct (oknown od) as [o|] eqn:Eo; [|discriminate].
  destruct (oknown nd) as [n|] eqn:En; [|discriminate].
  injection H as <-. apply oknown_spec in Eo, En. exists o, n. auto.
Qed.

Theorem old_to_new_u_spec : forall old new cw,
  old_to_new_u old new = Some cw ->
  length cw = length old /\
  forall k od nd, nth_error old k = Some od -> nth_error new k = Some nd ->
    (has_nan od = true -> nth_error cw k = Some (unknown_axis_crosswalk od)) /\
    (has_nan od = false -> exists o n, od = map Some o /\ nd = map Some n /\
                             nth_error cw k = Some (map (map lift_piece) (intersect_1d o n))).
Proof.
  induction old as [|od0 old IH]; intros [|nd0 new] cw H; cbn [old_to_new_u] in H; try discriminate.
  - injection H as <-. split; [reflexivity|]. intros [|k]; discriminate.
  - injection H as <-. split; [reflexivity|]. intros [|k]; discriminate.
  - destruct (old_to_new_axis od0 nd0) as [a|] eqn:Ea; [|discriminate].
    destruct (old_to_new_u old new) as [r|] eqn:Er; [|discriminate].
    injection H as <-. destruct (IH new r Er) as [Hl Hk]. split; [cbn; lia|].
    intros [|k] od nd Ho Hn; cbn [nth_error] in *.
    + injection Ho as <-. injection Hn as <-. split.
      * intros Hnan. rewrite (old_to_new_axis_unknown _ _ Hnan) in Ea. exact (eq_sym Ea).
      * intros Hnan. destruct (old_to_new_axis_known_inv _ _ _ Hnan Ea) as (o & n & -> & -> & ->).
        exists o, n. auto.
    + apply Hk; assumption.
Qed.

(* _validate_rechunk establishes the domain on which old_to_new is modelled *)
Theorem validate_rechunk_old_to_new_defined : forall old new,
  validate_rechunk old new = Proceed tt -> exists cw, old_to_new_u old new = Some cw.
Proof.
  intros old new H. apply validate_rechunk_accepts in H.
  induction H as [|od nd old new Hax F IH].
  - exists []. reflexivity.
  - destruct IH as [r Hr]. cbn [old_to_new_u]. rewrite Hr.
    destruct (has_nan od) eqn:Eo; cbn [orb] in Hax.
    + rewrite (old_to_new_axis_unknown _ _ Eo). eexists. reflexivity.
    + destruct (has_nan nd) eqn:En.
      * subst nd. congruence.
      * apply has_nan_false_known in Eo as [o ->]. apply has_nan_false_known in En as [n ->].
        rewrite old_to_new_axis_known. eexists. reflexivity.
Qed.

(* agreement with the known-sizes model of Rechunk.v *)
Theorem old_to_new_u_known : forall old new, length old = length new ->
  old_to_new_u (map (map Some) old) (map (map Some) new) =
  Some (map (map (map lift_piece)) (old_to_new old new)).
Proof.
  unfold old_to_new. induction old as [|o old IH]; intros [|n new] Hl; cbn [length] in Hl; try discriminate.
  - reflexivity.
  - cbn [map old_to_new_u combine fst snd]. rewrite old_to_new_axis_known, IH by lia. reflexivity.
Qed.

(* ------------------------------------------------------------------ *)
(* plan_rechunk early exit *)
Theorem plan_rechunk_early_exit_spec old new :
  (plan_rechunk_early_exit old new = Some [new] <->
     (exists d, In d new /\ d = []) \/ (exists d, In d old /\ has_nan d = true)) /\
  (forall steps, plan_rechunk_early_exit old new = Some steps -> steps = [new]).
Proof.
  unfold plan_rechunk_early_exit. split.
  - destruct (existsb is_nil new) eqn:E1; cbn [orb].
    + split; [|reflexivity]. intros _. left. apply existsb_exists in E1 as (d & Hd & Hn).
      exists d. split; [exact Hd|]. destruct d; [reflexivity|discriminate].
    + destruct (existsb has_nan old) eqn:E2.
      * split; [|reflexivity]. intros _. right. apply existsb_exists in E2. exact E2.
      * split; [discriminate|]. intros [(d & Hd & ->)|(d & Hd & Hn)].
        -- assert (existsb is_nil new = true) by (apply existsb_exists; exists []; auto). congruence.
        -- assert (existsb has_nan old = true) by (apply existsb_exists; exists d; auto). congruence.
  - intros steps H. destruct (existsb is_nil new || existsb has_nan old); [|discriminate].
    injection H as <-. reflexivity.
Qed.

(* planning proper (Rechunk.plan_rechunk) only ever sees fully known old chunks and new chunks
   with at least one block on every axis *)
Theorem plan_rechunk_no_early_exit old new :
  plan_rechunk_early_exit old new = None ->
  (exists o, old = map (map Some) o) /\ Forall (fun d => d <> []) new.
Proof.
  unfold plan_rechunk_early_exit. destruct (existsb is_nil new) eqn:E1; cbn [orb]; [discriminate|].
  destruct (existsb has_nan old) eqn:E2; [discriminate|]. intros _. split.
  - clear E1. induction old as [|d old IH].
    + exists []. reflexivity.
    + cbn [existsb] in E2. apply orb_false_iff in E2 as [Hd Ho].
      destruct (IH Ho) as [o ->]. apply has_nan_false_known in Hd as [l ->]. exists (l :: o). reflexivity.
  - apply Forall_forall. intros d Hd ->.
    assert (existsb is_nil new = true) by (apply existsb_exists; exists (@nil (option Z)); auto). congruence.
Qed.

(* ------------------------------------------------------------------ *)
(* the guard of slice_slices_and_integers *)
Lemma ploc_eqb_eq a b : ploc_eqb a b = true <-> a = b.
Proof.
  destruct a as [x|s], b as [y|t]; cbn [ploc_eqb].
  - rewrite Z.eqb_eq. split; [intros ->; reflexivity|intros H; injection H as ->; reflexivity].
  - split; discriminate.
  - split; discriminate.
  - rewrite pslice_eqb_eq. split; [intros ->; reflexivity|intros H; injection H as ->; reflexivity].
Qed.

Lemma slice_guard_total chunks index :
  slice_guard chunks index = Proceed tt \/ slice_guard chunks index = Refuse ValueError.
Proof. unfold slice_guard. destruct (existsb _ _); auto. Qed.

Theorem slice_guard_spec chunks index :
  slice_guard chunks index = Proceed tt <->
  forall k dim ind, nth_error chunks k = Some dim -> nth_error index k = Some ind ->
    has_nan dim = true -> ind = LSlice colon.
Proof.
  unfold slice_guard.
  destruct (existsb _ _) eqn:E.
  - split; [discriminate|]. intros H. exfalso.
    apply existsb_exists in E as ([dim ind] & Hin & Hp). cbn [fst snd] in Hp.
    apply andb_true_iff in Hp as [Hn Hne]. rewrite is_nan_osum in Hn.
    apply In_combine_nth_error in Hin as (k & H1 & H2).
    rewrite (H k dim ind H1 H2 Hn) in Hne. cbn in Hne. discriminate.
  - split; [|reflexivity]. intros _ k dim ind H1 H2 Hn.
    assert (Hin : In (dim, ind) (combine chunks index)) by (apply In_combine_nth_error; exists k; auto).
    destruct (ploc_eqb ind (LSlice colon)) eqn:Ee; [apply ploc_eqb_eq; exact Ee|].
    assert (existsb (fun p => is_nan (osum (fst p)) && negb (ploc_eqb (snd p) (LSlice colon))) (combine chunks index) = true).
    { apply existsb_exists. exists (dim, ind). split; [exact Hin|]. cbn [fst snd]. rewrite is_nan_osum, Hn, Ee. reflexivity. }
    congruence.
Qed.

(* ------------------------------------------------------------------ *)
(* common_blockdim / coarse_blockdim with unknown sizes *)
Lemma fold_best_In_gen {A} (f : A -> A -> bool) t : forall d,
  In (fold_left (fun best x => if f best x then x else best) t d) (d :: t).
Proof.
  induction t as [|x t IH]; intros d; cbn [fold_left].
  - left. reflexivity.
  - destruct (f d x).
    + right. apply IH.
    + destruct (IH d) as [H|H]; [left; exact H|right; right; exact H].
Qed.

Lemma omax_by_first_In ds r : omax_by_first ds = Proceed r -> In r ds.
Proof.
  unfold omax_by_first. destruct (existsb is_nil ds); [discriminate|].
  destruct ds as [|d t]; [discriminate|]. intros H. injection H as <-. apply fold_best_In_gen.
Qed.

Lemma existsb_ochunks_eqb x t : existsb (ochunks_eqb x) t = true <-> In x t.
Proof.
  rewrite existsb_exists. split.
  - intros [y [Hy Hxy]]. apply ochunks_eqb_eq in Hxy. subst y. exact Hy.
  - intros Hx. exists x. split; [exact Hx|apply ochunks_eqb_refl].
Qed.

Lemma odedup_In d l : In d (odedup l) <-> In d l.
Proof.
  induction l as [|x t IH]; [reflexivity|]. cbn [odedup].
  destruct (existsb (ochunks_eqb x) t) eqn:E; cbn [In]; rewrite IH.
  - apply existsb_ochunks_eqb in E. split; [intros H; right; exact H|].
    intros [<-|H]; assumption.
  - reflexivity.
Qed.

Lemma odedup_const c l : (forall x, In x l -> x = c) -> (length (odedup l) <= 1)%nat.
Proof.
  induction l as [|x t IH]; intros H; cbn [odedup]; [cbn; lia|].
  destruct (existsb (ochunks_eqb x) t) eqn:E.
  - apply IH. intros y Hy. apply H. right. exact Hy.
  - destruct t as [|y t'].
    + cbn. lia.
    + exfalso. assert (Hx : x = c) by (apply H; left; reflexivity).
      assert (Hy : y = c) by (apply H; right; left; reflexivity).
      assert (existsb (ochunks_eqb x) (y :: t') = true) by (apply existsb_ochunks_eqb; left; congruence).
      congruence.
Qed.

Lemma all_empty_spec (ds : list ochunks) :
  existsb (fun d => negb (is_nil d)) ds = false -> forall d, In d ds -> d = [].
Proof.
  intros H d Hd. destruct d as [|c d']; [reflexivity|].
  assert (existsb (fun d => negb (is_nil d)) ds = true) by (apply existsb_exists; exists (c :: d'); auto). congruence.
Qed.

Lemma oknown_all_spec ds kds : oknown_all ds = Some kds <-> ds = map (map Some) kds.
Proof.
  revert kds. induction ds as [|d ds IH]; intros kds; cbn [oknown_all].
  - split; [intros H; injection H as <-; reflexivity|]. destruct kds; [reflexivity|discriminate].
  - destruct (oknown d) as [x|] eqn:Ed.
    + destruct (oknown_all ds) as [r|] eqn:Er.
      * apply oknown_spec in Ed. subst d. split.
        -- intros H. injection H as <-. cbn [map]. f_equal. apply IH. reflexivity.
        -- destruct kds as [|k kds]; [discriminate|]. cbn [map]. intros H. injection H as Hk Hr.
           apply IH in Hr. injection Hr as <-. f_equal. f_equal.
           apply (f_equal oknown) in Hk. rewrite !oknown_map_Some in Hk. congruence.
      * split; [discriminate|]. destruct kds as [|k kds]; [discriminate|]. cbn [map].
        intros H. injection H as _ Hr. apply IH in Hr. discriminate.
    + split; [discriminate|]. destruct kds as [|k kds]; [discriminate|]. cbn [map].
      intros H. injection H as Hk _. subst d. rewrite oknown_map_Some in Ed. discriminate.
Qed.

(* np.isnan(sum(map(sum, blockdims))) holds iff some layout has an unknown size *)
Lemma oknown_all_none ds : oknown_all ds = None <-> exists d, In d ds /\ has_nan d = true.
Proof.
  split.
  - induction ds as [|a ds IH]; cbn [oknown_all]; [discriminate|]. destruct (oknown a) as [x|] eqn:Ed.
    + destruct (oknown_all ds) as [r|] eqn:Er; [discriminate|]. intros _.
      destruct (IH eq_refl) as (d & Hd & Hn). exists d. split; [right; exact Hd|exact Hn].
    + intros _. exists a. split; [left; reflexivity|apply oknown_none; exact Ed].
  - intros (d & Hd & Hn). destruct (oknown_all ds) as [kds|] eqn:E; [|reflexivity].
    apply oknown_all_spec in E. subst ds. apply in_map_iff in Hd as (k & <- & _).
    rewrite has_nan_map_Some in Hn. discriminate.
Qed.

(* whatever the iteration order: a result of common_blockdim is one of the given layouts
   unless every layout is fully known (then it is the known-sizes algorithm of Unify.v) *)
Theorem common_blockdim_u_cases ds r :
  ds <> [] -> common_blockdim_u ds = Proceed r ->
  In r ds \/ exists kds, ds = map (map Some) kds /\ of_ures (common_blockdim kds) = Proceed r.
Proof.
  intros Hne. unfold common_blockdim_u.
  destruct (existsb (fun d => negb (is_nil d)) ds) eqn:Eany; cbn [negb].
  - destruct (odedup (filter ontrivial ds)) as [|d [|d2 nt]] eqn:Ent.
    + intros H. left. apply omax_by_first_In. exact H.
    + destruct (has_nan d && existsb (fun x => negb (ochunks_eqb x d)) ds); [discriminate|].
      intros H. injection H as <-. left.
      assert (Hin : In d (odedup (filter ontrivial ds))) by (rewrite Ent; left; reflexivity).
      apply odedup_In, filter_In in Hin. apply Hin.
    + destruct (oknown_all ds) as [kds|] eqn:Ek; [|discriminate].
      intros H. right. exists kds. split; [apply oknown_all_spec; exact Ek|exact H].
  - intros H. injection H as <-. left. destruct ds as [|d0 ds]; [contradiction|].
    rewrite <- (all_empty_spec _ Eany d0 (or_introl eq_refl)). left. reflexivity.
Qed.

(* as soon as one layout has an unknown size, common_blockdim either refuses or returns one of
   the given layouts unchanged *)
Theorem common_blockdim_u_unknown ds r :
  (exists d, In d ds /\ has_nan d = true) -> common_blockdim_u ds = Proceed r -> In r ds.
Proof.
  intros (d & Hd & Hn) H. assert (Hne : ds <> []) by (intros ->; destruct Hd).
  destruct (common_blockdim_u_cases ds r Hne H) as [Hin|(kds & -> & _)]; [exact Hin|].
  apply in_map_iff in Hd as (k & <- & _). rewrite has_nan_map_Some in Hn. discriminate.
Qed.

(* soundness under the hypothesis that every operand advertises the SAME true layout (its
   blocks align).  Without it the clause is refuted: finding F32 / misaligned_unknown_refuted *)
Theorem common_blockdim_u_sound ds tr r :
  ds <> [] -> Forall (fun d => known_sound d tr) ds ->
  common_blockdim_u ds = Proceed r -> In r ds /\ known_sound r tr.
Proof.
  intros Hne Hs H. rewrite Forall_forall in Hs.
  assert (Hin : In r ds).
  { revert H. unfold common_blockdim_u.
    destruct (existsb (fun d => negb (is_nil d)) ds) eqn:Eany; cbn [negb].
    - destruct (odedup (filter ontrivial ds)) as [|d [|d2 nt]] eqn:Ent.
      + apply omax_by_first_In.
      + destruct (has_nan d && existsb (fun x => negb (ochunks_eqb x d)) ds); [discriminate|].
        intros H. injection H as <-.
        assert (Hin : In d (odedup (filter ontrivial ds))) by (rewrite Ent; left; reflexivity).
        apply odedup_In, filter_In in Hin. apply Hin.
      + destruct (oknown_all ds) as [kds|] eqn:Ek; [|discriminate]. intros _. exfalso.
        apply oknown_all_spec in Ek.
        assert (Hc : forall x, In x (filter ontrivial ds) -> x = map Some tr).
        { intros x Hx. apply filter_In in Hx as [Hx _]. pose proof (Hs x Hx) as Hsx.
          rewrite Ek in Hx. apply in_map_iff in Hx as (k & <- & _).
          apply known_sound_known in Hsx. congruence. }
        pose proof (odedup_const _ _ Hc) as Hlen. rewrite Ent in Hlen. cbn in Hlen. lia.
    - intros H. injection H as <-. destruct ds as [|d0 ds]; [contradiction|].
      rewrite <- (all_empty_spec _ Eany d0 (or_introl eq_refl)). left. reflexivity. }
  split; [exact Hin|apply Hs; exact Hin].
Qed.

Lemma dedup_const c l : (forall x, In x l -> x = c) -> l <> [] -> dedup l = [c].
Proof.
  induction l as [|x t IH]; intros H Hne; [contradiction|]. cbn [dedup].
  assert (Hx : x = c) by (apply H; left; reflexivity). subst x.
  destruct (existsb (zlist_eqb c) t) eqn:E.
  - apply IH; [intros y Hy; apply H; right; exact Hy|]. intros ->. discriminate.
  - destruct t as [|y t']; [reflexivity|]. exfalso.
    assert (Hy : y = c) by (apply H; right; left; reflexivity).
    assert (existsb (zlist_eqb c) (y :: t') = true) by (apply existsb_zlist_eqb; left; exact Hy). congruence.
Qed.

Theorem coarse_blockdim_u_unknown pick ds r :
  (exists d, In d ds /\ has_nan d = true) -> coarse_blockdim_u pick ds = Proceed r ->
  In r ds /\ has_nan r = true /\ forall d, In d ds -> length d = length r.
Proof.
  intros (d & Hd & Hn). unfold coarse_blockdim_u.
  destruct (existsb (fun d => negb (is_nil d)) ds) eqn:Eany; cbn [negb].
  - destruct (filter has_nan ds) as [|u us] eqn:Ef.
    + exfalso. assert (In d (filter has_nan ds)) by (apply filter_In; auto). rewrite Ef in H. destruct H.
    + destruct (all_same_length ds) eqn:Es; [|discriminate]. intros H. injection H as <-.
      assert (Hu : In u (filter has_nan ds)) by (rewrite Ef; left; reflexivity).
      apply filter_In in Hu as [Hu Hun]. split; [exact Hu|]. split; [exact Hun|].
      unfold all_same_length in Es. destruct ds as [|d0 t]; [destruct Hd|].
      rewrite forallb_forall in Es.
      assert (Hall : forall x, In x (d0 :: t) -> length x = length d0).
      { intros x [<-|Hx]; [reflexivity|]. apply Nat.eqb_eq. apply Es. exact Hx. }
      intros x Hx. rewrite (Hall x Hx), (Hall u Hu). reflexivity.
  - exfalso. rewrite (all_empty_spec _ Eany d Hd) in Hn. discriminate.
Qed.

Theorem coarse_blockdim_u_sound pick ds tr r :
  ds <> [] -> Forall (fun d => known_sound d tr) ds ->
  coarse_blockdim_u pick ds = Proceed r -> In r ds /\ known_sound r tr.
Proof.
  intros Hne Hs H. rewrite Forall_forall in Hs.
  assert (Hin : In r ds).
  { revert H. unfold coarse_blockdim_u.
    destruct (existsb (fun d => negb (is_nil d)) ds) eqn:Eany; cbn [negb].
    - destruct (filter has_nan ds) as [|u us] eqn:Ef.
      + destruct (oknown_all ds) as [kds|] eqn:Ek; [|discriminate].
        apply oknown_all_spec in Ek.
        assert (Hc : forall x, In x kds -> x = tr).
        { intros x Hx. apply known_sound_known. apply Hs. rewrite Ek. apply in_map. exact Hx. }
        destruct (filter nontrivial kds) as [|n0 nts] eqn:Ent.
        * apply omax_by_first_In.
        * assert (Hk : kds <> []) by (intros ->; discriminate).
          assert (Hn0 : In n0 (filter nontrivial kds)) by (rewrite Ent; left; reflexivity).
          apply filter_In in Hn0 as [Hn0 Hnt]. rewrite (Hc n0 Hn0) in Hnt.
          unfold coarse_blockdim. rewrite (dedup_const tr kds Hc Hk).
          cbn [filter]. rewrite Hnt.
          assert (Hex : existsb (fun d : list Z => match d with [] => false | _ :: _ => true end) [tr] = true).
          { destruct tr; [discriminate|reflexivity]. }
          rewrite Hex. cbn [negb of_ures]. intros H. injection H as <-.
          destruct kds as [|k0 kds']; [contradiction|]. rewrite Ek. cbn [map]. left.
          unfold of_known. f_equal. apply Hc. left. reflexivity.
      + destruct (all_same_length ds); [|discriminate]. intros H. injection H as <-.
        assert (Hu : In u (filter has_nan ds)) by (rewrite Ef; left; reflexivity).
        apply filter_In in Hu. apply Hu.
    - intros H. injection H as <-. destruct ds as [|d0 ds]; [contradiction|].
      rewrite <- (all_empty_spec _ Eany d0 (or_introl eq_refl)). left. reflexivity. }
  split; [exact Hin|apply Hs; exact Hin].
Qed.

(* ------------------------------------------------------------------ *)
(* agreement with the known-sizes models of Unify.v on fully known layouts *)
Lemma ochunks_eqb_map_Some a b : ochunks_eqb (map Some a) (map Some b) = zlist_eqb a b.
Proof.
  unfold ochunks_eqb, zlist_eqb. revert b. induction a as [|x a IH]; intros [|y b]; cbn [map list_eqb]; try reflexivity.
  rewrite IH. reflexivity.
Qed.

Lemma existsb_map' {A B} (f : B -> bool) (g : A -> B) l : existsb f (map g l) = existsb (fun x => f (g x)) l.
Proof. induction l as [|x l IH]; [reflexivity|]. cbn. rewrite IH. reflexivity. Qed.

Lemma existsb_ext' {A} (f g : A -> bool) l : (forall x, f x = g x) -> existsb f l = existsb g l.
Proof. intros H. induction l as [|x l IH]; [reflexivity|]. cbn. rewrite H, IH. reflexivity. Qed.

Lemma odedup_map_Some l : odedup (map (map Some) l) = map (map Some) (dedup l).
Proof.
  induction l as [|x t IH]; [reflexivity|]. cbn [map odedup dedup].
  rewrite existsb_map'. rewrite (existsb_ext' _ (zlist_eqb x)) by (intros y; apply ochunks_eqb_map_Some).
  destruct (existsb (zlist_eqb x) t); cbn [map]; rewrite IH; reflexivity.
Qed.

Lemma filter_ontrivial_map l : filter ontrivial (map (map Some) l) = map (map Some) (filter nontrivial l).
Proof.
  induction l as [|x t IH]; [reflexivity|]. cbn [map filter].
  unfold ontrivial at 1, nontrivial at 1. rewrite map_length.
  destruct (Nat.ltb 1 (length x)); cbn [map]; rewrite IH; reflexivity.
Qed.

Lemma filter_has_nan_map l : filter has_nan (map (map Some) l) = [].
Proof. induction l as [|x t IH]; [reflexivity|]. cbn [map filter]. rewrite has_nan_map_Some. exact IH. Qed.

Lemma NoDup_dedup l : NoDup l -> dedup l = l.
Proof.
  induction 1 as [|x t Hx Hnd IH]; [reflexivity|]. cbn [dedup].
  destruct (existsb (zlist_eqb x) t) eqn:E.
  - apply existsb_zlist_eqb in E. contradiction.
  - rewrite IH. reflexivity.
Qed.

Lemma NoDup_filter' {A} (f : A -> bool) l : NoDup l -> NoDup (filter f l).
Proof.
  induction 1 as [|x t Hx Hnd IH]; [constructor|]. cbn [filter].
  destruct (f x); [|exact IH]. constructor; [|exact IH]. intros H. apply filter_In in H. apply Hx, H.
Qed.

Lemma omax_fold_known t : forall d, d <> [] -> Forall (fun x => x <> []) t ->
  fold_left (fun best x => if ohead_lt best x then x else best) (map (map Some) t) (map Some d) =
  map Some (fold_left (fun best x => if hd 0 best <? hd 0 x then x else best) t d).
Proof.
  induction t as [|x t IH]; intros d Hd Ht; [reflexivity|]. cbn [map fold_left].
  inversion Ht as [|? ? Hx Ht']; subst.
  assert (E : ohead_lt (map Some d) (map Some x) = (hd 0 d <? hd 0 x)).
  { destruct d as [|a d']; [contradiction|]. destruct x as [|b x']; [contradiction|]. reflexivity. }
  rewrite E. destruct (hd 0 d <? hd 0 x); apply IH; assumption.
Qed.

Lemma omax_by_first_known ds : ds <> [] -> Forall (fun d => d <> []) ds ->
  omax_by_first (map (map Some) ds) = Proceed (map Some (first_by_max_head ds)).
Proof.
  intros Hne Hf. unfold omax_by_first.
  assert (E : existsb is_nil (map (map Some) ds) = false).
  { rewrite existsb_map'. induction Hf as [|d t Hd Hf IH]; [reflexivity|]. cbn [existsb].
    destruct d; [contradiction|]. cbn. destruct t; [reflexivity|]. apply IH. discriminate. }
  rewrite E. destruct ds as [|d t]; [contradiction|]. cbn [map first_by_max_head].
  inversion Hf; subst. rewrite omax_fold_known by assumption. reflexivity.
Qed.

Lemma any_nonempty_known ds : ds <> [] -> Forall (fun d => d <> []) ds ->
  existsb (fun d => negb (is_nil d)) (map (map Some) ds) = true /\
  existsb (fun d : list Z => match d with [] => false | _ :: _ => true end) ds = true.
Proof.
  intros Hne Hf. destruct ds as [|d t]; [contradiction|]. inversion Hf; subst.
  destruct d; [contradiction|]. split; reflexivity.
Qed.

Theorem common_blockdim_u_known ds :
  NoDup ds -> Forall (fun d => d <> []) ds ->
  common_blockdim_u (map (map Some) ds) = of_ures (common_blockdim ds).
Proof.
  intros Hnd Hf. destruct (list_eq_dec (list_eq_dec Z.eq_dec) ds []) as [->|Hne]; [reflexivity|].
  destruct (any_nonempty_known ds Hne Hf) as [E1 E2].
  unfold common_blockdim_u. rewrite E1. cbn [negb].
  rewrite filter_ontrivial_map, odedup_map_Some, (NoDup_dedup _ (NoDup_filter' nontrivial ds Hnd)).
  destruct (filter nontrivial ds) as [|d [|d2 nt]] eqn:Ent; cbn [map].
  - unfold common_blockdim. rewrite (NoDup_dedup ds Hnd), E2, Ent. cbn [negb of_ures].
    apply omax_by_first_known; assumption.
  - rewrite has_nan_map_Some. cbn [andb].
    unfold common_blockdim. rewrite (NoDup_dedup ds Hnd), E2, Ent. reflexivity.
  - assert (Ek : oknown_all (map (map Some) ds) = Some ds) by (apply oknown_all_spec; reflexivity).
    rewrite Ek. reflexivity.
Qed.

Theorem coarse_blockdim_u_known pick ds :
  NoDup ds -> Forall (fun d => d <> []) ds ->
  coarse_blockdim_u pick (map (map Some) ds) = of_ures (coarse_blockdim pick ds).
Proof.
  intros Hnd Hf. destruct (list_eq_dec (list_eq_dec Z.eq_dec) ds []) as [->|Hne]; [reflexivity|].
  destruct (any_nonempty_known ds Hne Hf) as [E1 E2].
  unfold coarse_blockdim_u. rewrite E1, filter_has_nan_map. cbn [negb].
  assert (Ek : oknown_all (map (map Some) ds) = Some ds) by (apply oknown_all_spec; reflexivity).
  rewrite Ek. destruct (filter nontrivial ds) as [|d nt] eqn:Ent; [|reflexivity].
  unfold coarse_blockdim. rewrite (NoDup_dedup ds Hnd), E2, Ent. cbn [negb of_ures].
  apply omax_by_first_known; assumption.
Qed.

(* ------------------------------------------------------------------ *)
(* compute_chunk_sizes *)
Lemma map_seq_eq {A} (d : A) : forall (l : list A) (f : nat -> A) s,
  (forall i, (i < length l)%nat -> f (s + i)%nat = nth i l d) -> map f (seq s (length l)) = l.
Proof.
  induction l as [|x l IH]; intros f s H; [reflexivity|]. cbn [length seq map]. f_equal.
  - rewrite <- (Nat.add_0_r s). apply (H 0%nat). cbn. lia.
  - apply IH. intros i Hi. replace (S s + i)%nat with (s + S i)%nat by lia. apply (H (S i)). cbn. lia.
Qed.

Lemma Forall2_map_seq {A} (P : A -> Z -> Prop) (d : A) (h : nat -> Z) : forall (l : list A) s,
  (forall k, (k < length l)%nat -> P (nth k l d) (h (s + k)%nat)) -> Forall2 P l (map h (seq s (length l))).
Proof.
  induction l as [|x l IH]; intros s H; [constructor|]. cbn [length seq map]. constructor.
  - rewrite <- (Nat.add_0_r s). apply (H 0%nat). cbn. lia.
  - apply IH. intros k Hk. replace (S s + k)%nat with (s + S k)%nat by lia. apply (H (S k)). cbn. lia.
Qed.

Lemma nth_map_seq (h : nat -> Z) n i d : (i < n)%nat -> nth i (map h (seq 0 n)) d = h i.
Proof.
  intros Hi. rewrite (nth_indep _ d (h 0%nat)) by (rewrite map_length, seq_length; exact Hi).
  rewrite map_nth, seq_nth by exact Hi. reflexivity.
Qed.

Lemma zrange_unit_nat m : zrange 0 (Z.of_nat m) 1 = map Z.of_nat (seq 0 m).
Proof.
  unfold zrange. rewrite range_len_unit.
  replace (Z.to_nat (Z.max (Z.of_nat m - 0) 0)) with m by lia.
  apply map_ext. intros i. lia.
Qed.

Lemma true_shape_nth : forall tr loc i, (i < length tr)%nat -> length loc = length tr ->
  nth i (true_shape tr loc) 0 = nthZ (nth i tr []) (nth i loc 0).
Proof.
  induction tr as [|t tr IH]; intros [|j loc] i Hi Hl; cbn [length] in *; try lia.
  destruct i as [|i]; cbn [true_shape nth]; [reflexivity|]. apply IH; lia.
Qed.

(* if the executed blocks form a grid whose true sizes along axis k are tr[k], the sizes that
   compute_chunk_sizes reads off the first row/column/... of blocks ARE the true sizes.
   Every axis must have at least one block: the Python indexes the other axes at 0
   (on a zero-block axis chunk_shapes[..., 0, ...] raises IndexError). *)
Theorem compute_chunk_sizes_exact measure tr :
  Forall (fun t => t <> []) tr ->
  (forall loc, valid_loc tr loc -> measure loc = true_shape tr loc) ->
  compute_chunk_sizes_model measure (map (@lenZ Z) tr) = tr.
Proof.
  intros Hne Hm. unfold compute_chunk_sizes_model. rewrite map_length.
  apply (map_seq_eq []). intros i Hi. cbn [Nat.add].
  rewrite (map_nth (@lenZ Z) tr [] i : nth i (map (@lenZ Z) tr) 0 = lenZ (nth i tr [])).
  set (t := nth i tr []). unfold lenZ at 1. rewrite zrange_unit_nat, map_map.
  apply (map_seq_eq 0). intros j Hj. cbn [Nat.add].
  assert (Hv : valid_loc tr (loc_on_axis (length tr) i (Z.of_nat j))).
  { unfold valid_loc, loc_on_axis. apply (Forall2_map_seq _ []). intros k Hk. cbn [Nat.add].
    destruct (Nat.eqb k i) eqn:Eki.
    - apply Nat.eqb_eq in Eki. subst k. fold t. unfold lenZ. lia.
    - assert (Hin : In (nth k tr []) tr) by (apply nth_In; exact Hk).
      rewrite Forall_forall in Hne. specialize (Hne _ Hin). unfold lenZ.
      destruct (nth k tr []); [contradiction|]. cbn [length]. lia. }
  rewrite (Hm _ Hv).
  rewrite true_shape_nth by (try exact Hi; unfold loc_on_axis; rewrite map_length, seq_length; reflexivity).
  unfold loc_on_axis. rewrite nth_map_seq by exact Hi. rewrite Nat.eqb_refl.
  fold t. unfold nthZ. rewrite Nat2Z.id. reflexivity.
Qed.

(* ------------------------------------------------------------------ *)
(* ChunksOverride *)
Lemma In_zrange_unit i n : In i (zrange 0 n 1) <-> 0 <= i < n.
Proof.
  unfold zrange. rewrite range_len_unit, in_map_iff. split.
  - intros (k & Hk & Hin). apply in_seq in Hin. lia.
  - intros H. exists (Z.to_nat i). split; [lia|]. apply in_seq. lia.
Qed.

Theorem grid_spec : forall ns idx, In idx (grid ns) <-> Forall2 (fun i n => 0 <= i < n) idx ns.
Proof.
  induction ns as [|n ns IH]; intros idx; cbn [grid].
  - split.
    + intros [<-|[]]. constructor.
    + intros H. inversion H. left. reflexivity.
  - rewrite in_flat_map. split.
    + intros (i & Hi & Hin). apply in_map_iff in Hin as (rest & <- & Hr).
      constructor; [apply In_zrange_unit; exact Hi|apply IH; exact Hr].
    + intros H. inversion H as [|i ? rest ? Hi Hr]; subst. exists i. split; [apply In_zrange_unit; exact Hi|].
      apply in_map. apply IH. exact Hr.
Qed.

Lemma Forall2_map_r {A B C} (P : A -> C -> Prop) (f : B -> C) : forall a b,
  Forall2 P a (map f b) <-> Forall2 (fun x y => P x (f y)) a b.
Proof.
  induction a as [|x a IH]; intros [|y b]; cbn [map]; split; intros H; inversion H; subst; constructor; auto;
    apply IH; assumption.
Qed.

(* the layer aliases every block of the grid to the block with the SAME index of the wrapped
   array (values untouched), and nothing else *)
Theorem chunks_override_layer_identity chunks :
  (forall p, In p (chunks_override_layer chunks) -> fst p = snd p) /\
  (forall idx, In (idx, idx) (chunks_override_layer chunks) <-> Forall2 (fun i d => 0 <= i < lenZ d) idx chunks).
Proof.
  unfold chunks_override_layer. split.
  - intros p Hp. apply in_map_iff in Hp as (idx & <- & _). reflexivity.
  - intros idx. rewrite in_map_iff. split.
    + intros (x & Hx & Hin). injection Hx as Hx _. subst x. apply grid_spec in Hin.
      apply (Forall2_map_r (fun i n => 0 <= i < n) (@lenZ (option Z))) in Hin. exact Hin.
    + intros H. exists idx. split; [reflexivity|]. apply grid_spec.
      apply (Forall2_map_r (fun i n => 0 <= i < n) (@lenZ (option Z))). exact H.
Qed.

(* compute_chunk_sizes end to end: the resolved sizes are the true ones, ChunksOverride
   advertises exactly them, and its layer is the identity on the block grid *)
Lemma Forall2_swap {A B} (P : A -> B -> Prop) a b : Forall2 P a b -> Forall2 (fun y x => P x y) b a.
Proof. induction 1; constructor; assumption. Qed.

Lemma valid_loc_layer tr idx :
  Forall2 (fun i d => 0 <= i < lenZ d) idx (map (map Some) tr) <-> valid_loc tr idx.
Proof.
  unfold valid_loc. split; intros H.
  - apply (Forall2_map_r (fun i (d : list (option Z)) => 0 <= i < lenZ d) (map Some)) in H.
    apply Forall2_swap in H. eapply Forall2_impl; [|exact H]. cbn beta. intros t i Hi.
    unfold lenZ in *. rewrite map_length in Hi. exact Hi.
  - apply (Forall2_map_r (fun i (d : list (option Z)) => 0 <= i < lenZ d) (map Some)).
    apply Forall2_swap in H. eapply Forall2_impl; [|exact H]. cbn beta. intros i t Hi.
    unfold lenZ in *. rewrite map_length. exact Hi.
Qed.

Lemma known_soundN_refl tr : known_soundN (map (map Some) tr) tr.
Proof. unfold known_soundN. induction tr as [|t tr IH]; constructor; [apply known_sound_known; reflexivity|exact IH]. Qed.

Theorem compute_chunk_sizes_resolves measure tr :
  Forall (fun t => t <> []) tr ->
  (forall loc, valid_loc tr loc -> measure loc = true_shape tr loc) ->
  let new_chunks := map (map Some) (compute_chunk_sizes_model measure (map (@lenZ Z) tr)) in
  compute_chunk_sizes_model measure (map (@lenZ Z) tr) = tr /\
  chunks_override_chunks new_chunks = map (map Some) tr /\
  known_soundN (chunks_override_chunks new_chunks) tr /\
  (forall p, In p (chunks_override_layer new_chunks) -> fst p = snd p) /\
  (forall idx, In (idx, idx) (chunks_override_layer new_chunks) <-> valid_loc tr idx).
Proof.
  intros Hne Hm new_chunks. unfold new_chunks, chunks_override_chunks.
  rewrite (compute_chunk_sizes_exact measure tr Hne Hm).
  split; [reflexivity|]. split; [reflexivity|]. split; [apply known_soundN_refl|].
  destruct (chunks_override_layer_identity (map (map Some) tr)) as [H1 H2].
  split; [exact H1|]. intros idx. rewrite H2. apply valid_loc_layer.
Qed.

(* the refusing half of the guards *)
Theorem slice_guard_refuses chunks index :
  slice_guard chunks index = Refuse ValueError <->
  exists k dim ind, nth_error chunks k = Some dim /\ nth_error index k = Some ind /\
                    has_nan dim = true /\ ind <> LSlice colon.
Proof.
  unfold slice_guard. destruct (existsb _ _) eqn:E.
  - split; [|reflexivity]. intros _.
    apply existsb_exists in E as ([dim ind] & Hin & Hp). cbn [fst snd] in Hp.
    apply andb_true_iff in Hp as [Hn Hne]. rewrite is_nan_osum in Hn.
    apply In_combine_nth_error in Hin as (k & H1 & H2).
    exists k, dim, ind. repeat split; try assumption.
    intros ->. cbn in Hne. discriminate.
  - split; [discriminate|]. intros (k & dim & ind & H1 & H2 & Hn & Hne). exfalso.
    assert (existsb (fun p => is_nan (osum (fst p)) && negb (ploc_eqb (snd p) (LSlice colon))) (combine chunks index) = true).
    { apply existsb_exists. exists (dim, ind). split; [apply In_combine_nth_error; exists k; auto|].
      cbn [fst snd]. rewrite is_nan_osum, Hn. cbn [andb].
      destruct (ploc_eqb ind (LSlice colon)) eqn:Ee; [|reflexivity]. apply ploc_eqb_eq in Ee. contradiction. }
    congruence.
Qed.

Lemma has_nan_nonempty (ds : list ochunks) d :
  In d ds -> has_nan d = true -> existsb (fun d => negb (is_nil d)) ds = true.
Proof. intros Hd Hn. apply existsb_exists. exists d. split; [exact Hd|]. destruct d; [discriminate|reflexivity]. Qed.

(* two or more distinct multi-block layouts, one of them with an unknown size: refused *)
Theorem common_blockdim_u_refuses ds :
  (exists d, In d ds /\ has_nan d = true) -> (2 <= length (odedup (filter ontrivial ds)))%nat ->
  common_blockdim_u ds = Refuse ValueError.
Proof.
  intros (d & Hd & Hn) Hlen. unfold common_blockdim_u. rewrite (has_nan_nonempty ds d Hd Hn). cbn [negb].
  destruct (odedup (filter ontrivial ds)) as [|d1 [|d2 nt]]; cbn [length] in Hlen; try lia.
  assert (E : oknown_all ds = None) by (apply oknown_all_none; exists d; auto).
  rewrite E. reflexivity.
Qed.

(* a multi-block layout with an unknown size next to ANY other layout (in particular a known single chunk,
   which would be paired whole with every block): refused *)
Theorem common_blockdim_u_refuses_other ds d x :
  In d ds -> ontrivial d = true -> has_nan d = true -> In x ds -> x <> d ->
  common_blockdim_u ds = Refuse ValueError.
Proof.
  intros Hd Hnt Hn Hx Hxd.
  assert (Hdin : In d (odedup (filter ontrivial ds))) by (apply odedup_In, filter_In; auto).
  destruct (odedup (filter ontrivial ds)) as [|d1 [|d2 nt]] eqn:Ent.
  - destruct Hdin.
  - destruct Hdin as [->|[]]. unfold common_blockdim_u.
    rewrite (has_nan_nonempty ds d Hd Hn). cbn [negb]. rewrite Ent, Hn. cbn [andb].
    assert (E : existsb (fun y => negb (ochunks_eqb y d)) ds = true).
    { apply existsb_exists. exists x. split; [exact Hx|].
      destruct (ochunks_eqb x d) eqn:Exd; [|reflexivity]. apply ochunks_eqb_eq in Exd. contradiction. }
    rewrite E. reflexivity.
  - apply common_blockdim_u_refuses; [exists d; auto|]. rewrite Ent. cbn [length]. lia.
Qed.

(* an unknown layout next to a layout with a different number of blocks: refused *)
Theorem coarse_blockdim_u_refuses pick ds :
  (exists d, In d ds /\ has_nan d = true) -> all_same_length ds = false ->
  coarse_blockdim_u pick ds = Refuse ValueError.
Proof.
  intros (d & Hd & Hn) Hl. unfold coarse_blockdim_u. rewrite (has_nan_nonempty ds d Hd Hn). cbn [negb].
  destruct (filter has_nan ds) as [|u us] eqn:Ef.
  - exfalso. assert (H : In d (filter has_nan ds)) by (apply filter_In; auto). rewrite Ef in H. destruct H.
  - rewrite Hl. reflexivity.
Qed.

(* ------------------------------------------------------------------ *)
(* F32: without the common-true-layout hypothesis the blockdim guards are NOT sound.
   Two operands whose advertised layouts are both (nan, nan) — each sound for its own true
   layout, same axis length, DIFFERENT block sizes — form the one-element set {(nan, nan)}:
   common_blockdim and coarse_blockdim return it, the rechunk of each operand to it validates
   (a no-op), and the blocks are then combined pairwise although their true sizes differ. *)
Theorem misaligned_unknown_refuted :
  exists d1 d2 tr1 tr2 r,
    known_sound d1 tr1 /\ known_sound d2 tr2 /\ zsum tr1 = zsum tr2 /\ tr1 <> tr2 /\
    common_blockdim_u (odedup [d1; d2]) = Proceed r /\
    (forall pick, coarse_blockdim_u pick (odedup [d1; d2]) = Proceed r) /\
    validate_rechunk [d1] [r] = Proceed tt /\ validate_rechunk [d2] [r] = Proceed tt.
Proof.
  exists [None; None], [None; None], [2; 1], [1; 2], [None; None].
  repeat split; try (intros; vm_compute; reflexivity).
  - apply known_sound_b_spec. reflexivity.
  - apply known_sound_b_spec. reflexivity.
  - discriminate.
Qed.

(* ------------------------------------------------------------------ *)
(* the statements of Properties/C28.v that bundle several of the lemmas above *)
Theorem validate_rechunk_full old new :
  (validate_rechunk old new = Proceed tt <->
     Forall2 (fun od nd => if has_nan od || has_nan nd then od = nd else osum od = osum nd) old new) /\
  (validate_rechunk old new = Refuse AssertionError <-> length old <> length new).
Proof. split; [apply validate_rechunk_accepts|apply validate_rechunk_assertion]. Qed.

Theorem old_to_new_u_full old new cw :
  old_to_new_u old new = Some cw ->
  length cw = length old /\
  forall k od nd, nth_error old k = Some od -> nth_error new k = Some nd ->
    (has_nan od = true ->
       nth_error cw k = Some (unknown_axis_crosswalk od) /\
       length (unknown_axis_crosswalk od) = length od /\
       forall j size, nth_error od j = Some size ->
         nth_error (unknown_axis_crosswalk od) j = Some [(Z.of_nat j, 0, size)]) /\
    (has_nan od = false ->
       exists o n, od = map Some o /\ nd = map Some n /\
                   nth_error cw k = Some (map (map lift_piece) (intersect_1d o n))).
Proof.
  intros H. destruct (old_to_new_u_spec old new cw H) as [Hl Hk]. split; [exact Hl|].
  intros k od nd Ho Hn. destruct (Hk k od nd Ho Hn) as [H1 H2]. split; [|exact H2].
  intros Hnan. split; [exact (H1 Hnan)|]. apply unknown_axis_crosswalk_spec.
Qed.

Theorem plan_rechunk_early_exit_full old new :
  (plan_rechunk_early_exit old new = Some [new] <->
     (exists d, In d new /\ d = []) \/ (exists d, In d old /\ has_nan d = true)) /\
  (forall steps, plan_rechunk_early_exit old new = Some steps -> steps = [new]) /\
  (plan_rechunk_early_exit old new = None ->
     (exists o, old = map (map Some) o) /\ Forall (fun d => d <> []) new).
Proof.
  destruct (plan_rechunk_early_exit_spec old new) as [H1 H2].
  split; [exact H1|]. split; [exact H2|apply plan_rechunk_no_early_exit].
Qed.

Theorem slice_guard_full chunks index :
  (slice_guard chunks index = Proceed tt <->
     forall k dim ind, nth_error chunks k = Some dim -> nth_error index k = Some ind ->
       has_nan dim = true -> ind = LSlice colon) /\
  (slice_guard chunks index = Refuse ValueError <->
     exists k dim ind, nth_error chunks k = Some dim /\ nth_error index k = Some ind /\
                       has_nan dim = true /\ ind <> LSlice colon) /\
  (forall n, 0 <= n -> sel colon n = zrange 0 n 1).
Proof.
  split; [apply slice_guard_spec|]. split; [apply slice_guard_refuses|].
  intros n Hn. apply sel_colon. exact Hn.
Qed.

Theorem blockdim_unknown_full pick ds :
  (exists d, In d ds /\ has_nan d = true) ->
  (forall r, common_blockdim_u ds = Proceed r -> In r ds) /\
  ((2 <= length (odedup (filter ontrivial ds)))%nat -> common_blockdim_u ds = Refuse ValueError) /\
  (forall r, coarse_blockdim_u pick ds = Proceed r ->
     In r ds /\ has_nan r = true /\ forall d, In d ds -> length d = length r) /\
  (all_same_length ds = false -> coarse_blockdim_u pick ds = Refuse ValueError).
Proof.
  intros H. split; [intros r; apply common_blockdim_u_unknown; exact H|].
  split; [apply common_blockdim_u_refuses; exact H|].
  split; [intros r; apply coarse_blockdim_u_unknown; exact H|apply coarse_blockdim_u_refuses; exact H].
Qed.
