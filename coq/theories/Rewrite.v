(* C08 — the modelled simplify rules as a REWRITE SYSTEM on whole expressions.
   Definitions only; proofs are in RewriteFacts.v, statements in Properties/C08.v.

   [simp_rules]     the 18 measure-decreasing simplify rules of ExprRules.v, in the order the library tries them at one node:
                    the node's own _simplify_down first, then the _simplify_up of its child
                    (dask/_expr.py: Expr.simplify_once).
   [rstep]          one rule of [simp_rules] applied at ANY position of an expression.
   [applicable]     some rule fires somewhere (decides  exists e', rstep e e').
   [simplify_pass]  one outermost-first sweep: a node at which a rule fires is rewritten, otherwise the sweep descends
                    into every child (Expr.simplify_once rewrites the node with _simplify_down / the children's
                    _simplify_up and then recurses into the operands; here the descent below a rewritten node is
                    left to the next sweep, which keeps the recursion structural).
   [simplify_fuel]  Expr.simplify: sweeps are repeated until nothing changes (`new._name == expr._name`).
   [simplify_model] the fuel [mu e] always suffices (RewriteFacts.simplify_model_normal).
   [all_steps], [normal_forms]  every one-step successor / every reachable normal form (confluence search). *)
From DA Require Export ExprRules.
Open Scope Z_scope.

(* SliceSlicesIntegers._simplify_down, Transpose._simplify_down (the Elemwise pushdown is not measure-decreasing and is
   not part of the system), Rechunk._simplify_down *)
Definition down_rules : list (expr -> option expr) :=
  [rule_slice_identity; rule_slice_slice; rule_transpose_transpose; rule_transpose_identity; rule_rechunk_noop].

(* child._simplify_up(parent): child._accept_slice(parent) for a slice parent, parent._pushdown() for a Rechunk parent *)
Definition up_rules : list (expr -> option expr) :=
  [rule_slice_elemwise; rule_slice_transpose; rule_slice_arange; rule_slice_expand_dims; rule_slice_concat;
   rule_slice_stack; rule_slice_full; rule_slice_broadcast_to;
   rule_rechunk_rechunk; rule_rechunk_elemwise; rule_rechunk_fromarray; rule_rechunk_expand_dims; rule_rechunk_transpose].

Definition simp_rules : list (expr -> option expr) := down_rules ++ up_rules.

(* the first rule of the list that fires *)
Fixpoint first_rule (rs : list (expr -> option expr)) (e : expr) : option expr :=
  match rs with
  | [] => None
  | r :: t => match r e with Some e' => Some e' | None => first_rule t e end
  end.

Definition root_step (e : expr) : option expr := first_rule simp_rules e.

(* ---------------------------------------------------------------------- *)
(* the one-step rewrite relation: a rule at the root, or a step in one child *)
Inductive rstep : expr -> expr -> Prop :=
| rs_root : forall r e e', In r simp_rules -> r e = Some e' -> rstep e e'
| rs_slice : forall e e' ix o, rstep e e' -> rstep (ESlice e ix o) (ESlice e' ix o)
| rs_transpose : forall e e' axes, rstep e e' -> rstep (ETranspose e axes) (ETranspose e' axes)
| rs_rechunk : forall e e' s c p b pp, rstep e e' -> rstep (ERechunk e s c p b pp) (ERechunk e' s c p b pp)
| rs_expand_dims : forall e e' axes, rstep e e' -> rstep (EExpandDims e axes) (EExpandDims e' axes)
| rs_broadcast_to : forall e e' shp c, rstep e e' -> rstep (EBroadcastTo e shp c) (EBroadcastTo e' shp c)
| rs_tasks_rechunk : forall e e' c p, rstep e e' -> rstep (ETasksRechunk e c p) (ETasksRechunk e' c p)
| rs_elemwise : forall op l1 e e' l2, rstep e e' -> rstep (EElemwise op (l1 ++ e :: l2)) (EElemwise op (l1 ++ e' :: l2))
| rs_concat_head : forall e e' axis rest, rstep e e' -> rstep (EConcat e axis rest) (EConcat e' axis rest)
| rs_concat_rest : forall a axis l1 e e' l2, rstep e e' ->
    rstep (EConcat a axis (l1 ++ e :: l2)) (EConcat a axis (l1 ++ e' :: l2))
| rs_stack_head : forall e e' axis rest, rstep e e' -> rstep (EStack e axis rest) (EStack e' axis rest)
| rs_stack_rest : forall a axis l1 e e' l2, rstep e e' ->
    rstep (EStack a axis (l1 ++ e :: l2)) (EStack a axis (l1 ++ e' :: l2)).

(* reflexive-transitive closure *)
Inductive rsteps : expr -> expr -> Prop :=
| rss_refl : forall e, rsteps e e
| rss_step : forall e e1 e2, rstep e e1 -> rsteps e1 e2 -> rsteps e e2.

(* a rewrite sequence  e -> x1 -> x2 -> ... -> xn  (es = [x1; ...; xn]) *)
Fixpoint chain (e : expr) (es : list expr) : Prop :=
  match es with
  | [] => True
  | x :: t => rstep e x /\ chain x t
  end.

Definition normal (e : expr) : Prop := forall e', ~ rstep e e'.

(* ---------------------------------------------------------------------- *)
(* some rule fires somewhere in e *)
Fixpoint applicable (e : expr) : bool :=
  (match root_step e with Some _ => true | None => false end) ||
  match e with
  | ESlice x _ _ => applicable x
  | ETranspose x _ => applicable x
  | ERechunk x _ _ _ _ _ => applicable x
  | EExpandDims x _ => applicable x
  | EBroadcastTo x _ _ => applicable x
  | ETasksRechunk x _ _ => applicable x
  | EElemwise _ args => existsb applicable args
  | EConcat a _ rest => applicable a || existsb applicable rest
  | EStack a _ rest => applicable a || existsb applicable rest
  | _ => false
  end.

(* one outermost-first sweep *)
Fixpoint simplify_pass (e : expr) : expr :=
  match root_step e with
  | Some e' => e'
  | None =>
      match e with
      | ESlice x ix o => ESlice (simplify_pass x) ix o
      | ETranspose x axes => ETranspose (simplify_pass x) axes
      | ERechunk x s c p b pp => ERechunk (simplify_pass x) s c p b pp
      | EExpandDims x axes => EExpandDims (simplify_pass x) axes
      | EBroadcastTo x shp c => EBroadcastTo (simplify_pass x) shp c
      | ETasksRechunk x c p => ETasksRechunk (simplify_pass x) c p
      | EElemwise op args => EElemwise op (map simplify_pass args)
      | EConcat a axis rest => EConcat (simplify_pass a) axis (map simplify_pass rest)
      | EStack a axis rest => EStack (simplify_pass a) axis (map simplify_pass rest)
      | _ => e
      end
  end.

(* Expr.simplify: repeat until no rule fires anywhere *)
Fixpoint simplify_fuel (n : nat) (e : expr) : expr :=
  match n with
  | O => e
  | S n' => if applicable e then simplify_fuel n' (simplify_pass e) else e
  end.

Definition simplify_model (e : expr) : expr := simplify_fuel (mu e) e.

(* ---------------------------------------------------------------------- *)
(* every one-step successor (all rules, all positions) *)
Fixpoint root_steps (rs : list (expr -> option expr)) (e : expr) : list expr :=
  match rs with
  | [] => []
  | r :: t => match r e with Some e' => e' :: root_steps t e | None => root_steps t e end
  end.

Definition list_steps (f : expr -> list expr) : list expr -> list (list expr) :=
  fix go (l : list expr) : list (list expr) :=
    match l with
    | [] => []
    | x :: t => map (fun x' => x' :: t) (f x) ++ map (cons x) (go t)
    end.

Fixpoint all_steps (e : expr) : list expr :=
  root_steps simp_rules e ++
  match e with
  | ESlice x ix o => map (fun x' => ESlice x' ix o) (all_steps x)
  | ETranspose x axes => map (fun x' => ETranspose x' axes) (all_steps x)
  | ERechunk x s c p b pp => map (fun x' => ERechunk x' s c p b pp) (all_steps x)
  | EExpandDims x axes => map (fun x' => EExpandDims x' axes) (all_steps x)
  | EBroadcastTo x shp c => map (fun x' => EBroadcastTo x' shp c) (all_steps x)
  | ETasksRechunk x c p => map (fun x' => ETasksRechunk x' c p) (all_steps x)
  | EElemwise op args => map (EElemwise op) (list_steps all_steps args)
  | EConcat a axis rest =>
      map (fun a' => EConcat a' axis rest) (all_steps a) ++ map (EConcat a axis) (list_steps all_steps rest)
  | EStack a axis rest =>
      map (fun a' => EStack a' axis rest) (all_steps a) ++ map (EStack a axis) (list_steps all_steps rest)
  | _ => []
  end.

(* the set of normal forms reachable from a set of expressions (breadth-first, duplicates removed) *)
Definition add_new (x : expr) (l : list expr) : list expr :=
  if existsb (expr_eqb x) l then l else l ++ [x].

Fixpoint union_new (xs l : list expr) : list expr :=
  match xs with
  | [] => l
  | x :: t => union_new t (add_new x l)
  end.

Fixpoint normal_forms_from (n : nat) (frontier nfs : list expr) : list expr :=
  match n with
  | O => nfs
  | S n' =>
      match frontier with
      | [] => nfs
      | _ =>
          let nfs' := union_new (filter (fun e => negb (applicable e)) frontier) nfs in
          let next := union_new (concat (map all_steps frontier)) [] in
          normal_forms_from n' next nfs'
      end
  end.

Definition normal_forms (e : expr) : list expr := normal_forms_from (mu e) [e] [].

(* every maximal rewrite sequence from e ends in the same expression (checked by evaluation) *)
Definition confluent_at (e : expr) : bool := Nat.leb (length (normal_forms e)) 1.

(* ---------------------------------------------------------------------- *)
(* A critical pair (found by the harness on a generated program; reachable through the public API):
     x = from_array(arange(60).reshape(12, 5), chunks=((4, 2, 5, 1), (3, 1, 1)));  ((x * 2)[::2, 2:4:2])[:, ::2]
   Slice(Slice) fusion at the root against the pushdown of the INNER slice through the Elemwise: the fused index of a
   one-element axis keeps a different step (2:4:4 against 2:4:2) than the slice that was pushed first and then, its axis
   being of size 1, treated as a broadcast axis by Elemwise._accept_slice. *)
Definition cp_src : expr := ESource (SBase 1 [12; 5]) [[4; 2; 5; 1]; [3; 1; 1]] None true 8 1.
Definition cp_raw : expr :=
  ESlice (ESlice (EElemwise 1 [cp_src; EConst 1])
            [ISlice (mkslice None None (Some 2)); ISlice (mkslice (Some 2) (Some 4) (Some 2))] true)
         [ISlice (mkslice None None None); ISlice (mkslice None None (Some 2))] true.
Definition cp_nf1 : expr :=
  EElemwise 1 [ESlice cp_src [ISlice (mkslice None None (Some 2)); ISlice (mkslice (Some 2) (Some 4) (Some 4))] true; EConst 1].
Definition cp_nf2 : expr :=
  EElemwise 1 [ESlice cp_src [ISlice (mkslice None None (Some 2)); ISlice (mkslice (Some 2) (Some 4) (Some 2))] true; EConst 1].
