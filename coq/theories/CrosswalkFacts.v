(* T3 — soundness of the crosswalk checker crosswalk_ok with respect to a
   Prop-level specification in terms of element positions. *)
From DA Require Import PyBase PyBaseFacts Rechunk RechunkBase.
From Coq Require Import ZifyBool.
Open Scope Z_scope.
Ltac Zify.zify_post_hook ::= Z.to_euclidean_division_equations.

(* ------------------------------------------------------------------ *)
(* specification vocabulary *)

(* the integers lo, lo+1, ..., hi-1 *)
Definition seqZ (lo hi : Z) : list Z := map (fun k => lo + Z.of_nat k) (seq 0 (Z.to_nat (hi - lo))).

(* start position of block j of a chunking (independent of the model's cum0) *)
Definition cum (l : list Z) (j : nat) : Z := zsum (firstn j l).

(* the global positions covered by piece (i, a, b): slice [a, b) of old block i *)
Definition piece_positions (old : list Z) (p : Z * Z * Z) : list Z :=
  let '(i, a, b) := p in seqZ (cum old (Z.to_nat i) + a) (cum old (Z.to_nat i) + b).

Definition piece_in_bounds (old : list Z) (p : Z * Z * Z) : Prop :=
  let '(i, a, b) := p in 0 <= i < Z.of_nat (length old) /\ 0 <= a /\ a <= b /\ b <= nthZ old i.

(* ------------------------------------------------------------------ *)
Lemma seqZ_nil lo : seqZ lo lo = [].
Proof. unfold seqZ. rewrite Z.sub_diag. reflexivity. Qed.

Lemma seqZ_app lo mid hi : lo <= mid -> mid <= hi -> seqZ lo mid ++ seqZ mid hi = seqZ lo hi.
Proof.
  intros H1 H2. unfold seqZ.
  replace (Z.to_nat (hi - lo)) with (Z.to_nat (mid - lo) + Z.to_nat (hi - mid))%nat by lia.
  rewrite seq_app, map_app. f_equal.
  rewrite seq_shift_add, map_map. apply map_ext. intros k. lia.
Qed.

Lemma seqZ_length lo hi : lo <= hi -> Z.of_nat (length (seqZ lo hi)) = hi - lo.
Proof. intros H. unfold seqZ. rewrite map_length, seq_length. lia. Qed.

Lemma In_seqZ lo hi x : In x (seqZ lo hi) <-> lo <= x < hi.
Proof.
  unfold seqZ. rewrite in_map_iff. split.
  - intros (k & <- & Hk). apply in_seq in Hk. lia.
  - intros H. exists (Z.to_nat (x - lo)). split; [lia|]. apply in_seq. lia.
Qed.

Lemma cumsum_from_nth : forall l acc i,
  (i <= length l)%nat -> nth i (acc :: cumsum_from acc l) 0 = acc + zsum (firstn i l).
Proof.
  induction l as [|x t IH]; intros acc [|i] Hi; cbn [length] in Hi; try lia;
    cbn [cumsum_from firstn zsum nth]; try lia.
  change (nth i (acc + x :: cumsum_from (acc + x) t) 0 = acc + (x + zsum (firstn i t))).
  rewrite IH by lia. lia.
Qed.

Lemma cum0_nthZ old i : 0 <= i <= Z.of_nat (length old) -> nthZ (cum0 old) i = cum old (Z.to_nat i).
Proof.
  intros Hi. unfold nthZ, cum0, cumsum, cum. rewrite cumsum_from_nth by lia. lia.
Qed.

Lemma cum_S l : forall j c, nth_error l j = Some c -> cum l (S j) = cum l j + c.
Proof.
  unfold cum. induction l as [|x t IH]; intros [|j] c H; cbn [nth_error] in H; try discriminate.
  - injection H as <-. cbn [firstn zsum]. lia.
  - change (x + zsum (firstn (S j) t) = x + zsum (firstn j t) + c). rewrite (IH j c H). lia.
Qed.

(* ------------------------------------------------------------------ *)
Lemma pieces_tile_sound old : forall pieces pos hi,
  pieces_tile (cum0 old) old pieces pos hi = true ->
  pos <= hi /\ Forall (piece_in_bounds old) pieces /\
  concat (map (piece_positions old) pieces) = seqZ pos hi.
Proof.
  induction pieces as [|[[i a] b] t IH]; intros pos hi H; cbn [pieces_tile] in H.
  - apply Z.eqb_eq in H. subst hi. split; [lia|]. split; [constructor|]. rewrite seqZ_nil. reflexivity.
  - repeat (apply andb_true_iff in H; let H' := fresh "Hc" in destruct H as [H H']).
    apply IH in Hc. destruct Hc as (Hle & Hb & Hcat).
    unfold lenZ' in *.
    rewrite cum0_nthZ in * by lia.
    split; [lia|]. split.
    + constructor; [|exact Hb]. cbn. lia.
    + cbn [map concat piece_positions]. rewrite Hcat.
      replace (cum old (Z.to_nat i) + a) with pos by lia.
      apply seqZ_app; lia.
Qed.

Lemma crosswalk_ok_from_sound old : forall new cw pos,
  crosswalk_ok_from (cum0 old) old new cw pos = true ->
  length cw = length new /\
  forall j pieces, nth_error cw j = Some pieces ->
    pieces <> [] /\ Forall (piece_in_bounds old) pieces /\
    concat (map (piece_positions old) pieces) = seqZ (pos + cum new j) (pos + cum new (S j)).
Proof.
  induction new as [|c new' IH]; intros [|pieces cw'] pos H; cbn [crosswalk_ok_from] in H; try discriminate.
  - split; [reflexivity|]. intros [|j] p Hp; discriminate.
  - apply andb_true_iff in H. destruct H as [H H3].
    apply andb_true_iff in H. destruct H as [H1 H2].
    apply IH in H3. destruct H3 as [Hlen Hrest].
    split; [cbn [length]; congruence|].
    intros [|j] p Hp; cbn [nth_error] in Hp.
    + injection Hp as <-. apply pieces_tile_sound in H2. destruct H2 as (_ & Hb & Hcat).
      split; [destruct pieces; [discriminate|congruence]|]. split; [exact Hb|].
      rewrite Hcat. unfold cum. cbn [firstn zsum]. f_equal; lia.
    + destruct (Hrest j p Hp) as (Hne & Hb & Hcat). split; [exact Hne|]. split; [exact Hb|].
      rewrite Hcat. unfold cum. cbn [firstn zsum]. fold (cum new' j). fold (cum new' (S j)).
      f_equal; lia.
Qed.

(* T3: a crosswalk accepted by the checker gives, for every new block j, a
   non-empty list of in-bounds pieces of old blocks whose positions,
   concatenated in order, are exactly the positions of new block j. *)
Theorem crosswalk_sound old new cw :
  crosswalk_ok old new cw = true ->
  length cw = length new /\
  forall j pieces, nth_error cw j = Some pieces ->
    pieces <> [] /\
    Forall (piece_in_bounds old) pieces /\
    concat (map (piece_positions old) pieces) = seqZ (cum new j) (cum new (S j)).
Proof.
  unfold crosswalk_ok. intros H. apply crosswalk_ok_from_sound in H. destruct H as [Hlen H].
  split; [exact Hlen|]. intros j pieces Hp. specialize (H j pieces Hp).
  rewrite !Z.add_0_l in H. exact H.
Qed.

(* every position of a piece really lies inside its old block
   [cum old i, cum old (i+1)) and inside new block j *)
Corollary crosswalk_piece_inside old new cw j pieces i a b x :
  crosswalk_ok old new cw = true ->
  nth_error cw j = Some pieces -> In (i, a, b) pieces -> In x (piece_positions old (i, a, b)) ->
  cum old (Z.to_nat i) <= x < cum old (S (Z.to_nat i)) /\ cum new j <= x < cum new (S j).
Proof.
  intros H Hp Hin Hx. apply crosswalk_sound in H. destruct H as [_ H].
  destruct (H j pieces Hp) as (_ & Hb & Hcat). split.
  - rewrite Forall_forall in Hb. specialize (Hb _ Hin). cbn in Hb, Hx. apply In_seqZ in Hx.
    assert (Z.to_nat i < length old)%nat as Hi by lia.
    destruct (nth_error old (Z.to_nat i)) as [c|] eqn:En; [|apply nth_error_None in En; lia].
    rewrite (cum_S old _ c En). unfold nthZ in Hb. rewrite (nth_error_nth _ _ _ En) in Hb. lia.
  - apply In_seqZ. rewrite <- Hcat. apply in_concat. exists (piece_positions old (i, a, b)).
    split; [|exact Hx]. apply in_map. exact Hin.
Qed.

Example crosswalk_sound_hyps_sat :
  crosswalk_ok [10;10;10;10;10] [25;5;20]
    [[(0,0,10);(1,0,10);(2,0,5)]; [(2,5,10)]; [(3,0,10);(4,0,10)]] = true.
Proof. vm_compute. reflexivity. Qed.
