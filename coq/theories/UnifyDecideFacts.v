(* Proofs about the decision layer of unify_chunks_expr modelled in UnifyDecide.v.
   Every theorem quantifies over the two oracles of the model: [qcmp] (every float comparison of
   costs) and [pick] (set-iteration tie-break of coarse_blockdim). *)
From DA Require Import PyBase PyBaseFacts Unify UnifyFacts UnifyDecide.
From Coq Require Import ZifyBool.
Open Scope Z_scope.
Ltac Zify.zify_post_hook ::= Z.to_euclidean_division_equations.

(* ---------------------------------------------------------------------- *)
(* association lists *)
Lemma lookup_In j m c : lookup j m = Some c -> In (j, c) m.
Proof.
  induction m as [|[k d] t IH]; cbn [lookup]; [discriminate|].
  destruct (k =? j) eqn:E; intros H.
  - apply Z.eqb_eq in E. injection H as <-. subst k. left. reflexivity.
  - right. apply IH. exact H.
Qed.

Lemma lookup_some_of_key j (m : chunkmap) : In j (map fst m) -> exists c, lookup j m = Some c.
Proof.
  induction m as [|[k d] t IH]; cbn [map fst In lookup]; [contradiction|].
  intros [H|H].
  - subst k. rewrite Z.eqb_refl. eexists. reflexivity.
  - destruct (k =? j); [eexists; reflexivity | apply IH; exact H].
Qed.

Lemma lookup_nodup j c (m : chunkmap) : NoDup (map fst m) -> In (j, c) m -> lookup j m = Some c.
Proof.
  induction m as [|[k d] t IH]; cbn [map fst In lookup]; [contradiction|].
  intros Hnd [H|H].
  - injection H as -> ->. rewrite Z.eqb_refl. reflexivity.
  - inversion Hnd as [|k' t' Hk Hnd']; subst k' t'.
    destruct (k =? j) eqn:E.
    + apply Z.eqb_eq in E. subst k. exfalso. apply Hk. apply (in_map fst) in H. exact H.
    + apply IH; assumption.
Qed.

(* ---------------------------------------------------------------------- *)
(* broadcast_dimensions *)
Lemma bd_all_keys cons ops ls m : bd_all cons ops ls = Some m -> map fst m = ls.
Proof.
  revert m. induction ls as [|j t IH]; intros m; cbn [bd_all].
  - intros H. injection H as <-. reflexivity.
  - destruct (cons j (label_dims ops j)) as [r|]; [|discriminate].
    destruct (bd_all cons ops t) as [m'|]; [|discriminate].
    intros H. injection H as <-. cbn [map fst]. rewrite (IH m' eq_refl). reflexivity.
Qed.

Lemma bd_all_In cons ops ls m j c :
  bd_all cons ops ls = Some m -> In (j, c) m -> In j ls /\ cons j (label_dims ops j) = UOk c.
Proof.
  revert m. induction ls as [|k t IH]; intros m; cbn [bd_all].
  - intros H. injection H as <-. contradiction.
  - destruct (cons k (label_dims ops k)) as [r|] eqn:Ec; [|discriminate].
    destruct (bd_all cons ops t) as [m'|]; [|discriminate].
    intros H. injection H as <-. intros [Hin|Hin].
    + injection Hin as -> ->. split; [left; reflexivity | exact Ec].
    + destruct (IH m' eq_refl Hin) as [H1 H2]. split; [right; exact H1 | exact H2].
Qed.

Lemma bd_all_lookup cons ops ls m j :
  bd_all cons ops ls = Some m -> In j ls ->
  exists r, lookup j m = Some r /\ cons j (label_dims ops j) = UOk r.
Proof.
  intros H Hj.
  destruct (lookup_some_of_key j m) as [r Hr].
  { rewrite (bd_all_keys _ _ _ _ H). exact Hj. }
  exists r. split; [exact Hr|].
  apply lookup_In in Hr. apply (bd_all_In _ _ _ _ _ _ H Hr).
Qed.

Lemma in_nodupZ x l : In x (nodupZ l) <-> In x l.
Proof.
  induction l as [|y t IH]; cbn [nodupZ]; [reflexivity|].
  destruct (existsb (Z.eqb y) t) eqn:E; cbn [In]; rewrite IH.
  - apply existsb_exists in E. destruct E as [z [Hz Hyz]]. apply Z.eqb_eq in Hyz. subst z.
    split; [intros H; right; exact H | intros [H|H]; [subst x; exact Hz | exact H]].
  - reflexivity.
Qed.

Lemma nodupZ_NoDup l : NoDup (nodupZ l).
Proof.
  induction l as [|y t IH]; cbn [nodupZ]; [constructor|].
  destruct (existsb (Z.eqb y) t) eqn:E; [exact IH|].
  constructor; [|exact IH].
  intros Hin. apply (proj1 (in_nodupZ y t)) in Hin.
  assert (existsb (Z.eqb y) t = true) as E'; [|congruence].
  apply existsb_exists. exists y. split; [exact Hin | apply Z.eqb_refl].
Qed.

Lemma all_axes_In ops a :
  In a (all_axes ops) <-> exists o, In o ops /\ In a (axes o).
Proof.
  unfold all_axes, parts. rewrite in_flat_map. split.
  - intros [o [Ho Ha]]. apply filter_In in Ho. exists o. split; [apply Ho | exact Ha].
  - intros [o [Ho Ha]]. exists o. split; [|exact Ha]. apply filter_In. split; [exact Ho|].
    unfold participates. unfold axes in Ha. destruct (o_ind o); [cbn in Ha; contradiction | reflexivity].
Qed.

Lemma labels_In ops j : In j (labels ops) <-> exists a, In a (all_axes ops) /\ ax_label a = j.
Proof.
  unfold labels. rewrite in_nodupZ, in_map_iff. split; intros [a [H1 H2]]; exists a; split; assumption.
Qed.

(* the layouts that reach `consolidate` for label j are operand layouts of label j ... *)
Lemma label_dims_In ops j d :
  In d (label_dims ops j) -> exists a, In a (all_axes ops) /\ ax_label a = j /\ ax_layout a = d.
Proof.
  unfold label_dims. intros H.
  assert (In d (dedup (map ax_layout (filter (fun a => ax_label a =? j) (all_axes ops))))) as H'.
  { destruct (1 <? length _)%nat; [apply filter_In in H; apply H | exact H]. }
  apply (proj1 (dedup_In _ _)) in H'. apply (proj1 (in_map_iff _ _ _)) in H'. destruct H' as [a [Ha Hin]].
  apply filter_In in Hin. destruct Hin as [Hin Hl]. exists a. repeat split; [exact Hin | lia | exact Ha].
Qed.

(* ... and every operand layout other than the sentinel (1,) reaches it *)
Lemma label_dims_complete ops a :
  In a (all_axes ops) -> ax_layout a <> [1] -> In (ax_layout a) (label_dims ops (ax_label a)).
Proof.
  intros Hin Hne. unfold label_dims.
  assert (In (ax_layout a) (dedup (map ax_layout (filter (fun b => ax_label b =? ax_label a) (all_axes ops))))) as H.
  { apply dedup_In. apply in_map. apply filter_In. split; [exact Hin | apply Z.eqb_refl]. }
  destruct (1 <? length _)%nat; [|exact H].
  apply filter_In. split; [exact H|].
  destruct (zlist_eqb (ax_layout a) [1]) eqn:E; [|reflexivity].
  apply zlist_eqb_eq in E. contradiction.
Qed.

(* ---------------------------------------------------------------------- *)
(* the cost-aware pass: where the candidate layouts come from *)
Lemma seen_dedup_incl ops : forall seen o, In o (seen_dedup seen ops) -> In o ops.
Proof.
  induction ops as [|x t IH]; intros seen o; cbn [seen_dedup]; [intros []|].
  destruct (existsb (key_eqb x) seen); cbn [In].
  - intros H. right. apply (IH _ _ H).
  - intros [H|H]; [left; exact H | right; apply (IH _ _ H)].
Qed.

Lemma entries_In ops j e :
  In e (entries ops j) ->
  exists o a, In o ops /\ In a (axes o) /\ has_opinion j a = true /\ e = (ax_layout a, o_nbytes o).
Proof.
  unfold entries. rewrite in_flat_map. intros [o [Ho He]].
  apply seen_dedup_incl in Ho. unfold parts in Ho. apply filter_In in Ho.
  apply in_map_iff in He. destruct He as [a [Hea Ha]]. apply filter_In in Ha.
  exists o, a. repeat split; [apply Ho | apply Ha | apply Ha | symmetry; exact Hea].
Qed.

Lemma entries_label_dims ops j e : In e (entries ops j) -> In (fst e) (label_dims ops j).
Proof.
  intros H. destruct (entries_In _ _ _ H) as [o [a [Ho [Ha [Hop ->]]]]]. cbn [fst].
  unfold has_opinion in Hop. apply andb_true_iff in Hop. destruct Hop as [Hop Hlen].
  apply andb_true_iff in Hop. destruct Hop as [Hlab Hsz].
  assert (ax_label a = j) as <- by lia.
  apply label_dims_complete.
  - apply all_axes_In. exists o. split; assumption.
  - intros E. rewrite E in Hlen. cbn in Hlen. discriminate.
Qed.

Lemma cand_add_In src nb cs c :
  In c (cand_add src nb cs) -> fst c = src \/ exists c', In c' cs /\ fst c' = fst c.
Proof.
  induction cs as [|[l b] t IH]; cbn [cand_add].
  - intros [<-|[]]. left. reflexivity.
  - destruct (zlist_eqb l src) eqn:E; cbn [In].
    + intros [<-|H].
      * right. exists (l, b). split; [left; reflexivity | reflexivity].
      * right. exists c. split; [right; exact H | reflexivity].
    + intros [<-|H].
      * right. exists (l, b). split; [left; reflexivity | reflexivity].
      * destruct (IH H) as [H'|[c' [H1 H2]]]; [left; exact H' | right; exists c'; split; [right; exact H1 | exact H2]].
Qed.

Lemma candidates_In es c : In c (candidates es) -> exists e, In e es /\ fst e = fst c.
Proof.
  unfold candidates.
  assert (forall es acc, In c (fold_left (fun cs e => cand_add (fst e) (snd e) cs) es acc) ->
                         (exists e, In e es /\ fst e = fst c) \/ (exists c', In c' acc /\ fst c' = fst c)) as G.
  { clear es. induction es as [|e t IH]; intros acc; cbn [fold_left].
    - intros H. right. exists c. split; [exact H | reflexivity].
    - intros H. destruct (IH _ H) as [[e' [H1 H2]]|[c' [H1 H2]]].
      + left. exists e'. split; [right; exact H1 | exact H2].
      + destruct (cand_add_In _ _ _ _ H1) as [H3|[c'' [H3 H4]]].
        * left. exists e. split; [left; reflexivity | congruence].
        * right. exists c''. split; [exact H3 | congruence]. }
  intros H. destruct (G es [] H) as [H'|[c' [[] _]]]. exact H'.
Qed.

Lemma feasible_In qcmp es f : In f (feasible qcmp es) -> exists e, In e es /\ fst e = f_layout f.
Proof.
  unfold feasible. rewrite in_flat_map. intros [c [Hc Hf]].
  destruct (qcmp _ _); cbn [In] in Hf; try contradiction;
    destruct Hf as [<-|[]]; cbn [f_layout]; apply candidates_In; exact Hc.
Qed.

Lemma feas_min_In qcmp fs : forall f, In (feas_min qcmp f fs) (f :: fs).
Proof.
  unfold feas_min. induction fs as [|x t IH]; intros f; cbn [fold_left].
  - left. reflexivity.
  - destruct (feas_ltb qcmp x f).
    + right. apply IH.
    + destruct (IH f) as [H|H]; [left; exact H | right; right; exact H].
Qed.

(* the realignment returns the layout it was given or the layout of one of the entries *)
Lemma realign_cases qcmp es t0 t r :
  realign qcmp es t0 t r = t \/ exists e, In e es /\ fst e = realign qcmp es t0 t r.
Proof.
  unfold realign. destruct es as [|e0 es']; [left; reflexivity|].
  set (es := e0 :: es').
  destruct (has_anchor es t0 && negb r); [left; reflexivity|].
  destruct (existsb _ es); [left; reflexivity|].
  destruct (feasible qcmp es) as [|f fs] eqn:Ef; [left; reflexivity|].
  right. apply (feasible_In qcmp es). rewrite Ef. apply feas_min_In.
Qed.

(* ---------------------------------------------------------------------- *)
(* (T1) no invented layouts *)

(* the decided layout of label j is one of the layouts given to `consolidate` or their common refinement *)
Definition good (ops : list operand) (jc : Z * list Z) : Prop :=
  In (fst jc) (labels ops) /\
  (In (snd jc) (label_dims ops (fst jc)) \/ common_blockdim (label_dims ops (fst jc)) = UOk (snd jc)).

Lemma good_cons pick pol ops c0 :
  bd_all (match pol with PRefine => fun _ => common_blockdim | _ => fun j => coarse_blockdim (pick j) end)
         ops (labels ops) = Some c0 ->
  Forall (good ops) c0.
Proof.
  intros H. apply Forall_forall. intros [j c] Hin.
  destruct (bd_all_In _ _ _ _ _ _ H Hin) as [Hj Hc]. split; [exact Hj|]. cbn [fst snd].
  assert (coarse_blockdim (pick j) (label_dims ops j) = UOk c ->
          In c (label_dims ops j) \/ common_blockdim (label_dims ops j) = UOk c) as G.
  { intros Hc'. destruct (coarse_blockdim_spec_gen _ _ _ Hc') as [Hcm|[Hr _]]; [right; exact Hcm | left; exact Hr]. }
  destruct pol; [apply G; exact Hc | apply G; exact Hc | right; exact Hc].
Qed.

Lemma fine_get ops f j :
  bd_all (fun _ => common_blockdim) ops (labels ops) = Some f -> In j (labels ops) ->
  common_blockdim (label_dims ops j) = UOk (get j f).
Proof.
  intros Hf Hj. destruct (bd_all_lookup _ _ _ _ _ Hf Hj) as [r [Hl Hr]].
  unfold get. rewrite Hl. exact Hr.
Qed.

Lemma auto_step_good qcmp ops f jc :
  good ops jc ->
  (refused_b qcmp (entries ops (fst jc)) (snd jc) = true ->
   bd_all (fun _ => common_blockdim) ops (labels ops) = Some f) ->
  good ops (auto_step qcmp ops f jc).
Proof.
  intros [Hj Hg] Hf. unfold auto_step. split; [exact Hj|]. cbn [fst snd].
  match goal with |- context [realign ?q ?es ?t0 ?t ?r] =>
    destruct (realign_cases q es t0 t r) as [E|[e [He E]]] end.
  - rewrite E. destruct (refused_b qcmp _ _) eqn:Er; [|exact Hg].
    right. apply fine_get; [apply Hf; reflexivity | exact Hj].
  - rewrite <- E. left. apply entries_label_dims. exact He.
Qed.

Lemma auto_pass_good qcmp ops c0 c1 :
  Forall (good ops) c0 ->
  auto_pass qcmp ops c0 (bd_all (fun _ => common_blockdim) ops (labels ops)) = Some c1 ->
  Forall (good ops) c1 /\ map fst c1 = map fst c0.
Proof.
  intros Hg. unfold auto_pass.
  destruct (existsb _ c0) eqn:Eex.
  - destruct (bd_all _ ops (labels ops)) as [f|] eqn:Ef; [|discriminate].
    intros H. injection H as <-. split.
    + apply Forall_forall. intros x Hx. apply in_map_iff in Hx. destruct Hx as [jc [<- Hjc]].
      apply auto_step_good; [rewrite Forall_forall in Hg; apply Hg; exact Hjc | intros _; exact Ef].
    + rewrite map_map. apply map_ext. intros jc. reflexivity.
  - intros H. injection H as <-. split.
    + apply Forall_forall. intros x Hx. apply in_map_iff in Hx. destruct Hx as [jc [<- Hjc]].
      apply auto_step_good; [rewrite Forall_forall in Hg; apply Hg; exact Hjc|].
      intros Hr. exfalso.
      assert (existsb (fun jc => refused_b qcmp (entries ops (fst jc)) (snd jc)) c0 = true) as E'; [|congruence].
      apply existsb_exists. exists jc. split; assumption.
    + rewrite map_map. apply map_ext. intros jc. reflexivity.
Qed.

Lemma size_guard_good l ops c1 R :
  Forall (good ops) c1 ->
  size_guard l ops c1 (bd_all (fun _ => common_blockdim) ops (labels ops)) = Some R ->
  Forall (good ops) R /\ map fst R = map fst c1.
Proof.
  intros Hg. unfold size_guard. destruct (worst_bytes c1 ops >? l).
  - destruct (bd_all _ ops (labels ops)) as [f|] eqn:Ef; [|discriminate].
    intros H. injection H as <-. split.
    + apply Forall_forall. intros x Hx. apply in_map_iff in Hx. destruct Hx as [jc [<- Hjc]].
      rewrite Forall_forall in Hg. specialize (Hg jc Hjc).
      destruct (length (snd jc) <? length (get (fst jc) f))%nat; [|exact Hg].
      destruct Hg as [Hj _]. split; [exact Hj|]. right. cbn [fst snd]. apply fine_get; assumption.
    + rewrite map_map. apply map_ext. intros jc. destruct (_ <? _)%nat; reflexivity.
  - intros H. injection H as <-. split; [exact Hg | reflexivity].
Qed.

(* the general (non early-return) path of unify_decide *)
Definition general_path (qcmp : rat -> rat -> comparison) (pick : Z -> nat) (pol : policy)
           (limit : option Z) (ops : list operand) : option chunkmap :=
  let ls := labels ops in
  let cons := match pol with PRefine => fun _ => common_blockdim | _ => fun j => coarse_blockdim (pick j) end in
  match bd_all cons ops ls with
  | None => None
  | Some c0 =>
      let fine := bd_all (fun _ => common_blockdim) ops ls in
      match (match pol with PAuto => auto_pass qcmp ops c0 fine | _ => Some c0 end) with
      | None => None
      | Some c1 =>
          match pol, limit with
          | PRefine, _ => Some c1
          | _, None => Some c1
          | _, Some l => if l =? 0 then Some c1 else size_guard l ops c1 fine
          end
      end
  end.

Definition early_b (ops : list operand) (o0 : operand) : bool :=
  forallb (fun o => zlist_eqb (o_ind o) (o_ind o0)) ops && forallb (fun o => zlist2_eqb (o_chunks o) (o_chunks o0)) ops.

Lemma unify_decide_unfold qcmp pick pol limit ops :
  unify_decide qcmp pick pol limit ops =
  match ops with
  | [] => Some []
  | o0 :: _ => if early_b ops o0 then Some (early_map o0) else general_path qcmp pick pol limit ops
  end.
Proof. destruct ops; reflexivity. Qed.

Lemma general_path_good qcmp pick pol limit ops R :
  general_path qcmp pick pol limit ops = Some R ->
  Forall (good ops) R /\ map fst R = labels ops.
Proof.
  unfold general_path.
  destruct (bd_all _ ops (labels ops)) as [c0|] eqn:E0; [|discriminate].
  pose proof (good_cons pick pol ops c0 E0) as Hg0.
  pose proof (bd_all_keys _ _ _ _ E0) as Hk0.
  assert (forall c1,
    match pol with PAuto => auto_pass qcmp ops c0 (bd_all (fun _ => common_blockdim) ops (labels ops)) | _ => Some c0 end = Some c1 ->
    Forall (good ops) c1 /\ map fst c1 = labels ops) as H1.
  { intros c1 Hc1. destruct pol.
    - destruct (auto_pass_good _ _ _ _ Hg0 Hc1) as [Ha Hb]. split; [exact Ha | congruence].
    - injection Hc1 as <-. split; assumption.
    - injection Hc1 as <-. split; assumption. }
  destruct (match pol with PAuto => _ | _ => _ end) as [c1|] eqn:E1; [|discriminate].
  destruct (H1 c1 eq_refl) as [Hg1 Hk1].
  assert (forall l, size_guard l ops c1 (bd_all (fun _ => common_blockdim) ops (labels ops)) = Some R ->
                    Forall (good ops) R /\ map fst R = labels ops) as H2.
  { intros l Hl. destruct (size_guard_good _ _ _ _ Hg1 Hl) as [Ha Hb]. split; [exact Ha | congruence]. }
  destruct pol; destruct limit as [l|];
    try (intros H; injection H as <-; split; assumption);
    (destruct (l =? 0); [intros H; injection H as <-; split; assumption | apply H2]).
Qed.

(* [c] is the layout of an axis labelled j of some operand *)
Lemma good_operand_layout ops jc :
  good ops jc ->
  operand_layout ops (fst jc) (snd jc) \/ common_blockdim (label_dims ops (fst jc)) = UOk (snd jc).
Proof.
  intros [_ [H|H]]; [left | right; exact H].
  destruct (label_dims_In _ _ _ H) as [a [Ha [Hl Hc]]].
  apply all_axes_In in Ha. destruct Ha as [o [Ho Ha]].
  exists o. split; [exact Ho|]. unfold axes in Ha.
  destruct a as [[j' c'] s]. cbn [ax_label ax_layout fst snd] in Hl, Hc. subst j' c'.
  apply in_combine_l in Ha. exact Ha.
Qed.

Lemma early_map_In o j c : In (j, c) (early_map o) -> In (j, c) (combine (o_ind o) (o_chunks o)).
Proof. unfold early_map. intros H. apply in_rev in H. exact H. Qed.

Theorem unify_decide_no_invented_layout qcmp pick pol limit ops R :
  unify_decide qcmp pick pol limit ops = Some R ->
  forall j c, In (j, c) R ->
  operand_layout ops j c \/ common_blockdim (label_dims ops j) = UOk c.
Proof.
  rewrite unify_decide_unfold. destruct ops as [|o0 t]; [intros H; injection H as <-; intros j c []|].
  destruct (early_b (o0 :: t) o0).
  - intros H. injection H as <-. intros j c Hin. left. exists o0.
    split; [left; reflexivity | apply early_map_In; exact Hin].
  - intros H j c Hin. destruct (general_path_good _ _ _ _ _ _ H) as [Hg _].
    rewrite Forall_forall in Hg. apply (good_operand_layout _ (j, c)). apply Hg. exact Hin.
Qed.

(* ---------------------------------------------------------------------- *)
(* well-formed operand sets: what the callers of unify_chunks_expr establish.
   [dim j] is the length of index j; an axis either has that length or is a broadcast axis (length 1);
   layouts are non-empty, strictly positive (the zero-size chunk case is finding F23) and add up to the
   axis length; an operand does not repeat a label. *)
Definition wf_operand (dim : Z -> Z) (o : operand) : Prop :=
  length (o_ind o) = length (o_chunks o) /\ length (o_chunks o) = length (o_shape o) /\
  NoDup (o_ind o) /\ 0 <= o_itemsize o /\
  forall a, In a (axes o) ->
    ax_layout a <> [] /\ pos_layout (ax_layout a) /\ zsum (ax_layout a) = ax_size a /\
    (ax_size a = dim (ax_label a) \/ ax_size a = 1).

Lemma wf_all_axes dim ops a :
  Forall (wf_operand dim) ops -> In a (all_axes ops) ->
  ax_layout a <> [] /\ pos_layout (ax_layout a) /\ zsum (ax_layout a) = ax_size a /\
  (ax_size a = dim (ax_label a) \/ ax_size a = 1).
Proof.
  intros Hwf Ha. apply all_axes_In in Ha. destruct Ha as [o [Ho Ha]].
  rewrite Forall_forall in Hwf. destruct (Hwf o Ho) as [_ [_ [_ [_ H]]]]. apply H. exact Ha.
Qed.

Lemma pos_sum_one d : pos_layout d -> d <> [] -> zsum d = 1 -> d = [1].
Proof.
  intros Hp Hne Hs. destruct d as [|x t]; [congruence|].
  inversion Hp as [|x' t' Hx Ht]; subst x' t'. cbn [zsum] in Hs.
  pose proof (zsum_nonneg t (pos_nonneg t Ht)) as Hn.
  assert (t = []) as -> by (apply zsum_pos_nil; [exact Ht | lia]).
  cbn [zsum] in Hs. f_equal. lia.
Qed.

Definition raw_dims (ops : list operand) (j : Z) : list (list Z) :=
  dedup (map ax_layout (filter (fun a => ax_label a =? j) (all_axes ops))).

Lemma label_dims_eq ops j :
  label_dims ops j = if (1 <? length (raw_dims ops j))%nat
                     then filter (fun d => negb (zlist_eqb d [1])) (raw_dims ops j) else raw_dims ops j.
Proof. reflexivity. Qed.

Lemma raw_dims_In ops j d :
  In d (raw_dims ops j) <-> exists a, In a (all_axes ops) /\ ax_label a = j /\ ax_layout a = d.
Proof.
  unfold raw_dims. rewrite dedup_In, in_map_iff. split.
  - intros [a [Ha Hin]]. apply filter_In in Hin. destruct Hin as [Hin Hl]. exists a. repeat split; [exact Hin | lia | exact Ha].
  - intros [a [Hin [Hl Ha]]]. exists a. split; [exact Ha|]. apply filter_In. split; [exact Hin | lia].
Qed.

Lemma label_dims_wf dim ops j :
  Forall (wf_operand dim) ops ->
  Forall pos_layout (label_dims ops j) /\ exists n, forall d, In d (label_dims ops j) -> zsum d = n.
Proof.
  intros Hwf. split.
  - apply Forall_forall. intros d Hd. destruct (label_dims_In _ _ _ Hd) as [a [Ha [_ <-]]].
    apply (wf_all_axes dim ops a Hwf Ha).
  - rewrite label_dims_eq. destruct (1 <? length (raw_dims ops j))%nat eqn:E.
    + exists (dim j). intros d Hd. apply filter_In in Hd. destruct Hd as [Hd Hne].
      apply raw_dims_In in Hd. destruct Hd as [a [Ha [Hl Hla]]].
      destruct (wf_all_axes dim ops a Hwf Ha) as [Hnil [Hpos [Hsum Hsz]]].
      rewrite <- Hla, Hsum. destruct Hsz as [Hsz|Hsz]; [congruence|].
      exfalso. rewrite Hsz in Hsum. rewrite (pos_sum_one _ Hpos Hnil Hsum) in Hla. subst d.
      cbn in Hne. discriminate.
    + destruct (raw_dims ops j) as [|x [|y t]].
      * exists 0. intros d [].
      * exists (zsum x). intros d [<-|[]]. reflexivity.
      * cbn [length] in E. apply Nat.ltb_ge in E. lia.
Qed.

(* a non-broadcast axis' own layout is among the layouts consolidated for its label *)
Lemma own_layout_in_dims dim ops o a :
  Forall (wf_operand dim) ops -> In o ops -> In a (axes o) -> 1 < ax_size a ->
  In (ax_layout a) (label_dims ops (ax_label a)).
Proof.
  intros Hwf Ho Ha Hsz. assert (In a (all_axes ops)) as Hin by (apply all_axes_In; exists o; split; assumption).
  apply label_dims_complete; [exact Hin|].
  destruct (wf_all_axes dim ops a Hwf Hin) as [_ [_ [Hsum _]]].
  intros E. rewrite E in Hsum. cbn in Hsum. lia.
Qed.

Lemma zlist2_eqb_true a b : zlist2_eqb a b = true -> a = b.
Proof.
  unfold zlist2_eqb. revert b. induction a as [|x a IH]; intros [|y b]; cbn [list_eqb]; intros H;
    try discriminate; try reflexivity.
  apply andb_true_iff in H. destruct H as [H1 H2]. apply zlist_eqb_eq in H1. apply IH in H2. congruence.
Qed.

Lemma early_b_spec ops o0 o :
  early_b ops o0 = true -> In o ops -> o_ind o = o_ind o0 /\ o_chunks o = o_chunks o0.
Proof.
  unfold early_b. intros H Ho. apply andb_true_iff in H. destruct H as [H1 H2].
  rewrite forallb_forall in H1, H2. split.
  - apply zlist_eqb_eq. apply H1. exact Ho.
  - apply zlist2_eqb_true. apply H2. exact Ho.
Qed.

Lemma map_fst_combine {A B} (l : list A) : forall (l' : list B),
  length l = length l' -> map fst (combine l l') = l.
Proof.
  induction l as [|x t IH]; intros [|y t'] H; cbn [length] in H; try discriminate; [reflexivity|].
  cbn [combine map fst]. f_equal. apply IH. lia.
Qed.

Lemma in_combine_ex {A B} (l : list A) : forall (l' : list B) x,
  length l = length l' -> In x l -> exists y, In (x, y) (combine l l').
Proof.
  induction l as [|a t IH]; intros [|b t'] x H Hx; cbn [length] in H; try discriminate; [contradiction|].
  destruct Hx as [<-|Hx].
  - exists b. left. reflexivity.
  - destruct (IH t' x ltac:(lia) Hx) as [y Hy]. exists y. right. exact Hy.
Qed.

(* early return: chunkss[label of an axis] is that axis' own layout *)
Lemma early_get dim o0 o a :
  wf_operand dim o -> o_ind o = o_ind o0 -> o_chunks o = o_chunks o0 -> In a (axes o) ->
  lookup (ax_label a) (early_map o0) = Some (ax_layout a).
Proof.
  intros [Hl1 [Hl2 [Hnd _]]] Hi Hc Ha. unfold early_map. rewrite <- Hi, <- Hc.
  apply lookup_nodup.
  - rewrite map_rev. apply NoDup_rev. rewrite map_fst_combine by exact Hl1. exact Hnd.
  - apply -> in_rev. unfold axes in Ha. destruct a as [[j c] s]. apply in_combine_l in Ha. exact Ha.
Qed.

(* (T1, second half) the decided layout of an index adds up to the length of every non-broadcast operand
   axis on that index *)
Theorem unify_decide_total_length qcmp pick pol limit ops dim R :
  Forall (wf_operand dim) ops ->
  unify_decide qcmp pick pol limit ops = Some R ->
  forall o a, In o ops -> In a (axes o) -> 1 < ax_size a ->
  exists c, lookup (ax_label a) R = Some c /\ zsum c = ax_size a.
Proof.
  intros Hwf. rewrite unify_decide_unfold. destruct ops as [|o0 t]; [intros _ o a []|].
  destruct (early_b (o0 :: t) o0) eqn:Ee.
  - intros H o a Ho Ha Hsz. injection H as <-.
    destruct (early_b_spec _ _ _ Ee Ho) as [Hi Hc].
    exists (ax_layout a). split.
    + apply (early_get dim o0 o a); try assumption. rewrite Forall_forall in Hwf. apply Hwf. exact Ho.
    + rewrite Forall_forall in Hwf. destruct (Hwf o Ho) as [_ [_ [_ [_ H]]]]. apply (H a Ha).
  - intros H o a Ho Ha Hsz. destruct (general_path_good _ _ _ _ _ _ H) as [Hg Hk].
    set (j := ax_label a).
    assert (In j (labels (o0 :: t))) as Hj.
    { apply labels_In. exists a. split; [apply all_axes_In; exists o; split; assumption | reflexivity]. }
    destruct (lookup_some_of_key j R) as [c Hc]; [rewrite Hk; exact Hj|].
    exists c. split; [exact Hc|].
    rewrite Forall_forall in Hg. destruct (Hg (j, c) (lookup_In _ _ _ Hc)) as [_ Hgood]. cbn [fst snd] in Hgood.
    destruct (label_dims_wf dim (o0 :: t) j Hwf) as [Hpos [n Hn]].
    pose proof (own_layout_in_dims dim _ o a Hwf Ho Ha Hsz) as Hown. fold j in Hown.
    assert (ax_size a = n) as ->.
    { rewrite <- (Hn _ Hown). symmetry. rewrite Forall_forall in Hwf. destruct (Hwf o Ho) as [_ [_ [_ [_ H']]]]. apply (H' a Ha). }
    destruct Hgood as [Hin|Hcm]; [apply Hn; exact Hin|].
    apply (common_blockdim_zsum _ n c Hpos Hn Hcm). intros E. rewrite E in Hown. contradiction.
Qed.

(* ---------------------------------------------------------------------- *)
(* (T2) the growth bound established by the size guard *)
Lemma fold_max_shift t : forall h, 0 <= h -> nonneg_layout t ->
  fold_right Z.max h t = Z.max h (fold_right Z.max 0 t).
Proof.
  induction t as [|x t IH]; intros h Hh Ht; cbn [fold_right]; [lia|].
  inversion Ht as [|x' t' Hx Ht']; subst x' t'. rewrite (IH h Hh Ht'). lia.
Qed.

Lemma pymax_zmax l : nonneg_layout l -> pymax l = zmax_list l.
Proof.
  intros Hl. destruct l as [|h t]; [reflexivity|].
  inversion Hl as [|h' t' Hh Ht]; subst h' t'.
  unfold pymax, zmax_list. cbn [fold_right]. apply fold_max_shift; assumption.
Qed.

Lemma zprod_map_le {A} (f g : A -> Z) (l : list A) :
  (forall a, In a l -> 0 <= f a <= g a) -> 0 <= zprod (map f l) <= zprod (map g l).
Proof.
  induction l as [|a t IH]; intros H; cbn [map zprod]; [lia|].
  pose proof (H a (or_introl eq_refl)) as Ha.
  assert (0 <= zprod (map f t) <= zprod (map g t)) as Ht by (apply IH; intros b Hb; apply H; right; exact Hb).
  nia.
Qed.

Lemma splits_length fine coarse :
  splits fine coarse ->
  (length coarse <= length fine)%nat /\ (length coarse = length fine -> fine = coarse).
Proof.
  induction 1 as [|x f c H IH|x y f c Hxy H IH]; cbn [length] in *.
  - split; [lia | reflexivity].
  - destruct IH as [IH1 IH2]. split; [lia|]. intros E. f_equal. apply IH2. lia.
  - destruct IH as [IH1 _]. split; [lia | intros E; lia].
Qed.

(* when every decided layout is the common refinement of its label, no operand's largest block grows *)
Lemma all_fine_no_growth dim ops R :
  Forall (wf_operand dim) ops ->
  (forall j, In j (labels ops) -> exists c, lookup j R = Some c /\ common_blockdim (label_dims ops j) = UOk c) ->
  forall o, In o ops -> target_bytes R o <= current_bytes o.
Proof.
  intros Hwf HR o Ho. unfold target_bytes, current_bytes.
  assert (0 <= o_itemsize o) as Hitem.
  { rewrite Forall_forall in Hwf. apply (Hwf o Ho). }
  apply Z.mul_le_mono_nonneg_l; [exact Hitem|].
  apply zprod_map_le. intros a Ha. apply filter_In in Ha. destruct Ha as [Ha Hsz].
  assert (1 < ax_size a) as Hsz' by (apply Z.ltb_lt; exact Hsz).
  set (j := ax_label a).
  assert (In j (labels ops)) as Hj.
  { apply labels_In. exists a. split; [apply all_axes_In; exists o; split; assumption | reflexivity]. }
  destruct (HR j Hj) as [c [Hc Hcm]]. unfold get. rewrite Hc.
  destruct (label_dims_wf dim ops j Hwf) as [Hpos [n Hn]].
  pose proof (own_layout_in_dims dim _ o a Hwf Ho Ha Hsz') as Hown. fold j in Hown.
  destruct (common_blockdim_finest _ n c Hpos Hn Hcm) as [Hcpos _].
  pose proof (common_blockdim_refines _ n c Hpos Hn Hcm _ Hown) as Href.
  assert (pos_layout (ax_layout a)) as Hapos by (rewrite Forall_forall in Hpos; apply Hpos; exact Hown).
  rewrite (pymax_zmax c (pos_nonneg _ Hcpos)), (pymax_zmax _ (pos_nonneg _ Hapos)).
  split; [apply zmax_list_nonneg | apply refines_b_zmax_pos; assumption].
Qed.

Definition worst_step (cs : chunkmap) (w : Z) (o : operand) : Z :=
  if target_bytes cs o >? current_bytes o then Z.max w (target_bytes cs o) else w.

Lemma worst_bytes_fold cs ops : worst_bytes cs ops = fold_left (worst_step cs) (parts ops) 0.
Proof. reflexivity. Qed.

Lemma worst_fold cs : forall (l : list operand) w,
  w <= fold_left (worst_step cs) l w /\
  forall o, In o l -> target_bytes cs o > current_bytes o -> target_bytes cs o <= fold_left (worst_step cs) l w.
Proof.
  induction l as [|x t IH]; intros w; cbn [fold_left]; [split; [lia | intros o []]|].
  destruct (IH (worst_step cs w x)) as [IH1 IH2].
  assert (w <= worst_step cs w x) as Hw by (unfold worst_step; destruct (_ >? _); lia).
  split; [lia|].
  intros o [<-|Ho] Hgt; [|apply IH2; assumption].
  assert (target_bytes cs x <= worst_step cs w x) by (unfold worst_step; destruct (_ >? _) eqn:E; lia).
  lia.
Qed.

Lemma non_participant_bytes cs o : participates o = false -> target_bytes cs o = current_bytes o.
Proof.
  unfold participates, target_bytes, current_bytes, axes. destruct (o_ind o); [reflexivity | discriminate].
Qed.

Lemma size_guard_bound dim l ops c1 R :
  Forall (wf_operand dim) ops ->
  Forall (good ops) c1 -> map fst c1 = labels ops ->
  size_guard l ops c1 (bd_all (fun _ => common_blockdim) ops (labels ops)) = Some R ->
  forall o, In o ops -> target_bytes R o <= Z.max l (current_bytes o).
Proof.
  intros Hwf Hg Hk. unfold size_guard. destruct (worst_bytes c1 ops >? l) eqn:Ew.
  - destruct (bd_all _ ops (labels ops)) as [f|] eqn:Ef; [|discriminate].
    intros H o Ho. injection H as <-.
    match goal with |- target_bytes ?R' o <= _ => set (R := R') end.
    assert (target_bytes R o <= current_bytes o); [|lia].
    apply (all_fine_no_growth dim ops R Hwf); [|exact Ho].
    intros j Hj.
    assert (map fst R = labels ops) as HkR.
    { unfold R. rewrite map_map. rewrite <- Hk. apply map_ext. intros jc. destruct (_ <? _)%nat; reflexivity. }
    destruct (lookup_some_of_key j R) as [c Hc]; [rewrite HkR; exact Hj|].
    exists c. split; [exact Hc|].
    apply lookup_In in Hc. unfold R in Hc. apply in_map_iff in Hc. destruct Hc as [[j' c'] [Heq Hjc]].
    rewrite Forall_forall in Hg. destruct (Hg _ Hjc) as [_ Hgood]. cbn [fst snd] in Heq, Hgood.
    pose proof (fine_get ops f j' Ef) as Hfine.
    assert (j' = j) as -> by (destruct (_ <? _)%nat; injection Heq; intros; congruence).
    specialize (Hfine Hj).
    destruct (length c' <? length (get j f))%nat eqn:El.
    { injection Heq as <-. exact Hfine. }
    injection Heq as <-.
    destruct Hgood as [Hin|Hcm]; [|exact Hcm].
    destruct (label_dims_wf dim ops j Hwf) as [Hpos [n Hn]].
    pose proof (common_blockdim_refines _ n _ Hpos Hn Hfine _ Hin) as Href.
    destruct (common_blockdim_finest _ n _ Hpos Hn Hfine) as [Hfpos _].
    assert (pos_layout c') as Hcpos by (rewrite Forall_forall in Hpos; apply Hpos; exact Hin).
    apply (refines_b_splits _ _ Hfpos Hcpos) in Href.
    destruct (splits_length _ _ Href) as [Hle Heq'].
    apply Nat.ltb_ge in El. rewrite <- (Heq' ltac:(lia)). exact Hfine.
  - intros H o Ho. injection H as <-.
    destruct (participates o) eqn:Ep; [|rewrite (non_participant_bytes _ _ Ep); lia].
    destruct (Z_gt_le_dec (target_bytes c1 o) (current_bytes o)) as [Hgt|Hle]; [|lia].
    destruct (worst_fold c1 (parts ops) 0) as [_ Hw].
    assert (In o (parts ops)) as Hop by (apply filter_In; split; assumption).
    specialize (Hw o Hop Hgt). rewrite worst_bytes_fold in Ew. lia.
Qed.

(* inversion of the general path: what reaches the size guard *)
Lemma general_path_inv qcmp pick pol limit ops R :
  general_path qcmp pick pol limit ops = Some R ->
  exists c1, Forall (good ops) c1 /\ map fst c1 = labels ops /\
    (pol = PRefine -> bd_all (fun _ => common_blockdim) ops (labels ops) = Some c1) /\
    match pol, limit with
    | PRefine, _ => R = c1
    | _, None => R = c1
    | _, Some l => if l =? 0 then R = c1
                   else size_guard l ops c1 (bd_all (fun _ => common_blockdim) ops (labels ops)) = Some R
    end.
Proof.
  unfold general_path.
  destruct (bd_all _ ops (labels ops)) as [c0|] eqn:E0; [|discriminate].
  pose proof (good_cons pick pol ops c0 E0) as Hg0.
  pose proof (bd_all_keys _ _ _ _ E0) as Hk0.
  destruct (match pol with PAuto => auto_pass qcmp ops c0 _ | _ => Some c0 end) as [c1|] eqn:E1; [|discriminate].
  intros H. exists c1.
  assert (Forall (good ops) c1 /\ map fst c1 = labels ops) as [Hg1 Hk1].
  { destruct pol.
    - destruct (auto_pass_good _ _ _ _ Hg0 E1) as [Ha Hb]. split; [exact Ha | congruence].
    - injection E1 as <-. split; assumption.
    - injection E1 as <-. split; assumption. }
  split; [exact Hg1|]. split; [exact Hk1|]. split.
  - intros ->. injection E1 as <-. exact E0.
  - destruct pol; destruct limit as [l|]; try (injection H as <-; reflexivity);
      (destruct (l =? 0); [injection H as <-; reflexivity | exact H]).
Qed.

Lemma early_bytes dim ops o0 o :
  Forall (wf_operand dim) ops -> early_b ops o0 = true -> In o ops ->
  target_bytes (early_map o0) o = current_bytes o.
Proof.
  intros Hwf Ee Ho. destruct (early_b_spec _ _ _ Ee Ho) as [Hi Hc].
  unfold target_bytes, current_bytes. f_equal. f_equal. apply map_ext_in.
  intros a Ha. apply filter_In in Ha. destruct Ha as [Ha _].
  unfold get. rewrite (early_get dim o0 o a); try assumption; [reflexivity|].
  rewrite Forall_forall in Hwf. apply Hwf. exact Ho.
Qed.

(* (T3) under `refine` every decided layout is the common refinement *)
Lemma dedup_all_same c l : (forall d, In d l -> d = c) -> In c l -> dedup l = [c].
Proof.
  induction l as [|x t IH]; intros Hall Hin; [contradiction|].
  assert (x = c) as -> by (apply Hall; left; reflexivity).
  cbn [dedup]. destruct (existsb (zlist_eqb c) t) eqn:E.
  - apply existsb_zlist_eqb in E. apply IH; [intros d Hd; apply Hall; right; exact Hd | exact E].
  - destruct t as [|y t']; [reflexivity|].
    assert (y = c) as -> by (apply Hall; right; left; reflexivity).
    cbn [existsb] in E. rewrite zlist_eqb_refl in E. discriminate.
Qed.

Lemma common_blockdim_single c : c <> [] -> common_blockdim [c] = UOk c.
Proof.
  intros Hc. destruct c as [|x [|y t]]; [congruence | reflexivity | reflexivity].
Qed.

Lemma combine_nodup_fun {B} (l : list Z) : forall (l' : list B) j c d,
  NoDup l -> In (j, c) (combine l l') -> In (j, d) (combine l l') -> c = d.
Proof.
  induction l as [|x t IH]; intros [|y t'] j c d Hnd Hc Hd; cbn [combine] in *; try contradiction.
  inversion Hnd as [|x' t'' Hx Hnd']; subst x' t''.
  destruct Hc as [Hc|Hc]; destruct Hd as [Hd|Hd].
  - congruence.
  - injection Hc as -> ->. apply in_combine_l in Hd. contradiction.
  - injection Hd as -> ->. apply in_combine_l in Hc. contradiction.
  - apply (IH t' j c d Hnd' Hc Hd).
Qed.

Lemma early_label_dims dim ops o0 j c :
  Forall (wf_operand dim) ops -> In o0 ops -> early_b ops o0 = true ->
  In (j, c) (combine (o_ind o0) (o_chunks o0)) ->
  label_dims ops j = [c] /\ c <> [].
Proof.
  intros Hwf Ho0 Ee Hjc.
  pose proof Hwf as Hwf'. rewrite Forall_forall in Hwf'.
  destruct (Hwf' o0 Ho0) as [Hl1 [Hl2 [Hnd [_ Hax]]]].
  assert (exists s, In (j, c, s) (axes o0)) as [s Hs].
  { unfold axes. apply in_combine_ex; [|exact Hjc]. rewrite combine_length. lia. }
  assert (raw_dims ops j = [c]) as Hraw.
  { unfold raw_dims. apply dedup_all_same.
    - intros d Hd. apply in_map_iff in Hd. destruct Hd as [a [<- Ha]].
      apply filter_In in Ha. destruct Ha as [Ha Hl].
      apply all_axes_In in Ha. destruct Ha as [o [Ho Ha]].
      destruct (early_b_spec _ _ _ Ee Ho) as [Hi Hc].
      destruct a as [[j' d] s']. cbn [ax_label ax_layout fst snd] in *.
      assert (j' = j) as -> by lia.
      unfold axes in Ha. apply in_combine_l in Ha. rewrite Hi, Hc in Ha.
      apply (combine_nodup_fun _ _ j d c Hnd Ha Hjc).
    - apply in_map_iff. exists (j, c, s). split; [reflexivity|]. apply filter_In.
      split; [apply all_axes_In; exists o0; split; assumption | apply Z.eqb_refl]. }
  split; [rewrite label_dims_eq, Hraw; reflexivity|].
  apply (Hax (j, c, s) Hs).
Qed.

Theorem unify_decide_refine_is_common qcmp pick limit ops dim R :
  Forall (wf_operand dim) ops ->
  unify_decide qcmp pick PRefine limit ops = Some R ->
  forall j c, In (j, c) R -> common_blockdim (label_dims ops j) = UOk c.
Proof.
  intros Hwf. rewrite unify_decide_unfold. destruct ops as [|o0 t]; [intros H; injection H as <-; intros j c []|].
  destruct (early_b (o0 :: t) o0) eqn:Ee.
  - intros H j c Hin. injection H as <-. apply early_map_In in Hin.
    destruct (early_label_dims dim _ o0 j c Hwf (or_introl eq_refl) Ee Hin) as [-> Hne].
    apply common_blockdim_single. exact Hne.
  - intros H j c Hin. destruct (general_path_inv _ _ _ _ _ _ H) as [c1 [_ [_ [Hc1 HR]]]].
    cbn in HR. subst c1. apply (bd_all_In _ _ _ _ _ _ (Hc1 eq_refl) Hin).
Qed.

(* (T2) THE GROWTH BOUND.  Measure: target_bytes R o = itemsize * product over the operand's non-broadcast
   axes (shape[n] > 1) of the largest decided chunk of the axis' label = the byte size of the largest block of
   the operand once rechunked to the decided layouts; current_bytes o = the same for its own chunks.
   For every policy, every NON-ZERO limit and both oracles. *)
Theorem unify_decide_growth_bound qcmp pick pol l ops dim R :
  Forall (wf_operand dim) ops -> l <> 0 ->
  unify_decide qcmp pick pol (Some l) ops = Some R ->
  forall o, In o ops -> target_bytes R o <= Z.max l (current_bytes o).
Proof.
  intros Hwf Hl. rewrite unify_decide_unfold. destruct ops as [|o0 t]; [intros _ o []|].
  destruct (early_b (o0 :: t) o0) eqn:Ee.
  - intros H o Ho. injection H as <-. rewrite (early_bytes dim _ o0 o Hwf Ee Ho). lia.
  - intros H o Ho. destruct (general_path_inv _ _ _ _ _ _ H) as [c1 [Hg [Hk [Hc1 HR]]]].
    assert (pol = PRefine -> target_bytes R o <= Z.max l (current_bytes o)) as Href.
    { intros ->. cbn in HR. subst c1. specialize (Hc1 eq_refl).
      assert (target_bytes R o <= current_bytes o); [|lia].
      apply (all_fine_no_growth dim _ R Hwf); [|exact Ho].
      intros j Hj. apply (bd_all_lookup _ _ _ _ _ Hc1 Hj). }
    assert ((if l =? 0 then R = c1
             else size_guard l (o0 :: t) c1 (bd_all (fun _ => common_blockdim) (o0 :: t) (labels (o0 :: t))) = Some R) ->
            target_bytes R o <= Z.max l (current_bytes o)) as Hguard.
    { destruct (l =? 0) eqn:E0; [lia|]. intros Hsg. apply (size_guard_bound dim l _ c1 R Hwf Hg Hk Hsg o Ho). }
    destruct pol; [apply Hguard; exact HR | apply Hguard; exact HR | apply Href; reflexivity].
Qed.

(* under `refine` nothing grows, whatever the limit *)
Theorem unify_decide_refine_no_growth qcmp pick limit ops dim R :
  Forall (wf_operand dim) ops ->
  unify_decide qcmp pick PRefine limit ops = Some R ->
  forall o, In o ops -> target_bytes R o <= current_bytes o.
Proof.
  intros Hwf. rewrite unify_decide_unfold. destruct ops as [|o0 t]; [intros _ o []|].
  destruct (early_b (o0 :: t) o0) eqn:Ee.
  - intros H o Ho. injection H as <-. rewrite (early_bytes dim _ o0 o Hwf Ee Ho). lia.
  - intros H o Ho. destruct (general_path_inv _ _ _ _ _ _ H) as [c1 [_ [_ [Hc1 HR]]]].
    cbn in HR. subst c1. specialize (Hc1 eq_refl).
    apply (all_fine_no_growth dim _ R Hwf); [|exact Ho].
    intros j Hj. apply (bd_all_lookup _ _ _ _ _ Hc1 Hj).
Qed.

Lemma nodupb_NoDup l : nodupb l = true -> NoDup l.
Proof.
  induction l as [|x t IH]; cbn [nodupb]; intros H; constructor.
  - apply andb_true_iff in H. destruct H as [H _]. intros Hin.
    assert (existsb (Z.eqb x) t = true) as E.
    { apply existsb_exists. exists x. split; [exact Hin | apply Z.eqb_refl]. }
    rewrite E in H. discriminate.
  - apply IH. apply andb_true_iff in H. apply H.
Qed.

Lemma wf_operand_b_spec dim o : wf_operand_b dim o = true -> wf_operand dim o.
Proof.
  unfold wf_operand_b, wf_operand. intros H.
  apply andb_true_iff in H. destruct H as [H H5]. apply andb_true_iff in H. destruct H as [H H4].
  apply andb_true_iff in H. destruct H as [H H3]. apply andb_true_iff in H. destruct H as [H1 H2].
  apply Nat.eqb_eq in H1, H2.
  split; [exact H1|]. split; [exact H2|]. split; [apply nodupb_NoDup; exact H3|]. split; [lia|].
  intros a Ha. rewrite forallb_forall in H5. specialize (H5 a Ha).
  apply andb_true_iff in H5. destruct H5 as [H5 Hd]. apply andb_true_iff in H5. destruct H5 as [H5 Hs].
  apply andb_true_iff in H5. destruct H5 as [Hn Hp].
  split; [intros E; rewrite E in Hn; discriminate|].
  split.
  - unfold all_pos in Hp. rewrite forallb_forall in Hp. apply Forall_forall. intros c Hc. specialize (Hp c Hc). lia.
  - split; lia.
Qed.

(* the limit 0 is falsy in `if limit and ...`: the guard is skipped and the bound of the property text,
   max(limit, own largest block) = own largest block, fails *)
Definition ex_zero_ops : list operand :=
  [mkop 1 [0] [[2; 2]] [4] 32 8; mkop 2 [0] [[1; 1; 1; 1]] [4] 32 8].

Theorem growth_bound_limit_zero_refuted :
  exists ops dim R o, Forall (wf_operand dim) ops /\
    unify_decide rat_cmp (fun _ => 0%nat) PCoarse (Some 0) ops = Some R /\ In o ops /\
    target_bytes R o > Z.max 0 (current_bytes o).
Proof.
  exists ex_zero_ops, (fun _ => 4), [(0, [2; 2])], (mkop 2 [0] [[1; 1; 1; 1]] [4] 32 8).
  split; [|split; [vm_compute; reflexivity | split; [right; left; reflexivity | vm_compute; reflexivity]]].
  apply Forall_forall. intros o [<-|[<-|[]]]; apply wf_operand_b_spec; vm_compute; reflexivity.
Qed.

(* (T4) the realignment choice does not commute with reversing every layout: (1,3) and (2,2) with equal bytes
   realign to (1,3) (equal length, equal cost, equal anchor bytes: the LAYOUT TUPLE breaks the tie, and
   (1,3) < (2,2)); reversed, (3,1) and (2,2) realign to (2,2) < (3,1), which is not rev (1,3). *)
Definition ex_rev_ops : list operand :=
  [mkop 1 [0] [[1; 3]] [4] 32 8; mkop 2 [0] [[2; 2]] [4] 32 8].

Theorem realign_choice_not_stable_under_reversal :
  forall p : nat,
  unify_decide rat_cmp (fun _ => p) PAuto None ex_rev_ops = Some [(0, [1; 3])] /\
  unify_decide rat_cmp (fun _ => p) PAuto None (map rev_operand ex_rev_ops) = Some [(0, [2; 2])] /\
  rev_map [(0, [1; 3])] <> [(0, [2; 2])].
Proof.
  intros p. split; [|split].
  - destruct p as [|[|[|p]]]; vm_compute; reflexivity.
  - destruct p as [|[|[|p]]]; vm_compute; reflexivity.
  - vm_compute. discriminate.
Qed.

(* ---------------------------------------------------------------------- *)
(* the tie-break oracle of coarse_blockdim is irrelevant for strictly positive layouts: whichever minimal-length
   candidate Python's min(.., key=len) returns from the set, the result is the same *)
Definition coarse_cands (ds : list (list Z)) : list (list Z) :=
  let nt := filter nontrivial (dedup ds) in filter (fun x => Nat.eqb (length x) (min_len nt)) nt.

Lemma min_len_attained (nt : list (list Z)) : nt <> [] -> exists x, In x nt /\ length x = min_len nt.
Proof.
  unfold min_len. destruct nt as [|h t]; [congruence|]. intros _. cbn [map].
  revert h. induction t as [|y t IH]; intros h; cbn [map fold_right].
  - exists h. split; [left; reflexivity | reflexivity].
  - destruct (IH h) as [x [Hx Hl]].
    destruct (Nat.le_gt_cases (length y) (fold_right Nat.min (length h) (map (@length Z) t))) as [Hle|Hgt].
    + exists y. split; [right; left; reflexivity | lia].
    + exists x. split; [destruct Hx as [Hx|Hx]; [left; exact Hx | right; right; exact Hx] | lia].
Qed.

Lemma coarse_cands_nonempty ds : filter nontrivial (dedup ds) <> [] -> coarse_cands ds <> [].
Proof.
  intros H. destruct (min_len_attained _ H) as [x [Hx Hl]]. unfold coarse_cands.
  intros E. assert (In x (filter (fun x => Nat.eqb (length x) (min_len (filter nontrivial (dedup ds)))) (filter nontrivial (dedup ds)))) as Hin.
  { apply filter_In. split; [exact Hx | apply Nat.eqb_eq; exact Hl]. }
  rewrite E in Hin. contradiction.
Qed.

Theorem coarse_blockdim_pick_irrelevant p q ds :
  Forall pos_layout ds ->
  (p < length (coarse_cands ds))%nat -> (q < length (coarse_cands ds))%nat ->
  coarse_blockdim p ds = coarse_blockdim q ds.
Proof.
  intros Hpos. unfold coarse_cands, coarse_blockdim.
  destruct (existsb (fun d => match d with [] => false | _ => true end) (dedup ds)); cbn [negb]; [|reflexivity].
  destruct (filter nontrivial (dedup ds)) as [|d0 [|d1 l]] eqn:Ent; [reflexivity | reflexivity |].
  destruct (forallb (fun x => zsum x =? zsum d0) (d0 :: d1 :: l)) eqn:Eall; cbn [negb]; [|reflexivity].
  assert (forall x, In x (d0 :: d1 :: l) -> pos_layout x) as Hntpos.
  { intros x Hx. rewrite <- Ent in Hx. apply nt_In in Hx. rewrite Forall_forall in Hpos. apply Hpos, Hx. }
  clear Ent. set (nt := d0 :: d1 :: l) in *.
  set (cands := filter (fun x => Nat.eqb (length x) (min_len nt)) nt).
  intros Hp Hq.
  assert (forall k, (k < length cands)%nat ->
            In (nth k cands d0) nt /\ length (nth k cands d0) = min_len nt /\
            pos_layout (nth k cands d0) /\ zsum (nth k cands d0) = zsum d0) as Hc.
  { intros k Hk. pose proof (nth_In cands d0 Hk) as Hin. unfold cands in Hin. apply filter_In in Hin.
    destruct Hin as [Hin Hl]. apply Nat.eqb_eq in Hl. split; [exact Hin|]. split; [exact Hl|].
    rewrite forallb_forall in Eall. split; [|apply Z.eqb_eq; apply (Eall _ Hin)].
    apply Hntpos. exact Hin. }
  destruct (Hc p Hp) as [Hpin [Hpl [Hppos Hps]]]. destruct (Hc q Hq) as [Hqin [Hql [Hqpos Hqs]]].
  set (cp := nth p cands d0) in *. set (cq := nth q cands d0) in *.
  assert (forall a b, In a nt -> In b nt -> length a = min_len nt -> length b = min_len nt ->
                      pos_layout a -> pos_layout b -> zsum a = zsum d0 -> zsum b = zsum d0 ->
                      forallb (fun x => subset_b (inner_bounds a) (inner_bounds x)) nt = true -> b = a) as Huniq.
  { intros a b Ha Hb Hla Hlb Hpa Hpb Hsa Hsb Hall. rewrite forallb_forall in Hall.
    assert (refines_b b a = true) as Href.
    { unfold refines_b. rewrite (Hall b Hb), andb_true_r. lia. }
    apply (refines_b_splits _ _ Hpb Hpa) in Href. destruct (splits_length _ _ Href) as [_ Heq].
    apply Heq. lia. }
  destruct (forallb (fun x => subset_b (inner_bounds cp) (inner_bounds x)) nt) eqn:Ep.
  - assert (cq = cp) as -> by (apply Huniq; assumption). rewrite Ep. reflexivity.
  - destruct (forallb (fun x => subset_b (inner_bounds cq) (inner_bounds x)) nt) eqn:Eq; [|reflexivity].
    assert (cp = cq) as E by (apply Huniq; assumption). rewrite E in Ep. congruence.
Qed.

Print Assumptions unify_decide_no_invented_layout.
Print Assumptions unify_decide_total_length.
Print Assumptions unify_decide_growth_bound.
Print Assumptions unify_decide_refine_no_growth.
Print Assumptions unify_decide_refine_is_common.
Print Assumptions growth_bound_limit_zero_refuted.
Print Assumptions realign_choice_not_stable_under_reversal.
Print Assumptions coarse_blockdim_pick_irrelevant.
