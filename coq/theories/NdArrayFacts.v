(* Facts about N-d arrays as index functions (NdArray.v): the setoid, in-bounds
   preservation and congruence of every operation, and the index algebra of
   basic slicing lifted from one axis (FuseFacts / NormalizeFacts) to N axes. *)
From DA Require Import PyBase PyBaseFacts Slicing NormalizeFacts FuseFacts NdArray.
From Coq Require Import ZifyBool.
Open Scope Z_scope.
Ltac Zify.zify_post_hook ::= Z.to_euclidean_division_equations.

(* ---------------------------------------------------------------------- *)
(* in_bounds *)
Lemma in_bounds_length idx : forall shp, in_bounds idx shp -> length idx = length shp.
Proof.
  induction idx as [|i idx IH]; intros [|n shp] H; cbn [in_bounds] in H; try tauto.
  cbn [length]. f_equal. apply IH. tauto.
Qed.

Lemma in_boundsb_iff idx : forall shp, in_boundsb idx shp = true <-> in_bounds idx shp.
Proof.
  induction idx as [|i idx IH]; intros [|n shp]; cbn [in_bounds in_boundsb]; try (split; [discriminate | tauto]).
  - tauto.
  - rewrite !andb_true_iff, IH, Z.leb_le, Z.ltb_lt. tauto.
Qed.

Lemma in_bounds_nth idx : forall shp k, in_bounds idx shp -> (k < length shp)%nat ->
  0 <= nth k idx 0 < nth k shp 0.
Proof.
  induction idx as [|i idx IH]; intros [|n shp] k H Hk; cbn [in_bounds] in H; try tauto.
  - cbn [length] in Hk. lia.
  - destruct k as [|k]; cbn [nth]; [tauto|]. apply IH; [tauto|]. cbn [length] in Hk. lia.
Qed.

Lemma in_bounds_of_nth idx : forall shp, length idx = length shp ->
  (forall k, (k < length shp)%nat -> 0 <= nth k idx 0 < nth k shp 0) -> in_bounds idx shp.
Proof.
  induction idx as [|i idx IH]; intros [|n shp] Hl H; cbn [length] in Hl; try discriminate; cbn [in_bounds]; [exact I|].
  split.
  - apply (H O). cbn [length]. lia.
  - apply IH; [lia|]. intros k Hk. apply (H (S k)). cbn [length]. lia.
Qed.

Lemma in_bounds_app a : forall s1 b s2, in_bounds a s1 -> in_bounds b s2 -> in_bounds (a ++ b) (s1 ++ s2).
Proof.
  induction a as [|i a IH]; intros [|n s1] b s2 Ha Hb; cbn [in_bounds] in Ha; try (exfalso; tauto).
  - exact Hb.
  - cbn [app in_bounds]. split; [tauto|]. apply IH; tauto.
Qed.

Lemma in_bounds_app_inv s1 : forall out s2, in_bounds out (s1 ++ s2) ->
  in_bounds (firstn (length s1) out) s1 /\ in_bounds (skipn (length s1) out) s2.
Proof.
  induction s1 as [|n s1 IH]; intros out s2 H.
  - cbn [length firstn skipn app] in *. split; [exact I | exact H].
  - destruct out as [|i out]; cbn [app in_bounds] in H; [tauto|].
    destruct H as [Hi H]. destruct (IH out s2 H) as [H1 H2].
    cbn [length firstn skipn in_bounds]. tauto.
Qed.

Lemma in_bounds_nonneg idx : forall shp, in_bounds idx shp -> Forall (fun n => 0 < n) shp.
Proof.
  induction idx as [|i idx IH]; intros [|n shp] H; cbn [in_bounds] in H; try tauto; constructor.
  - lia.
  - apply IH. tauto.
Qed.

(* ---------------------------------------------------------------------- *)
(* the setoid *)
Section Setoid.
  Context {V : Type}.
  Lemma aeq_refl (a : arr V) : aeq a a.
  Proof. split; [reflexivity|]. intros; reflexivity. Qed.
  Lemma aeq_sym (a b : arr V) : aeq a b -> aeq b a.
  Proof. intros [Hs Hg]. split; [symmetry; exact Hs|]. intros idx Hi. symmetry. apply Hg. rewrite Hs. exact Hi. Qed.
  Lemma aeq_trans (a b c : arr V) : aeq a b -> aeq b c -> aeq a c.
  Proof.
    intros [Hs1 Hg1] [Hs2 Hg2]. split; [congruence|]. intros idx Hi.
    rewrite Hg1 by exact Hi. apply Hg2. rewrite <- Hs1. exact Hi.
  Qed.
End Setoid.

(* ---------------------------------------------------------------------- *)
(* one axis: positions selected by a slice are positions of the axis *)
Lemma slice_len_length s n : Z.of_nat (length (sel s n)) = slice_len s n.
Proof. unfold sel, slice_len. destruct (indices s n) as [[a b] k]. apply zrange_length. Qed.

Lemma slice_len_nonneg s n : 0 <= slice_len s n.
Proof. rewrite <- slice_len_length. lia. Qed.

Lemma sel_nth_range s n j :
  0 <= n -> step_of s <> 0 -> 0 <= j < slice_len s n -> 0 <= nthZ (sel s n) j < n.
Proof.
  intros Hn Hk Hj. unfold nthZ, sel, slice_len in *.
  destruct (indices s n) as [[a b] k] eqn:Hi.
  destruct (indices_bounds s n a b k Hn Hi) as (Hstep & Hpos & Hneg).
  rewrite zrange_nth by (rewrite Z2Nat.id; lia). rewrite Z2Nat.id by lia.
  destruct (Z_lt_le_dec 0 k) as [Hkp|Hkn].
  - specialize (Hpos Hkp).
    assert (a < b) as Hab.
    { destruct (Z_lt_le_dec a b) as [?|Hba]; [assumption|].
      rewrite (range_len_empty_pos a b k Hkp Hba) in Hj. lia. }
    pose proof (range_len_pos_last a b k Hkp Hab). nia.
  - assert (k < 0) as Hk0 by lia. specialize (Hneg Hk0).
    assert (b < a) as Hab.
    { destruct (Z_lt_le_dec b a) as [?|Hba]; [assumption|].
      rewrite (range_len_empty_neg a b k Hk0 Hba) in Hj. lia. }
    pose proof (range_len_neg_last a b k Hk0 Hab). nia.
Qed.

Lemma slice_len_colon n : 0 <= n -> slice_len colon n = n.
Proof. intros Hn. apply (sel_colon n Hn). Qed.

Lemma nthZ_sel_colon n j : 0 <= j < n -> nthZ (sel colon n) j = j.
Proof.
  intros Hj. destruct (sel_colon n) as [Hs _]; [lia|]. rewrite Hs. unfold nthZ.
  rewrite zrange_nth by (rewrite Z2Nat.id, range_len_unit; lia). rewrite Z2Nat.id by lia. lia.
Qed.

Lemma posify_range n i : check_int n i = true -> 0 <= posify_int n i < n.
Proof. unfold check_int, posify_int. intros H. destruct (i <? 0) eqn:E; lia. Qed.

Lemma posify_idem n i : check_int n i = true -> posify_int n (posify_int n i) = posify_int n i.
Proof. intros H. pose proof (posify_range n i H) as Hr. unfold posify_int at 1. destruct (posify_int n i <? 0) eqn:E; lia. Qed.

Lemma check_int_posify n i : check_int n i = true -> check_int n (posify_int n i) = true.
Proof. intros H. pose proof (posify_range n i H) as Hr. unfold check_int. lia. Qed.

(* ---------------------------------------------------------------------- *)
(* N axes *)
Definition nonneg_shape (shp : list Z) : Prop := Forall (fun n => 0 <= n) shp.

Lemma nonnegb_iff shp : forallb (fun n => 0 <=? n) shp = true <-> nonneg_shape shp.
Proof.
  unfold nonneg_shape. rewrite forallb_forall, Forall_forall. split; intros H x Hx; specialize (H x Hx); lia.
Qed.

Lemma idx_okb_length ix : forall shp, idx_okb ix shp = true -> length ix = length shp.
Proof.
  induction ix as [|i ix IH]; intros [|n shp] H; cbn [idx_okb] in H; try discriminate; [reflexivity| |].
  - destruct i; discriminate.
  - cbn [length]. f_equal. apply IH. destruct i; try discriminate; apply andb_true_iff in H; tauto.
Qed.

Lemma slice_shape_length ix : forall shp, idx_okb ix shp = true -> length (slice_shape ix shp) = nslices ix.
Proof.
  induction ix as [|i ix IH]; intros [|n shp] H; cbn [idx_okb] in H; try discriminate; [reflexivity| |].
  - destruct i; discriminate.
  - destruct i as [z|s|]; try discriminate; apply andb_true_iff in H; destruct H as [_ H];
      unfold nslices; cbn [slice_shape filter is_sliceb length tl hd]; [apply IH; exact H|].
    f_equal. apply IH. exact H.
Qed.

Lemma slice_shape_nonneg ix : forall shp, nonneg_shape shp -> nonneg_shape (slice_shape ix shp).
Proof.
  unfold nonneg_shape. induction ix as [|i ix IH]; intros shp H; cbn [slice_shape]; [exact H|].
  assert (Forall (fun n => 0 <= n) (tl shp)) as Ht by (destruct shp; [constructor | inversion H; assumption]).
  destruct i as [z|s|].
  - apply IH. exact Ht.
  - constructor; [apply slice_len_nonneg | apply IH; exact Ht].
  - constructor; [lia | apply IH; exact H].
Qed.

(* the source index of an in-bounds result index is in bounds *)
Lemma slice_src_in_bounds ix : forall shp out,
  nonneg_shape shp -> idx_okb ix shp = true -> in_bounds out (slice_shape ix shp) ->
  in_bounds (slice_src ix shp out) shp.
Proof.
  induction ix as [|i ix IH]; intros [|n shp] out Hn H Ho; cbn [idx_okb] in H; try discriminate.
  - exact Ho.
  - destruct i; discriminate.
  - inversion Hn as [|n0 l0 Hn0 Hn']; subst.
    destruct i as [z|s|]; try discriminate; apply andb_true_iff in H; destruct H as [Hi H];
      cbn [slice_shape slice_src hd tl in_bounds] in *.
    + split; [apply posify_range; exact Hi | apply IH; assumption].
    + destruct out as [|j out]; cbn [in_bounds] in Ho; [tauto|]. destruct Ho as [Hj Ho]. cbn [hd tl].
      split; [apply sel_nth_range; [assumption | lia | assumption] | apply IH; assumption].
Qed.

Lemma aslice_congr {V} ix (a b : arr V) :
  nonneg_shape (shape a) -> idx_okb ix (shape a) = true -> aeq a b -> aeq (aslice ix a) (aslice ix b).
Proof.
  intros Hn Hok [Hs Hg]. split; cbn [aslice shape get]; [rewrite Hs; reflexivity|].
  intros out Ho. rewrite <- Hs. apply Hg. apply slice_src_in_bounds; assumption.
Qed.

(* R2: the all-colon index is the identity *)
Lemma slice_all_colon ix : forall shp, nonneg_shape shp -> length ix = length shp ->
  forallb (fun i => match i with ISlice s => pslice_eqb s colon | _ => false end) ix = true ->
  slice_shape ix shp = shp /\ forall out, in_bounds out shp -> slice_src ix shp out = out.
Proof.
  induction ix as [|i ix IH]; intros [|n shp] Hn Hl Hc; cbn [length] in Hl; try discriminate.
  - split; [reflexivity|]. intros; reflexivity.
  - cbn [forallb] in Hc. apply andb_true_iff in Hc. destruct Hc as [Hi Hc].
    destruct i as [z|s|]; try discriminate. apply pslice_eqb_eq in Hi. subst s.
    inversion Hn as [|n0 l0 Hn0 Hn']; subst.
    destruct (IH shp Hn' ltac:(lia) Hc) as [Hs Hg].
    cbn [slice_shape slice_src hd tl]. rewrite slice_len_colon by assumption. rewrite Hs.
    split; [reflexivity|]. intros [|j out] Ho; cbn [in_bounds] in Ho; [tauto|].
    cbn [hd tl]. rewrite nthZ_sel_colon by tauto. f_equal. apply Hg. tauto.
Qed.

(* normalisation of an index (normalize_slice on slices, posify on integers)
   selects the same elements *)
Definition norm1_rel (n : Z) (i j : pidx) : Prop :=
  match i, j with
  | IInt z, IInt w => check_int n z = true /\ posify_int n w = posify_int n z
  | ISlice s, ISlice t => step_of s <> 0 /\ sel t n = sel s n
  | _, _ => False
  end.

Fixpoint norm_rel (shp : list Z) (ix jx : list pidx) : Prop :=
  match shp, ix, jx with
  | [], [], [] => True
  | n :: shp', i :: ix', j :: jx' => norm1_rel n i j /\ norm_rel shp' ix' jx'
  | _, _, _ => False
  end.

Lemma sel_eq_slice_len s t n : sel t n = sel s n -> slice_len t n = slice_len s n.
Proof. intros H. rewrite <- !slice_len_length, H. reflexivity. Qed.

Lemma norm_rel_same shp : forall ix jx, norm_rel shp ix jx ->
  slice_shape jx shp = slice_shape ix shp /\
  (forall out, slice_src jx shp out = slice_src ix shp out) /\
  idx_okb ix shp = true.
Proof.
  induction shp as [|n shp IH]; intros [|i ix] [|j jx] H; cbn [norm_rel] in H; try (exfalso; tauto).
  - repeat split; reflexivity.
  - destruct H as [H1 H]. destruct (IH ix jx H) as (Hs & Hg & Hok).
    destruct i as [z|s|], j as [w|t|]; cbn [norm1_rel] in H1; try tauto; cbn [slice_shape slice_src idx_okb hd tl].
    + destruct H1 as [Hc Hp]. rewrite Hp. rewrite Hs, Hc, Hok.
      repeat split; try reflexivity. intros out. rewrite Hg. reflexivity.
    + destruct H1 as [Hk He]. rewrite (sel_eq_slice_len _ _ _ He), He, Hs, Hok.
      repeat split; try reflexivity.
      * intros out. rewrite Hg. reflexivity.
      * apply andb_true_iff. split; [lia | reflexivity].
Qed.

(* ---------------------------------------------------------------------- *)
(* R1: fuse_tuple on N axes.  [a] indexes an array of shape [shp], [b] indexes
   the result; both are valid basic indices (integers may occur in both). *)
Lemma fuse_slice_ss_step a b c :
  step_of a <> 0 -> step_of b <> 0 -> fuse_slice_ss a b = Some c -> step_of c <> 0.
Proof.
  intros Ha Hb H. unfold fuse_slice_ss in H.
  destruct (normalize_slice_for_fusion a) as [[[a0 ast] k]|] eqn:Ea; [|discriminate].
  destruct (normalize_slice_for_fusion b) as [[[b0 bst] j]|] eqn:Eb; [|discriminate].
  apply nff_inv in Ea. destruct Ea as (_ & _ & Hk & _ & Hk0 & _).
  apply nff_inv in Eb. destruct Eb as (_ & _ & Hj & _ & Hj0 & _).
  injection H as <-. unfold step_of at 1. cbn [s_step].
  destruct (k * j =? 1) eqn:E; nia.
Qed.

Lemma fuse_slice_si_nonneg a i p : fuse_slice_si a i = Some p -> 0 <= i.
Proof.
  unfold fuse_slice_si. destruct (normalize_slice_for_fusion a) as [[[a0 ast] k]|]; [|discriminate].
  destruct (i <? 0) eqn:E; [discriminate|]. intros _. lia.
Qed.

Lemma fuse_tuple_nd a : forall shp b c,
  nonneg_shape shp -> idx_okb a shp = true -> idx_okb b (slice_shape a shp) = true ->
  fuse_tuple a b = Some c ->
  slice_shape c shp = slice_shape b (slice_shape a shp) /\
  (forall out, in_bounds out (slice_shape c shp) ->
     slice_src c shp out = slice_src a shp (slice_src b (slice_shape a shp) out)) /\
  idx_okb c shp = true.
Proof.
  induction a as [|ai a IH]; intros [|n shp] b c Hn Ha Hb H; cbn [idx_okb] in Ha; try discriminate.
  - cbn [slice_shape] in Hb. destruct b as [|bj b]; [|destruct bj; discriminate].
    cbn [fuse_tuple] in H. injection H as <-. repeat split; reflexivity.
  - destruct ai; discriminate.
  - inversion Hn as [|n0 l0 Hn0 Hn']; subst.
    destruct ai as [z|s|]; try discriminate; apply andb_true_iff in Ha; destruct Ha as [Hai Ha].
    + (* integer in a: passes through, consumes nothing of b *)
      cbn [fuse_tuple] in H. cbn [slice_shape tl] in Hb.
      destruct (fuse_tuple a b) as [c0|] eqn:Ec; [|discriminate]. injection H as <-.
      destruct (IH shp b c0 Hn' Ha Hb Ec) as (Hs & Hg & Hok).
      cbn [slice_shape slice_src idx_okb hd tl]. rewrite Hai, Hok. repeat split; try assumption.
      intros out Ho. rewrite Hg by exact Ho. reflexivity.
    + (* slice in a: fused with the next entry of b *)
      cbn [slice_shape hd tl] in Hb.
      destruct b as [|bj b]; [discriminate|].
      assert (step_of s <> 0) as Hks by lia.
      destruct bj as [w|t|]; cbn [idx_okb] in Hb; try discriminate;
        apply andb_true_iff in Hb; destruct Hb as [Hbj Hb];
        cbn [fuse_tuple length skip_nones app fuse_elem] in H.
      * destruct (fuse_slice_si s w) as [p|] eqn:Ep; [|discriminate]. cbn [option_map] in H.
        destruct (fuse_tuple a b) as [c0|] eqn:Ec; [|discriminate]. injection H as <-.
        destruct (IH shp b c0 Hn' Ha Hb Ec) as (Hs & Hg & Hok).
        pose proof (fuse_slice_si_nonneg s w p Ep) as Hw0.
        pose proof (posify_range _ _ Hbj) as Hwr.
        assert (posify_int (slice_len s n) w = w) as Hpw by (unfold posify_int; destruct (w <? 0) eqn:E; lia).
        rewrite Hpw in Hwr.
        pose proof (fuse_slice_si_exact s w p n Hn0 Hks Ep Hwr) as Hp.
        pose proof (sel_nth_range s n w Hn0 Hks Hwr) as Hpr. unfold nthZ in Hpr. rewrite Hp in Hpr.
        assert (posify_int n p = p) as Hpp by (unfold posify_int; destruct (p <? 0) eqn:E; lia).
        cbn [slice_shape slice_src idx_okb hd tl]. rewrite Hpw, Hpp, Hok.
        repeat split; try assumption.
        -- intros out Ho. rewrite Hg by exact Ho. unfold nthZ. rewrite Hp. reflexivity.
        -- apply andb_true_iff. split; [unfold check_int; lia | reflexivity].
      * destruct (fuse_slice_ss s t) as [u|] eqn:Eu; [|discriminate]. cbn [option_map] in H.
        destruct (fuse_tuple a b) as [c0|] eqn:Ec; [|discriminate]. injection H as <-.
        destruct (IH shp b c0 Hn' Ha Hb Ec) as (Hs & Hg & Hok).
        assert (step_of t <> 0) as Hkt by lia.
        pose proof (fuse_slice_ss_exact s t u n Hn0 Hks Hkt Eu) as Hu.
        pose proof (fuse_slice_ss_step s t u Hks Hkt Eu) as Hku.
        assert (slice_len u n = slice_len t (slice_len s n)) as Hlen.
        { rewrite <- (slice_len_length u n), <- Hu, pick_length. apply slice_len_length. }
        cbn [slice_shape slice_src idx_okb hd tl]. rewrite Hlen, Hs, Hok.
        repeat split; try reflexivity.
        -- intros [|j out] Ho; cbn [in_bounds] in Ho; [tauto|]. destruct Ho as [Hj Ho].
           cbn [hd tl]. rewrite Hg by (rewrite Hs; exact Ho). f_equal.
           unfold nthZ. rewrite <- Hu. rewrite pick_nth; [reflexivity|].
           pose proof (slice_len_length t (slice_len s n)). lia.
        -- apply andb_true_iff. split; [lia | reflexivity].
Qed.

(* ---------------------------------------------------------------------- *)
(* permutations of axes *)
Lemma is_permb_spec axes n :
  is_permb axes n = true ->
  length axes = n /\ NoDup axes /\ (forall a, In a axes <-> (a < n)%nat).
Proof.
  unfold is_permb. intros H. apply andb_true_iff in H. destruct H as [Hl Hs].
  apply Nat.eqb_eq in Hl. rewrite forallb_forall in Hs.
  assert (incl (seq 0 n) axes) as Hincl.
  { intros d Hd. specialize (Hs d Hd). apply existsb_exists in Hs. destruct Hs as (x & Hx & E).
    apply Nat.eqb_eq in E. subst x. exact Hx. }
  assert (length axes <= length (seq 0 n))%nat as Hle by (rewrite seq_length; lia).
  split; [exact Hl|]. split.
  - apply (NoDup_incl_NoDup (seq_NoDup n 0) Hle Hincl).
  - intros a. split.
    + intros Ha. pose proof (NoDup_length_incl (seq_NoDup n 0) Hle Hincl a Ha) as Hin.
      apply in_seq in Hin. lia.
    + intros Ha. apply Hincl. apply in_seq. lia.
Qed.

Lemma index_of_In d l : In d l -> (index_of d l < length l)%nat /\ nth (index_of d l) l O = d.
Proof.
  induction l as [|x l IH]; intros H; [destruct H|].
  cbn [index_of]. destruct (Nat.eqb x d) eqn:E.
  - apply Nat.eqb_eq in E. subst x. cbn [length nth]. split; [lia | reflexivity].
  - apply Nat.eqb_neq in E. destruct H as [H|H]; [congruence|].
    destruct (IH H) as [H1 H2]. cbn [length nth]. split; [lia | exact H2].
Qed.

Lemma index_of_nth l : forall k, NoDup l -> (k < length l)%nat -> index_of (nth k l O) l = k.
Proof.
  induction l as [|x l IH]; intros k Hnd Hk; cbn [length] in Hk; [lia|].
  inversion Hnd as [|x0 l0 Hx Hnd']; subst.
  destruct k as [|k]; cbn [nth index_of].
  - rewrite Nat.eqb_refl. reflexivity.
  - destruct (Nat.eqb x (nth k l O)) eqn:E.
    + apply Nat.eqb_eq in E. exfalso. apply Hx. rewrite E. apply nth_In. lia.
    + f_equal. apply IH; [assumption | lia].
Qed.

Lemma pickn_length {A} (d : A) l js : length (pickn d l js) = length js.
Proof. unfold pickn. apply map_length. Qed.

Lemma pickn_nth {A} (d : A) l js k :
  (k < length js)%nat -> nth k (pickn d l js) d = nth (nth k js O) l d.
Proof.
  intros H. unfold pickn.
  set (f := fun j : nat => nth j l d).
  rewrite (nth_indep _ d (f O)) by (rewrite map_length; exact H).
  rewrite (map_nth f). reflexivity.
Qed.

Lemma pickn_seq {A} (d : A) l : pickn d l (seq 0 (length l)) = l.
Proof.
  apply (nth_ext _ _ d d).
  - rewrite pickn_length, seq_length. reflexivity.
  - intros k Hk. rewrite pickn_length, seq_length in Hk.
    rewrite pickn_nth by (rewrite seq_length; exact Hk). rewrite seq_nth by exact Hk. reflexivity.
Qed.

Lemma inv_axes_length axes : length (inv_axes axes) = length axes.
Proof. unfold inv_axes. rewrite map_length, seq_length. reflexivity. Qed.

Lemma inv_axes_nth axes d : (d < length axes)%nat -> nth d (inv_axes axes) O = index_of d axes.
Proof.
  intros H. unfold inv_axes.
  set (f := fun d : nat => index_of d axes).
  rewrite (nth_indep _ O (f O)) by (rewrite map_length, seq_length; exact H).
  rewrite (map_nth f). rewrite seq_nth by exact H. reflexivity.
Qed.

Section Perm.
  Variable axes : list nat.
  Variable n : nat.
  Hypothesis Hperm : is_permb axes n = true.

  Lemma perm_len : length axes = n. Proof. apply (is_permb_spec _ _ Hperm). Qed.
  Lemma perm_nodup : NoDup axes. Proof. apply (is_permb_spec _ _ Hperm). Qed.
  Lemma perm_in a : In a axes <-> (a < n)%nat. Proof. apply (is_permb_spec _ _ Hperm). Qed.

  Lemma perm_index_lt d : (d < n)%nat -> (index_of d axes < n)%nat.
  Proof. intros H. apply perm_in in H. apply index_of_In in H. rewrite perm_len in H. tauto. Qed.

  Lemma perm_nth_index d : (d < n)%nat -> nth (index_of d axes) axes O = d.
  Proof. intros H. apply index_of_In. apply perm_in. exact H. Qed.

  Lemma perm_index_nth k : (k < n)%nat -> index_of (nth k axes O) axes = k.
  Proof. intros H. apply index_of_nth; [apply perm_nodup | rewrite perm_len; exact H]. Qed.

  Lemma perm_nth_lt k : (k < n)%nat -> (nth k axes O < n)%nat.
  Proof. intros H. apply perm_in. apply nth_In. rewrite perm_len. exact H. Qed.

  (* pickn along axes then along the inverse is the identity, and conversely *)
  Lemma pickn_inv_l {A} (d : A) l : length l = n -> pickn d (pickn d l axes) (inv_axes axes) = l.
  Proof.
    intros Hl. apply (nth_ext _ _ d d).
    - rewrite pickn_length, inv_axes_length, perm_len. symmetry. exact Hl.
    - intros k Hk. rewrite pickn_length, inv_axes_length, perm_len in Hk.
      rewrite pickn_nth by (rewrite inv_axes_length, perm_len; exact Hk).
      rewrite inv_axes_nth by (rewrite perm_len; exact Hk).
      rewrite pickn_nth by (rewrite perm_len; apply perm_index_lt; exact Hk).
      rewrite perm_nth_index by exact Hk. reflexivity.
  Qed.

  Lemma pickn_inv_r {A} (d : A) l : length l = n -> pickn d (pickn d l (inv_axes axes)) axes = l.
  Proof.
    intros Hl. apply (nth_ext _ _ d d).
    - rewrite pickn_length, perm_len. symmetry. exact Hl.
    - intros k Hk. rewrite pickn_length, perm_len in Hk.
      rewrite pickn_nth by (rewrite perm_len; exact Hk).
      rewrite pickn_nth by (rewrite inv_axes_length, perm_len; apply perm_nth_lt; exact Hk).
      rewrite inv_axes_nth by (rewrite perm_len; apply perm_nth_lt; exact Hk).
      rewrite perm_index_nth by exact Hk. reflexivity.
  Qed.

  Lemma transpose_src_in_bounds shp out :
    length shp = n -> in_bounds out (transpose_shape axes shp) -> in_bounds (transpose_src axes out) shp.
  Proof.
    unfold transpose_shape, transpose_src. intros Hl Ho.
    pose proof (in_bounds_length _ _ Ho) as Hlo. rewrite pickn_length, perm_len in Hlo.
    apply in_bounds_of_nth.
    - rewrite pickn_length, inv_axes_length, perm_len. symmetry. exact Hl.
    - intros k Hk. rewrite Hl in Hk.
      rewrite pickn_nth by (rewrite inv_axes_length, perm_len; exact Hk).
      rewrite inv_axes_nth by (rewrite perm_len; exact Hk).
      pose proof (perm_index_lt k Hk) as Hj.
      pose proof (in_bounds_nth _ _ (index_of k axes) Ho) as Hb.
      rewrite pickn_length, perm_len in Hb. specialize (Hb Hj).
      rewrite pickn_nth in Hb by (rewrite perm_len; exact Hj).
      rewrite perm_nth_index in Hb by exact Hk. exact Hb.
  Qed.
End Perm.

Lemma atranspose_congr {V} axes (a b : arr V) :
  is_permb axes (length (shape a)) = true -> aeq a b -> aeq (atranspose axes a) (atranspose axes b).
Proof.
  intros Hp [Hs Hg]. split; cbn [atranspose shape get]; [rewrite Hs; reflexivity|].
  intros out Ho. apply Hg. apply (transpose_src_in_bounds axes _ Hp); [reflexivity | exact Ho].
Qed.

(* R5: composition of transpositions *)
Lemma pickn_compose {A} (d : A) l p q :
  Forall (fun j => (j < length p)%nat) q -> pickn d (pickn d l p) q = pickn d l (pickn O p q).
Proof.
  intros H. change (pickn d l (pickn O p q)) with (map (fun j => nth j l d) (map (fun j => nth j p O) q)).
  rewrite map_map. unfold pickn at 1. apply map_ext_in. intros j Hj.
  rewrite Forall_forall in H. specialize (H j Hj).
  apply (pickn_nth d l p j H).
Qed.

Lemma index_of_pickn p q d :
  NoDup p -> In d p -> Forall (fun j => (j < length p)%nat) q ->
  index_of d (pickn O p q) = index_of (index_of d p) q.
Proof.
  intros Hnd Hd. induction q as [|x q IH]; intros Hq; [reflexivity|].
  inversion Hq as [|x0 q0 Hx Hq']; subst.
  cbn [pickn map index_of]. fold (pickn O p q).
  destruct (index_of_In d p Hd) as [Hlt Hnth].
  destruct (Nat.eqb (nth x p O) d) eqn:E1, (Nat.eqb x (index_of d p)) eqn:E2; try reflexivity.
  - apply Nat.eqb_eq in E1. apply Nat.eqb_neq in E2. exfalso. apply E2.
    rewrite <- E1. symmetry. apply index_of_nth; assumption.
  - apply Nat.eqb_neq in E1. apply Nat.eqb_eq in E2. exfalso. apply E1. rewrite E2. exact Hnth.
  - f_equal. apply IH. exact Hq'.
Qed.

Lemma is_permb_compose p q n : is_permb p n = true -> is_permb q n = true -> is_permb (pickn O p q) n = true.
Proof.
  intros Hp Hq. unfold is_permb. apply andb_true_iff. split.
  - apply Nat.eqb_eq. rewrite pickn_length. apply (perm_len q n Hq).
  - apply forallb_forall. intros d Hd. apply in_seq in Hd. apply existsb_exists.
    exists d. split; [|apply Nat.eqb_refl].
    assert (d < n)%nat as Hdn by lia.
    (* d = p[q[k]] with k = index of (index of d in p) in q *)
    pose proof (perm_index_lt p n Hp d Hdn) as H1.
    pose proof (perm_index_lt q n Hq _ H1) as H2.
    set (k := index_of (index_of d p) q) in *.
    replace d with (nth k (pickn O p q) O).
    + apply nth_In. rewrite pickn_length, (perm_len q n Hq). exact H2.
    + rewrite pickn_nth by (rewrite (perm_len q n Hq); exact H2).
      unfold k. rewrite (perm_nth_index q n Hq) by exact H1. apply (perm_nth_index p n Hp). exact Hdn.
Qed.

Lemma transpose_src_compose p q n out :
  is_permb p n = true -> is_permb q n = true -> length out = n ->
  transpose_src p (transpose_src q out) = transpose_src (pickn O p q) out.
Proof.
  intros Hp Hq Hl. unfold transpose_src.
  apply (nth_ext _ _ 0 0).
  - rewrite !pickn_length, !inv_axes_length, pickn_length, (perm_len p n Hp), (perm_len q n Hq). reflexivity.
  - intros d Hd. rewrite pickn_length, inv_axes_length, (perm_len p n Hp) in Hd.
    pose proof (perm_index_lt p n Hp d Hd) as H1.
    rewrite pickn_nth by (rewrite inv_axes_length, (perm_len p n Hp); exact Hd).
    rewrite inv_axes_nth by (rewrite (perm_len p n Hp); exact Hd).
    rewrite pickn_nth by (rewrite inv_axes_length, (perm_len q n Hq); exact H1).
    rewrite inv_axes_nth by (rewrite (perm_len q n Hq); exact H1).
    rewrite pickn_nth by (rewrite inv_axes_length, pickn_length, (perm_len q n Hq); exact Hd).
    rewrite inv_axes_nth by (rewrite pickn_length, (perm_len q n Hq); exact Hd).
    rewrite index_of_pickn; [reflexivity | apply (perm_nodup p n Hp) | apply (perm_in p n Hp); exact Hd |].
    apply Forall_forall. intros j Hj. rewrite (perm_len p n Hp). apply (perm_in q n Hq). exact Hj.
Qed.

Lemma is_permb_seq n : is_permb (seq 0 n) n = true.
Proof.
  unfold is_permb. rewrite seq_length, Nat.eqb_refl. cbn [andb].
  apply forallb_forall. intros d Hd. apply existsb_exists. exists d. split; [exact Hd | apply Nat.eqb_refl].
Qed.

Lemma inv_axes_seq n : inv_axes (seq 0 n) = seq 0 n.
Proof.
  apply (nth_ext _ _ O O).
  - rewrite inv_axes_length. reflexivity.
  - intros d Hd. rewrite inv_axes_length, seq_length in Hd.
    rewrite inv_axes_nth by (rewrite seq_length; exact Hd).
    rewrite seq_nth by exact Hd. cbn [plus].
    pose proof (index_of_nth (seq 0 n) d (seq_NoDup n 0)) as H. rewrite seq_length in H.
    specialize (H Hd). rewrite seq_nth in H by exact Hd. exact H.
Qed.

(* ---------------------------------------------------------------------- *)
(* broadcasting *)
Fixpoint compat (sa suf : list Z) : Prop :=
  match sa, suf with
  | [], [] => True
  | n :: sa', m :: suf' => (n = 1 \/ n = m) /\ compat sa' suf'
  | _, _ => False
  end.

Definition bcast_into (sa o : list Z) : Prop := exists pre suf, o = pre ++ suf /\ compat sa suf.

Lemma compat_length sa : forall suf, compat sa suf -> length sa = length suf.
Proof.
  induction sa as [|n sa IH]; intros [|m suf] H; cbn [compat] in H; try (exfalso; tauto); [reflexivity|].
  cbn [length]. f_equal. apply IH. tauto.
Qed.

Lemma compat_app a : forall b a' b', compat a b -> compat a' b' -> compat (a ++ a') (b ++ b').
Proof.
  induction a as [|n a IH]; intros [|m b] a' b' H H'; cbn [compat] in H; try (exfalso; tauto).
  - exact H'.
  - cbn [app compat]. split; [tauto|]. apply IH; tauto.
Qed.

Lemma compat_rev a : forall b, compat a b -> compat (rev a) (rev b).
Proof.
  induction a as [|n a IH]; intros [|m b] H; cbn [compat] in H; try (exfalso; tauto); [exact I|].
  cbn [rev]. apply compat_app; [apply IH; tauto|]. cbn [compat]. tauto.
Qed.

Lemma rbcast_intob_split ra : forall ro, rbcast_intob ra ro = true ->
  exists rsuf rpre, ro = rsuf ++ rpre /\ compat ra rsuf.
Proof.
  induction ra as [|n ra IH]; intros ro H.
  - exists [], ro. split; [reflexivity | exact I].
  - destruct ro as [|m ro]; cbn [rbcast_intob] in H; [discriminate|].
    apply andb_true_iff in H. destruct H as [H1 H2].
    destruct (IH ro H2) as (rsuf & rpre & -> & Hc).
    exists (m :: rsuf), rpre. split; [reflexivity|]. cbn [compat]. split; [lia | exact Hc].
Qed.

Lemma bcast_intob_spec sa o : bcast_intob sa o = true -> bcast_into sa o.
Proof.
  unfold bcast_intob. intros H. destruct (rbcast_intob_split _ _ H) as (rsuf & rpre & Ho & Hc).
  exists (rev rpre), (rev rsuf). split.
  - rewrite <- rev_app_distr, <- Ho, rev_involutive. reflexivity.
  - rewrite <- (rev_involutive sa). apply compat_rev. exact Hc.
Qed.

Lemma lastn_app {A} (pre suf : list A) k : length suf = k -> lastn k (pre ++ suf) = suf.
Proof.
  intros H. unfold lastn. rewrite app_length, H.
  replace (length pre + k - k)%nat with (length pre + 0)%nat by lia.
  rewrite skipn_app, Nat.add_0_r, skipn_all, Nat.sub_diag. reflexivity.
Qed.

Lemma lastn_skipn {A} (l : list A) p k : length l = (p + k)%nat -> lastn k l = skipn p l.
Proof. intros H. unfold lastn. f_equal. lia. Qed.

Lemma mask_in_bounds sa : forall suf out, compat sa suf -> in_bounds out suf -> in_bounds (mask sa out) sa.
Proof.
  induction sa as [|n sa IH]; intros [|m suf] [|i out] Hc Ho; cbn [compat in_bounds] in *; try (exfalso; tauto).
  - exact I.
  - cbn [mask in_bounds]. split; [|apply (IH suf); tauto].
    destruct (n =? 1) eqn:E; lia.
Qed.

Lemma bidx_in_bounds sa o out : bcast_into sa o -> in_bounds out o -> in_bounds (bidx sa out) sa.
Proof.
  intros (pre & suf & -> & Hc) Ho.
  destruct (in_bounds_app_inv pre out suf Ho) as [_ H2].
  unfold bidx. rewrite (lastn_skipn out (length pre) (length sa)).
  - apply (mask_in_bounds sa suf); assumption.
  - rewrite (in_bounds_length _ _ Ho), app_length, (compat_length _ _ Hc). reflexivity.
Qed.

Lemma aelemwise_args_congr {V} (o out : list Z) : forall (A B : list (arr V)),
  in_bounds out o -> Forall2 aeq A B -> Forall (fun a => bcast_into (shape a) o) A ->
  map (fun a => get a (bidx (shape a) out)) A = map (fun a => get a (bidx (shape a) out)) B.
Proof.
  intros A B Ho H. induction H as [|a b A B [Hs Hg] _ IH]; intros Hb; [reflexivity|].
  inversion Hb as [|a0 A0 Ha Hb']; subst. cbn [map]. f_equal.
  - rewrite <- Hs. apply Hg. apply (bidx_in_bounds _ o); assumption.
  - apply IH. exact Hb'.
Qed.

Lemma Forall2_aeq_shapes {V} (A B : list (arr V)) : Forall2 aeq A B -> map shape A = map shape B.
Proof. intros H. induction H as [|a b A B [Hs _] _ IH]; [reflexivity|]. cbn [map]. rewrite Hs, IH. reflexivity. Qed.

Lemma aelemwise_congr {V} (f : list V -> V) (A B : list (arr V)) :
  Forall2 aeq A B -> Forall (fun a => bcast_into (shape a) (bshape_all (map shape A))) A ->
  aeq (aelemwise f A) (aelemwise f B).
Proof.
  intros H Hb. split; cbn [aelemwise shape get].
  - rewrite (Forall2_aeq_shapes A B H). reflexivity.
  - intros out Ho. f_equal. apply (aelemwise_args_congr (bshape_all (map shape A))); assumption.
Qed.

(* ---------------------------------------------------------------------- *)
(* slicing distributes over a split of the axes *)
Definition basicb (ix : list pidx) : bool := forallb (fun i => match i with INone => false | _ => true end) ix.

Lemma idx_okb_basic ix : forall shp, idx_okb ix shp = true -> basicb ix = true.
Proof.
  induction ix as [|i ix IH]; intros [|n shp] H; cbn [idx_okb] in H; try discriminate; [reflexivity| |].
  - destruct i; discriminate.
  - destruct i; try discriminate; apply andb_true_iff in H; cbn [basicb forallb]; apply (IH shp); tauto.
Qed.

Lemma slice_shape_app ix1 : forall s1 ix2 s2, length ix1 = length s1 -> basicb ix1 = true ->
  slice_shape (ix1 ++ ix2) (s1 ++ s2) = slice_shape ix1 s1 ++ slice_shape ix2 s2.
Proof.
  induction ix1 as [|i ix1 IH]; intros [|n s1] ix2 s2 Hl Hb; cbn [length] in Hl; try discriminate; [reflexivity|].
  cbn [basicb forallb] in Hb. apply andb_true_iff in Hb. destruct Hb as [Hi Hb].
  destruct i as [z|s|]; try discriminate; cbn [app slice_shape hd tl]; rewrite (IH s1 ix2 s2) by (try lia; exact Hb); reflexivity.
Qed.

Lemma slice_src_app ix1 : forall s1 ix2 s2 out, length ix1 = length s1 -> basicb ix1 = true ->
  slice_src (ix1 ++ ix2) (s1 ++ s2) out =
  slice_src ix1 s1 (firstn (nslices ix1) out) ++ slice_src ix2 s2 (skipn (nslices ix1) out).
Proof.
  induction ix1 as [|i ix1 IH]; intros [|n s1] ix2 s2 out Hl Hb; cbn [length] in Hl; try discriminate; [reflexivity|].
  cbn [basicb forallb] in Hb. apply andb_true_iff in Hb. destruct Hb as [Hi Hb].
  destruct i as [z|s|]; try discriminate; unfold nslices; cbn [app slice_src hd tl filter is_sliceb length]; fold (nslices ix1).
  - rewrite (IH s1 ix2 s2 out) by (try lia; exact Hb). reflexivity.
  - rewrite (IH s1 ix2 s2 (tl out)) by (try lia; exact Hb).
    destruct out as [|j out]; cbn [firstn skipn hd tl app]; [|reflexivity].
    rewrite firstn_nil, skipn_nil. reflexivity.
Qed.

Lemma slice_src_length ix : forall shp out, basicb ix = true ->
  length (slice_src ix shp out) = (length ix + (length out - nslices ix))%nat.
Proof.
  induction ix as [|i ix IH]; intros shp out Hb.
  - unfold nslices. cbn [slice_src length filter]. lia.
  - cbn [basicb forallb] in Hb. apply andb_true_iff in Hb. destruct Hb as [Hi Hb].
    destruct i as [z|s|]; try discriminate; unfold nslices; cbn [slice_src length filter is_sliceb]; fold (nslices ix);
      rewrite IH by exact Hb; [reflexivity|].
    destruct out; cbn [tl length]; lia.
Qed.
