(* Proofs about the model of auto_chunks' previous_chunks branch (AutoPrev.v), part 1:
   structure of the model and VALIDITY of every result, for all oracle values.

     normalize_prev_valid_layout   every accepted result is a layout of the shape
     normalize_prev_auto_positive  'auto' axes of positive length get positive chunks
     normalize_prev_fixed_untouched  the other axes are converted exactly as without previous_chunks
     normalize_prev_no_auto        without 'auto' previous_chunks is ignored *)
From DA Require Import PyBase PyBaseFacts NormChunks NormChunksFacts AutoPrev.
From Coq Require Import ZifyBool.
Open Scope Z_scope.
Ltac Zify.zify_post_hook ::= Z.to_euclidean_division_equations.

(* ---------------------------------------------------------------------- *)
(* the tail of normalize_chunks *)

Lemma normalize_tail_inv specs shape cs :
  normalize_tail specs shape = Ok cs ->
  convert_all specs shape = Ok cs /\
  existsb is_nil cs = false /\
  existsb (fun c => existsb (fun x => x <? 0) c) cs = false /\
  (forallb is_int_spec specs = true \/
   forallb (fun p => zsum (fst p) =? snd p) (combine cs shape) = true).
Proof.
  unfold normalize_tail.
  destruct (convert_all specs shape) as [chunks|] eqn:Hc; [|discriminate].
  destruct (existsb is_nil chunks) eqn:Hnil; [discriminate|].
  destruct (existsb (fun c => existsb (fun x => x <? 0) c) chunks) eqn:Hneg; [discriminate|].
  destruct (forallb is_int_spec specs) eqn:Hint; cbn [negb andb].
  - intros H. injection H as <-. auto.
  - destruct (forallb (fun p => zsum (fst p) =? snd p) (combine chunks shape)) eqn:Hsum; cbn [negb]; [|discriminate].
    intros H. injection H as <-. auto.
Qed.

Lemma normalize_tail_layout specs shape cs :
  Forall (fun n => 0 <= n) shape ->
  normalize_tail specs shape = Ok cs -> layout_ok cs shape = true.
Proof.
  intros Hsh H. apply normalize_tail_inv in H as (Hc & Hnil & Hneg & Hsum).
  destruct (convert_all_nth specs shape cs Hc) as (L1 & L2 & _).
  unfold layout_ok. apply andb_true_iff. split; [apply Nat.eqb_eq; exact L1|].
  apply checks_layout; try assumption.
  destruct Hsum as [Hint|Hsum]; [|exact Hsum].
  eapply convert_all_int_sums; eassumption.
Qed.

(* the sums hold in both cases *)
Lemma normalize_tail_sums specs shape cs :
  Forall (fun n => 0 <= n) shape ->
  normalize_tail specs shape = Ok cs ->
  forallb (fun p => zsum (fst p) =? snd p) (combine cs shape) = true.
Proof.
  intros Hsh H. apply normalize_tail_inv in H as (Hc & Hnil & Hneg & Hsum).
  destruct Hsum as [Hint|Hsum]; [|exact Hsum].
  eapply convert_all_int_sums; eassumption.
Qed.

(* ---------------------------------------------------------------------- *)
(* inversion of normalize_chunks_prev *)

Lemma normalize_prev_inv orc fuel limit itemsize specs shape prev cs :
  normalize_chunks_prev orc fuel limit itemsize specs shape prev = POk cs ->
  length specs = length shape /\
  ((count_autos (subst_all specs shape) = 0 /\ normalize_tail (subst_all specs shape) shape = Ok cs) \/
   (count_autos (subst_all specs shape) <> 0 /\
    exists pvs specs', conv_prev shape prev = Ok pvs /\
      auto_chunks_prev orc fuel limit itemsize (subst_all specs shape) shape pvs = AOk specs' /\
      normalize_tail specs' shape = Ok cs)).
Proof.
  unfold normalize_chunks_prev. fold (subst_all specs shape).
  destruct (Nat.eqb (length specs) (length shape)) eqn:El; cbn [negb]; [|discriminate].
  apply Nat.eqb_eq in El. intros H. split; [exact El|].
  destruct (count_autos (subst_all specs shape) =? 0) eqn:Ec.
  - left. split; [lia|]. destruct (normalize_tail (subst_all specs shape) shape); [|discriminate].
    injection H as <-. reflexivity.
  - right. split; [lia|]. destruct prev as [|p0 prev]; [discriminate|].
    destruct (conv_prev shape (p0 :: prev)) as [pvs|] eqn:Hp; [|discriminate].
    destruct (auto_chunks_prev orc fuel limit itemsize (subst_all specs shape) shape pvs) as [specs'| |] eqn:Ha;
      try discriminate.
    destruct (normalize_tail specs' shape) as [cs'|] eqn:Ht; [|discriminate].
    injection H as <-. exists pvs, specs'. auto.
Qed.

Theorem normalize_prev_valid_layout : forall orc fuel limit itemsize specs shape prev cs,
  Forall (fun n => 0 <= n) shape ->
  normalize_chunks_prev orc fuel limit itemsize specs shape prev = POk cs ->
  layout_ok cs shape = true.
Proof.
  intros orc fuel limit itemsize specs shape prev cs Hsh H.
  apply normalize_prev_inv in H as (_ & [(_ & Ht) | (_ & pvs & specs' & _ & _ & Ht)]);
    eapply normalize_tail_layout; eassumption.
Qed.

(* without 'auto', previous_chunks plays no role: the result is that of NormChunks.normalize_chunks *)
Theorem normalize_prev_no_auto : forall orc fuel limit itemsize specs shape prev sizes,
  length specs = length shape ->
  count_autos (subst_all specs shape) = 0 ->
  normalize_chunks_prev orc fuel limit itemsize specs shape prev =
  match normalize_chunks sizes specs shape with Ok cs => POk cs | Err e => PErr e end.
Proof.
  intros orc fuel limit itemsize specs shape prev sizes Hlen Hc.
  unfold normalize_chunks_prev, normalize_chunks. fold (subst_all specs shape).
  rewrite Hlen, Nat.eqb_refl. cbn [negb]. rewrite Hc. cbn [Z.eqb].
  assert (auto_chunks (S (length (subst_all specs shape))) sizes (subst_all specs shape) shape
          = Ok (subst_all specs shape)) as ->.
  { cbn [auto_chunks]. rewrite Hc. reflexivity. }
  unfold normalize_tail.
  destruct (convert_all (subst_all specs shape) shape) as [chunks|]; [|reflexivity].
  destruct (existsb is_nil chunks); [reflexivity|].
  destruct (existsb (fun c => existsb (fun x => x <? 0) c) chunks); [reflexivity|].
  destruct (negb (forallb is_int_spec (subst_all specs shape)) &&
            negb (forallb (fun p => zsum (fst p) =? snd p) (combine chunks shape))); reflexivity.
Qed.

(* ---------------------------------------------------------------------- *)
(* lengths *)

Lemma ideals_of_length pvs : forall shape ids,
  ideals_of pvs shape = Ok ids -> length ids = length shape /\ (length shape <= length pvs)%nat.
Proof.
  induction pvs as [|pv pvs IH]; intros [|s shape] ids H; cbn [ideals_of] in H.
  - injection H as <-. split; cbn; lia.
  - discriminate.
  - injection H as <-. split; cbn; lia.
  - destruct (ideal_of pv s) as [i|]; [|discriminate].
    destruct (ideals_of pvs shape) as [r|] eqn:Hr; [|discriminate].
    injection H as <-. destruct (IH shape r Hr). cbn [length]. split; lia.
Qed.

Lemma mk_consts_length shape : forall pvs ids,
  length ids = length shape -> (length shape <= length pvs)%nat ->
  length (mk_consts shape pvs ids) = length shape.
Proof.
  induction shape as [|n shape IH]; intros [|pv pvs] [|i ids] H1 H2; cbn in *; try lia.
  rewrite IH; lia.
Qed.

Lemma init_axes_length specs pvs :
  (length specs <= length pvs)%nat -> length (init_axes specs pvs) = length specs.
Proof. intros H. unfold init_axes. rewrite map_length, combine_length. lia. Qed.

Lemma round_axes_length reduce cs : forall a o xs xs' f k,
  round_axes reduce cs a o xs = (xs', f, k) -> length cs = length xs -> length xs' = length xs.
Proof.
  induction cs as [|c cs IH]; intros a o [|x xs] xs' f k H Hl; cbn [round_axes] in H; cbn in Hl; try lia.
  - injection H as <- _ _. reflexivity.
  - destruct (if ax_auto x then axis_step reduce c (o a) x else (x, false, 1)) as [[x1 f1] k1].
    destruct (round_axes reduce cs (S a) o xs) as [[xs2 f2] k2] eqn:Hr.
    injection H as <- _ _. cbn [length]. erewrite IH; [reflexivity|exact Hr|lia].
Qed.

(* ---------------------------------------------------------------------- *)
(* what the loop can leave in the dicts *)

Definition dv_good (v : dv) : Prop :=
  match v with VTup l => Forall (fun c => 0 < c) l \/ length l = 1%nat | VNum _ => True end.
Definition opt_good (o : option dv) : Prop := match o with Some v => dv_good v | None => True end.
(* per-axis invariant relative to the spec of the axis *)
Definition ax_inv (sp : aspec) (x : axst) : Prop :=
  if is_auto sp then opt_good (ax_med x) /\ opt_good (ax_res x) else x = mkax false None None.

Lemma merge_prev_pos p pv : forall nc, Forall (fun c => 0 < c) (merge_prev p pv nc).
Proof.
  induction pv as [|c pv IH]; intros nc; cbn [merge_prev].
  - destruct (0 <? nc) eqn:E; constructor; [lia|constructor].
  - destruct (z_le_f (c + nc) p); [apply IH|].
    apply Forall_app. split; [|apply IH].
    destruct (0 <? nc) eqn:E; constructor; [lia|constructor].
Qed.

Lemma axis_step_good reduce c o x x' f k :
  axis_step reduce c o x = (x', f, k) ->
  opt_good (ax_med x) -> opt_good (ax_res x) -> opt_good (ax_med x') /\ opt_good (ax_res x').
Proof.
  unfold axis_step. destruct o as [p mcs]. intros H Hm Hr.
  destruct (f_gt_z p (c_n c)).
  - injection H as <- _ _. destruct reduce; cbn; auto.
  - destruct (reduce || z_gt_f (max_of (c_pv c)) mcs).
    + destruct (f_lt_z p 1); injection H as <- _ _; unfold set_res; destruct reduce; cbn; auto.
    + injection H as <- _ _. unfold set_res.
      pose proof (merge_prev_pos p (c_pv c) 0) as Hp.
      destruct reduce; cbn; auto.
Qed.

Lemma round_axes_inv reduce cs : forall a o specs xs xs' f k,
  round_axes reduce cs a o xs = (xs', f, k) -> length cs = length xs ->
  Forall2 ax_inv specs xs -> Forall2 ax_inv specs xs'.
Proof.
  induction cs as [|c cs IH]; intros a o specs [|x xs] xs' f k H Hl HF; cbn [round_axes] in H; cbn in Hl; try lia.
  - injection H as <- _ _. exact HF.
  - inversion HF as [|sp ? specs0 ? Hx HF']; subst.
    destruct (ax_auto x) eqn:Ea.
    + destruct (axis_step reduce c (o a) x) as [[x1 f1] k1] eqn:Hs.
      destruct (round_axes reduce cs (S a) o xs) as [[xs2 f2] k2] eqn:Hr.
      injection H as <- _ _. constructor; [|eapply IH; [exact Hr|lia|exact HF']].
      unfold ax_inv in *. destruct (is_auto sp).
      * destruct Hx as [Hm Hr']. eapply axis_step_good; eassumption.
      * subst x. discriminate.
    + destruct (round_axes reduce cs (S a) o xs) as [[xs2 f2] k2] eqn:Hr.
      injection H as <- _ _. constructor; [exact Hx|eapply IH; [exact Hr|lia|exact HF']].
Qed.

Lemma prev_round_inv reduce limit itemsize cs o specs st st' b :
  prev_round reduce limit itemsize cs o st = Ok (st', b) -> length cs = length (ls_axes st) ->
  Forall2 ax_inv specs (ls_axes st) ->
  Forall2 ax_inv specs (ls_axes st') /\ length (ls_axes st') = length (ls_axes st).
Proof.
  unfold prev_round. intros H Hl HF.
  destruct (round_axes reduce cs 0 o (ls_axes st)) as [[xs f] k] eqn:Hr.
  pose proof (round_axes_inv _ _ _ _ _ _ _ _ _ Hr Hl HF) as HF'.
  pose proof (round_axes_length _ _ _ _ _ _ _ _ Hr Hl) as Hl'.
  destruct (f || reduce).
  - destruct (compute_multiplier limit itemsize (ls_lb st * k) (map ax_med xs)); [|discriminate].
    injection H as <- _. cbn [ls_axes]. auto.
  - injection H as <- _. cbn [ls_axes]. auto.
Qed.

Lemma prev_loop_inv fuel reduce limit itemsize cs orc specs : forall r st st',
  prev_loop fuel reduce limit itemsize cs orc r st = LDone st' -> length cs = length (ls_axes st) ->
  Forall2 ax_inv specs (ls_axes st) -> Forall2 ax_inv specs (ls_axes st').
Proof.
  induction fuel as [|f IH]; intros r st st' H Hl HF; cbn [prev_loop] in H; [discriminate|].
  destruct (prev_round reduce limit itemsize cs (orc r) st) as [[st1 b]|] eqn:Hr; [|discriminate].
  destruct (prev_round_inv _ _ _ _ _ _ _ _ _ Hr Hl HF) as [HF1 Hl1].
  destruct b.
  - eapply IH; [exact H|lia|exact HF1].
  - injection H as <-. exact HF1.
Qed.

Lemma init_axes_inv specs : forall pvs,
  (length specs <= length pvs)%nat -> Forall2 ax_inv specs (init_axes specs pvs).
Proof.
  unfold init_axes. induction specs as [|sp specs IH]; intros pvs Hl; [constructor|].
  destruct pvs as [|pv pvs]; cbn in Hl; [lia|]. cbn [combine map].
  constructor; [|apply IH; lia]. cbn [fst snd]. unfold ax_inv.
  destruct (is_auto sp); cbn; auto.
Qed.

(* what the resolved spec of an axis can be *)
Definition fin_rel (sp sp' : aspec) : Prop :=
  if is_auto sp
  then sp' = AAuto \/ (exists c, sp' = AInt c) \/
       (exists l, sp' = ATuple l /\ (Forall (fun c => 0 < c) l \/ length l = 1%nat))
  else sp' = sp.

Lemma final_specs_rel reduce specs : forall xs specs',
  Forall2 ax_inv specs xs -> final_specs reduce specs xs = Ok specs' -> Forall2 fin_rel specs specs'.
Proof.
  induction specs as [|sp specs IH]; intros xs specs' HF H; inversion HF as [|? x ? xs0 Hx HF']; subst;
    cbn [final_specs] in H.
  - injection H as <-. constructor.
  - destruct (final_spec_of sp (if reduce then ax_med x else ax_res x)) as [s|] eqn:Hs; [|discriminate].
    destruct (final_specs reduce specs xs0) as [r|] eqn:Hr; [|discriminate].
    injection H as <-. constructor; [|eapply IH; eassumption].
    unfold fin_rel, ax_inv in *. destruct (is_auto sp) eqn:Ea.
    + destruct Hx as [Hm Hres].
      assert (opt_good (if reduce then ax_med x else ax_res x)) as Hg by (destruct reduce; assumption).
      destruct (if reduce then ax_med x else ax_res x) as [[[|n d]|[|y l]]|]; cbn [final_spec_of] in Hs.
      * discriminate.
      * destruct (n =? 0); [injection Hs as <-; eauto|].
        destruct (n mod d =? 0); [injection Hs as <-; eauto|discriminate].
      * injection Hs as <-. eauto.
      * injection Hs as <-. right. right. exists (y :: l). split; [reflexivity|exact Hg].
      * injection Hs as <-. destruct sp; try discriminate. left. reflexivity.
    + subst x. destruct reduce; cbn in Hs; injection Hs as <-; reflexivity.
Qed.

Lemma auto_chunks_prev_rel orc fuel limit itemsize specs shape pvs specs' :
  length specs = length shape ->
  auto_chunks_prev orc fuel limit itemsize specs shape pvs = AOk specs' ->
  Forall2 fin_rel specs specs'.
Proof.
  intros Hlen. unfold auto_chunks_prev, loop_start.
  destruct (initial_multiplier limit itemsize specs pvs) as [m|]; [|discriminate].
  destruct (ideals_of pvs shape) as [ids|] eqn:Hi; [|discriminate].
  destruct (ideals_of_length _ _ _ Hi) as [Li Lp].
  destruct (prev_loop fuel (f_lt_z m 1) (Z.max 1 limit) itemsize (mk_consts shape pvs ids) orc 0
              (mkls (init_axes specs pvs) (largest_fixed specs) m)) as [st| |] eqn:Hl; try discriminate.
  destruct (final_specs (f_lt_z m 1) specs (ls_axes st)) as [s|] eqn:Hf; [|discriminate].
  intros H. injection H as <-.
  eapply final_specs_rel; [|exact Hf].
  eapply prev_loop_inv; [exact Hl| |].
  - cbn [ls_axes]. rewrite mk_consts_length, init_axes_length; lia.
  - cbn [ls_axes]. apply init_axes_inv. lia.
Qed.

Lemma Forall2_nth_error {A B} (R : A -> B -> Prop) l1 l2 : Forall2 R l1 l2 ->
  forall i a, nth_error l1 i = Some a -> exists b, nth_error l2 i = Some b /\ R a b.
Proof.
  induction 1 as [|x y l1 l2 Hxy _ IH]; intros [|i] a Ha; cbn [nth_error] in *; try discriminate.
  - injection Ha as <-. eauto.
  - eauto.
Qed.

Lemma existsb_false_nth {A} (f : A -> bool) l i x :
  existsb f l = false -> nth_error l i = Some x -> f x = false.
Proof. intros H Hn. eapply existsb_false_In; [exact H|]. eapply nth_error_In; exact Hn. Qed.

Lemma sums_nth cs : forall shape i l n,
  forallb (fun p => zsum (fst p) =? snd p) (combine cs shape) = true ->
  nth_error cs i = Some l -> nth_error shape i = Some n -> zsum l = n.
Proof.
  induction cs as [|c cs IH]; intros [|s shape] [|i] l n H Hc Hs; cbn [nth_error combine forallb fst snd] in *;
    try discriminate.
  - injection Hc as <-. injection Hs as <-. apply andb_true_iff in H as [H _]. lia.
  - apply andb_true_iff in H as [_ H]. eapply IH; eassumption.
Qed.

Lemma subst_full_not_auto sp n : sp <> AAuto -> is_auto (subst_full sp n) = false.
Proof. intros H. destruct sp as [c| | |]; cbn; try reflexivity; [destruct (c =? -1); reflexivity|congruence]. Qed.

(* the resolved specs, per axis *)
Lemma normalize_prev_axis orc fuel limit itemsize specs shape prev cs :
  Forall (fun n => 0 <= n) shape ->
  normalize_chunks_prev orc fuel limit itemsize specs shape prev = POk cs ->
  forall i sp n, nth_error specs i = Some sp -> nth_error shape i = Some n ->
  exists sp' l, fin_rel (subst_full sp n) sp' /\ nth_error cs i = Some l /\ convert_axis sp' n = Ok l /\
    is_nil l = false /\ existsb (fun x => x <? 0) l = false /\ zsum l = n.
Proof.
  intros Hsh H i sp n Hsp Hn.
  pose proof (normalize_prev_inv _ _ _ _ _ _ _ _ H) as (Hlen & Hcase).
  pose proof (subst_all_nth specs shape i sp n Hsp Hn) as Hsub.
  assert (exists specs', Forall2 fin_rel (subst_all specs shape) specs' /\ normalize_tail specs' shape = Ok cs)
    as (specs' & HF & Ht).
  { destruct Hcase as [(Hc & Ht) | (_ & pvs & specs' & _ & Ha & Ht)].
    - exists (subst_all specs shape). split; [|exact Ht].
      assert (forall l, (forall x, In x l -> is_auto x = false) -> Forall2 fin_rel l l) as Hrefl.
      { induction l as [|x l IH]; intros Hx; constructor.
        - unfold fin_rel. rewrite (Hx x) by (left; reflexivity). reflexivity.
        - apply IH. intros y Hy. apply Hx. right. exact Hy. }
      apply Hrefl. intros x Hx. eapply count_autos_zero_In; [|exact Hx]. lia.
    - exists specs'. split; [|exact Ht].
      eapply auto_chunks_prev_rel; [|exact Ha]. apply subst_all_length. exact Hlen. }
  pose proof (normalize_tail_sums _ _ _ Hsh Ht) as Hsums.
  apply normalize_tail_inv in Ht as (Hc & Hnil & Hneg & _).
  destruct (Forall2_nth_error _ _ _ HF i _ Hsub) as (sp' & Hsp' & Hrel).
  destruct (convert_all_nth specs' shape cs Hc) as (_ & _ & Hnth).
  destruct (Hnth i sp' n Hsp' Hn) as (l & Hl & Hconv).
  exists sp', l. repeat split; try assumption.
  - eapply (existsb_false_nth is_nil); eassumption.
  - eapply (existsb_false_nth (fun c => existsb (fun x => x <? 0) c)); eassumption.
  - eapply sums_nth; eassumption.
Qed.

Theorem normalize_prev_auto_positive : forall orc fuel limit itemsize specs shape prev cs,
  Forall (fun n => 0 <= n) shape ->
  normalize_chunks_prev orc fuel limit itemsize specs shape prev = POk cs ->
  forall i n l, nth_error specs i = Some AAuto -> nth_error shape i = Some n -> 0 < n ->
    nth_error cs i = Some l -> Forall (fun c => 0 < c) l.
Proof.
  intros orc fuel limit itemsize specs shape prev cs Hsh H i n l Hsp Hn Hpos Hl.
  destruct (normalize_prev_axis _ _ _ _ _ _ _ _ Hsh H i AAuto n Hsp Hn)
    as (sp' & l' & Hrel & Hl' & Hconv & Hnil & Hneg & Hsum).
  assert (l' = l) as -> by congruence.
  cbn [subst_full] in Hrel. unfold fin_rel in Hrel. cbn [is_auto] in Hrel.
  destruct Hrel as [-> | [(c & ->) | (l0 & -> & Hgood)]]; cbn [convert_axis] in Hconv.
  - discriminate.
  - eapply blockdims_axis_pos; eassumption.
  - injection Hconv as ->. destruct Hgood as [Hp|Hone]; [exact Hp|].
    destruct l as [|x [|y l]]; cbn in Hone; try lia. cbn [zsum] in Hsum.
    constructor; [lia|constructor].
Qed.

Theorem normalize_prev_fixed_untouched : forall orc fuel limit itemsize specs shape prev cs,
  Forall (fun n => 0 <= n) shape ->
  normalize_chunks_prev orc fuel limit itemsize specs shape prev = POk cs ->
  forall i sp n, nth_error specs i = Some sp -> sp <> AAuto -> nth_error shape i = Some n ->
    exists l, nth_error cs i = Some l /\ convert_axis (subst_full sp n) n = Ok l.
Proof.
  intros orc fuel limit itemsize specs shape prev cs Hsh H i sp n Hsp Hna Hn.
  destruct (normalize_prev_axis _ _ _ _ _ _ _ _ Hsh H i sp n Hsp Hn)
    as (sp' & l & Hrel & Hl & Hconv & _).
  unfold fin_rel in Hrel. rewrite (subst_full_not_auto sp n Hna) in Hrel. subst sp'.
  exists l. auto.
Qed.
