(* Proofs about the store model (StoreModel.v): the write indices of the blocks
   partition the region, the fold over the blocks is one assignment, it is order
   independent, and reading back returns the source. *)
From DA Require Import PyBase PyBaseFacts Slicing NormalizeFacts FuseFacts Slice1dBase StoreModel.
From Coq Require Import ZifyBool Permutation FinFun.
Open Scope Z_scope.
Ltac Zify.zify_post_hook ::= Z.to_euclidean_division_equations.

(* ---------------------------------------------------------------------- *)
(* generic list facts *)

Lemma nth_skipn_add {A} (l : list A) (a i : nat) d : nth i (skipn a l) d = nth (a + i) l d.
Proof.
  revert l. induction a as [|a IH]; intros l; [reflexivity|].
  destruct l as [|x t]; [destruct i; reflexivity|]. cbn [skipn Nat.add nth]. apply IH.
Qed.

Lemma nth_firstn_lt {A} (l : list A) (m i : nat) d : (i < m)%nat -> nth i (firstn m l) d = nth i l d.
Proof.
  revert l i. induction m as [|m IH]; intros l i Hi; [lia|].
  destruct l as [|x t]; [reflexivity|]. destruct i as [|i]; [reflexivity|].
  cbn [firstn nth]. apply IH. lia.
Qed.

Lemma skipn_add {A} (l : list A) (a b : nat) : skipn (a + b) l = skipn b (skipn a l).
Proof.
  revert l. induction a as [|a IH]; intros l; [reflexivity|].
  destruct l as [|x t]; [rewrite !skipn_nil; reflexivity|]. cbn [Nat.add skipn]. apply IH.
Qed.

Lemma list_ext_nth {A} (l l' : list A) d d' :
  length l = length l' -> (forall i, (i < length l)%nat -> nth i l d = nth i l' d') -> l = l'.
Proof. intros Hl Hn. apply (nth_ext l l' d d'); assumption. Qed.

Lemma NoDup_app_l {A} (l1 l2 : list A) : NoDup (l1 ++ l2) -> NoDup l1.
Proof.
  induction l1 as [|x t IH]; intros H; [constructor|].
  cbn [app] in H. inversion H as [|x0 l0 Hx Ht]; subst. constructor.
  - intros Hin. apply Hx. apply in_or_app. left. exact Hin.
  - apply IH. exact Ht.
Qed.

Lemma NoDup_app_r {A} (l1 l2 : list A) : NoDup (l1 ++ l2) -> NoDup l2.
Proof.
  induction l1 as [|x t IH]; intros H; [exact H|].
  cbn [app] in H. inversion H; subst. apply IH. assumption.
Qed.

Lemma NoDup_firstn {A} (l : list A) m : NoDup l -> NoDup (firstn m l).
Proof. intros H. rewrite <- (firstn_skipn m l) in H. apply NoDup_app_l in H. exact H. Qed.

Lemma NoDup_skipn {A} (l : list A) m : NoDup l -> NoDup (skipn m l).
Proof. intros H. rewrite <- (firstn_skipn m l) in H. apply NoDup_app_r in H. exact H. Qed.

Lemma In_firstn {A} (l : list A) m x : In x (firstn m l) -> In x l.
Proof. intros H. rewrite <- (firstn_skipn m l). apply in_or_app. left. exact H. Qed.

Lemma In_skipn {A} (l : list A) m x : In x (skipn m l) -> In x l.
Proof. intros H. rewrite <- (firstn_skipn m l). apply in_or_app. right. exact H. Qed.

Lemma combine_app {A B} (l1 l2 : list A) (m1 m2 : list B) :
  length l1 = length m1 -> combine (l1 ++ l2) (m1 ++ m2) = combine l1 m1 ++ combine l2 m2.
Proof.
  revert m1. induction l1 as [|x t IH]; intros [|y m1] H; try discriminate; [reflexivity|].
  cbn [app combine]. f_equal. apply IH. cbn [length] in H. lia.
Qed.

Lemma map_fst_combine {A B} (l : list A) (m : list B) : length l = length m -> map fst (combine l m) = l.
Proof.
  revert m. induction l as [|x t IH]; intros [|y m] H; try discriminate; [reflexivity|].
  cbn [combine map fst]. f_equal. apply IH. cbn [length] in H. lia.
Qed.

Lemma map_snd_combine {A B} (l : list A) (m : list B) : length l = length m -> map snd (combine l m) = m.
Proof.
  revert m. induction l as [|x t IH]; intros [|y m] H; try discriminate; [reflexivity|].
  cbn [combine map snd]. f_equal. apply IH. cbn [length] in H. lia.
Qed.

Lemma In_combine_nth {A B} (l : list A) (m : list B) a b da db :
  In (a, b) (combine l m) -> exists i, (i < length l)%nat /\ (i < length m)%nat /\ nth i l da = a /\ nth i m db = b.
Proof.
  revert m. induction l as [|x t IH]; intros [|y m] H; cbn [combine] in H; try contradiction.
  destruct H as [H|H].
  - injection H as -> ->. exists 0%nat. cbn [length nth]. repeat split; lia.
  - destruct (IH m H) as (i & H1 & H2 & H3 & H4). exists (S i). cbn [length nth]. repeat split; try lia; assumption.
Qed.

Lemma nth_combine_In {A B} (l : list A) (m : list B) i da db :
  (i < length l)%nat -> (i < length m)%nat -> In (nth i l da, nth i m db) (combine l m).
Proof.
  revert m i. induction l as [|x t IH]; intros [|y m] i H1 H2; cbn [length] in *; try lia.
  destruct i as [|i]; cbn [nth combine]; [left; reflexivity|]. right. apply IH; lia.
Qed.

(* ---------------------------------------------------------------------- *)
(* cells: set_nth / assign *)
Section CellFacts.
Context {V : Type}.
Implicit Types (out l : list V) (ps : list Z) (xs : list V).

Lemma set_nth_length l i v : length (set_nth l i v) = length l.
Proof.
  revert i. induction l as [|h t IH]; intros i; [reflexivity|].
  destruct i; cbn [set_nth length]; [reflexivity|]. rewrite IH. reflexivity.
Qed.

Lemma nth_set_nth_eq l i v d : (i < length l)%nat -> nth i (set_nth l i v) d = v.
Proof.
  revert i. induction l as [|h t IH]; intros i H; cbn [length] in H; [lia|].
  destruct i; cbn [set_nth nth]; [reflexivity|]. apply IH. lia.
Qed.

Lemma nth_set_nth_neq l i j v d : i <> j -> nth j (set_nth l i v) d = nth j l d.
Proof.
  revert i j. induction l as [|h t IH]; intros i j H; [reflexivity|].
  destruct i, j; cbn [set_nth nth]; try reflexivity; try lia. apply IH. lia.
Qed.

Lemma assign_length out ps xs : length (assign out ps xs) = length out.
Proof.
  revert out xs. induction ps as [|p ps IH]; intros out xs; [reflexivity|].
  destruct xs as [|x xs]; [reflexivity|]. cbn [assign]. rewrite IH. apply set_nth_length.
Qed.

Lemma assign_lenZ out ps xs : lenZ (assign out ps xs) = lenZ out.
Proof. unfold lenZ. rewrite assign_length. reflexivity. Qed.

Lemma assign_nil_r out ps : assign out ps [] = out.
Proof. destruct ps; reflexivity. Qed.

Lemma assign_nil_out ps xs : assign [] ps xs = [].
Proof.
  pose proof (assign_length [] ps xs) as H. destruct (assign [] ps xs); [reflexivity|discriminate].
Qed.

(* frame: a position that is not assigned keeps its value *)
Lemma assign_frame out ps xs p d :
  0 <= p -> Forall (fun q => 0 <= q) ps -> ~ In p ps ->
  nth (Z.to_nat p) (assign out ps xs) d = nth (Z.to_nat p) out d.
Proof.
  intros Hp. revert out xs. induction ps as [|q ps IH]; intros out xs Hnn Hni; [reflexivity|].
  destruct xs as [|x xs]; [reflexivity|]. cbn [assign].
  inversion Hnn as [|q0 l0 Hq Hnn']; subst.
  rewrite IH; [|assumption|intros Hin; apply Hni; right; exact Hin].
  apply nth_set_nth_neq. intros E. apply Hni. left. lia.
Qed.

(* hit: the i-th assigned position receives the i-th value *)
Lemma assign_hit out ps xs (i : nat) d :
  NoDup ps -> Forall (fun q => 0 <= q < lenZ out) ps -> length ps = length xs ->
  (i < length ps)%nat ->
  nth (Z.to_nat (nth i ps 0)) (assign out ps xs) d = nth i xs d.
Proof.
  revert out xs i. induction ps as [|q ps IH]; intros out xs i Hnd Hin Hlen Hi; cbn [length] in Hi; [lia|].
  destruct xs as [|x xs]; [discriminate|]. cbn [length] in Hlen.
  inversion Hnd as [|q0 l0 Hq Hnd']; subst.
  inversion Hin as [|q0 l0 Hqb Hin']; subst.
  cbn [assign]. destruct i as [|i]; cbn [nth].
  - rewrite assign_frame.
    + apply nth_set_nth_eq. unfold lenZ in Hqb. lia.
    + lia.
    + eapply Forall_impl; [|exact Hin']. cbn beta. intros a Ha. lia.
    + exact Hq.
  - apply IH; try assumption; try lia.
    eapply Forall_impl; [|exact Hin']. cbn beta. intros a Ha. unfold lenZ in *. rewrite set_nth_length. exact Ha.
Qed.

Lemma assign_app out ps1 ps2 xs1 xs2 :
  length ps1 = length xs1 ->
  assign out (ps1 ++ ps2) (xs1 ++ xs2) = assign (assign out ps1 xs1) ps2 xs2.
Proof.
  revert out xs1. induction ps1 as [|p ps1 IH]; intros out [|x xs1] H; try discriminate; [reflexivity|].
  cbn [app assign]. apply IH. cbn [length] in H. lia.
Qed.

(* reading the assigned positions back returns the assigned values *)
Lemma assign_readback out ps xs d :
  NoDup ps -> Forall (fun q => 0 <= q < lenZ out) ps -> length ps = length xs ->
  map (fun p => nth (Z.to_nat p) (assign out ps xs) d) ps = xs.
Proof.
  intros Hnd Hin Hlen.
  set (f := fun p : Z => nth (Z.to_nat p) (assign out ps xs) d).
  apply (list_ext_nth _ _ (f 0) d).
  - rewrite map_length. exact Hlen.
  - intros i Hi. rewrite map_length in Hi. rewrite (map_nth f). unfold f.
    apply assign_hit; assumption.
Qed.

(* two assignments of the same (position, value) pairs in different orders agree *)
Lemma assign_perm out ps xs ps' xs' (d : V) :
  NoDup ps -> Forall (fun q => 0 <= q < lenZ out) ps ->
  length ps = length xs -> length ps' = length xs' ->
  Permutation (combine ps xs) (combine ps' xs') ->
  assign out ps xs = assign out ps' xs'.
Proof.
  intros Hnd Hin Hlen Hlen' Hperm.
  assert (Permutation ps ps') as Hpp.
  { rewrite <- (map_fst_combine ps xs Hlen), <- (map_fst_combine ps' xs' Hlen').
    apply Permutation_map. exact Hperm. }
  assert (NoDup ps') as Hnd' by (eapply Permutation_NoDup; eassumption).
  assert (Forall (fun q => 0 <= q < lenZ out) ps') as Hin'
    by (eapply Permutation_Forall; eassumption).
  apply (list_ext_nth _ _ d d).
  - rewrite !assign_length. reflexivity.
  - intros j Hj. rewrite assign_length in Hj.
    destruct (in_dec Z.eq_dec (Z.of_nat j) ps) as [Hjin|Hjout].
    + destruct (In_nth ps (Z.of_nat j) 0 Hjin) as (i & Hi & Hnth).
      assert (In (nth i ps 0, nth i xs d) (combine ps' xs')) as Hc.
      { eapply Permutation_in; [exact Hperm|]. apply nth_combine_In; lia. }
      destruct (In_combine_nth ps' xs' _ _ 0 d Hc) as (i' & Hi1 & Hi2 & Hp' & Hx').
      pose proof (assign_hit out ps xs i d Hnd Hin Hlen Hi) as H1.
      pose proof (assign_hit out ps' xs' i' d Hnd' Hin' Hlen' Hi1) as H2.
      rewrite Hnth in H1. rewrite Hp', Hnth in H2. rewrite Nat2Z.id in H1, H2.
      rewrite H1, H2. symmetry. exact Hx'.
    + assert (~ In (Z.of_nat j) ps') as Hjout'.
      { intros H. apply Hjout. eapply Permutation_in; [apply Permutation_sym; exact Hpp|exact H]. }
      pose proof (assign_frame out ps xs (Z.of_nat j) d ltac:(lia)) as H1.
      pose proof (assign_frame out ps' xs' (Z.of_nat j) d ltac:(lia)) as H2.
      rewrite Nat2Z.id in H1, H2. rewrite H1, H2; try assumption; [reflexivity| |].
      * eapply Forall_impl; [|exact Hin']. cbn beta. intros a Ha. lia.
      * eapply Forall_impl; [|exact Hin]. cbn beta. intros a Ha. lia.
Qed.

End CellFacts.

(* ---------------------------------------------------------------------- *)
(* positions selected by a slice that fuse_slice supports *)

Lemma slice_okb_inv s :
  slice_okb s = true ->
  0 < step_of s /\ (forall x, s_start s = Some x -> 0 <= x) /\ (forall x, s_stop s = Some x -> 0 <= x) /\
  normalize_slice_for_fusion s = Some (start_or0 s, s_stop s, step_of s).
Proof.
  unfold slice_okb. destruct (normalize_slice_for_fusion s) as [[[a0 st] k]|] eqn:E; [|discriminate].
  intros Hk. destruct (nff_inv s a0 st k E) as (-> & -> & -> & H1 & H2 & H3 & H4).
  repeat split; try assumption. lia.
Qed.

Lemma slice_okb_colon : slice_okb colon = true.
Proof. reflexivity. Qed.

Lemma region_okb_slice region : region_okb region = true -> slice_okb (region_slice region) = true.
Proof. destruct region as [r|]; cbn [region_okb region_slice]; [auto|intros _; apply slice_okb_colon]. Qed.

Lemma sel_ok_zrange s N :
  0 <= N -> slice_okb s = true ->
  sel s N = zrange (Z.min (start_or0 s) N) (clip_stop (s_stop s) N) (step_of s).
Proof.
  intros HN Hok. destruct (slice_okb_inv s Hok) as (Hk & Hs & He & _).
  unfold sel. rewrite (indices_nonneg s N HN Hk Hs He). reflexivity.
Qed.

Lemma slice_len_lenZ s N : slice_len s N = lenZ (sel s N).
Proof.
  unfold slice_len, sel, lenZ. destruct (indices s N) as [[a b] k]. symmetry. apply zrange_length.
Qed.

Lemma zrange_pos_In a b k p : 0 < k -> In p (zrange a b k) -> a <= p < b.
Proof.
  intros Hk H. unfold zrange in H. apply in_map_iff in H. destruct H as (i & <- & Hi).
  apply in_seq in Hi.
  pose proof (range_len_pos_cases a b k Hk) as [[_ Hz]|[Hlt [Hpos Hb]]]; [lia|]. nia.
Qed.

Lemma zrange_pos_NoDup a b k : 0 < k -> NoDup (zrange a b k).
Proof.
  intros Hk. unfold zrange. apply Injective_map_NoDup; [|apply seq_NoDup].
  intros i j H. nia.
Qed.

Lemma clip_stop_le st N : clip_stop st N <= N.
Proof. unfold clip_stop. destruct st; lia. Qed.

Lemma sel_ok_bounds s N : 0 <= N -> slice_okb s = true -> Forall (fun q => 0 <= q < N) (sel s N).
Proof.
  intros HN Hok. rewrite (sel_ok_zrange s N HN Hok).
  destruct (slice_okb_inv s Hok) as (Hk & Hs & He & _).
  apply Forall_forall. intros p Hp. apply (zrange_pos_In _ _ _ _ Hk) in Hp.
  pose proof (clip_stop_le (s_stop s) N).
  assert (0 <= start_or0 s) by (unfold start_or0; destruct (s_start s) as [x|] eqn:E; [apply Hs; reflexivity|lia]).
  lia.
Qed.

Lemma sel_ok_NoDup s N : 0 <= N -> slice_okb s = true -> NoDup (sel s N).
Proof.
  intros HN Hok. rewrite (sel_ok_zrange s N HN Hok).
  destruct (slice_okb_inv s Hok) as (Hk & _). apply zrange_pos_NoDup. exact Hk.
Qed.

(* picking a contiguous run of indices = firstn/skipn *)
Lemma pick_unit_range l x y :
  0 <= x <= y -> y <= lenZ l -> pick l (zrange x y 1) = firstnZ (y - x) (skipnZ x l).
Proof.
  intros Hxy Hy. unfold lenZ in Hy.
  assert (range_len x y 1 = y - x) as Hrl by (rewrite range_len_unit; lia).
  apply (list_ext_nth _ _ 0 0).
  - rewrite pick_length. unfold firstnZ, skipnZ. rewrite firstn_length, skipn_length.
    apply Nat2Z.inj. rewrite zrange_length, Hrl. lia.
  - intros i Hi. rewrite pick_length in Hi.
    assert (Z.of_nat i < y - x) as Hi' by (rewrite <- Hrl, <- zrange_length; lia).
    rewrite pick_nth by exact Hi. rewrite zrange_nth by lia.
    unfold firstnZ, skipnZ. rewrite nth_firstn_lt by lia. rewrite nth_skipn_add.
    f_equal. lia.
Qed.

(* ---------------------------------------------------------------------- *)
(* the write index of one block *)
Definition blk (a b : Z) : pslice := mkslice (Some a) (Some b) None.

Lemma nff_blk a b : 0 <= a -> 0 <= b -> normalize_slice_for_fusion (blk a b) = Some (a, Some b, 1).
Proof.
  intros Ha Hb. unfold normalize_slice_for_fusion, blk. cbn [s_start s_stop s_step].
  break_if; [lia|reflexivity].
Qed.

Lemma slice_okb_blk a b : 0 <= a -> 0 <= b -> slice_okb (blk a b) = true.
Proof. intros Ha Hb. unfold slice_okb. rewrite nff_blk by assumption. reflexivity. Qed.

Lemma fuse_colon_blk a b : 0 <= a -> 0 <= b -> fuse_slice_ss colon (blk a b) = Some (blk a b).
Proof.
  intros Ha Hb. unfold fuse_slice_ss. rewrite nff_blk by assumption.
  cbn [normalize_slice_for_fusion colon s_start s_stop s_step orb Z.ltb Z.compare].
  unfold blk. do 2 f_equal; [f_equal; lia | f_equal; lia].
Qed.

Lemma store_index_block region a b :
  region_okb region = true -> 0 <= a -> 0 <= b ->
  exists idx, store_index region (blk a b) = Some idx /\
              fuse_slice_ss (region_slice region) (blk a b) = Some idx /\ step_of idx <> 0.
Proof.
  intros Hok Ha Hb. destruct region as [r|]; cbn [store_index region_slice region_okb] in *.
  - destruct (slice_okb_inv r Hok) as (Hk & _ & _ & Hn).
    unfold fuse_slice_ss. rewrite Hn, nff_blk by assumption.
    eexists. split; [reflexivity|]. split; [reflexivity|].
    unfold step_of at 1. cbn [s_step]. break_if; lia.
  - exists (blk a b). split; [reflexivity|]. split; [apply fuse_colon_blk; assumption|].
    unfold step_of, blk. cbn [s_step]. lia.
Qed.

Lemma sel_blk a b L : 0 <= a -> 0 <= b -> 0 <= L -> sel (blk a b) L = zrange (Z.min a L) (Z.min b L) 1.
Proof.
  intros Ha Hb HL. rewrite sel_ok_zrange by (try apply slice_okb_blk; assumption). reflexivity.
Qed.

Lemma store_index_block_sel region a b N idx :
  region_okb region = true -> 0 <= N -> 0 <= a <= b ->
  store_index region (blk a b) = Some idx ->
  let l := rsel region N in
  sel idx N = firstnZ (Z.min b (lenZ l) - Z.min a (lenZ l)) (skipnZ (Z.min a (lenZ l)) l).
Proof.
  intros Hok HN Hab Hidx l.
  destruct (store_index_block region a b Hok) as (idx' & H1 & H2 & H3); try lia.
  rewrite Hidx in H1. injection H1 as <-.
  pose proof (region_okb_slice region Hok) as Hoks.
  destruct (slice_okb_inv _ Hoks) as (Hk & _).
  rewrite <- (fuse_slice_ss_exact (region_slice region) (blk a b) idx N HN); try assumption; try lia.
  - rewrite slice_len_lenZ. fold (rsel region N). fold l.
    pose proof (lenZ_nonneg l) as HL.
    rewrite sel_blk by lia.
    apply pick_unit_range; lia.
  - unfold step_of, blk. cbn [s_step]. lia.
Qed.

(* the positions written by the blocks of an axis, in terms of the region's positions l *)
Fixpoint block_sels_from (l : list Z) (off : Z) (cs : list Z) : list (list Z) :=
  match cs with
  | [] => []
  | c :: t =>
      firstnZ (Z.min (off + c) (lenZ l) - Z.min off (lenZ l)) (skipnZ (Z.min off (lenZ l)) l)
        :: block_sels_from l (off + c) t
  end.

Lemma write_indices_from region N off cs :
  region_okb region = true -> 0 <= N -> 0 <= off -> Forall (fun c => 0 <= c) cs ->
  exists idxs, write_indices_of region (block_slices_from off cs) = Some idxs /\
               length idxs = length cs /\
               Forall (fun i => step_of i <> 0) idxs /\
               map (fun i => sel i N) idxs = block_sels_from (rsel region N) off cs.
Proof.
  intros Hok HN. revert off. induction cs as [|c t IH]; intros off Hoff Hcs.
  - exists []. repeat split; constructor.
  - inversion Hcs as [|c0 l0 Hc Ht]; subst.
    destruct (IH (off + c) ltac:(lia) Ht) as (idxs & Hw & Hlen & Hst & Hsel).
    destruct (store_index_block region off (off + c) Hok) as (idx & Hi & _ & Histep); try lia.
    exists (idx :: idxs). cbn [block_slices_from write_indices_of]. fold (blk off (off + c)).
    rewrite Hi, Hw. split; [reflexivity|]. split; [cbn [length]; lia|]. split; [constructor; assumption|].
    cbn [map block_sels_from]. f_equal; [|exact Hsel].
    apply (store_index_block_sel region off (off + c) N idx Hok HN); [lia|exact Hi].
Qed.

Lemma block_sels_concat l off cs :
  0 <= off -> Forall (fun c => 0 <= c) cs ->
  concat (block_sels_from l off cs) =
  firstnZ (Z.min (off + zsum cs) (lenZ l) - Z.min off (lenZ l)) (skipnZ (Z.min off (lenZ l)) l).
Proof.
  revert off. induction cs as [|c t IH]; intros off Hoff Hcs.
  - cbn [block_sels_from concat zsum]. replace (off + 0) with off by lia.
    rewrite Z.sub_diag. reflexivity.
  - inversion Hcs as [|c0 l0 Hc Ht]; subst.
    cbn [block_sels_from concat zsum]. rewrite IH by (try assumption; lia).
    pose proof (zsum_nonneg t Ht) as Hz. pose proof (lenZ_nonneg l) as HL.
    set (s := Z.min off (lenZ l)). set (s' := Z.min (off + c) (lenZ l)).
    replace (off + c + zsum t) with (off + (c + zsum t)) by lia.
    set (e := Z.min (off + (c + zsum t)) (lenZ l)).
    unfold firstnZ, skipnZ.
    replace (Z.to_nat (e - s)) with (Z.to_nat (s' - s) + Z.to_nat (e - s'))%nat by lia.
    rewrite firstn_add. f_equal. f_equal.
    replace (Z.to_nat s') with (Z.to_nat s + Z.to_nat (s' - s))%nat by lia.
    apply skipn_add.
Qed.

Lemma block_sels_concat0 l cs :
  Forall (fun c => 0 <= c) cs -> concat (block_sels_from l 0 cs) = firstnZ (zsum cs) l.
Proof.
  intros Hcs. rewrite block_sels_concat by (try assumption; lia).
  pose proof (zsum_nonneg cs Hcs) as Hz. pose proof (lenZ_nonneg l) as HL.
  replace (Z.min 0 (lenZ l)) with 0 by lia. unfold firstnZ, skipnZ. cbn [Z.to_nat skipn].
  rewrite Z.sub_0_r. cbn [Z.add].
  destruct (Z_le_gt_dec (zsum cs) (lenZ l)) as [H|H].
  - rewrite Z.min_l by lia. reflexivity.
  - rewrite Z.min_r by lia. unfold lenZ in *. rewrite Nat2Z.id.
    rewrite firstn_all. rewrite firstn_all2 by lia. reflexivity.
Qed.

Lemma block_sels_fits l off cs :
  0 <= off -> Forall (fun c => 0 <= c) cs -> off + zsum cs <= lenZ l ->
  block_sels_from l off cs = split_chunks cs (skipnZ off l).
Proof.
  revert off. induction cs as [|c t IH]; intros off Hoff Hcs Hfit; [reflexivity|].
  inversion Hcs as [|c0 l0 Hc Ht]; subst. cbn [zsum] in Hfit.
  pose proof (zsum_nonneg t Ht) as Hz.
  cbn [block_sels_from split_chunks]. rewrite IH by (try assumption; lia).
  rewrite !Z.min_l by lia. f_equal.
  - f_equal. lia.
  - f_equal. unfold skipnZ. rewrite Z2Nat.inj_add by lia. apply skipn_add.
Qed.

(* ---------------------------------------------------------------------- *)
(* blocks of a chunked 1-d array *)
Lemma lenZ_skipnZ {A} (l : list A) a : 0 <= a <= lenZ l -> lenZ (skipnZ a l) = lenZ l - a.
Proof. unfold lenZ, skipnZ. intros H. rewrite skipn_length. lia. Qed.

Lemma lenZ_0_nil {A} (l : list A) : lenZ l = 0 -> l = [].
Proof. unfold lenZ. destruct l; [reflexivity|cbn [length]; lia]. Qed.

Lemma block_slices_from_length off cs : length (block_slices_from off cs) = length cs.
Proof. revert off. induction cs as [|c t IH]; intros off; [reflexivity|]. cbn [block_slices_from length]. rewrite IH. reflexivity. Qed.

Section SplitFacts.
Context {V : Type}.

Lemma split_chunks_length cs (l : list V) : length (split_chunks cs l) = length cs.
Proof. revert l. induction cs as [|c t IH]; intros l; [reflexivity|]. cbn [split_chunks length]. rewrite IH. reflexivity. Qed.

Lemma split_chunks_concat cs (l : list V) :
  Forall (fun c => 0 <= c) cs -> concat (split_chunks cs l) = firstnZ (zsum cs) l.
Proof.
  revert l. induction cs as [|c t IH]; intros l Hcs; [reflexivity|].
  inversion Hcs as [|c0 l0 Hc Ht]; subst. pose proof (zsum_nonneg t Ht) as Hz.
  cbn [split_chunks concat zsum]. rewrite IH by assumption.
  unfold firstnZ, skipnZ. rewrite Z2Nat.inj_add by lia. symmetry. apply firstn_add.
Qed.

Lemma split_chunks_lens cs (l : list V) :
  Forall (fun c => 0 <= c) cs -> zsum cs <= lenZ l -> map lenZ (split_chunks cs l) = cs.
Proof.
  revert l. induction cs as [|c t IH]; intros l Hcs Hfit; [reflexivity|].
  inversion Hcs as [|c0 l0 Hc Ht]; subst. pose proof (zsum_nonneg t Ht) as Hz. cbn [zsum] in Hfit.
  cbn [split_chunks map]. f_equal.
  - apply lenZ_firstnZ. lia.
  - apply IH; [assumption|]. rewrite lenZ_skipnZ by lia. lia.
Qed.

Lemma split_chunks_map {W} (f : V -> W) cs (l : list V) :
  split_chunks cs (map f l) = map (map f) (split_chunks cs l).
Proof.
  revert l. induction cs as [|c t IH]; intros l; [reflexivity|].
  cbn [split_chunks map]. unfold firstnZ, skipnZ. rewrite firstn_map, skipn_map. f_equal. apply IH.
Qed.

Lemma split_chunks_firstn cs (l : list V) m :
  Forall (fun c => 0 <= c) cs -> zsum cs <= m -> split_chunks cs (firstnZ m l) = split_chunks cs l.
Proof.
  revert l m. induction cs as [|c t IH]; intros l m Hcs Hm; [reflexivity|].
  inversion Hcs as [|c0 l0 Hc Ht]; subst. pose proof (zsum_nonneg t Ht) as Hz. cbn [zsum] in Hm.
  cbn [split_chunks]. f_equal.
  - unfold firstnZ. rewrite firstn_firstn. f_equal. lia.
  - unfold firstnZ, skipnZ. rewrite skipn_firstn_comm.
    replace (Z.to_nat m - Z.to_nat c)%nat with (Z.to_nat (m - c)) by lia.
    apply (IH (skipn (Z.to_nat c) l) (m - c)); [assumption|lia].
Qed.

(* npy-stack round trip, one axis: the files are the blocks, their lengths are the chunks,
   and concatenating them in file order is the array *)
Lemma split_chunks_roundtrip cs (l : list V) :
  valid_chunks cs (lenZ l) ->
  concat (split_chunks cs l) = l /\ map lenZ (split_chunks cs l) = cs /\
  length (split_chunks cs l) = length cs.
Proof.
  intros [Hcs Hsum]. split; [|split].
  - rewrite split_chunks_concat by assumption. rewrite Hsum. unfold firstnZ, lenZ.
    rewrite Nat2Z.id. apply firstn_all.
  - apply split_chunks_lens; [assumption|lia].
  - apply split_chunks_length.
Qed.

End SplitFacts.

(* ---------------------------------------------------------------------- *)
(* running tasks = one assignment *)
Section StoreFacts.
Context {V : Type}.

Definition task_ps (region : option pslice) (N : Z) (t : pslice * list V) : list Z :=
  match store_index region (fst t) with Some idx => sel idx N | None => [] end.

Definition task_ok (region : option pslice) (N : Z) (t : pslice * list V) : Prop :=
  exists idx, store_index region (fst t) = Some idx /\ step_of idx <> 0 /\
              lenZ (sel idx N) = lenZ (snd t).

Lemma task_ok_lengths region N t : task_ok region N t -> length (task_ps region N t) = length (snd t).
Proof. intros (idx & H1 & _ & H3). unfold task_ps. rewrite H1. unfold lenZ in H3. lia. Qed.

Lemma store_blocks_assign region tasks (out : list V) :
  Forall (task_ok region (lenZ out)) tasks ->
  store_blocks region tasks out =
  SOk (assign out (concat (map (task_ps region (lenZ out)) tasks)) (concat (map snd tasks))).
Proof.
  revert out. induction tasks as [|[bs x] t IH]; intros out Hall; [reflexivity|].
  inversion Hall as [|t0 l0 Hok Ht]; subst.
  pose proof (task_ok_lengths _ _ _ Hok) as Hlen.
  destruct Hok as (idx & Hidx & Hstep & Hl). cbn [fst snd] in *.
  cbn [store_blocks map concat]. unfold task_ps at 1 in Hlen. unfold task_ps at 1. cbn [fst snd] in *.
  unfold store_chunk. rewrite Hidx in *.
  destruct (lenZ x =? 0) eqn:Ex.
  - assert (x = []) as -> by (apply lenZ_0_nil; lia).
    assert (sel idx (lenZ out) = []) as -> by (apply lenZ_0_nil; lia).
    cbn [app]. apply IH. exact Ht.
  - unfold np_setitem. destruct (step_of idx =? 0) eqn:Es; [lia|].
    destruct (lenZ x =? lenZ (sel idx (lenZ out))) eqn:El; [|lia].
    rewrite IH by (rewrite assign_lenZ; exact Ht).
    rewrite assign_lenZ. rewrite assign_app by exact Hlen. reflexivity.
Qed.

Lemma concat_lengths {A B C} (f : A -> list B) (g : A -> list C) ts :
  Forall (fun t => length (f t) = length (g t)) ts ->
  length (concat (map f ts)) = length (concat (map g ts)).
Proof.
  induction 1 as [|t ts Ht _ IH]; [reflexivity|]. cbn [map concat]. rewrite !app_length. lia.
Qed.

Lemma combine_concat {A B C} (f : A -> list B) (g : A -> list C) ts :
  Forall (fun t => length (f t) = length (g t)) ts ->
  combine (concat (map f ts)) (concat (map g ts)) = flat_map (fun t => combine (f t) (g t)) ts.
Proof.
  induction 1 as [|t ts Ht _ IH]; [reflexivity|]. cbn [map concat flat_map].
  rewrite combine_app by exact Ht. rewrite IH. reflexivity.
Qed.

(* the canonical task list of an axis *)
Lemma store_tasks_from region N off cs (src : list V) :
  region_okb region = true -> 0 <= N -> 0 <= off -> Forall (fun c => 0 <= c) cs ->
  off + zsum cs <= lenZ (rsel region N) -> zsum cs <= lenZ src ->
  let tasks := combine (block_slices_from off cs) (split_chunks cs src) in
  Forall (task_ok region N) tasks /\
  map (task_ps region N) tasks = split_chunks cs (skipnZ off (rsel region N)) /\
  map snd tasks = split_chunks cs src.
Proof.
  intros Hok HN. revert off src. induction cs as [|c t IH]; intros off src Hoff Hcs Hfit Hsrc tasks.
  - subst tasks. cbn. repeat split; constructor.
  - inversion Hcs as [|c0 l0 Hc Ht]; subst. pose proof (zsum_nonneg t Ht) as Hz.
    cbn [zsum] in Hfit, Hsrc.
    set (l := rsel region N) in *.
    destruct (IH (off + c) (skipnZ c src) ltac:(lia) Ht ltac:(lia)) as (IH1 & IH2 & IH3).
    { rewrite lenZ_skipnZ by lia. lia. }
    destruct (store_index_block region off (off + c) Hok) as (idx & Hi & _ & Histep); try lia.
    pose proof (store_index_block_sel region off (off + c) N idx Hok HN ltac:(lia) Hi) as Hsel.
    cbv zeta in Hsel. fold l in Hsel. rewrite !Z.min_l in Hsel by lia.
    replace (off + c - off) with c in Hsel by lia.
    subst tasks. cbn [block_slices_from split_chunks combine map]. fold (blk off (off + c)).
    split; [|split].
    + constructor; [|exact IH1]. exists idx. cbn [fst snd]. split; [exact Hi|]. split; [exact Histep|].
      rewrite Hsel. rewrite !lenZ_firstnZ; [reflexivity|lia|]. rewrite lenZ_skipnZ by lia. lia.
    + f_equal.
      * unfold task_ps. cbn [fst]. rewrite Hi. exact Hsel.
      * rewrite IH2. f_equal. unfold skipnZ. rewrite Z2Nat.inj_add by lia. apply skipn_add.
    + cbn [snd]. f_equal. exact IH3.
Qed.

Definition region_fitsP (region : option pslice) (n N : Z) : Prop :=
  n <= slice_len (region_slice region) N.

Lemma region_fits_iff region n N : region_fits region n N = true <-> region_fitsP region n N.
Proof. unfold region_fits, region_fitsP. lia. Qed.

Lemma store_tasks_spec region cs (src : list V) N :
  region_okb region = true -> 0 <= N -> valid_chunks cs (lenZ src) ->
  region_fits region (lenZ src) N = true ->
  Forall (task_ok region N) (store_tasks cs src) /\
  concat (map (task_ps region N) (store_tasks cs src)) = firstnZ (lenZ src) (rsel region N) /\
  concat (map snd (store_tasks cs src)) = src.
Proof.
  intros Hok HN [Hcs Hsum] Hfit. apply region_fits_iff in Hfit. unfold region_fitsP in Hfit.
  rewrite slice_len_lenZ in Hfit. fold (rsel region N) in Hfit.
  destruct (store_tasks_from region N 0 cs src Hok HN ltac:(lia) Hcs ltac:(lia) ltac:(lia)) as (H1 & H2 & H3).
  unfold store_tasks, block_slices. split; [exact H1|]. split.
  - rewrite H2. unfold skipnZ. cbn [Z.to_nat skipn]. rewrite split_chunks_concat by assumption.
    rewrite Hsum. reflexivity.
  - rewrite H3. apply split_chunks_roundtrip. split; assumption.
Qed.

Lemma firstn_region_facts region n N :
  region_okb region = true -> 0 <= N ->
  NoDup (firstnZ n (rsel region N)) /\ Forall (fun q => 0 <= q < N) (firstnZ n (rsel region N)).
Proof.
  intros Hok HN. pose proof (region_okb_slice region Hok) as Hoks. split.
  - apply NoDup_firstn. apply sel_ok_NoDup; assumption.
  - apply Forall_forall. intros p Hp. apply In_firstn in Hp.
    pose proof (sel_ok_bounds _ N HN Hoks) as Hb. rewrite Forall_forall in Hb. apply Hb. exact Hp.
Qed.

(* store = one NumPy-style assignment of the source to the first len(source) positions
   the region designates *)
Theorem store_axis_closed_form region cs (src tgt : list V) :
  region_okb region = true -> valid_chunks cs (lenZ src) ->
  region_fits region (lenZ src) (lenZ tgt) = true ->
  store_axis region cs src tgt =
  SOk (assign tgt (firstnZ (lenZ src) (rsel region (lenZ tgt))) src).
Proof.
  intros Hok Hv Hfit.
  destruct (store_tasks_spec region cs src (lenZ tgt) Hok (lenZ_nonneg tgt) Hv Hfit) as (H1 & H2 & H3).
  unfold store_axis. rewrite store_blocks_assign by exact H1. rewrite H2, H3. reflexivity.
Qed.

Lemma fits_length region (src : list V) N :
  region_fits region (lenZ src) N = true -> length (firstnZ (lenZ src) (rsel region N)) = length src.
Proof.
  intros Hfit. apply region_fits_iff in Hfit. unfold region_fitsP in Hfit. rewrite slice_len_lenZ in Hfit.
  fold (rsel region N) in Hfit. unfold firstnZ, lenZ in *. rewrite firstn_length. lia.
Qed.

Theorem store_axis_exact (d : V) region cs (src tgt : list V) :
  region_okb region = true -> valid_chunks cs (lenZ src) ->
  region_fits region (lenZ src) (lenZ tgt) = true ->
  exists tgt',
    store_axis region cs src tgt = SOk tgt' /\ length tgt' = length tgt /\
    (forall i, 0 <= i < lenZ src ->
       nth (Z.to_nat (nth (Z.to_nat i) (rsel region (lenZ tgt)) 0)) tgt' d = nth (Z.to_nat i) src d) /\
    (forall p, 0 <= p < lenZ tgt -> ~ In p (firstnZ (lenZ src) (rsel region (lenZ tgt))) ->
       nth (Z.to_nat p) tgt' d = nth (Z.to_nat p) tgt d).
Proof.
  intros Hok Hv Hfit. eexists. split; [apply store_axis_closed_form; assumption|].
  destruct (firstn_region_facts region (lenZ src) (lenZ tgt) Hok (lenZ_nonneg tgt)) as (Hnd & Hb).
  pose proof (fits_length region src (lenZ tgt) Hfit) as Hlen.
  split; [apply assign_length|]. split.
  - intros i Hi.
    rewrite <- (assign_hit tgt (firstnZ (lenZ src) (rsel region (lenZ tgt))) src (Z.to_nat i) d Hnd Hb Hlen)
      by (unfold lenZ in *; lia).
    unfold firstnZ. rewrite nth_firstn_lt by (unfold lenZ in *; lia). reflexivity.
  - intros p Hp Hni. apply assign_frame; [lia| |exact Hni].
    eapply Forall_impl; [|exact Hb]. cbn beta. intros a Ha. lia.
Qed.

(* the tasks may run in any order *)
Theorem store_blocks_order_independent region cs (src tgt : list V) tasks' :
  region_okb region = true -> valid_chunks cs (lenZ src) ->
  region_fits region (lenZ src) (lenZ tgt) = true ->
  Permutation tasks' (store_tasks cs src) ->
  store_blocks region tasks' tgt = store_axis region cs src tgt.
Proof.
  intros Hok Hv Hfit Hperm.
  destruct (store_tasks_spec region cs src (lenZ tgt) Hok (lenZ_nonneg tgt) Hv Hfit) as (H1 & H2 & H3).
  assert (Forall (task_ok region (lenZ tgt)) tasks') as H1'
    by (eapply Permutation_Forall; [apply Permutation_sym; exact Hperm|exact H1]).
  unfold store_axis. rewrite !store_blocks_assign by assumption. f_equal.
  destruct tgt as [|d tgt0]; [rewrite !assign_nil_out; reflexivity|].
  set (tgt := d :: tgt0) in *.
  assert (forall ts, Forall (task_ok region (lenZ tgt)) ts ->
            Forall (fun t => length (task_ps region (lenZ tgt) t) = length (snd t)) ts) as Hls.
  { intros ts Hts. eapply Forall_impl; [|exact Hts]. intros t. apply task_ok_lengths. }
  symmetry. apply (assign_perm _ _ _ _ _ d).
  - rewrite H2. apply firstn_region_facts; [assumption|apply lenZ_nonneg].
  - rewrite H2. apply firstn_region_facts; [assumption|apply lenZ_nonneg].
  - apply concat_lengths. apply Hls. exact H1.
  - apply concat_lengths. apply Hls. exact H1'.
  - rewrite !combine_concat by (apply Hls; assumption).
    apply Permutation_flat_map. apply Permutation_sym. exact Hperm.
Qed.

(* return_stored: the blocks read from the target after the store are the source blocks *)
Lemma load_chunks_from (d : V) region off cs (out : list V) :
  region_okb region = true -> 0 <= off -> Forall (fun c => 0 <= c) cs ->
  off + zsum cs <= lenZ (rsel region (lenZ out)) ->
  map (load_chunk d region out) (block_slices_from off cs) =
  map (fun ps => SOk (map (fun p => nth (Z.to_nat p) out d) ps))
      (split_chunks cs (skipnZ off (rsel region (lenZ out)))).
Proof.
  intros Hok. revert off. induction cs as [|c t IH]; intros off Hoff Hcs Hfit; [reflexivity|].
  inversion Hcs as [|c0 l0 Hc Ht]; subst. pose proof (zsum_nonneg t Ht) as Hz. cbn [zsum] in Hfit.
  set (l := rsel region (lenZ out)) in *.
  destruct (store_index_block region off (off + c) Hok) as (idx & Hi & _ & Histep); try lia.
  pose proof (store_index_block_sel region off (off + c) (lenZ out) idx Hok (lenZ_nonneg out) ltac:(lia) Hi) as Hsel.
  cbv zeta in Hsel. fold l in Hsel. rewrite !Z.min_l in Hsel by lia.
  replace (off + c - off) with c in Hsel by lia.
  cbn [block_slices_from split_chunks map]. fold (blk off (off + c)). f_equal.
  - unfold load_chunk. rewrite Hi. unfold np_getitem.
    destruct (step_of idx =? 0) eqn:Es; [lia|]. rewrite Hsel. reflexivity.
  - rewrite IH by (try assumption; lia). f_equal. f_equal.
    unfold skipnZ. rewrite Z2Nat.inj_add by lia. apply skipn_add.
Qed.

Theorem load_stored_reads_back (d : V) region cs (src tgt tgt' : list V) :
  region_okb region = true -> valid_chunks cs (lenZ src) ->
  region_fits region (lenZ src) (lenZ tgt) = true ->
  store_axis region cs src tgt = SOk tgt' ->
  load_stored d region cs tgt' = map SOk (split_chunks cs src).
Proof.
  intros Hok Hv Hfit Hst. rewrite store_axis_closed_form in Hst by assumption. injection Hst as <-.
  set (l := rsel region (lenZ tgt)). set (n := lenZ src).
  set (tgt' := assign tgt (firstnZ n l) src).
  assert (lenZ tgt' = lenZ tgt) as HN by apply assign_lenZ.
  pose proof Hfit as Hfit'. apply region_fits_iff in Hfit'. unfold region_fitsP in Hfit'.
  rewrite slice_len_lenZ in Hfit'. fold (rsel region (lenZ tgt)) in Hfit'. fold l n in Hfit'.
  destruct Hv as [Hcs Hsum]. fold n in Hsum.
  unfold load_stored, block_slices.
  rewrite load_chunks_from; [|assumption|lia|assumption|rewrite HN; fold l; lia].
  rewrite HN. fold l. unfold skipnZ. cbn [Z.to_nat skipn].
  rewrite <- map_map. f_equal.
  rewrite <- split_chunks_map.
  rewrite <- (split_chunks_firstn cs (map _ l) n) by (try assumption; lia).
  unfold firstnZ at 1. rewrite firstn_map. f_equal.
  destruct (firstn_region_facts region n (lenZ tgt) Hok (lenZ_nonneg tgt)) as (Hnd & Hb).
  apply assign_readback; try assumption. apply fits_length. exact Hfit.
Qed.

(* compute=False with return_stored: each task returns out[index] right after its own write *)
Theorem store_chunk_reads_back (d : V) region a b (out x o : list V) :
  region_okb region = true -> 0 <= a <= b ->
  region_fits region b (lenZ out) = true -> lenZ x = b - a ->
  store_chunk region out (blk a b) x = SOk o ->
  load_chunk d region o (blk a b) = SOk x.
Proof.
  intros Hok Hab Hfit Hx Hst.
  apply region_fits_iff in Hfit. unfold region_fitsP in Hfit. rewrite slice_len_lenZ in Hfit.
  fold (rsel region (lenZ out)) in Hfit. set (l := rsel region (lenZ out)) in *.
  destruct (store_index_block region a b Hok) as (idx & Hi & _ & Histep); try lia.
  pose proof (store_index_block_sel region a b (lenZ out) idx Hok (lenZ_nonneg out) Hab Hi) as Hsel.
  cbv zeta in Hsel. fold l in Hsel. rewrite !Z.min_l in Hsel by lia.
  assert (lenZ (sel idx (lenZ out)) = b - a) as Hlen.
  { rewrite Hsel. rewrite lenZ_firstnZ; [reflexivity|]. rewrite lenZ_skipnZ by lia. lia. }
  unfold store_chunk in Hst. rewrite Hi in Hst. unfold load_chunk. rewrite Hi.
  unfold np_getitem. destruct (step_of idx =? 0) eqn:Es; [lia|].
  destruct (lenZ x =? 0) eqn:Ex.
  - injection Hst as <-. assert (x = []) as -> by (apply lenZ_0_nil; lia).
    assert (sel idx (lenZ out) = []) as -> by (apply lenZ_0_nil; lia). reflexivity.
  - unfold np_setitem in Hst. rewrite Es in Hst.
    destruct (lenZ x =? lenZ (sel idx (lenZ out))) eqn:El; [|lia].
    injection Hst as <-. rewrite assign_lenZ. f_equal.
    pose proof (region_okb_slice region Hok) as Hoks.
    apply assign_readback.
    + rewrite Hsel. apply NoDup_firstn, NoDup_skipn. apply sel_ok_NoDup; [apply lenZ_nonneg|exact Hoks].
    + rewrite Hsel. apply Forall_forall. intros p Hp. apply In_firstn, In_skipn in Hp.
      pose proof (sel_ok_bounds _ (lenZ out) (lenZ_nonneg out) Hoks) as Hb.
      rewrite Forall_forall in Hb. apply Hb. exact Hp.
    + unfold lenZ in *. lia.
Qed.

End StoreFacts.

(* ---------------------------------------------------------------------- *)
(* the write indices of the blocks partition the region's first len(source) positions *)
Theorem block_indices_partition region cs n N :
  region_okb region = true -> 0 <= N -> valid_chunks cs n ->
  exists idxs,
    write_indices region cs = Some idxs /\ length idxs = length cs /\
    concat (map (fun i => sel i N) idxs) = firstnZ n (rsel region N) /\
    NoDup (concat (map (fun i => sel i N) idxs)) /\
    Forall (fun p => 0 <= p < N) (concat (map (fun i => sel i N) idxs)) /\
    (region_fits region n N = true -> map (fun i => lenZ (sel i N)) idxs = cs).
Proof.
  intros Hok HN [Hcs Hsum].
  destruct (write_indices_from region N 0 cs Hok HN ltac:(lia) Hcs) as (idxs & Hw & Hlen & _ & Hsel).
  exists idxs. split; [exact Hw|]. split; [exact Hlen|].
  assert (concat (map (fun i => sel i N) idxs) = firstnZ n (rsel region N)) as Hc
    by (rewrite Hsel, block_sels_concat0, Hsum by assumption; reflexivity).
  split; [exact Hc|]. rewrite Hc.
  destruct (firstn_region_facts region n N Hok HN) as (Hnd & Hb).
  split; [exact Hnd|]. split; [exact Hb|].
  intros Hfit. apply region_fits_iff in Hfit. unfold region_fitsP in Hfit. rewrite slice_len_lenZ in Hfit.
  fold (rsel region N) in Hfit.
  rewrite <- (map_map (fun i => sel i N) lenZ). rewrite Hsel.
  rewrite block_sels_fits by (try assumption; lia).
  unfold skipnZ. cbn [Z.to_nat skipn]. apply split_chunks_lens; [assumption|lia].
Qed.

(* fuse_slice declines exactly the regions with a negative field *)
Lemma write_indices_of_declines r off cs :
  0 <= off -> Forall (fun c => 0 <= c) cs ->
  (write_indices_of (Some r) (block_slices_from off cs) = None <-> has_negative r /\ cs <> []).
Proof.
  intros Hoff Hcs. rewrite <- nff_none_iff.
  destruct (normalize_slice_for_fusion r) as [[[a0 ast] k]|] eqn:Er.
  - split; [|intros [H _]; discriminate]. intros H. exfalso. revert off Hoff H.
    induction Hcs as [|c t Hc Ht IH]; intros off Hoff H; [discriminate|].
    cbn [block_slices_from write_indices_of store_index] in H. fold (blk off (off + c)) in H.
    unfold fuse_slice_ss in H. rewrite Er, nff_blk in H by lia.
    destruct (write_indices_of (Some r) (block_slices_from (off + c) t)) eqn:E; [discriminate|].
    apply (IH (off + c)); [lia|exact E].
  - split.
    + intros H. split; [reflexivity|]. intros ->. discriminate H.
    + intros [_ Hne]. destruct cs as [|c t]; [congruence|].
      cbn [block_slices_from write_indices_of store_index]. unfold fuse_slice_ss. rewrite Er. reflexivity.
Qed.

Theorem store_declines_iff r cs n :
  valid_chunks cs n -> (write_indices (Some r) cs = None <-> has_negative r /\ cs <> []).
Proof. intros [Hcs _]. apply write_indices_of_declines; [lia|exact Hcs]. Qed.

Theorem store_axis_declines {V} r cs (src tgt : list V) :
  valid_chunks cs (lenZ src) -> cs <> [] -> has_negative r ->
  store_axis (Some r) cs src tgt = SNotImpl.
Proof.
  intros _ Hne Hneg. destruct cs as [|c t]; [congruence|].
  unfold store_axis, store_tasks, block_slices. cbn [block_slices_from split_chunks combine store_blocks].
  unfold store_chunk. cbn [store_index]. unfold fuse_slice_ss.
  apply nff_none_iff in Hneg. rewrite Hneg. reflexivity.
Qed.

(* ---------------------------------------------------------------------- *)
(* a region that designates fewer cells than the source has: the shape check is left to
   the target's __setitem__, which catches it whenever the overflowing block has >= 2
   cells ... *)
Lemma store_blocks_short {V} region N off cs (src out : list V) :
  region_okb region = true -> lenZ out = N -> 0 <= off <= lenZ (rsel region N) ->
  Forall (fun c => 2 <= c) cs -> zsum cs <= lenZ src ->
  lenZ (rsel region N) < off + zsum cs ->
  store_blocks region (combine (block_slices_from off cs) (split_chunks cs src)) out = SValueErr.
Proof.
  intros Hok. revert off src out. induction cs as [|c t IH]; intros off src out HN Hoff Hcs Hsrc Hshort.
  - cbn [zsum] in Hshort. lia.
  - inversion Hcs as [|c0 l0 Hc Ht]; subst.
    assert (0 <= zsum t) as Hz by (apply zsum_nonneg; eapply Forall_impl; [|exact Ht]; cbn beta; intros a Ha; lia).
    cbn [zsum] in Hshort, Hsrc.
    set (l := rsel region (lenZ out)) in *. pose proof (lenZ_nonneg l) as HL.
    destruct (store_index_block region off (off + c) Hok) as (idx & Hi & _ & Histep); try lia.
    pose proof (store_index_block_sel region off (off + c) (lenZ out) idx Hok (lenZ_nonneg out) ltac:(lia) Hi) as Hsel.
    cbv zeta in Hsel. fold l in Hsel.
    cbn [block_slices_from split_chunks combine store_blocks]. fold (blk off (off + c)).
    unfold store_chunk. rewrite Hi.
    assert (lenZ (firstnZ c src) = c) as Hxl by (apply lenZ_firstnZ; lia).
    destruct (lenZ (firstnZ c src) =? 0) eqn:Ex; [lia|].
    unfold np_setitem. destruct (step_of idx =? 0) eqn:Es; [lia|].
    destruct (Z_le_gt_dec (off + c) (lenZ l)) as [Hin|Hout].
    + (* this block fits: it is written and the fold continues *)
      rewrite !Z.min_l in Hsel by lia. replace (off + c - off) with c in Hsel by lia.
      assert (lenZ (sel idx (lenZ out)) = c) as Hsl.
      { rewrite Hsel. rewrite lenZ_firstnZ; [reflexivity|]. rewrite lenZ_skipnZ by lia. lia. }
      destruct (lenZ (firstnZ c src) =? lenZ (sel idx (lenZ out))) eqn:El; [|lia].
      apply IH; try assumption; try lia.
      * rewrite assign_lenZ. reflexivity.
      * rewrite lenZ_skipnZ by lia. lia.
    + (* the overflowing block: fewer than c cells selected, c >= 2 values *)
      assert (lenZ (sel idx (lenZ out)) < c) as Hsl.
      { rewrite Hsel. unfold lenZ, firstnZ, skipnZ in *. rewrite firstn_length, skipn_length. lia. }
      destruct (lenZ (firstnZ c src) =? lenZ (sel idx (lenZ out))) eqn:El; [lia|].
      destruct (firstnZ c src) as [|v [|w x']] eqn:Ef; unfold lenZ in Hxl; cbn [length] in Hxl; try lia.
      reflexivity.
Qed.

Theorem store_axis_short_raises {V} region cs (src tgt : list V) :
  region_okb region = true -> valid_chunks cs (lenZ src) -> Forall (fun c => 2 <= c) cs ->
  region_fits region (lenZ src) (lenZ tgt) = false ->
  store_axis region cs src tgt = SValueErr.
Proof.
  intros Hok [Hcs Hsum] H2 Hfit. unfold region_fits in Hfit. rewrite slice_len_lenZ in Hfit.
  fold (rsel region (lenZ tgt)) in Hfit.
  unfold store_axis, store_tasks, block_slices.
  pose proof (lenZ_nonneg (rsel region (lenZ tgt))).
  apply (store_blocks_short region (lenZ tgt)); try assumption; try reflexivity; lia.
Qed.

(* ... and misses it when the overflowing blocks have exactly one cell: NumPy broadcasts a
   length-1 value onto an empty selection. *)
Theorem store_axis_short_silent :
  exists region cs (src tgt tgt' : list Z),
    region_okb region = true /\ valid_chunks cs (lenZ src) /\
    region_fits region (lenZ src) (lenZ tgt) = false /\
    store_axis region cs src tgt = SOk tgt' /\ ~ In 104 tgt' /\ In 104 src.
Proof.
  exists (Some (mkslice (Some 0) (Some 4) None)), [3; 1; 1; 1], [100; 101; 102; 103; 104; 105],
         (repeat (-1) 10), [100; 101; 102; 103; -1; -1; -1; -1; -1; -1].
  split; [reflexivity|]. split; [split; [repeat constructor; lia|reflexivity]|].
  split; [reflexivity|]. split; [vm_compute; reflexivity|].
  split; [|cbn; tauto].
  cbn [In]. intros H. repeat (destruct H as [H|H]; [discriminate|]). exact H.
Qed.

(* ---------------------------------------------------------------------- *)
(* N-d: the index tuple of a block is computed axis by axis *)
Lemma fuse_zip_axes rs bss :
  fuse_zip (map ISlice rs) (map ISlice bss) =
  option_map (map ISlice) (store_index_axes (map Some rs) bss).
Proof.
  revert bss. induction rs as [|r rs IH]; intros [|b bss]; try reflexivity.
  cbn [map fuse_zip store_index_axes fuse_elem store_index]. rewrite IH.
  destruct (fuse_slice_ss r b); [|reflexivity]. cbn [option_map].
  destruct (store_index_axes (map Some rs) bss); reflexivity.
Qed.

Theorem store_index_nd_axes rs bss :
  length rs = length bss ->
  store_index_nd (Some (map ISlice rs)) (map ISlice bss) =
  option_map (map ISlice) (store_index_axes (map Some rs) bss).
Proof.
  intros Hlen. destruct rs as [|r rs], bss as [|b bss]; try discriminate; [reflexivity|].
  rewrite <- fuse_zip_axes.
  change (store_index_nd (Some (map ISlice (r :: rs))) (map ISlice (b :: bss)))
    with (fuse_tuple (map ISlice (r :: rs)) (map ISlice (b :: bss))).
  apply fuse_tuple_zip.
  - rewrite !map_length. exact Hlen.
  - apply Forall_forall. intros x Hx. apply in_map_iff in Hx. destruct Hx as (s & <- & _). exists s. reflexivity.
  - apply Forall_forall. intros x Hx. apply in_map_iff in Hx. destruct Hx as (s & <- & _). discriminate.
Qed.

Lemma store_index_axes_none bss : store_index_axes (map (fun _ => None) bss) bss = Some bss.
Proof.
  induction bss as [|b bss IH]; [reflexivity|].
  cbn [map store_index_axes store_index]. rewrite IH. reflexivity.
Qed.

Theorem store_index_nd_none bss :
  store_index_nd None (map ISlice bss) =
  option_map (map ISlice) (store_index_axes (map (fun _ => None) bss) bss).
Proof. rewrite store_index_axes_none. reflexivity. Qed.

(* ---------------------------------------------------------------------- *)
(* npy stack layout *)
Lemma npy_stack_chunks_from_nth i0 axis chunks (j : nat) :
  (j < length chunks)%nat ->
  nth j (npy_stack_chunks_from i0 axis chunks) [] =
  if i0 + Z.of_nat j =? axis then nth j chunks [] else [zsum (nth j chunks [])].
Proof.
  revert i0 j. induction chunks as [|c t IH]; intros i0 j Hj; cbn [length] in Hj; [lia|].
  destruct j as [|j]; cbn [npy_stack_chunks_from nth].
  - replace (i0 + Z.of_nat 0) with i0 by lia. reflexivity.
  - rewrite IH by lia. replace (i0 + 1 + Z.of_nat j) with (i0 + Z.of_nat (S j)) by lia. reflexivity.
Qed.

Theorem npy_stack_chunks_spec axis chunks :
  length (npy_stack_chunks axis chunks) = length chunks /\
  forall j, (j < length chunks)%nat ->
    nth j (npy_stack_chunks axis chunks) [] =
    if Z.of_nat j =? axis then nth j chunks [] else [zsum (nth j chunks [])].
Proof.
  split.
  - unfold npy_stack_chunks. generalize 0. induction chunks as [|c t IH]; intros i0; [reflexivity|].
    cbn [npy_stack_chunks_from length]. rewrite IH. reflexivity.
  - intros j Hj. unfold npy_stack_chunks. rewrite npy_stack_chunks_from_nth by exact Hj. reflexivity.
Qed.

(* every axis keeps its length: the stack layout is a valid layout of the same shape *)
Theorem npy_stack_chunks_valid axis chunks shape :
  Forall2 valid_chunks chunks shape -> Forall2 valid_chunks (npy_stack_chunks axis chunks) shape.
Proof.
  unfold npy_stack_chunks. generalize 0. intros i0 H. revert i0.
  induction H as [|c n chunks shape Hc _ IH]; intros i0; [constructor|].
  cbn [npy_stack_chunks_from]. constructor; [|apply IH].
  destruct (i0 =? axis); [exact Hc|]. destruct Hc as [Hnn Hs].
  split; [|cbn [zsum]; lia]. constructor; [|constructor]. rewrite Hs. subst n. apply zsum_nonneg. exact Hnn.
Qed.

(* what the boolean region check means *)
Theorem slice_okb_iff s : slice_okb s = true <-> ~ has_negative s /\ step_of s <> 0.
Proof.
  rewrite <- nff_none_iff. unfold slice_okb.
  destruct (normalize_slice_for_fusion s) as [[[a0 st] k]|] eqn:E.
  - destruct (nff_inv s a0 st k E) as (_ & _ & Hk & _). subst k. split.
    + intros H. split; [discriminate|lia].
    + intros [_ H]. lia.
  - split; [discriminate|]. intros [H _]. congruence.
Qed.

Theorem region_okb_iff region :
  region_okb region = true <-> (forall r, region = Some r -> ~ has_negative r /\ step_of r <> 0).
Proof.
  destruct region as [r|]; cbn [region_okb].
  - rewrite slice_okb_iff. split; [intros H r' Hr; injection Hr as <-; exact H|intros H; apply H; reflexivity].
  - split; [intros _ r Hr; discriminate|reflexivity].
Qed.

(* ---------------------------------------------------------------------- *)
(* N-d: the cells written by all the blocks of an N-d store *)

Lemma flat_map_nil_f {A B} (l : list A) : flat_map (fun _ : A => @nil B) l = [].
Proof. induction l as [|x t IH]; [reflexivity|exact IH]. Qed.

Lemma flat_map_app_perm {A B} (g h : A -> list B) l :
  Permutation (flat_map (fun b => g b ++ h b) l) (flat_map g l ++ flat_map h l).
Proof.
  induction l as [|b t IH]; [constructor|]. cbn [flat_map].
  rewrite <- !app_assoc. apply Permutation_app_head.
  rewrite IH. rewrite !app_assoc. apply Permutation_app_tail. apply Permutation_app_comm.
Qed.

Lemma flat_map_swap {A B C} (f : A -> B -> list C) la lb :
  Permutation (flat_map (fun a => flat_map (fun b => f a b) lb) la)
              (flat_map (fun b => flat_map (fun a => f a b) la) lb).
Proof.
  induction la as [|a t IH]; cbn [flat_map].
  - rewrite flat_map_nil_f. constructor.
  - rewrite IH. symmetry. apply (flat_map_app_perm (fun b => f a b) (fun b => flat_map (fun a0 => f a0 b) t)).
Qed.

Lemma flat_map_perm_ext {A B} (f g : A -> list B) l :
  (forall x, Permutation (f x) (g x)) -> Permutation (flat_map f l) (flat_map g l).
Proof.
  intros H. induction l as [|x t IH]; [constructor|]. cbn [flat_map]. apply Permutation_app; [apply H|exact IH].
Qed.

Lemma flat_map_flat_map {A B C} (f : A -> list B) (g : B -> list C) l :
  flat_map g (flat_map f l) = flat_map (fun x => flat_map g (f x)) l.
Proof.
  induction l as [|x t IH]; [reflexivity|]. cbn [flat_map]. rewrite flat_map_app, IH. reflexivity.
Qed.

Lemma flat_map_map {A B C} (f : A -> B) (g : B -> list C) l :
  flat_map g (map f l) = flat_map (fun x => g (f x)) l.
Proof. induction l as [|x t IH]; [reflexivity|]. cbn [map flat_map]. rewrite IH. reflexivity. Qed.

Lemma map_flat_map {A B C} (f : B -> C) (g : A -> list B) l :
  map f (flat_map g l) = flat_map (fun x => map f (g x)) l.
Proof. induction l as [|x t IH]; [reflexivity|]. cbn [flat_map]. rewrite map_app, IH. reflexivity. Qed.

Lemma flat_map_concat_list {A B} (f : A -> list B) (ls : list (list A)) :
  flat_map f (concat ls) = flat_map (fun l => flat_map f l) ls.
Proof. induction ls as [|l t IH]; [reflexivity|]. cbn [concat flat_map]. rewrite flat_map_app, IH. reflexivity. Qed.

(* the product of per-axis partitions is a partition of the product *)
Lemma cart_blocks_perm {A} (Pss : list (list (list A))) :
  Permutation (flat_map cart (cart Pss)) (cart (map (@concat A) Pss)).
Proof.
  induction Pss as [|L T IH]; [cbn; constructor; constructor|].
  cbn [cart map]. rewrite flat_map_flat_map.
  rewrite flat_map_concat_list.
  apply flat_map_perm_ext. intros l.
  rewrite flat_map_map. cbn [cart].
  rewrite (flat_map_swap (fun rest x => map (cons x) (cart rest)) (cart T) l).
  apply flat_map_perm_ext. intros x.
  rewrite <- map_flat_map. apply Permutation_map. exact IH.
Qed.

Lemma NoDup_app_intro {A} (l1 l2 : list A) :
  NoDup l1 -> NoDup l2 -> (forall x, In x l1 -> ~ In x l2) -> NoDup (l1 ++ l2).
Proof.
  induction l1 as [|a t IH]; intros H1 H2 Hd; [exact H2|].
  inversion H1 as [|a0 l0 Ha Ht]; subst. cbn [app]. constructor.
  - intros Hin. apply in_app_or in Hin. destruct Hin as [Hin|Hin]; [exact (Ha Hin)|].
    apply (Hd a); [left; reflexivity|exact Hin].
  - apply IH; [exact Ht|exact H2|]. intros x Hx. apply Hd. right. exact Hx.
Qed.

Lemma NoDup_cart {A} (Ls : list (list A)) : Forall (@NoDup A) Ls -> NoDup (cart Ls).
Proof.
  induction 1 as [|L T HL _ IH]; [cbn; constructor; [intros []|constructor]|].
  cbn [cart]. induction HL as [|x L' Hx _ IHL]; [constructor|].
  cbn [flat_map]. apply NoDup_app_intro.
  - apply Injective_map_NoDup; [|exact IH]. intros a b E. injection E as E. exact E.
  - exact IHL.
  - intros p Hp Hq. apply in_map_iff in Hp. destruct Hp as (r & <- & _).
    apply in_flat_map in Hq. destruct Hq as (y & Hy & Hq). apply in_map_iff in Hq.
    destruct Hq as (r' & E & _). injection E as -> _. exact (Hx Hy).
Qed.

Fixpoint per_axis (regions : list (option pslice)) (chunks : list (list Z)) (idxss : list (list pslice)) : Prop :=
  match regions, chunks, idxss with
  | [], [], [] => True
  | r :: rs, cs :: css, i :: is_ => write_indices r cs = Some i /\ per_axis rs css is_
  | _, _, _ => False
  end.

Fixpoint axis_sels (idxss : list (list pslice)) (Ns : list Z) : list (list (list Z)) :=
  match idxss, Ns with
  | idxs :: t, N :: Ns' => map (fun i => sel i N) idxs :: axis_sels t Ns'
  | _, _ => []
  end.

Lemma all_some_app {A} (l1 l2 : list (option A)) :
  all_some (l1 ++ l2) =
  match all_some l1, all_some l2 with Some a, Some b => Some (a ++ b) | _, _ => None end.
Proof.
  induction l1 as [|[x|] t IH]; cbn [app all_some].
  - destruct (all_some l2); reflexivity.
  - rewrite IH. destruct (all_some t), (all_some l2); reflexivity.
  - reflexivity.
Qed.

Lemma all_some_cons_axis r rs (bs : list pslice) idxs (C : list (list pslice)) C' :
  write_indices_of r bs = Some idxs ->
  all_some (map (store_index_axes rs) C) = Some C' ->
  all_some (map (store_index_axes (r :: rs)) (flat_map (fun b => map (cons b) C) bs)) =
  Some (flat_map (fun i => map (cons i) C') idxs).
Proof.
  intros Hw HC. revert idxs Hw. induction bs as [|b t IH]; intros idxs Hw.
  - injection Hw as <-. reflexivity.
  - cbn [write_indices_of] in Hw. destruct (store_index r b) as [i|] eqn:Ei; [|discriminate].
    destruct (write_indices_of r t) as [it|] eqn:Et; [|discriminate]. injection Hw as <-.
    cbn [flat_map]. rewrite map_app, all_some_app. rewrite (IH it eq_refl).
    assert (all_some (map (store_index_axes (r :: rs)) (map (cons b) C)) = Some (map (cons i) C')) as ->; [|reflexivity].
    clear IH Et. revert C' HC. induction C as [|c C IHC]; intros C' HC.
    + injection HC as <-. reflexivity.
    + cbn [map all_some] in HC |- *.
      replace (store_index_axes (r :: rs) (b :: c))
        with (match store_index r b, store_index_axes rs c with
              | Some i0, Some t0 => Some (i0 :: t0) | _, _ => None end) by reflexivity.
      rewrite Ei.
      destruct (store_index_axes rs c) as [tc|]; [|discriminate].
      destruct (all_some (map (store_index_axes rs) C)) as [rC|] eqn:EC; [|discriminate].
      injection HC as <-. rewrite (IHC rC eq_refl). reflexivity.
Qed.

Lemma write_indices_nd_cart regions chunks idxss :
  per_axis regions chunks idxss -> write_indices_nd regions chunks = Some (cart idxss).
Proof.
  unfold write_indices_nd. revert chunks idxss.
  induction regions as [|r rs IH]; intros [|cs css] [|i is_] H; cbn [per_axis] in H; try contradiction.
  - reflexivity.
  - destruct H as [Hw Hrest]. cbn [map cart].
    apply all_some_cons_axis; [exact Hw|]. apply IH. exact Hrest.
Qed.

Lemma cart_axis_sels idxss Ns :
  length Ns = length idxss ->
  cart (axis_sels idxss Ns) = map (fun idxs => sels_of idxs Ns) (cart idxss).
Proof.
  revert Ns. induction idxss as [|idxs t IH]; intros [|N Ns'] Hlen; try discriminate; [reflexivity|].
  cbn [axis_sels cart]. rewrite flat_map_map, map_flat_map.
  rewrite IH by (cbn [length] in Hlen; lia). clear Hlen IH.
  induction idxs as [|i it IHi]; [reflexivity|]. cbn [flat_map]. rewrite IHi. f_equal.
  rewrite !map_map. reflexivity.
Qed.

Lemma axes_partition regions chunks ns Ns :
  Forall2 valid_chunks chunks ns -> length regions = length chunks -> length Ns = length chunks ->
  Forall (fun r => region_okb r = true) regions -> Forall (fun N => 0 <= N) Ns ->
  exists idxss,
    per_axis regions chunks idxss /\ length idxss = length chunks /\
    map (@concat Z) (axis_sels idxss Ns) = designated regions ns Ns /\
    Forall (@NoDup Z) (designated regions ns Ns).
Proof.
  intros Hv. revert regions Ns. induction Hv as [|cs n css ns' Hc _ IH]; intros [|r rs] [|N Ns'] Hlr HlN Hok HN;
    try discriminate.
  - exists []. repeat split; constructor.
  - cbn [length] in Hlr, HlN. inversion Hok as [|r0 l0 Hr Hrs]; subst. inversion HN as [|N0 l1 HN0 HNs]; subst.
    destruct (IH rs Ns' ltac:(lia) ltac:(lia) Hrs HNs) as (idxss & Hp & Hl & Hd & Hnd).
    destruct (block_indices_partition r cs n N Hr HN0 Hc) as (idxs & Hw & _ & Hcat & Hndk & _).
    exists (idxs :: idxss). cbn [per_axis length axis_sels map designated].
    split; [split; assumption|]. split; [lia|]. split.
    + f_equal; assumption.
    + constructor; [rewrite <- Hcat; exact Hndk|exact Hnd].
Qed.

Theorem nd_cells_partition regions chunks ns Ns :
  Forall2 valid_chunks chunks ns -> length regions = length chunks -> length Ns = length chunks ->
  Forall (fun r => region_okb r = true) regions -> Forall (fun N => 0 <= N) Ns ->
  exists ws,
    write_indices_nd regions chunks = Some ws /\
    Permutation (flat_map (fun idxs => cart (sels_of idxs Ns)) ws) (cart (designated regions ns Ns)) /\
    NoDup (cart (designated regions ns Ns)).
Proof.
  intros Hv Hlr HlN Hok HN.
  destruct (axes_partition regions chunks ns Ns Hv Hlr HlN Hok HN) as (idxss & Hp & Hl & Hd & Hnd).
  exists (cart idxss). split; [apply write_indices_nd_cart; exact Hp|]. split.
  - rewrite <- Hd. rewrite <- flat_map_map. rewrite <- cart_axis_sels by lia. apply cart_blocks_perm.
  - apply NoDup_cart. exact Hnd.
Qed.
