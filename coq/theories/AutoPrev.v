(* L1 — model of the `previous_chunks` branch of auto_chunks
   (dask_array/_core_utils.py: auto_chunks `if previous_chunks:` ... `return tuple(chunks)`,
   _compute_multiplier, round_to) and of normalize_chunks(..., previous_chunks=...) around it.
   Definitions only (proofs: AutoPrevFacts.v validity, AutoPrevTerm.v + AutoPrevTerm2.v termination,
   AutoPrevBound.v byte bound, AutoPrevSafe.v safe inputs).

   FLOATS.  Every Python float of the branch is either
     * an EXACT RATIONAL computed by the model: the medians (np.median of ints: k or k+1/2),
       `multiplier` (limit / itemsize / largest_block / prod(...)), the values round_to returns; or
     * an ORACLE ARGUMENT: `proposed` (= median_chunks[a] * multiplier ** (1/len(last_autos))) and
       `max_chunk_size` (= proposed * tolerance ** (1/len(last_autos))), which go through an n-th root.
       The oracle [orc r a] gives the pair for loop round r (0-based) and axis a as the exact value of the
       float the implementation computed (or NaN); the harness records them from the running code.
   A float is [FNan] or [FQ num den] with den > 0.  The model uses `proposed` only through comparisons
   with ints, int(), // and *, all of which are exact on an exactly known float.

   LOOP.  `while multiplier_remaining:` is recursion on explicit fuel; [LFuel]/[PFuel] = fuel exhausted. *)
From DA Require Export PyBase NormChunks.
Open Scope Z_scope.

Inductive fval := FNan | FQ (num den : Z).

(* comparisons float-vs-int; anything compared with NaN is False *)
Definition f_gt_z (p : fval) (z : Z) : bool := match p with FNan => false | FQ n d => z * d <? n end.     (* p > z *)
Definition f_lt_z (p : fval) (z : Z) : bool := match p with FNan => false | FQ n d => n <? z * d end.     (* p < z *)
Definition f_le_z (p : fval) (z : Z) : bool := match p with FNan => false | FQ n d => n <=? z * d end.    (* p <= z *)
Definition z_le_f (z : Z) (p : fval) : bool := match p with FNan => false | FQ n d => z * d <=? n end.    (* z <= p *)
Definition z_gt_f (z : Z) (p : fval) : bool := f_lt_z p z.                                               (* z > p *)
(* a != b on floats: NaN differs from everything, itself included *)
Definition f_ne (a b : fval) : bool :=
  match a, b with FQ n d, FQ n' d' => negb (n * d' =? n' * d) | _, _ => true end.
Definition fmul (a b : fval) : fval :=
  match a, b with FQ n d, FQ n' d' => FQ (n * n') (d * d') | _, _ => FNan end.
Definition mkq (n d : Z) : fval := if d <? 0 then FQ (- n) (- d) else FQ n d.

(* round_to(c, s) with c a float:  max(1, int(c)) if c <= s else c // s * s   (nan // s * s = nan) *)
Definition round_to_f (c : fval) (s : Z) : fval :=
  match c with
  | FNan => FNan
  | FQ n d => if n <=? s * d then FQ (Z.max 1 (Z.quot n d)) 1
              else if s =? 0 then FNan else FQ (n / (d * s) * s) 1
  end.

(* np.median(previous_chunks[a]) *)
Fixpoint insert_z (x : Z) (l : list Z) : list Z :=
  match l with [] => [x] | y :: t => if x <=? y then x :: l else y :: insert_z x t end.
Definition sort_z (l : list Z) : list Z := fold_right insert_z [] l.
Definition median (l : list Z) : fval :=
  let s := sort_z l in
  let n := length s in
  match n with
  | O => FNan
  | _ => if Nat.even n then FQ (nth (n / 2 - 1) s 0 + nth (n / 2) s 0) 2 else FQ (nth (n / 2) s 0) 1
  end.

(* mode, count = max(frequencies(previous_chunks[i]).items(), key=count): the first value, in order of
   first appearance, with the largest count;  ideal_shape[i] = mode if mode > 1 and count >= len/2 else s *)
Definition count_z (x : Z) (l : list Z) : nat := length (filter (Z.eqb x) l).
Fixpoint mode_of (l all : list Z) (best : Z) (bc : nat) : Z * nat :=
  match l with
  | [] => (best, bc)
  | x :: t => let c := count_z x all in if (bc <? c)%nat then mode_of t all x c else mode_of t all best bc
  end.
Definition ideal_of (pv : list Z) (s : Z) : res Z :=
  match pv with
  | [] => Err EValue                                     (* max() of an empty sequence *)
  | x :: _ => let '(mode, count) := mode_of pv pv x 0%nat in
              Ok (if (1 <? mode) && (length pv <=? 2 * count)%nat then mode else s)
  end.
Fixpoint ideals_of (pvs : list (list Z)) (shape : list Z) : res (list Z) :=
  match pvs, shape with
  | pv :: pvs', s :: shape' =>
      match ideal_of pv s, ideals_of pvs' shape' with
      | Ok i, Ok r => Ok (i :: r)
      | Err e, _ => Err e
      | _, Err e => Err e
      end
  | _, [] => Ok []
  | [], _ :: _ => Err EValue                             (* previous_chunks[i]: IndexError *)
  end.

(* the `else:` arm of the per-axis loop: merge consecutive previous chunks while they fit `proposed` *)
Fixpoint merge_prev (p : fval) (pv : list Z) (nc : Z) : list Z :=
  match pv with
  | [] => if 0 <? nc then [nc] else []
  | c :: t => if z_le_f (c + nc) p then merge_prev p t (nc + c)
              else (if 0 <? nc then [nc] else []) ++ merge_prev p t c
  end.

(* a value of the dicts median_chunks / result: a number or a tuple of ints *)
Inductive dv := VNum (x : fval) | VTup (l : list Z).

(* per-axis part of the loop state: a in autos?, median_chunks.get(a), result.get(a).
   When multiplier < 1 initially (`reduce`) the code sets result = median_chunks (ONE dict): then only
   ax_med is used, for both. *)
Record axst := mkax { ax_auto : bool; ax_med : option dv; ax_res : option dv }.
(* per-axis constants: shape[a], previous_chunks[a], ideal_shape[a] *)
Record axc := mkaxc { c_n : Z; c_pv : list Z; c_ideal : Z }.

Definition max_of (l : list Z) : Z := fold_right Z.max (hd 0 l) l.         (* max(l), l non-empty *)

(* the factor of one dict value in math.prod(max(r) if isinstance(r, tuple) else r for r in ... if r) *)
Definition dv_factor (v : dv) : option fval :=
  match v with
  | VNum FNan => Some FNan                               (* nan is truthy *)
  | VNum (FQ n d) => if n =? 0 then None else Some (FQ n d)
  | VTup [] => None
  | VTup l => Some (FQ (max_of l) 1)
  end.
Definition med_prod (meds : list (option dv)) : fval :=
  fold_right (fun o acc => match o with
                           | Some v => match dv_factor v with Some x => fmul x acc | None => acc end
                           | None => acc end) (FQ 1 1) meds.

(* _compute_multiplier(limit, dtype, largest_block, median_chunks) *)
Definition compute_multiplier (limit itemsize lb : Z) (meds : list (option dv)) : res fval :=
  if (itemsize =? 0) || (lb =? 0) then Err EZeroDiv else
  match med_prod meds with
  | FNan => Ok FNan
  | FQ pn pd => if pn =? 0 then Err EZeroDiv else Ok (mkq (limit * pd) (itemsize * lb * pn))
  end.

(* body of `for a in sorted(autos):` for one axis a in autos; returns the new per-axis state, whether
   multiplier_remaining was set, and the factor largest_block is multiplied with *)
Definition set_res (reduce : bool) (x : axst) (v : dv) : axst :=
  if reduce then mkax (ax_auto x) (Some v) (ax_res x) else mkax (ax_auto x) (ax_med x) (Some v).
Definition axis_step (reduce : bool) (c : axc) (o : fval * fval) (x : axst) : axst * bool * Z :=
  let '(p, mcs) := o in
  if f_gt_z p (c_n c) then                                (* proposed > shape[a]: _trivial_aggregate(a) *)
    (if reduce then mkax false (Some (VTup [c_n c])) (ax_res x) else mkax false None (Some (VTup [c_n c])),
     true, c_n c)
  else if reduce || z_gt_f (max_of (c_pv c)) mcs then     (* reduce_case or max(previous_chunks[a]) > max_chunk_size *)
    let x' := set_res reduce x (VNum (round_to_f p (c_ideal c))) in
    if f_lt_z p 1 then (mkax false (ax_med x') (ax_res x'), true, 1) else (x', false, 1)
  else (set_res reduce x (VTup (merge_prev p (c_pv c) 0)), false, 1).

Fixpoint round_axes (reduce : bool) (cs : list axc) (a : nat) (o : nat -> fval * fval) (xs : list axst)
  : list axst * bool * Z :=
  match cs, xs with
  | c :: cs', x :: xs' =>
      let '(x', f, k) := if ax_auto x then axis_step reduce c (o a) x else (x, false, 1) in
      let '(xs'', f', k') := round_axes reduce cs' (S a) o xs' in
      (x' :: xs'', f || f', k * k')
  | _, _ => ([], false, 1)
  end.

Record lstate := mkls { ls_axes : list axst; ls_lb : Z; ls_mult : fval }.
Inductive lres := LDone (st : lstate) | LErr (e : nerr) | LFuel.

(* one pass of `while multiplier_remaining:`; Ok (st', multiplier_remaining) *)
Definition prev_round (reduce : bool) (limit itemsize : Z) (cs : list axc) (o : nat -> fval * fval) (st : lstate)
  : res (lstate * bool) :=
  let '(xs, flag, k) := round_axes reduce cs 0 o (ls_axes st) in
  let lb := ls_lb st * k in
  if flag || reduce then
    match compute_multiplier limit itemsize lb (map ax_med xs) with
    | Err e => Err e
    | Ok m2 => Ok (mkls xs lb m2, flag || f_ne m2 (ls_mult st))
    end
  else Ok (mkls xs lb (ls_mult st), false).

Fixpoint prev_loop (fuel : nat) (reduce : bool) (limit itemsize : Z) (cs : list axc)
         (orc : nat -> nat -> fval * fval) (r : nat) (st : lstate) : lres :=
  match fuel with
  | O => LFuel
  | S f => match prev_round reduce limit itemsize cs (orc r) st with
           | Err e => LErr e
           | Ok (st', true) => prev_loop f reduce limit itemsize cs orc (S r) st'
           | Ok (st', false) => LDone st'
           end
  end.

(* `for k, v in result.items(): chunks[k] = v if v else 0`, then what _convert_int_chunk_to_tuple accepts *)
Definition final_spec_of (sp : aspec) (v : option dv) : res aspec :=
  match v with
  | None => Ok sp
  | Some (VTup []) => Ok (AInt 0)
  | Some (VTup l) => Ok (ATuple l)
  | Some (VNum FNan) => Err EValue                       (* np.isnan(sum(chunks)) *)
  | Some (VNum (FQ n d)) => if n =? 0 then Ok (AInt 0)
                            else if n mod d =? 0 then Ok (AInt (n / d)) else Err EValue   (* is_integer *)
  end.
Fixpoint final_specs (reduce : bool) (specs : list aspec) (xs : list axst) : res (list aspec) :=
  match specs, xs with
  | sp :: specs', x :: xs' =>
      match final_spec_of sp (if reduce then ax_med x else ax_res x), final_specs reduce specs' xs' with
      | Ok s, Ok r => Ok (s :: r)
      | Err e, _ => Err e
      | _, Err e => Err e
      end
  | _, _ => Ok []
  end.

Fixpoint mk_consts (shape : list Z) (pvs : list (list Z)) (ideals : list Z) : list axc :=
  match shape, pvs, ideals with
  | n :: shape', pv :: pvs', i :: ideals' => mkaxc n pv i :: mk_consts shape' pvs' ideals'
  | _, _, _ => []
  end.

Definition init_axes (specs : list aspec) (pvs : list (list Z)) : list axst :=
  map (fun p => if is_auto (fst p) then mkax true (Some (VNum (median (snd p)))) None else mkax false None None)
      (combine specs pvs).

Inductive ares := AOk (specs : list aspec) | AErr (e : nerr) | AFuel.

(* auto_chunks(chunks, shape, limit, dtype, previous_chunks) with at least one 'auto' and a non-empty,
   already converted previous_chunks [pvs] (one list per axis) *)
(* the first `multiplier = _compute_multiplier(limit, dtype, largest_block, median_chunks)` *)
Definition initial_multiplier (limit itemsize : Z) (specs : list aspec) (pvs : list (list Z)) : res fval :=
  compute_multiplier (Z.max 1 limit) itemsize (largest_fixed specs) (map ax_med (init_axes specs pvs)).

(* everything auto_chunks computes before `while multiplier_remaining:`:
   (reduce_case, per-axis constants, initial loop state) *)
Definition loop_start (limit itemsize : Z) (specs : list aspec) (shape : list Z) (pvs : list (list Z))
  : res (bool * list axc * lstate) :=
  match initial_multiplier limit itemsize specs pvs with
  | Err e => Err e
  | Ok m =>
      match ideals_of pvs shape with
      | Err e => Err e
      | Ok ideals => Ok (f_lt_z m 1, mk_consts shape pvs ideals, mkls (init_axes specs pvs) (largest_fixed specs) m)
      end
  end.

Definition auto_chunks_prev (orc : nat -> nat -> fval * fval) (fuel : nat) (limit itemsize : Z)
           (specs : list aspec) (shape : list Z) (pvs : list (list Z)) : ares :=
  match loop_start limit itemsize specs shape pvs with
  | Err e => AErr e
  | Ok (reduce, cs, st0) =>
      match prev_loop fuel reduce (Z.max 1 limit) itemsize cs orc 0 st0 with
      | LFuel => AFuel
      | LErr e => AErr e
      | LDone st => match final_specs reduce specs (ls_axes st) with Ok s => AOk s | Err e => AErr e end
      end
  end.

(* previous_chunks = (c[0] if isinstance(c, tuple) and len(c) == 1 else c ...);
   _convert_int_chunk_to_tuple(shape, previous_chunks): an int c (here [c]) becomes blockdims_from_blockshape *)
Fixpoint conv_prev (shape : list Z) (prev : list (list Z)) : res (list (list Z)) :=
  match shape, prev with
  | n :: shape', p :: prev' =>
      match (match p with [c] => blockdims_axis n c | _ => Ok p end), conv_prev shape' prev' with
      | Ok c, Ok r => Ok (c :: r)
      | Err e, _ => Err e
      | _, Err e => Err e
      end
  | _, _ => Ok []                                        (* zip stops at the shorter *)
  end.

(* the tail of normalize_chunks after 'auto' is resolved (same text as in NormChunks.normalize_chunks) *)
Definition normalize_tail (specs : list aspec) (shape : list Z) : res (list (list Z)) :=
  let allints := forallb is_int_spec specs in
  match convert_all specs shape with
  | Err e => Err e
  | Ok chunks =>
      if existsb is_nil chunks then Err EValue
      else if existsb (fun c => existsb (fun x => x <? 0) c) chunks then Err EValue
      else if negb allints && negb (forallb (fun p => zsum (fst p) =? snd p) (combine chunks shape)) then Err EValue
      else Ok chunks
  end.

Inductive pres := POk (cs : list (list Z)) | PErr (e : nerr) | PFuel
                | POther.   (* previous_chunks is empty: Python takes the branch modelled in NormChunks.v *)

(* normalize_chunks(chunks, shape, limit, dtype, previous_chunks) for a per-axis spec; an int previous
   chunk c is written [c] (Python treats c and (c,) alike) *)
Definition normalize_chunks_prev (orc : nat -> nat -> fval * fval) (fuel : nat) (limit itemsize : Z)
           (specs : list aspec) (shape : list Z) (prev : list (list Z)) : pres :=
  if negb (Nat.eqb (length specs) (length shape)) then PErr EValue else
  let specs := map (fun p => subst_full (fst p) (snd p)) (combine specs shape) in
  let tail s := match normalize_tail s shape with Ok cs => POk cs | Err e => PErr e end in
  if count_autos specs =? 0 then tail specs else
  match prev with
  | [] => POther
  | _ =>
      match conv_prev shape prev with
      | Err e => PErr e
      | Ok pvs =>
          match auto_chunks_prev orc fuel limit itemsize specs shape pvs with
          | AFuel => PFuel
          | AErr e => PErr e
          | AOk specs' => tail specs'
          end
      end
  end.

(* ------------------------------------------------------------------ *)
(* specification side *)

(* number of axes still in `autos` *)
Definition n_autos (xs : list axst) : nat := length (filter ax_auto xs).

(* an oracle given as a finite table: round r -> association list axis -> (proposed, max_chunk_size);
   NaN outside the table *)
Fixpoint lookup_ax (a : nat) (l : list (nat * (fval * fval))) : fval * fval :=
  match l with
  | [] => (FNan, FNan)
  | (k, v) :: t => if Nat.eqb k a then v else lookup_ax a t
  end.
Definition orc_of_table (tbl : list (list (nat * (fval * fval)))) (r a : nat) : fval * fval :=
  match nth_error tbl r with Some l => lookup_ax a l | None => (FNan, FNan) end.

(* ------------------------------------------------------------------ *)
(* specification side, shrinking case (multiplier < 1 initially; result IS median_chunks) *)

(* prod over the dict entries of the axes still in `autos` / of the others (settled axes) *)
Definition autos_prod (xs : list axst) : fval :=
  med_prod (map (fun x => if ax_auto x then ax_med x else None) xs).
Definition others_prod (xs : list axst) : fval :=
  med_prod (map (fun x => if ax_auto x then None else ax_med x) xs).

(* product of int(proposed) over the axes in `autos` *)
Fixpoint floor_prod (a : nat) (o : nat -> fval * fval) (xs : list axst) : Z :=
  match xs with
  | [] => 1
  | x :: xs' => (if ax_auto x then match fst (o a) with FQ n d => n / d | FNan => 0 end else 1)
                * floor_prod (S a) o xs'
  end.

(* per-axis sanity of one pass: `proposed` is a number; and, when multiplier >= 1 (mge1), it is not below the
   dict entry it was computed from  (proposed = median_chunks[a] * multiplier ** (1/n) >= median_chunks[a]) *)
Fixpoint axes_sane (mge1 : bool) (a : nat) (o : nat -> fval * fval) (xs : list axst) : bool :=
  match xs with
  | [] => true
  | x :: xs' =>
      (if ax_auto x then
         match fst (o a), ax_med x with
         | FQ n d, Some (VNum (FQ vn vd)) => (0 <? d) && (0 <? vd) && (negb mge1 || (vn * d <=? n * vd))
         | _, _ => false
         end
       else true) && axes_sane mge1 (S a) o xs'
  end.

(* sanity of one pass.  With T = limit / (itemsize * largest_block * prod(settled entries)) the target the
   proposals are computed for (mathematically prod(proposed) = T):
     - multiplier is a number with positive denominator, T is positive,
     - axes_sane,
     - prod(int(proposed)) <= T   (when `autos` is not empty) *)
Definition round_sane (limit itemsize : Z) (o : nat -> fval * fval) (st : lstate) : bool :=
  match ls_mult st, others_prod (ls_axes st) with
  | FQ mn md, FQ on od =>
      (0 <? md) && (0 <? od) && (0 <? itemsize * ls_lb st * on) &&
      axes_sane (md <=? mn) 0 o (ls_axes st) &&
      (Nat.eqb (n_autos (ls_axes st)) 0 ||
       (floor_prod 0 o (ls_axes st) * (itemsize * ls_lb st * on) <=? limit * od))
  | _, _ => false
  end.

(* every pass the loop executes within the fuel is sane *)
Fixpoint sane_loop (fuel : nat) (reduce : bool) (limit itemsize : Z) (cs : list axc)
         (orc : nat -> nat -> fval * fval) (r : nat) (st : lstate) : bool :=
  match fuel with
  | O => true
  | S f => round_sane limit itemsize (orc r) st &&
           match prev_round reduce limit itemsize cs (orc r) st with
           | Ok (st', true) => sane_loop f reduce limit itemsize cs orc (S r) st'
           | _ => true
           end
  end.

(* sum of the lengths of the axes still in `autos` *)
Fixpoint sum_n (cs : list axc) (xs : list axst) : Z :=
  match cs, xs with
  | c :: cs', x :: xs' => (if ax_auto x then Z.max 0 (c_n c) else 0) + sum_n cs' xs'
  | _, _ => 0
  end.

(* passes that always suffice in the shrinking case with sane proposals *)
Definition reduce_fuel_bound (cs : list axc) (xs : list axst) : Z :=
  (Z.of_nat (n_autos xs) + 1) * (sum_n cs xs + 3).

(* the loop of normalize_chunks_prev, if it is reached: (reduce_case, constants, initial state) *)
Definition prev_start (limit itemsize : Z) (specs : list aspec) (shape : list Z) (prev : list (list Z))
  : option (bool * list axc * lstate) :=
  if negb (Nat.eqb (length specs) (length shape)) then None else
  let specs := map (fun p => subst_full (fst p) (snd p)) (combine specs shape) in
  if count_autos specs =? 0 then None else
  match prev with
  | [] => None
  | _ => match conv_prev shape prev with
         | Err _ => None
         | Ok pvs => match loop_start limit itemsize specs shape pvs with Ok s => Some s | Err _ => None end
         end
  end.

(* every pass of normalize_chunks_prev's loop within the fuel is sane (vacuous if the loop is not reached) *)
Definition prev_sane (orc : nat -> nat -> fval * fval) (fuel : nat) (limit itemsize : Z)
           (specs : list aspec) (shape : list Z) (prev : list (list Z)) : bool :=
  match prev_start limit itemsize specs shape prev with
  | Some (reduce, cs, st0) => sane_loop fuel reduce (Z.max 1 limit) itemsize cs orc 0 st0
  | None => true
  end.

(* ------------------------------------------------------------------ *)
(* specification side, byte bound *)

(* the largest chunk a dict value stands for *)
Definition mv (v : dv) : Z :=
  match v with VNum (FQ n d) => n / d | VNum FNan => 0 | VTup l => max_of l end.
Definition res_of (reduce : bool) (x : axst) : option dv := if reduce then ax_med x else ax_res x.
Definition mvo (o : option dv) : Z := match o with Some v => mv v | None => 1 end.
(* product of the largest chunks over the axes not (or no longer) in `autos` / over all axes *)
Definition settled_blk (reduce : bool) (xs : list axst) : Z :=
  fold_right Z.mul 1 (map (fun x => if ax_auto x then 1 else mvo (res_of reduce x)) xs).
Definition all_blk (reduce : bool) (xs : list axst) : Z :=
  fold_right Z.mul 1 (map (fun x => mvo (res_of reduce x)) xs).

Definition ffloor (p : fval) : Z := match p with FQ n d => n / d | FNan => 0 end.
(* what one pass can give an axis of `autos` at most: max(1, int(proposed), int(max_chunk_size)) *)
Definition ubound (o : fval * fval) : Z := Z.max 1 (Z.max (ffloor (fst o)) (ffloor (snd o))).
Fixpoint uprod (a : nat) (o : nat -> fval * fval) (xs : list axst) : Z :=
  match xs with
  | [] => 1
  | x :: xs' => (if ax_auto x then ubound (o a) else 1) * uprod (S a) o xs'
  end.
Definition fwf (p : fval) : bool := match p with FQ _ d => 0 <? d | FNan => false end.
Fixpoint owf (a : nat) (o : nat -> fval * fval) (xs : list axst) : bool :=
  match xs with
  | [] => true
  | x :: xs' => (if ax_auto x then fwf (fst (o a)) && fwf (snd (o a)) else true) && owf (S a) o xs'
  end.

(* ACCURACY of one pass for the factor T = tn/td.  With
     target = limit / (itemsize * largest_block * prod(settled entries of median_chunks))
   (mathematically prod(proposed) = target and prod(max_chunk_size) = tolerance * target):
     - the proposals are numbers, largest_block >= 0,
     - the settled entries multiply to >= 1  (od <= on),
     - prod(max(1, int(proposed), int(max_chunk_size))) <= T * target *)
Definition acc_round (tn td limit itemsize : Z) (o : nat -> fval * fval) (st : lstate) : bool :=
  match others_prod (ls_axes st) with
  | FQ on od =>
      owf 0 o (ls_axes st) && (0 <=? ls_lb st) && (0 <? od) && (od <=? on) &&
      (uprod 0 o (ls_axes st) * (itemsize * ls_lb st * on) * td <=? tn * limit * od)
  | FNan => false
  end.

(* the proposals of every pass are numbers (owf) and the LAST pass that starts with `autos` non-empty is
   accurate (called with `autos` non-empty) *)
Fixpoint acc_last (tn td : Z) (fuel : nat) (reduce : bool) (limit itemsize : Z) (cs : list axc)
         (orc : nat -> nat -> fval * fval) (r : nat) (st : lstate) : bool :=
  match fuel with
  | O => true
  | S f => owf 0 (orc r) (ls_axes st) &&
           match prev_round reduce limit itemsize cs (orc r) st with
           | Ok (st', true) => if (0 <? n_autos (ls_axes st'))%nat
                               then acc_last tn td f reduce limit itemsize cs orc (S r) st'
                               else acc_round tn td limit itemsize (orc r) st
           | Ok (_, false) => acc_round tn td limit itemsize (orc r) st
           | Err _ => true
           end
  end.

Definition prev_acc (tn td : Z) (orc : nat -> nat -> fval * fval) (fuel : nat) (limit itemsize : Z)
           (specs : list aspec) (shape : list Z) (prev : list (list Z)) : bool :=
  match prev_start limit itemsize specs shape prev with
  | Some (reduce, cs, st0) => acc_last tn td fuel reduce (Z.max 1 limit) itemsize cs orc 0 st0
  | None => false
  end.

(* ------------------------------------------------------------------ *)
(* the exact `multiplier` at the start of every pass, for the correspondence check (the implementation's
   float must be within 2^-40 relative of it; NaN must match NaN) *)
Fixpoint mult_trace (fuel : nat) (reduce : bool) (limit itemsize : Z) (cs : list axc)
         (orc : nat -> nat -> fval * fval) (r : nat) (st : lstate) : list fval :=
  match fuel with
  | O => []
  | S f => ls_mult st ::
           match prev_round reduce limit itemsize cs (orc r) st with
           | Ok (st', true) => mult_trace f reduce limit itemsize cs orc (S r) st'
           | _ => []
           end
  end.
Definition prev_mults (orc : nat -> nat -> fval * fval) (fuel : nat) (limit itemsize : Z)
           (specs : list aspec) (shape : list Z) (prev : list (list Z)) : list fval :=
  match prev_start limit itemsize specs shape prev with
  | Some (reduce, cs, st0) => mult_trace fuel reduce (Z.max 1 limit) itemsize cs orc 0 st0
  | None => []
  end.
Definition f_close (a b : fval) : bool :=
  match a, b with
  | FNan, FNan => true
  | FQ n d, FQ n' d' => Z.abs (n * d' - n' * d) * 2 ^ 40 <=? Z.abs (n' * d)
  | _, _ => false
  end.
Definition mults_close (a b : list fval) : bool := list_eqb f_close a b.
