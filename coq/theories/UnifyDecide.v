(* L1 — the DECISION LAYER of unify_chunks_expr (dask_array/_expr.py) together with
   dask.blockwise.broadcast_dimensions, for fully known (non-nan) chunk sizes.
   Definitions only; proofs in UnifyDecideFacts.v.

   RESTRICTIONS of the model (stated, not hidden):
   * every chunk size is a known integer (the nan cases are modelled in UnknownChunks.v);
     every `np.isnan(sum(..))` test of the Python code is therefore False and omitted;
   * every operand has an index tuple (`ind is not None`) and is not an ArrayBlockwiseDep;
     operands whose index is the empty tuple (scalars) are carried and skipped like the code does;
   * `a._name` only serves as the key of the `seen` set; two operands with the same name are the
     same expression and have the same chunks (so `blockdim_dict[a._name]` is `a.chunks`);
   * len(ind) = a.ndim (the zips of the code are then total; the model truncates like zip);
   * nbytes < 2**53 so that float(a.nbytes) is exact.  The costs nb * moved_fraction(..) are floats
     in Python; here they are exact rationals (num, den) and EVERY comparison between costs goes
     through the oracle argument [qcmp] (the exact instance is [rat_cmp]); the tie-break of
     coarse_blockdim's min(.., key=len) over a set is the oracle [pick] (one value per index label). *)
From DA Require Export PyBase Unify.
Open Scope Z_scope.

Record operand := mkop {
  o_name : Z;                    (* a._name, as an opaque identifier *)
  o_ind : list Z;                (* index labels, one per axis *)
  o_chunks : list (list Z);      (* a.chunks *)
  o_shape : list Z;              (* a.shape *)
  o_nbytes : Z;                  (* a.nbytes *)
  o_itemsize : Z                 (* a.dtype.itemsize *)
}.

Inductive policy := PAuto | PCoarse | PRefine.   (* array.unify-chunks-policy; any other string acts as "auto" *)

(* chunkss : dict label -> layout, as an association list (first binding wins) *)
Definition chunkmap := list (Z * list Z).

Fixpoint lookup (j : Z) (m : chunkmap) : option (list Z) :=
  match m with
  | [] => None
  | (k, c) :: t => if k =? j then Some c else lookup j t
  end.
(* chunkss[j]; the key is always present where the code subscripts (UnifyDecideFacts.bd_all_lookup) *)
Definition get (j : Z) (m : chunkmap) : list Z := match lookup j m with Some c => c | None => [] end.

(* ------------------------------------------------------------------ *)
(* exact rationals for the float costs *)
Definition rat := (Z * Z)%type.
Definition rat_add (a b : rat) : rat := (fst a * snd b + fst b * snd a, snd a * snd b).
Definition rat_scale (k : Z) (a : rat) : rat := (k * fst a, snd a).
Definition rat_of_Z (k : Z) : rat := (k, 1).
(* exact comparison by cross-multiplication (denominators are positive: UnifyFacts.moved_fraction_range) *)
Definition rat_cmp (a b : rat) : comparison := (fst a * snd b) ?= (fst b * snd a).

(* ------------------------------------------------------------------ *)
(* broadcast_dimensions(nameinds, blockdim_dict, consolidate=..) *)

(* zip(ind, a.chunks, a.shape): (label, layout, axis length) per axis *)
Definition axes (o : operand) : list (Z * list Z * Z) := combine (combine (o_ind o) (o_chunks o)) (o_shape o).
Definition ax_label (a : Z * list Z * Z) : Z := fst (fst a).
Definition ax_layout (a : Z * list Z * Z) : list Z := snd (fst a).
Definition ax_size (a : Z * list Z * Z) : Z := snd a.

(* `ind is not None and ind != ()` *)
Definition participates (o : operand) : bool := match o_ind o with [] => false | _ => true end.
Definition parts (ops : list operand) : list operand := filter participates ops.

Definition all_axes (ops : list operand) : list (Z * list Z * Z) := flat_map axes (parts ops).

Fixpoint nodupZ (l : list Z) : list Z :=
  match l with
  | [] => []
  | x :: t => if existsb (Z.eqb x) t then nodupZ t else x :: nodupZ t
  end.

(* the keys of g / chunkss *)
Definition labels (ops : list operand) : list Z := nodupZ (map ax_label (all_axes ops)).

(* g[k] = {d for i, d in v};  g2[k] = v - {1, (1,)} if len(v) > 1 else v *)
Definition label_dims (ops : list operand) (j : Z) : list (list Z) :=
  let v := dedup (map ax_layout (filter (fun a => ax_label a =? j) (all_axes ops))) in
  if (1 <? length v)%nat then filter (fun d => negb (zlist_eqb d [1])) v else v.

(* toolz.valmap(consolidate, g2); an exception of consolidate propagates (None) *)
Fixpoint bd_all (cons : Z -> list (list Z) -> ures) (ops : list operand) (ls : list Z) : option chunkmap :=
  match ls with
  | [] => Some []
  | j :: t =>
      match cons j (label_dims ops j), bd_all cons ops t with
      | UOk r, Some m => Some ((j, r) :: m)
      | _, _ => None
      end
  end.

(* ------------------------------------------------------------------ *)
(* the cost-aware pass (policy auto) *)

(* the `seen` set of (a._name, tuple(ind)) *)
Definition key_eqb (a b : operand) : bool := (o_name a =? o_name b) && zlist_eqb (o_ind a) (o_ind b).
Fixpoint seen_dedup (seen : list operand) (ops : list operand) : list operand :=
  match ops with
  | [] => []
  | o :: t => if existsb (key_eqb o) seen then seen_dedup seen t else o :: seen_dedup (o :: seen) t
  end.

(* layouts[j] = [(src, nbytes), ...]: axes with a layout opinion
   (`a.shape[n] <= 1 or len(src) <= 1` -> continue) *)
Definition has_opinion (j : Z) (a : Z * list Z * Z) : bool :=
  (ax_label a =? j) && (1 <? ax_size a) && (1 <? length (ax_layout a))%nat.
Definition entries (ops : list operand) (j : Z) : list (list Z * Z) :=
  flat_map (fun o => map (fun a => (ax_layout a, o_nbytes o)) (filter (has_opinion j) (axes o)))
           (seen_dedup [] (parts ops)).

(* `j in anchored` and anchored[j] *)
Definition has_anchor (es : list (list Z * Z)) (target : list Z) : bool :=
  existsb (fun e => zlist_eqb (fst e) target) es.
Definition anchored_bytes (es : list (list Z * Z)) (target : list Z) : Z :=
  zsum (map snd (filter (fun e => zlist_eqb (fst e) target) es)).
(* the operands that the merge direction would move: src != target and len(target) < len(src) *)
Definition movers (es : list (list Z * Z)) (target : list Z) : list (list Z * Z) :=
  filter (fun e => negb (zlist_eqb (fst e) target) && (length target <? length (fst e))%nat) es.
Definition moved_cost (es : list (list Z * Z)) (target : list Z) : rat :=
  fold_left (fun acc e => rat_add acc (rat_scale (snd e) (moved_fraction (fst e) target))) (movers es target) (0, 1).
(* j in refused:  j in moved and moved[j] > _MERGE_COST_RATIO * anchored.get(j, 0.0) *)
Definition MERGE_COST_RATIO : Z := 4.
Definition refused_b (qcmp : rat -> rat -> comparison) (es : list (list Z * Z)) (target : list Z) : bool :=
  match movers es target with
  | [] => false
  | _ => match qcmp (moved_cost es target) (rat_of_Z (MERGE_COST_RATIO * anchored_bytes es target)) with
         | Gt => true
         | _ => false
         end
  end.

(* candidates[src] = candidates.get(src, 0.0) + nbytes   (a dict: insertion order) *)
Fixpoint cand_add (src : list Z) (nb : Z) (cs : list (list Z * Z)) : list (list Z * Z) :=
  match cs with
  | [] => [(src, nb)]
  | (l, b) :: t => if zlist_eqb l src then (l, b + nb) :: t else (l, b) :: cand_add src nb t
  end.
Definition candidates (es : list (list Z * Z)) : list (list Z * Z) :=
  fold_left (fun cs e => cand_add (fst e) (snd e) cs) es [].

(* cost = sum(nb * moved_fraction(src, layout) for src, nb in ops if src != layout) *)
Definition cand_cost (es : list (list Z * Z)) (layout : list Z) : rat :=
  fold_left (fun acc e => if zlist_eqb (fst e) layout then acc
                          else rat_add acc (rat_scale (snd e) (moved_fraction (fst e) layout))) es (0, 1).

(* a feasible entry (len(layout), cost, -anchor_bytes, layout); anchor_bytes is kept un-negated *)
Record feas := mkfeas { f_len : nat; f_cost : rat; f_anchor : Z; f_layout : list Z }.

(* tuple `<` on ints, lexicographic *)
Fixpoint zlist_ltb (a b : list Z) : bool :=
  match a, b with
  | [], [] => false
  | [], _ :: _ => true
  | _ :: _, [] => false
  | x :: a', y :: b' => if x =? y then zlist_ltb a' b' else x <? y
  end.

(* Python's tuple comparison of two feasible entries: first differing component decides *)
Definition feas_ltb (qcmp : rat -> rat -> comparison) (a b : feas) : bool :=
  if negb (Nat.eqb (f_len a) (f_len b)) then Nat.ltb (f_len a) (f_len b)
  else match qcmp (f_cost a) (f_cost b) with
       | Lt => true
       | Gt => false
       | Eq => if negb (f_anchor a =? f_anchor b) then f_anchor b <? f_anchor a   (* -a < -b *)
               else zlist_ltb (f_layout a) (f_layout b)
       end.

Definition feasible (qcmp : rat -> rat -> comparison) (es : list (list Z * Z)) : list feas :=
  flat_map (fun c => let cost := cand_cost es (fst c) in
                     match qcmp cost (rat_of_Z (MERGE_COST_RATIO * snd c)) with
                     | Gt => []
                     | _ => [mkfeas (length (fst c)) cost (snd c) (fst c)]
                     end) (candidates es).

(* min(feasible): the first minimal element (replace only on strict <) *)
Definition feas_min (qcmp : rat -> rat -> comparison) (f : feas) (fs : list feas) : feas :=
  fold_left (fun best x => if feas_ltb qcmp x best then x else best) fs f.

(* one iteration `for j, ops in layouts.items()` of the realignment loop.
   target0 = the layout chosen by the merge pass, target = chunkss[j] after the refusals *)
Definition realign (qcmp : rat -> rat -> comparison) (es : list (list Z * Z))
           (target0 target : list Z) (refused : bool) : list Z :=
  match es with
  | [] => target                                         (* j not in layouts *)
  | _ =>
      if has_anchor es target0 && negb refused then target                 (* fast path *)
      else if existsb (fun e => zlist_eqb (fst e) target) es then target   (* an operand already has the chosen layout *)
      else match feasible qcmp es with
           | [] => target
           | f :: fs => f_layout (feas_min qcmp f fs)
           end
  end.

(* the whole `if consolidate is coarse_blockdim and policy != "coarse":` block.
   [fine] = broadcast_dimensions(.., consolidate=common_blockdim), only forced when something is refused *)
Definition auto_step (qcmp : rat -> rat -> comparison) (ops : list operand) (f : chunkmap)
           (jc : Z * list Z) : Z * list Z :=
  let es := entries ops (fst jc) in
  let r := refused_b qcmp es (snd jc) in
  (fst jc, realign qcmp es (snd jc) (if r then get (fst jc) f else snd jc) r).

Definition auto_pass (qcmp : rat -> rat -> comparison) (ops : list operand)
           (c0 : chunkmap) (fine : option chunkmap) : option chunkmap :=
  if existsb (fun jc => refused_b qcmp (entries ops (fst jc)) (snd jc)) c0 then   (* `if refused:` *)
    match fine with
    | None => None
    | Some f => Some (map (auto_step qcmp ops f) c0)
    end
  else Some (map (auto_step qcmp ops []) c0).   (* nothing refused: fine is not consulted *)

(* ------------------------------------------------------------------ *)
(* the size guard *)
Definition pymax (l : list Z) : Z := match l with [] => 0 | h :: t => fold_right Z.max h t end.
Fixpoint zprod (l : list Z) : Z := match l with [] => 1 | x :: t => x * zprod t end.

(* target  = itemsize * prod(max(chunkss[j]) for n, j in enumerate(i) if a.shape[n] > 1)
   current = itemsize * prod(max(c) for n, c in enumerate(a.chunks) if a.shape[n] > 1)
   i.e. the byte size of the operand's LARGEST BLOCK after / before it is rechunked to chunkss:
   product over the non-broadcast axes of the per-axis maximal chunk, times the itemsize. *)
Definition target_bytes (cs : chunkmap) (o : operand) : Z :=
  o_itemsize o * zprod (map (fun a => pymax (get (ax_label a) cs)) (filter (fun a => 1 <? ax_size a) (axes o))).
Definition current_bytes (o : operand) : Z :=
  o_itemsize o * zprod (map (fun a => pymax (ax_layout a)) (filter (fun a => 1 <? ax_size a) (axes o))).

Definition worst_bytes (cs : chunkmap) (ops : list operand) : Z :=
  fold_left (fun w o => let t := target_bytes cs o in if t >? current_bytes o then Z.max w t else w) (parts ops) 0.

Definition size_guard (l : Z) (ops : list operand) (c1 : chunkmap) (fine : option chunkmap) : option chunkmap :=
  if worst_bytes c1 ops >? l then
    match fine with
    | None => None
    | Some f =>   (* coarsened = {j : len(fine[j]) > len(c)};  an empty set leaves chunkss unchanged *)
        Some (map (fun jc => if (length (snd jc) <? length (get (fst jc) f))%nat
                             then (fst jc, get (fst jc) f) else jc) c1)
    end
  else Some c1.

(* ------------------------------------------------------------------ *)
(* unify_chunks_expr(args..): the decided `chunkss` (None = the call raises) *)
Definition early_map (o : operand) : chunkmap := rev (combine (o_ind o) (o_chunks o)).   (* dict(zip(..)): last wins *)

Definition unify_decide (qcmp : rat -> rat -> comparison) (pick : Z -> nat)
           (pol : policy) (limit : option Z) (ops : list operand) : option chunkmap :=
  match ops with
  | [] => Some []
  | o0 :: _ =>
      if forallb (fun o => zlist_eqb (o_ind o) (o_ind o0)) ops
         && forallb (fun o => zlist2_eqb (o_chunks o) (o_chunks o0)) ops
      then Some (early_map o0)
      else
        let ls := labels ops in
        let cons := match pol with
                    | PRefine => fun _ => common_blockdim
                    | _ => fun j => coarse_blockdim (pick j)
                    end in
        match bd_all cons ops ls with
        | None => None
        | Some c0 =>
            let fine := bd_all (fun _ => common_blockdim) ops ls in
            match (match pol with PAuto => auto_pass qcmp ops c0 fine | _ => Some c0 end) with
            | None => None
            | Some c1 =>
                match pol, limit with
                | PRefine, _ => Some c1
                | _, None => Some c1
                | _, Some l => if l =? 0 then Some c1        (* `if limit and ...`: 0 is falsy *)
                               else size_guard l ops c1 fine
                end
            end
        end
  end.

(* ------------------------------------------------------------------ *)
(* specification side *)

(* [c] is the layout of some operand axis labelled j *)
Definition operand_layout (ops : list operand) (j : Z) (c : list Z) : Prop :=
  exists o, In o ops /\ In (j, c) (combine (o_ind o) (o_chunks o)).

(* reversing every layout of every operand (what pushing [::-1] on every axis through the op does) *)
Definition rev_operand (o : operand) : operand :=
  mkop (o_name o) (o_ind o) (map (@rev Z) (o_chunks o)) (o_shape o) (o_nbytes o) (o_itemsize o).
Definition rev_map (m : chunkmap) : chunkmap := map (fun jc => (fst jc, rev (snd jc))) m.

(* boolean form of UnifyDecideFacts.wf_operand (well-formed operand: what callers establish) *)
Fixpoint nodupb (l : list Z) : bool :=
  match l with [] => true | x :: t => negb (existsb (Z.eqb x) t) && nodupb t end.
Definition wf_operand_b (dim : Z -> Z) (o : operand) : bool :=
  Nat.eqb (length (o_ind o)) (length (o_chunks o)) && Nat.eqb (length (o_chunks o)) (length (o_shape o))
  && nodupb (o_ind o) && (0 <=? o_itemsize o)
  && forallb (fun a => match ax_layout a with [] => false | _ => true end && all_pos (ax_layout a)
                       && (zsum (ax_layout a) =? ax_size a)
                       && ((ax_size a =? dim (ax_label a)) || (ax_size a =? 1))) (axes o).

Fixpoint chunkmap_eqb (a b : chunkmap) : bool :=
  match a, b with
  | [], [] => true
  | (j, c) :: a', (k, d) :: b' => (j =? k) && zlist_eqb c d && chunkmap_eqb a' b'
  | _, _ => false
  end.

(* dict equality with an expected dict given as a list with distinct keys *)
Definition same_dict (got : option chunkmap) (want : option chunkmap) : bool :=
  match got, want with
  | None, None => true
  | Some g, Some w =>
      forallb (fun jc => match lookup (fst jc) g with Some c => zlist_eqb c (snd jc) | None => false end) w
      && forallb (fun jc => match lookup (fst jc) w with Some _ => true | None => false end) g
  | _, _ => false
  end.
