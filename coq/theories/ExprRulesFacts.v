(* Soundness of the rewrite rules of ExprRules.v: each rule preserves the
   denoted array (aeq), for all shapes, indices and operand values. *)
From DA Require Import PyBase PyBaseFacts Slicing NormalizeFacts FuseFacts NdArray NdArrayFacts ExprRules.
From Coq Require Import ZifyBool.
Open Scope Z_scope.
Ltac Zify.zify_post_hook ::= Z.to_euclidean_division_equations.

(* ---------------------------------------------------------------------- *)
(* induction over expressions (children lists are nested) *)
Section ExprInd.
  Variable P : expr -> Prop.
  Hypothesis HLeaf : forall id shp c, P (ELeaf id shp c).
  Hypothesis HConst : forall id, P (EConst id).
  Hypothesis HSlice : forall e ix o, P e -> P (ESlice e ix o).
  Hypothesis HTr : forall e axes, P e -> P (ETranspose e axes).
  Hypothesis HEl : forall op args, Forall P args -> P (EElemwise op args).
  Hypothesis HRe : forall e s c p b pp, P e -> P (ERechunk e s c p b pp).
  Hypothesis HEx : forall e axes, P e -> P (EExpandDims e axes).
  Hypothesis HCo : forall e axis rest, P e -> Forall P rest -> P (EConcat e axis rest).
  Hypothesis HBr : forall e shp c, P e -> P (EBroadcastTo e shp c).
  Hypothesis HAr : forall a b c ch, P (EArange a b c ch).
  Hypothesis HSrc : forall s c r nd isz ot, P (ESource s c r nd isz ot).
  Hypothesis HSt : forall e axis rest, P e -> Forall P rest -> P (EStack e axis rest).
  Hypothesis HFu : forall id shp c, P (EFull id shp c).
  Hypothesis HTR : forall e c p, P e -> P (ETasksRechunk e c p).

  Fixpoint expr_ind' (e : expr) : P e :=
    match e with
    | ELeaf id shp c => HLeaf id shp c
    | EConst id => HConst id
    | ESlice e' ix o => HSlice e' ix o (expr_ind' e')
    | ETranspose e' axes => HTr e' axes (expr_ind' e')
    | EElemwise op args =>
        HEl op args ((fix go (l : list expr) : Forall P l :=
                        match l with
                        | [] => Forall_nil P
                        | x :: t => Forall_cons x (expr_ind' x) (go t)
                        end) args)
    | ERechunk e' s c p b pp => HRe e' s c p b pp (expr_ind' e')
    | EExpandDims e' axes => HEx e' axes (expr_ind' e')
    | EConcat e' axis rest =>
        HCo e' axis rest (expr_ind' e')
            ((fix go (l : list expr) : Forall P l :=
                match l with
                | [] => Forall_nil P
                | x :: t => Forall_cons x (expr_ind' x) (go t)
                end) rest)
    | EBroadcastTo e' shp c => HBr e' shp c (expr_ind' e')
    | EArange a b c ch => HAr a b c ch
    | ESource s c r nd isz ot => HSrc s c r nd isz ot
    | EStack e' axis rest =>
        HSt e' axis rest (expr_ind' e')
            ((fix go (l : list expr) : Forall P l :=
                match l with
                | [] => Forall_nil P
                | x :: t => Forall_cons x (expr_ind' x) (go t)
                end) rest)
    | EFull id shp c => HFu id shp c
    | ETasksRechunk e' c p => HTR e' c p (expr_ind' e')
    end.
End ExprInd.

(* ---------------------------------------------------------------------- *)
(* shapes *)
Lemma bdim_nonneg n m : 0 <= n -> 0 <= m -> 0 <= bdim n m.
Proof. unfold bdim. destruct (n =? 1); lia. Qed.

Lemma rbshape_nonneg a : forall b, nonneg_shape a -> nonneg_shape b -> nonneg_shape (rbshape a b).
Proof.
  unfold nonneg_shape. induction a as [|x a IH]; intros [|y b] Ha Hb; cbn [rbshape]; try assumption.
  inversion Ha; inversion Hb; subst. constructor; [apply bdim_nonneg; assumption | apply IH; assumption].
Qed.

Lemma nonneg_rev l : nonneg_shape l -> nonneg_shape (rev l).
Proof. unfold nonneg_shape. intros H. apply Forall_forall. intros x Hx. apply in_rev in Hx. rewrite Forall_forall in H. apply H. exact Hx. Qed.

Lemma bshape_nonneg a b : nonneg_shape a -> nonneg_shape b -> nonneg_shape (bshape a b).
Proof. intros Ha Hb. unfold bshape. apply nonneg_rev. apply rbshape_nonneg; apply nonneg_rev; assumption. Qed.

Lemma bshape_all_nonneg l : Forall nonneg_shape l -> nonneg_shape (bshape_all l).
Proof.
  induction 1 as [|s l Hs _ IH]; cbn [bshape_all fold_right]; [constructor|].
  apply bshape_nonneg; assumption.
Qed.

Lemma nth_nonneg l k : nonneg_shape l -> 0 <= nth k l 0.
Proof.
  unfold nonneg_shape. intros H. destruct (Nat.lt_ge_cases k (length l)) as [Hk|Hk].
  - rewrite Forall_forall in H. apply H. apply nth_In. exact Hk.
  - rewrite nth_overflow by exact Hk. lia.
Qed.

Lemma transpose_shape_nonneg axes shp : nonneg_shape shp -> nonneg_shape (transpose_shape axes shp).
Proof.
  intros H. unfold transpose_shape, pickn, nonneg_shape. apply Forall_forall. intros x Hx.
  apply in_map_iff in Hx. destruct Hx as (j & <- & _). apply nth_nonneg. exact H.
Qed.

Lemma expand_shape_from_nonneg fuel : forall pos axes shp, nonneg_shape shp -> nonneg_shape (expand_shape_from pos fuel axes shp).
Proof.
  unfold nonneg_shape. induction fuel as [|f IH]; intros pos axes shp H; cbn [expand_shape_from]; [constructor|].
  destruct (memn pos axes).
  - constructor; [lia | apply IH; exact H].
  - constructor.
    + destruct shp; cbn [hd]; [lia | inversion H; assumption].
    + apply IH. destruct shp; cbn [tl]; [constructor | inversion H; assumption].
Qed.

Lemma set_nth_nonneg k v l : 0 <= v -> nonneg_shape l -> nonneg_shape (set_nth k v l).
Proof.
  unfold nonneg_shape. revert k. induction l as [|x l IH]; intros k Hv H; cbn [set_nth]; [destruct k; constructor|].
  inversion H; subst. destruct k; constructor; try assumption. apply IH; assumption.
Qed.

Lemma zsum_map_nonneg {A} (f : A -> Z) l : (forall x, In x l -> 0 <= f x) -> 0 <= zsum (map f l).
Proof.
  induction l as [|x l IH]; intros H; cbn [map zsum]; [lia|].
  pose proof (H x (or_introl eq_refl)). assert (0 <= zsum (map f l)) by (apply IH; intros y Hy; apply H; right; exact Hy). lia.
Qed.

Lemma src_wfb_nonneg s : src_wfb s = true -> nonneg_shape (src_shape s).
Proof.
  induction s as [id shp|s IH r]; cbn [src_wfb src_shape]; intros H.
  - apply nonnegb_iff. exact H.
  - apply andb_true_iff in H. apply slice_shape_nonneg. apply IH. tauto.
Qed.

Lemma insert_at_nonneg k v l : 0 <= v -> nonneg_shape l -> nonneg_shape (insert_at k v l).
Proof.
  unfold nonneg_shape, insert_at. intros Hv H. rewrite <- (firstn_skipn k l) in H.
  apply Forall_app in H. destruct H as [H1 H2]. apply Forall_app. split; [exact H1 | constructor; assumption].
Qed.

Lemma wfb_nonneg e : wfb e = true -> nonneg_shape (eshape e).
Proof.
  induction e using expr_ind'; cbn [wfb eshape]; intros Hw.
  - apply nonnegb_iff. exact Hw.
  - constructor.
  - apply andb_true_iff in Hw. apply slice_shape_nonneg. apply IHe. tauto.
  - apply andb_true_iff in Hw. apply transpose_shape_nonneg. apply IHe. tauto.
  - apply andb_true_iff in Hw. destruct Hw as [Hw _]. apply bshape_all_nonneg.
    rewrite forallb_forall in Hw. apply Forall_forall. intros s Hs. apply in_map_iff in Hs.
    destruct Hs as (a & <- & Ha). rewrite Forall_forall in H. apply H; [exact Ha | apply Hw; exact Ha].
  - apply IHe. exact Hw.
  - apply andb_true_iff in Hw. destruct Hw as [Hw _]. apply andb_true_iff in Hw. destruct Hw as [Hw _].
    unfold expand_shape. apply expand_shape_from_nonneg. apply IHe. exact Hw.
  - repeat (apply andb_true_iff in Hw; destruct Hw as [Hw ?]).
    unfold concat_shape. apply set_nth_nonneg; [|apply IHe; exact Hw].
    apply zsum_map_nonneg. intros t Ht. apply nth_nonneg.
    destruct Ht as [<-|Ht]; [apply IHe; exact Hw|].
    apply in_map_iff in Ht. destruct Ht as (r & <- & Hr).
    rewrite Forall_forall in H. apply H; [exact Hr|].
    match goal with Hf : forallb wfb rest = true |- _ => rewrite forallb_forall in Hf; apply Hf; exact Hr end.
  - repeat (apply andb_true_iff in Hw; destruct Hw as [Hw ?]).
    apply nonnegb_iff. assumption.
  - constructor; [lia | constructor].
  - apply andb_true_iff in Hw. destruct Hw as [Hs _]. pose proof (src_wfb_nonneg s Hs).
    destruct r; [apply slice_shape_nonneg|]; assumption.
  - repeat (apply andb_true_iff in Hw; destruct Hw as [Hw ?]).
    apply insert_at_nonneg; [lia | apply IHe; exact Hw].
  - apply nonnegb_iff. exact Hw.
  - apply IHe. exact Hw.
Qed.

(* ---------------------------------------------------------------------- *)
(* R3 list-level facts: slicing through broadcasting *)
Lemma slice_len_le s n : 0 <= n -> step_of s <> 0 -> slice_len s n <= n.
Proof.
  intros Hn Hk. unfold slice_len. destruct (indices s n) as [[a b] k] eqn:Hi.
  destruct (indices_bounds s n a b k Hn Hi) as (Hstep & Hpos & Hneg).
  destruct (Z_lt_le_dec 0 k) as [Hkp|Hkn].
  - specialize (Hpos Hkp). rewrite range_len_pos_step by exact Hkp. destruct (a <? b) eqn:E; [|lia]. nia.
  - assert (k < 0) as Hk0 by lia. specialize (Hneg Hk0). rewrite range_len_neg_step by exact Hk0.
    destruct (b <? a) eqn:E; [|lia]. nia.
Qed.

Lemma slice_len_1 s : step_of s <> 0 -> slice_len s 1 = 0 \/ slice_len s 1 = 1.
Proof. intros Hk. pose proof (slice_len_le s 1 ltac:(lia) Hk). pose proof (slice_len_nonneg s 1). lia. Qed.

Lemma zip3_length {A B C D} (f : A -> B -> C -> D) a : forall b c,
  length a = length b -> length b = length c -> length (zip3 f a b c) = length b.
Proof.
  induction a as [|x a IH]; intros [|y b] [|z c] H1 H2; cbn [length] in *; try discriminate; [reflexivity|].
  cbn [zip3 length]. f_equal. apply IH; lia.
Qed.

Lemma zip3_app {A B C D} (f : A -> B -> C -> D) a : forall b c a' b' c',
  length a = length b -> length b = length c ->
  zip3 f (a ++ a') (b ++ b') (c ++ c') = zip3 f a b c ++ zip3 f a' b' c'.
Proof.
  induction a as [|x a IH]; intros [|y b] [|z c] a' b' c' H1 H2; cbn [length] in *; try discriminate; [reflexivity|].
  cbn [app zip3]. f_equal. apply IH; lia.
Qed.

Lemma zip3_trunc {A B C D} (f : A -> B -> C -> D) a : forall b c a' c',
  length a = length b -> length b = length c ->
  zip3 f (a ++ a') b (c ++ c') = zip3 f a b c.
Proof.
  intros b c a' c' H1 H2. rewrite <- (app_nil_r b) at 1. rewrite zip3_app by assumption.
  destruct a'; cbn [zip3]; apply app_nil_r.
Qed.

Lemma zip3_rev {A B C D} (f : A -> B -> C -> D) a : forall b c,
  length a = length b -> length b = length c ->
  rev (zip3 f a b c) = zip3 f (rev a) (rev b) (rev c).
Proof.
  induction a as [|x a IH]; intros [|y b] [|z c] H1 H2; cbn [length] in *; try discriminate; [reflexivity|].
  cbn [zip3 rev]. rewrite zip3_app by (rewrite !rev_length; lia). rewrite IH by lia. reflexivity.
Qed.

Lemma basicb_app a b : basicb (a ++ b) = basicb a && basicb b.
Proof. unfold basicb. apply forallb_app. Qed.

Lemma basicb_rev a : basicb (rev a) = basicb a.
Proof.
  induction a as [|x a IH]; [reflexivity|]. cbn [rev]. rewrite basicb_app, IH.
  unfold basicb. cbn [forallb]. rewrite andb_true_r. apply andb_comm.
Qed.

Lemma slice_shape_rev ix : forall shp, length ix = length shp -> basicb ix = true ->
  rev (slice_shape ix shp) = slice_shape (rev ix) (rev shp).
Proof.
  induction ix as [|i ix IH]; intros [|n shp] Hl Hb; cbn [length] in Hl; try discriminate; [reflexivity|].
  assert (basicb ix = true /\ basicb [i] = true) as [Hb1 Hb2].
  { change (i :: ix) with ([i] ++ ix) in Hb. rewrite basicb_app in Hb. apply andb_true_iff in Hb. tauto. }
  cbn [rev]. rewrite slice_shape_app by (rewrite ?rev_length, ?basicb_rev; try lia; exact Hb1).
  rewrite <- IH by (try lia; exact Hb1).
  change (i :: ix) with ([i] ++ ix). change (n :: shp) with ([n] ++ shp).
  rewrite slice_shape_app by (try reflexivity; exact Hb2). rewrite rev_app_distr. f_equal.
  destruct i; cbn [slice_shape hd tl rev app]; try reflexivity. discriminate.
Qed.

Lemma idx_okb_app ix1 : forall s1 ix2 s2, length ix1 = length s1 ->
  idx_okb (ix1 ++ ix2) (s1 ++ s2) = idx_okb ix1 s1 && idx_okb ix2 s2.
Proof.
  induction ix1 as [|i ix1 IH]; intros [|n s1] ix2 s2 Hl; cbn [length] in Hl; try discriminate; [reflexivity|].
  cbn [app idx_okb]. destruct i; try reflexivity; rewrite IH by lia; apply andb_assoc.
Qed.

Lemma idx_okb_rev ix : forall shp, idx_okb ix shp = true -> idx_okb (rev ix) (rev shp) = true.
Proof.
  induction ix as [|i ix IH]; intros [|n shp] H; cbn [idx_okb] in H; try discriminate; [reflexivity| |].
  - destruct i; discriminate.
  - assert (idx_okb [i] [n] = true /\ idx_okb ix shp = true) as [H1 H2].
    { cbn [idx_okb]. destruct i; try discriminate; apply andb_true_iff in H; rewrite andb_true_r; tauto. }
    cbn [rev]. rewrite idx_okb_app by (rewrite !rev_length; apply idx_okb_length; exact H2).
    rewrite IH by exact H2. exact H1.
Qed.

(* split an index along a split of the shape *)
Lemma idx_okb_split ix pre suf : idx_okb ix (pre ++ suf) = true ->
  exists ipre isuf, ix = ipre ++ isuf /\ length ipre = length pre /\
                    idx_okb ipre pre = true /\ idx_okb isuf suf = true.
Proof.
  intros H. pose proof (idx_okb_length _ _ H) as Hl. rewrite app_length in Hl.
  exists (firstn (length pre) ix), (skipn (length pre) ix).
  assert (length (firstn (length pre) ix) = length pre) as Hf by (rewrite firstn_length; lia).
  split; [symmetry; apply firstn_skipn|]. split; [exact Hf|].
  rewrite <- (firstn_skipn (length pre) ix) in H. rewrite idx_okb_app in H by exact Hf.
  apply andb_true_iff in H. exact H.
Qed.

Lemma elem_arg_index_split ipre isuf pre suf sa :
  length ipre = length pre -> length isuf = length suf -> length sa = length suf ->
  elem_arg_index (ipre ++ isuf) sa (pre ++ suf) = zip3 elem_axis_index isuf sa suf.
Proof.
  intros H1 H2 H3. unfold elem_arg_index. rewrite !lastn_app by lia. reflexivity.
Qed.

(* (G) the operand index of a result index *)
Lemma elem_core ixs : forall sa osuf out,
  compat sa osuf -> idx_okb ixs osuf = true -> in_bounds out (slice_shape ixs osuf) ->
  mask sa (slice_src ixs osuf out) =
  slice_src (zip3 elem_axis_index ixs sa osuf) sa
            (mask (slice_shape (zip3 elem_axis_index ixs sa osuf) sa) out).
Proof.
  induction ixs as [|i ixs IH]; intros [|n sa] [|m osuf] out Hc Hok Ho;
    cbn [compat idx_okb] in Hc, Hok; try (exfalso; tauto); try discriminate.
  - cbn [slice_shape in_bounds] in Ho. destruct out; [reflexivity | exfalso; exact Ho].
  - destruct i; discriminate.
  - destruct Hc as [Hnm Hc].
    destruct i as [z|s|]; try discriminate; apply andb_true_iff in Hok; destruct Hok as [Hi Hok];
      cbn [zip3]; unfold elem_axis_index; cbn [slice_shape slice_src hd tl] in *.
    + destruct (n =? 1) eqn:E; cbn [mask slice_shape slice_src hd tl]; rewrite E.
      * f_equal. apply IH; assumption.
      * assert (n = m) as -> by lia. f_equal. apply IH; assumption.
    + destruct out as [|j out]; cbn [in_bounds] in Ho; [exfalso; exact Ho|]. destruct Ho as [Hj Ho]. cbn [hd tl].
      destruct (n =? 1) eqn:E.
      * assert (n = 1) as -> by lia. destruct (slice_len s m =? 0) eqn:E0; [lia|].
        cbn [mask slice_shape slice_src hd tl]. rewrite slice_len_colon by lia.
        cbn [mask hd tl]. change (1 =? 1) with true. cbn iota. rewrite nthZ_sel_colon by lia.
        f_equal. apply IH; assumption.
      * assert (n = m) as -> by lia. cbn [mask slice_shape slice_src hd tl]. rewrite E. cbn [mask hd tl].
        destruct (slice_len s m =? 1) eqn:E1.
        -- assert (j = 0) as -> by lia. f_equal. apply IH; assumption.
        -- f_equal. apply IH; assumption.
Qed.

(* (BC) the sliced operand broadcasts into the sliced result *)
Lemma elem_compat ixs : forall sa osuf,
  compat sa osuf -> idx_okb ixs osuf = true ->
  compat (slice_shape (zip3 elem_axis_index ixs sa osuf) sa) (slice_shape ixs osuf).
Proof.
  induction ixs as [|i ixs IH]; intros [|n sa] [|m osuf] Hc Hok;
    cbn [compat idx_okb] in Hc, Hok; try (exfalso; tauto); try discriminate.
  - exact I.
  - destruct i; discriminate.
  - destruct Hc as [Hnm Hc].
    destruct i as [z|s|]; try discriminate; apply andb_true_iff in Hok; destruct Hok as [Hi Hok];
      cbn [zip3]; unfold elem_axis_index.
    + destruct (n =? 1); cbn [slice_shape hd tl]; apply IH; assumption.
    + assert (step_of s <> 0) as Hk by lia.
      destruct (n =? 1) eqn:E.
      * assert (n = 1) as -> by lia. destruct (slice_len s m =? 0) eqn:E0; cbn [slice_shape hd tl compat].
        -- split; [|apply IH; assumption]. destruct (slice_len_1 s Hk); lia.
        -- split; [|apply IH; assumption]. left. apply slice_len_colon. lia.
      * assert (n = m) as -> by lia. cbn [slice_shape hd tl compat]. split; [right; reflexivity | apply IH; assumption].
Qed.

(* (S) reversed world: the broadcast of the sliced operands is the sliced broadcast *)
Definition rsl (rix : list pidx) (ra ro : list Z) : list Z :=
  slice_shape (zip3 elem_axis_index rix ra ro) ra.

Lemma rbshape_nil_r a : rbshape a [] = a.
Proof. destruct a; reflexivity. Qed.

Lemma bdim_same x : bdim x x = x.
Proof. unfold bdim. destruct (x =? 1); reflexivity. Qed.

Definition edim (s : pslice) (n m : Z) : Z :=
  if n =? 1 then (if slice_len s m =? 0 then slice_len s 1 else 1) else slice_len s n.

Lemma elem_dim_slice s n m rest ra :
  slice_shape (elem_axis_index (ISlice s) n m :: rest) (n :: ra) = edim s n m :: slice_shape rest ra.
Proof.
  unfold elem_axis_index, edim. destruct (n =? 1) eqn:E; [|reflexivity].
  assert (n = 1) as -> by lia.
  destruct (slice_len s m =? 0); cbn [slice_shape hd tl]; [reflexivity|].
  rewrite slice_len_colon by lia. reflexivity.
Qed.

Lemma elem_dim_int z n m rest ra :
  slice_shape (elem_axis_index (IInt z) n m :: rest) (n :: ra) = slice_shape rest ra.
Proof. unfold elem_axis_index. destruct (n =? 1); reflexivity. Qed.

Lemma edim_bdim s n n' m :
  step_of s <> 0 -> (n = 1 \/ n = m) -> (n' = 1 \/ n' = m) ->
  bdim (edim s n m) (edim s n' m) = edim s (bdim n n') m.
Proof.
  intros Hk Hn Hn'. destruct (slice_len_1 s Hk) as [H1|H1]; destruct Hn as [->| ->], Hn' as [->| ->];
    unfold bdim, edim; change (1 =? 1) with true; cbn iota;
    repeat match goal with |- context [if ?c then _ else _] => destruct c eqn:? end; lia.
Qed.

Lemma rsl_rbshape rix : forall ra rb ro,
  idx_okb rix ro = true -> rbcast_intob ra ro = true -> rbcast_intob rb ro = true ->
  rbshape (rsl rix ra ro) (rsl rix rb ro) = rsl rix (rbshape ra rb) ro /\
  rbcast_intob (rbshape ra rb) ro = true.
Proof.
  induction rix as [|i rix IH]; intros ra rb [|m ro] Hok Ha Hb; cbn [idx_okb] in Hok; try discriminate.
  - destruct ra; [|discriminate]. destruct rb; [|discriminate]. split; reflexivity.
  - destruct i; discriminate.
  - destruct ra as [|n ra]; [split; [reflexivity | exact Hb]|].
    destruct rb as [|n' rb]; [split; [unfold rsl at 2; cbn [zip3 slice_shape]; apply rbshape_nil_r | exact Ha]|].
    cbn [rbcast_intob] in Ha, Hb. apply andb_true_iff in Ha, Hb. destruct Ha as [Hn Ha], Hb as [Hn' Hb].
    assert (idx_okb rix ro = true /\ (forall s, i = ISlice s -> step_of s <> 0) /\ i <> INone) as (Hok' & Hstep & Hnone).
    { destruct i as [z|s|]; try discriminate; apply andb_true_iff in Hok; destruct Hok as [Hi Hok];
        (split; [exact Hok|]); (split; [|discriminate]); intros s0 Hs0; try discriminate. injection Hs0 as <-. lia. }
    destruct (IH ra rb ro Hok' Ha Hb) as [IH1 IH2].
    split.
    2:{ cbn [rbshape rbcast_intob]. rewrite IH2, andb_true_r. unfold bdim. destruct (n =? 1) eqn:E; lia. }
    unfold rsl in *. cbn [rbshape zip3].
    destruct i as [z|s|]; [| |congruence].
    + rewrite !elem_dim_int. exact IH1.
    + rewrite !elem_dim_slice. cbn [rbshape]. rewrite IH1. f_equal.
      apply edim_bdim; [apply Hstep; reflexivity | lia | lia].
Qed.

Lemma rsl_self rix : forall ro, idx_okb rix ro = true -> rsl rix ro ro = slice_shape rix ro.
Proof.
  unfold rsl. induction rix as [|i rix IH]; intros [|m ro] Hok; cbn [idx_okb] in Hok; try discriminate; [reflexivity| |].
  - destruct i; discriminate.
  - destruct i as [z|s|]; try discriminate; apply andb_true_iff in Hok; destruct Hok as [Hi Hok];
      cbn [zip3]; unfold elem_axis_index.
    + destruct (m =? 1); cbn [slice_shape hd tl]; apply IH; exact Hok.
    + destruct (m =? 1) eqn:E.
      * assert (m = 1) as -> by lia. assert (step_of s <> 0) as Hk by lia.
        destruct (slice_len s 1 =? 0) eqn:E0; cbn [slice_shape hd tl]; rewrite IH by exact Hok; [reflexivity|].
        rewrite slice_len_colon by lia. destruct (slice_len_1 s Hk); [lia | congruence].
      * cbn [slice_shape hd tl]. rewrite IH by exact Hok. reflexivity.
Qed.

Definition rbshape_all (l : list (list Z)) : list Z := fold_right (fun s acc => rbshape (rev s) acc) [] l.

Lemma rev_bshape_all l : rev (bshape_all l) = rbshape_all l.
Proof.
  induction l as [|s l IH]; [reflexivity|]. cbn [bshape_all rbshape_all fold_right].
  fold (bshape_all l). fold (rbshape_all l). unfold bshape. rewrite rev_involutive, IH. reflexivity.
Qed.

Lemma elem_axis_basic i n m : i <> INone -> elem_axis_index i n m <> INone.
Proof. unfold elem_axis_index. destruct (n =? 1); [|tauto]. destruct i; try congruence. destruct (slice_len s m =? 0); congruence. Qed.

Lemma zip3_elem_basic ixs : forall sa o, basicb ixs = true -> basicb (zip3 elem_axis_index ixs sa o) = true.
Proof.
  induction ixs as [|i ixs IH]; intros [|n sa] [|m o] Hb; try reflexivity.
  cbn [basicb forallb] in Hb. apply andb_true_iff in Hb. destruct Hb as [Hi Hb].
  cbn [zip3 basicb forallb]. apply andb_true_iff. split; [|apply IH; exact Hb].
  assert (i <> INone) as Hn by (destruct i; congruence).
  pose proof (elem_axis_basic i n m Hn). destruct (elem_axis_index i n m); congruence.
Qed.

(* (C1) the sliced operand shape, reversed *)
Lemma elem_shape_rev ix sa o :
  bcast_into sa o -> idx_okb ix o = true ->
  rev (slice_shape (elem_arg_index ix sa o) sa) = rsl (rev ix) (rev sa) (rev o) /\
  length (elem_arg_index ix sa o) = length sa.
Proof.
  intros (pre & suf & -> & Hc) Hok.
  destruct (idx_okb_split ix pre suf Hok) as (ipre & isuf & -> & Hlp & Hokp & Hoks).
  pose proof (compat_length _ _ Hc) as Hls. pose proof (idx_okb_length _ _ Hoks) as Hli.
  rewrite elem_arg_index_split by lia.
  split; [|apply zip3_length; lia].
  rewrite slice_shape_rev by (rewrite ?zip3_length by lia; try reflexivity; apply zip3_elem_basic; apply (idx_okb_basic _ suf); exact Hoks).
  rewrite zip3_rev by lia. unfold rsl. rewrite !rev_app_distr.
  rewrite zip3_trunc by (rewrite !rev_length; lia). reflexivity.
Qed.

Lemma elem_shapes_bshape ix o (shapes : list (list Z)) :
  idx_okb ix o = true -> Forall (fun sa => bcast_intob sa o = true) shapes ->
  rbshape_all (map (fun sa => slice_shape (elem_arg_index ix sa o) sa) shapes)
    = rsl (rev ix) (rbshape_all shapes) (rev o) /\
  rbcast_intob (rbshape_all shapes) (rev o) = true.
Proof.
  intros Hok H. pose proof (idx_okb_rev _ _ Hok) as Hokr.
  induction H as [|sa shapes Hsa _ IH].
  { split; [|reflexivity]. cbn [map rbshape_all fold_right]. unfold rsl. destruct (rev ix); reflexivity. }
  destruct IH as [IH1 IH2]. cbn [map rbshape_all fold_right].
  fold (rbshape_all shapes). fold (rbshape_all (map (fun sa => slice_shape (elem_arg_index ix sa o) sa) shapes)).
  destruct (elem_shape_rev ix sa o (bcast_intob_spec _ _ Hsa) Hok) as [Hr _]. rewrite Hr, IH1.
  apply rsl_rbshape; assumption.
Qed.

Lemma elem_slice_shape ix (shapes : list (list Z)) :
  let o := bshape_all shapes in
  idx_okb ix o = true -> Forall (fun sa => bcast_intob sa o = true) shapes ->
  bshape_all (map (fun sa => slice_shape (elem_arg_index ix sa o) sa) shapes) = slice_shape ix o.
Proof.
  intros o Hok H. destruct (elem_shapes_bshape ix o shapes Hok H) as [H1 _].
  rewrite <- (rev_involutive (bshape_all _)), rev_bshape_all, H1.
  rewrite <- rev_bshape_all. fold o. rewrite rsl_self by (apply idx_okb_rev; exact Hok).
  rewrite <- slice_shape_rev by (try (apply idx_okb_length; exact Hok); apply (idx_okb_basic _ o); exact Hok).
  apply rev_involutive.
Qed.

(* (G) assembled *)
Lemma elem_bidx ix sa o out :
  bcast_into sa o -> idx_okb ix o = true -> in_bounds out (slice_shape ix o) ->
  bidx sa (slice_src ix o out) =
  slice_src (elem_arg_index ix sa o) sa (bidx (slice_shape (elem_arg_index ix sa o) sa) out).
Proof.
  intros (pre & suf & -> & Hc) Hok Ho.
  destruct (idx_okb_split ix pre suf Hok) as (ipre & isuf & -> & Hlp & Hokp & Hoks).
  pose proof (compat_length _ _ Hc) as Hls. pose proof (idx_okb_length _ _ Hoks) as Hli.
  pose proof (idx_okb_basic _ _ Hokp) as Hbp. pose proof (idx_okb_basic _ _ Hoks) as Hbs.
  rewrite elem_arg_index_split by lia.
  rewrite slice_shape_app in Ho by assumption.
  destruct (in_bounds_app_inv _ _ _ Ho) as [Ho1 Ho2].
  rewrite (slice_shape_length _ _ Hokp) in Ho1, Ho2.
  pose proof (in_bounds_length _ _ Ho) as Hlo. rewrite app_length, (slice_shape_length _ _ Hokp), (slice_shape_length _ _ Hoks) in Hlo.
  rewrite slice_src_app by assumption.
  unfold bidx. rewrite lastn_app.
  2:{ rewrite slice_src_length by exact Hbs. rewrite skipn_length. lia. }
  set (ia := zip3 elem_axis_index isuf sa suf).
  assert (length (slice_shape ia sa) = nslices isuf) as Hlia.
  { pose proof (elem_compat isuf sa suf Hc Hoks) as Hcc. fold ia in Hcc.
    rewrite (compat_length _ _ Hcc). apply slice_shape_length. exact Hoks. }
  rewrite (lastn_skipn out (nslices ipre)) by lia.
  apply elem_core; assumption.
Qed.

Lemma elem_bcast ix sa o :
  bcast_into sa o -> idx_okb ix o = true ->
  bcast_into (slice_shape (elem_arg_index ix sa o) sa) (slice_shape ix o).
Proof.
  intros (pre & suf & -> & Hc) Hok.
  destruct (idx_okb_split ix pre suf Hok) as (ipre & isuf & -> & Hlp & Hokp & Hoks).
  pose proof (compat_length _ _ Hc) as Hls. pose proof (idx_okb_length _ _ Hoks) as Hli.
  rewrite elem_arg_index_split by lia.
  rewrite slice_shape_app by (try assumption; apply (idx_okb_basic _ pre); exact Hokp).
  exists (slice_shape ipre pre), (slice_shape isuf suf). split; [reflexivity|].
  apply elem_compat; assumption.
Qed.

(* ---------------------------------------------------------------------- *)
(* R4 list-level facts: slicing through a transposition *)
Definition pos1 (i : pidx) (n e : Z) : Z :=
  match i with IInt z => posify_int n z | ISlice s => nthZ (sel s n) e | INone => 0 end.
Definition slen (i : pidx) (n : Z) : Z := match i with ISlice s => slice_len s n | _ => 0 end.
Definition rank (ix : list pidx) (d : nat) : nat := nslices (firstn d ix).
Definition dcolon : pidx := ISlice colon.

Lemma nth_tl {A} (l : list A) r d : nth r (tl l) d = nth (S r) l d.
Proof. destruct l; [destruct r; reflexivity | reflexivity]. Qed.

Lemma hd_nth {A} (l : list A) d : hd d l = nth 0 l d.
Proof. destruct l; reflexivity. Qed.

Lemma rank_cons_int z ix d : rank (IInt z :: ix) (S d) = rank ix d.
Proof. reflexivity. Qed.
Lemma rank_cons_slice s ix d : rank (ISlice s :: ix) (S d) = S (rank ix d).
Proof. reflexivity. Qed.

Lemma slice_src_nth ix : forall shp out d, basicb ix = true -> length ix = length shp -> (d < length ix)%nat ->
  nth d (slice_src ix shp out) 0 = pos1 (nth d ix dcolon) (nth d shp 0) (nth (rank ix d) out 0).
Proof.
  induction ix as [|i ix IH]; intros [|n shp] out d Hb Hl Hd; cbn [length] in Hl, Hd; try discriminate; [lia|].
  cbn [basicb forallb] in Hb. apply andb_true_iff in Hb. destruct Hb as [Hi Hb].
  destruct i as [z|s|]; try discriminate; cbn [slice_src hd tl].
  - destruct d as [|d]; [reflexivity|]. cbn [nth]. rewrite rank_cons_int. apply IH; [exact Hb | lia | lia].
  - destruct d as [|d]; cbn [nth].
    + unfold rank. cbn [firstn]. unfold nslices. cbn [filter length pos1]. rewrite hd_nth. reflexivity.
    + rewrite rank_cons_slice. rewrite IH by (try exact Hb; lia). rewrite nth_tl. reflexivity.
Qed.

Lemma rank_lt ix : forall k, (k < length ix)%nat -> is_sliceb (nth k ix dcolon) = true -> (rank ix k < nslices ix)%nat.
Proof.
  induction ix as [|i ix IH]; intros k Hk Hs; cbn [length] in Hk; [lia|].
  destruct k as [|k].
  - cbn [nth] in Hs. unfold rank, nslices. cbn [firstn filter length]. rewrite Hs. cbn [length]. lia.
  - cbn [nth] in Hs. specialize (IH k ltac:(lia) Hs).
    destruct i as [z|s|]; unfold rank, nslices in *; cbn [firstn filter is_sliceb length] in *; lia.
Qed.

Lemma rank_le ix : forall k, (rank ix k <= nslices ix)%nat.
Proof.
  induction ix as [|i ix IH]; intros k; [destruct k; unfold rank, nslices; cbn; lia|].
  destruct k as [|k]; [unfold rank, nslices; cbn [firstn filter length]; lia|].
  specialize (IH k). destruct i; unfold rank, nslices in *; cbn [firstn filter is_sliceb length] in *; lia.
Qed.

Lemma rank_surj ix : forall r, (r < nslices ix)%nat ->
  exists k, (k < length ix)%nat /\ is_sliceb (nth k ix dcolon) = true /\ rank ix k = r.
Proof.
  induction ix as [|i ix IH]; intros r Hr; [unfold nslices in Hr; cbn in Hr; lia|].
  destruct (is_sliceb i) eqn:Ei.
  - destruct r as [|r].
    + exists O. cbn [length nth]. split; [lia|]. split; [exact Ei | reflexivity].
    + assert (r < nslices ix)%nat as Hr' by (unfold nslices in *; cbn [filter] in Hr; rewrite Ei in Hr; cbn [length] in Hr; lia).
      destruct (IH r Hr') as (k & Hk & Hs & Hrk). exists (S k). cbn [length nth]. split; [lia|]. split; [exact Hs|].
      destruct i; try discriminate. rewrite rank_cons_slice. lia.
  - assert (r < nslices ix)%nat as Hr' by (unfold nslices in *; cbn [filter] in Hr; rewrite Ei in Hr; exact Hr).
    destruct (IH r Hr') as (k & Hk & Hs & Hrk). exists (S k). cbn [length nth]. split; [lia|]. split; [exact Hs|].
    unfold rank in *. cbn [firstn]. unfold nslices in *. cbn [filter]. rewrite Ei. exact Hrk.
Qed.

Lemma slice_shape_nth_rank ix : forall shp k, basicb ix = true -> length ix = length shp -> (k < length ix)%nat ->
  is_sliceb (nth k ix dcolon) = true ->
  nth (rank ix k) (slice_shape ix shp) 0 = slen (nth k ix dcolon) (nth k shp 0).
Proof.
  induction ix as [|i ix IH]; intros [|n shp] k Hb Hl Hk Hs; cbn [length] in Hl, Hk; try discriminate; [lia|].
  cbn [basicb forallb] in Hb. apply andb_true_iff in Hb. destruct Hb as [Hi Hb].
  destruct k as [|k]; cbn [nth] in *.
  - destruct i as [z|s|]; try discriminate. reflexivity.
  - destruct i as [z|s|]; try discriminate; cbn [slice_shape hd tl].
    + rewrite rank_cons_int. apply IH; [exact Hb | lia | lia | exact Hs].
    + rewrite rank_cons_slice. cbn [nth]. apply IH; [exact Hb | lia | lia | exact Hs].
Qed.

Lemma rank_all_slices ix : forallb is_sliceb ix = true -> forall k, (k <= length ix)%nat -> rank ix k = k.
Proof.
  induction ix as [|i ix IH]; intros H k Hk; cbn [length] in Hk.
  - assert (k = O) as -> by lia. reflexivity.
  - cbn [forallb] in H. apply andb_true_iff in H. destruct H as [Hi H].
    destruct k as [|k]; [reflexivity|]. destruct i; try discriminate. rewrite rank_cons_slice. f_equal. apply IH; [exact H | lia].
Qed.

(* remaining_dims *)
Lemma remaining_dims_nth axes : forall ix k, basicb ix = true -> length axes = length ix -> (k < length ix)%nat ->
  is_sliceb (nth k ix dcolon) = true ->
  nth (rank ix k) (remaining_dims axes ix) O = nth k axes O.
Proof.
  induction axes as [|a axes IH]; intros [|i ix] k Hb Hl Hk Hs; cbn [length] in Hl, Hk; try discriminate; [lia|].
  cbn [basicb forallb] in Hb. apply andb_true_iff in Hb. destruct Hb as [Hi Hb].
  destruct k as [|k]; cbn [nth] in *.
  - destruct i as [z|s|]; try discriminate. reflexivity.
  - destruct i as [z|s|]; try discriminate; cbn [remaining_dims is_int].
    + rewrite rank_cons_int. apply IH; [exact Hb | lia | lia | exact Hs].
    + rewrite rank_cons_slice. cbn [nth]. apply IH; [exact Hb | lia | lia | exact Hs].
Qed.

Lemma remaining_dims_length axes : forall ix, basicb ix = true -> length axes = length ix ->
  length (remaining_dims axes ix) = nslices ix.
Proof.
  induction axes as [|a axes IH]; intros [|i ix] Hb Hl; cbn [length] in Hl; try discriminate; [reflexivity|].
  cbn [basicb forallb] in Hb. apply andb_true_iff in Hb. destruct Hb as [Hi Hb].
  destruct i as [z|s|]; try discriminate; cbn [remaining_dims is_int]; unfold nslices; cbn [filter is_sliceb length];
    fold (nslices ix); rewrite <- (IH ix Hb) by lia; reflexivity.
Qed.


Lemma remaining_dims_In axes : forall ix d, basicb ix = true -> length axes = length ix ->
  (In d (remaining_dims axes ix) <->
   exists k, (k < length ix)%nat /\ nth k axes O = d /\ is_sliceb (nth k ix dcolon) = true).
Proof.
  induction axes as [|a axes IH]; intros [|i ix] d Hb Hl; cbn [length] in Hl; try discriminate.
  - cbn [remaining_dims In length]. split; [tauto|]. intros (k & Hk & _). lia.
  - cbn [basicb forallb] in Hb. apply andb_true_iff in Hb. destruct Hb as [Hi Hb].
    assert (In d (remaining_dims axes ix) <->
            exists k, (S k < length (i :: ix))%nat /\ nth (S k) (a :: axes) O = d /\ is_sliceb (nth (S k) (i :: ix) dcolon) = true) as Htl.
    { rewrite (IH ix d Hb) by lia. cbn [length nth]. split; intros (k & Hk & H1 & H2); exists k; (split; [lia|]); tauto. }
    destruct i as [z|s|]; try discriminate; cbn [remaining_dims is_int].
    + rewrite Htl. split.
      * intros (k & H). exists (S k). exact H.
      * intros ([|k] & Hk & H1 & H2); [cbn [nth is_sliceb] in H2; discriminate|]. exists k. tauto.
    + cbn [In]. rewrite Htl. split.
      * intros [<-|(k & H)]; [exists O; cbn [length nth is_sliceb]; repeat split; lia | exists (S k); exact H].
      * intros ([|k] & Hk & H1 & H2); [left; exact H1 | right; exists k; tauto].
Qed.

Lemma remaining_dims_incl axes : forall ix d, In d (remaining_dims axes ix) -> In d axes.
Proof.
  induction axes as [|a axes IH]; intros [|i ix] d H; cbn [remaining_dims] in H; try (destruct H; fail).
  destruct (is_int i); [right; apply (IH ix); exact H|].
  destruct H as [<-|H]; [left; reflexivity | right; apply (IH ix); exact H].
Qed.

Lemma remaining_dims_nodup axes : forall ix, NoDup axes -> NoDup (remaining_dims axes ix).
Proof.
  induction axes as [|a axes IH]; intros [|i ix] H; cbn [remaining_dims]; try constructor.
  inversion H as [|a0 l0 Ha H']; subst.
  destruct (is_int i); [apply IH; exact H'|].
  constructor; [|apply IH; exact H']. intros Hin. apply Ha. apply (remaining_dims_incl axes ix). exact Hin.
Qed.

(* counting *)
Lemma count_lt_0 l : count_lt 0 l = O.
Proof. unfold count_lt. induction l as [|x l IH]; [reflexivity|]. cbn [filter]. destruct (Nat.ltb x 0) eqn:E; [apply Nat.ltb_lt in E; lia | exact IH]. Qed.

Lemma count_lt_succ l : forall D, NoDup l ->
  count_lt (S D) l = (count_lt D l + (if memn D l then 1 else 0))%nat.
Proof.
  unfold count_lt, memn. induction l as [|x l IH]; intros D Hnd; [reflexivity|].
  inversion Hnd as [|x0 l0 Hx Hnd']; subst. specialize (IH D Hnd'). cbn [filter existsb].
  destruct (Nat.eqb D x) eqn:E.
  - apply Nat.eqb_eq in E. subst x.
    assert (existsb (Nat.eqb D) l = false) as Hm.
    { destruct (existsb (Nat.eqb D) l) eqn:Em; [|reflexivity]. apply existsb_exists in Em.
      destruct Em as (y & Hy & Ey). apply Nat.eqb_eq in Ey. subst y. contradiction. }
    rewrite Hm in IH.
    replace (Nat.ltb D (S D)) with true by (symmetry; apply Nat.ltb_lt; lia).
    replace (Nat.ltb D D) with false by (symmetry; apply Nat.ltb_ge; lia). cbn [orb length]. lia.
  - apply Nat.eqb_neq in E. cbn [orb].
    destruct (Nat.ltb x (S D)) eqn:E1, (Nat.ltb x D) eqn:E2; cbn [length];
      try apply Nat.ltb_lt in E1; try apply Nat.ltb_lt in E2; try apply Nat.ltb_ge in E1; try apply Nat.ltb_ge in E2; lia.
Qed.

Lemma count_lt_mono l D D' : (D <= D')%nat -> (count_lt D l <= count_lt D' l)%nat.
Proof.
  intros H. unfold count_lt. induction l as [|x l IH]; [cbn; lia|]. cbn [filter].
  destruct (Nat.ltb x D) eqn:E1, (Nat.ltb x D') eqn:E2; cbn [length];
    try apply Nat.ltb_lt in E1; try apply Nat.ltb_lt in E2; try apply Nat.ltb_ge in E1; try apply Nat.ltb_ge in E2; lia.
Qed.

Lemma count_lt_le_length l D : (count_lt D l <= length l)%nat.
Proof. unfold count_lt. induction l as [|x l IH]; [cbn; lia|]. cbn [filter]. destruct (Nat.ltb x D); cbn [length]; lia. Qed.

Lemma memn_In d l : memn d l = true <-> In d l.
Proof.
  unfold memn. rewrite existsb_exists. split.
  - intros (x & Hx & E). apply Nat.eqb_eq in E. subst x. exact Hx.
  - intros H. exists d. split; [exact H | apply Nat.eqb_refl].
Qed.

Lemma count_lt_all l n : (forall x, In x l -> (x < n)%nat) -> count_lt n l = length l.
Proof.
  intros H. unfold count_lt. induction l as [|x l IH]; [reflexivity|]. cbn [filter].
  replace (Nat.ltb x n) with true by (symmetry; apply Nat.ltb_lt; apply H; left; reflexivity).
  cbn [length]. f_equal. apply IH. intros y Hy. apply H. right. exact Hy.
Qed.

Lemma rank_succ ix : forall D, (D < length ix)%nat ->
  rank ix (S D) = (rank ix D + (if is_sliceb (nth D ix dcolon) then 1 else 0))%nat.
Proof.
  induction ix as [|i ix IH]; intros D HD; cbn [length] in HD; [lia|].
  destruct D as [|D].
  - unfold rank, nslices. cbn [firstn filter nth length]. destruct (is_sliceb i); reflexivity.
  - cbn [nth]. specialize (IH D ltac:(lia)).
    destruct i as [z|s|]; unfold rank, nslices in *; cbn [firstn filter is_sliceb length] in *; lia.
Qed.

Lemma rank_full ix : rank ix (length ix) = nslices ix.
Proof. unfold rank. rewrite firstn_all. reflexivity. Qed.

Lemma nodup_bounded_perm l : NoDup l -> (forall x, In x l -> (x < length l)%nat) -> is_permb l (length l) = true.
Proof.
  intros Hnd Hb. unfold is_permb. rewrite Nat.eqb_refl. cbn [andb].
  assert (incl l (seq 0 (length l))) as Hincl by (intros x Hx; apply in_seq; specialize (Hb x Hx); lia).
  assert (length (seq 0 (length l)) <= length l)%nat as Hle by (rewrite seq_length; lia).
  pose proof (NoDup_length_incl Hnd Hle Hincl) as Hrev.
  apply forallb_forall. intros d Hd. apply existsb_exists. exists d. split; [apply Hrev; exact Hd | apply Nat.eqb_refl].
Qed.

Lemma NoDup_map_inj_in {A B} (f : A -> B) l :
  (forall x y, In x l -> In y l -> f x = f y -> x = y) -> NoDup l -> NoDup (map f l).
Proof.
  intros Hinj Hnd. induction Hnd as [|x l Hx Hnd IH]; cbn [map]; constructor.
  - intros Hin. apply in_map_iff in Hin. destruct Hin as (y & Hy & Hyl).
    assert (y = x) as -> by (apply Hinj; [right; exact Hyl | left; reflexivity | exact Hy]). contradiction.
  - apply IH. intros a b Ha Hb. apply Hinj; right; assumption.
Qed.

Section SliceTranspose.
  Variable axes : list nat.
  Variable n : nat.
  Variable ix : list pidx.
  Hypothesis Hperm : is_permb axes n = true.
  Hypothesis Hlix : length ix = n.
  Hypothesis Hbasic : basicb ix = true.

  Definition t_iin := pickn dcolon ix (inv_axes axes).
  Definition t_rem := remaining_dims axes ix.
  Definition t_new_axes := map (fun d => count_lt d t_rem) t_rem.

  Lemma iin_length : length t_iin = n.
  Proof. unfold t_iin. rewrite pickn_length, inv_axes_length. apply (perm_len axes n Hperm). Qed.

  Lemma iin_nth d : (d < n)%nat -> nth d t_iin dcolon = nth (index_of d axes) ix dcolon.
  Proof.
    intros Hd. unfold t_iin. rewrite pickn_nth by (rewrite inv_axes_length, (perm_len axes n Hperm); exact Hd).
    rewrite inv_axes_nth by (rewrite (perm_len axes n Hperm); exact Hd). reflexivity.
  Qed.

  Lemma iin_at_axes k : (k < n)%nat -> nth (nth k axes O) t_iin dcolon = nth k ix dcolon.
  Proof.
    intros Hk. rewrite iin_nth by (apply (perm_nth_lt axes n Hperm); exact Hk).
    rewrite (perm_index_nth axes n Hperm) by exact Hk. reflexivity.
  Qed.

  Lemma iin_basic : basicb t_iin = true.
  Proof.
    unfold basicb. apply forallb_forall. intros x Hx. unfold t_iin, pickn in Hx. apply in_map_iff in Hx.
    destruct Hx as (j & <- & Hj).
    destruct (Nat.lt_ge_cases j (length ix)) as [Hlt|Hge].
    - unfold basicb in Hbasic. rewrite forallb_forall in Hbasic. apply Hbasic. apply nth_In. exact Hlt.
    - rewrite nth_overflow by exact Hge. reflexivity.
  Qed.

  Lemma rem_In d : In d t_rem <-> ((d < n)%nat /\ is_sliceb (nth d t_iin dcolon) = true).
  Proof.
    unfold t_rem. rewrite remaining_dims_In by (try exact Hbasic; rewrite (perm_len axes n Hperm); symmetry; exact Hlix).
    rewrite Hlix. split.
    - intros (k & Hk & <- & Hs). split; [apply (perm_nth_lt axes n Hperm); exact Hk|].
      rewrite iin_at_axes by exact Hk. exact Hs.
    - intros [Hd Hs]. exists (index_of d axes). split; [apply (perm_index_lt axes n Hperm); exact Hd|].
      split; [apply (perm_nth_index axes n Hperm); exact Hd|]. rewrite <- iin_nth by exact Hd. exact Hs.
  Qed.

  Lemma rem_nodup : NoDup t_rem.
  Proof. apply remaining_dims_nodup. apply (perm_nodup axes n Hperm). Qed.

  Lemma rem_length : length t_rem = nslices ix.
  Proof. apply remaining_dims_length; [exact Hbasic | rewrite (perm_len axes n Hperm); symmetry; exact Hlix]. Qed.

  (* the number of remaining (input) dims below D is the number of sliced input axes below D *)
  Lemma claimB D : (D <= n)%nat -> count_lt D t_rem = rank t_iin D.
  Proof.
    induction D as [|D IH]; intros HD; [rewrite count_lt_0; reflexivity|].
    rewrite count_lt_succ by apply rem_nodup. rewrite rank_succ by (rewrite iin_length; lia).
    rewrite IH by lia. f_equal.
    destruct (memn D t_rem) eqn:Em.
    - apply memn_In, rem_In in Em. destruct Em as [_ ->]. reflexivity.
    - destruct (is_sliceb (nth D t_iin dcolon)) eqn:Es; [|reflexivity].
      assert (memn D t_rem = true) as Hc by (apply memn_In, rem_In; split; [lia | exact Es]). congruence.
  Qed.

  Lemma nslices_iin : nslices t_iin = nslices ix.
  Proof.
    rewrite <- rank_full, iin_length, <- (claimB n) by lia. rewrite <- rem_length.
    apply count_lt_all. intros x Hx. apply rem_In in Hx. tauto.
  Qed.

  Lemma keyK k : (k < n)%nat -> is_sliceb (nth k ix dcolon) = true ->
    nth (rank ix k) t_new_axes O = rank t_iin (nth k axes O).
  Proof.
    intros Hk Hs. unfold t_new_axes.
    assert (rank ix k < length t_rem)%nat as Hr by (rewrite rem_length; apply rank_lt; [rewrite Hlix; exact Hk | exact Hs]).
    set (f := fun d : nat => count_lt d t_rem).
    rewrite (nth_indep _ O (f O)) by (rewrite map_length; exact Hr).
    rewrite (map_nth f). unfold f.
    replace (nth (rank ix k) t_rem O) with (nth k axes O).
    2:{ unfold t_rem. symmetry. apply remaining_dims_nth; try assumption; rewrite ?(perm_len axes n Hperm), ?Hlix; auto. }
    apply claimB. pose proof (perm_nth_lt axes n Hperm k Hk). lia.
  Qed.

  Lemma new_axes_perm : is_permb t_new_axes (nslices ix) = true.
  Proof.
    rewrite <- rem_length. replace (length t_rem) with (length t_new_axes) by (unfold t_new_axes; apply map_length).
    apply nodup_bounded_perm.
    - unfold t_new_axes. apply NoDup_map_inj_in; [|apply rem_nodup].
      intros x y Hx Hy E.
      assert (forall a b, In a t_rem -> (a < b)%nat -> (count_lt a t_rem < count_lt b t_rem)%nat) as Hstrict.
      { intros a b Ha Hab. pose proof (count_lt_succ t_rem a rem_nodup) as Hs.
        apply memn_In in Ha. rewrite Ha in Hs. pose proof (count_lt_mono t_rem (S a) b ltac:(lia)). lia. }
      destruct (Nat.lt_trichotomy x y) as [H|[H|H]]; [|exact H|].
      + pose proof (Hstrict x y Hx H). lia.
      + pose proof (Hstrict y x Hy H). lia.
    - intros r Hr. unfold t_new_axes in *. rewrite map_length. apply in_map_iff in Hr. destruct Hr as (d & <- & Hd).
      pose proof (count_lt_succ t_rem d rem_nodup) as Hs. apply memn_In in Hd. rewrite Hd in Hs.
      pose proof (count_lt_le_length t_rem (S d)). lia.
  Qed.

  (* the core: any axes permutation [na] of the result that satisfies K commutes *)
  Variable na : list nat.
  Variable sx : list Z.
  Hypothesis Hna : is_permb na (nslices ix) = true.
  Hypothesis HK : forall k, (k < n)%nat -> is_sliceb (nth k ix dcolon) = true ->
                  nth (rank ix k) na O = rank t_iin (nth k axes O).
  Hypothesis Hlsx : length sx = n.

  Lemma st_shape : slice_shape ix (transpose_shape axes sx) = transpose_shape na (slice_shape t_iin sx).
  Proof.
    unfold transpose_shape.
    assert (length (pickn 0 sx axes) = n) as HlS by (rewrite pickn_length; apply (perm_len axes n Hperm)).
    apply (nth_ext _ _ 0 0).
    - rewrite pickn_length, (perm_len na _ Hna).
      clear -Hbasic Hlix HlS. revert HlS. generalize (pickn 0 sx axes) as S. intros S HlS. subst n.
      revert S HlS. induction ix as [|i l IH]; intros [|m S] Hl; cbn [length] in Hl; try discriminate; [reflexivity|].
      cbn [basicb forallb] in Hbasic. apply andb_true_iff in Hbasic. destruct Hbasic as [Hi Hb].
      destruct i; try discriminate; unfold nslices; cbn [slice_shape hd tl filter is_sliceb length]; fold (nslices l);
        rewrite (IH Hb S) by lia; reflexivity.
    - intros r Hr.
      assert (r < nslices ix)%nat as Hr'.
      { revert Hr. clear -Hbasic Hlix HlS. revert HlS. generalize (pickn 0 sx axes) as S. intros S HlS. subst n.
        revert S HlS r. induction ix as [|i l IH]; intros [|m S] Hl r; cbn [length] in Hl; try discriminate; [cbn; lia|].
        cbn [basicb forallb] in Hbasic. apply andb_true_iff in Hbasic. destruct Hbasic as [Hi Hb].
        destruct i; try discriminate; unfold nslices; cbn [slice_shape hd tl filter is_sliceb length]; fold (nslices l).
        - apply (IH Hb S); lia.
        - destruct r; [lia|]. intros H. pose proof (IH Hb S ltac:(lia) r ltac:(lia)). lia. }
      destruct (rank_surj ix r Hr') as (k & Hk & Hs & <-). rewrite Hlix in Hk.
      rewrite slice_shape_nth_rank by (try exact Hbasic; try exact Hs; rewrite ?HlS, ?Hlix; auto).
      rewrite pickn_nth by (rewrite (perm_len axes n Hperm); exact Hk).
      rewrite pickn_nth by (rewrite (perm_len na _ Hna); apply rank_lt; [rewrite Hlix; exact Hk | exact Hs]).
      rewrite HK by assumption.
      pose proof (perm_nth_lt axes n Hperm k Hk) as Hd.
      rewrite slice_shape_nth_rank; try apply iin_basic; rewrite ?iin_length; try lia; rewrite iin_at_axes by exact Hk; [reflexivity | exact Hs].
  Qed.

  Lemma st_src out : length out = nslices ix ->
    transpose_src axes (slice_src ix (transpose_shape axes sx) out) = slice_src t_iin sx (transpose_src na out).
  Proof.
    intros Hlo. unfold transpose_src, transpose_shape.
    assert (length (pickn 0 sx axes) = n) as HlS by (rewrite pickn_length; apply (perm_len axes n Hperm)).
    apply (nth_ext _ _ 0 0).
    - rewrite pickn_length, inv_axes_length, (perm_len axes n Hperm).
      rewrite slice_src_length by apply iin_basic.
      rewrite iin_length, nslices_iin, pickn_length, inv_axes_length, (perm_len na _ Hna). lia.
    - intros d Hd. rewrite pickn_length, inv_axes_length, (perm_len axes n Hperm) in Hd.
      pose proof (perm_index_lt axes n Hperm d Hd) as Hk.
      rewrite pickn_nth by (rewrite inv_axes_length, (perm_len axes n Hperm); exact Hd).
      rewrite inv_axes_nth by (rewrite (perm_len axes n Hperm); exact Hd).
      rewrite slice_src_nth by (try exact Hbasic; rewrite ?HlS, ?Hlix; auto).
      rewrite slice_src_nth by (try apply iin_basic; rewrite ?iin_length; auto).
      rewrite iin_nth by exact Hd.
      rewrite pickn_nth by (rewrite (perm_len axes n Hperm); exact Hk).
      rewrite (perm_nth_index axes n Hperm) by exact Hd.
      destruct (nth (index_of d axes) ix dcolon) as [z|s|] eqn:Ei; cbn [pos1]; try reflexivity.
      f_equal.
      assert (is_sliceb (nth (index_of d axes) ix dcolon) = true) as Hs by (rewrite Ei; reflexivity).
      assert (rank t_iin d < nslices ix)%nat as Hrd.
      { rewrite <- nslices_iin. apply rank_lt; [rewrite iin_length; exact Hd|]. rewrite iin_nth by exact Hd. exact Hs. }
      rewrite pickn_nth by (rewrite inv_axes_length, (perm_len na _ Hna); exact Hrd).
      rewrite inv_axes_nth by (rewrite (perm_len na _ Hna); exact Hrd).
      pose proof (HK (index_of d axes) Hk Hs) as Hkk. rewrite (perm_nth_index axes n Hperm) in Hkk by exact Hd.
      rewrite <- Hkk. rewrite (perm_index_nth na _ Hna); [reflexivity|].
      apply rank_lt; [rewrite Hlix; exact Hk | exact Hs].
  Qed.
End SliceTranspose.

Lemma omap_Forall2 {A B} (f : A -> option B) l : forall l', omap f l = Some l' -> Forall2 (fun x y => f x = Some y) l l'.
Proof.
  induction l as [|x l IH]; intros l' H; cbn [omap] in H.
  - injection H as <-. constructor.
  - destruct (f x) as [y|] eqn:E; [|discriminate]. destruct (omap f l) as [r|]; [|discriminate].
    injection H as <-. constructor; [exact E | apply IH; reflexivity].
Qed.

Lemma pad_index_full ix n : length ix = n -> pad_index ix n = ix.
Proof. intros <-. unfold pad_index. rewrite Nat.sub_diag. apply app_nil_r. Qed.

(* ---------------------------------------------------------------------- *)
(* transposition through an element-wise operation (operands of full rank) *)
Fixpoint zipb (a b : list Z) : list Z :=
  match a, b with
  | x :: a', y :: b' => bdim x y :: zipb a' b'
  | _, _ => []
  end.

Lemma rbshape_same_len a : forall b, length a = length b -> rbshape a b = zipb a b.
Proof.
  induction a as [|x a IH]; intros [|y b] H; cbn [length] in H; try discriminate; [reflexivity|].
  cbn [rbshape zipb]. f_equal. apply IH. lia.
Qed.

Lemma zipb_app a : forall b a' b', length a = length b -> zipb (a ++ a') (b ++ b') = zipb a b ++ zipb a' b'.
Proof.
  induction a as [|x a IH]; intros [|y b] a' b' H; cbn [length] in H; try discriminate; [reflexivity|].
  cbn [app zipb]. f_equal. apply IH. lia.
Qed.

Lemma zipb_rev a : forall b, length a = length b -> rev (zipb a b) = zipb (rev a) (rev b).
Proof.
  induction a as [|x a IH]; intros [|y b] H; cbn [length] in H; try discriminate; [reflexivity|].
  cbn [zipb rev]. rewrite zipb_app by (rewrite !rev_length; lia). rewrite IH by lia. reflexivity.
Qed.

Lemma bshape_same_len a b : length a = length b -> bshape a b = zipb a b.
Proof.
  intros H. unfold bshape. rewrite rbshape_same_len by (rewrite !rev_length; exact H).
  rewrite zipb_rev by (rewrite !rev_length; exact H). rewrite !rev_involutive. reflexivity.
Qed.

Lemma bshape_nil_l b : bshape [] b = b.
Proof. unfold bshape. cbn [rev rbshape]. apply rev_involutive. Qed.

Lemma bshape_nil_r a : bshape a [] = a.
Proof. unfold bshape. cbn [rev]. rewrite rbshape_nil_r. apply rev_involutive. Qed.

Lemma zipb_length a : forall b, length a = length b -> length (zipb a b) = length a.
Proof.
  induction a as [|x a IH]; intros [|y b] H; cbn [length] in H; try discriminate; [reflexivity|].
  cbn [zipb length]. f_equal. apply IH. lia.
Qed.

Lemma zipb_nth a : forall b j, length a = length b -> nth j (zipb a b) 0 = bdim (nth j a 0) (nth j b 0).
Proof.
  induction a as [|x a IH]; intros [|y b] j H; cbn [length] in H; try discriminate.
  - destruct j; reflexivity.
  - destruct j; cbn [zipb nth]; [reflexivity|]. apply IH. lia.
Qed.

Lemma zipb_pickn a b axes : length a = length b ->
  pickn 0 (zipb a b) axes = zipb (pickn 0 a axes) (pickn 0 b axes).
Proof.
  intros H. induction axes as [|j axes IH]; [reflexivity|].
  cbn [pickn map zipb]. fold (pickn 0 (zipb a b) axes) (pickn 0 a axes) (pickn 0 b axes).
  rewrite zipb_nth by exact H. f_equal. exact IH.
Qed.

Definition tr_rel (axes : list nat) (s s' : list Z) : Prop :=
  (s = [] /\ s' = []) \/ (length s = length axes /\ s' = pickn 0 s axes).

Lemma tr_rel_bshape_all axes shapes : forall shapes',
  Forall2 (tr_rel axes) shapes shapes' -> tr_rel axes (bshape_all shapes) (bshape_all shapes').
Proof.
  intros shapes' H. induction H as [|s s' l l' Hs _ IH]; [left; split; reflexivity|].
  cbn [bshape_all fold_right]. fold (bshape_all l) (bshape_all l').
  destruct Hs as [[-> ->]|[Hl ->]].
  - rewrite !bshape_nil_l. exact IH.
  - destruct IH as [[-> ->]|[Hl2 ->]].
    + rewrite !bshape_nil_r. right. split; [exact Hl | reflexivity].
    + right. rewrite bshape_same_len by lia. split; [rewrite zipb_length; lia|].
      rewrite bshape_same_len by (rewrite !pickn_length; reflexivity).
      symmetry. apply zipb_pickn. lia.
Qed.

Lemma mask_length sa : forall out, length sa = length out -> length (mask sa out) = length sa.
Proof.
  induction sa as [|n sa IH]; intros [|i out] H; cbn [length] in H; try discriminate; [reflexivity|].
  cbn [mask length]. f_equal. apply IH. lia.
Qed.

Lemma mask_nth sa : forall out d, length sa = length out ->
  nth d (mask sa out) 0 = if nth d sa 0 =? 1 then 0 else nth d out 0.
Proof.
  induction sa as [|n sa IH]; intros [|i out] d H; cbn [length] in H; try discriminate.
  - destruct d; reflexivity.
  - destruct d; cbn [mask nth]; [reflexivity|]. apply IH. lia.
Qed.

Lemma lastn_full {A} (l : list A) : lastn (length l) l = l.
Proof. unfold lastn. rewrite Nat.sub_diag. reflexivity. Qed.

Lemma mask_transpose axes n sa out :
  is_permb axes n = true -> length sa = n -> length out = n ->
  mask sa (transpose_src axes out) = transpose_src axes (mask (transpose_shape axes sa) out).
Proof.
  intros Hp Hsa Hout. unfold transpose_src, transpose_shape.
  assert (length (pickn 0 out (inv_axes axes)) = n) as H1 by (rewrite pickn_length, inv_axes_length; apply (perm_len axes n Hp)).
  assert (length (pickn 0 sa axes) = n) as H2 by (rewrite pickn_length; apply (perm_len axes n Hp)).
  apply (nth_ext _ _ 0 0).
  - rewrite mask_length by lia. rewrite pickn_length, inv_axes_length, (perm_len axes n Hp). exact Hsa.
  - intros d Hd. rewrite mask_length in Hd by lia. rewrite Hsa in Hd.
    pose proof (perm_index_lt axes n Hp d Hd) as Hk.
    rewrite mask_nth by lia.
    rewrite !pickn_nth by (rewrite inv_axes_length, (perm_len axes n Hp); exact Hd).
    rewrite inv_axes_nth by (rewrite (perm_len axes n Hp); exact Hd).
    rewrite mask_nth by lia.
    rewrite pickn_nth by (rewrite (perm_len axes n Hp); exact Hk).
    rewrite (perm_nth_index axes n Hp) by exact Hd. reflexivity.
Qed.

(* ---------------------------------------------------------------------- *)
(* R9 list-level facts: regions of a FromArray *)
Lemma unit_step_cases s : unit_step s = true -> s_step s = None \/ s_step s = Some 1.
Proof. unfold unit_step. destruct (s_step s) as [k|]; [|left; reflexivity]. intros H. right. f_equal. lia. Qed.

Lemma unit_step_of s : unit_step s = true -> step_of s = 1.
Proof. intros H. unfold step_of. destruct (unit_step_cases s H) as [-> | ->]; reflexivity. Qed.

(* a unit-step slice that keeps the whole axis is the full slice *)
Lemma unit_full_sel s n : 0 <= n -> unit_step s = true -> slice_len s n = n -> sel s n = sel colon n.
Proof.
  intros Hn Hu Hl. destruct (indices_unit s n Hn (unit_step_cases s Hu)) as (A & B & Hi & HA & HB).
  unfold slice_len in Hl. rewrite Hi in Hl. rewrite range_len_unit in Hl.
  destruct (sel_colon n Hn) as [Hc _]. rewrite Hc. unfold sel. rewrite Hi.
  replace A with 0 by lia. replace B with n by lia. reflexivity.
Qed.

Lemma region_full r : forall shp, nonneg_shape shp -> region_okb r shp = true ->
  zip2 slice_len r shp = shp ->
  slice_shape (map ISlice r) shp = shp /\
  forall out, in_bounds out shp -> slice_src (map ISlice r) shp out = out.
Proof.
  induction r as [|s r IH]; intros [|n shp] Hn Hok Hz; unfold region_okb in Hok; apply andb_true_iff in Hok;
    destruct Hok as [Hok Hu]; cbn [map idx_okb] in Hok; try discriminate.
  - split; [reflexivity|]. intros; reflexivity.
  - inversion Hn as [|n0 l0 Hn0 Hn']; subst.
    apply andb_true_iff in Hok. destruct Hok as [Hk Hok]. cbn [forallb] in Hu. apply andb_true_iff in Hu. destruct Hu as [Hu1 Hu].
    cbn [zip2] in Hz. injection Hz as Hz1 Hz2.
    destruct (IH shp Hn') as [Hs Hg]; [unfold region_okb; rewrite Hok, Hu; reflexivity | exact Hz2 |].
    pose proof (unit_full_sel s n Hn0 Hu1 Hz1) as Hsel.
    cbn [map slice_shape slice_src hd tl]. rewrite Hz1, Hs. split; [reflexivity|].
    intros [|j out] Ho; cbn [in_bounds] in Ho; [tauto|]. cbn [hd tl]. rewrite Hsel, nthZ_sel_colon by tauto.
    f_equal. apply Hg. tauto.
Qed.

Lemma compose_slices_unit outer inner n :
  0 <= n -> unit_step outer = true -> unit_step inner = true -> unit_step (compose_slices outer inner n) = true.
Proof.
  intros Hn Ho Hi. destruct (indices_unit outer n Hn (unit_step_cases _ Ho)) as (A & B & HO & _).
  unfold compose_slices. rewrite HO.
  destruct (indices_unit inner (range_len A B 1) (range_len_nonneg _ _ _) (unit_step_cases _ Hi)) as (C & E & HI & _).
  rewrite HI. cbn [Z.eqb Pos.eqb negb orb]. reflexivity.
Qed.

(* N-d composition of regions *)
Lemma compose_regions old : forall new shp,
  nonneg_shape shp -> region_okb old shp = true ->
  region_okb new (slice_shape (map ISlice old) shp) = true ->
  let comp := zip3 compose_slices old new shp in
  region_okb comp shp = true /\
  slice_shape (map ISlice comp) shp = slice_shape (map ISlice new) (slice_shape (map ISlice old) shp) /\
  forall out, in_bounds out (slice_shape (map ISlice comp) shp) ->
    slice_src (map ISlice comp) shp out =
    slice_src (map ISlice old) shp (slice_src (map ISlice new) (slice_shape (map ISlice old) shp) out).
Proof.
  induction old as [|o old IH]; intros new [|n shp] Hn Hold Hnew; unfold region_okb in Hold, Hnew;
    apply andb_true_iff in Hold; destruct Hold as [Hold Huo]; cbn [map idx_okb] in Hold; try discriminate.
  - cbn [map slice_shape] in Hnew. apply andb_true_iff in Hnew. destruct Hnew as [Hnew _].
    destruct new; [|discriminate]. cbn. repeat split; reflexivity.
  - inversion Hn as [|n0 l0 Hn0 Hn']; subst.
    apply andb_true_iff in Hold. destruct Hold as [Hko Hold]. cbn [forallb] in Huo. apply andb_true_iff in Huo. destruct Huo as [Huo1 Huo].
    cbn [map slice_shape hd tl] in Hnew. apply andb_true_iff in Hnew. destruct Hnew as [Hnew Hun].
    destruct new as [|i new]; [discriminate|]. cbn [map idx_okb] in Hnew. apply andb_true_iff in Hnew. destruct Hnew as [Hki Hnew].
    cbn [forallb] in Hun. apply andb_true_iff in Hun. destruct Hun as [Hui1 Hun].
    destruct (IH new shp Hn') as (Hc & Hs & Hg);
      [unfold region_okb; rewrite Hold, Huo; reflexivity | unfold region_okb; rewrite Hnew, Hun; reflexivity |].
    pose proof (compose_slices_unit_exact o i n Hn0 (unit_step_cases _ Huo1) (unit_step_cases _ Hui1)) as Hex.
    pose proof (compose_slices_unit o i n Hn0 Huo1 Hui1) as Hcu.
    assert (slice_len (compose_slices o i n) n = slice_len i (slice_len o n)) as Hlen.
    { rewrite <- (slice_len_length (compose_slices o i n) n), Hex, pick_length. apply slice_len_length. }
    cbn zeta in *. cbn [zip3 map slice_shape slice_src hd tl].
    unfold region_okb in Hc. apply andb_true_iff in Hc. destruct Hc as [Hc1 Hc2].
    split; [|split].
    + unfold region_okb. cbn [map idx_okb forallb]. rewrite Hc1, Hc2, Hcu, (unit_step_of _ Hcu). reflexivity.
    + rewrite Hlen, Hs. reflexivity.
    + intros [|j out] Ho; cbn [in_bounds] in Ho; [tauto|]. destruct Ho as [Hj Ho]. cbn [hd tl].
      rewrite Hg by exact Ho. f_equal. unfold nthZ. rewrite Hex. rewrite pick_nth; [reflexivity|].
      pose proof (slice_len_length i (slice_len o n)). lia.
Qed.

(* integers read as size-1 regions and extracted by [0] *)
Lemma int_slice_sel z n : 0 <= z < n ->
  sel (mkslice (Some z) (Some (z + 1)) None) n = [z] /\ slice_len (mkslice (Some z) (Some (z + 1)) None) n = 1.
Proof.
  intros Hz. unfold sel, slice_len. rewrite (indices_inbounds z (z + 1) n) by lia.
  split.
  - unfold zrange. rewrite range_len_unit. replace (Z.max (z + 1 - z) 0) with 1 by lia. change (Z.to_nat 1) with 1%nat. cbn [seq map Z.of_nat]. f_equal. lia.
  - rewrite range_len_unit. lia.
Qed.

Lemma int_split ix : forall shp ri,
  nonneg_shape shp -> idx_okb ix shp = true -> ints_nonnegb ix = true ->
  forallb (fun i => match i with ISlice t => unit_step t | _ => true end) ix = true ->
  omap int_to_slice ix = Some ri ->
  region_okb ri shp = true /\
  idx_okb (extract_index ix) (slice_shape (map ISlice ri) shp) = true /\
  slice_shape (extract_index ix) (slice_shape (map ISlice ri) shp) = slice_shape ix shp /\
  forall out, in_bounds out (slice_shape ix shp) ->
    slice_src (map ISlice ri) shp (slice_src (extract_index ix) (slice_shape (map ISlice ri) shp) out)
    = slice_src ix shp out.
Proof.
  induction ix as [|i ix IH]; intros [|n shp] ri Hn Hok Hnn Hu Hri; cbn [idx_okb] in Hok; try discriminate.
  - cbn [omap] in Hri. injection Hri as <-. cbn. repeat split; reflexivity.
  - destruct i; discriminate.
  - inversion Hn as [|n0 l0 Hn0 Hn']; subst.
    cbn [omap] in Hri. destruct (int_to_slice i) as [t|] eqn:Et; [|discriminate].
    destruct (omap int_to_slice ix) as [r|] eqn:Er; [|discriminate]. injection Hri as <-.
    cbn [forallb] in Hu. apply andb_true_iff in Hu. destruct Hu as [Hu1 Hu].
    destruct i as [z|s|]; try discriminate; apply andb_true_iff in Hok; destruct Hok as [Hi Hok]; cbn [int_to_slice] in Et; injection Et as <-.
    + cbn [ints_nonnegb] in Hnn. apply andb_true_iff in Hnn. destruct Hnn as [Hz Hnn].
      destruct (IH shp r Hn' Hok Hnn Hu eq_refl) as (H1 & H2 & H3 & H4).
      assert (0 <= z < n) as Hzr by (unfold check_int in Hi; lia).
      destruct (int_slice_sel z n Hzr) as [Hsel Hlen].
      unfold region_okb in *. apply andb_true_iff in H1. destruct H1 as [H1a H1b].
      cbn [map idx_okb forallb extract_index is_int slice_shape slice_src hd tl]. fold (extract_index ix).
      rewrite Hlen. cbn [idx_okb slice_shape slice_src hd tl]. rewrite H1a, H1b, H2, H3.
      repeat split; try reflexivity.
      intros out Ho. rewrite H4 by exact Ho. f_equal.
      rewrite Hsel. unfold posify_int. cbn. destruct (z <? 0) eqn:E; [lia | reflexivity].
    + cbn [ints_nonnegb] in Hnn.
      destruct (IH shp r Hn' Hok Hnn Hu eq_refl) as (H1 & H2 & H3 & H4).
      unfold region_okb in *. apply andb_true_iff in H1. destruct H1 as [H1a H1b].
      pose proof (slice_len_nonneg s n) as HL.
      cbn [map idx_okb forallb extract_index is_int slice_shape slice_src hd tl]. fold (extract_index ix).
      rewrite slice_len_colon by exact HL. rewrite H1a, H1b, H2, H3, Hi, Hu1.
      repeat split; try reflexivity.
      intros [|j out] Ho; cbn [in_bounds] in Ho; [tauto|]. destruct Ho as [Hj Ho]. cbn [hd tl].
      rewrite nthZ_sel_colon by exact Hj. rewrite H4 by exact Ho. reflexivity.
Qed.

Lemma int_to_slice_no_int ix : forall ri, existsb is_int ix = false -> omap int_to_slice ix = Some ri -> map ISlice ri = ix.
Proof.
  induction ix as [|i ix IH]; intros ri He H; cbn [omap] in H.
  - injection H as <-. reflexivity.
  - cbn [existsb] in He. apply orb_false_iff in He. destruct He as [He1 He].
    destruct (int_to_slice i) as [t|] eqn:Et; [|discriminate].
    destruct (omap int_to_slice ix) as [r|] eqn:Er; [|discriminate]. injection H as <-.
    destruct i; try discriminate. cbn [int_to_slice] in Et. injection Et as <-. cbn [map]. f_equal. apply IH; [exact He | reflexivity].
Qed.

(* ---------------------------------------------------------------------- *)
(* R7 list-level facts: slicing through expand_dims *)
Lemma accepted_len1 s : step_of s <> 0 -> start_ok1 s = true ->
  (let '(a, b, _) := indices s 1 in (b <=? a) = false) -> slice_len s 1 = 1.
Proof.
  intros Hk Hn Hacc. unfold start_ok1 in Hn.
  unfold slice_len. destruct (indices s 1) as [[a b] k] eqn:Hi.
  destruct (indices_bounds s 1 a b k ltac:(lia) Hi) as (Hstep & Hpos & Hneg).
  destruct (Z_lt_le_dec 0 k) as [Hkp|Hkn].
  - specialize (Hpos Hkp). assert (a = 0) by lia. assert (b = 1) by lia. subst a b.
    rewrite range_len_pos_step by exact Hkp. change (0 <? 1) with true. cbn iota.
    replace (1 - 0 - 1) with 0 by lia. rewrite Z.div_0_l by lia. reflexivity.
  - assert (k < 0) as Hk0 by lia. specialize (Hneg Hk0). lia.
Qed.

Section ExpandSlice.
  Variable axes : list nat.

  (* the shape and the source index of Slice(ExpandDims(x, axes), ix), walked directly *)
  Fixpoint xs_shape (pos : nat) (ix : list pidx) (sx : list Z) : list Z :=
    match ix with
    | [] => []
    | i :: ix' =>
        if memn pos axes then
          match i with IInt _ => xs_shape (S pos) ix' sx | _ => 1 :: xs_shape (S pos) ix' sx end
        else
          match i with
          | IInt _ => xs_shape (S pos) ix' (tl sx)
          | ISlice s => slice_len s (hd 0 sx) :: xs_shape (S pos) ix' (tl sx)
          | INone => []
          end
    end.

  Fixpoint xs_src (pos : nat) (ix : list pidx) (sx out : list Z) : list Z :=
    match ix with
    | [] => []
    | i :: ix' =>
        if memn pos axes then
          match i with IInt _ => xs_src (S pos) ix' sx out | _ => xs_src (S pos) ix' sx (tl out) end
        else
          match i with
          | IInt z => posify_int (hd 0 sx) z :: xs_src (S pos) ix' (tl sx) out
          | ISlice s => nthZ (sel s (hd 0 sx)) (hd 0 out) :: xs_src (S pos) ix' (tl sx) (tl out)
          | INone => []
          end
    end.

  (* before: Slice(ExpandDims(x, axes), ix) *)
  Lemma xs_before ix : forall pos sx iin,
    idx_okb ix (expand_shape_from pos (length ix) axes sx) = true -> xnormb axes pos ix = true ->
    expand_input_index pos axes ix = Some iin ->
    slice_shape ix (expand_shape_from pos (length ix) axes sx) = xs_shape pos ix sx /\
    forall out, length out = length (xs_shape pos ix sx) ->
      drop_axes_from pos axes (slice_src ix (expand_shape_from pos (length ix) axes sx) out) = xs_src pos ix sx out.
  Proof.
    induction ix as [|i ix IH]; intros pos sx iin Hok Hnorm Hacc.
    { split; [reflexivity|]. intros out Ho. destruct out; [reflexivity | discriminate]. }
    cbn [length expand_shape_from] in *. cbn [xnormb] in Hnorm. apply andb_true_iff in Hnorm. destruct Hnorm as [Hn1 Hnorm].
    cbn [expand_input_index] in Hacc. cbn [xs_shape xs_src].
    destruct (memn pos axes) eqn:Em.
    - destruct i as [z|s|]; cbn [idx_okb] in Hok; try discriminate; apply andb_true_iff in Hok; destruct Hok as [Hi Hok].
      + destruct ((z =? 0) || (z =? -1)); [|discriminate].
        destruct (IH (S pos) sx iin Hok Hnorm Hacc) as [Hs Hg].
        cbn [slice_shape slice_src hd tl drop_axes_from]. rewrite Em. split; [exact Hs | intros out Ho; apply Hg; exact Ho].
      + assert (slice_len s 1 = 1) as Hl.
        { destruct (pslice_eqb s colon) eqn:Ec; [apply pslice_eqb_eq in Ec; subst s; apply slice_len_colon; lia|].
          apply accepted_len1; [lia | exact Hn1|].
          destruct (indices s 1) as [[a b] k]. destruct (b <=? a); [discriminate | reflexivity]. }
        assert (expand_input_index (S pos) axes ix = Some iin) as Hacc'.
        { destruct (pslice_eqb s colon); [exact Hacc|]. destruct (indices s 1) as [[a b] k]. destruct (b <=? a); [discriminate | exact Hacc]. }
        destruct (IH (S pos) sx iin Hok Hnorm Hacc') as [Hs Hg].
        cbn [slice_shape slice_src hd tl drop_axes_from]. rewrite Em, Hl, Hs. split; [reflexivity|].
        intros out Ho. apply Hg. destruct out; cbn [length tl] in *; lia.
    - destruct (expand_input_index (S pos) axes ix) as [iin'|] eqn:Ea; [|discriminate].
      destruct i as [z|s|]; cbn [idx_okb] in Hok; try discriminate; apply andb_true_iff in Hok; destruct Hok as [Hi Hok];
        destruct (IH (S pos) (tl sx) iin' Hok Hnorm Ea) as [Hs Hg];
        cbn [slice_shape slice_src hd tl drop_axes_from]; rewrite Em, Hs; (split; [reflexivity|]); intros out Ho; rewrite Hg; try reflexivity.
      + exact Ho.
      + destruct out; cbn [length tl] in *; lia.
  Qed.

  Lemma new_axes_ge ix : forall pos removed r, (removed <= pos)%nat ->
    In r (expand_new_axes pos removed axes ix) -> (pos - removed <= r)%nat.
  Proof.
    induction ix as [|i ix IH]; intros pos removed r Hle Hin; [destruct Hin|].
    cbn [expand_new_axes] in Hin. destruct (is_int i).
    - specialize (IH (S pos) (S removed) r ltac:(lia) Hin). lia.
    - destruct (memn pos axes).
      + destruct Hin as [<-|Hin]; [lia|]. specialize (IH (S pos) removed r ltac:(lia) Hin). lia.
      + specialize (IH (S pos) removed r ltac:(lia) Hin). lia.
  Qed.

  Lemma memn_app x l1 l2 : memn x (l1 ++ l2) = memn x l1 || memn x l2.
  Proof. unfold memn. apply existsb_app. Qed.

  Lemma memn_false_lt x l : (forall y, In y l -> (y < x)%nat) -> memn x l = false.
  Proof.
    intros H. destruct (memn x l) eqn:E; [|reflexivity]. apply memn_In in E. specialize (H x E). lia.
  Qed.

  Lemma memn_false_gt x l : (forall y, In y l -> (x < y)%nat) -> memn x l = false.
  Proof.
    intros H. destruct (memn x l) eqn:E; [|reflexivity]. apply memn_In in E. specialize (H x E). lia.
  Qed.

  (* counting the expanded positions *)
  Fixpoint cnt_in (pos fuel : nat) : nat :=
    match fuel with
    | O => O
    | S f => ((if memn pos axes then 1 else 0) + cnt_in (S pos) f)%nat
    end.

  Lemma cnt_in_le fuel : forall pos, (cnt_in pos fuel <= fuel)%nat.
  Proof. induction fuel as [|f IH]; intros pos; cbn [cnt_in]; [lia|]. specialize (IH (S pos)). destruct (memn pos axes); lia. Qed.

  (* after: ExpandDims(Slice(x, iin), new_axes) *)
  Lemma xs_after ix : forall pos removed sx iin pre,
    (removed <= pos)%nat -> (forall y, In y pre -> (y < pos - removed)%nat) ->
    idx_okb ix (expand_shape_from pos (length ix) axes sx) = true ->
    expand_input_index pos axes ix = Some iin ->
    (length sx + cnt_in pos (length ix) = length ix)%nat ->
    let na := pre ++ expand_new_axes pos removed axes ix in
    let R := xs_shape pos ix sx in
    expand_shape_from (pos - removed) (length R) na (slice_shape iin sx) = R /\
    (forall out, length out = length R ->
       slice_src iin sx (drop_axes_from (pos - removed) na out) = xs_src pos ix sx out) /\
    length R = (nslices iin + length (expand_new_axes pos removed axes ix))%nat /\
    (forall out, in_bounds out R -> in_bounds (drop_axes_from (pos - removed) na out) (slice_shape iin sx)).
  Proof.
    induction ix as [|i ix IH]; intros pos removed sx iin pre Hle Hpre Hok Hacc Hcnt.
    - cbn [expand_input_index] in Hacc. injection Hacc as <-. cbn [length cnt_in] in Hcnt.
      assert (sx = []) as -> by (destruct sx; [reflexivity | cbn [length] in Hcnt; lia]).
      cbn. repeat split.
      + intros out Ho. destruct out; [reflexivity | discriminate].
      + intros out Ho. destruct out; [exact I | destruct Ho].
    - cbn [length expand_shape_from] in Hok. cbn [expand_input_index] in Hacc. cbn [length cnt_in] in Hcnt.
      cbn [xs_shape xs_src expand_new_axes]. cbn zeta.
      destruct (memn pos axes) eqn:Em.
      + destruct i as [z|s|]; cbn [idx_okb] in Hok; try discriminate; apply andb_true_iff in Hok; destruct Hok as [Hi Hok]; cbn [is_int].
        * destruct ((z =? 0) || (z =? -1)); [|discriminate].
          destruct (IH (S pos) (S removed) sx iin pre ltac:(lia) Hpre Hok Hacc ltac:(lia)) as (H1 & H2 & H3 & H4).
          replace (S pos - S removed)%nat with (pos - removed)%nat in * by lia. repeat split; assumption.
        * assert (expand_input_index (S pos) axes ix = Some iin) as Hacc'.
          { destruct (pslice_eqb s colon); [exact Hacc|]. destruct (indices s 1) as [[a b] k]. destruct (b <=? a); [discriminate | exact Hacc]. }
          set (q := (pos - removed)%nat) in *.
          destruct (IH (S pos) removed sx iin (pre ++ [q]) ltac:(lia)) as (H1 & H2 & H3 & H4); try assumption; try lia.
          { intros y Hy. apply in_app_or in Hy. destruct Hy as [Hy|[<-|[]]]; [specialize (Hpre y Hy)|]; unfold q; lia. }
          replace (S pos - removed)%nat with (S q) in * by (unfold q; lia).
          rewrite <- app_assoc in H1, H2, H4. cbn [app] in H1, H2, H4.
          assert (memn q (pre ++ q :: expand_new_axes (S pos) removed axes ix) = true) as Hm.
          { rewrite memn_app. apply orb_true_iff. right. apply memn_In. left. reflexivity. }
          cbn [length expand_shape_from]. rewrite Hm. rewrite H1. repeat split.
          -- intros out Ho. destruct out as [|j out]; [discriminate|]. cbn [drop_axes_from tl]. rewrite Hm.
             apply H2. cbn [length] in Ho. lia.
          -- rewrite H3. cbn [length]. lia.
          -- intros out Ho. destruct out as [|j out]; cbn [in_bounds] in Ho; [destruct Ho|].
             cbn [drop_axes_from]. rewrite Hm. apply H4. tauto.
      + destruct (expand_input_index (S pos) axes ix) as [iin'|] eqn:Ea; [|discriminate]. cbn [option_map] in Hacc. injection Hacc as <-.
        pose proof (cnt_in_le (length ix) (S pos)) as Hcl.
        assert (length (tl sx) + cnt_in (S pos) (length ix) = length ix)%nat as Hcnt' by (destruct sx; cbn [length tl] in *; lia).
        destruct i as [z|s|]; cbn [idx_okb] in Hok; try discriminate; apply andb_true_iff in Hok; destruct Hok as [Hi Hok]; cbn [is_int].
        * destruct (IH (S pos) (S removed) (tl sx) iin' pre ltac:(lia) Hpre Hok Ea Hcnt') as (H1 & H2 & H3 & H4).
          replace (S pos - S removed)%nat with (pos - removed)%nat in * by lia.
          cbn [slice_shape slice_src hd tl]. unfold nslices in *. cbn [filter is_sliceb]. repeat split; try assumption.
          intros out Ho. rewrite H2 by exact Ho. reflexivity.
        * set (q := (pos - removed)%nat) in *.
          destruct (IH (S pos) removed (tl sx) iin' pre ltac:(lia)) as (H1 & H2 & H3 & H4); try assumption.
          { intros y Hy. specialize (Hpre y Hy). lia. }
          replace (S pos - removed)%nat with (S q) in * by (unfold q; lia).
          assert (memn q (pre ++ expand_new_axes (S pos) removed axes ix) = false) as Hm.
          { rewrite memn_app. apply orb_false_iff. split.
            - apply memn_false_lt. exact Hpre.
            - apply memn_false_gt. intros y Hy. pose proof (new_axes_ge ix (S pos) removed y ltac:(lia) Hy). unfold q. lia. }
          cbn [length expand_shape_from slice_shape slice_src hd tl]. rewrite Hm. rewrite H1. repeat split.
          -- intros out Ho. destruct out as [|j out]; [discriminate|]. cbn [drop_axes_from hd tl]. rewrite Hm.
             cbn [hd tl]. rewrite H2 by (cbn [length] in Ho; lia). reflexivity.
          -- rewrite H3. unfold nslices. cbn [filter is_sliceb length]. lia.
          -- intros out Ho. destruct out as [|j out]; cbn [in_bounds] in Ho; [destruct Ho|].
             cbn [drop_axes_from]. rewrite Hm. cbn [in_bounds]. split; [tauto | apply H4; tauto].
  Qed.

  Lemma input_index_length ix : forall pos iin, expand_input_index pos axes ix = Some iin ->
    (length iin + cnt_in pos (length ix) = length ix)%nat.
  Proof.
    induction ix as [|i ix IH]; intros pos iin H; cbn [expand_input_index] in H.
    - injection H as <-. reflexivity.
    - cbn [length cnt_in]. destruct (memn pos axes).
      + assert (expand_input_index (S pos) axes ix = Some iin) as H'.
        { destruct i as [z|s|]; try discriminate.
          - destruct ((z =? 0) || (z =? -1)); [exact H | discriminate].
          - destruct (pslice_eqb s colon); [exact H|]. destruct (indices s 1) as [[a b] k]. destruct (b <=? a); [discriminate | exact H]. }
        specialize (IH _ _ H'). lia.
      + destruct (expand_input_index (S pos) axes ix) as [r|] eqn:E; [|discriminate]. injection H as <-.
        specialize (IH _ _ E). cbn [length]. lia.
  Qed.
End ExpandSlice.

Lemma expand_shape_from_length fuel : forall pos axes shp, length (expand_shape_from pos fuel axes shp) = fuel.
Proof. induction fuel as [|f IH]; intros; cbn [expand_shape_from]; [reflexivity|]. destruct (memn pos axes); cbn [length]; rewrite IH; reflexivity. Qed.

Lemma memn_cons x a l : memn x (a :: l) = Nat.eqb x a || memn x l.
Proof. reflexivity. Qed.

(* a strictly increasing list inside [pos, pos + fuel) marks exactly its length many positions *)
Lemma cnt_in_sorted fuel : forall pos axes,
  strictly_increasing axes = true -> (forall a, In a axes -> (pos <= a < pos + fuel)%nat) ->
  cnt_in axes pos fuel = length axes.
Proof.
  induction fuel as [|f IH]; intros pos axes Hs Hr.
  - destruct axes as [|a axes]; [reflexivity|]. specialize (Hr a (or_introl eq_refl)). lia.
  - cbn [cnt_in]. destruct axes as [|a rest]; [cbn [memn existsb]; rewrite (IH (S pos) []); [reflexivity | reflexivity | intros a []]|].
    assert (forall b, In b rest -> (a < b)%nat) as Hgt.
    { clear -Hs. revert a Hs. induction rest as [|c rest IHr]; intros a Hs b Hb; [destruct Hb|].
      cbn [strictly_increasing] in Hs. apply andb_true_iff in Hs. destruct Hs as [Hac Hs]. apply Nat.ltb_lt in Hac.
      destruct Hb as [<-|Hb]; [exact Hac|]. specialize (IHr c Hs b Hb). lia. }
    assert (strictly_increasing rest = true) as Hsr.
    { destruct rest; [reflexivity|]. cbn [strictly_increasing] in Hs. apply andb_true_iff in Hs. tauto. }
    pose proof (Hr a (or_introl eq_refl)) as Ha.
    destruct (Nat.eq_dec a pos) as [->|Hne].
    + rewrite memn_cons, Nat.eqb_refl. cbn [orb].
      (* the head is consumed: positions above pos only see the rest *)
      assert (forall p g, (pos < p)%nat -> cnt_in (pos :: rest) p g = cnt_in rest p g) as Hskip.
      { intros p g. revert p. induction g as [|g IHg]; intros p Hp; [reflexivity|]. cbn [cnt_in].
        rewrite memn_cons. replace (Nat.eqb p pos) with false by (symmetry; apply Nat.eqb_neq; lia). cbn [orb].
        rewrite IHg by lia. reflexivity. }
      rewrite Hskip by lia. rewrite (IH (S pos) rest Hsr); [reflexivity|].
      intros b Hb. specialize (Hgt b Hb). specialize (Hr b (or_intror Hb)). lia.
    + assert (memn pos (a :: rest) = false) as Hm.
      { apply memn_false_gt. intros y [<-|Hy]; [lia | specialize (Hgt y Hy); lia]. }
      rewrite Hm. rewrite (IH (S pos) (a :: rest) Hs); [reflexivity|].
      intros b Hb. specialize (Hr b Hb). destruct Hb as [<-|Hb]; [lia | specialize (Hgt b Hb); lia].
Qed.

Lemma expand_nil_shape shp : forall pos, expand_shape_from pos (length shp) [] shp = shp.
Proof. induction shp as [|n shp IH]; intros pos; [reflexivity|]. cbn [length expand_shape_from memn existsb hd tl]. rewrite IH. reflexivity. Qed.

Lemma drop_nil out : forall pos, drop_axes_from pos [] out = out.
Proof. induction out as [|i out IH]; intros pos; [reflexivity|]. cbn [drop_axes_from memn existsb]. rewrite IH. reflexivity. Qed.


Lemma zlist_eqb_eq a : forall b, list_eqb Z.eqb a b = true -> a = b.
Proof.
  induction a as [|x a IH]; intros [|y b] E; cbn in E; try discriminate; [reflexivity|].
  apply andb_true_iff in E. destruct E as [E1 E2]. apply Z.eqb_eq in E1. subst y. f_equal. apply IH. exact E2.
Qed.

Lemma natlist_eqb_eq a : forall b, natlist_eqb a b = true -> a = b.
Proof.
  induction a as [|x a IH]; intros [|y b] E; cbn in E; try discriminate; [reflexivity|].
  apply andb_true_iff in E. destruct E as [E1 E2]. apply Nat.eqb_eq in E1. subst y. f_equal. apply IH. exact E2.
Qed.

Lemma no_int_all_slices ix : basicb ix = true -> existsb is_int ix = false -> forallb is_sliceb ix = true.
Proof.
  induction ix as [|i ix IH]; intros Hb He; [reflexivity|].
  cbn [basicb forallb existsb] in *. apply andb_true_iff in Hb. apply orb_false_iff in He.
  destruct Hb as [Hi Hb], He as [He1 He]. destruct i; try discriminate. cbn [is_sliceb andb]. apply IH; assumption.
Qed.

Lemma all_slices_nslices ix : forallb is_sliceb ix = true -> nslices ix = length ix.
Proof.
  induction ix as [|i ix IH]; intros H; [reflexivity|]. cbn [forallb] in H. apply andb_true_iff in H. destruct H as [Hi H].
  unfold nslices. cbn [filter]. rewrite Hi. cbn [length]. f_equal. apply IH. exact H.
Qed.

Lemma perm_small l m : (m <= 1)%nat -> is_permb l m = true -> l = seq 0 m.
Proof.
  intros Hm Hp. destruct (is_permb_spec l m Hp) as (Hl & _ & Hin).
  destruct m as [|[|m]]; [| |lia].
  - destruct l; [reflexivity | discriminate].
  - destruct l as [|a [|b l]]; try discriminate. cbn [seq]. f_equal.
    assert (a < 1)%nat by (apply Hin; left; reflexivity). lia.
Qed.

Section Sound.
  Variable V : Type.
  Variable leafv : Z -> list Z -> V.
  Variable constv : Z -> V.
  Variable fop : Z -> list V -> V.
  Variable inj : Z -> V.
  Notation D := (den V leafv constv fop inj).

  Lemma srcden_shape s : shape (srcden V leafv s) = src_shape s.
  Proof. induction s as [id shp|s IH r]; cbn [srcden src_shape aslice shape]; [reflexivity | rewrite IH; reflexivity]. Qed.

  Lemma den_shape e : shape (D e) = eshape e.
  Proof.
    induction e using expr_ind'; cbn [den eshape aslice atranspose aelemwise arechunk aexpand_dims aconcat abroadcast_to aarange astack afull shape];
      try reflexivity; try (rewrite IHe; reflexivity).
    - f_equal. rewrite map_map. apply map_ext_in. intros a Ha. rewrite Forall_forall in H. apply H. exact Ha.
    - exact IHe.
    - rewrite IHe. f_equal. rewrite map_map. apply map_ext_in. intros a Ha. rewrite Forall_forall in H. apply H. exact Ha.
    - destruct r; cbn [aslice shape]; rewrite srcden_shape; reflexivity.
    - rewrite IHe, map_length. reflexivity.
    - exact IHe.
  Qed.

  (* ------------------------------------------------------------------ *)
  (* the public __getitem__ denotes the slice *)
  Lemma norm_index_rel ix : forall shp jx, length ix = length shp -> nonneg_shape shp ->
    norm_index ix shp = Some jx -> norm_rel shp ix jx.
  Proof.
    induction ix as [|i ix IH]; intros [|n shp] jx Hl Hn H; cbn [length] in Hl; try discriminate.
    - cbn [norm_index] in H. injection H as <-. exact I.
    - cbn [norm_index] in H. inversion Hn as [|n0 l0 Hn0 Hn']; subst.
      destruct (norm_index1 i n) as [j|] eqn:Ej; [|discriminate].
      destruct (norm_index ix shp) as [r|] eqn:Er; [|discriminate]. injection H as <-.
      cbn [norm_rel]. split; [|apply IH; [lia | assumption | exact Er]].
      destruct i as [z|s|]; cbn [norm_index1] in Ej; try discriminate.
      + destruct (check_int n z) eqn:Ec; [|discriminate]. injection Ej as <-. cbn [norm1_rel]. split; [exact Ec | apply posify_idem; exact Ec].
      + destruct (step_of s =? 0) eqn:Es; [discriminate|]. injection Ej as <-. cbn [norm1_rel].
        split; [lia|]. apply normalize_slice_sel; [assumption | lia].
  Qed.

  Lemma mk_getitem_sound x ix y :
    wfb x = true -> length ix = endim x -> mk_getitem x ix = Some y ->
    aeq (D y) (aslice ix (D x)) /\ idx_okb ix (eshape x) = true.
  Proof.
    intros Hw Hl H. unfold mk_getitem in H.
    pose proof (wfb_nonneg x Hw) as Hn.
    destruct (norm_index ix (eshape x)) as [jx|] eqn:Ej; [|discriminate].
    pose proof (norm_index_rel ix (eshape x) jx Hl Hn Ej) as Hr.
    destruct (norm_rel_same _ _ _ Hr) as (Hs & Hg & Hok). split; [|exact Hok].
    destruct (forallb is_colon jx) eqn:Ec; injection H as <-.
    - (* every normalised entry is a full slice: the array itself *)
      assert (length jx = length (eshape x)) as Hlj.
      { clear -Hr. revert Hr. generalize (eshape x) as shp. revert jx.
        induction ix as [|i ix IH]; intros [|j jx] [|n shp] H; cbn [norm_rel] in H; try (exfalso; tauto); [reflexivity|].
        cbn [length]. f_equal. apply IH. tauto. }
      destruct (slice_all_colon jx (eshape x) Hn Hlj Ec) as [Hs2 Hg2].
      split; cbn [aslice shape get]; rewrite den_shape.
      + rewrite <- Hs. symmetry. exact Hs2.
      + intros out Ho. rewrite <- Hg. rewrite Hg2 by exact Ho. reflexivity.
    - split; cbn [den aslice shape get]; rewrite den_shape.
      + exact Hs.
      + intros out _. rewrite Hg. reflexivity.
  Qed.

  (* ------------------------------------------------------------------ *)
  (* R2: identity slice removal *)
  Theorem rule_slice_identity_sound e e' :
    rule_slice_identity e = Some e' -> wfb e = true -> aeq (D e) (D e').
  Proof.
    destruct e as [| |x ix o| | | | | | | | | | |]; try discriminate. cbn [rule_slice_identity wfb].
    intros H Hw. destruct (Nat.eqb (length ix) (endim x) && forallb is_colon ix) eqn:E; [|discriminate].
    injection H as <-. apply andb_true_iff in E. destruct E as [El Ec]. apply Nat.eqb_eq in El.
    apply andb_true_iff in Hw. destruct Hw as [Hw _].
    destruct (slice_all_colon ix (eshape x) (wfb_nonneg x Hw) El Ec) as [Hs Hg].
    split; cbn [den aslice shape get]; rewrite den_shape; [exact Hs|].
    intros out Ho. rewrite Hs in Ho. rewrite Hg by exact Ho. reflexivity.
  Qed.

  (* ------------------------------------------------------------------ *)
  (* R1: Slice(Slice(x, a), b) -> Slice(x, normalize(fuse a b)) *)
  Lemma normalize_fused_rel c : forall shp, nonneg_shape shp -> idx_okb c shp = true ->
    norm_rel shp c (normalize_fused c shp).
  Proof.
    induction c as [|i c IH]; intros [|n shp] Hn H; cbn [idx_okb] in H; try discriminate.
    - exact I.
    - destruct i; discriminate.
    - inversion Hn as [|n0 l0 Hn0 Hn']; subst.
      destruct i as [z|s|]; try discriminate; apply andb_true_iff in H; destruct H as [Hi H];
        cbn [normalize_fused norm_rel norm1_rel]; (split; [|apply IH; assumption]).
      + split; [exact Hi | reflexivity].
      + split; [lia|]. apply normalize_slice_sel; [assumption | lia].
  Qed.

  Theorem rule_slice_slice_sound e e' :
    rule_slice_slice e = Some e' -> wfb e = true -> aeq (D e) (D e').
  Proof.
    destruct e as [| |y b ob| | | | | | | | | | |]; try discriminate.
    destruct y as [| |x a oa| | | | | | | | | | |]; try discriminate. cbn [rule_slice_slice wfb eshape].
    intros H Hw. destruct (fuse_tuple a b) as [c|] eqn:Ec; [|discriminate]. injection H as <-.
    apply andb_true_iff in Hw. destruct Hw as [Hw Hb]. apply andb_true_iff in Hw. destruct Hw as [Hw Ha].
    pose proof (wfb_nonneg x Hw) as Hn.
    destruct (fuse_tuple_nd a (eshape x) b c Hn Ha Hb Ec) as (Hs & Hg & Hok).
    destruct (norm_rel_same _ _ _ (normalize_fused_rel c (eshape x) Hn Hok)) as (Hs2 & Hg2 & _).
    split; cbn [den aslice shape get]; rewrite !den_shape.
    - rewrite Hs2, Hs. reflexivity.
    - intros out Ho. rewrite Hg2. rewrite Hg; [reflexivity|]. rewrite Hs. exact Ho.
  Qed.

  Theorem rule_slice_down_sound e e' :
    rule_slice_down e = Some e' -> wfb e = true -> aeq (D e) (D e').
  Proof.
    unfold rule_slice_down. destruct (rule_slice_identity e) as [r|] eqn:E.
    - intros H. injection H as <-. apply rule_slice_identity_sound. exact E.
    - apply rule_slice_slice_sound.
  Qed.

  (* ------------------------------------------------------------------ *)
  (* R5: transpositions *)
  Theorem rule_transpose_transpose_sound e e' :
    rule_transpose_transpose e = Some e' -> wfb e = true -> aeq (D e) (D e').
  Proof.
    destruct e as [| | |y q| | | | | | | | | |]; try discriminate.
    destruct y as [| | |x p| | | | | | | | | |]; try discriminate. cbn [rule_transpose_transpose wfb eshape].
    intros H Hw. injection H as <-.
    apply andb_true_iff in Hw. destruct Hw as [Hw Hq]. apply andb_true_iff in Hw. destruct Hw as [Hw Hp].
    unfold endim in Hp, Hq. cbn [eshape] in Hq. unfold transpose_shape in Hq at 1. rewrite pickn_length in Hq.
    set (n := length (eshape x)) in *.
    rewrite (perm_len p n Hp) in Hq.
    split; cbn [den atranspose shape get]; rewrite !den_shape.
    - unfold transpose_shape. apply pickn_compose. apply Forall_forall. intros j Hj.
      rewrite (perm_len p n Hp). apply (perm_in q n Hq). exact Hj.
    - intros out Ho. f_equal. apply (transpose_src_compose p q n); try assumption.
      pose proof (in_bounds_length _ _ Ho) as Hl. unfold transpose_shape in Hl.
      rewrite !pickn_length in Hl. rewrite Hl. apply (perm_len q n Hq).
  Qed.

  Theorem rule_transpose_identity_sound e e' :
    rule_transpose_identity e = Some e' -> wfb e = true -> aeq (D e) (D e').
  Proof.
    destruct e as [| | |x axes| | | | | | | | | |]; try discriminate. cbn [rule_transpose_identity wfb].
    intros H Hw. destruct (natlist_eqb axes (seq 0 (endim x))) eqn:E; [|discriminate]. injection H as <-.
    assert (axes = seq 0 (endim x)) as ->.
    { clear -E. revert E. generalize (seq 0 (endim x)) as l. induction axes as [|a axes IH]; intros [|b l] E; cbn in E; try discriminate; [reflexivity|].
      apply andb_true_iff in E. destruct E as [E1 E2]. apply Nat.eqb_eq in E1. subst b. f_equal. apply IH. exact E2. }
    unfold endim. split; cbn [den atranspose shape get]; rewrite den_shape.
    - unfold transpose_shape. apply pickn_seq.
    - intros out Ho. f_equal. unfold transpose_src. rewrite inv_axes_seq.
      pose proof (in_bounds_length _ _ Ho) as Hl. unfold transpose_shape in Hl. rewrite pickn_length, seq_length in Hl.
      rewrite <- Hl. apply pickn_seq.
  Qed.

  (* ------------------------------------------------------------------ *)
  (* R6: rechunks (chunks are metadata: the denoted array is the operand's) *)
  Theorem rule_rechunk_rechunk_sound e e' :
    rule_rechunk_rechunk e = Some e' -> aeq (D e) (D e') /\ echunks e' = echunks e.
  Proof.
    destruct e as [| | | | |y spec c prm bal2 pp2| | | | | | | |]; try discriminate.
    destruct y as [| | | | |x spec1 c1 prm1 bal1 pp1| | | | | | | |]; try discriminate. cbn [rule_rechunk_rechunk].
    destruct pp1; [discriminate|]. destruct (bal1 && negb bal2); [discriminate|].
    intros H. injection H as <-. split; [apply aeq_refl | reflexivity].
  Qed.

  Theorem rule_rechunk_noop_sound e e' :
    rule_rechunk_noop e = Some e' -> aeq (D e) (D e') /\ echunks e' = echunks e.
  Proof.
    destruct e as [| | | | |x spec c prm bal pp| | | | | | | |]; try discriminate. cbn [rule_rechunk_noop].
    destruct (echunks x) as [cx|] eqn:Ex; [|discriminate].
    destruct (negb bal && zll_eqb c cx) eqn:E; [|discriminate]. intros H. injection H as <-.
    split; [apply aeq_refl|]. rewrite Ex. cbn [echunks]. f_equal.
    apply andb_true_iff in E. destruct E as [_ E]. symmetry.
    clear -E. revert cx E. induction c as [|r c IH]; intros [|r' cx] E; cbn in E; try discriminate; [reflexivity|].
    apply andb_true_iff in E. destruct E as [E1 E2]. f_equal; [|apply IH; exact E2].
    clear -E1. revert r' E1. induction r as [|z r IH]; intros [|z' r'] E; cbn in E; try discriminate; [reflexivity|].
    apply andb_true_iff in E. destruct E as [E1 E2]. apply Z.eqb_eq in E1. subst. f_equal. apply IH. exact E2.
  Qed.

  (* ------------------------------------------------------------------ *)
  (* R3: Slice(Elemwise(op, args), ix) -> Elemwise(op, args[ix_a] ...) *)
  Lemma elem_args_sound ix O l : forall l',
    idx_okb ix O = true ->
    Forall2 (fun a a' => (if is_const a then Some a else mk_getitem a (elem_arg_index ix (eshape a) O)) = Some a') l l' ->
    (forall a, In a l -> wfb a = true) -> (forall a, In a l -> bcast_intob (eshape a) O = true) ->
    Forall2 aeq (map (fun a => aslice (elem_arg_index ix (eshape a) O) (D a)) l) (map D l').
  Proof.
    intros l' Hok Eo. induction Eo as [|a a' l l' Ha _ IH]; intros Hwa Hbc; cbn [map]; constructor.
    - destruct (is_const a) eqn:Ec.
      + injection Ha as <-. destruct a; try discriminate. unfold elem_arg_index. cbn [eshape length].
        replace (zip3 elem_axis_index (lastn 0 ix) [] (lastn 0 O)) with (@nil pidx) by (destruct (lastn 0 ix); reflexivity).
        split; [reflexivity|]. intros; reflexivity.
      + apply aeq_sym.
        assert (bcast_into (eshape a) O) as Hbi by (apply bcast_intob_spec, Hbc; left; reflexivity).
        apply (mk_getitem_sound a _ a').
        * apply Hwa. left. reflexivity.
        * apply (elem_shape_rev ix (eshape a) O Hbi Hok).
        * exact Ha.
    - apply IH; intros x Hx; [apply Hwa | apply Hbc]; right; exact Hx.
  Qed.
  Theorem rule_slice_elemwise_sound e e' :
    rule_slice_elemwise e = Some e' -> wfb e = true -> aeq (D e) (D e').
  Proof.
    destruct e as [| |y ix o| | | | | | | | | | |]; try discriminate.
    destruct y as [| | | |op args| | | | | | | | |]; try discriminate. cbn [rule_slice_elemwise wfb eshape].
    set (O := bshape_all (map eshape args)). intros H Hw.
    apply andb_true_iff in Hw. destruct Hw as [Hw Hok]. apply andb_true_iff in Hw. destruct Hw as [Hwa Hbc].
    rewrite forallb_forall in Hwa, Hbc.
    rewrite (pad_index_full ix (length O)) in H by (apply idx_okb_length; exact Hok).
    destruct ((op <? 0) && existsb is_int ix); [discriminate|].
    set (ia := fun a => elem_arg_index ix (eshape a) O).
    destruct (omap _ args) as [args'|] eqn:Eo; [|discriminate]. injection H as <-.
    apply omap_Forall2 in Eo.
    set (B := map (fun a => aslice (ia a) (D a)) args).
    assert (Forall2 aeq B (map D args')) as HB.
    { unfold B, ia. apply elem_args_sound; try assumption. }
    assert (map shape B = map (fun sa => slice_shape (elem_arg_index ix sa O) sa) (map eshape args)) as HsB.
    { unfold B. rewrite !map_map. apply map_ext. intros a. cbn [aslice shape]. rewrite den_shape. reflexivity. }
    assert (Forall (fun sa => bcast_intob sa O = true) (map eshape args)) as HF.
    { apply Forall_forall. intros sa Hsa. apply in_map_iff in Hsa. destruct Hsa as (a & <- & Ha). apply Hbc. exact Ha. }
    assert (bshape_all (map shape B) = slice_shape ix O) as HS.
    { rewrite HsB. apply (elem_slice_shape ix (map eshape args)); assumption. }
    apply (aeq_trans _ (aelemwise (fop op) B)).
    - (* the slice of the element-wise result is the element-wise result of the slices *)
      split; cbn [den aslice aelemwise shape get]; rewrite map_map.
      + rewrite HS. unfold O. do 2 f_equal. apply map_ext. intros a. apply den_shape.
      + replace (map (fun x => shape (D x)) args) with (map eshape args) by (apply map_ext; intros a; symmetry; apply den_shape).
        fold O. intros out Ho. f_equal. unfold B. rewrite !map_map. apply map_ext_in. intros a Ha.
        cbn [aslice shape get]. rewrite !den_shape. f_equal.
        apply elem_bidx; [apply bcast_intob_spec, Hbc; exact Ha | exact Hok | exact Ho].
    - apply aelemwise_congr; [exact HB|]. rewrite HS.
      unfold B. apply Forall_forall. intros b Hb. apply in_map_iff in Hb. destruct Hb as (a & <- & Ha).
      cbn [aslice shape]. rewrite den_shape.
      apply elem_bcast; [apply bcast_intob_spec, Hbc; exact Ha | exact Hok].
  Qed.

  (* ------------------------------------------------------------------ *)
  (* R8: Slice(Arange(start, step, count), [s]) -> Arange(start + a*step, step*k, len) *)
  Theorem rule_slice_arange_sound e e' :
    rule_slice_arange e = Some e' -> wfb e = true -> aeq (D e) (D e').
  Proof.
    destruct e as [| |y ix o| | | | | | | | | | |]; try discriminate.
    destruct y as [| | | | | | | | |start step count ch| | | |]; try discriminate.
    destruct ix as [|i ix]; try discriminate. destruct i as [z|s|]; try discriminate.
    destruct ix; try discriminate. cbn [rule_slice_arange wfb eshape idx_okb].
    intros H Hw. destruct (indices s count) as [[a b] k] eqn:Hi. injection H as <-.
    split; cbn [den aslice aarange shape get slice_shape slice_src hd tl].
    - unfold slice_len. rewrite Hi. reflexivity.
    - intros [|j out] Ho; cbn [in_bounds] in Ho; [tauto|]. destruct Ho as [Hj _]. cbn [hd].
      unfold slice_len in Hj. rewrite Hi in Hj. unfold nthZ, sel. rewrite Hi.
      rewrite zrange_nth by (rewrite Z2Nat.id; lia). rewrite Z2Nat.id by lia. f_equal. ring.
  Qed.

  (* ------------------------------------------------------------------ *)
  (* R4: Slice(Transpose(x, axes), ix) -> Transpose(Slice(x, permuted ix), axes') *)
  Lemma atranspose_seq (a : arr V) m : length (shape a) = m -> aeq (atranspose (seq 0 m) a) a.
  Proof.
    intros <-. split; cbn [atranspose shape get]; unfold transpose_shape, transpose_src.
    - apply pickn_seq.
    - intros out Ho. rewrite pickn_seq in Ho. rewrite inv_axes_seq. rewrite <- (in_bounds_length _ _ Ho), pickn_seq. reflexivity.
  Qed.

  Lemma slice_transpose_aeq x axes ix na :
    wfb x = true -> is_permb axes (endim x) = true ->
    idx_okb ix (transpose_shape axes (eshape x)) = true ->
    is_permb na (nslices ix) = true ->
    (forall k, (k < endim x)%nat -> is_sliceb (nth k ix dcolon) = true ->
               nth (rank ix k) na O = rank (t_iin axes ix) (nth k axes O)) ->
    aeq (aslice ix (atranspose axes (D x))) (atranspose na (aslice (t_iin axes ix) (D x))).
  Proof.
    intros Hw Hp Hok Hna HK.
    assert (length ix = endim x) as Hlix.
    { rewrite (idx_okb_length _ _ Hok). unfold transpose_shape. rewrite pickn_length. apply (perm_len axes _ Hp). }
    pose proof (idx_okb_basic _ _ Hok) as Hb.
    split; cbn [aslice atranspose shape get]; rewrite den_shape.
    - apply (st_shape axes (endim x) ix Hp Hlix Hb na (eshape x) Hna HK). reflexivity.
    - intros out Ho. f_equal.
      apply (st_src axes (endim x) ix Hp Hlix Hb na (eshape x) Hna HK); [reflexivity|].
      rewrite (in_bounds_length _ _ Ho). apply slice_shape_length. exact Hok.
  Qed.

  Theorem rule_slice_transpose_sound e e' :
    rule_slice_transpose e = Some e' -> wfb e = true -> aeq (D e) (D e').
  Proof.
    destruct e as [| |y ix o| | | | | | | | | | |]; try discriminate.
    destruct y as [| | |x axes| | | | | | | | | |]; try discriminate. cbn [rule_slice_transpose wfb eshape].
    intros H Hw. apply andb_true_iff in Hw. destruct Hw as [Hw Hok]. apply andb_true_iff in Hw. destruct Hw as [Hw Hp].
    destruct (existsb _ ix); [discriminate|].
    assert (length ix = endim x) as Hlix.
    { rewrite (idx_okb_length _ _ Hok). unfold transpose_shape. rewrite pickn_length. apply (perm_len axes _ Hp). }
    pose proof (idx_okb_basic _ _ Hok) as Hb.
    rewrite (pad_index_full ix (length axes)) in H by (rewrite (perm_len axes _ Hp); exact Hlix).
    change (pickn (ISlice colon) ix (inv_axes axes)) with (t_iin axes ix) in H.
    destruct (mk_getitem x (t_iin axes ix)) as [sliced|] eqn:Eg; [|discriminate].
    destruct (mk_getitem_sound x (t_iin axes ix) sliced Hw (iin_length axes _ ix Hp) Eg) as [Hsl Hoki].
    assert (length (shape (D sliced)) = nslices ix) as Hlsl.
    { destruct Hsl as [Hs _]. rewrite Hs. cbn [aslice shape]. rewrite den_shape, (slice_shape_length _ _ Hoki).
      apply (nslices_iin axes (endim x) ix Hp Hlix Hb). }
    pose proof (keyK axes (endim x) ix Hp Hlix Hb) as HK.
    pose proof (new_axes_perm axes (endim x) ix Hp Hlix Hb) as Hnp.
    assert (forall na, is_permb na (nslices ix) = true ->
              (forall k, (k < endim x)%nat -> is_sliceb (nth k ix dcolon) = true ->
                 nth (rank ix k) na O = rank (t_iin axes ix) (nth k axes O)) ->
              aeq (aslice ix (atranspose axes (D x))) (atranspose na (D sliced))) as Hgen.
    { intros na Hna HKna. apply (aeq_trans _ (atranspose na (aslice (t_iin axes ix) (D x)))).
      - apply slice_transpose_aeq; assumption.
      - apply aeq_sym. apply atranspose_congr; [rewrite Hlsl; exact Hna | exact Hsl]. }
    assert (t_new_axes axes ix = seq 0 (nslices ix) -> aeq (aslice ix (atranspose axes (D x))) (D sliced)) as Hid.
    { intros Heq. apply (aeq_trans _ (atranspose (seq 0 (nslices ix)) (D sliced))).
      - apply Hgen; [apply is_permb_seq|]. rewrite <- Heq. exact HK.
      - apply atranspose_seq. exact Hlsl. }
    cbn [den]. destruct (negb (existsb is_int ix)) eqn:Eint.
    - (* no integer: the same axes *)
      injection H as <-. cbn [den]. apply negb_true_iff in Eint.
      pose proof (no_int_all_slices ix Hb Eint) as Hall.
      apply Hgen.
      + rewrite (all_slices_nslices ix Hall), Hlix. exact Hp.
      + intros k Hk _. rewrite (rank_all_slices ix Hall) by lia.
        rewrite rank_all_slices; [reflexivity| |].
        * apply forallb_forall. intros i Hi. unfold t_iin, pickn in Hi. apply in_map_iff in Hi. destruct Hi as (j & <- & _).
          destruct (Nat.lt_ge_cases j (length ix)) as [Hlt|Hge]; [|rewrite nth_overflow by exact Hge; reflexivity].
          rewrite forallb_forall in Hall. apply Hall. apply nth_In. exact Hlt.
        * rewrite (iin_length axes _ ix Hp). pose proof (perm_nth_lt axes _ Hp k Hk). lia.
    - change (remaining_dims axes ix) with (t_rem axes ix) in H.
      change (map (fun d => count_lt d (t_rem axes ix)) (t_rem axes ix)) with (t_new_axes axes ix) in H.
      destruct (Nat.leb (length (t_rem axes ix)) 1) eqn:Ele.
      + injection H as <-. apply Hid. apply perm_small; [|exact Hnp].
        apply Nat.leb_le in Ele. rewrite (rem_length axes (endim x) ix Hp Hlix Hb) in Ele. exact Ele.
      + destruct (natlist_eqb (t_new_axes axes ix) (seq 0 (length (t_new_axes axes ix)))) eqn:Eid; injection H as <-.
        * apply Hid. apply natlist_eqb_eq in Eid. rewrite Eid at 1. f_equal.
          unfold t_new_axes. rewrite map_length. apply (rem_length axes (endim x) ix Hp Hlix Hb).
        * cbn [den]. apply Hgen; assumption.
  Qed.

  (* ------------------------------------------------------------------ *)
  (* Transpose(Elemwise(op, args), axes) -> Elemwise(op, Transpose(arg, axes) ...) *)
  Theorem rule_transpose_elemwise_sound e e' :
    rule_transpose_elemwise e = Some e' -> wfb e = true -> aeq (D e) (D e').
  Proof.
    destruct e as [| | |y axes| | | | | | | | | |]; try discriminate.
    destruct y as [| | | |op args| | | | | | | | |]; try discriminate. cbn [rule_transpose_elemwise wfb eshape].
    set (O := bshape_all (map eshape args)).
    destruct (forallb _ args) eqn:Eall; [|discriminate]. intros H Hw. injection H as <-.
    apply andb_true_iff in Hw. destruct Hw as [_ Hp]. unfold endim in Hp. cbn [eshape] in Hp. fold O in Hp.
    rewrite forallb_forall in Eall.
    set (tr := fun a => if is_const a then a else ETranspose a axes).
    assert (Forall2 (tr_rel axes) (map eshape args) (map eshape (map tr args))) as HR.
    { clear -Eall. induction args as [|a args IH]; cbn [map]; constructor.
      - specialize (Eall a (or_introl eq_refl)). unfold tr. destruct (is_const a) eqn:Ec.
        + destruct a; try discriminate. left. split; reflexivity.
        + cbn [orb] in Eall. apply Nat.eqb_eq in Eall. right. split; [exact Eall | reflexivity].
      - apply IH. intros x Hx. apply Eall. right. exact Hx. }
    pose proof (tr_rel_bshape_all axes _ _ HR) as HO. fold O in HO.
    assert (bshape_all (map eshape (map tr args)) = transpose_shape axes O /\ (O = [] \/ length O = length axes)) as [HS HlO].
    { destruct HO as [[HO1 HO2]|[HO1 HO2]].
      - rewrite HO2, HO1. rewrite HO1 in Hp. cbn [length] in Hp.
        assert (axes = []) as -> by (destruct axes; [reflexivity | discriminate]). split; [reflexivity | left; reflexivity].
      - split; [exact HO2 | right; exact HO1]. }
    split; cbn [den atranspose aelemwise shape get]; rewrite !map_map.
    - replace (map (fun x => shape (D x)) args) with (map eshape args) by (apply map_ext; intros a; symmetry; apply den_shape).
      fold O. rewrite <- HS. rewrite map_map. f_equal. apply map_ext. intros a. symmetry. apply den_shape.
    - replace (map (fun x => shape (D x)) args) with (map eshape args) by (apply map_ext; intros a; symmetry; apply den_shape).
      fold O. intros out Ho. f_equal. rewrite !map_map. apply map_ext_in. intros a Ha.
      specialize (Eall a Ha). unfold tr. destruct (is_const a) eqn:Ec.
      + destruct a; try discriminate. cbn [den shape get]. reflexivity.
      + cbn [orb] in Eall. apply Nat.eqb_eq in Eall. unfold endim in Eall.
        cbn [den atranspose shape get]. rewrite !den_shape. f_equal.
        pose proof (in_bounds_length _ _ Ho) as Hlo. unfold transpose_shape in Hlo. rewrite pickn_length in Hlo.
        assert (length O = length axes) as HlO'.
        { destruct HlO as [HO0|HO0]; [|exact HO0]. rewrite HO0 in Hp. cbn [length] in Hp.
          destruct axes; [rewrite HO0; reflexivity | discriminate]. }
        rewrite HlO' in Hp.
        unfold bidx.
        replace (lastn (length (eshape a)) (transpose_src axes out)) with (transpose_src axes out).
        2:{ rewrite Eall. replace (length axes) with (length (transpose_src axes out)) at 1; [symmetry; apply lastn_full|].
            unfold transpose_src. rewrite pickn_length. apply inv_axes_length. }
        replace (lastn (length (transpose_shape axes (eshape a))) out) with out.
        2:{ unfold transpose_shape. rewrite pickn_length, <- Hlo. symmetry. apply lastn_full. }
        apply (mask_transpose axes (length axes)); [exact Hp | exact Eall | exact Hlo].
  Qed.

  Theorem rule_transpose_down_sound e e' :
    rule_transpose_down e = Some e' -> wfb e = true -> aeq (D e) (D e').
  Proof.
    unfold rule_transpose_down. destruct e as [| | |x axes| | | | | | | | | |]; try discriminate.
    destruct (is_transpose x); [apply rule_transpose_transpose_sound|].
    destruct (rule_transpose_identity (ETranspose x axes)) as [r|] eqn:E.
    - intros H. injection H as <-. apply rule_transpose_identity_sound. exact E.
    - destruct (is_elemwise x); [apply rule_transpose_elemwise_sound | discriminate].
  Qed.

  (* ------------------------------------------------------------------ *)
  (* R9: Slice(FromArray(src, region), ix) -> FromArray(src', region') [ [0, :, ...] ] *)
  Theorem rule_slice_fromarray_sound limit e e' :
    rule_slice_fromarray limit e = Some e' -> wfb e = true ->
    (forall y ix o, e = ESlice y ix o -> ints_nonnegb ix = true) ->
    aeq (D e) (D e').
  Proof.
    destruct e as [| |y ix o| | | | | | | | | | |]; try discriminate.
    destruct y as [| | | | | | | | | |s chunks region nd isz other| | |]; try discriminate.
    cbn [rule_slice_fromarray wfb]. intros H Hw Hnn. specialize (Hnn _ _ _ eq_refl).
    apply andb_true_iff in Hw. destruct Hw as [Hw Hok]. apply andb_true_iff in Hw. destruct Hw as [Hws Hwr].
    destruct (existsb _ ix) eqn:Enone; [discriminate|].
    destruct (existsb (fun i => match i with ISlice t => negb (unit_step t) | _ => false end) ix) eqn:Eunit; [discriminate|].
    set (S := src_shape s) in *. set (A := srcden V leafv s).
    pose proof (src_wfb_nonneg s Hws) as HnS. fold S in HnS.
    assert (shape A = S) as HshA by apply srcden_shape.
    set (eff := eshape (ESource s chunks region nd isz other)) in *.
    set (B := D (ESource s chunks region nd isz other)).
    assert (shape B = eff) as HshB by apply den_shape.
    assert (nonneg_shape eff) as Hneff.
    { unfold eff. cbn [eshape]. destruct region; [apply slice_shape_nonneg|]; exact HnS. }
    assert (length eff = length S) as Hleff.
    { unfold eff. cbn [eshape]. fold S. destruct region as [old|]; [|reflexivity].
      unfold region_okb in Hwr. apply andb_true_iff in Hwr. destruct Hwr as [Hwr _].
      rewrite (slice_shape_length _ _ Hwr). pose proof (idx_okb_length _ _ Hwr) as Hl. rewrite map_length in Hl.
      unfold nslices. rewrite <- Hl. clear. induction old as [|x old IH]; [reflexivity|]. cbn [map filter is_sliceb length]. f_equal. exact IH. }
    rewrite (pad_index_full ix (length S)) in H by (rewrite <- Hleff; apply idx_okb_length; exact Hok).
    destruct (omap int_to_slice ix) as [ri|] eqn:Eri; [|discriminate].
    assert (forallb (fun i => match i with ISlice t => unit_step t | _ => true end) ix = true) as Hunit.
    { apply forallb_forall. intros i Hi. destruct i as [z|t|]; try reflexivity.
      destruct (unit_step t) eqn:Eu; [reflexivity|]. exfalso.
      assert (existsb (fun i => match i with ISlice t => negb (unit_step t) | _ => false end) ix = true) as Hc
        by (apply existsb_exists; exists (ISlice t); split; [exact Hi | rewrite Eu; reflexivity]).
      congruence. }
    destruct (int_split ix eff ri Hneff Hok Hnn Hunit Eri) as (Hri & Hex & Hexs & Hexg).
    set (nr := match region with Some old => zip3 compose_slices old ri S | None => ri end) in *.
    (* C1: the new region of the source is the region index applied to the old region *)
    assert (region_okb nr S = true /\ aeq (aslice (map ISlice ri) B) (aslice (map ISlice nr) A)) as [Hnr HC1].
    { unfold nr, B, eff in *. cbn [den eshape] in *. fold A. destruct region as [old|].
      - destruct (compose_regions old ri S HnS Hwr Hri) as (Hc & Hs & Hg). split; [exact Hc|].
        split; cbn [aslice shape get]; rewrite HshA.
        + symmetry. exact Hs.
        + intros out Ho. rewrite Hg; [reflexivity|]. rewrite Hs. exact Ho.
      - split; [exact Hri | apply aeq_refl]. }
    (* C2: whatever the materialisation choice, the new read denotes that region of the source *)
    set (pick3 := if nd then
                    if list_eqb Z.eqb (zip2 slice_len nr S) S then (s, @None (list pslice))
                    else if zprod (zip2 slice_len nr S) * isz <=? limit then (SSliced s nr, None)
                    else (s, Some nr)
                  else (s, Some nr)) in *.
    assert (forall ch, aeq (D (ESource (fst pick3) ch (snd pick3) nd isz other)) (aslice (map ISlice nr) A)) as HC2.
    { intros ch. unfold pick3. destruct nd; [|apply aeq_refl].
      destruct (list_eqb Z.eqb (zip2 slice_len nr S) S) eqn:Efull.
      - cbn [fst snd den]. fold A.
        pose proof (zlist_eqb_eq _ _ Efull) as Hz.
        destruct (region_full nr S HnS Hnr Hz) as [Hs Hg].
        split; cbn [aslice shape get]; rewrite HshA; [symmetry; exact Hs|].
        intros out Ho. rewrite Hg by exact Ho. reflexivity.
      - destruct (zprod (zip2 slice_len nr S) * isz <=? limit); apply aeq_refl. }
    destruct pick3 as [s' region'] eqn:Epick. cbn [fst snd] in HC2.
    set (newch := zip3 compute_sliced_chunks chunks ri eff) in *.
    assert (aeq (D (ESource s' newch region' nd isz other)) (aslice (map ISlice ri) B)) as Hio
      by (apply (aeq_trans _ (aslice (map ISlice nr) A)); [apply HC2 | apply aeq_sym; exact HC1]).
    destruct (existsb is_int ix) eqn:Eint; injection H as <-.
    - (* integers: extract with [0] *)
      change (map (fun i => if is_int i then IInt 0 else ISlice colon) ix) with (extract_index ix).
      change (D (ESlice (ESource s chunks region nd isz other) ix o)) with (aslice ix B).
      change (D (ESlice (ESource s' newch region' nd isz other) (extract_index ix) false))
        with (aslice (extract_index ix) (D (ESource s' newch region' nd isz other))).
      apply aeq_sym. apply (aeq_trans _ (aslice (extract_index ix) (aslice (map ISlice ri) B))).
      + pose proof Hio as [Hs _].
        apply aslice_congr; [rewrite Hs | rewrite Hs | exact Hio]; cbn [aslice shape]; rewrite ?HshB.
        * apply slice_shape_nonneg. exact Hneff.
        * exact Hex.
      + split; cbn [aslice shape get]; rewrite HshB; [exact Hexs|].
        intros out Ho. rewrite Hexs in Ho. rewrite Hexg by exact Ho. reflexivity.
    - apply aeq_sym. rewrite (int_to_slice_no_int ix ri Eint Eri) in Hio. exact Hio.
  Qed.

  Theorem rule_rechunk_fromarray_sound e e' :
    rule_rechunk_fromarray e = Some e' -> aeq (D e) (D e') /\ echunks e' = echunks e.
  Proof.
    destruct e as [| | | | |y spec c prm bal pp| | | | | | | |]; try discriminate.
    destruct y as [| | | | | | | | | |s chunks region nd isz other| | |]; try discriminate. cbn [rule_rechunk_fromarray].
    destruct (pp || negb nd); [discriminate|]. intros H. injection H as <-. split; [apply aeq_refl | reflexivity].
  Qed.

  Theorem rule_rechunk_elemwise_sound e e' :
    rule_rechunk_elemwise e = Some e' -> aeq (D e) (D e').
  Proof.
    destruct e as [| | | | |y spec c prm bal pp| | | | | | | |]; try discriminate.
    destruct y as [| | | |op args| | | | | | | | |]; try discriminate. cbn [rule_rechunk_elemwise].
    destruct (negb (spec =? 0)); [discriminate|].
    destruct (omap _ args) as [args'|] eqn:Eo; [|discriminate]. intros H. injection H as <-.
    apply omap_Forall2 in Eo. cbn [den arechunk].
    replace (map D args') with (map D args); [apply aeq_refl|].
    induction Eo as [|a a' l l' Ha _ IH]; [reflexivity|]. cbn [map]. f_equal; [|exact IH].
    destruct (is_const a); [injection Ha as <-; reflexivity|].
    unfold mk_rechunk in Ha. destruct (echunks a) as [ca|]; [|discriminate].
    destruct (zll_eqb _ ca); injection Ha as <-; reflexivity.
  Qed.

  (* ------------------------------------------------------------------ *)
  (* R7: Slice(ExpandDims(x, axes), ix) -> ExpandDims(Slice(x, ix without the expanded axes), axes') *)
  Lemma colon_all_slices ix : forallb is_colon ix = true -> forallb is_sliceb ix = true.
  Proof.
    induction ix as [|i ix IH]; intros H; [reflexivity|]. cbn [forallb] in *. apply andb_true_iff in H. destruct H as [Hi H].
    destruct i; try discriminate. cbn [is_sliceb andb]. apply IH. exact H.
  Qed.

  Theorem rule_slice_expand_dims_sound e e' :
    rule_slice_expand_dims e = Some e' -> wfb e = true ->
    (forall x axes ix o, e = ESlice (EExpandDims x axes) ix o -> xnormb axes 0 ix = true) ->
    aeq (D e) (D e').
  Proof.
    destruct e as [| |y ix o| | | | | | | | | | |]; try discriminate.
    destruct y as [| | | | | |x axes| | | | | | |]; try discriminate. cbn [rule_slice_expand_dims wfb eshape].
    intros H Hw Hnorm. specialize (Hnorm _ _ _ _ eq_refl).
    apply andb_true_iff in Hw. destruct Hw as [Hw Hok]. apply andb_true_iff in Hw. destruct Hw as [Hw Hlt].
    apply andb_true_iff in Hw. destruct Hw as [Hw Hinc].
    set (sx := eshape x) in *. pose proof (wfb_nonneg x Hw) as Hnsx. fold sx in Hnsx.
    set (N := (endim x + length axes)%nat) in *.
    unfold expand_shape in Hok. unfold endim in N. fold sx in N. fold N in Hok.
    assert (length ix = N) as Hlix by (rewrite (idx_okb_length _ _ Hok); apply expand_shape_from_length).
    rewrite (pad_index_full ix N Hlix) in H.
    destruct (expand_input_index 0 axes ix) as [iin|] eqn:Eiin; [|discriminate].
    assert (cnt_in axes 0 N = length axes) as Hcnt.
    { apply cnt_in_sorted; [exact Hinc|]. intros a Ha. rewrite forallb_forall in Hlt. specialize (Hlt a Ha).
      apply Nat.ltb_lt in Hlt. unfold endim in Hlt. fold sx in Hlt. fold N in Hlt. lia. }
    pose proof (input_index_length axes ix 0 iin Eiin) as Hliin. rewrite Hlix, Hcnt in Hliin.
    assert (length iin = length sx) as Hli by (unfold N in Hliin; lia).
    rewrite <- Hlix in Hok.
    destruct (xs_before axes ix 0 sx iin Hok Hnorm Eiin) as [HbS HbG].
    assert (length sx + cnt_in axes 0 (length ix) = length ix)%nat as Hc2 by (rewrite Hlix, Hcnt; reflexivity).
    destruct (xs_after axes ix 0 0 sx iin [] (le_n 0) ltac:(intros y []) Hok Eiin Hc2) as (H1 & H2 & H3 & H4).
    cbn [app Nat.sub] in H1, H2, H3, H4.
    set (R := xs_shape axes 0 ix sx) in *.
    set (new := expand_new_axes 0 0 axes ix) in *.
    (* the sliced input *)
    destruct (if forallb is_colon iin then Some x else mk_getitem x iin) as [sliced|] eqn:Esl; [|discriminate].
    assert (aeq (D sliced) (aslice iin (D x)) /\ length (slice_shape iin sx) = nslices iin) as [HF1 HF2].
    { destruct (forallb is_colon iin) eqn:Ec.
      - injection Esl as <-. destruct (slice_all_colon iin sx Hnsx Hli Ec) as [Hs Hg]. split.
        + split; cbn [aslice shape get]; rewrite den_shape; fold sx; [symmetry; exact Hs|].
          intros out Ho. rewrite Hg by exact Ho. reflexivity.
        + rewrite Hs, (all_slices_nslices iin (colon_all_slices iin Ec)). symmetry. exact Hli.
      - destruct (mk_getitem_sound x iin sliced Hw Hli Esl) as [Ha Hoki]. split; [exact Ha|].
        apply slice_shape_length. exact Hoki. }
    assert (shape (D sliced) = slice_shape iin sx) as Hshs by (destruct HF1 as [Hs _]; rewrite Hs; cbn [aslice shape]; rewrite den_shape; reflexivity).
    (* the two sides, via the direct walk *)
    assert (shape (D (ESlice (EExpandDims x axes) ix o)) = R) as HshL.
    { cbn [den aslice aexpand_dims shape]. rewrite den_shape. fold sx. unfold expand_shape. fold N. rewrite <- Hlix. exact HbS. }
    assert (forall out, in_bounds out R ->
              get (D (ESlice (EExpandDims x axes) ix o)) out = get (D x) (xs_src axes 0 ix sx out)) as HgL.
    { intros out Ho. cbn [den aslice aexpand_dims shape get]. rewrite den_shape. fold sx. unfold expand_shape, expand_src.
      fold N. rewrite <- Hlix. rewrite HbG; [reflexivity|]. apply in_bounds_length. exact Ho. }
    destruct new as [|n0 rest] eqn:Enew; injection H as <-.
    - (* every expanded axis was removed by an integer *)
      cbn [length] in H3. rewrite Nat.add_0_r in H3.
      assert (R = slice_shape iin sx) as HR by (rewrite <- H1, H3, <- HF2; apply expand_nil_shape).
      split; [rewrite HshL, Hshs; exact HR|].
      intros out Ho. rewrite HshL in Ho. rewrite (HgL out Ho).
      destruct HF1 as [_ Hg]. rewrite Hg by (rewrite Hshs, <- HR; exact Ho).
      cbn [aslice get]. rewrite den_shape. fold sx. rewrite <- H2 by (apply in_bounds_length; exact Ho).
      rewrite drop_nil. reflexivity.
    - rewrite <- Enew in *. clear Enew.
      assert (shape (D (EExpandDims sliced new)) = R) as HshR.
      { cbn [den aexpand_dims shape]. unfold expand_shape. rewrite Hshs, HF2, <- H3. exact H1. }
      split; [rewrite HshL, HshR; reflexivity|].
      intros out Ho. rewrite HshL in Ho. rewrite (HgL out Ho).
      cbn [den aexpand_dims get]. unfold expand_src.
      destruct HF1 as [_ Hg]. rewrite Hg by (rewrite Hshs; apply H4; exact Ho).
      cbn [aslice get]. rewrite den_shape. fold sx. rewrite H2 by (apply in_bounds_length; exact Ho). reflexivity.
  Qed.
End Sound.

(* ---------------------------------------------------------------------- *)
(* C08: every modelled rule strictly decreases the measure [mu] *)
Lemma mu_pos e : (1 <= mu e)%nat.
Proof. induction e using expr_ind'; cbn [mu]; lia. Qed.

Lemma mu_elemwise op args : mu (EElemwise op args) = S (length args + mu_sum args).
Proof.
  cbn [mu]. f_equal. induction args as [|x l IH]; [reflexivity|]. cbn [length mu_sum]. rewrite IH. lia.
Qed.

Lemma mk_getitem_mu x ix y : mk_getitem x ix = Some y -> (mu y <= 3 * mu x)%nat.
Proof.
  unfold mk_getitem. destruct (norm_index ix (eshape x)) as [jx|]; [|discriminate].
  destruct (forallb is_colon jx); intros H; injection H as <-; cbn [mu]; lia.
Qed.

Theorem rule_slice_identity_mu e e' : rule_slice_identity e = Some e' -> (mu e' < mu e)%nat.
Proof.
  destruct e as [| |x ix o| | | | | | | | | | |]; try discriminate. cbn [rule_slice_identity].
  destruct (_ && _); [|discriminate]. intros H. injection H as <-. cbn [mu]. pose proof (mu_pos x). lia.
Qed.

Theorem rule_slice_slice_mu e e' : rule_slice_slice e = Some e' -> (mu e' < mu e)%nat.
Proof.
  destruct e as [| |y b ob| | | | | | | | | | |]; try discriminate.
  destruct y as [| |x a oa| | | | | | | | | | |]; try discriminate. cbn [rule_slice_slice].
  destruct (fuse_tuple a b); [|discriminate]. intros H. injection H as <-. cbn [mu]. pose proof (mu_pos x). lia.
Qed.

Theorem rule_slice_elemwise_mu e e' : rule_slice_elemwise e = Some e' -> (mu e' < mu e)%nat.
Proof.
  destruct e as [| |y ix o| | | | | | | | | | |]; try discriminate.
  destruct y as [| | | |op args| | | | | | | | |]; try discriminate. cbn [rule_slice_elemwise].
  destruct ((op <? 0) && _); [discriminate|].
  destruct (omap _ args) as [args'|] eqn:Eo; [|discriminate]. intros H. injection H as <-.
  apply omap_Forall2 in Eo.
  change (mu (ESlice (EElemwise op args) ix o)) with (3 * mu (EElemwise op args))%nat.
  rewrite !mu_elemwise.
  assert (mu_sum args' <= 3 * mu_sum args /\ length args' = length args)%nat as [Hs Hl].
  { induction Eo as [|a a' l l' Ha _ [IH1 IH2]]; [cbn; lia|]. cbn [mu_sum length].
    assert (mu a' <= 3 * mu a)%nat.
    { destruct (is_const a); [injection Ha as <-; lia | apply (mk_getitem_mu _ _ _ Ha)]. }
    lia. }
  lia.
Qed.

Theorem rule_slice_transpose_mu e e' : rule_slice_transpose e = Some e' -> (mu e' < mu e)%nat.
Proof.
  destruct e as [| |y ix o| | | | | | | | | | |]; try discriminate.
  destruct y as [| | |x axes| | | | | | | | | |]; try discriminate. cbn [rule_slice_transpose].
  destruct (existsb _ ix); [discriminate|].
  destruct (mk_getitem x _) as [sliced|] eqn:Eg; [|discriminate].
  pose proof (mk_getitem_mu _ _ _ Eg) as Hm. pose proof (mu_pos x) as Hx.
  repeat match goal with |- context [if ?c then _ else _] => destruct c end;
    intros H; injection H as <-; cbn [mu]; lia.
Qed.

Theorem rule_transpose_transpose_mu e e' : rule_transpose_transpose e = Some e' -> (mu e' < mu e)%nat.
Proof.
  destruct e as [| | |y q| | | | | | | | | |]; try discriminate.
  destruct y as [| | |x p| | | | | | | | | |]; try discriminate. cbn [rule_transpose_transpose].
  intros H. injection H as <-. cbn [mu]. lia.
Qed.

Theorem rule_transpose_identity_mu e e' : rule_transpose_identity e = Some e' -> (mu e' < mu e)%nat.
Proof.
  destruct e as [| | |x axes| | | | | | | | | |]; try discriminate. cbn [rule_transpose_identity].
  destruct (natlist_eqb _ _); [|discriminate]. intros H. injection H as <-. cbn [mu]. lia.
Qed.

Theorem rule_rechunk_rechunk_mu e e' : rule_rechunk_rechunk e = Some e' -> (mu e' < mu e)%nat.
Proof.
  destruct e as [| | | | |y spec c prm bal2 pp2| | | | | | | |]; try discriminate.
  destruct y as [| | | | |x spec1 c1 prm1 bal1 pp1| | | | | | | |]; try discriminate. cbn [rule_rechunk_rechunk].
  destruct pp1; [discriminate|]. destruct (bal1 && negb bal2); [discriminate|].
  intros H. injection H as <-. cbn [mu]. lia.
Qed.

Theorem rule_rechunk_noop_mu e e' : rule_rechunk_noop e = Some e' -> (mu e' < mu e)%nat.
Proof.
  destruct e as [| | | | |x spec c prm bal pp| | | | | | | |]; try discriminate. cbn [rule_rechunk_noop].
  destruct (echunks x); [|discriminate]. destruct (_ && _); [|discriminate].
  intros H. injection H as <-. cbn [mu]. lia.
Qed.

Theorem rule_slice_arange_mu e e' : rule_slice_arange e = Some e' -> (mu e' < mu e)%nat.
Proof.
  destruct e as [| |y ix o| | | | | | | | | | |]; try discriminate.
  destruct y as [| | | | | | | | |start step count ch| | | |]; try discriminate.
  destruct ix as [|i ix]; try discriminate. destruct i as [z|s|]; try discriminate.
  destruct ix; try discriminate. cbn [rule_slice_arange].
  destruct (indices s count) as [[a b] k]. intros H. injection H as <-. cbn [mu]. lia.
Qed.

(* the measure is strictly monotone in every child, so a rule applied anywhere inside an
   expression decreases the measure of the whole expression *)
Lemma mu_sum_app l1 l2 : mu_sum (l1 ++ l2) = (mu_sum l1 + mu_sum l2)%nat.
Proof. induction l1 as [|x l1 IH]; [reflexivity|]. cbn [app mu_sum]. rewrite IH. lia. Qed.

Theorem mu_monotone_unary e e' :
  (mu e' < mu e)%nat ->
  (forall ix o, mu (ESlice e' ix o) < mu (ESlice e ix o))%nat /\
  (forall axes, mu (ETranspose e' axes) < mu (ETranspose e axes))%nat /\
  (forall s c p b pp, mu (ERechunk e' s c p b pp) < mu (ERechunk e s c p b pp))%nat /\
  (forall axes, mu (EExpandDims e' axes) < mu (EExpandDims e axes))%nat /\
  (forall shp c, mu (EBroadcastTo e' shp c) < mu (EBroadcastTo e shp c))%nat /\
  (forall c p, mu (ETasksRechunk e' c p) < mu (ETasksRechunk e c p))%nat.
Proof. intros H. repeat split; intros; cbn [mu]; lia. Qed.

Theorem mu_monotone_elemwise op l1 e e' l2 :
  (mu e' < mu e)%nat -> (mu (EElemwise op (l1 ++ e' :: l2)) < mu (EElemwise op (l1 ++ e :: l2)))%nat.
Proof. intros H. rewrite !mu_elemwise, !mu_sum_app, !app_length. cbn [mu_sum length]. lia. Qed.

Theorem rule_slice_expand_dims_mu e e' : rule_slice_expand_dims e = Some e' -> (mu e' < mu e)%nat.
Proof.
  destruct e as [| |y ix o| | | | | | | | | | |]; try discriminate.
  destruct y as [| | | | | |x axes| | | | | | |]; try discriminate. cbn [rule_slice_expand_dims].
  destruct (expand_input_index _ _ _) as [iin|]; [|discriminate].
  destruct (if forallb is_colon iin then Some x else mk_getitem x iin) as [sliced|] eqn:Es; [|discriminate].
  assert (mu sliced <= 3 * mu x)%nat as Hm.
  { destruct (forallb is_colon iin); [injection Es as <-; lia | apply (mk_getitem_mu _ _ _ Es)]. }
  destruct (expand_new_axes _ _ _ _); intros H; injection H as <-; cbn [mu]; lia.
Qed.

Theorem rule_transpose_elemwise_mu e e' : rule_transpose_elemwise e = Some e' -> (mu e' <= mu e + mu e)%nat.
Proof.
  destruct e as [| | |y axes| | | | | | | | | |]; try discriminate.
  destruct y as [| | | |op args| | | | | | | | |]; try discriminate. cbn [rule_transpose_elemwise].
  destruct (forallb _ args); [|discriminate]. intros H. injection H as <-.
  change (mu (ETranspose (EElemwise op args) axes)) with (S (mu (EElemwise op args))).
  rewrite !mu_elemwise.
  assert (mu_sum (map (fun a => if is_const a then a else ETranspose a axes) args) <= 2 * mu_sum args)%nat.
  { induction args as [|a args IH]; [cbn; lia|]. cbn [map mu_sum]. pose proof (mu_pos a).
    destruct (is_const a); cbn [mu]; lia. }
  rewrite map_length. lia.
Qed.
