(* C19 — overlap / boundaries / trim_internal / map_overlap (Window.v) *)
From DA Require Import PyBase PyBaseFacts Slicing Slice1dBase Scan Window WindowBase SlidingFacts.
From Coq Require Import ZifyBool.
Open Scope Z_scope.

Ltac Zify.zify_post_hook ::= Z.to_euclidean_division_equations.

(* ---- ensure_minimum_chunksize ---------------------------------------------------------- *)
Lemma Forall_snoc {A} (P : A -> Prop) l x : Forall P l -> P x -> Forall P (l ++ [x]).
Proof. intros Hl Hx. apply Forall_app. split; [exact Hl | constructor; [exact Hx | constructor]]. Qed.

Lemma zsum_snoc l x : zsum (l ++ [x]) = zsum l + x.
Proof. rewrite zsum_app. cbn [zsum]. lia. Qed.

Lemma emc_loop_inv size : 0 < size -> forall chunks output new,
  Forall (fun c => 0 <= c) chunks -> 0 <= new -> Forall (fun c => size <= c) output ->
  let '(o, n) := emc_loop size chunks output new in
  Forall (fun c => size <= c) o /\ 0 <= n /\ zsum o + n = zsum output + new + zsum chunks.
Proof.
  intros Hsize. induction chunks as [|c t IH]; intros output new Hnn Hnew Hout.
  - cbn [emc_loop zsum]. repeat split; [exact Hout | exact Hnew | lia].
  - inversion Hnn as [|c' t' Hc Ht]; subst. cbn [emc_loop zsum].
    destruct (c <? size) eqn:E1.
    + destruct (new >? size + (size - c)) eqn:E2.
      * (* flush new - (size - c), keep size; then size >= size flushes again *)
        destruct (size >=? size) eqn:E3; [|lia].
        destruct (c >=? size) eqn:E4; [lia|].
        specialize (IH ((output ++ [new - (size - c)]) ++ [size]) 0 Ht ltac:(lia)).
        specialize (IH ltac:(apply Forall_snoc; [apply Forall_snoc; [exact Hout | lia] | lia])).
        destruct (emc_loop size t ((output ++ [new - (size - c)]) ++ [size]) 0) as [o n].
        destruct IH as (I1 & I2 & I3). rewrite !zsum_snoc in I3. repeat split; [exact I1 | exact I2 | lia].
      * destruct (new + c >=? size) eqn:E3.
        -- destruct (c >=? size) eqn:E4; [lia|].
           specialize (IH (output ++ [new + c]) 0 Ht ltac:(lia) ltac:(apply Forall_snoc; [exact Hout | lia])).
           destruct (emc_loop size t (output ++ [new + c]) 0) as [o n].
           destruct IH as (I1 & I2 & I3). rewrite zsum_snoc in I3. repeat split; [exact I1 | exact I2 | lia].
        -- destruct (c >=? size) eqn:E4; [lia|].
           specialize (IH output (new + c) Ht ltac:(lia) Hout).
           destruct (emc_loop size t output (new + c)) as [o n].
           destruct IH as (I1 & I2 & I3). repeat split; [exact I1 | exact I2 | lia].
    + destruct (new >=? size) eqn:E3.
      * destruct (c >=? size) eqn:E4; [|lia].
        specialize (IH (output ++ [new]) (0 + c) Ht ltac:(lia) ltac:(apply Forall_snoc; [exact Hout | lia])).
        destruct (emc_loop size t (output ++ [new]) (0 + c)) as [o n].
        destruct IH as (I1 & I2 & I3). rewrite zsum_snoc in I3. repeat split; [exact I1 | exact I2 | lia].
      * destruct (c >=? size) eqn:E4; [|lia].
        specialize (IH output (new + c) Ht ltac:(lia) Hout).
        destruct (emc_loop size t output (new + c)) as [o n].
        destruct IH as (I1 & I2 & I3). repeat split; [exact I1 | exact I2 | lia].
Qed.

Lemma removelast_last_split (l : list Z) : l <> [] -> l = removelast l ++ [last l 0].
Proof. intros H. apply app_removelast_last. exact H. Qed.

(* contract of ensure_minimum_chunksize: a layout of the same length whose chunks are all >= size *)
Theorem ensure_minimum_chunksize_contract size cs out :
  Forall (fun c => 0 <= c) cs -> ensure_minimum_chunksize size cs = Some out ->
  zsum out = zsum cs /\ Forall (fun c => size <= c) out /\ Forall (fun c => 0 <= c) out /\ out <> [].
Proof.
  intros Hnn. unfold ensure_minimum_chunksize.
  destruct (zmin_list cs) as [mn|] eqn:Emn; [|discriminate].
  pose proof (zmin_list_le cs mn Emn) as Hmn.
  assert (Hne : cs <> []) by (destruct cs; [discriminate | discriminate]).
  assert (Hmn0 : 0 <= mn).
  { destruct cs as [|x t]; [congruence|]. cbn [zmin_list] in Emn. injection Emn as <-.
    inversion Hnn as [|x' t' Hx Ht]; subst. clear - Hx Ht. revert x Hx. induction t as [|y t IH]; intros x Hx; cbn [fold_left]; [exact Hx|].
    inversion Ht; subst. apply IH; [assumption | lia]. }
  destruct (size <=? mn) eqn:E1.
  - intros H. injection H as <-. repeat split; [| exact Hnn | exact Hne].
    eapply Forall_impl; [|exact Hmn]. cbn. intros a Ha. lia.
  - assert (Hsz : 0 < size) by lia.
    pose proof (emc_loop_inv size Hsz cs [] 0 Hnn ltac:(lia) ltac:(constructor)) as HI.
    destruct (emc_loop size cs [] 0) as [o n]. destruct HI as (I1 & I2 & I3). cbn [zsum] in I3.
    destruct (n >=? size) eqn:E2.
    + intros H. injection H as <-. rewrite zsum_snoc. repeat split; [lia | apply Forall_snoc; [exact I1 | lia] | | ].
      * apply Forall_snoc; [eapply Forall_impl; [|exact I1]; cbn; intros; lia | lia].
      * intros E. apply app_eq_nil in E as [_ E]. discriminate.
    + destruct o as [|o0 o']; [discriminate|].
      set (oo := o0 :: o') in *. assert (Hoo : oo <> []) by (unfold oo; discriminate). clearbody oo.
      intros H. injection H as <-.
      pose proof (removelast_last_split oo Hoo) as Hsplit.
      assert (Hlast : size <= last oo 0).
      { rewrite Hsplit in I1. apply Forall_app in I1 as [_ I1]. inversion I1; subst. assumption. }
      assert (Hrl : Forall (fun c => size <= c) (removelast oo)).
      { rewrite Hsplit in I1. apply Forall_app in I1 as [I1 _]. exact I1. }
      assert (Hz : zsum oo = zsum (removelast oo) + last oo 0).
      { rewrite Hsplit at 1. apply zsum_snoc. }
      rewrite zsum_snoc. repeat split; [lia | apply Forall_snoc; [exact Hrl | lia] | | ].
      * apply Forall_snoc; [eapply Forall_impl; [|exact Hrl]; cbn; intros; lia | lia].
      * intros E. apply app_eq_nil in E as [_ E]. discriminate.
Qed.

(* _get_overlap_rechunked_chunks keeps the contract (the "none" edge merges only coarsen) *)
Theorem overlap_rechunked_chunks_contract cs before after bnone out :
  Forall (fun c => 0 <= c) cs -> 0 <= before -> 0 <= after ->
  overlap_rechunked_chunks cs before after bnone = Some out ->
  zsum out = zsum cs /\ Forall (fun c => Z.max before after <= c) out /\ out <> [].
Proof.
  intros Hnn Hb Ha. unfold overlap_rechunked_chunks.
  destruct (ensure_minimum_chunksize (Z.max before after) cs) as [c1|] eqn:E; [|discriminate].
  destruct (ensure_minimum_chunksize_contract _ _ _ Hnn E) as (C1 & C2 & C3 & C4).
  destruct bnone; [|intros H; injection H as <-; repeat split; assumption].
  intros H. injection H as <-.
  set (c2 := match c1 with c0 :: c1' :: rest => if c0 <=? before then (c0 + c1') :: rest else c1 | _ => c1 end).
  assert (H2 : zsum c2 = zsum cs /\ Forall (fun c => Z.max before after <= c) c2 /\ c2 <> []).
  { unfold c2. destruct c1 as [|c0 [|c1' rest]]; [congruence | repeat split; assumption |].
    destruct (c0 <=? before); [|repeat split; assumption].
    inversion C2 as [|? ? Q0 Q1]; subst. inversion Q1 as [|? ? Q2 Q3]; subst.
    cbn [zsum] in *. repeat split; [lia | constructor; [lia | assumption] | discriminate]. }
  destruct H2 as (D1 & D2 & D3). clearbody c2.
  destruct ((1 <? zlen c2) && (last c2 0 <=? after)) eqn:E3; [|repeat split; assumption].
  apply andb_true_iff in E3 as [E3 _].
  pose proof (removelast_last_split c2 D3) as S1.
  assert (D4 : removelast c2 <> []).
  { intros Er. rewrite Er in S1. rewrite S1 in E3. unfold zlen in E3. cbn in E3. lia. }
  pose proof (removelast_last_split (removelast c2) D4) as S2.
  set (u := removelast (removelast c2)) in *. set (p := last (removelast c2) 0) in *. set (q := last c2 0) in *.
  assert (S3 : c2 = (u ++ [p]) ++ [q]) by (rewrite <- S2; exact S1).
  rewrite S3 in D1, D2. rewrite !zsum_snoc in D1.
  apply Forall_app in D2 as [D2 Dq]. apply Forall_app in D2 as [Du Dp].
  inversion Dq as [|? ? Hq _]. inversion Dp as [|? ? Hp _].
  rewrite zsum_snoc. repeat split; [lia | apply Forall_snoc; [exact Du | lia] |].
  intros Er. apply app_eq_nil in Er as [_ Er]. discriminate.
Qed.

(* ---- overlapped blocks are windows of the (padded) array ------------------------------- *)

(* the (lo, hi) bounds in P of the overlapped block j of nb: its own extent [a, a + c) widened
   by what _trim later removes: front = 0 for the first block of a "none" axis else ld,
   back = 0 for the last block of a "none" axis else rd *)
Definition fr (j ld : Z) (bnone : bool) : Z := if (j =? 0) && bnone then 0 else ld.
Definition bk (j nb rd : Z) (bnone : bool) : Z := if (j =? nb - 1) && bnone then 0 else rd.

Fixpoint trim_bounds (cs : list Z) (a j nb ld rd : Z) (bnone : bool) : list (Z * Z) :=
  match cs with
  | [] => []
  | c :: t => (a - fr j ld bnone, a + c + bk j nb rd bnone) :: trim_bounds t (a + c) (j + 1) nb ld rd bnone
  end.

Definition pys {A} (P : list A) (lh : Z * Z) : list A := pyslice P (fst lh) (snd lh).

Lemma lastn_pyslice {A} (P : list A) a b d :
  0 <= a -> 0 <= d -> a + d <= b -> b <= zlen P -> lastn d (pyslice P a b) = pyslice P (b - d) b.
Proof.
  intros Ha Hd Hab Hb. unfold lastn.
  pose proof (pyslice_length P a b Ha ltac:(lia) Hb) as HL. unfold zlen in HL.
  replace (length (pyslice P a b) - Z.to_nat d)%nat with (Z.to_nat (b - a - d)) by lia.
  rewrite skipn_pyslice by lia. f_equal. lia.
Qed.

Lemma split_blocks_skipn_cons {A} c t (P : list A) a :
  0 <= a -> 0 <= c ->
  split_blocks (c :: t) (skipn (Z.to_nat a) P) = pyslice P a (a + c) :: split_blocks t (skipn (Z.to_nat (a + c)) P).
Proof.
  intros Ha Hc. cbn [split_blocks]. f_equal.
  - unfold pyslice. do 2 f_equal. lia.
  - rewrite skipn_skipn. do 2 f_equal. lia.
Qed.

(* OverlapInternal on blocks that are all at least as long as the depths *)
Lemma overlap_internal_loop_spec {A} (P : list A) ld rd D :
  0 <= ld <= D -> 0 <= rd <= D ->
  forall cs a j nb prev,
    Forall (fun c => D <= c) cs -> 0 <= a -> a + zsum cs <= zlen P -> 0 <= j -> j + zlen cs = nb ->
    (j = 0 -> prev = None) ->
    (j <> 0 -> exists pb, prev = Some pb /\ lastn ld pb = pyslice P (a - ld) a /\ ld <= a) ->
    overlap_internal_loop prev (split_blocks cs (skipn (Z.to_nat a) P)) ld rd =
    map (pys P) (trim_bounds cs a j nb ld rd true).
Proof.
  intros Hld Hrd. induction cs as [|c t IH]; intros a j nb prev HD Ha Hfit Hj Hnb Hp0 Hp1; [reflexivity|].
  inversion HD as [|c' t' Hc Ht]; subst c' t'. cbn [zsum] in Hfit.
  assert (Hzt : 0 <= zsum t) by (apply zsum_nonneg; eapply Forall_impl; [|exact Ht]; cbn; intros; lia).
  rewrite split_blocks_skipn_cons by lia.
  cbn [overlap_internal_loop trim_bounds map]. f_equal.
  - unfold pys. cbn [fst snd]. unfold fr, bk.
    (* left ghost *)
    assert (EL : match prev with None => [] | Some p => lastn ld p end = pyslice P (a - (if (j =? 0) && true then 0 else ld)) a).
    { destruct (Z.eq_dec j 0) as [E0|E0].
      - rewrite (Hp0 E0). subst j. cbn. symmetry. apply pyslice_empty. lia.
      - destruct (Hp1 E0) as (pb & -> & Hl & _). rewrite Hl.
        destruct (j =? 0) eqn:Ej; [lia|]. reflexivity. }
    rewrite EL.
    (* right ghost *)
    assert (ER : match split_blocks t (skipn (Z.to_nat (a + c)) P) with [] => [] | nb0 :: _ => firstn (Z.to_nat rd) nb0 end
                 = pyslice P (a + c) (a + c + (if (j =? nb - 1) && true then 0 else rd))).
    { destruct t as [|c2 t2].
      - cbn [split_blocks]. rewrite zlen_cons in Hnb. change (zlen (@nil Z)) with 0 in Hnb.
        destruct (j =? nb - 1) eqn:Ej; [|lia]. cbn. symmetry. apply pyslice_empty. lia.
      - assert (Hc2 : D <= c2) by (inversion Ht; assumption). rewrite split_blocks_skipn_cons by lia.
        rewrite !zlen_cons in Hnb. pose proof (zlen_nonneg t2).
        destruct (j =? nb - 1) eqn:Ej; [lia|]. cbn [andb].
        rewrite firstn_pyslice by lia. reflexivity. }
    rewrite ER.
    assert (Hfr : 0 <= a - (if (j =? 0) && true then 0 else ld)).
    { destruct (Z.eq_dec j 0) as [E0|E0]; [subst j; cbn; lia|].
      destruct (Hp1 E0) as (_ & _ & _ & Hle). destruct (j =? 0); cbn; lia. }
    rewrite <- pyslice_app by (destruct ((j =? nb - 1) && true); destruct ((j =? 0) && true); lia).
    rewrite <- pyslice_app by (destruct ((j =? nb - 1) && true); destruct ((j =? 0) && true); lia).
    reflexivity.
  - apply IH; [exact Ht | lia | lia | lia | rewrite zlen_cons in Hnb; lia | lia |].
    intros _. exists (pyslice P a (a + c)). split; [reflexivity|]. split; [|lia].
    rewrite lastn_pyslice by lia. reflexivity.
Qed.

Lemma overlap_internal_spec {A} (P : list A) cs ld rd D :
  0 <= ld <= D -> 0 <= rd <= D -> Forall (fun c => D <= c) cs -> zsum cs <= zlen P ->
  overlap_internal (split_blocks cs P) ld rd = map (pys P) (trim_bounds cs 0 0 (zlen cs) ld rd true).
Proof.
  intros Hld Hrd HD Hfit. unfold overlap_internal.
  change P with (skipn (Z.to_nat 0) P) at 1.
  apply (overlap_internal_loop_spec P ld rd D Hld Hrd cs 0 0 (zlen cs) None HD); try lia.
  intros _. reflexivity.
Qed.

(* trimming such blocks gives back the plain blocks *)
Lemma trim_loop_bounds {A} (P : list A) ld rd bnone nb :
  0 <= ld -> 0 <= rd ->
  forall cs a j,
    Forall (fun c => 0 <= c) cs ->
    Forall (fun lh => 0 <= fst lh /\ snd lh <= zlen P) (trim_bounds cs a j nb ld rd bnone) ->
    trim_loop (map (pys P) (trim_bounds cs a j nb ld rd bnone)) j nb ld rd bnone =
    split_blocks cs (skipn (Z.to_nat a) P).
Proof.
  intros Hld Hrd. induction cs as [|c t IH]; intros a j Hnn Hin; [reflexivity|].
  inversion Hnn as [|? ? Hc Ht]; subst. cbn [trim_bounds] in Hin. inversion Hin as [|? ? [H1 H2] Hin']; subst.
  cbn [fst snd] in H1, H2.
  assert (Hfr : 0 <= fr j ld bnone) by (unfold fr; destruct ((j =? 0) && bnone); lia).
  assert (Hbk : 0 <= bk j nb rd bnone) by (unfold bk; destruct ((j =? nb - 1) && bnone); lia).
  rewrite split_blocks_skipn_cons by lia.
  cbn [trim_bounds map trim_loop]. f_equal.
  - unfold trim_block, pys. cbn [fst snd]. fold (fr j ld bnone). fold (bk j nb rd bnone).
    rewrite pyslice_length by lia.
    rewrite pyslice_pyslice by lia. f_equal; lia.
  - apply IH; assumption.
Qed.

Lemma trim_bounds_length cs : forall a j nb ld rd bnone, length (trim_bounds cs a j nb ld rd bnone) = length cs.
Proof. induction cs as [|c t IH]; intros; cbn; [reflexivity|]. rewrite IH. reflexivity. Qed.

Lemma trim_bounds_app cs1 cs2 : forall a j nb ld rd bnone,
  trim_bounds (cs1 ++ cs2) a j nb ld rd bnone =
  trim_bounds cs1 a j nb ld rd bnone ++ trim_bounds cs2 (a + zsum cs1) (j + zlen cs1) nb ld rd bnone.
Proof.
  induction cs1 as [|c t IH]; intros a j nb ld rd bnone.
  - cbn [app trim_bounds zsum]. change (zlen (@nil Z)) with 0. rewrite !Z.add_0_r. reflexivity.
  - cbn [app trim_bounds zsum]. rewrite IH, zlen_cons. do 2 f_equal; f_equal; lia.
Qed.

(* interior blocks of a "none" axis are widened like the blocks of a bounded axis *)
Lemma trim_bounds_interior cs : forall a j nb j' nb' ld rd,
  0 < j -> j + zlen cs < nb ->
  trim_bounds cs a j nb ld rd true = trim_bounds cs a j' nb' ld rd false.
Proof.
  induction cs as [|c t IH]; intros a j nb j' nb' ld rd Hj Hnb; [reflexivity|].
  rewrite zlen_cons in Hnb. pose proof (zlen_nonneg t).
  cbn [trim_bounds]. f_equal.
  - unfold fr, bk. rewrite !andb_false_r.
    destruct (j =? 0) eqn:E1; [lia|]. destruct (j =? nb - 1) eqn:E2; [lia|]. reflexivity.
  - apply IH; lia.
Qed.

Lemma trim_bounds_depth0 cs : forall a j nb j' nb' b b',
  trim_bounds cs a j nb 0 0 b = trim_bounds cs a j' nb' 0 0 b'.
Proof.
  induction cs as [|c t IH]; intros; [reflexivity|]. cbn [trim_bounds]. f_equal.
  - unfold fr, bk. destruct ((j =? 0) && b), ((j' =? 0) && b'), ((j =? nb - 1) && b), ((j' =? nb' - 1) && b'); reflexivity.
  - apply IH.
Qed.

Lemma trim_bounds_inb {A} (P : list A) ld rd D bnone nb :
  0 <= ld <= D -> 0 <= rd <= D ->
  forall cs a j,
    Forall (fun c => D <= c) cs -> fr j ld bnone <= a ->
    a + zsum cs + (if bnone then 0 else rd) <= zlen P -> 0 <= j -> j + zlen cs = nb ->
    Forall (fun lh => 0 <= fst lh /\ snd lh <= zlen P) (trim_bounds cs a j nb ld rd bnone).
Proof.
  intros Hld Hrd. induction cs as [|c t IH]; intros a j HD Ha Hfit Hj Hnb; [constructor|].
  inversion HD as [|c' t' Hc Ht]; subst c' t'. cbn [zsum] in Hfit. rewrite zlen_cons in Hnb.
  assert (Hzt : 0 <= zsum t) by (apply zsum_nonneg; eapply Forall_impl; [|exact Ht]; cbn; intros; lia).
  assert (Hfr0 : 0 <= fr j ld bnone) by (unfold fr; destruct ((j =? 0) && bnone); lia).
  cbn [trim_bounds]. constructor.
  - cbn [fst snd]. split; [lia|]. unfold bk.
    destruct t as [|c2 t2].
    + change (zlen (@nil Z)) with 0 in Hnb. cbn [zsum] in Hfit.
      destruct (j =? nb - 1) eqn:E; [|lia]. destruct bnone; cbn [andb]; lia.
    + inversion Ht as [|c2' t2' Hc2 Ht2]; subst c2' t2'. cbn [zsum] in Hfit, Hzt.
      assert (0 <= zsum t2) by (apply zsum_nonneg; eapply Forall_impl; [|exact Ht2]; cbn; intros; lia).
      destruct ((j =? nb - 1) && bnone); destruct bnone; lia.
  - apply IH; [exact Ht | | lia | lia | lia].
    unfold fr. destruct ((j + 1 =? 0) && bnone); lia.
Qed.

Lemma split_blocks_app_first {A} cs : forall (xs q : list A),
  Forall (fun c => 0 <= c) cs -> zsum cs <= zlen xs ->
  split_blocks cs (xs ++ q) = split_blocks cs xs.
Proof.
  induction cs as [|c t IH]; intros xs q Hnn Hs; [reflexivity|].
  inversion Hnn as [|? ? Hc Ht]; subst. cbn [zsum] in Hs. cbn [split_blocks].
  pose proof (zsum_nonneg t Ht). unfold zlen in Hs.
  f_equal.
  - rewrite firstn_app. replace (Z.to_nat c - length xs)%nat with 0%nat by lia. cbn [firstn]. apply app_nil_r.
  - rewrite skipn_app. replace (Z.to_nat c - length xs)%nat with 0%nat by lia. cbn [skipn].
    apply IH; [exact Ht|]. unfold zlen. rewrite skipn_length. lia.
Qed.

Lemma split_blocks_app {A} cs1 cs2 : forall (l1 l2 : list A),
  Forall (fun c => 0 <= c) cs1 -> zsum cs1 = zlen l1 ->
  split_blocks (cs1 ++ cs2) (l1 ++ l2) = split_blocks cs1 l1 ++ split_blocks cs2 l2.
Proof.
  induction cs1 as [|c t IH]; intros l1 l2 Hnn Hs.
  - cbn in Hs. destruct l1; [reflexivity|]. rewrite zlen_cons in Hs. pose proof (zlen_nonneg l1). lia.
  - inversion Hnn as [|? ? Hc Ht]; subst. cbn [zsum] in Hs. cbn [app split_blocks].
    pose proof (zsum_nonneg t Ht). unfold zlen in Hs.
    f_equal.
    + rewrite firstn_app. replace (Z.to_nat c - length l1)%nat with 0%nat by lia. cbn [firstn]. apply app_nil_r.
    + rewrite skipn_app. replace (Z.to_nat c - length l1)%nat with 0%nat by lia. cbn [skipn].
      apply IH; [exact Ht|]. unfold zlen. rewrite skipn_length. lia.
Qed.

(* ---- the boundary strips ------------------------------------------------------------------ *)
Lemma lastn_length {A} (l : list A) d : 0 <= d <= zlen l -> zlen (lastn d l) = d.
Proof. unfold lastn, zlen. intros H. rewrite skipn_length. lia. Qed.

Lemma pad_left_length {A} (k : bkind A) d x :
  is_none k = false -> 0 < d <= zlen x -> zlen (pad_left k d x) = d.
Proof.
  intros Hk Hd. destruct k; try discriminate; cbn [pad_left].
  - apply lastn_length. lia.
  - unfold zlen in *. rewrite rev_length, firstn_length. lia.
  - destruct x as [|x0 x']; [unfold zlen in Hd; cbn in Hd; lia|]. unfold zlen. rewrite repeat_length. lia.
  - unfold zlen. rewrite repeat_length. lia.
Qed.

Lemma pad_right_length {A} (k : bkind A) d x :
  is_none k = false -> 0 < d <= zlen x -> zlen (pad_right k d x) = d.
Proof.
  intros Hk Hd. destruct k; try discriminate; cbn [pad_right].
  - unfold zlen in *. rewrite firstn_length. lia.
  - unfold zlen. rewrite rev_length. apply lastn_length. lia.
  - destruct x as [|x0 x']; [unfold zlen in Hd; cbn in Hd; lia|]. unfold zlen. rewrite repeat_length. lia.
  - unfold zlen. rewrite repeat_length. lia.
Qed.

(* ---- overlap(): every overlapped block is a window of the padded array ------------------- *)
Definition ov_off {A} (k : bkind A) (ld : Z) : Z := if is_none k then 0 else ld.

Theorem overlap_spec {A} (blocks : list (list A)) ld rd (k : bkind A) ov :
  0 <= ld -> 0 <= rd -> (is_none k = false -> ld = rd) ->
  overlap blocks ld rd k = Some ov ->
  exists cs,
    overlap_rechunked_chunks (map zlen blocks) ld rd (is_none k) = Some cs /\
    zsum cs = zlen (concat blocks) /\ Forall (fun c => Z.max ld rd <= c) cs /\ cs <> [] /\
    ov = map (pys (pad k ld (concat blocks)))
             (trim_bounds cs (ov_off k ld) 0 (zlen cs) ld rd (is_none k)).
Proof.
  intros Hld Hrd Hsym. unfold overlap.
  destruct (overlap_rechunked_chunks (map zlen blocks) ld rd (is_none k)) as [cs|] eqn:Ecs; [|discriminate].
  assert (Hnn0 : Forall (fun c => 0 <= c) (map zlen blocks)).
  { apply Forall_forall. intros c Hc. apply in_map_iff in Hc as (b & <- & _). apply zlen_nonneg. }
  destruct (overlap_rechunked_chunks_contract _ _ _ _ _ Hnn0 Hld Hrd Ecs) as (C1 & C2 & C3).
  assert (Hsum : zsum (map zlen blocks) = zlen (concat blocks)).
  { clear. induction blocks as [|b t IH]; [reflexivity|]. cbn [map zsum concat]. rewrite zlen_app, IH. reflexivity. }
  set (xs := concat blocks) in *.
  assert (Hnn : Forall (fun c => 0 <= c) cs) by (eapply Forall_impl; [|exact C2]; cbn; intros; lia).
  intros H. exists cs. split; [reflexivity|]. split; [lia|]. split; [exact C2|]. split; [exact C3|].
  destruct (is_none k) eqn:Ek.
  - (* boundary "none" *)
    injection H as <-. unfold ov_off. rewrite Ek.
    assert (EP : pad k ld xs = xs).
    { unfold pad. destruct (ld =? 0); [reflexivity|]. destruct k; try discriminate. cbn. apply app_nil_r. }
    rewrite EP. apply (overlap_internal_spec xs cs ld rd (Z.max ld rd)); [lia | lia | exact C2 | lia].
  - specialize (Hsym eq_refl). subst rd. unfold ov_off. rewrite Ek.
    destruct (ld =? 0) eqn:E0.
    + (* depth 0: nothing is added *)
      injection H as <-. assert (ld = 0) by lia. subst ld.
      unfold boundaries_blocks, pad. cbn [Z.eqb].
      rewrite (overlap_internal_spec xs cs 0 0 (Z.max 0 0)) by (lia || assumption).
      f_equal. apply trim_bounds_depth0.
    + injection H as <-.
      assert (Hd : 0 < ld <= zlen xs).
      { split; [lia|]. destruct cs as [|c0 t0]; [congruence|]. inversion C2 as [|? ? Q0 Q1]; subst.
        inversion Hnn as [|? ? _ Q2]; subst. pose proof (zsum_nonneg t0 Q2). cbn [zsum] in C1. lia. }
      pose proof (pad_left_length k ld xs Ek Hd) as HL. pose proof (pad_right_length k ld xs Ek Hd) as HR.
      unfold pad. rewrite E0.
      set (pl := pad_left k ld xs) in *. set (pr := pad_right k ld xs) in *.
      assert (EB : boundaries_blocks k ld (split_blocks cs xs) = split_blocks ((ld :: cs) ++ [ld]) (pl ++ xs ++ pr)).
      { unfold boundaries_blocks. rewrite E0. rewrite concat_split_blocks by (assumption || lia).
        fold pl pr. destruct k; try discriminate;
        (change (pl ++ xs ++ pr) with (pl ++ (xs ++ pr));
         change ((ld :: cs) ++ [ld]) with ([ld] ++ (cs ++ [ld]));
         rewrite (split_blocks_app [ld] (cs ++ [ld]) pl (xs ++ pr)) by (repeat constructor; cbn [zsum]; lia);
         rewrite (split_blocks_app cs [ld] xs pr) by (assumption || lia);
         cbn [split_blocks]; unfold zlen in HL, HR;
         rewrite (firstn_all2 pl) by lia; rewrite (firstn_all2 pr) by lia; reflexivity). }
      rewrite EB.
      assert (HD2 : Forall (fun c => Z.max ld ld <= c) ((ld :: cs) ++ [ld])).
      { apply Forall_app. split; [constructor; [lia | exact C2] | constructor; [lia | constructor]]. }
      rewrite (overlap_internal_spec (pl ++ xs ++ pr) ((ld :: cs) ++ [ld]) ld ld (Z.max ld ld)); [| lia | lia | exact HD2 |].
      2:{ rewrite zsum_snoc. cbn [zsum]. rewrite !zlen_app. lia. }
      change ((ld :: cs) ++ [ld]) with (ld :: (cs ++ [ld])).
      cbn [trim_bounds map]. unfold drop_edge_blocks. cbn [tl].
      rewrite trim_bounds_app, map_app. cbn [trim_bounds map].
      rewrite removelast_last. f_equal.
      rewrite Z.add_0_l. apply trim_bounds_interior; [lia|].
      rewrite zlen_cons, zlen_app. change (zlen [ld]) with 1. lia.
Qed.

(* shape of the padded array *)
Lemma pad_shape {A} (k : bkind A) ld (xs : list A) :
  0 <= ld -> (is_none k = false -> ld <= zlen xs) ->
  exists pl pr, pad k ld xs = pl ++ xs ++ pr /\ zlen pl = ov_off k ld /\ zlen pr = ov_off k ld.
Proof.
  intros Hld Hfit. unfold pad, ov_off. destruct (ld =? 0) eqn:E0.
  - exists [], []. rewrite app_nil_r. split; [reflexivity|]. destruct (is_none k); split; reflexivity || (change (zlen (@nil A)) with 0; lia).
  - destruct (is_none k) eqn:Ek.
    + exists [], []. destruct k; try discriminate. cbn. split; [reflexivity|]. split; reflexivity.
    + exists (pad_left k ld xs), (pad_right k ld xs). split; [reflexivity|].
      specialize (Hfit eq_refl). split; [apply pad_left_length | apply pad_right_length]; (exact Ek || lia).
Qed.

Lemma cs_fits {A} (xs : list A) cs D : cs <> [] -> Forall (fun c => D <= c) cs -> Forall (fun c => 0 <= c) cs -> zsum cs = zlen xs -> D <= zlen xs.
Proof.
  intros Hne HD Hnn Hs. destruct cs as [|c0 t0]; [congruence|]. inversion HD as [|? ? Q0 Q1]; subst.
  inversion Hnn as [|? ? _ Q2]; subst. pose proof (zsum_nonneg t0 Q2). cbn [zsum] in Hs. lia.
Qed.

(* C19_overlap_trim_id *)
Theorem overlap_trim_id {A} (blocks : list (list A)) ld rd (k : bkind A) ov :
  0 <= ld -> 0 <= rd -> (is_none k = false -> ld = rd) ->
  overlap blocks ld rd k = Some ov ->
  exists cs,
    overlap_rechunked_chunks (map zlen blocks) ld rd (is_none k) = Some cs /\
    trim_internal ov ld rd (is_none k) = split_blocks cs (concat blocks) /\
    concat (trim_internal ov ld rd (is_none k)) = concat blocks /\
    map zlen ov = map (fun lh => snd lh - fst lh) (trim_bounds cs (ov_off k ld) 0 (zlen cs) ld rd (is_none k)).
Proof.
  intros Hld Hrd Hsym Hov.
  destruct (overlap_spec blocks ld rd k ov Hld Hrd Hsym Hov) as (cs & E1 & E2 & E3 & E4 & E5).
  exists cs. split; [exact E1|].
  set (xs := concat blocks) in *.
  assert (Hnn : Forall (fun c => 0 <= c) cs) by (eapply Forall_impl; [|exact E3]; cbn; intros; lia).
  assert (Hfit : Z.max ld rd <= zlen xs) by (apply (cs_fits xs cs); assumption).
  destruct (pad_shape k ld xs Hld ltac:(intros; lia)) as (pl & pr & EP & HL & HR).
  set (P := pad k ld xs) in *.
  assert (Hinb : Forall (fun lh => 0 <= fst lh /\ snd lh <= zlen P) (trim_bounds cs (ov_off k ld) 0 (zlen cs) ld rd (is_none k))).
  { apply (trim_bounds_inb P ld rd (Z.max ld rd)); [lia | lia | exact E3 | | | lia | lia].
    - unfold fr, ov_off. destruct (is_none k); cbn; lia.
    - rewrite EP, !zlen_app, HL, HR. unfold ov_off. destruct (is_none k) eqn:Ek; [lia|]. specialize (Hsym eq_refl). lia. }
  assert (Etrim : trim_internal ov ld rd (is_none k) = split_blocks cs xs).
  { assert (Hlen : zlen ov = zlen cs) by (rewrite E5; unfold zlen; rewrite map_length, trim_bounds_length; reflexivity).
    unfold trim_internal. rewrite Hlen, E5.
    rewrite (trim_loop_bounds P ld rd (is_none k) (zlen cs) Hld Hrd cs (ov_off k ld) 0 Hnn Hinb).
    rewrite EP. rewrite <- HL. unfold zlen at 1. rewrite Nat2Z.id.
    rewrite skipn_app, skipn_all, Nat.sub_diag. cbn [app skipn].
    apply split_blocks_app_first; [exact Hnn | lia]. }
  split; [exact Etrim|]. split; [rewrite Etrim; apply concat_split_blocks; assumption|].
  rewrite E5, map_map. apply map_ext_in. intros [lo hi] Hin. rewrite Forall_forall in Hinb. specialize (Hinb _ Hin).
  cbn [fst snd] in *. unfold pys. cbn [fst snd].
  destruct (Z_le_gt_dec lo hi) as [Hle|Hgt].
  - apply pyslice_length; lia.
  - rewrite pyslice_empty by lia. change (zlen (@nil A)) with 0.
    (* bounds are never inverted: hi - lo = c + fr + bk >= 0 *)
    exfalso. clear - Hin Hgt Hnn Hld Hrd.
    revert Hin. generalize (ov_off k ld) as a. generalize 0 as j. generalize (zlen cs) as nb.
    induction cs as [|c t IH]; intros nb j a Hin; [destruct Hin|].
    inversion Hnn as [|? ? Hc Ht]; subst. cbn [trim_bounds] in Hin. destruct Hin as [Hin|Hin].
    + injection Hin as <- <-. unfold fr, bk in Hgt. destruct ((j =? 0) && is_none k), ((j =? nb - 1) && is_none k); lia.
    + eapply IH; [exact Ht | exact Hin].
Qed.

(* ---- map_overlap of a radius-r stencil ----------------------------------------------------- *)
Section Stencil.
  Context {A B : Type}.
  Variable r : nat.
  Variable g : list A -> B.
  Variable F : list A -> list B.
  Hypothesis HF : is_stencil r g F.

  (* the stencil value at position p of the padded array P *)
  Definition sval (P : list A) (p : Z) : B := g (pyslice P (p - Z.of_nat r) (p + Z.of_nat r + 1)).

  Lemma F_length l : zlen (F l) = zlen l.
  Proof. unfold zlen. destruct (HF l) as [H _]. rewrite H. reflexivity. Qed.

  Lemma trim_map_lengths (P : list A) ld rd bnone nb :
    0 <= ld -> 0 <= rd ->
    forall cs a j,
      Forall (fun c => 0 <= c) cs ->
      Forall (fun lh => 0 <= fst lh /\ snd lh <= zlen P) (trim_bounds cs a j nb ld rd bnone) ->
      map zlen (trim_loop (map F (map (pys P) (trim_bounds cs a j nb ld rd bnone))) j nb ld rd bnone) = cs.
  Proof.
    intros Hld Hrd. induction cs as [|c t IH]; intros a j Hnn Hin; [reflexivity|].
    inversion Hnn as [|c' t' Hc Ht]; subst c' t'. cbn [trim_bounds] in Hin. inversion Hin as [|x y [H1 H2] Hin']; subst x y.
    cbn [fst snd] in H1, H2.
    assert (Hfr : 0 <= fr j ld bnone) by (unfold fr; destruct ((j =? 0) && bnone); lia).
    assert (Hbk : 0 <= bk j nb rd bnone) by (unfold bk; destruct ((j =? nb - 1) && bnone); lia).
    cbn [trim_bounds map trim_loop]. f_equal; [|apply IH; assumption].
    unfold trim_block, pys. cbn [fst snd]. fold (fr j ld bnone). fold (bk j nb rd bnone).
    set (L := pyslice P (a - fr j ld bnone) (a + c + bk j nb rd bnone)).
    assert (HL : zlen L = c + fr j ld bnone + bk j nb rd bnone) by (unfold L; rewrite pyslice_length; lia).
    pose proof (F_length L) as HFL.
    rewrite pyslice_length; lia.
  Qed.

  Lemma stencil_pointwise (P : list A) ld rd bnone nb a0 ntot :
    Z.of_nat r <= ld -> Z.of_nat r <= rd ->
    forall cs a j,
      Forall (fun c => 0 <= c) cs ->
      Forall (fun lh => 0 <= fst lh /\ snd lh <= zlen P) (trim_bounds cs a j nb ld rd bnone) ->
      0 <= j -> j + zlen cs = nb -> a + zsum cs = a0 + ntot -> (j = 0 -> a = a0) ->
      forall p, a <= p < a + zsum cs ->
        (bnone = true -> a0 + Z.of_nat r <= p /\ p + Z.of_nat r < a0 + ntot) ->
        nth_error (concat (trim_loop (map F (map (pys P) (trim_bounds cs a j nb ld rd bnone))) j nb ld rd bnone))
                  (Z.to_nat (p - a)) = Some (sval P p).
  Proof.
    intros Hr1 Hr2. induction cs as [|c t IH]; intros a j Hnn Hin Hj Hnb Hsum Hj0 p Hp Hint; [cbn [zsum] in Hp; lia|].
    inversion Hnn as [|c' t' Hc Ht]; subst c' t'.
    pose proof (trim_map_lengths P ld rd bnone nb ltac:(lia) ltac:(lia) (c :: t) a j Hnn Hin) as HLs.
    cbn [trim_bounds] in Hin. inversion Hin as [|x y [H1 H2] Hin']; subst x y. cbn [fst snd] in H1, H2.
    assert (Hfr : 0 <= fr j ld bnone) by (unfold fr; destruct ((j =? 0) && bnone); lia).
    assert (Hbk : 0 <= bk j nb rd bnone) by (unfold bk; destruct ((j =? nb - 1) && bnone); lia).
    cbn [zsum] in Hp, Hsum. rewrite zlen_cons in Hnb.
    assert (Hzt : 0 <= zsum t) by (apply zsum_nonneg; exact Ht).
    cbn [trim_bounds map trim_loop concat] in *. injection HLs as HL1 HL2.
    set (ovb := pys P (a - fr j ld bnone, a + c + bk j nb rd bnone)) in *.
    assert (Lov : zlen ovb = c + fr j ld bnone + bk j nb rd bnone) by (unfold ovb, pys; cbn [fst snd]; rewrite pyslice_length; lia).
    destruct (Z_lt_ge_dec p (a + c)) as [Hlt|Hge].
    - rewrite nth_error_app1 by (unfold zlen in HL1; lia).
      unfold trim_block. fold (fr j ld bnone). fold (bk j nb rd bnone).
      rewrite nth_error_pyslice by (rewrite ?F_length; lia).
      destruct (HF ovb) as [_ HFp].
      (* interior of the overlapped block *)
      assert (Hl : (r <= Z.to_nat (fr j ld bnone) + Z.to_nat (p - a))%nat).
      { unfold fr. destruct ((j =? 0) && bnone) eqn:E.
        - apply andb_true_iff in E as [E1 E2]. specialize (Hj0 ltac:(lia)). destruct (Hint E2). lia.
        - lia. }
      assert (Hu : (Z.to_nat (fr j ld bnone) + Z.to_nat (p - a) + r < length ovb)%nat).
      { unfold zlen in Lov. unfold bk in *. destruct ((j =? nb - 1) && bnone) eqn:E.
        - apply andb_true_iff in E as [E1 E2]. destruct (Hint E2).
          assert (zlen t = 0) by lia. destruct t; [cbn [zsum] in Hsum; lia | rewrite zlen_cons in H3; pose proof (zlen_nonneg t); lia].
        - lia. }
      rewrite (HFp _ Hl Hu). f_equal. unfold sval. f_equal.
      unfold ovb, pys. cbn [fst snd].
      replace (Z.to_nat (fr j ld bnone) + Z.to_nat (p - a) - r)%nat with (Z.to_nat (fr j ld bnone + (p - a) - Z.of_nat r)) by lia.
      rewrite skipn_pyslice by lia.
      replace (2 * r + 1)%nat with (Z.to_nat (2 * Z.of_nat r + 1)) by lia.
      unfold zlen in Lov. rewrite firstn_pyslice by lia. f_equal; lia.
    - rewrite nth_error_app2 by (unfold zlen in HL1; lia).
      replace (Z.to_nat (p - a) - length (trim_block (F ovb) j nb ld rd bnone))%nat with (Z.to_nat (p - (a + c))) by (unfold zlen in HL1; lia).
      apply IH; try assumption; try lia.
  Qed.
End Stencil.

Section StencilTheorems.
  Context {A B : Type}.
  Variable r : nat.
  Variable g : list A -> B.
  Variable F : list A -> list B.
  Hypothesis HF : is_stencil r g F.

  Lemma concat_zlen (l : list (list B)) : zlen (concat l) = zsum (map zlen l).
  Proof. induction l as [|b t IH]; [reflexivity|]. cbn [concat map zsum]. rewrite zlen_app, IH. reflexivity. Qed.

  (* the common core: block layout of the result and its value at every (interior) position *)
  Lemma map_overlap_pointwise (blocks : list (list A)) ld rd (k : bkind A) res :
    Z.of_nat r <= ld -> Z.of_nat r <= rd -> (is_none k = false -> ld = rd) ->
    map_overlap F blocks ld rd k = Some res ->
    exists cs,
      overlap_rechunked_chunks (map zlen blocks) ld rd (is_none k) = Some cs /\
      map zlen res = cs /\ zsum cs = zlen (concat blocks) /\
      forall p, 0 <= p < zlen (concat blocks) ->
        (is_none k = true -> Z.of_nat r <= p /\ p + Z.of_nat r < zlen (concat blocks)) ->
        nth_error (concat res) (Z.to_nat p) = Some (sval r g (pad k ld (concat blocks)) (ov_off k ld + p)).
  Proof.
    intros Hr1 Hr2 Hsym. unfold map_overlap.
    destruct (overlap blocks ld rd k) as [ov|] eqn:Hov; [|discriminate]. intros H. injection H as <-.
    assert (Hld : 0 <= ld) by lia. assert (Hrd : 0 <= rd) by lia.
    destruct (overlap_spec blocks ld rd k ov Hld Hrd Hsym Hov) as (cs & E1 & E2 & E3 & E4 & E5).
    exists cs. split; [exact E1|].
    set (xs := concat blocks) in *.
    assert (Hnn : Forall (fun c => 0 <= c) cs) by (eapply Forall_impl; [|exact E3]; cbn; intros; lia).
    assert (Hfit : Z.max ld rd <= zlen xs) by (apply (cs_fits xs cs); assumption).
    destruct (pad_shape k ld xs Hld ltac:(intros; lia)) as (pl & pr & EP & HL & HR).
    set (P := pad k ld xs) in *.
    assert (Hinb : Forall (fun lh => 0 <= fst lh /\ snd lh <= zlen P) (trim_bounds cs (ov_off k ld) 0 (zlen cs) ld rd (is_none k))).
    { apply (trim_bounds_inb P ld rd (Z.max ld rd)); [lia | lia | exact E3 | | | lia | lia].
      - unfold fr, ov_off. destruct (is_none k); cbn; lia.
      - rewrite EP, !zlen_app, HL, HR. unfold ov_off. destruct (is_none k) eqn:Ek; [lia|]. specialize (Hsym eq_refl). lia. }
    assert (Hlen : zlen (map F ov) = zlen cs) by (rewrite E5; unfold zlen; rewrite !map_length, trim_bounds_length; reflexivity).
    unfold trim_internal. rewrite Hlen, E5.
    split; [apply (trim_map_lengths r g F HF P ld rd (is_none k) (zlen cs) Hld Hrd cs _ 0 Hnn Hinb)|].
    split; [exact E2|].
    intros p Hp Hint.
    pose proof (stencil_pointwise r g F HF P ld rd (is_none k) (zlen cs) (ov_off k ld) (zlen xs) Hr1 Hr2
                  cs (ov_off k ld) 0 Hnn Hinb ltac:(lia) ltac:(lia) ltac:(lia) ltac:(intros; reflexivity)
                  (ov_off k ld + p) ltac:(lia)) as HP.
    replace (ov_off k ld + p - ov_off k ld) with p in HP by lia.
    apply HP. intros Hk. specialize (Hint Hk). lia.
  Qed.

  (* C19_map_overlap_stencil, boundary kinds periodic / reflect / nearest / constant *)
  Theorem map_overlap_stencil_bounded (blocks : list (list A)) d (k : bkind A) res :
    is_none k = false -> Z.of_nat r <= d ->
    map_overlap F blocks d d k = Some res ->
    let xs := concat blocks in
    concat res = stencil_valid r g (pyslice (pad k d xs) (d - Z.of_nat r) (d + zlen xs + Z.of_nat r)) /\
    overlap_rechunked_chunks (map zlen blocks) d d false = Some (map zlen res).
  Proof.
    intros Hk Hr Hmo xs.
    destruct (map_overlap_pointwise blocks d d k res Hr Hr ltac:(intros; reflexivity) Hmo) as (cs & E1 & E2 & E3 & E4).
    fold xs in E3, E4. rewrite Hk in E1. split; [|rewrite E2; exact E1].
    unfold ov_off in E4. rewrite Hk in E4.
    assert (Hn : zlen (concat res) = zlen xs) by (rewrite concat_zlen, E2; exact E3).
    assert (Hnn : Forall (fun c => 0 <= c) (map zlen blocks)).
    { apply Forall_forall. intros c Hc. apply in_map_iff in Hc as (b & <- & _). apply zlen_nonneg. }
    assert (Hd0 : 0 <= d) by lia.
    destruct (overlap_rechunked_chunks_contract (map zlen blocks) d d false cs Hnn Hd0 Hd0 E1) as (C1 & C2 & C3).
    assert (Hnn' : Forall (fun c => 0 <= c) cs) by (eapply Forall_impl; [|exact C2]; cbn; intros; lia).
    assert (Hfit : Z.max d d <= zlen xs) by (apply (cs_fits xs cs); assumption).
    destruct (pad_shape k d xs ltac:(lia) ltac:(intros; lia)) as (pl & pr & EP & HL & HR).
    unfold ov_off in HL, HR. rewrite Hk in HL, HR.
    set (P := pad k d xs) in *.
    assert (HP : zlen P = d + zlen xs + d) by (rewrite EP, !zlen_app; lia).
    rewrite (list_eq_nth_error (concat res) (fun q => sval r g P (d + Z.of_nat q)) (Z.to_nat (zlen xs))).
    - unfold stencil_valid.
      assert (HLn : length (pyslice P (d - Z.of_nat r) (d + zlen xs + Z.of_nat r)) = (Z.to_nat (zlen xs) + 2 * r)%nat).
      { pose proof (pyslice_length P (d - Z.of_nat r) (d + zlen xs + Z.of_nat r) ltac:(lia) ltac:(pose proof (zlen_nonneg xs); lia) ltac:(lia)) as Hq.
        unfold zlen in Hq. unfold zlen. lia. }
      rewrite HLn. replace (Z.to_nat (zlen xs) + 2 * r - 2 * r)%nat with (Z.to_nat (zlen xs)) by lia.
      apply map_ext_in. intros q Hq. apply in_seq in Hq. unfold sval. f_equal.
      replace (skipn q) with (@skipn A (Z.to_nat (Z.of_nat q))) by (rewrite Nat2Z.id; reflexivity). rewrite skipn_pyslice by lia.
      replace (2 * r + 1)%nat with (Z.to_nat (2 * Z.of_nat r + 1)) by lia.
      rewrite firstn_pyslice by lia. f_equal; lia.
    - unfold zlen in Hn. unfold zlen. lia.
    - intros q Hq. rewrite <- (Nat2Z.id q) at 1. apply E4; [lia|]. intros Hc. congruence.
  Qed.

  (* C19_map_overlap_stencil, boundary "none": every position at least r from both ends *)
  Theorem map_overlap_stencil_none (blocks : list (list A)) ld rd res :
    Z.of_nat r <= ld -> Z.of_nat r <= rd ->
    map_overlap F blocks ld rd BNone = Some res ->
    let xs := concat blocks in
    zlen (concat res) = zlen xs /\
    pyslice (concat res) (Z.of_nat r) (zlen xs - Z.of_nat r) = stencil_valid r g xs /\
    overlap_rechunked_chunks (map zlen blocks) ld rd true = Some (map zlen res).
  Proof.
    intros Hr1 Hr2 Hmo xs.
    destruct (map_overlap_pointwise blocks ld rd BNone res Hr1 Hr2 ltac:(intros; discriminate) Hmo) as (cs & E1 & E2 & E3 & E4).
    fold xs in E3, E4. cbn [is_none] in E1, E4.
    assert (Hn : zlen (concat res) = zlen xs) by (rewrite concat_zlen, E2; exact E3).
    split; [exact Hn|]. split; [|rewrite E2; exact E1].
    assert (EP : pad (@BNone A) ld xs = xs).
    { unfold pad. destruct (ld =? 0); [reflexivity|]. cbn. apply app_nil_r. }
    rewrite EP in E4. unfold ov_off in E4. cbn [is_none] in E4.
    unfold stencil_valid.
    destruct (Z_le_gt_dec (zlen xs) (2 * Z.of_nat r)) as [Hs|Hs].
    - replace (length xs - 2 * r)%nat with 0%nat by (unfold zlen in Hs; lia). cbn [seq map]. apply pyslice_empty. lia.
    - rewrite (list_eq_nth_error (pyslice (concat res) (Z.of_nat r) (zlen xs - Z.of_nat r))
                                 (fun q => sval r g xs (Z.of_nat r + Z.of_nat q)) (length xs - 2 * r)).
      + apply map_ext_in. intros q Hq. apply in_seq in Hq. unfold sval. f_equal.
        unfold pyslice. replace (Z.to_nat (Z.of_nat r + Z.of_nat q - Z.of_nat r)) with q by lia. f_equal. lia.
      + pose proof (pyslice_length (concat res) (Z.of_nat r) (zlen xs - Z.of_nat r) ltac:(lia) ltac:(lia) ltac:(lia)) as HL.
        unfold zlen in HL. unfold zlen. lia.
      + intros q Hq. unfold zlen in Hs. rewrite nth_error_pyslice by (unfold zlen; lia).
        rewrite Nat2Z.id. replace (r + q)%nat with (Z.to_nat (Z.of_nat r + Z.of_nat q)) by lia.
        rewrite E4; [f_equal; f_equal; lia | unfold zlen; lia |]. intros _. unfold zlen. lia.
  Qed.
End StencilTheorems.

(* ---- the concrete stencil of the harness / Examples really is a radius-r stencil ---------- *)
Lemma nth_firstn_lt {T} (l : list T) : forall m i d, (i < m)%nat -> nth i (firstn m l) d = nth i l d.
Proof.
  induction l as [|x l IH]; intros m i d Hi; [rewrite firstn_nil; reflexivity|].
  destruct m; [lia|]. destruct i; [reflexivity|]. cbn [firstn nth]. apply IH. lia.
Qed.

Lemma nth_skipn_add {T} (l : list T) : forall s i d, nth i (skipn s l) d = nth (s + i) l d.
Proof.
  induction l as [|x l IH]; intros s i d; [rewrite skipn_nil; destruct i, s; reflexivity|].
  destruct s; [reflexivity|]. cbn [skipn Nat.add nth]. apply IH.
Qed.

Lemma roll_stencil_is_stencil (r : nat) :
  is_stencil r (roll_stencil_g (Z.of_nat r)) (roll_stencil (Z.of_nat r)).
Proof.
  intros l. split; [unfold roll_stencil; rewrite map_length, seq_length; reflexivity|].
  intros t Hl Hu. unfold roll_stencil.
  set (f := fun t0 : nat => zsum (map (fun k => (k + Z.of_nat r + 1) * nthZ l ((Z.of_nat t0 - k) mod zlen l))
                                      (zrange (- Z.of_nat r) (Z.of_nat r + 1) 1))).
  rewrite (nth_error_nth' (map f (seq 0 (length l))) (f 0%nat)) by (rewrite map_length, seq_length; lia).
  rewrite map_nth, seq_nth by lia. cbn [Nat.add]. f_equal. unfold f, roll_stencil_g. f_equal.
  apply map_ext_in. intros k Hk.
  assert (Hkr : - Z.of_nat r <= k <= Z.of_nat r).
  { unfold zrange in Hk. apply in_map_iff in Hk as (i & <- & Hi). apply in_seq in Hi. rewrite range_len_1 in Hi. lia. }
  f_equal. unfold zlen. rewrite Z.mod_small by lia.
  unfold nthZ. rewrite nth_firstn_lt by lia. rewrite nth_skipn_add. f_equal. lia.
Qed.
