(* Facts about the reference semantics (ProgSem.v), part 5: EVERY operation reads its operand in bounds
   (so it is a congruence for equality on the index space), hence the flat evaluator [eval] is the
   tabulation of the compositional index-function denotation [pden] for all programs. *)
From DA Require Import PyBase PyBaseFacts Slicing NormalizeFacts FuseFacts NdArray NdArrayFacts ProgSem ProgSemFacts ProgSemLaws ProgSemReduce.
From Coq Require Import ZifyBool.
Open Scope Z_scope.
Ltac Zify.zify_post_hook ::= Z.to_euclidean_division_equations.

(* ---------------------------------------------------------------------- *)
(* helpers *)
Lemma in_bounds_upd ax f out s' s :
  in_bounds out s' -> length s' = length s -> (ax < length s)%nat ->
  (forall k, k <> ax -> nth k s' 0 = nth k s 0) ->
  0 <= f (nth ax out 0) < nth ax s 0 ->
  in_bounds (upd ax f out) s.
Proof.
  intros Ho Hl Hax Hoff Hf. apply in_bounds_iff_nth in Ho. destruct Ho as [Hlo Ho].
  apply in_bounds_iff_nth. unfold upd. rewrite set_nth_length. split; [lia|]. intros k Hk.
  destruct (Nat.eq_dec k ax) as [->|Hne].
  - rewrite nth_set_nth_eq by lia. exact Hf.
  - rewrite nth_set_nth_neq by congruence. rewrite <- Hoff by exact Hne. apply Ho. lia.
Qed.

Lemma set_nth_off k v (s : list Z) j : j <> k -> nth j (set_nth k v s) 0 = nth j s 0.
Proof. intros H. apply nth_set_nth_neq. congruence. Qed.

Lemma ltn_lt a n : ltn a n = true <-> (a < n)%nat.
Proof. unfold ltn. apply Nat.ltb_lt. Qed.

(* ---------------------------------------------------------------------- *)
(* reshape *)
Lemma unravel_in_bounds s : forall k, nonneg_shape s -> 0 <= k < prodZ s -> in_bounds (unravel s k) s.
Proof.
  unfold nonneg_shape. induction s as [|n s IH]; intros k Hn Hk; cbn [unravel in_bounds]; [exact I|].
  inversion Hn as [|n0 s0 Hn0 Hs]; subst. rewrite prodZ_cons in Hk.
  pose proof (prodZ_nonneg s Hs) as HP.
  assert (0 < prodZ s) as HP0 by nia.
  split.
  - split; [apply Z.div_pos; lia|]. apply Z.div_lt_upper_bound; lia.
  - apply IH; [exact Hs|]. apply Z.mod_pos_bound. exact HP0.
Qed.

Lemma filter_nonneg_all req : length (filter (fun d => d <? 0) req) = O -> filter (fun d => 0 <=? d) req = req.
Proof.
  induction req as [|d req IH]; intros H; [reflexivity|]. cbn [filter] in *.
  destruct (d <? 0) eqn:E; cbn [length] in H; [discriminate|].
  replace (0 <=? d) with true by lia. rewrite IH by exact H. reflexivity.
Qed.

Lemma prodZ_subst_one v req : length (filter (fun d => d <? 0) req) = 1%nat ->
  prodZ (map (fun d => if d <? 0 then v else d) req) = v * prodZ (filter (fun d => 0 <=? d) req).
Proof.
  induction req as [|d req IH]; intros H; cbn [filter length] in H; [discriminate|].
  cbn [map filter]. destruct (d <? 0) eqn:E.
  - cbn [length] in H. replace (0 <=? d) with false by lia. rewrite prodZ_cons. f_equal.
    assert (length (filter (fun d0 => d0 <? 0) req) = O) as H0 by lia.
    rewrite (filter_nonneg_all req H0).
    clear - H0. induction req as [|e req IH]; [reflexivity|]. cbn [filter] in H0. destruct (e <? 0) eqn:E; [discriminate|].
    cbn [map]. rewrite E, !prodZ_cons, IH by exact H0. reflexivity.
  - replace (0 <=? d) with true by lia. rewrite !prodZ_cons, IH by exact H. ring.
Qed.

Lemma reshape_resolve_prod total req s : reshape_resolve total req = Some s -> prodZ s = total.
Proof.
  unfold reshape_resolve.
  destruct (length (filter (fun d => d <? 0) req)) as [|[|k]] eqn:E; [| |discriminate].
  - break_if; [|discriminate]. intros H. injection H as <-. rewrite (filter_nonneg_all req E) in *. lia.
  - break_if; [|discriminate]. intros H. injection H as <-. rewrite (prodZ_subst_one _ req E).
    set (known := prodZ (filter (fun d => 0 <=? d) req)) in *.
    assert (0 < known /\ total mod known = 0) as [Hk Hm] by lia.
    pose proof (Z.div_mod total known ltac:(lia)). nia.
Qed.

(* ---------------------------------------------------------------------- *)
(* every unary operation is a congruence *)
Lemma congr_expand ax : un_congr (OExpand ax).
Proof.
  intros y y' Hn Hok [Hs Hg]. cbn [un_arr un_ok] in *. apply Nat.leb_le in Hok.
  split; cbn [aexpand shape get]; [rewrite Hs; reflexivity|].
  intros out Ho. apply Hg. apply in_bounds_iff_nth in Ho. destruct Ho as [Hlo Ho].
  rewrite insert_at_length in * by exact Hok.
  apply in_bounds_iff_nth. rewrite remove_at_length by lia. split; [lia|]. intros k Hk.
  rewrite nth_remove_at. destruct (Nat.ltb k ax) eqn:E; [apply Nat.ltb_lt in E | apply Nat.ltb_ge in E].
  - specialize (Ho k ltac:(lia)). rewrite nth_insert_at in Ho by exact Hok.
    apply Nat.ltb_lt in E. rewrite E in Ho. exact Ho.
  - specialize (Ho (S k) ltac:(lia)). rewrite nth_insert_at in Ho by exact Hok.
    replace (Nat.ltb (S k) ax) with false in Ho by (symmetry; apply Nat.ltb_ge; lia).
    replace (Nat.eqb (S k) ax) with false in Ho by (symmetry; apply Nat.eqb_neq; lia).
    replace (S k - 1)%nat with k in Ho by lia. exact Ho.
Qed.

Lemma congr_squeeze ax : un_congr (OSqueeze ax).
Proof.
  intros y y' Hn Hok [Hs Hg]. cbn [un_arr un_ok] in *. apply andb_true_iff in Hok. destruct Hok as [Hax H1].
  apply ltn_lt in Hax. split; cbn [asqueeze shape get]; [rewrite Hs; reflexivity|].
  intros out Ho. apply Hg. apply in_bounds_iff_nth in Ho. destruct Ho as [Hlo Ho].
  rewrite remove_at_length in * by exact Hax.
  apply in_bounds_iff_nth. rewrite insert_at_length by lia. split; [lia|]. intros k Hk.
  rewrite nth_insert_at by lia.
  destruct (Nat.ltb k ax) eqn:E; [apply Nat.ltb_lt in E | apply Nat.ltb_ge in E].
  - specialize (Ho k ltac:(lia)). rewrite nth_remove_at in Ho. apply Nat.ltb_lt in E. rewrite E in Ho. exact Ho.
  - destruct (Nat.eqb k ax) eqn:E2; [apply Nat.eqb_eq in E2; subst k; lia | apply Nat.eqb_neq in E2].
    specialize (Ho (k - 1)%nat ltac:(lia)). rewrite nth_remove_at in Ho.
    replace (Nat.ltb (k - 1) ax) with false in Ho by (symmetry; apply Nat.ltb_ge; lia).
    replace (S (k - 1)) with k in Ho by lia. exact Ho.
Qed.

Lemma congr_broadcast shp : un_congr (OBroadcast shp).
Proof.
  intros y y' Hn Hok [Hs Hg]. cbn [un_arr un_ok] in *. apply andb_true_iff in Hok. destruct Hok as [Hb _].
  split; cbn [abroadcast_to shape get]; [reflexivity|].
  intros out Ho. rewrite <- Hs. apply Hg. apply (bidx_in_bounds _ shp); [apply bcast_intob_spec; exact Hb | exact Ho].
Qed.

Lemma congr_flip ax : un_congr (OFlip ax).
Proof.
  intros y [sy' gy'] Hn Hok [Hs Hg]. cbn [shape get] in Hs, Hg. subst sy'. cbn [un_arr un_ok] in *. apply ltn_lt in Hok.
  split; cbn [aflip shape get]; [reflexivity|]. intros out Ho. apply Hg.
  pose proof (in_bounds_nth _ _ ax Ho Hok).
  apply (in_bounds_upd ax _ out (shape y)); try assumption; [reflexivity | intros; reflexivity | lia].
Qed.

Lemma congr_roll sh ax : un_congr (ORoll sh ax).
Proof.
  intros y [sy' gy'] Hn Hok [Hs Hg]. cbn [shape get] in Hs, Hg. subst sy'. cbn [un_arr un_ok] in *. apply ltn_lt in Hok.
  split; cbn [aroll shape get]; [reflexivity|]. intros out Ho. apply Hg.
  pose proof (in_bounds_nth _ _ ax Ho Hok).
  apply (in_bounds_upd ax _ out (shape y)); try assumption; [reflexivity | intros; reflexivity|].
  apply Z.mod_pos_bound. lia.
Qed.

Lemma congr_take idx ax : un_congr (OTake idx ax).
Proof.
  intros y [sy' gy'] Hn Hok [Hs Hg]. cbn [shape get] in Hs, Hg. subst sy'. cbn [un_arr un_ok] in *. apply andb_true_iff in Hok. destruct Hok as [Hax Hidx].
  apply ltn_lt in Hax. split; cbn [atake shape get]; [reflexivity|]. intros out Ho. apply Hg.
  pose proof (in_bounds_nth _ _ ax Ho) as Hi. rewrite set_nth_length in Hi. specialize (Hi Hax).
  rewrite nth_set_nth_eq in Hi by exact Hax. unfold lenZ in Hi.
  apply (in_bounds_upd ax _ out (set_nth ax (lenZ idx) (shape y))); try assumption.
  - apply set_nth_length.
  - intros k Hk. apply set_nth_off. exact Hk.
  - apply posify_range. rewrite forallb_forall in Hidx. apply Hidx. unfold nthZ. apply nth_In. lia.
Qed.

Lemma congr_repeat k ax : un_congr (ORepeat k ax).
Proof.
  intros y [sy' gy'] Hn Hok [Hs Hg]. cbn [shape get] in Hs, Hg. subst sy'. cbn [un_arr un_ok] in *. apply andb_true_iff in Hok. destruct Hok as [Hax Hk].
  apply ltn_lt in Hax. split; cbn [arepeat shape get]; [reflexivity|]. intros out Ho. apply Hg.
  pose proof (in_bounds_nth _ _ ax Ho) as Hi. rewrite set_nth_length in Hi. specialize (Hi Hax).
  rewrite nth_set_nth_eq in Hi by exact Hax.
  apply (in_bounds_upd ax _ out (set_nth ax (nth ax (shape y) 0 * k) (shape y))); try assumption.
  - apply set_nth_length.
  - intros j Hj. apply set_nth_off. exact Hj.
  - pose proof (nonneg_nth ax _ Hn). assert (0 < k) by nia.
    split; [apply Z.div_pos; lia | apply Z.div_lt_upper_bound; lia].
Qed.

Lemma congr_diff ax : un_congr (ODiff ax).
Proof.
  intros y [sy' gy'] Hn Hok [Hs Hg]. cbn [shape get] in Hs, Hg. subst sy'. cbn [un_arr un_ok] in *. apply ltn_lt in Hok.
  split; cbn [adiff shape get]; [reflexivity|]. intros out Ho.
  pose proof (in_bounds_nth _ _ ax Ho) as Hi. rewrite set_nth_length in Hi. specialize (Hi Hok).
  rewrite nth_set_nth_eq in Hi by exact Hok.
  f_equal; apply Hg.
  - apply (in_bounds_upd ax _ out (set_nth ax (Z.max (nth ax (shape y) 0 - 1) 0) (shape y))); try assumption;
      [apply set_nth_length | intros j Hj; apply set_nth_off; exact Hj | lia].
  - replace out with (upd ax (fun i => i) out) by (unfold upd; apply set_nth_same).
    apply (in_bounds_upd ax _ out (set_nth ax (Z.max (nth ax (shape y) 0 - 1) 0) (shape y))); try assumption;
      [apply set_nth_length | intros j Hj; apply set_nth_off; exact Hj | lia].
Qed.

Lemma congr_cum f ax : un_congr (OCum f ax).
Proof.
  intros y [sy' gy'] Hn Hok [Hs Hg]. cbn [shape get] in Hs, Hg. subst sy'. cbn [un_arr un_ok] in *. apply ltn_lt in Hok.
  split; cbn [acum shape get]; [reflexivity|]. intros out Ho. f_equal. apply map_ext_in. intros k Hk.
  apply zrange_unit_In in Hk. apply Hg.
  pose proof (in_bounds_nth _ _ ax Ho Hok).
  change (set_nth ax k out) with (upd ax (fun _ => k) out).
  apply (in_bounds_upd ax _ out (shape y)); try assumption; [reflexivity | intros; reflexivity | lia].
Qed.

Lemma congr_reshape req : un_congr (OReshape req).
Proof.
  intros y [sy' gy'] Hn Hok [Hs Hg]. cbn [shape get] in Hs, Hg. subst sy'. cbn [un_arr un_ok un_shape shape] in *.
  destruct (reshape_resolve (prodZ (shape y)) req) as [s'|] eqn:E; [|discriminate].
  split; cbn [areshape shape get]; [reflexivity|]. intros out Ho. apply Hg.
  apply unravel_in_bounds; [exact Hn|]. rewrite <- (reshape_resolve_prod _ _ _ E). apply ravel_range. exact Ho.
Qed.

Lemma congr_rechunk c : un_congr (ORechunk c).
Proof. intros y y' _ _ H. exact H. Qed.

Theorem un_congr_all o : un_congr o.
Proof.
  destruct o; [apply congr_T | apply congr_slice | apply congr_expand | apply congr_squeeze | apply congr_broadcast
    | apply congr_flip | apply congr_roll | apply congr_take | apply congr_repeat | apply congr_diff | apply congr_reshape
    | apply congr_reduce | apply congr_cum | apply congr_rechunk].
Qed.

(* ---------------------------------------------------------------------- *)
(* n-ary operations are congruences *)
Lemma congr_stack ax : n_congr (NStack ax).
Proof.
  intros xs ys Hnn Hok H. destruct H as [|x y rest rest' Hxy Hr]; [apply aeq_refl|].
  cbn [map n_ok] in Hok. apply andb_true_iff in Hok. destruct Hok as [Hax Heq]. apply Nat.leb_le in Hax.
  rewrite forallb_forall in Heq.
  assert (Hshape : forall b, In b rest -> shape b = shape x).
  { intros b Hb. symmetry. apply zl_eqb_iff. apply Heq. apply in_map. exact Hb. }
  cbn [n_arr].
  change (aconcat ax (aexpand ax x) (map (aexpand ax) rest)) with (n_arr (NConcat ax) (map (aexpand ax) (x :: rest))).
  change (aconcat ax (aexpand ax y) (map (aexpand ax) rest')) with (n_arr (NConcat ax) (map (aexpand ax) (y :: rest'))).
  apply congr_concat.
  - apply Forall_forall. intros b Hb. apply in_map_iff in Hb. destruct Hb as (c & <- & Hc).
    cbn [aexpand shape]. apply nonneg_insert_at; [lia|]. rewrite Forall_forall in Hnn. apply Hnn. exact Hc.
  - cbn [map]. apply n_ok_concat_agree. cbn [aexpand shape]. split; [rewrite insert_at_length by exact Hax; lia|].
    apply Forall_forall. intros t Ht. rewrite map_map in Ht. apply in_map_iff in Ht. destruct Ht as (b & <- & Hb).
    cbn [aexpand shape]. rewrite (Hshape b Hb). split; [reflexivity | intros; reflexivity].
  - assert (Forall2 aeq (x :: rest) (y :: rest')) as H2 by (constructor; assumption).
    assert (Forall (fun b => shape b = shape x) (x :: rest)) as Hall
      by (constructor; [reflexivity | apply Forall_forall; exact Hshape]).
    clear - H2 Hall Hnn Hax. induction H2 as [|a b l l' Hab _ IH]; [constructor|].
    inversion Hall as [|a0 l0 Ha Hall']; inversion Hnn as [|a1 l1 Hna Hnn']. cbn [map]. constructor; [|apply IH; assumption].
    apply (congr_expand ax a b); [exact Hna | cbn [un_ok]; apply Nat.leb_le; rewrite Ha; exact Hax | exact Hab].
Qed.

Theorem n_congr_all o : n_congr o.
Proof. destruct o; [apply congr_elem | apply congr_concat | apply congr_stack]. Qed.

(* ---------------------------------------------------------------------- *)
(* flat -> index function -> flat is the identity on well-formed arrays *)
Lemma all_indices_ravel s : forall k, nonneg_shape s -> (k < length (all_indices s))%nat ->
  ravel s (nth k (all_indices s) []) = Z.of_nat k.
Proof.
  unfold nonneg_shape. induction s as [|n s IH]; intros k Hn Hk.
  - cbn [all_indices length] in Hk. assert (k = O) as -> by lia. reflexivity.
  - inversion Hn as [|n0 s0 Hn0 Hs]; subst.
    pose proof (all_indices_length s Hs) as HL. set (L := length (all_indices s)) in *.
    cbn [all_indices] in *.
    rewrite (flat_map_length_uniform _ L) in Hk by (intros a _; rewrite map_length; reflexivity).
    rewrite zrange_unit_length in Hk.
    assert (0 < L)%nat as HL0 by (destruct L; lia).
    pose proof (Nat.div_mod k L ltac:(lia)) as Hdm.
    pose proof (Nat.mod_upper_bound k L ltac:(lia)) as Hmod.
    set (i := (k / L)%nat) in *. set (j := (k mod L)%nat) in *.
    assert (i < Z.to_nat n)%nat as Hi by (apply Nat.div_lt_upper_bound; lia).
    replace k with (i * L + j)%nat at 1 by lia.
    rewrite (flat_map_nth_uniform _ L 0 []) by (try (intros a _; rewrite map_length; reflexivity); rewrite ?zrange_unit_length; lia).
    rewrite zrange_unit_nth by exact Hi.
    rewrite (nth_indep _ [] (Z.of_nat i :: [])) by (rewrite map_length; exact Hmod).
    rewrite (map_nth (cons (Z.of_nat i))). cbn [ravel].
    rewrite IH by (try exact Hs; exact Hmod).
    pose proof (prodZ_nonneg s Hs). rewrite <- (Z2Nat.id (prodZ s)) by lia. rewrite <- HL. lia.
Qed.

Lemma to_nd_of_nd a : wf a -> to_nd (of_nd a) = a.
Proof.
  destruct a as [s d]. intros [Hs Hl]. cbn [nshape ndata] in *. unfold to_nd, of_nd, to_list. cbn [shape get]. f_equal.
  apply (nth_ext _ _ 0 0).
  - rewrite map_length, all_indices_length by exact Hs. symmetry. exact Hl.
  - intros k Hk. rewrite map_length in Hk.
    rewrite (nth_indep _ 0 (nget (mknd s d) [])) by (rewrite map_length; exact Hk).
    rewrite (map_nth (nget (mknd s d))). unfold nget, nthZ. cbn [nshape ndata].
    rewrite all_indices_ravel by assumption. rewrite Nat2Z.id. reflexivity.
Qed.

(* ---------------------------------------------------------------------- *)
(* the evaluator tabulates the compositional denotation *)
Lemma sequence_den_eval ps :
  Forall (fun p => match pden p with
                   | Some x => nonneg_shape (shape x) /\ eval p = Some (to_nd x)
                   | None => eval p = None
                   end) ps ->
  match sequence (map pden ps) with
  | Some xs => Forall (fun x => nonneg_shape (shape x)) xs /\ sequence (map eval ps) = Some (map to_nd xs)
  | None => sequence (map eval ps) = None
  end.
Proof.
  induction 1 as [|p ps Hp _ IH]; cbn [map sequence]; [split; [constructor | reflexivity]|].
  destruct (pden p) as [x|].
  - destruct Hp as [Hn ->]. destruct (sequence (map pden ps)) as [xs|].
    + destruct IH as [Hall ->]. split; [constructor; assumption | reflexivity].
    + rewrite IH. reflexivity.
  - rewrite Hp. reflexivity.
Qed.

Theorem eval_den p :
  match pden p with
  | Some x => nonneg_shape (shape x) /\ eval p = Some (to_nd x)
  | None => eval p = None
  end.
Proof.
  induction p as [s d|s|n|c|o p IH|o ps IH] using prog_ind2; cbn [pden eval].
  - destruct (src_ok s d) eqn:E; [|reflexivity].
    assert (wf (mknd s d)) as Hw by (apply wfb_iff; exact E).
    split; [apply Hw | rewrite to_nd_of_nd by exact Hw; reflexivity].
  - destruct (all_nonneg s) eqn:E; [|reflexivity]. split; [apply all_nonneg_iff; exact E | reflexivity].
  - split; [cbn; constructor; [lia | constructor] | reflexivity].
  - split; [constructor | reflexivity].
  - destruct (pden p) as [x|]; [|rewrite IH; reflexivity]. destruct IH as [Hn ->].
    unfold un_eval. rewrite nshape_to_nd. destruct (un_ok o (shape x)) eqn:Hok; [|reflexivity].
    split; [rewrite un_arr_shape; apply un_shape_nonneg; assumption|].
    f_equal.
    assert (to_nd (un_arr o (of_nd (to_nd x))) = to_nd (un_arr o x)) as Heq.
    { apply to_nd_ext. apply un_congr_all; [exact Hn | exact Hok | apply of_to_nd]. }
    destruct o; try exact Heq. reflexivity.
  - pose proof (sequence_den_eval ps IH) as Hseq.
    destruct (sequence (map pden ps)) as [xs|]; [|rewrite Hseq; reflexivity]. destruct Hseq as [Hall ->].
    unfold n_eval. rewrite map_map. cbn [nshape to_nd].
    change (map (fun x => shape x) xs) with (map shape xs).
    destruct (n_ok o (map shape xs)) eqn:Hok; [|reflexivity].
    split.
    + rewrite n_arr_shape. apply n_shape_nonneg. apply Forall_forall. intros t Ht. apply in_map_iff in Ht.
      destruct Ht as (x & <- & Hx). rewrite Forall_forall in Hall. apply Hall. exact Hx.
    + f_equal. apply to_nd_ext. rewrite map_map. apply n_congr_all.
      * apply Forall_forall. intros y Hy. apply in_map_iff in Hy. destruct Hy as (x & <- & Hx).
        cbn [of_nd shape nshape to_nd]. rewrite Forall_forall in Hall. apply Hall. exact Hx.
      * rewrite map_map. cbn [of_nd shape nshape to_nd]. exact Hok.
      * rewrite <- (map_id xs) at 2. apply Forall2_map_same. intros x _. apply of_to_nd.
Qed.

Corollary eval_is_tabulated_den p : eval p = option_map to_nd (pden p).
Proof. pose proof (eval_den p) as H. destruct (pden p); cbn [option_map]; [apply H | exact H]. Qed.
